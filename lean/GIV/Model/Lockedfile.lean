/-
  GIV.Model.Lockedfile — a small OS model (files, open file descriptions, BSD flock table,
  in-process mutexes) and the system-call programs of package lockedfile
  (/repo/lockedfile/{lockedfile,lockedfile_filelock,mutex}.go, internal/filelock/filelock_unix.go).

  * `World`   : file contents, open file descriptions (offset, access mode, owner), the flock
                table per file (`ex` holder / `sh` holders, BSD semantics: EX excludes all, SH
                excludes EX, a blocked flock is a step that is not enabled, the lock is dropped
                by LOCK_UN or by close), sync.Mutex bits, and the ghost commit history `hist`
                (one entry per release of an exclusive lock: the contents left behind).
  * `osStep`  : one system call of one client, with an injected `Fault`.
  * `Pc`/`Frame`/`sysOf`/`advance` : the programs of Read / Write / Transform / OpenFile (Open,
                Create, Edit) / Close / Mutex.Lock / unlock and of user I/O on a held File, in the
                order the Go code performs the calls, error and roll-back paths included.  The
                constants, flag sets, the O_TRUNC stripping, the lock-mode switch and the
                truncate test come from `GIV.Gen.Lockedfile` (regenerated from the source).
  * `step`    : the transition system: any number of clients, each either calling a public
                operation, performing the next system call of its running operation (with any
                fault), or returning.  `Reachable` = all interleavings.

  Core Lean only.
-/
import GIV.Basic
import GIV.Gen.Lockedfile

namespace GIV.Lockedfile
open GIV

abbrev Path := Nat
abbrev Fd := Nat
abbrev Cid := Nat

/-! ### bytes -/

/-- Contents as seen by a reader; a file that does not exist yet reads as empty. -/
def contentOf : Option Bytes → Bytes
  | none => []
  | some b => b

def zeros (n : Nat) : Bytes := List.replicate n 0

/-- pwrite(2): store `bs` at offset `off`, zero-filling a hole; a zero-length write changes nothing. -/
def pwriteAt (d : Bytes) (off : Nat) (bs : Bytes) : Bytes :=
  if bs.isEmpty then d else d.take off ++ zeros (off - d.length) ++ bs ++ d.drop (off + bs.length)

/-- ftruncate(2). -/
def resize (d : Bytes) (n : Nat) : Bytes := d.take n ++ zeros (n - d.length)

/-- Function update. -/
def upd {α : Type} (f : Nat → α) (k : Nat) (v : α) : Nat → α := fun i => if i = k then v else f i

@[simp] theorem upd_same {α : Type} (f : Nat → α) (k : Nat) (v : α) : upd f k v k = v := by simp [upd]
theorem upd_other {α : Type} (f : Nat → α) (k : Nat) (v : α) (i : Nat) (h : i ≠ k) : upd f k v i = f i := by
  simp [upd, h]
theorem upd_apply {α : Type} (f : Nat → α) (k : Nat) (v : α) (i : Nat) :
    upd f k v i = if i = k then v else f i := rfl

/-! ### open(2) flags: kernel side (Linux ABI) and client side (regenerated from the source) -/

/-- `a &^ b` of Go. -/
def andNot (a b : Nat) : Nat := a ^^^ (a &&& b)

/-- O_ACCMODE. -/
def accMode (flags : Nat) : Nat := flags &&& 3
/-- the descriptor can be read: O_RDONLY or O_RDWR. -/
def accRd (flags : Nat) : Bool := accMode flags == 0 || accMode flags == 2
/-- the descriptor can be written: O_WRONLY or O_RDWR. -/
def accWr (flags : Nat) : Bool := accMode flags == 1 || accMode flags == 2
def fCreat (flags : Nat) : Bool := flags.testBit 6
def fExcl (flags : Nat) : Bool := flags.testBit 7
def fTrunc (flags : Nat) : Bool := flags.testBit 9
def fAppend (flags : Nat) : Bool := flags.testBit 10

/-- What openFile passes to os.OpenFile. -/
def openFlags (flag : Nat) : Nat :=
  if Gen.Lockedfile.stripsTrunc then andNot flag Gen.Lockedfile.O_TRUNC else flag

inductive LockKind
  | sh
  | ex
  deriving DecidableEq, Repr

/-- The lock-mode switch of openFile. -/
def lockExclusive (flag : Nat) : Bool :=
  let tag := flag &&& Gen.Lockedfile.lockMask
  if Gen.Lockedfile.exclusiveCases.contains tag then true
  else if Gen.Lockedfile.sharedCases.contains tag then false
  else !Gen.Lockedfile.defaultShared

def lockMode (flag : Nat) : LockKind := if lockExclusive flag then .ex else .sh

/-- openFile truncates (after the lock) when this holds. -/
def wantsTrunc (flag : Nat) : Bool := Gen.Lockedfile.truncTest flag

/-! ### the OS -/

structure OpenFD where
  path : Path
  off : Nat
  rd : Bool
  wr : Bool
  app : Bool
  owner : Cid

structure LockSt where
  ex : Option Fd
  sh : List Fd

structure World where
  files : Path → Option Bytes
  fds : Fd → Option OpenFD
  nextFd : Nat
  locks : Path → LockSt
  mus : Nat → Bool
  /-- ghost: the contents left behind by each release of an exclusive lock, newest first. -/
  hist : Path → List Bytes

def World.content (w : World) (p : Path) : Bytes := contentOf (w.files p)

inductive Err
  | injected | enoent | eexist | ebadf | einval | eintr | eappend | eclosed
  deriving DecidableEq, Repr

inductive Res
  | ok
  | fd (n : Fd)
  | bytes (b : Bytes)
  | eof
  | n (k : Nat)
  | short (k : Nat)
  | size (k : Nat)
  | err (e : Err)
  deriving DecidableEq, Repr

def Res.isErr : Res → Bool
  | .err _ => true
  | .short _ => true
  | _ => false

inductive Fault
  | none
  | fail
  | short (k : Nat)
  | eintr
  /-- not a failure but an environment choice at close(2): the descriptor being closed is not the last one of
  its open file description (it was dup'ed, or a child process inherited it), so the description — and any
  flock on it — survives the close. -/
  | shared
  deriving DecidableEq, Repr

inductive Sys
  | open (p : Path) (flags : Nat)
  | flock (fd : Fd) (k : LockKind)
  | funlock (fd : Fd)
  | ftruncate (fd : Fd) (n : Nat)
  | read (fd : Fd) (n : Nat)
  | write (fd : Fd) (bs : Bytes)
  | pwrite (fd : Fd) (bs : Bytes) (off : Nat)
  | fstat (fd : Fd)
  | close (fd : Fd)
  | mlock (m : Nat)
  | munlock (m : Nat)
  deriving DecidableEq, Repr

/-- `fd` holds a lock of kind `k` on `p`. -/
def holdsFd (w : World) (fd : Fd) (p : Path) : LockKind → Prop
  | .ex => (w.locks p).ex = some fd
  | .sh => fd ∈ (w.locks p).sh

/-- Remove `fd`'s lock on `p` (if any); releasing an exclusive lock commits the contents to `hist`. -/
def dropLock (w : World) (fd : Fd) (p : Path) : World :=
  { w with
    locks := upd w.locks p
      ⟨if (w.locks p).ex = some fd then none else (w.locks p).ex, (w.locks p).sh.filter (· != fd)⟩
    hist := if (w.locks p).ex = some fd then upd w.hist p (w.content p :: w.hist p) else w.hist }

/-- `fd` (which may convert a lock it already has) takes a lock of kind `k` on `p`. -/
def acquire (w : World) (fd : Fd) (p : Path) (k : LockKind) : World :=
  match k with
  | .ex => { dropLock w fd p with locks := upd (dropLock w fd p).locks p ⟨some fd, []⟩ }
  | .sh => { dropLock w fd p with locks := upd (dropLock w fd p).locks p ⟨none, fd :: ((dropLock w fd p).locks p).sh⟩ }

/-- close(2): the descriptor's lock is dropped and the descriptor goes away. -/
def closeFd (w : World) (fd : Fd) (p : Path) : World :=
  { dropLock w fd p with fds := upd w.fds fd none }

/-- BSD flock compatibility: may `fd` take a lock of kind `k` on `p` now? -/
def compatible (w : World) (fd : Fd) (p : Path) : LockKind → Bool
  | .ex => ((w.locks p).ex == none || (w.locks p).ex == some fd) && (w.locks p).sh.all (· == fd)
  | .sh => (w.locks p).ex == none || (w.locks p).ex == some fd

def faultErr : Fault → Option Err
  | .fail => some .injected
  | .eintr => some .eintr
  | _ => Option.none

/-- One system call by client `c`.  `none`: the call is not enabled (it blocks). -/
def osStep (w : World) (c : Cid) (s : Sys) (f : Fault) : Option (World × Res) :=
  match s with
  | .open p flags =>
    match faultErr f with
    | some e => some (w, .err e)
    | none =>
      if (w.files p).isNone && !fCreat flags then some (w, .err .enoent)
      else if (w.files p).isSome && fCreat flags && fExcl flags then some (w, .err .eexist)
      else
        some ({ w with files := upd w.files p (some (if fTrunc flags then [] else w.content p)),
                       fds := upd w.fds w.nextFd (some ⟨p, 0, accRd flags, accWr flags, fAppend flags, c⟩),
                       nextFd := w.nextFd + 1 },
              .fd w.nextFd)
  | .flock fd k =>
    match w.fds fd with
    | none => some (w, .err .ebadf)
    | some o =>
      -- flock(2) refuses a descriptor that is neither readable nor writable (access mode 3)
      if !(o.rd || o.wr) then some (w, .err .ebadf)
      else if compatible w fd o.path k then
        match faultErr f with
        | some e => some (w, .err e)
        | none =>
          some (acquire w fd o.path k, .ok)
      else none
  | .funlock fd =>
    match w.fds fd with
    | none => some (w, .err .ebadf)
    | some o =>
      match faultErr f with
      | some e => some (w, .err e)
      | none => some (dropLock w fd o.path, .ok)
  | .ftruncate fd n =>
    match w.fds fd with
    | none => some (w, .err .ebadf)
    | some o =>
      match faultErr f with
      | some e => some (w, .err e)
      | none =>
        if o.wr then some ({ w with files := upd w.files o.path (some (resize (w.content o.path) n)) }, .ok)
        else some (w, .err .einval)
  | .read fd n =>
    match w.fds fd with
    | none => some (w, .err .ebadf)
    | some o =>
      match faultErr f with
      | some e => some (w, .err e)
      | none =>
        if o.rd then
          let d := w.content o.path
          if o.off < d.length then
            let b := (d.drop o.off).take n
            some ({ w with fds := upd w.fds fd (some { o with off := o.off + b.length }) }, .bytes b)
          else some (w, .eof)
        else some (w, .err .ebadf)
  | .write fd bs =>
    match w.fds fd with
    | none => some (w, .err .ebadf)
    | some o =>
      match faultErr f with
      | some e => some (w, .err e)
      | none =>
        if o.wr then
          let d := w.content o.path
          let pos := if o.app then d.length else o.off
          let bs' := match f with
            | .short k => bs.take k
            | _ => bs
          some ({ w with files := upd w.files o.path (some (pwriteAt d pos bs')),
                         fds := upd w.fds fd (some { o with off := pos + bs'.length }) },
                match f with
                | .short _ => .short bs'.length
                | _ => .n bs'.length)
        else some (w, .err .ebadf)
  | .pwrite fd bs off =>
    match w.fds fd with
    | none => some (w, .err .ebadf)
    | some o =>
      match faultErr f with
      | some e => some (w, .err e)
      | none =>
        if o.app then some (w, .err .eappend)
        else if o.wr then
          let d := w.content o.path
          let bs' := match f with
            | .short k => bs.take k
            | _ => bs
          some ({ w with files := upd w.files o.path (some (pwriteAt d off bs')) },
                match f with
                | .short _ => .short bs'.length
                | _ => .n bs'.length)
        else some (w, .err .ebadf)
  | .fstat fd =>
    match w.fds fd with
    | none => some (w, .err .ebadf)
    | some o =>
      match faultErr f with
      | some e => some (w, .err e)
      | none => some (w, .size (w.content o.path).length)
  | .close fd =>
    match w.fds fd with
    | none => some (w, .err .eclosed)
    | some o =>
      match faultErr f with
      | some e => some (w, .err e)
      | none =>
        -- flock(2) locks belong to the open file description: they go away with its LAST descriptor
        if f = .shared then some (w, .ok) else some (closeFd w fd o.path, .ok)
  | .mlock m => if w.mus m then none else some ({ w with mus := upd w.mus m true }, .ok)
  | .munlock m => if w.mus m then some ({ w with mus := upd w.mus m false }, .ok) else none

/-! ### the programs of package lockedfile -/

/-- A `*lockedfile.File` returned to the caller (or the file captured by a Mutex unlock function). -/
structure Handle where
  fd : Fd
  path : Path
  flag : Nat
  mu : Option Nat
  deriving DecidableEq

/-- User I/O on a held File (the embedded *os.File methods). -/
inductive UserIO
  | read (n : Nat)
  | write (bs : Bytes)
  | pwrite (bs : Bytes) (off : Nat)
  | truncate (n : Nat)
  | stat
  deriving DecidableEq

def UserIO.sys (fd : Fd) : UserIO → Sys
  | .read n => .read fd n
  | .write bs => .write fd bs
  | .pwrite bs off => .pwrite fd bs off
  | .truncate n => .ftruncate fd n
  | .stat => .fstat fd

/-- The public operations. `Open` / `Create` / `Edit` are `openFile` with the regenerated flag sets. -/
inductive Op
  | read (p : Path)
  | write (p : Path) (content : Bytes)
  | transform (p : Path) (t : Bytes → Option Bytes)
  | openFile (p : Path) (flag : Nat)
  | mutexLock (p : Path) (m : Nat)
  | closeH (h : Handle)
  | unlockM (h : Handle)
  | user (h : Handle) (io : UserIO)

def Op.open (p : Path) : Op := .openFile p Gen.Lockedfile.flagsOpen
def Op.create (p : Path) : Op := .openFile p Gen.Lockedfile.flagsCreate
def Op.edit (p : Path) : Op := .openFile p Gen.Lockedfile.flagsEdit

def Op.path : Op → Path
  | .read p => p
  | .write p _ => p
  | .transform p _ => p
  | .openFile p _ => p
  | .mutexLock p _ => p
  | .closeH h => h.path
  | .unlockM h => h.path
  | .user h _ => h.path

def Op.flag : Op → Nat
  | .read _ => Gen.Lockedfile.flagsOpen
  | .write _ _ => Gen.Lockedfile.flagsWrite
  | .transform _ _ => Gen.Lockedfile.flagsEdit
  | .openFile _ flag => flag
  | .mutexLock _ _ => Gen.Lockedfile.flagsMutex
  | .closeH h => h.flag
  | .unlockM h => h.flag
  | .user h _ => h.flag

inductive Ret
  | ok
  | err
  | bytes (b : Bytes)
  | handle (fd : Fd)
  | res (r : Res)
  deriving DecidableEq

/-- Which system call of an operation a fault hit (ghost). -/
inductive Tag
  | open | lock | lockClose | trunc | truncStat | read | write | tail | tailUndo | body | shrink | rb1 | rb2
  | mlock | munlock | unlock | close | user
  deriving DecidableEq, Repr

/-- Program counter: the next system call of the running operation, with its local variables. -/
inductive Pc
  /-- openFile: `os.OpenFile(name, flag&^os.O_TRUNC, perm)`. -/
  | open
  /-- openFile: `filelock.Lock(f)` / `filelock.RLock(f)` (retried on EINTR). -/
  | lock (fd : Fd)
  /-- openFile: `f.Truncate(0)` when the flag has O_TRUNC. -/
  | trunc (fd : Fd)
  /-- openFile, Truncate failed: `f.Stat()`. -/
  | truncStat (fd : Fd)
  /-- Read: io.ReadAll. -/
  | readAll (fd : Fd) (acc : Bytes)
  /-- Write: io.Copy, `rest` still to be written. -/
  | copy (fd : Fd) (rest : Bytes)
  /-- Transform: io.ReadAll. -/
  | tRead (fd : Fd) (acc : Bytes)
  /-- Transform, len(new) > len(old): `f.WriteAt(new[len(old):], len(old))`. -/
  | tTail (fd : Fd) (old new : Bytes)
  /-- Transform, tail write failed: `f.Truncate(len(old))`, then return the error. -/
  | tTailUndo (fd : Fd) (old : Bytes)
  /-- Transform: `f.WriteAt(new[:len(old)], 0)` resp. `f.WriteAt(new, 0)`. -/
  | tBody (fd : Fd) (old new : Bytes)
  /-- Transform, len(new) < len(old): `f.Truncate(len(new))`. -/
  | tShrink (fd : Fd) (old new : Bytes)
  /-- Transform, deferred roll-back: `f.WriteAt(old, 0)`. -/
  | tRb1 (fd : Fd) (old : Bytes)
  /-- Transform, deferred roll-back: `f.Truncate(len(old))`. -/
  | tRb2 (fd : Fd) (old : Bytes)
  /-- Mutex.Lock: `mu.mu.Lock()`. -/
  | mlock (fd : Fd) (m : Nat)
  /-- unlock function of Mutex.Lock: `mu.mu.Unlock()`. -/
  | munlock (fd : Fd) (m : Nat)
  /-- closeFile: `filelock.Unlock(f)`. -/
  | unlock (fd : Fd) (ret : Ret)
  /-- closeFile / error paths of openFile: `f.Close()`; `locked`: the lock is still held. -/
  | close (fd : Fd) (ret : Ret) (locked : Bool)
  /-- one call of a method of the embedded *os.File. -/
  | user (s : Sys)
  /-- the operation is about to return `ret`. -/
  | done (ret : Ret)
  deriving DecidableEq

structure Frame where
  op : Op
  pc : Pc
  /-- ghost: commit history of the file when the operation was called. -/
  h0 : List Bytes
  /-- ghost: commit history of the file when the operation got its lock. -/
  h1 : List Bytes
  /-- ghost: the faults injected into this operation so far, newest first. -/
  flt : List (Tag × Fault)
  /-- ghost: the contents this operation left behind when it released its exclusive lock. -/
  committed : Option Bytes

/-- Source shapes of the locking code that the programs below hard-code (each regenerated from the source by
factgen; `facts_program_shape` in Props/C06 and Props/C07 re-checks them on every run). -/
def programShapeLock : Bool :=
  Gen.Lockedfile.truncFailUnlocksCloses && Gen.Lockedfile.lockFailCloses && Gen.Lockedfile.unlockBeforeClose &&
  Gen.Lockedfile.closeErrCombine && Gen.Lockedfile.rlockIsSH && Gen.Lockedfile.lockIsEX && Gen.Lockedfile.unlockIsUN &&
  Gen.Lockedfile.openFileCallsOpenFile && Gen.Lockedfile.closeCallsCloseFile && Gen.Lockedfile.mutexLockShape

/-- Source shapes of Read / Write / Transform that the programs below hard-code (Props/C07 only). -/
def programShapeData : Bool :=
  Gen.Lockedfile.readShape && Gen.Lockedfile.writeShape && Gen.Lockedfile.tPrologue && Gen.Lockedfile.tBody &&
  Gen.Lockedfile.tTailFirst && Gen.Lockedfile.tRollback

/-- closeFile: `filelock.Unlock(f)` and then `f.Close()` — if the source unlocks first (regenerated
`unlockBeforeClose`); otherwise only the Close, with the lock still held. -/
def finPc (fd : Fd) (ret : Ret) : Pc :=
  if Gen.Lockedfile.unlockBeforeClose then .unlock fd ret else .close fd ret true

/-- Where Transform goes when a body step failed: the deferred roll-back, if the source has it. -/
def rollbackPc (fd : Fd) (old : Bytes) : Pc :=
  if Gen.Lockedfile.tRollback then .tRb1 fd old else finPc fd .err

/-- The pc reached when openFile has returned a locked file to the operation. -/
def afterOpen (op : Op) (fd : Fd) : Pc :=
  match op with
  | .read _ => .readAll fd []
  | .write _ content => if content.isEmpty then finPc fd .ok else .copy fd content
  | .transform _ _ => .tRead fd []
  | .openFile _ _ => .done (.handle fd)
  | .mutexLock _ m => .mlock fd m
  | _ => .done .err

/-- After a successful flock. -/
def afterLock (op : Op) (fd : Fd) : Pc :=
  if wantsTrunc op.flag && Gen.Lockedfile.truncAfterLock then .trunc fd else afterOpen op fd

/-- The next system call (and its ghost tag); `n` is the chunk size chosen by io.ReadAll / io.Copy. -/
def sysOf (fr : Frame) (n : Nat) : Option (Sys × Tag) :=
  match fr.pc with
  | .open => some (.open fr.op.path (openFlags fr.op.flag), .open)
  | .lock fd => some (.flock fd (lockMode fr.op.flag), .lock)
  | .trunc fd => some (.ftruncate fd Gen.Lockedfile.truncSize, .trunc)
  | .truncStat fd => some (.fstat fd, .truncStat)
  | .readAll fd _ => if n = 0 then none else some (.read fd n, .read)
  | .copy fd rest => if n = 0 then none else some (.write fd (rest.take n), .write)
  | .tRead fd _ => if n = 0 then none else some (.read fd n, .read)
  | .tTail fd old new => some (.pwrite fd (new.drop old.length) old.length, .tail)
  | .tTailUndo fd old => some (.ftruncate fd old.length, .tailUndo)
  | .tBody fd old new =>
    if new.length ≥ old.length then some (.pwrite fd (new.take old.length) 0, .body)
    else some (.pwrite fd new 0, .body)
  | .tShrink fd _ new => some (.ftruncate fd new.length, .shrink)
  | .tRb1 fd old => some (.pwrite fd old 0, .rb1)
  | .tRb2 fd old => some (.ftruncate fd old.length, .rb2)
  | .mlock _ m => some (.mlock m, .mlock)
  | .munlock _ m => some (.munlock m, .munlock)
  | .unlock fd _ => some (.funlock fd, .unlock)
  | .close fd _ _ => some (.close fd, .close)
  | .user s => some (s, .user)
  | .done _ => none

/-- Does the operation report the error of closeFile? (Write and Close do; Read, Transform and the
Mutex unlock function drop it: `defer f.Close()`.) -/
def reportsCloseErr : Op → Bool
  | .write _ _ => true
  | .closeH _ => true
  | _ => false

def closeRet (op : Op) (ret : Ret) (failed : Bool) : Ret :=
  if failed && reportsCloseErr op && ret == .ok then .err else ret

/-- The successor pc after the system call returned `r`.  `c` = contents of the file before the call
(used only for the ghost `committed`). -/
def advancePc (op : Op) (pc : Pc) (n : Nat) (r : Res) : Pc :=
  match pc with
  | .open =>
    match r with
    | .fd fd =>
      if wantsTrunc op.flag && !Gen.Lockedfile.truncAfterLock then .trunc fd else .lock fd
    | _ => .done .err
  | .lock fd =>
    match r with
    | .ok => afterLock op fd
    | .err .eintr => if Gen.Lockedfile.retriesEINTR then .lock fd else .close fd .err false
    | _ => .close fd .err false
  | .trunc fd =>
    match r with
    | .ok => if Gen.Lockedfile.truncAfterLock then afterOpen op fd else .lock fd
    | _ => .truncStat fd
  | .truncStat fd => finPc fd .err
  | .readAll fd acc =>
    match r with
    | .bytes b => .readAll fd (acc ++ b)
    | .eof => finPc fd (.bytes acc)
    | _ => finPc fd .err
  | .copy fd rest =>
    match r with
    | .n _ => if (rest.drop n).isEmpty then finPc fd .ok else .copy fd (rest.drop n)
    | _ => finPc fd .err
  | .tRead fd acc =>
    match r with
    | .bytes b => .tRead fd (acc ++ b)
    | .eof =>
      match op with
      | .transform _ t =>
        match t acc with
        | none => finPc fd .err
        | some new =>
          if new.length > acc.length && Gen.Lockedfile.tTailFirst then .tTail fd acc new else .tBody fd acc new
      | _ => finPc fd .err
    | _ => finPc fd .err
  | .tTail fd old new =>
    match r with
    | .n _ => .tBody fd old new
    | _ => .tTailUndo fd old
  | .tTailUndo fd _ => finPc fd .err
  | .tBody fd old new =>
    match r with
    | .n _ => if new.length ≥ old.length then finPc fd .ok else .tShrink fd old new
    | _ => rollbackPc fd old
  | .tShrink fd old _ =>
    match r with
    | .ok => finPc fd .ok
    | _ => rollbackPc fd old
  | .tRb1 fd old =>
    match r with
    | .n _ => .tRb2 fd old
    | _ => finPc fd .err
  | .tRb2 fd _ => finPc fd .err
  | .mlock fd _ => .done (.handle fd)
  | .munlock fd _ => finPc fd .ok
  | .unlock fd ret =>
    match r with
    | .ok => .close fd ret false
    | .err .eintr =>
      if Gen.Lockedfile.retriesEINTR then .unlock fd ret else .close fd (closeRet op ret true) true
    | _ => .close fd (closeRet op ret true) true
  | .close _ ret _ =>
    match r with
    | .ok => .done ret
    | _ => .done (closeRet op ret true)
  | .user _ => .done (.res r)
  | .done ret => .done ret

/-- Does this step release the operation's lock?  (`unlock` succeeded, or `close` succeeded while the
lock was still held.) -/
def releases (pc : Pc) (r : Res) (f : Fault) : Bool :=
  match pc, r with
  | .unlock _ _, .ok => true
  | .close _ _ true, .ok => f != .shared
  | _, _ => false

/-! ### clients and the transition system -/

structure Client where
  held : List Handle
  cur : Option Frame

structure State where
  w : World
  cl : Cid → Client

inductive Act
  /-- the client calls a public operation -/
  | call (op : Op)
  /-- the running operation performs its next system call; `f` is the injected fault, `n` the chunk size -/
  | sys (f : Fault) (n : Nat)
  /-- the running operation returns to its caller -/
  | ret

structure Label where
  c : Cid
  a : Act

def startPc : Op → Pc
  | .closeH h => finPc h.fd .ok
  | .unlockM h =>
    match h.mu with
    | some m => .munlock h.fd m
    | none => .done .err
  | .user h io => .user (io.sys h.fd)
  | _ => .open

/-- May the client call `op` now?  Close / unlock / user I/O need a held handle of the right kind. -/
def callable (held : List Handle) : Op → Bool
  | .closeH h => held.contains h && h.mu.isNone
  | .unlockM h => held.contains h && h.mu.isSome
  | .user h _ => held.contains h && h.mu.isNone
  | _ => true

/-- Handles after the call: Close and the unlock function consume theirs. -/
def heldAfterCall (held : List Handle) : Op → List Handle
  | .closeH h => held.erase h
  | .unlockM h => held.erase h
  | _ => held

/-- Handles after the return: OpenFile and Mutex.Lock hand one out. -/
def heldAfterRet (held : List Handle) (op : Op) (r : Ret) : List Handle :=
  match op, r with
  | .openFile p flag, .handle fd => ⟨fd, p, flag, none⟩ :: held
  | .mutexLock p m, .handle fd => ⟨fd, p, Gen.Lockedfile.flagsMutex, some m⟩ :: held
  | _, _ => held

def setClient (s : State) (c : Cid) (x : Client) : State := { s with cl := upd s.cl c x }

/-- Does fault `f` take effect on system call `s`?  (A "short write" only affects write and pwrite.) -/
def Fault.affects (f : Fault) (s : Sys) : Bool :=
  match f, s with
  | .none, _ => false
  | .short _, .write _ _ => true
  | .short _, .pwrite _ _ _ => true
  | .short _, _ => false
  | .shared, .close _ => true
  | .shared, _ => false
  | _, _ => true

/-- The frame after a system call `sc` (tagged `tag`, fault `f`, chunk `n`) took the world from `w` to `w'`
with result `r`. -/
def nextFrame (w w' : World) (fr : Frame) (sc : Sys) (tag : Tag) (f : Fault) (n : Nat) (r : Res) : Frame :=
  { op := fr.op
    pc := advancePc fr.op fr.pc n r
    h0 := fr.h0
    h1 := (match fr.pc, r with
      | .lock _, .ok => w'.hist fr.op.path
      | _, _ => fr.h1)
    flt := if f.affects sc then (tag, f) :: fr.flt else fr.flt
    committed := if releases fr.pc r f && lockMode fr.op.flag == .ex
      then some (w.content fr.op.path) else fr.committed }

/-- One transition; also reports the result of the system call (for trace comparison). -/
def stepRes (s : State) (l : Label) : Option (State × Option Res) :=
  match l.a with
  | .call op =>
    match (s.cl l.c).cur with
    | some _ => none
    | none =>
      if callable (s.cl l.c).held op then
        some (setClient s l.c ⟨heldAfterCall (s.cl l.c).held op,
          some ⟨op, startPc op, s.w.hist op.path, [], [], none⟩⟩, none)
      else none
  | .sys f n =>
    match (s.cl l.c).cur with
    | none => none
    | some fr =>
      match sysOf fr n with
      | none => none
      | some (sc, tag) =>
        match osStep s.w l.c sc f with
        | none => none
        | some (w', r) =>
          some (⟨w', upd s.cl l.c ⟨(s.cl l.c).held, some (nextFrame s.w w' fr sc tag f n r)⟩⟩, some r)
  | .ret =>
    match (s.cl l.c).cur with
    | none => none
    | some fr =>
      match fr.pc with
      | .done r => some (setClient s l.c ⟨heldAfterRet (s.cl l.c).held fr.op r, none⟩, none)
      | _ => none

def step (s : State) (l : Label) : Option State := (stepRes s l).map (·.1)

/-- Initial world: the given files, nothing open, nothing locked; the commit history of each file starts
with its initial contents. -/
def initWorld (files0 : Path → Option Bytes) : World :=
  { files := files0, fds := fun _ => none, nextFd := 0, locks := fun _ => ⟨none, []⟩, mus := fun _ => false,
    hist := fun p => [contentOf (files0 p)] }

def init (files0 : Path → Option Bytes) : State :=
  ⟨initWorld files0, fun _ => ⟨[], none⟩⟩

/-- All states reachable by any interleaving of any clients calling any operations with any faults. -/
inductive Reachable (files0 : Path → Option Bytes) : State → Prop
  | init : Reachable files0 (init files0)
  | step {s s' : State} (l : Label) : Reachable files0 s → step s l = some s' → Reachable files0 s'

/-- Run a list of labels. -/
def runLabels (s : State) : List Label → Option State
  | [] => some s
  | l :: ls => (step s l).bind (fun s' => runLabels s' ls)

theorem reachable_run {files0 : Path → Option Bytes} {s s' : State} (ls : List Label)
    (h : Reachable files0 s) (hr : runLabels s ls = some s') : Reachable files0 s' := by
  induction ls generalizing s with
  | nil => simp [runLabels] at hr; exact hr ▸ h
  | cons l ls ih =>
    simp only [runLabels] at hr
    cases hs : step s l with
    | none => simp [hs] at hr
    | some s1 =>
      simp [hs] at hr
      exact ih (Reachable.step l h hs) hr

end GIV.Lockedfile
