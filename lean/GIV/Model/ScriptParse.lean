/-
  GIV.Model.ScriptParse — executable model of the line tokenizer, variable expansion and
  environment handling of /repo/testscript (property C02):

    testscript.go  (*TestScript).parse, expand, Setenv, Getenv, setup (envMap construction),
                   exec / execBackground (child environment = ts.env + PWD)
    cmd.go         cmdEnv
    GOROOT         os.Expand / getShellName / isShellSpecialVar / isAlphaNum,
                   regexp.QuoteMeta, os/exec dedupEnv, syscall.copyenv (what a child's Getenv sees)

  Two forms are given for the two Go loops that matter:

  * the *index form* (`parseIdx`, `osExpandIdx`) is written with the Go variables — `i`, `start` (an
    index or -1), `quoted`, chunks as slices `line[start:i]`; `j`, `i`, `buf`, `s[i:j]` and
    getShellName's scanning loops — with fuel, Go panics as `Except.error .panic` / `none`.  This is
    what the model driver runs against the implementation (real RunT; real os.Expand);
  * the *structural form* (`parseLine`/`tok`, `osExpand`/`osExpandGo`) recurses over the remaining
    bytes: the tokenizer state is `(args, arg, start?, quoted)` with `start? = some (line[start:i])`,
    os.Expand's `j += w` is a skip counter.  The C02 theorems are stated for this form.

  `GIV.Lemmas.ScriptIdx.parseIdx_eq` and `GIV.Lemmas.ScriptExpandIdx.osExpandIdx_eq` prove that the two
  forms are the same functions.  (Inside `parseIdx` chunks are expanded with the structural `expand`;
  the index form of os.Expand is compared with the real function on its own.)  Every constant and
  deciding expression comes from `GIV.Gen.Script` (regenerated from the source on every run).
-/
import GIV.Basic
import GIV.Gen.Script

namespace GIV.Script
open GIV

/-- History of writes to `ts.envMap` (oldest first); the map itself is `lookup`. -/
abbrev Env := List (Bytes × Bytes)

/-- `envMap[k]` after replaying the writes: a later write overwrites; missing = "". -/
def lookup (env : Env) (k : Bytes) : Bytes :=
  env.foldl (fun acc kv => if kv.1 = k then kv.2 else acc) []

/-! ### bytes -/

def EQ : UInt8 := 61       -- '='
def DOLLAR : UInt8 := 36   -- '$'
def LBRACE : UInt8 := 123  -- '{'
def RBRACE : UInt8 := 125  -- '}'
def BACKSLASH : UInt8 := 92

def quoteChar : UInt8 := Gen.Script.quoteChar
def isBlank (c : UInt8) : Bool := Gen.Script.blanks.contains c
def isComment (c : UInt8) : Bool := Gen.Script.commentChars.contains c

/-! ### os.Expand -/

def isShellSpecialVar (c : UInt8) : Bool := Gen.Script.shellSpecialVars.contains c

def isAlphaNum (c : UInt8) : Bool :=
  Gen.Script.alphaNumIsIdentChars &&
    (c == 95 || (48 ≤ c && c ≤ 57) || (97 ≤ c && c ≤ 122) || (65 ≤ c && c ≤ 90))

/-- The "scan to closing brace" loop of getShellName; `t` is the text after the '{'. -/
def scanBrace (t : Bytes) : Bytes × Nat :=
  let name := t.takeWhile (· != RBRACE)
  if name.length = t.length then ([], 1)     -- no closing brace: bad syntax, eat "${"
  else if name.isEmpty then ([], 2)          -- "${}": bad syntax, eat it
  else (name, name.length + 2)

/-- `getShellName(s)` for the non-empty string `c :: s` (the caller guarantees non-emptiness). -/
def getShellName (c : UInt8) (s : Bytes) : Bytes × Nat :=
  if c = LBRACE then
    match s with
    | c1 :: c2 :: _ => if isShellSpecialVar c1 && c2 == RBRACE then ([c1], 3) else scanBrace s
    | _ => scanBrace s
  else if isShellSpecialVar c then ([c], 1)
  else
    let name := (c :: s).takeWhile isAlphaNum
    (name, name.length)

/-- The loop of `os.Expand`; the first argument is the number of bytes still to be skipped
(`j += w`).  A '$' that is the last byte is copied. -/
def osExpandGo (mapping : Bytes → Bytes) : Nat → Bytes → Bytes
  | _, [] => []
  | skip + 1, _ :: rest => osExpandGo mapping skip rest
  | 0, [c] => [c]
  | 0, c :: c1 :: rest1 =>
    if c = DOLLAR then
      let nw := getShellName c1 rest1
      (if nw.1.isEmpty && nw.2 > 0 then []          -- invalid syntax: eaten
       else if nw.1.isEmpty then [c]                -- '$' not followed by a name: kept
       else mapping nw.1) ++ osExpandGo mapping nw.2 (c1 :: rest1)
    else c :: osExpandGo mapping 0 (c1 :: rest1)

def osExpand (s : Bytes) (mapping : Bytes → Bytes) : Bytes := osExpandGo mapping 0 s

/-! ### os.Expand, index form

The same functions written with Go's indices (`i`, `j`, `buf`, slices `s[i:j]`); `none` is a Go panic.
`GIV.Lemmas.ScriptExpandIdx.osExpandIdx_eq` proves `osExpandIdx s m = some (osExpand s m)`; the driver's `ox`
operation runs this form against the real os.Expand. -/

/-- `s[a:b]`. -/
def sliceB (s : Bytes) (a b : Nat) : Bytes := (s.drop a).take (b - a)

/-- `for i = 0; i < len(s) && isAlphaNum(s[i]); i++ {}`: the final `i`. -/
def scanAlnumIdx (s : Bytes) : Nat → Nat → Nat
  | 0, i => i
  | fuel + 1, i =>
    match s[i]? with
    | some c => if isAlphaNum c then scanAlnumIdx s fuel (i + 1) else i
    | none => i

/-- `for i := 1; i < len(s); i++ { if s[i] == '}' { if i == 1 { return "", 2 }; return s[1:i], i+1 } }; return "", 1`. -/
def scanBraceIdx (s : Bytes) : Nat → Nat → Bytes × Nat
  | 0, _ => ([], 1)
  | fuel + 1, i =>
    match s[i]? with
    | none => ([], 1)
    | some c =>
      if c = RBRACE then (if i = 1 then ([], 2) else (sliceB s 1 i, i + 1))
      else scanBraceIdx s fuel (i + 1)

/-- `getShellName(s)`; `none`: `s[0]` on an empty string. -/
def getShellNameIdx (s : Bytes) : Option (Bytes × Nat) :=
  match s[0]? with
  | none => none
  | some c0 =>
    if c0 = LBRACE then
      if s.length > 2 && (match s[1]? with | some c1 => isShellSpecialVar c1 | none => false)
          && s[2]? == some RBRACE then
        some (sliceB s 1 2, 3)
      else some (scanBraceIdx s s.length 1)
    else if isShellSpecialVar c0 then some (sliceB s 0 1, 1)
    else
      let i := scanAlnumIdx s s.length 0
      some (sliceB s 0 i, i)

/-- The `for j := 0; j < len(s); j++` loop of os.Expand with its `i` and `buf`. -/
def osExpandIdxLoop (mapping : Bytes → Bytes) (s : Bytes) : Nat → Nat → Nat → Bytes → Option Bytes
  | 0, _, _, _ => none
  | fuel + 1, j, i, buf =>
    if j < s.length then
      if s[j]? == some DOLLAR && j + 1 < s.length then
        let buf1 := buf ++ sliceB s i j
        match getShellNameIdx (s.drop (j + 1)) with
        | none => none
        | some (name, w) =>
          let buf2 :=
            if name.isEmpty && w > 0 then buf1            -- invalid syntax: eaten
            else if name.isEmpty then buf1 ++ [DOLLAR]    -- '$' kept
            else buf1 ++ mapping name
          -- j += w; i = j + 1; then the loop's j++
          osExpandIdxLoop mapping s fuel (j + w + 1) (j + w + 1) buf2
      else osExpandIdxLoop mapping s fuel (j + 1) i buf
    else if i ≤ s.length then some (buf ++ s.drop i)      -- string(buf) + s[i:]
    else none

def osExpandIdx (s : Bytes) (mapping : Bytes → Bytes) : Option Bytes :=
  osExpandIdxLoop mapping s (s.length + 1) 0 0 []

/-! ### regexp.QuoteMeta -/

def special (b : UInt8) : Bool := b < 128 && Gen.Script.regexpSpecial.contains b

def quoteMeta (s : Bytes) : Bytes := s.flatMap fun b => if special b then [BACKSLASH, b] else [b]

/-! ### (*TestScript).expand -/

/-- `ts.Getenv` as used by expand. -/
def getenv (env : Env) (k : Bytes) : Bytes :=
  if Gen.Script.getenvReadsEnvMap then lookup env k else []

/-- The mapping function handed to os.Expand. -/
def expandMapping (env : Env) (key : Bytes) : Bytes :=
  let suf := Gen.Script.atRSuffix
  -- strings.TrimSuffix(key, "@R")
  let key1 := if suf.isSuffixOf key then key.take (key.length - suf.length) else key
  if key1.length != key.length then
    (if Gen.Script.atRQuotesMeta then quoteMeta (getenv env key1) else getenv env key1)
  else if Gen.Script.expandUsesGetenv then getenv env key else []

def expand (env : Env) (s : Bytes) : Bytes :=
  if Gen.Script.expandIsOsExpand then osExpand s (expandMapping env) else s

/-! ### (*TestScript).parse -/

inductive Fatal
  | unterminated   -- ts.Fatalf("unterminated quoted argument")
  | panic          -- a Go run-time panic (index / slice out of range); unreachable
deriving Repr, DecidableEq

/-- How a finished chunk `line[start:i]` is added to `arg`. -/
def chunkText (env : Env) (quoted : Bool) (ch : Bytes) : Bytes :=
  if (if quoted then Gen.Script.expandsQuotedChunks else Gen.Script.expandsUnquotedChunks)
  then expand env ch else ch

/-- The `for i := 0; ; i++` loop.  Arguments: remaining input `line[i:]`, `args`, `arg`,
`start` (`some (line[start:i])` when `start >= 0`), `quoted`. -/
def tok (env : Env) : Bytes → List Bytes → Bytes → Option Bytes → Bool → Except Fatal (List Bytes)
  | [], args, arg, start, quoted =>
    if !quoted then
      -- i >= len(line): separator branch, then break
      match start with
      | some ch => .ok (args ++ [arg ++ chunkText env false ch])
      | none => .ok args
    else if Gen.Script.unterminatedIsFatal then .error .unterminated
    else .error .panic   -- line[i] out of range
  | c :: rest, args, arg, start, quoted =>
    if !quoted && (isBlank c || isComment c) then
      match start with
      | some ch =>
        let args' := args ++ [arg ++ chunkText env false ch]
        if isComment c then .ok args' else tok env rest args' [] none quoted
      | none => if isComment c then .ok args else tok env rest args arg none quoted
    else if c = quoteChar then
      if !quoted then
        -- starting a quoted chunk
        tok env rest args
          (match start with | some ch => arg ++ chunkText env false ch | none => arg) (some []) true
      else
        match start with
        | none => .error .panic   -- line[-1:i]
        | some ch =>
          let closing := tok env rest args (arg ++ chunkText env true ch) (some []) false
          match rest with
          | c2 :: rest2 =>
            if Gen.Script.doubledQuoteRule && c2 == quoteChar then
              -- 'foo''bar': the new chunk starts at the second quote, which is skipped
              tok env rest2 args (arg ++ chunkText env true ch) (some [c2]) true
            else closing
          | [] => closing
    else
      -- found character worth saving
      tok env rest args arg (match start with | some ch => some (ch ++ [c]) | none => some [c]) quoted

/-- `ts.parse(line)`. -/
def parseLine (env : Env) (line : Bytes) : Except Fatal (List Bytes) := tok env line [] [] none false

/-! ### (*TestScript).parse, index form

The same loop written with the Go variables: `i` an index into `line`, `start` an index or -1
(`none`), chunks as slices `line[start:i]`.  `GIV.Lemmas.ScriptIdx.parseIdx_eq` proves that it computes
exactly `parseLine`; the model driver runs this form against the implementation. -/

/-- `line[a:b]` (for `a ≤ b ≤ len(line)`, which the loop maintains). -/
def slice (line : Bytes) (a b : Nat) : Bytes := (line.drop a).take (b - a)

/-- One iteration per unit of fuel; `parseIdx` supplies `len(line) + 1`, which is enough. -/
def parseIdxLoop (env : Env) (line : Bytes) :
    Nat → Nat → List Bytes → Bytes → Option Nat → Bool → Except Fatal (List Bytes)
  | 0, _, _, _, _, _ => .error .panic
  | fuel + 1, i, args, arg, start, quoted =>
    let cur := line[i]?                    -- none: i >= len(line)
    let isSep := match cur with | none => true | some c => isBlank c || isComment c
    let isBreak := match cur with | none => true | some c => isComment c
    if !quoted && isSep then
      -- found arg-separating space
      let flushed : List Bytes × Bytes × Option Nat :=
        match start with
        | some st => (args ++ [arg ++ chunkText env false (slice line st i)], [], none)
        | none => (args, arg, start)
      if isBreak then .ok flushed.1
      else parseIdxLoop env line fuel (i + 1) flushed.1 flushed.2.1 flushed.2.2 quoted
    else
      match cur with
      | none =>
        if Gen.Script.unterminatedIsFatal then .error .unterminated else .error .panic
      | some c =>
        if c = quoteChar then
          if !quoted then
            parseIdxLoop env line fuel (i + 1) args
              (match start with | some st => arg ++ chunkText env false (slice line st i) | none => arg)
              (some (i + 1)) true
          else
            match start with
            | none => .error .panic
            | some st =>
              if Gen.Script.doubledQuoteRule && line[i + 1]? == some quoteChar then
                parseIdxLoop env line fuel (i + 2) args (arg ++ chunkText env true (slice line st i)) (some (i + 1)) true
              else
                parseIdxLoop env line fuel (i + 1) args (arg ++ chunkText env true (slice line st i)) (some (i + 1)) false
        else
          parseIdxLoop env line fuel (i + 1) args arg (match start with | some st => some st | none => some i) quoted

def parseIdx (env : Env) (line : Bytes) : Except Fatal (List Bytes) :=
  parseIdxLoop env line (line.length + 1) 0 [] [] none false

/-! ### the two environment structures: ts.env (list for os/exec) and ts.envMap -/

/-- `strings.Index(kv, "=")`. -/
def idxEq : Bytes → Option Nat
  | [] => none
  | c :: t => if c = EQ then some 0 else (idxEq t).map (· + 1)

/-- `kv[:i], kv[i+1:]` at the first '='. -/
def splitEq (kv : Bytes) : Option (Bytes × Bytes) :=
  (idxEq kv).map fun i => (kv.take i, kv.drop (i + 1))

structure TS where
  env : List Bytes      -- ts.env: "K=V" strings in order
  envMap : Env          -- writes to ts.envMap in order
deriving Repr

/-- End of `setup`: `ts.env = env.Vars`, envMap filled from it in order. -/
def TS.setup (vars : List Bytes) : TS :=
  { env := vars, envMap := if Gen.Script.setupBuildsMapFromList then vars.filterMap splitEq else [] }

def TS.setenv (ts : TS) (k v : Bytes) : TS :=
  { env := if Gen.Script.setenvAppendsList then ts.env ++ [k ++ EQ :: v] else ts.env,
    envMap := if Gen.Script.setenvUpdatesMap then ts.envMap ++ [(k, v)] else ts.envMap }

def TS.getenv (ts : TS) (k : Bytes) : Bytes := GIV.Script.getenv ts.envMap k

/-- `Setenv` on the map history alone. -/
def setenv (env : Env) (k v : Bytes) : Env := env ++ [(k, v)]

/-- `cmdEnv` with arguments (the non-negated, non-empty case): one argument. -/
def cmdEnvArg (ts : TS) (a : Bytes) : TS :=
  if Gen.Script.cmdEnvSplitsAtFirstEq then
    match splitEq a with
    | none => ts                      -- display only
    | some (k, v) => ts.setenv k v
  else ts

def cmdEnv (ts : TS) (args : List Bytes) : TS := args.foldl cmdEnvArg ts

/-! ### os/exec dedupEnv and the child's view -/

/-- The key under which dedupEnv files an entry (`none`: entry without '='). -/
def dedupKey (kv : Bytes) : Option Bytes :=
  match idxEq kv with
  | none => none
  | some 0 =>
    -- i = strings.Index(kv[1:], "=") + 1
    match idxEq kv.tail with
    | some j => some (kv.take (j + 1))
    | none => some []
  | some i => some (kv.take i)

/-- The backwards loop of dedupEnvCase(false, false, env): input reversed, `out` built by
prepending (Go appends and reverses at the end).  The Bool is `err != nil` (NUL seen). -/
def dedupLoop : List Bytes → List Bytes → List Bytes → Bool → List Bytes × Bool
  | [], _, out, err => (out, err)
  | kv :: more, saw, out, err =>
    if kv.contains 0 then dedupLoop more saw out true
    else
      match dedupKey kv with
      | none => if kv.isEmpty then dedupLoop more saw out err else dedupLoop more saw (kv :: out) err
      | some k =>
        if saw.contains k then dedupLoop more saw out err
        else dedupLoop more (k :: saw) (kv :: out) err

inductive ExecErr | nul deriving Repr, DecidableEq

/-- `(*exec.Cmd).environ` for a non-nil Env on a POSIX system; an error makes Start fail. -/
def dedupEnv (l : List Bytes) : Except ExecErr (List Bytes) :=
  let r := dedupLoop l.reverse [] [] false
  if r.2 then .error .nul else .ok r.1

/-- `cmd.Env = append(ts.env, "PWD="+ts.cd)` then os/exec's de-duplication: the strings the child gets. -/
def TS.childEnv (ts : TS) (cd : Bytes) : Except ExecErr (List Bytes) :=
  if Gen.Script.childEnvIsListPlusPWD then dedupEnv (ts.env ++ [Gen.Script.pwdName ++ EQ :: cd])
  else dedupEnv ts.env

/-- `os.Getenv(k)` in a process started with the environment strings `l`
(syscall.copyenv: split at the first '=', first mention of a key wins; empty key: not found). -/
def childGetenv (l : List Bytes) (k : Bytes) : Bytes :=
  if k.isEmpty then [] else
  match (l.filterMap splitEq).find? (fun p => p.1 == k) with
  | some p => p.2
  | none => []

/-! ### script lines -/

/-- `strings.Index(script, "\n")` cut of the run loop: `(line, rest)`. -/
def nextLine : Bytes → Bytes × Bytes
  | [] => ([], [])
  | c :: t => if c = NL then ([], t) else let r := nextLine t; (c :: r.1, r.2)

end GIV.Script
