/-
  GIV.Model.TsLife — executable model of the life cycle of a testscript run
  (/repo/testscript/testscript.go: RunT, setup, run, Defer, exec, waitOrStop, removeAll;
  /repo/testscript/cmd.go: cmdExec, cmdWait, cmdSkip, waitBackground).

  C04 (isolation and cleanup):
    §2 the initial environment as a function of (host environment, Setup's additions);
    §3 the work directory as a small file tree and the unpacking of the archive;
    §4 a script interpreter for the command vocabulary of the generated scripts (solo prediction of
       every observation a script can make) with the skeleton of `run`: exit paths, the LIFO chain
       of deferred functions, the bookkeeping of `ts.background`, the deferred blocks of `run`;
    §4b the names (and so the work directories) RunT gives to the scripts of one call;
    §5 the reference-counted cleanup of RunT as a transition system over N finishers.
  The C17 part (grace arithmetic, waitOrStop, cmdExec attribution) is GIV/Model/TsLifeDl.lean,
  with facts of its own (GIV/Gen/TsLifeDl.lean): the two properties' chains are kept apart.

  Every constant / table / deciding expression comes from `GIV.Gen.TsLife` (regenerated from the
  source on every run).  Structural facts that the model cannot consume as a value (statement
  order, which channel operation is where) are collected in the `F…` classes at the end of each
  section; the lemmas are proved under them and `GIV/Props/C04.lean` discharges them by `rfl`
  from the generated file.  OS behaviour (signal delivery, process exit, wall clock) is
  nondeterminism of the transition system, never a function.
-/
import GIV.Basic
import GIV.Gen.TsLife

namespace GIV.TsLife
open GIV
open GIV.Gen.TsLife (VarSrc)

/-! ## §2 the initial environment (setup) -/

/-- An environment list in order (`ts.env`); the effective value of a variable is its last entry
(`ts.envMap` is filled by iterating over the list). -/
abbrev EnvList := List (String × String)

def lookupLast : EnvList → String → Option String
  | [], _ => none
  | (k', v) :: rest, k =>
    match lookupLast rest k with
    | some w => some w
    | none => if k' = k then some v else none

/-- `os.Getenv`: the empty string for an unset variable. -/
def hostGetenv (host : EnvList) (k : String) : String :=
  match lookupLast host k with
  | some v => v
  | none => ""

/-- `ts.Getenv`: `ts.envMap[key]`, the empty string for a missing key. -/
def getenv (env : EnvList) (k : String) : String :=
  match lookupLast env k with
  | some v => v
  | none => ""

def workdirOf (root name : String) : String := root ++ "/" ++ Gen.TsLife.workdirPrefix ++ name
def tmpdirOf (workdir : String) : String := workdir ++ "/" ++ Gen.TsLife.tmpDirName

/-- unix values of os.DevNull, os.PathSeparator, os.PathListSeparator. -/
def evalSrc (host : EnvList) (workdir : String) : VarSrc → String
  | .lit s => s
  | .workdir => workdir
  | .tmpdir => tmpdirOf workdir
  | .host n => hostGetenv host n
  | .devnull => "/dev/null"
  | .sep => "/"
  | .listsep => ":"

def documentedPart (host : EnvList) (workdir : String) : EnvList :=
  Gen.TsLife.documentedVars.map fun kv => (kv.1, evalSrc host workdir kv.2)

def passthroughPart (host : EnvList) : EnvList :=
  Gen.TsLife.passthroughVars.filterMap fun k =>
    let v := hostGetenv host k
    if Gen.TsLife.passthroughOnlyNonEmpty && v == "" then none else some (k, v)

/-- `ts.env` after setup: the documented variables, the pass-through variables that are set on
the host, the GOOS tail (`exe=`), then whatever Params.Setup appended. -/
def initialEnv (host : EnvList) (workdir : String) (setup : EnvList) : EnvList :=
  documentedPart host workdir ++ passthroughPart host ++ Gen.TsLife.unixTailVars ++ setup

/-- names a script can see without Setup: documented ∪ pass-through ∪ tail. -/
def builtinNames : List String :=
  Gen.TsLife.documentedVars.map (·.1) ++ Gen.TsLife.passthroughVars ++ Gen.TsLife.unixTailVars.map (·.1)

/-- environment of a child process: `append(ts.env, "PWD="+ts.cd)`. -/
def childEnv (env : EnvList) (cdAbs : String) : EnvList := env ++ [("PWD", cdAbs)]

class FEnv : Prop where
  order : Gen.TsLife.envOrder = true

/-! ## §3 the work directory -/

/-- a path below the work directory, as its list of elements (`[]` = `$WORK` itself). -/
abbrev Path := List String

inductive Node where
  | file (data : Bytes)
  | dir
  deriving Repr, DecidableEq

/-- A file tree below `$WORK` as an association list, first match wins; the root is implicit. -/
abbrev FS := List (Path × Node)

def FS.get (fs : FS) (p : Path) : Option Node :=
  if p = [] then some .dir else
  match fs.find? (fun e => e.1 == p) with
  | some e => some e.2
  | none => none

inductive FsErr where
  | notDir | isDir | exists | notExist | escape
  deriving Repr, DecidableEq

/-- all non-empty prefixes of `p`, shortest first. -/
def prefixes (p : Path) : List Path := (List.range p.length).map fun i => p.take (i + 1)

/-- `os.MkdirAll`. -/
def mkdirAll (fs : FS) (p : Path) : Except FsErr FS :=
  (prefixes p).foldlM (fun fs q =>
    match fs.get q with
    | some .dir => .ok fs
    | some (.file _) => .error .notDir
    | none => .ok ((q, .dir) :: fs)) fs

/-- `os.OpenFile(name, O_WRONLY|O_CREATE|O_TRUNC [|O_EXCL])` followed by a write. -/
def writeFile (fs : FS) (p : Path) (d : Bytes) (excl : Bool) : Except FsErr FS :=
  match fs.get p with
  | some .dir => .error .isDir
  | some (.file _) => if excl then .error .exists else .ok ((p, .file d) :: fs)
  | none =>
    match fs.get p.dropLast with
    | some .dir => .ok ((p, .file d) :: fs)
    | some (.file _) => .error .notDir
    | none => .error .notExist

/-- `os.RemoveAll` of a path below the work directory. -/
def removeTree (fs : FS) (p : Path) : FS := fs.filter fun e => !(p.isPrefixOf e.1)

/-- an archive entry: cleaned relative name (elements) and contents. -/
abbrev Entry := Path × Bytes

def unpackOne (excl : Bool) (fs : FS) (e : Entry) : Except FsErr FS :=
  match mkdirAll fs e.1.dropLast with
  | .error x => .error x
  | .ok fs => writeFile fs e.1 e.2 excl

/-- the work directory after `os.MkdirAll(tmpDir)`. -/
def fs0 : FS := [([Gen.TsLife.tmpDirName], .dir)]

/-- setup's unpack loop from a given tree: the tree reached and the error that stopped it, if any
(a failing entry leaves the tree as it was before that entry: its parent directories existed). -/
def unpackFrom (excl : Bool) : FS → List Entry → FS × Option FsErr
  | fs, [] => (fs, none)
  | fs, e :: rest =>
    match unpackOne excl fs e with
    | .error x => (fs, some x)
    | .ok fs' => unpackFrom excl fs' rest

/-- setup's unpack loop (`excl` = Params.RequireUniqueNames); an error is fatal for the script. -/
def unpack (excl : Bool) (files : List Entry) : Except FsErr FS :=
  match unpackFrom excl fs0 files with
  | (fs, none) => .ok fs
  | (_, some x) => .error x

/-- effective entries: de-duplicated paths (first match = newest), for listings. -/
def FS.entries (fs : FS) : List (Path × Node) :=
  fs.foldr (fun e acc => e :: acc.filter (fun x => x.1 != e.1)) []

class FUnpack : Prop where
  shape : Gen.TsLife.unpackShape = true
  excl : Gen.TsLife.writeFileExclOnly = true

/-! ## §4 scripts: interpreter for the generated vocabulary, skeleton of `run` -/

/-- behaviour of the helper behind `exec vh bg <kind> &`: all kinds handle SIGINT and exit with
their status at once; `ok`/`bad` also exit by themselves after a short while. -/
inductive BgKind where
  | sig   -- runs until interrupted, then exits 0
  | ok    -- exits 0
  | bad   -- exits 1
  deriving Repr, DecidableEq

/-- how a deferred function ends: normally, or by calling FailNow / Skip on the T
(runtime.Goexit), or by panicking. -/
inductive Abort where
  | none | failNow | skip | panic
  deriving Repr, DecidableEq

inductive Op where
  | probe
  | cd (rel : List String)
  | cdWork                       -- `cd $WORK`
  | env (k v : String)
  | mkdir (rel : List String)
  | cp (src dst : List String)
  | rm (rel : List String)
  | chmod (rel : List String)
  | regDefer (id : Nat) (ab : Abort)
  | bg (name : String) (kind : BgKind) (neg : Bool)
  | fg
  | waitAll
  | waitOne (name : String)
  | failLine
  | skip
  | stop
  deriving Repr, DecidableEq

structure Bg where
  name : String
  kind : BgKind
  neg : Bool
  id : Nat          -- start order, identifies the process
  deriving Repr, DecidableEq

inductive Ev where
  | probe (cwd : Path) (vals : List String) (tree : List (Path × Node))
  | report (cwd : Path) (env : EnvList)        -- a foreground helper saw this cwd and environment
  | started (id : Nat) (kind : BgKind)
  | interrupted (id : Nat)
  | waited (id : Nat)
  | deferred (id : Nat)
  | applyUpdates
  | logFlush
  deriving Repr, DecidableEq

inductive Verdict where
  | pass | fail | skip
  | hang      -- the script would wait for a process that never exits (never generated)
  | escape    -- a path leaves the work directory: outside the frame condition (never generated)
  deriving Repr, DecidableEq

structure Cfg where
  continueOnError : Bool
  uniqueNames : Bool
  verbose : Bool
  host : EnvList
  root : String
  name : String
  setupEnv : EnvList
  setupDefers : List Nat     -- ids registered by Params.Setup through env.Defer, in order
  probeKeys : List String

/-- closure built by `Defer`: `func() { defer old(); f() }` or the empty function. -/
inductive Chain where
  | nop
  | link (id : Nat) (ab : Abort) (old : Chain)
  deriving Repr, DecidableEq

/-- calling a chain: which registered functions run, in which order, and whether the call ended
abnormally (Goexit or panic in flight).  With `defer old(); f()` the older chain runs whatever
happens in `f`; with `old(); f()` an abnormal end of the older chain would skip `f`. -/
def Chain.run : Chain → List Nat × Bool
  | .nop => ([], false)
  | .link id ab old =>
    let r := old.run
    if Gen.TsLife.deferChainsOldLast then (id :: r.1, ab != .none || r.2)
    else if r.2 then (r.1, true) else (r.1 ++ [id], ab != .none)

def Chain.call (c : Chain) : List Nat := c.run.1

/-- how the functions of a chain end, by id -/
def Chain.kinds : Chain → List (Nat × Abort)
  | .nop => []
  | .link id ab old => (id, ab) :: old.kinds

structure SState where
  cwd : Path
  env : EnvList
  fs : FS
  bg : List Bg             -- ts.background
  nextBg : Nat
  chain : Chain            -- ts.deferred
  registered : List Nat    -- history: ids in registration order
  trace : List Ev          -- reversed
  failed : Bool

/-- resolve a relative path against the current directory lexically (filepath.Join cleans);
`none` when it climbs out of the work directory. -/
def resolve (cwd : Path) (rel : List String) : Option Path :=
  rel.foldlM (fun acc seg =>
    if seg == ".." then (if acc.isEmpty then none else some acc.dropLast)
    else if seg == "." || seg == "" then some acc
    else some (acc ++ [seg])) cwd

/-- result of running one line -/
inductive LineRes where
  | ok (s : SState)
  | fatal (s : SState)          -- Fatalf: caught by runLine, the line failed
  | skipped (s : SState)        -- t.Skip: the goroutine exits through the deferred blocks
  | failNow (s : SState)        -- t.FailNow called directly by a command (cmdSkip after an earlier failure)
  | hang (s : SState)
  | escape (s : SState)

def emit (s : SState) (e : Ev) : SState := { s with trace := e :: s.trace }

def absOf (cfg : Cfg) (p : Path) : String :=
  p.foldl (fun acc seg => acc ++ "/" ++ seg) (workdirOf cfg.root cfg.name)

/-- exit status of a background helper is success? -/
def BgKind.success : BgKind → Bool
  | .sig => true | .ok => true | .bad => false

/-- `waitBackground(true)` over `ts.background` (no deadline in these scripts): wait for each entry
in order; a status that contradicts the entry's expectation is fatal and leaves the list in
place. `interrupted` tells whether the entries were interrupted before (cmdSkip): a `sig` helper
that was not interrupted never exits. -/
def waitAllLoop (interrupted : Bool) : List Bg → SState → LineRes
  | [], s => .ok { s with bg := [] }
  | b :: rest, s =>
    if b.kind == .sig && !interrupted then .hang s else
    let s := emit s (.waited b.id)
    if b.kind.success == b.neg then .fatal s else waitAllLoop interrupted rest s

def withPath (s : SState) (rel : List String) (k : Path → LineRes) : LineRes :=
  match resolve s.cwd rel with
  | none => .escape s
  | some p => k p

def stepOp (cfg : Cfg) (s : SState) : Op → LineRes
  | .probe =>
    .ok (emit s (.probe s.cwd (cfg.probeKeys.map (getenv s.env)) s.fs.entries))
  | .cd rel => withPath s rel fun p =>
    match s.fs.get p with
    | some .dir => .ok { s with cwd := p }
    | _ => .fatal s
  | .cdWork => .ok { s with cwd := [] }
  | .env k v => .ok { s with env := s.env ++ [(k, v)] }
  | .mkdir rel => withPath s rel fun p =>
    match mkdirAll s.fs p with
    | .ok fs => .ok { s with fs := fs }
    | .error _ => .fatal s
  | .cp src dst => withPath s src fun ps => withPath s dst fun pd =>
    match s.fs.get ps with
    | some (.file d) =>
      let targ := if s.fs.get pd == some .dir then pd ++ [ps.getLast?.getD ""] else pd
      if targ.isEmpty then .fatal s else
      match writeFile s.fs targ d false with
      | .ok fs => .ok { s with fs := fs }
      | .error _ => .fatal s
    | _ => .fatal s
  | .rm rel => withPath s rel fun p =>
    if p.isEmpty then .escape s else
    if (prefixes p.dropLast).any (fun q => match s.fs.get q with | some (.file _) => true | _ => false) then .fatal s
    else .ok { s with fs := removeTree s.fs p }
  | .chmod rel => withPath s rel fun p =>
    match s.fs.get p with
    | some _ => .ok s
    | none => .fatal s
  | .regDefer id ab => .ok { s with chain := .link id ab s.chain, registered := s.registered ++ [id] }
  | .bg name kind neg =>
    if name != "" && s.bg.any (fun b => b.name == name) then .fatal s else
    let b : Bg := ⟨name, kind, neg, s.nextBg⟩
    .ok (emit { s with bg := s.bg ++ [b], nextBg := s.nextBg + 1 } (.started b.id b.kind))
  | .fg => .ok (emit s (.report s.cwd (childEnv s.env (absOf cfg s.cwd))))
  | .waitAll => waitAllLoop false s.bg s
  | .waitOne name =>
    if name == "" then .fatal s else
    match s.bg.find? (fun b => b.name == name) with
    | none => .fatal s
    | some b =>
      if b.kind == .sig then .hang s else
      let s := emit s (.waited b.id)
      if b.kind.success == b.neg then .fatal s
      else .ok { s with bg := s.bg.filter (fun x => x.id != b.id) }
  | .failLine => .fatal s
  | .skip =>
    let s := s.bg.foldl (fun (s : SState) (b : Bg) => emit s (.interrupted b.id)) s
    match waitAllLoop true s.bg s with
    | .ok s => if s.failed then .failNow s else .skipped s    -- `if ts.failed { ts.t.FailNow() }`
    | r => r
  | .stop => .ok s

/-- `for _, bg := range ts.background { interruptProcess(bg.cmd.Process) }` -/
def interruptAll (s : SState) : SState :=
  s.bg.foldl (fun (s : SState) (b : Bg) => emit s (.interrupted b.id)) s

/-- interrupt everything in ts.background, then wait for everything without looking at the
status (`waitBackground(false)` / the `<-bg.wait` loop), leaving the list empty. -/
def drainAll (s : SState) : SState :=
  let s := interruptAll s
  let s := s.bg.foldl (fun (s : SState) (b : Bg) => emit s (.waited b.id)) s
  { s with bg := [] }

/-- how the body of `run` (everything before the deferred blocks) ended. -/
inductive Exit where
  | returned        -- fell off the end (PASS, or stopped)
  | failNow         -- t.FailNow()
  | skipNow         -- t.Skip()
  | hang | escape
  deriving Repr, DecidableEq

/-- the script loop of `run`: a failed line ends the run unless ContinueOnError; `stop` breaks. -/
def loop (cfg : Cfg) : List Op → SState → SState × Exit × Bool
  | [], s => (s, .returned, false)
  | op :: rest, s =>
    match stepOp cfg s op with
    | .ok s' => if op == .stop then (s', .returned, true) else loop cfg rest s'
    | .fatal s' =>
      let s' := { s' with failed := true }
      if cfg.continueOnError then loop cfg rest s' else (s', .failNow, false)
    | .failNow s' => (s', .failNow, false)
    | .skipped s' => (s', .skipNow, false)
    | .hang s' => (s', .hang, false)
    | .escape s' => (s', .escape, false)

/-- `run`'s first deferred block: interrupt everything in ts.background, wait for everything,
flush the log. -/
def bgFlush (s : SState) : SState := emit (drainAll s) .logFlush

/-- run one deferred block of `run` by name. -/
def runDefer (s : SState) : String → SState
  | "bgflush" => bgFlush s
  | "deferred" => s.chain.call.foldl (fun s id => emit s (.deferred id)) s
  | "applyUpdates" => emit s .applyUpdates
  | _ => s

/-- the deferred blocks that were registered when the body ended, newest first. With
`setupAfterTwoDefers` the third is only registered when setup succeeded. -/
def pendingDefers (setupOk : Bool) : List String :=
  let regs := if setupOk then Gen.TsLife.runDefers else Gen.TsLife.runDefers.take 2
  regs.reverse

structure Outcome where
  verdict : Verdict
  trace : List Ev
  registered : List Nat
  finalFs : FS
  deriving Repr

/-- A whole script: setup (unpack, Setup's defers and variables), the loop, the end-of-script
drain, the deferred blocks. -/
def runScript (cfg : Cfg) (files : List Entry) (ops : List Op) : Outcome :=
  let workdir := workdirOf cfg.root cfg.name
  let s0 : SState := ⟨[], [], fs0, [], 0, .nop, [], [], false⟩
  match unpackFrom cfg.uniqueNames fs0 files with
  | (fs, some _) =>
    -- setup failed: FailNow through the two deferred blocks registered so far
    let s := (pendingDefers false).foldl runDefer { s0 with fs := fs }
    ⟨.fail, s.trace.reverse, s.registered, s.fs⟩
  | (fs, none) =>
    let chain := cfg.setupDefers.foldl (fun c id => Chain.link id .none c) Chain.nop
    let s1 : SState := { s0 with fs := fs, env := initialEnv cfg.host workdir cfg.setupEnv, chain := chain, registered := cfg.setupDefers }
    let (s2, ex, _stopped) := loop cfg ops s1
    -- normal end of the loop: interrupt + waitBackground(false), then `if failed { FailNow }`
    let (s3, ex) := match ex with
      | .returned => (drainAll s2, if s2.failed then Exit.failNow else Exit.returned)
      | e => (s2, e)
    let s4 := (pendingDefers true).foldl runDefer s3
    -- deferred functions that call FailNow / Skip or panic change the verdict like the body does
    let ran := s3.chain.kinds.filter fun k => s3.chain.call.contains k.1
    let dFail := ran.any fun k => k.2 == .failNow || k.2 == .panic
    let dSkip := ran.any fun k => k.2 == .skip
    let v := match ex with
      | .returned => if dFail then Verdict.fail else if dSkip then .skip else .pass
      | .failNow => .fail
      | .skipNow => if dFail then .fail else .skip
      | .hang => .hang
      | .escape => .escape
    ⟨v, s4.trace.reverse, s4.registered, s4.fs⟩

class FRun : Prop where
  defers : Gen.TsLife.runDefers = ["bgflush", "deferred", "applyUpdates"]
  setupPos : Gen.TsLife.setupAfterTwoDefers = true
  bgOrder : Gen.TsLife.bgBlockOrder = true
  drains : Gen.TsLife.endOfScriptDrains = true
  clears : Gen.TsLife.waitBackgroundClears = true
  recorded : Gen.TsLife.bgRecordedAfterStart = true
  startsEmpty : Gen.TsLife.deferredStartsEmpty = true
  setupFail : Gen.TsLife.setupFailureFailsNow = true

/-! ## §4b subtest names and work directories (RunT) -/

/-- `filepath.Base(file)` with the `.txt` or else the `.txtar` suffix cut. -/
def scriptBase (fileName : String) : String :=
  if fileName.endsWith ".txt" then (fileName.dropEnd 4).toString
  else if fileName.endsWith ".txtar" then (fileName.dropEnd 6).toString
  else fileName

/-- the i-th candidate for base name `b`: `b`, `b#1`, `b#2`, … (`strconv.Itoa`). -/
def cand (b : String) (i : Nat) : String := if i = 0 then b else b ++ "#" ++ toString i

/-- `prefix := name; for i := 1; names[name]; i++ { name = prefix + "#" + strconv.Itoa(i) }`:
the first candidate that is not taken; the fuel is the number of names taken plus one. -/
def pickAux (taken : List String) (b : String) : Nat → Nat → Option String
  | 0, _ => none
  | f + 1, i => if taken.contains (cand b i) then pickAux taken b f (i + 1) else some (cand b i)

def pickName (taken : List String) (b : String) : Option String := pickAux taken b (taken.length + 1) 0

/-- names given to the scripts of one RunT call, in order (`names[name] = true` after each). -/
def assignFrom (taken : List String) : List String → Option (List String)
  | [] => some []
  | b :: rest =>
    match pickName taken b with
    | none => none
    | some n => match assignFrom (taken ++ [n]) rest with
      | none => none
      | some ns => some (n :: ns)

def assignNames (bases : List String) : Option (List String) := assignFrom [] bases

class FNames : Prop where
  loop : Gen.TsLife.uniqueNameLoop = true

/-! ## §5 reference-counted cleanup (RunT's deferred closure) -/

/-- program counter of one finisher (the deferred closure of one subtest). -/
inductive PC where
  | rmAll     -- about to call removeAll(ts.workdir)
  | dec       -- about to call atomic.AddInt32(&refCount, -1) and test the result
  | rmRoot    -- saw zero: about to call os.Remove(testTempDir)
  | cancel    -- about to call cancel()
  | done
  deriving Repr, DecidableEq

structure RC where
  pcs : List PC
  wd : List Bool          -- work directory i exists
  count : Int             -- refCount
  root : Bool             -- the shared root exists
  rootAttempts : Nat      -- calls of os.Remove(root)
  rootFailed : Nat        -- … that failed (directory not empty)
  cancels : Nat
  deriving Repr, DecidableEq

def firstPC : PC := if Gen.TsLife.decAfterRemoveAll then .rmAll else .dec
def afterRmAll : PC := if Gen.TsLife.decAfterRemoveAll then .dec else .done
/-- where a finisher continues after its decrement branch (after `cancel`, or a non-zero result). -/
def afterDecBranch : PC := if Gen.TsLife.decAfterRemoveAll then .done else .rmAll

/-- `retain` = `p.TestWork || *testWork` (WorkdirRoot sets TestWork): the closure returns at once. -/
def RC.init (n : Nat) (retain : Bool) : RC :=
  ⟨List.replicate n (if retain && Gen.TsLife.retainReturnsFirst then PC.done else firstPC),
   List.replicate n true, n, true, 0, 0, 0⟩

/-- one atomic step of finisher `i`; `none` when it has finished. `os.Remove` of the root succeeds
iff the root exists and no work directory is left in it. -/
def RC.step (s : RC) (i : Nat) : Option RC :=
  match s.pcs[i]? with
  | none | some .done => none
  | some .rmAll => some { s with pcs := s.pcs.set i afterRmAll, wd := s.wd.set i false }
  | some .dec =>
    let c := s.count + Gen.TsLife.refDelta
    some { s with count := c, pcs := s.pcs.set i (if c == Gen.TsLife.refZero then .rmRoot else afterDecBranch) }
  | some .rmRoot =>
    let ok := s.root && s.wd.all (fun b => !b)
    some { s with pcs := s.pcs.set i .cancel, root := s.root && !ok, rootAttempts := s.rootAttempts + 1,
                  rootFailed := s.rootFailed + (if ok then 0 else 1) }
  | some .cancel => some { s with pcs := s.pcs.set i afterDecBranch, cancels := s.cancels + 1 }

/-- replay a schedule (which finisher moves next); `none` if it names a finished finisher. -/
def RC.run (s : RC) : List Nat → Option RC
  | [] => some s
  | i :: rest => match s.step i with
    | none => none
    | some s' => s'.run rest

def RC.complete (s : RC) : Bool := s.pcs.all (· == .done)

class FRef : Prop where
  order : Gen.TsLife.decAfterRemoveAll = true
  retain : Gen.TsLife.retainReturnsFirst = true
  delta : Gen.TsLife.refDelta = -1
  zero : Gen.TsLife.refZero = 0
  init : Gen.TsLife.refInitIsLenFiles = true
  plain : Gen.TsLife.rootRemoveIsPlainRemove = true
  deferred : Gen.TsLife.cleanupDeferredBeforeRun = true

end GIV.TsLife
