/-
  GIV.Model.TsLife — executable model of the life cycle of a testscript run
  (/repo/testscript/testscript.go: RunT, setup, run, Defer, exec, waitOrStop, removeAll;
  /repo/testscript/cmd.go: cmdExec, cmdWait, cmdSkip, waitBackground).

  C04 (isolation and cleanup):
    §2 the initial environment as a function of (host environment, Setup's additions);
    §3 the work directory as a small file tree and the unpacking of the archive;
    §4 a script interpreter for the command vocabulary of the generated scripts (solo prediction of
       every observation a script can make) with the skeleton of `run`: exit paths, the LIFO chain
       of deferred functions, the bookkeeping of `ts.background`, the deferred blocks of `run`;
    §5 the reference-counted cleanup of RunT as a transition system over N finishers.
  C17 (deadline):
    §1 the grace-period arithmetic of RunT;
    §6 `waitOrStop` as a transition system with three actors and an abstract clock;
    §7 the error attribution of `cmdExec`.

  Every constant / table / deciding expression comes from `GIV.Gen.TsLife` (regenerated from the
  source on every run).  Structural facts that the model cannot consume as a value (statement
  order, which channel operation is where) are collected in the `F…` classes at the end of each
  section; the lemmas are proved under them and `GIV/Props/C04.lean`, `C17.lean` discharge them
  by `rfl` from the generated file.  OS behaviour (signal delivery, process exit, wall clock) is
  nondeterminism of the transition system, never a function.
-/
import GIV.Basic
import GIV.Gen.TsLife

namespace GIV.TsLife
open GIV
open GIV.Gen.TsLife (VarSrc)

/-! ## §1 grace-period arithmetic (RunT) -/

/-! Go `time.Duration` values are nanoseconds as unbounded integers (`Int`); int64 overflow needs a
deadline more than 146 years away and is not modelled. -/

/-- `gp := timeout / 20; if gp > gracePeriod { gracePeriod = gp }` starting from the default. Go's
`/` on integers truncates toward zero: `Int.tdiv`. -/
def grace (timeout : Int) : Int :=
  let gp := Int.tdiv timeout Gen.TsLife.graceDivisor
  if (if Gen.TsLife.graceCmpStrict then decide (gp > Gen.TsLife.defaultGraceNs) else decide (gp ≥ Gen.TsLife.defaultGraceNs))
  then gp else Gen.TsLife.defaultGraceNs

/-- `timeout -= 2 * gracePeriod`: the argument of `context.WithTimeout`. -/
def ctxTimeout (timeout : Int) : Int := timeout - Gen.TsLife.reservedGraces * grace timeout

/-- kill delay of a foreground `exec` (`waitOrStop(ts.ctxt, cmd, ts.gracePeriod)`). -/
def fgKillDelay (timeout : Int) : Int := grace timeout

/-- The plan for a run whose deadline is `timeout` away: offsets from the moment RunT is called. -/
structure Plan where
  grace : Int
  interruptAt : Int   -- the context expires: blocked foreground commands get the interrupt
  killAt : Int        -- commands that ignore it are killed
  deriving Repr, DecidableEq

def plan (timeout : Int) : Plan :=
  ⟨grace timeout, ctxTimeout timeout, ctxTimeout timeout + fgKillDelay timeout⟩

/-- structural facts behind §1: the order of the four statements and that every script gets this
context and this grace period, which `exec` hands to waitOrStop as the kill delay. -/
class FDeadline : Prop where
  order : Gen.TsLife.deadlineOrder = true
  fields : Gen.TsLife.tsGetsCtxAndGrace = true
  fg : Gen.TsLife.fgKillDelayIsGrace = true

/-! ## §2 the initial environment (setup) -/

/-- An environment list in order (`ts.env`); the effective value of a variable is its last entry
(`ts.envMap` is filled by iterating over the list). -/
abbrev EnvList := List (String × String)

def lookupLast : EnvList → String → Option String
  | [], _ => none
  | (k', v) :: rest, k =>
    match lookupLast rest k with
    | some w => some w
    | none => if k' = k then some v else none

/-- `os.Getenv`: the empty string for an unset variable. -/
def hostGetenv (host : EnvList) (k : String) : String :=
  match lookupLast host k with
  | some v => v
  | none => ""

/-- `ts.Getenv`: `ts.envMap[key]`, the empty string for a missing key. -/
def getenv (env : EnvList) (k : String) : String :=
  match lookupLast env k with
  | some v => v
  | none => ""

def workdirOf (root name : String) : String := root ++ "/" ++ Gen.TsLife.workdirPrefix ++ name
def tmpdirOf (workdir : String) : String := workdir ++ "/" ++ Gen.TsLife.tmpDirName

/-- unix values of os.DevNull, os.PathSeparator, os.PathListSeparator. -/
def evalSrc (host : EnvList) (workdir : String) : VarSrc → String
  | .lit s => s
  | .workdir => workdir
  | .tmpdir => tmpdirOf workdir
  | .host n => hostGetenv host n
  | .devnull => "/dev/null"
  | .sep => "/"
  | .listsep => ":"

def documentedPart (host : EnvList) (workdir : String) : EnvList :=
  Gen.TsLife.documentedVars.map fun kv => (kv.1, evalSrc host workdir kv.2)

def passthroughPart (host : EnvList) : EnvList :=
  Gen.TsLife.passthroughVars.filterMap fun k =>
    let v := hostGetenv host k
    if Gen.TsLife.passthroughOnlyNonEmpty && v == "" then none else some (k, v)

/-- `ts.env` after setup: the documented variables, the pass-through variables that are set on
the host, the GOOS tail (`exe=`), then whatever Params.Setup appended. -/
def initialEnv (host : EnvList) (workdir : String) (setup : EnvList) : EnvList :=
  documentedPart host workdir ++ passthroughPart host ++ Gen.TsLife.unixTailVars ++ setup

/-- names a script can see without Setup: documented ∪ pass-through ∪ tail. -/
def builtinNames : List String :=
  Gen.TsLife.documentedVars.map (·.1) ++ Gen.TsLife.passthroughVars ++ Gen.TsLife.unixTailVars.map (·.1)

/-- environment of a child process: `append(ts.env, "PWD="+ts.cd)`. -/
def childEnv (env : EnvList) (cdAbs : String) : EnvList := env ++ [("PWD", cdAbs)]

class FEnv : Prop where
  order : Gen.TsLife.envOrder = true

/-! ## §3 the work directory -/

/-- a path below the work directory, as its list of elements (`[]` = `$WORK` itself). -/
abbrev Path := List String

inductive Node where
  | file (data : Bytes)
  | dir
  deriving Repr, DecidableEq

/-- A file tree below `$WORK` as an association list, first match wins; the root is implicit. -/
abbrev FS := List (Path × Node)

def FS.get (fs : FS) (p : Path) : Option Node :=
  if p = [] then some .dir else
  match fs.find? (fun e => e.1 == p) with
  | some e => some e.2
  | none => none

inductive FsErr where
  | notDir | isDir | exists | notExist | escape
  deriving Repr, DecidableEq

/-- all non-empty prefixes of `p`, shortest first. -/
def prefixes (p : Path) : List Path := (List.range p.length).map fun i => p.take (i + 1)

/-- `os.MkdirAll`. -/
def mkdirAll (fs : FS) (p : Path) : Except FsErr FS :=
  (prefixes p).foldlM (fun fs q =>
    match fs.get q with
    | some .dir => .ok fs
    | some (.file _) => .error .notDir
    | none => .ok ((q, .dir) :: fs)) fs

/-- `os.OpenFile(name, O_WRONLY|O_CREATE|O_TRUNC [|O_EXCL])` followed by a write. -/
def writeFile (fs : FS) (p : Path) (d : Bytes) (excl : Bool) : Except FsErr FS :=
  match fs.get p with
  | some .dir => .error .isDir
  | some (.file _) => if excl then .error .exists else .ok ((p, .file d) :: fs)
  | none =>
    match fs.get p.dropLast with
    | some .dir => .ok ((p, .file d) :: fs)
    | some (.file _) => .error .notDir
    | none => .error .notExist

/-- `os.RemoveAll` of a path below the work directory. -/
def removeTree (fs : FS) (p : Path) : FS := fs.filter fun e => !(p.isPrefixOf e.1)

/-- an archive entry: cleaned relative name (elements) and contents. -/
abbrev Entry := Path × Bytes

def unpackOne (excl : Bool) (fs : FS) (e : Entry) : Except FsErr FS :=
  match mkdirAll fs e.1.dropLast with
  | .error x => .error x
  | .ok fs => writeFile fs e.1 e.2 excl

/-- the work directory after `os.MkdirAll(tmpDir)`. -/
def fs0 : FS := [([Gen.TsLife.tmpDirName], .dir)]

/-- setup's unpack loop from a given tree: the tree reached and the error that stopped it, if any
(a failing entry leaves the tree as it was before that entry: its parent directories existed). -/
def unpackFrom (excl : Bool) : FS → List Entry → FS × Option FsErr
  | fs, [] => (fs, none)
  | fs, e :: rest =>
    match unpackOne excl fs e with
    | .error x => (fs, some x)
    | .ok fs' => unpackFrom excl fs' rest

/-- setup's unpack loop (`excl` = Params.RequireUniqueNames); an error is fatal for the script. -/
def unpack (excl : Bool) (files : List Entry) : Except FsErr FS :=
  match unpackFrom excl fs0 files with
  | (fs, none) => .ok fs
  | (_, some x) => .error x

/-- effective entries: de-duplicated paths (first match = newest), for listings. -/
def FS.entries (fs : FS) : List (Path × Node) :=
  fs.foldr (fun e acc => e :: acc.filter (fun x => x.1 != e.1)) []

class FUnpack : Prop where
  shape : Gen.TsLife.unpackShape = true
  excl : Gen.TsLife.writeFileExclOnly = true

/-! ## §4 scripts: interpreter for the generated vocabulary, skeleton of `run` -/

/-- behaviour of the helper behind `exec vh bg <kind> &`: all kinds handle SIGINT and exit with
their status at once; `ok`/`bad` also exit by themselves after a short while. -/
inductive BgKind where
  | sig   -- runs until interrupted, then exits 0
  | ok    -- exits 0
  | bad   -- exits 1
  deriving Repr, DecidableEq

inductive Op where
  | probe
  | cd (rel : List String)
  | cdWork                       -- `cd $WORK`
  | env (k v : String)
  | mkdir (rel : List String)
  | cp (src dst : List String)
  | rm (rel : List String)
  | chmod (rel : List String)
  | regDefer (id : Nat)
  | bg (name : String) (kind : BgKind) (neg : Bool)
  | fg
  | waitAll
  | waitOne (name : String)
  | failLine
  | skip
  | stop
  deriving Repr, DecidableEq

structure Bg where
  name : String
  kind : BgKind
  neg : Bool
  id : Nat          -- start order, identifies the process
  deriving Repr, DecidableEq

inductive Ev where
  | probe (cwd : Path) (vals : List String) (tree : List (Path × Node))
  | report (cwd : Path) (env : EnvList)        -- a foreground helper saw this cwd and environment
  | started (id : Nat) (kind : BgKind)
  | interrupted (id : Nat)
  | waited (id : Nat)
  | deferred (id : Nat)
  | applyUpdates
  | logFlush
  deriving Repr, DecidableEq

inductive Verdict where
  | pass | fail | skip
  | hang      -- the script would wait for a process that never exits (never generated)
  | escape    -- a path leaves the work directory: outside the frame condition (never generated)
  deriving Repr, DecidableEq

structure Cfg where
  continueOnError : Bool
  uniqueNames : Bool
  verbose : Bool
  host : EnvList
  root : String
  name : String
  setupEnv : EnvList
  setupDefers : List Nat     -- ids registered by Params.Setup through env.Defer, in order
  probeKeys : List String

/-- closure built by `Defer`: `func() { defer old(); f() }` or the empty function. -/
inductive Chain where
  | nop
  | link (id : Nat) (old : Chain)
  deriving Repr, DecidableEq

/-- calling a chain: which registered functions run, in which order. -/
def Chain.call : Chain → List Nat
  | .nop => []
  | .link id old => if Gen.TsLife.deferChainsOldLast then id :: old.call else old.call ++ [id]

structure SState where
  cwd : Path
  env : EnvList
  fs : FS
  bg : List Bg             -- ts.background
  nextBg : Nat
  chain : Chain            -- ts.deferred
  registered : List Nat    -- history: ids in registration order
  trace : List Ev          -- reversed
  failed : Bool

/-- resolve a relative path against the current directory lexically (filepath.Join cleans);
`none` when it climbs out of the work directory. -/
def resolve (cwd : Path) (rel : List String) : Option Path :=
  rel.foldlM (fun acc seg =>
    if seg == ".." then (if acc.isEmpty then none else some acc.dropLast)
    else if seg == "." || seg == "" then some acc
    else some (acc ++ [seg])) cwd

/-- result of running one line -/
inductive LineRes where
  | ok (s : SState)
  | fatal (s : SState)          -- Fatalf: caught by runLine, the line failed
  | skipped (s : SState)        -- t.Skip: the goroutine exits through the deferred blocks
  | failNow (s : SState)        -- t.FailNow called directly by a command (cmdSkip after an earlier failure)
  | hang (s : SState)
  | escape (s : SState)

def emit (s : SState) (e : Ev) : SState := { s with trace := e :: s.trace }

def absOf (cfg : Cfg) (p : Path) : String :=
  p.foldl (fun acc seg => acc ++ "/" ++ seg) (workdirOf cfg.root cfg.name)

/-- exit status of a background helper is success? -/
def BgKind.success : BgKind → Bool
  | .sig => true | .ok => true | .bad => false

/-- `waitBackground(true)` over `ts.background` (no deadline in these scripts): wait for each entry
in order; a status that contradicts the entry's expectation is fatal and leaves the list in
place. `interrupted` tells whether the entries were interrupted before (cmdSkip): a `sig` helper
that was not interrupted never exits. -/
def waitAllLoop (interrupted : Bool) : List Bg → SState → LineRes
  | [], s => .ok { s with bg := [] }
  | b :: rest, s =>
    if b.kind == .sig && !interrupted then .hang s else
    let s := emit s (.waited b.id)
    if b.kind.success == b.neg then .fatal s else waitAllLoop interrupted rest s

def withPath (s : SState) (rel : List String) (k : Path → LineRes) : LineRes :=
  match resolve s.cwd rel with
  | none => .escape s
  | some p => k p

def stepOp (cfg : Cfg) (s : SState) : Op → LineRes
  | .probe =>
    .ok (emit s (.probe s.cwd (cfg.probeKeys.map (getenv s.env)) s.fs.entries))
  | .cd rel => withPath s rel fun p =>
    match s.fs.get p with
    | some .dir => .ok { s with cwd := p }
    | _ => .fatal s
  | .cdWork => .ok { s with cwd := [] }
  | .env k v => .ok { s with env := s.env ++ [(k, v)] }
  | .mkdir rel => withPath s rel fun p =>
    match mkdirAll s.fs p with
    | .ok fs => .ok { s with fs := fs }
    | .error _ => .fatal s
  | .cp src dst => withPath s src fun ps => withPath s dst fun pd =>
    match s.fs.get ps with
    | some (.file d) =>
      let targ := if s.fs.get pd == some .dir then pd ++ [ps.getLast?.getD ""] else pd
      if targ.isEmpty then .fatal s else
      match writeFile s.fs targ d false with
      | .ok fs => .ok { s with fs := fs }
      | .error _ => .fatal s
    | _ => .fatal s
  | .rm rel => withPath s rel fun p =>
    if p.isEmpty then .escape s else
    if (prefixes p.dropLast).any (fun q => match s.fs.get q with | some (.file _) => true | _ => false) then .fatal s
    else .ok { s with fs := removeTree s.fs p }
  | .chmod rel => withPath s rel fun p =>
    match s.fs.get p with
    | some _ => .ok s
    | none => .fatal s
  | .regDefer id => .ok { s with chain := .link id s.chain, registered := s.registered ++ [id] }
  | .bg name kind neg =>
    if name != "" && s.bg.any (fun b => b.name == name) then .fatal s else
    let b : Bg := ⟨name, kind, neg, s.nextBg⟩
    .ok (emit { s with bg := s.bg ++ [b], nextBg := s.nextBg + 1 } (.started b.id b.kind))
  | .fg => .ok (emit s (.report s.cwd (childEnv s.env (absOf cfg s.cwd))))
  | .waitAll => waitAllLoop false s.bg s
  | .waitOne name =>
    if name == "" then .fatal s else
    match s.bg.find? (fun b => b.name == name) with
    | none => .fatal s
    | some b =>
      if b.kind == .sig then .hang s else
      let s := emit s (.waited b.id)
      if b.kind.success == b.neg then .fatal s
      else .ok { s with bg := s.bg.filter (fun x => x.id != b.id) }
  | .failLine => .fatal s
  | .skip =>
    let s := s.bg.foldl (fun (s : SState) (b : Bg) => emit s (.interrupted b.id)) s
    match waitAllLoop true s.bg s with
    | .ok s => if s.failed then .failNow s else .skipped s    -- `if ts.failed { ts.t.FailNow() }`
    | r => r
  | .stop => .ok s

/-- `for _, bg := range ts.background { interruptProcess(bg.cmd.Process) }` -/
def interruptAll (s : SState) : SState :=
  s.bg.foldl (fun (s : SState) (b : Bg) => emit s (.interrupted b.id)) s

/-- interrupt everything in ts.background, then wait for everything without looking at the
status (`waitBackground(false)` / the `<-bg.wait` loop), leaving the list empty. -/
def drainAll (s : SState) : SState :=
  let s := interruptAll s
  let s := s.bg.foldl (fun (s : SState) (b : Bg) => emit s (.waited b.id)) s
  { s with bg := [] }

/-- how the body of `run` (everything before the deferred blocks) ended. -/
inductive Exit where
  | returned        -- fell off the end (PASS, or stopped)
  | failNow         -- t.FailNow()
  | skipNow         -- t.Skip()
  | hang | escape
  deriving Repr, DecidableEq

/-- the script loop of `run`: a failed line ends the run unless ContinueOnError; `stop` breaks. -/
def loop (cfg : Cfg) : List Op → SState → SState × Exit × Bool
  | [], s => (s, .returned, false)
  | op :: rest, s =>
    match stepOp cfg s op with
    | .ok s' => if op == .stop then (s', .returned, true) else loop cfg rest s'
    | .fatal s' =>
      let s' := { s' with failed := true }
      if cfg.continueOnError then loop cfg rest s' else (s', .failNow, false)
    | .failNow s' => (s', .failNow, false)
    | .skipped s' => (s', .skipNow, false)
    | .hang s' => (s', .hang, false)
    | .escape s' => (s', .escape, false)

/-- `run`'s first deferred block: interrupt everything in ts.background, wait for everything,
flush the log. -/
def bgFlush (s : SState) : SState := emit (drainAll s) .logFlush

/-- run one deferred block of `run` by name. -/
def runDefer (s : SState) : String → SState
  | "bgflush" => bgFlush s
  | "deferred" => s.chain.call.foldl (fun s id => emit s (.deferred id)) s
  | "applyUpdates" => emit s .applyUpdates
  | _ => s

/-- the deferred blocks that were registered when the body ended, newest first. With
`setupAfterTwoDefers` the third is only registered when setup succeeded. -/
def pendingDefers (setupOk : Bool) : List String :=
  let regs := if setupOk then Gen.TsLife.runDefers else Gen.TsLife.runDefers.take 2
  regs.reverse

structure Outcome where
  verdict : Verdict
  trace : List Ev
  registered : List Nat
  finalFs : FS
  deriving Repr

/-- A whole script: setup (unpack, Setup's defers and variables), the loop, the end-of-script
drain, the deferred blocks. -/
def runScript (cfg : Cfg) (files : List Entry) (ops : List Op) : Outcome :=
  let workdir := workdirOf cfg.root cfg.name
  let s0 : SState := ⟨[], [], fs0, [], 0, .nop, [], [], false⟩
  match unpackFrom cfg.uniqueNames fs0 files with
  | (fs, some _) =>
    -- setup failed: FailNow through the two deferred blocks registered so far
    let s := (pendingDefers false).foldl runDefer { s0 with fs := fs }
    ⟨.fail, s.trace.reverse, s.registered, s.fs⟩
  | (fs, none) =>
    let chain := cfg.setupDefers.foldl (fun c id => Chain.link id c) Chain.nop
    let s1 : SState := { s0 with fs := fs, env := initialEnv cfg.host workdir cfg.setupEnv, chain := chain, registered := cfg.setupDefers }
    let (s2, ex, _stopped) := loop cfg ops s1
    -- normal end of the loop: interrupt + waitBackground(false), then `if failed { FailNow }`
    let (s3, ex) := match ex with
      | .returned => (drainAll s2, if s2.failed then Exit.failNow else Exit.returned)
      | e => (s2, e)
    let s4 := (pendingDefers true).foldl runDefer s3
    let v := match ex with
      | .returned => Verdict.pass
      | .failNow => .fail
      | .skipNow => .skip
      | .hang => .hang
      | .escape => .escape
    ⟨v, s4.trace.reverse, s4.registered, s4.fs⟩

class FRun : Prop where
  defers : Gen.TsLife.runDefers = ["bgflush", "deferred", "applyUpdates"]
  setupPos : Gen.TsLife.setupAfterTwoDefers = true
  bgOrder : Gen.TsLife.bgBlockOrder = true
  drains : Gen.TsLife.endOfScriptDrains = true
  clears : Gen.TsLife.waitBackgroundClears = true
  recorded : Gen.TsLife.bgRecordedAfterStart = true
  startsEmpty : Gen.TsLife.deferredStartsEmpty = true
  setupFail : Gen.TsLife.setupFailureFailsNow = true

/-! ## §5 reference-counted cleanup (RunT's deferred closure) -/

/-- program counter of one finisher (the deferred closure of one subtest). -/
inductive PC where
  | rmAll     -- about to call removeAll(ts.workdir)
  | dec       -- about to call atomic.AddInt32(&refCount, -1) and test the result
  | rmRoot    -- saw zero: about to call os.Remove(testTempDir)
  | cancel    -- about to call cancel()
  | done
  deriving Repr, DecidableEq

structure RC where
  pcs : List PC
  wd : List Bool          -- work directory i exists
  count : Int             -- refCount
  root : Bool             -- the shared root exists
  rootAttempts : Nat      -- calls of os.Remove(root)
  rootFailed : Nat        -- … that failed (directory not empty)
  cancels : Nat
  deriving Repr, DecidableEq

def firstPC : PC := if Gen.TsLife.decAfterRemoveAll then .rmAll else .dec
def afterRmAll : PC := if Gen.TsLife.decAfterRemoveAll then .dec else .done
/-- where a finisher continues after its decrement branch (after `cancel`, or a non-zero result). -/
def afterDecBranch : PC := if Gen.TsLife.decAfterRemoveAll then .done else .rmAll

/-- `retain` = `p.TestWork || *testWork` (WorkdirRoot sets TestWork): the closure returns at once. -/
def RC.init (n : Nat) (retain : Bool) : RC :=
  ⟨List.replicate n (if retain && Gen.TsLife.retainReturnsFirst then PC.done else firstPC),
   List.replicate n true, n, true, 0, 0, 0⟩

/-- one atomic step of finisher `i`; `none` when it has finished. `os.Remove` of the root succeeds
iff the root exists and no work directory is left in it. -/
def RC.step (s : RC) (i : Nat) : Option RC :=
  match s.pcs[i]? with
  | none | some .done => none
  | some .rmAll => some { s with pcs := s.pcs.set i afterRmAll, wd := s.wd.set i false }
  | some .dec =>
    let c := s.count + Gen.TsLife.refDelta
    some { s with count := c, pcs := s.pcs.set i (if c == Gen.TsLife.refZero then .rmRoot else afterDecBranch) }
  | some .rmRoot =>
    let ok := s.root && s.wd.all (fun b => !b)
    some { s with pcs := s.pcs.set i .cancel, root := s.root && !ok, rootAttempts := s.rootAttempts + 1,
                  rootFailed := s.rootFailed + (if ok then 0 else 1) }
  | some .cancel => some { s with pcs := s.pcs.set i afterDecBranch, cancels := s.cancels + 1 }

/-- replay a schedule (which finisher moves next); `none` if it names a finished finisher. -/
def RC.run (s : RC) : List Nat → Option RC
  | [] => some s
  | i :: rest => match s.step i with
    | none => none
    | some s' => s'.run rest

def RC.complete (s : RC) : Bool := s.pcs.all (· == .done)

class FRef : Prop where
  order : Gen.TsLife.decAfterRemoveAll = true
  retain : Gen.TsLife.retainReturnsFirst = true
  delta : Gen.TsLife.refDelta = -1
  zero : Gen.TsLife.refZero = 0
  init : Gen.TsLife.refInitIsLenFiles = true
  plain : Gen.TsLife.rootRemoveIsPlainRemove = true
  cancel : Gen.TsLife.cancelAfterRootRemove = true
  deferred : Gen.TsLife.cleanupDeferredBeforeRun = true

/-! ## §6 waitOrStop: waiter, stopper goroutine, process, abstract clock -/

/-- how the process ended -/
inductive Fate where
  | own      -- exited by itself
  | bySig    -- because of the interrupt
  | byKill
  deriving Repr, DecidableEq

inductive Proc where
  | running (pendInt pendKill : Bool)   -- signals delivered and not (yet) acted upon
  | exited (how : Fate)
  deriving Repr, DecidableEq

/-- non-nil error values the stopper can send -/
inductive SErr where
  | ctxErr    -- ctx.Err()
  | other     -- the error of a failed Signal call
  deriving Repr, DecidableEq

inductive Waiter where
  | waiting                       -- inside cmd.Wait()
  | ready                         -- Wait returned; at `<-errc`
  | returned (v : Option SErr)    -- received v
  deriving Repr, DecidableEq

inductive Stopper where
  | sel1                                  -- select { errc <- nil | <-ctx.Done() }
  | sig                                   -- about to call cmd.Process.Signal(interrupt)
  | sendNil                               -- errc <- nil (ErrProcessDone)
  | sel2 (err : SErr) (start : Nat)       -- select { errc <- ctx.Err() | <-timer.C }, timer started at `start`
  | kill (err : SErr)                     -- about to call cmd.Process.Kill()
  | sendErr (err : SErr)                  -- errc <- err
  | done
  deriving Repr, DecidableEq

/-- scenario class: the parameters waitOrStop does not control. -/
structure Scn where
  killDelay : Int
  deadline : Option Nat   -- when the context expires on the abstract clock; none = no deadline
  mayExit : Bool          -- the process may exit by itself, at any moment
  onInt : Bool            -- the process exits, after an arbitrary delay, once the interrupt was delivered
  deriving Repr, DecidableEq

structure St where
  now : Nat
  ctxDone : Bool
  proc : Proc
  w : Waiter
  s : Stopper
  sends : Nat
  recvs : Nat
  sigAt : Option Nat      -- when cmd.Process.Signal was called
  delivered : Bool        -- … and reached a live process
  killAt : Option Nat     -- when cmd.Process.Kill was called
  deriving Repr, DecidableEq

def St.init : St := ⟨0, false, .running false false, .waiting, .sel1, 0, 0, none, false, none⟩

/-- result of `cmd.Process.Signal` -/
inductive SigRes where
  | ok | processDone | other
  deriving Repr, DecidableEq

inductive Lbl where
  | ctxFire (t : Nat)
  | exitOwn (t : Nat)
  | exitSig (t : Nat)
  | exitKill (t : Nat)
  | waitRet (t : Nat)
  | sendRecv (t : Nat)        -- rendezvous on the unbuffered errc
  | selCtx (t : Nat)          -- the first select takes `<-ctx.Done()`
  | signal (t : Nat) (r : SigRes)
  | timer (t : Nat)           -- the second select takes `<-timer.C`
  | kill (t : Nat)
  deriving Repr, DecidableEq

def Lbl.time : Lbl → Nat
  | .ctxFire t | .exitOwn t | .exitSig t | .exitKill t | .waitRet t | .sendRecv t | .selCtx t
  | .signal t _ | .timer t | .kill t => t

/-- `if killDelay > 0` -/
def killArmed (kd : Int) : Bool :=
  if Gen.TsLife.wosKillGuardStrict then decide (kd > 0) else decide (kd ≥ 0)

/-- what the stopper offers on errc in its current state -/
def Stopper.offer : Stopper → Option (Option SErr)
  | .sel1 => some none
  | .sendNil => some none
  | .sel2 _ _ => some (some .ctxErr)
  | .sendErr e => some (some e)
  | _ => none

def afterSignal (c : Scn) (e : SErr) (t : Nat) : Stopper :=
  if killArmed c.killDelay then .sel2 e t else .sendErr e

def stepCore (c : Scn) (s : St) : Lbl → Option St
  | .ctxFire t =>
    match c.deadline with
    -- once waitOrStop has returned nobody in this system looks at the context any more
    | some d => if !s.ctxDone && d ≤ t && s.s != .done then some { s with ctxDone := true } else none
    | none => none
  | .exitOwn _ =>
    match s.proc with
    | .running _ _ => if c.mayExit then some { s with proc := .exited .own } else none
    | _ => none
  | .exitSig _ =>
    match s.proc with
    | .running true _ => if c.onInt then some { s with proc := .exited .bySig } else none
    | _ => none
  | .exitKill _ =>
    match s.proc with
    | .running _ true => some { s with proc := .exited .byKill }
    | _ => none
  | .waitRet _ =>
    match s.w, s.proc with
    | .waiting, .exited _ => some { s with w := .ready }
    | _, _ => none
  | .sendRecv _ =>
    match s.w, s.s.offer with
    | .ready, some v => some { s with w := .returned v, s := .done, sends := s.sends + 1, recvs := s.recvs + 1 }
    | _, _ => none
  | .selCtx _ =>
    match s.s with
    | .sel1 => if s.ctxDone then some { s with s := .sig } else none
    | _ => none
  | .signal t r =>
    match s.s with
    | .sig =>
      match s.proc, r with
      | .running _ pk, .ok => some { s with proc := .running true pk, delivered := true, sigAt := some t, s := afterSignal c .ctxErr t }
      | .running _ _, .other => some { s with sigAt := some t, s := afterSignal c .other t }
      | .running _ _, .processDone => none
      | .exited _, .ok => some { s with sigAt := some t, s := afterSignal c .ctxErr t }
      | .exited _, .processDone => some { s with sigAt := some t, s := .sendNil }
      | .exited _, .other => none
    | _ => none
  | .timer t =>
    match s.s with
    | .sel2 e st => if (st : Int) + c.killDelay ≤ (t : Int) then some { s with s := .kill e } else none
    | _ => none
  | .kill t =>
    match s.s with
    | .kill e =>
      let p := match s.proc with
        | .running pi _ => Proc.running pi true
        | p => p
      some { s with proc := p, killAt := some t, s := .sendErr e }
    | _ => none

/-- one step: time never goes back. -/
def step (c : Scn) (s : St) (l : Lbl) : Option St :=
  if s.now ≤ l.time then
    match stepCore c s l with
    | some s' => some { s' with now := l.time }
    | none => none
  else none

def runLbls (c : Scn) (s : St) : List Lbl → Option St
  | [] => some s
  | l :: rest => match step c s l with
    | none => none
    | some s' => runLbls c s' rest

/-- what waitOrStop returns -/
inductive Res where
  | interruptErr (e : SErr)
  | waitStatus (how : Fate)
  deriving Repr, DecidableEq

def St.result (s : St) : Option Res :=
  match s.w, s.proc with
  | .returned (some e), _ => some (.interruptErr e)
  | .returned none, .exited h => some (.waitStatus h)
  | _, _ => none

/-- waitOrStop has returned and its goroutine is gone. -/
def St.final (s : St) : Bool :=
  (match s.w with | .returned _ => true | _ => false) && s.s == .done && s.sends == 1 && s.recvs == 1

/-- candidate labels at time `t` (for enumeration in the driver and for examples). -/
def labelsAt (t : Nat) : List Lbl :=
  [.ctxFire t, .exitOwn t, .exitSig t, .exitKill t, .waitRet t, .sendRecv t, .selCtx t,
   .signal t .ok, .signal t .processDone, .signal t .other, .timer t, .kill t]

/-- the time at which the enumeration tries labels: late enough for the context and the timer. -/
def probeTime (c : Scn) (s : St) : Nat :=
  let a := match c.deadline with | some d => d | none => 0
  let b := match s.s with | .sel2 _ st => ((st : Int) + c.killDelay).toNat | _ => 0
  max s.now (max a b)

/-- coarse outcome of an execution, comparable with what a harness can observe from outside. -/
structure Coarse where
  ctxDone : Bool
  delivered : Bool      -- the helper saw the interrupt (or died from it)
  killed : Bool         -- Kill was called while the process was alive / the helper died by SIGKILL
  res : Res
  deriving Repr, DecidableEq

def St.coarse (s : St) : Option Coarse :=
  match s.result with
  | some r => some ⟨s.ctxDone, s.delivered, s.proc == .exited .byKill, r⟩
  | none => none

/-- all maximal executions, explored depth-first with fuel; returns the coarse outcomes of the final
states and the number of stuck non-final states. -/
def explore (c : Scn) : Nat → St → List Coarse × Nat
  | 0, _ => ([], 1)
  | fuel + 1, s =>
    let succs := (labelsAt (probeTime c s)).filterMap (step c s)
    if succs.isEmpty then
      if s.final then (match s.coarse with | some x => ([x], 0) | none => ([], 1)) else ([], 1)
    else succs.foldl (fun acc s' =>
      let r := explore c fuel s'
      (r.1.foldl (fun l x => if l.contains x then l else l ++ [x]) acc.1, acc.2 + r.2)) ([], 0)

class FWos : Prop where
  unbuffered : Gen.TsLife.wosUnbuffered = true
  firstSelect : Gen.TsLife.wosFirstSelect = true
  attribution : Gen.TsLife.wosSignalAttribution = true
  guardStrict : Gen.TsLife.wosKillGuardStrict = true
  secondSelect : Gen.TsLife.wosSecondSelect = true
  finalSend : Gen.TsLife.wosFinalSendErr = true
  waitThenRecv : Gen.TsLife.wosWaitThenRecv = true

/-! ## §7 cmdExec: error attribution -/

inductive ExecOutcome where
  | ok
  | fatal (msg : String)
  deriving Repr, DecidableEq

/-- foreground `exec`: `err` = waitOrStop (or Start) returned a non-nil error; `ctxErrNow` =
`ts.ctxt.Err() != nil` when the check runs. -/
def cmdExecOutcome (neg err ctxErrNow : Bool) : ExecOutcome :=
  if !err then
    if neg && Gen.TsLife.successNegFatal then .fatal "unexpected command success" else .ok
  else if Gen.TsLife.timeoutCheckedFirst then
    if ctxErrNow then .fatal Gen.TsLife.timedOutMsg
    else if !neg then .fatal "unexpected command failure" else .ok
  else
    if !neg then .fatal "unexpected command failure"
    else if ctxErrNow then .fatal Gen.TsLife.timedOutMsg else .ok

/-- `err != nil` as seen by cmdExec, from the result of waitOrStop: an interrupt error, or the
process's own failure status (`ownFailed`). -/
def Res.isErr (ownFailed : Bool) : Res → Bool
  | .interruptErr _ => true
  | .waitStatus .own => ownFailed
  | .waitStatus _ => true      -- killed by a signal: *exec.ExitError

end GIV.TsLife
