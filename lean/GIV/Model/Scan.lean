/-
  GIV.Model.Scan — executable model of /repo/imports/scan.go
  (ScanDir, ScanFiles, scanFiles, keys) and of the part of strconv.Unquote that scan.go uses.

  Built on the models of ReadImports (GIV.Model.ReadImports, reportSyntaxError = false),
  ShouldBuild and MatchFile (GIV.Model.Build).  A file is `(name, content)`; a directory is the
  list of its entries `(name, isRegular, content)` in os.ReadDir order.  `os.ReadDir` / `os.Open`
  errors are not modelled (implementation only).  A `map[string]bool` whose values are all `true`
  is the list of keys inserted so far; `keys` sorts it ascending by byte-wise string order and
  drops duplicates.  The constants of scan.go (`"C"`, "cgo", "*", "_test.go", "_", ".go") are
  written here by hand; the correspondence run (harness/cmd/imports/corrscan.go) ties them.
-/
import GIV.Model.Build
import GIV.Model.ReadImports

namespace GIV.Scan
open GIV GIV.Build GIV.ReadImports

/-! ### strconv.Unquote -/

/-- `utf8.AppendRune` for a valid rune. -/
def encodeRune (r : Nat) : Bytes :=
  if r < 0x80 then [r.toUInt8]
  else if r < 0x800 then [(0xC0 + r / 64).toUInt8, (0x80 + r % 64).toUInt8]
  else if r < 0x10000 then [(0xE0 + r / 4096).toUInt8, (0x80 + r / 64 % 64).toUInt8, (0x80 + r % 64).toUInt8]
  else [(0xF0 + r / 262144).toUInt8, (0x80 + r / 4096 % 64).toUInt8, (0x80 + r / 64 % 64).toUInt8, (0x80 + r % 64).toUInt8]

/-- `utf8.ValidRune`. -/
def validRune (r : Nat) : Bool := r < 0xD800 || (0xE000 ≤ r && r ≤ 0x10FFFF)

/-- strconv's `unhex`. -/
def unhex (c : UInt8) : Option Nat :=
  if 48 ≤ c && c ≤ 57 then some (c.toNat - 48)
  else if 97 ≤ c && c ≤ 102 then some (c.toNat - 97 + 10)
  else if 65 ≤ c && c ≤ 70 then some (c.toNat - 65 + 10)
  else none

/-- `for j := 0; j < n; j++ { x, ok := unhex(s[j]); …; v = v<<4 | x }` on `s[:n]`. -/
def hexValue : Bytes → Nat → Option Nat
  | [], v => some v
  | c :: cs, v => match unhex c with
    | none => none
    | some x => hexValue cs (v * 16 + x)

def octDigit (c : UInt8) : Option Nat := if 48 ≤ c && c ≤ 55 then some (c.toNat - 48) else none

/-- `strconv.UnquoteChar(s, quote)` for `quote` = '"' or '\''; result: the bytes that
`unquote` appends for the decoded character, and the tail.  `none` = ErrSyntax. -/
def unquoteChar (quote : UInt8) : Bytes → Option (Bytes × Bytes)
  | [] => none
  | c :: rest =>
    if c = quote then none
    else if c ≥ 0x80 then
      match decodeNonAscii (c :: rest) with
      | none => some ([0xEF, 0xBF, 0xBD], rest)                 -- RuneError, width 1, appended as U+FFFD
      | some (r, w) => some (encodeRune r, rest.drop (w - 1))
    else if c ≠ 92 then some ([c], rest)
    else match rest with
      | [] => none
      | e :: s =>
        if e = 97 then some ([7], s) else if e = 98 then some ([8], s) else if e = 102 then some ([12], s)
        else if e = 110 then some ([10], s) else if e = 114 then some ([13], s) else if e = 116 then some ([9], s)
        else if e = 118 then some ([11], s)
        else if e = 120 ∨ e = 117 ∨ e = 85 then
          let n := if e = 120 then 2 else if e = 117 then 4 else 8
          if s.length < n then none else
          match hexValue (s.take n) 0 with
          | none => none
          | some v =>
            if e = 120 then some ([v.toUInt8], s.drop n)          -- single byte, possibly not UTF-8
            else if validRune v then some (encodeRune v, s.drop n) else none
        else if 48 ≤ e ∧ e ≤ 55 then
          match s with
          | d1 :: d2 :: s' =>
            match octDigit d1, octDigit d2 with
            | some x1, some x2 =>
              let v := ((e.toNat - 48) * 8 + x1) * 8 + x2
              if v > 255 then none else some ([v.toUInt8], s')
            | _, _ => none
          | _ => none
        else if e = 92 then some ([92], s)
        else if e = 39 ∨ e = 34 then (if e = quote then some ([e], s) else none)
        else none

/-- the `for len(in) > 0 && in[0] != quote` loop of `unquote` for a double-quoted string, and
what follows it: the closing quote must be the last byte.  Fuel = length of the input. -/
def unquoteLoop : Nat → Bytes → Bytes → Option Bytes
  | 0, _, _ => none
  | n+1, s, buf =>
    match s with
    | [] => none                                    -- no terminating quote
    | c :: rest =>
      if c = 34 then (if rest.isEmpty then some buf else none)    -- `len(rem) > 0` → ErrSyntax
      else if c = 10 then none
      else match unquoteChar 34 (c :: rest) with
        | none => none
        | some (out, tail) => unquoteLoop n tail (buf ++ out)

/-- `strconv.Unquote(s)` for a backquoted or double-quoted literal (the two forms ReadImports
returns; anything else, a single-quoted literal included, is `none` here).  Raw: the first
backquote after the opening one must be the last byte; carriage returns are dropped.
Interpreted: Go escape sequences; an unescaped newline, an unknown escape, `\'`, a surrogate or
out-of-range `\u`/`\U` is ErrSyntax; an invalid UTF-8 byte becomes U+FFFD. -/
def unquote (s : Bytes) : Option Bytes :=
  match s with
  | 96 :: rest =>
    match cutAt 96 rest with
    | (body, some []) => some (body.filter (· ≠ 13))
    | _ => none
  | 34 :: rest => unquoteLoop (rest.length + 1) rest []
  | _ => none

/-! ### byte-wise string order, `keys` -/

/-- Go's `<` on strings: lexicographic on bytes. -/
def blt : Bytes → Bytes → Bool
  | [], [] => false
  | [], _ :: _ => true
  | _ :: _, [] => false
  | a :: as, b :: bs => a < b || (a == b && blt as bs)

/-- insert into an ascending duplicate-free list. -/
def insertKey (x : Bytes) : List Bytes → List Bytes
  | [] => [x]
  | y :: ys => if blt x y then x :: y :: ys else if x = y then y :: ys else y :: insertKey x ys

/-- `keys(m)`: the distinct keys, `sort.Strings`-ed. -/
def keys (m : List Bytes) : List Bytes := m.foldr insertKey []

/-! ### scanFiles -/

def cLit : Bytes := [34, 67, 34]                           -- `"C"`
def cgoTag : Bytes := [99, 103, 111]                       -- "cgo"
def starTag : Bytes := [42]                                -- "*"
def testGoSuffix : Bytes := [95, 116, 101, 115, 116, 46, 103, 111]   -- "_test.go"
def underscore : Bytes := [95]                             -- "_"
def dotGo : Bytes := [46, 103, 111]                        -- ".go"

def hasSuffix (suf s : Bytes) : Bool := suf.isSuffixOf s

inductive ScanErr
  | noGo                                   -- ErrNoGo
  | read (name : Bytes) (e : Err)          -- "reading <name>: <err>"
  | panic (name : Bytes)                   -- ReadImports panicked (never: GIV.C18.readImports_total)
deriving DecidableEq, Repr

abbrev File := Bytes × Bytes

/-- the loop state: the two maps and `numFiles`. -/
structure Acc where
  imports : List Bytes
  testImports : List Bytes
  numFiles : Nat
deriving DecidableEq, Repr

/-- the `for _, path := range list { if path == "\"C\"" && !tags["cgo"] && !tags["*"] { continue Files } }` loop:
true when the file is skipped. -/
def cSkip (tags : Tags) (list : List Bytes) : Bool :=
  list.any (fun path => path == cLit && !tags cgoTag && !tags starTag)

/-- `for _, p := range list { q, err := strconv.Unquote(p); if err != nil { continue }; m[q] = true }`:
the keys added, in order. -/
def unquoteAll (list : List Bytes) : List Bytes := list.filterMap unquote

/-- one iteration of the `Files:` loop. -/
def scanOne (U : Nat → Bool) (tags : Tags) (explicitFiles : Bool) (a : Acc) (f : File) : Except ScanErr Acc :=
  match readImports f.2 false with
  | .panic => .error (.panic f.1)
  | .stuck => .error (.panic f.1)
  | .ok _ _ (some e) => .error (.read f.1 e)
  | .ok list data none =>
    if cSkip tags list then .ok a
    else if !explicitFiles && !shouldBuild U data tags then .ok a
    else if hasSuffix testGoSuffix f.1 then
      .ok { a with numFiles := a.numFiles + 1, testImports := a.testImports ++ unquoteAll list }
    else
      .ok { a with numFiles := a.numFiles + 1, imports := a.imports ++ unquoteAll list }

/-- `for _, name := range files { … }` with a body that either returns an error or goes on. -/
def loopE (step : Acc → File → Except ScanErr Acc) : List File → Acc → Except ScanErr Acc
  | [], a => .ok a
  | f :: fs, a =>
    match step a f with
    | .error e => .error e
    | .ok a' => loopE step fs a'

def scanLoop (U : Nat → Bool) (tags : Tags) (explicitFiles : Bool) (files : List File) (a : Acc) :
    Except ScanErr Acc :=
  loopE (scanOne U tags explicitFiles) files a

/-- `scanFiles(files, tags, explicitFiles)`: `(imports, testImports)` or the error. -/
def scanFiles (U : Nat → Bool) (tags : Tags) (explicitFiles : Bool) (files : List File) :
    Except ScanErr (List Bytes × List Bytes) :=
  match scanLoop U tags explicitFiles files ⟨[], [], 0⟩ with
  | .error e => .error e
  | .ok a => if a.numFiles = 0 then .error .noGo else .ok (keys a.imports, keys a.testImports)

/-- `ScanFiles(files, tags)`. -/
def scanFilesExplicit (U : Nat → Bool) (tags : Tags) (files : List File) := scanFiles U tags true files

/-! ### ScanDir -/

/-- a directory entry: name, `info.Type().IsRegular()`, content (of a regular file). -/
structure Entry where
  name : Bytes
  regular : Bool
  data : Bytes
deriving DecidableEq, Repr

/-- the entry filter of ScanDir. -/
def dirSelects (U : Nat → Bool) (tags : Tags) (e : Entry) : Bool :=
  e.regular && !hasPrefix underscore e.name && hasSuffix dotGo e.name && matchFile U e.name tags

/-- `filepath.Join(dir, name)` for a clean non-empty `dir` without trailing separator and a
directory entry name (no separator, not empty): `dir + "/" + name`. -/
def joinPath (dir name : Bytes) : Bytes := dir ++ 47 :: name

/-- `ScanDir(dir, tags)` on the entries os.ReadDir returned. -/
def scanDir (U : Nat → Bool) (tags : Tags) (dir : Bytes) (entries : List Entry) :
    Except ScanErr (List Bytes × List Bytes) :=
  scanFiles U tags false ((entries.filter (dirSelects U tags)).map fun e => (joinPath dir e.name, e.data))

end GIV.Scan
