/-
  GIV.Model.Txtar — executable model of /repo/txtar/archive.go
  (Parse, findFileMarker, isMarker, fixNL, NeedsQuote, Quote, Unquote) and of
  golang.org/x/tools/txtar Format / Parse (the "reference definition").

  The Go code scans byte offsets; the model is line-structured: the input is cut into
  lines (each keeping its '\n'), and `findFileMarker`/`Parse` are folds over that list.
  That the two formulations agree is not proved here — it is what the correspondence
  check establishes on every run (exhaustive over a marker-relevant alphabet, see
  DESIGN §6.1).  Go panics are `none`.
-/
import GIV.Basic
import GIV.Gen.Txtar

namespace GIV.Txtar
open GIV

/-! ### strings.TrimSpace

`unicode.IsSpace` is true for exactly: U+0009–U+000D, U+0020, U+0085, U+00A0, U+1680,
U+2000–U+200A, U+2028, U+2029, U+202F, U+205F, U+3000.  A decoded rune is one of these
iff the bytes at that position are its (unique, shortest-form) UTF-8 encoding, so the
rune-level loop of `TrimSpace`/`TrimFunc` is: strip a matching pattern while there is one. -/

/-- length of the white-space rune encoding that `b` starts with (0 = none). -/
def spacePrefixLen : Bytes → Nat
  | b :: rest =>
    if b = 9 ∨ b = 10 ∨ b = 11 ∨ b = 12 ∨ b = 13 ∨ b = 32 then 1 else
    match b, rest with
    | 0xC2, c :: _ => if c = 0x85 ∨ c = 0xA0 then 2 else 0
    | 0xE1, c :: d :: _ => if c = 0x9A ∧ d = 0x80 then 3 else 0
    | 0xE2, c :: d :: _ =>
      if c = 0x80 ∧ ((0x80 ≤ d ∧ d ≤ 0x8A) ∨ d = 0xA8 ∨ d = 0xA9 ∨ d = 0xAF) then 3
      else if c = 0x81 ∧ d = 0x9F then 3 else 0
    | 0xE3, c :: d :: _ => if c = 0x80 ∧ d = 0x80 then 3 else 0
    | _, _ => 0
  | [] => 0

/-- `strings.TrimLeftFunc(s, unicode.IsSpace)`; fuel = length. -/
def trimLeftAux : Nat → Bytes → Bytes
  | 0, b => b
  | n+1, b => if spacePrefixLen b = 0 then b else trimLeftAux n (b.drop (spacePrefixLen b))

def trimLeft (b : Bytes) : Bytes := trimLeftAux b.length b

/-- length of the white-space rune encoding that the *reversed* input `r` ends… i.e. that the
original string ends with (`utf8.DecodeLastRune` yields a space iff the string ends with the
encoding of one). `r` is the string reversed. -/
def spaceSuffixLenRev : Bytes → Nat
  | b :: rest =>
    if b = 9 ∨ b = 10 ∨ b = 11 ∨ b = 12 ∨ b = 13 ∨ b = 32 then 1 else
    match rest with
    | c :: rest2 =>
      if c = 0xC2 ∧ (b = 0x85 ∨ b = 0xA0) then 2 else
      match rest2 with
      | d :: _ =>
        if d = 0xE1 ∧ c = 0x9A ∧ b = 0x80 then 3
        else if d = 0xE2 ∧ c = 0x80 ∧ ((0x80 ≤ b ∧ b ≤ 0x8A) ∨ b = 0xA8 ∨ b = 0xA9 ∨ b = 0xAF) then 3
        else if d = 0xE2 ∧ c = 0x81 ∧ b = 0x9F then 3
        else if d = 0xE3 ∧ c = 0x80 ∧ b = 0x80 then 3
        else 0
      | [] => 0
    | [] => 0
  | [] => 0

def trimRightRevAux : Nat → Bytes → Bytes
  | 0, r => r
  | n+1, r => if spaceSuffixLenRev r = 0 then r else trimRightRevAux n (r.drop (spaceSuffixLenRev r))

def trimRight (b : Bytes) : Bytes := (trimRightRevAux b.length b.reverse).reverse

/-- `strings.TrimSpace`. -/
def trimSpace (b : Bytes) : Bytes := trimRight (trimLeft b)

/-! ### lines -/

/-- Cut at the first '\n': `(line without '\n', some rest)` or `(all, none)` when there is none. -/
def cutNL : Bytes → Bytes × Option Bytes
  | [] => ([], none)
  | b :: rest =>
    if b = NL then ([], some rest) else
    let r := cutNL rest
    (b :: r.1, r.2)

/-- A line of input: its bytes without the terminator, and whether a '\n' followed. -/
structure Line where
  body : Bytes
  nl : Bool
deriving Repr, DecidableEq

def Line.bytes (l : Line) : Bytes := if l.nl then l.body ++ [NL] else l.body

/-- Split into lines. `[]` ↦ `[]`; a trailing unterminated piece is a line with `nl = false`. -/
def splitLinesAux : Nat → Bytes → List Line
  | 0, _ => []
  | n+1, b =>
    if b.isEmpty then [] else
    match cutNL b with
    | (l, some rest) => ⟨l, true⟩ :: splitLinesAux n rest
    | (l, none) => [⟨l, false⟩]

def splitLines (b : Bytes) : List Line := splitLinesAux b.length b

def joinLines (ls : List Line) : Bytes := ls.flatMap Line.bytes

/-! ### isMarker -/

def marker : Bytes := Gen.Txtar.marker
def markerEnd : Bytes := Gen.Txtar.markerEnd

def dropLastCR (l : Bytes) : Bytes :=
  if l.getLast? = some CR then l.dropLast else l

/-- `isMarker` applied at the start of line `l` (the rest of the input does not matter).
Result: `none` = Go panics; `some []` = not a marker; `some name` = marker with that name.
Mirrors archive.go: prefix test, cut at '\n' and strip one '\r' (only when a '\n' was found),
suffix test, then `data[len(marker):len(data)-len(markerEnd)]` — a checked slice — and TrimSpace. -/
def markerName (l : Line) : Option Bytes :=
  if !marker.isPrefixOf l.bytes then some [] else
  let data := if Gen.Txtar.crAtEOF || l.nl then dropLastCR l.body else l.body
  if !markerEnd.isSuffixOf data then some [] else
  if Gen.Txtar.lenGuard && data.length < marker.length + markerEnd.length then some [] else
  if data.length - markerEnd.length < marker.length then none   -- slice bounds out of range
  else some (trimSpace ((data.take (data.length - markerEnd.length)).drop marker.length))

/-- If data is empty or ends in '\n', it is returned; otherwise a '\n' is added. -/
def fixNL (b : Bytes) : Bytes :=
  if b.isEmpty ∨ b.getLast? = some NL then b else b ++ [NL]

/-- Result of `findFileMarker` over the remaining lines:
`before`, `name` (`[]` = no marker found), `after` (`none` = Go `nil`). -/
structure Found where
  before : Bytes
  name : Bytes
  after : Option (List Line)

/-- `findFileMarker`: scan line starts; `acc` = bytes of the lines passed so far. -/
def findFM : List Line → Bytes → Option Found
  | [], acc => some ⟨fixNL acc, [], none⟩
  | l :: rest, acc =>
    match markerName l with
    | none => none
    | some name =>
      if name ≠ [] then some ⟨acc, name, if l.nl then some rest else none⟩
      else findFM rest (acc ++ l.bytes)

structure File where
  name : Bytes
  data : Bytes
deriving Repr, DecidableEq

structure Archive where
  comment : Bytes
  files : List File
deriving Repr, DecidableEq

/-- The `for name != ""` loop of `Parse`, after a marker `name` has been seen:
collect this file's data, then continue with the next marker. Structural on the line list. -/
def parseFiles : List Line → (name : Bytes) → (acc : Bytes) → Option (List File)
  | [], name, acc => some [⟨name, fixNL acc⟩]
  | l :: rest, name, acc =>
    match markerName l with
    | none => none
    | some n =>
      if n ≠ [] then
        (if l.nl then parseFiles rest n [] else some [⟨n, []⟩]).map (fun fs => ⟨name, acc⟩ :: fs)
      else parseFiles rest name (acc ++ l.bytes)

/-- The comment part of `Parse`. -/
def parseLines : List Line → (acc : Bytes) → Option Archive
  | [], acc => some ⟨fixNL acc, []⟩
  | l :: rest, acc =>
    match markerName l with
    | none => none
    | some n =>
      if n ≠ [] then
        (if l.nl then parseFiles rest n [] else some [⟨n, []⟩]).map (fun fs => ⟨acc, fs⟩)
      else parseLines rest (acc ++ l.bytes)

/-- `txtar.Parse`. `none` = panic. -/
def parse (data : Bytes) : Option Archive := parseLines (splitLines data) []

/-- `NeedsQuote`: `_, _, after := findFileMarker(data); return after != nil`
(or, once repaired, `name != ""`; which one is read from the source by factgen). -/
def needsQuote (data : Bytes) : Option Bool :=
  (findFM (splitLines data) []).map fun f =>
    if Gen.Txtar.needsQuoteTestsName then f.name ≠ [] else f.after.isSome

/-- x/tools `Format`: comment with fixNL, then `-- name --\n` and fixNL(data) per file. -/
def format (a : Archive) : Bytes :=
  fixNL a.comment ++ a.files.flatMap fun f => marker ++ f.name ++ markerEnd ++ [NL] ++ fixNL f.data

/-! ### Quote / Unquote -/

inductive QErr | noFinalNewline | notUTF8 | notQuoted
deriving Repr, DecidableEq

/-- UTF-8 validity (`utf8.Valid`): standard well-formed byte sequences (Unicode Table 3-7). -/
def utf8Valid : Bytes → Bool
  | [] => true
  | b :: rest =>
    if b < 0x80 then utf8Valid rest else
    match rest with
    | c :: rest1 =>
      if 0xC2 ≤ b ∧ b ≤ 0xDF then (0x80 ≤ c ∧ c ≤ 0xBF) && utf8Valid rest1 else
      match rest1 with
      | d :: rest2 =>
        if b = 0xE0 then (0xA0 ≤ c ∧ c ≤ 0xBF ∧ 0x80 ≤ d ∧ d ≤ 0xBF) && utf8Valid rest2
        else if (0xE1 ≤ b ∧ b ≤ 0xEC) ∨ b = 0xEE ∨ b = 0xEF then
          (0x80 ≤ c ∧ c ≤ 0xBF ∧ 0x80 ≤ d ∧ d ≤ 0xBF) && utf8Valid rest2
        else if b = 0xED then (0x80 ≤ c ∧ c ≤ 0x9F ∧ 0x80 ≤ d ∧ d ≤ 0xBF) && utf8Valid rest2
        else
          match rest2 with
          | e :: rest3 =>
            if b = 0xF0 then
              (0x90 ≤ c ∧ c ≤ 0xBF ∧ 0x80 ≤ d ∧ d ≤ 0xBF ∧ 0x80 ≤ e ∧ e ≤ 0xBF) && utf8Valid rest3
            else if 0xF1 ≤ b ∧ b ≤ 0xF3 then
              (0x80 ≤ c ∧ c ≤ 0xBF ∧ 0x80 ≤ d ∧ d ≤ 0xBF ∧ 0x80 ≤ e ∧ e ≤ 0xBF) && utf8Valid rest3
            else if b = 0xF4 then
              (0x80 ≤ c ∧ c ≤ 0x8F ∧ 0x80 ≤ d ∧ d ≤ 0xBF ∧ 0x80 ≤ e ∧ e ≤ 0xBF) && utf8Valid rest3
            else false
          | [] => false
      | [] => false
    | [] => false

/-- The loop of `Quote`: a '>' before every byte that follows a '\n' (or starts the data). -/
def quoteLoop : UInt8 → Bytes → Bytes
  | _, [] => []
  | prev, b :: rest => if prev = NL then 62 :: b :: quoteLoop b rest else b :: quoteLoop b rest

def quote (data : Bytes) : Except QErr Bytes :=
  if data.isEmpty then .ok [] else
  if data.getLast? ≠ some NL then .error .noFinalNewline else
  if !utf8Valid data then .error .notUTF8 else
  .ok (quoteLoop NL data)

/-- `bytes.Replace(data, "\n>", "\n", -1)`: left-to-right, non-overlapping. -/
def replaceNLGT : Bytes → Bytes
  | [] => []
  | [b] => [b]
  | a :: b :: rest => if a = NL ∧ b = 62 then NL :: replaceNLGT rest else a :: replaceNLGT (b :: rest)

def unquote (data : Bytes) : Except QErr Bytes :=
  if data.isEmpty then .ok [] else
  if data.head? ≠ some 62 ∨ data.getLast? ≠ some NL then .error .notQuoted else
  let d := replaceNLGT data
  .ok (if d.head? = some 62 then d.tail else d)

/-! ### reference: golang.org/x/tools/txtar Parse (no CR handling, guarded slice) -/

def refMarkerName (l : Line) : Bytes :=
  if !marker.isPrefixOf l.bytes then [] else
  let data := l.body
  if !(markerEnd.isSuffixOf data && decide (marker.length + markerEnd.length ≤ data.length)) then [] else
  trimSpace ((data.take (data.length - markerEnd.length)).drop marker.length)

def refParseFiles : List Line → Bytes → Bytes → List File
  | [], name, acc => [⟨name, fixNL acc⟩]
  | l :: rest, name, acc =>
    let n := refMarkerName l
    if n ≠ [] then ⟨name, acc⟩ :: (if l.nl then refParseFiles rest n [] else [⟨n, []⟩])
    else refParseFiles rest name (acc ++ l.bytes)

def refParseLines : List Line → Bytes → Archive
  | [], acc => ⟨fixNL acc, []⟩
  | l :: rest, acc =>
    let n := refMarkerName l
    if n ≠ [] then ⟨acc, if l.nl then refParseFiles rest n [] else [⟨n, []⟩]⟩
    else refParseLines rest (acc ++ l.bytes)

def refParse (data : Bytes) : Archive := refParseLines (splitLines data) []

end GIV.Txtar
