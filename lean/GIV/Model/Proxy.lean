/-
  GIV.Model.Proxy — executable model of /repo/goproxytest (proxy.go, pseudo.go, allhex.go) and of the
  golang.org/x/mod functions it calls (module.EscapePath/UnescapePath/EscapeVersion/UnescapeVersion/
  Check, semver.IsValid/Compare/Major/Build).

  Go strings are byte lists.  What is modelled: the case-escaping codecs with their validity rules,
  `readModList` (directory entries → module list), the routing of `handler`, the commit-hash
  resolution loop, the modList membership check, `readArchive` (lookup order, directory walk), the
  selection of `.info` / `.mod` / zip members and the list filter.

  Outside the model (parameters `Ext`, or not represented at all): HTTP transport, zip encoding,
  JSON decoding of `.info` (`Ext.shortOf`), txtar parsing (`Ext.parseTxtar`), the file system beyond
  "a directory is a list of named regular files / sub-trees".  `zipCache` is represented by the
  oracle `who`: which caller's closure produced the cached zip for an archive (see `handler`).

  Every constant and deciding expression of proxy.go comes from `GIV.Gen.Proxy` (factgen).
-/
import GIV.Basic
import GIV.Gen.Proxy

namespace GIV.Proxy
open GIV
open GIV.Gen.Proxy (Re)

/-! ### byte-string helpers -/

def isLower (c : UInt8) : Bool := 97 ≤ c && c ≤ 122
def isUpper (c : UInt8) : Bool := 65 ≤ c && c ≤ 90
def isDigit (c : UInt8) : Bool := 48 ≤ c && c ≤ 57

/-- `strings.HasPrefix(s, pre)` -/
def hasPrefix (pre s : Bytes) : Bool := pre.isPrefixOf s
/-- `strings.HasSuffix(s, suf)` -/
def hasSuffix (suf s : Bytes) : Bool := suf.isSuffixOf s

/-- `strings.Index(s, sep)`. -/
def indexOf (sep : Bytes) : Bytes → Option Nat
  | [] => if sep.isEmpty then some 0 else none
  | c :: rest => if sep.isPrefixOf (c :: rest) then some 0 else (indexOf sep rest).map (· + 1)

/-- `strings.LastIndex(s, sep)`. -/
def lastIndexOf (sep : Bytes) : Bytes → Option Nat
  | [] => if sep.isEmpty then some 0 else none
  | c :: rest =>
    match lastIndexOf sep rest with
    | some i => some (i + 1)
    | none => if sep.isPrefixOf (c :: rest) then some 0 else none

/-- `strings.ReplaceAll(s, [a], [b])` for one-byte strings; for other arguments the model gives up
(the identity) — the generated facts are one-byte strings, and the theorems unfold them. -/
def replaceByte (frm to : Bytes) (s : Bytes) : Bytes :=
  match frm, to with
  | [a], [b] => s.map fun c => if c = a then b else c
  | _, _ => s

/-- `strings.Split(s, [sep])` -/
def splitOn (sep : UInt8) : Bytes → List Bytes
  | [] => [[]]
  | c :: rest =>
    if c = sep then [] :: splitOn sep rest
    else match splitOn sep rest with
      | [] => [[c]]
      | h :: t => (c :: h) :: t

/-- bytewise `x < y` of Go strings -/
def bytesLt : Bytes → Bytes → Bool
  | [], [] => false
  | [], _ :: _ => true
  | _ :: _, [] => false
  | a :: as, b :: bs => if a < b then true else if b < a then false else bytesLt as bs

/-! ### golang.org/x/mod/module: escaping -/

/-- the loop of `unescapeString`; `bang` = a '!' was just read. -/
def unescapeAux : Bool → Bytes → Option Bytes
  | bang, [] => if bang then none else some []
  | bang, c :: rest =>
    if c ≥ 128 then none else
    if bang then
      if isLower c then (unescapeAux false rest).map (fun r => (c - 32) :: r) else none
    else if c = 33 then unescapeAux true rest
    else if isUpper c then none
    else (unescapeAux false rest).map (fun r => c :: r)

def unescapeString (e : Bytes) : Option Bytes := unescapeAux false e

def escapeByte (c : UInt8) : Bytes := if isUpper c then [33, c + 32] else [c]

/-- `escapeString`: error on '!' or a non-ASCII byte. -/
def escapeString (s : Bytes) : Option Bytes :=
  if s.any (fun c => c = 33 || c ≥ 128) then none else some (s.flatMap escapeByte)

/-! ### module.CheckPath, checkElem -/

inductive PathKind | modulePath | filePath
deriving DecidableEq

def modPathOK (c : UInt8) : Bool :=
  c = 45 || c = 46 || c = 95 || c = 126 || isDigit c || isUpper c || isLower c

def firstPathOK (c : UInt8) : Bool := c = 45 || c = 46 || isDigit c || isLower c

/-- `fileNameOK` on ASCII. Non-ASCII bytes are rejected here: wherever the proxy calls
`checkElem(v, filePath)` a non-ASCII byte is an error anyway (`unescapeString` rejects it before,
`escapeString` after the call). -/
def fileNameOK (c : UInt8) : Bool :=
  isDigit c || isUpper c || isLower c || (lit "!#$%&()+,-.=@[]^_{}~ ").contains c

def charOK : PathKind → UInt8 → Bool
  | .modulePath, c => modPathOK c
  | .filePath, c => fileNameOK c

def toUpperByte (c : UInt8) : UInt8 := if isLower c then c - 32 else c

def badWindowsNames : List Bytes :=
  ["CON", "PRN", "AUX", "NUL", "COM1", "COM2", "COM3", "COM4", "COM5", "COM6", "COM7", "COM8", "COM9",
   "LPT1", "LPT2", "LPT3", "LPT4", "LPT5", "LPT6", "LPT7", "LPT8", "LPT9"].map lit

/-- `short` ends in '~' followed by one or more digits (checked from the last '~'). -/
def tildeDigits (short : Bytes) : Bool :=
  let r := short.reverse
  let ds := r.takeWhile isDigit
  !ds.isEmpty && (r.drop ds.length).head? = some 126

/-- `checkElem(elem, kind) == nil` -/
def checkElem (kind : PathKind) (elem : Bytes) : Bool :=
  !elem.isEmpty &&
  !(elem.all (· = 46)) &&
  !(elem.head? = some 46 && kind = .modulePath) &&
  !(elem.getLast? = some 46) &&
  elem.all (charOK kind) &&
  (let short := elem.takeWhile (· ≠ 46)
   !(badWindowsNames.any (· = short.map toUpperByte)) &&
   (kind = .filePath || !tildeDigits short))

/-- `checkPath(path, modulePath) == nil` (UTF-8 validity is implied by the character check). -/
def checkPathElems (path : Bytes) : Bool :=
  !path.isEmpty && path.head? ≠ some 45 && (splitOn 47 path).all (checkElem .modulePath)

/-- `splitGopkgIn`: (prefix, pathMajor, ok) -/
def splitGopkgIn (path : Bytes) : Bytes × Bytes × Bool :=
  let unst := lit "-unstable"
  let i0 := if hasSuffix unst path then path.length - unst.length else path.length
  let digits := ((path.take i0).reverse.takeWhile isDigit).length
  let i := i0 - digits
  if i ≤ 1 || path[i-1]? ≠ some 118 || path[i-2]? ≠ some 46 then (path, [], false) else
  let pathMajor := path.drop (i - 2)
  if pathMajor.length ≤ 2 || (pathMajor[2]? = some 48 && pathMajor ≠ lit ".v0") then (path, [], false)
  else (path.take (i - 2), pathMajor, true)

/-- `SplitPathVersion`: (prefix, pathMajor, ok) -/
def splitPathVersion (path : Bytes) : Bytes × Bytes × Bool :=
  if hasPrefix (lit "gopkg.in/") path then splitGopkgIn path else
  let run := path.reverse.takeWhile (fun c => isDigit c || c = 46)
  let dot := run.contains 46
  let i := path.length - run.length
  if i ≤ 1 || i = path.length || path[i-1]? ≠ some 118 || path[i-2]? ≠ some 47 then (path, [], true) else
  let pathMajor := path.drop (i - 2)
  if dot || pathMajor.length ≤ 2 || pathMajor[2]? = some 48 || pathMajor = lit "/v1" then (path, [], false)
  else (path.take (i - 2), pathMajor, true)

/-- `module.CheckPath(path) == nil` -/
def checkPath (path : Bytes) : Bool :=
  checkPathElems path &&
  (let first := path.takeWhile (· ≠ 47)
   !first.isEmpty && first.contains 46 && first.all firstPathOK) &&
  (splitPathVersion path).2.2

/-- `module.EscapePath` (`none` = error) -/
def escapePath (p : Bytes) : Option Bytes := if checkPath p then escapeString p else none

/-- `module.EscapeVersion` -/
def escapeVersion (v : Bytes) : Option Bytes :=
  if checkElem .filePath v && !v.contains 33 then escapeString v else none

/-- `module.UnescapePath` -/
def unescapePath (e : Bytes) : Option Bytes :=
  match unescapeString e with
  | some p => if checkPath p then some p else none
  | none => none

/-- `module.UnescapeVersion` -/
def unescapeVersion (e : Bytes) : Option Bytes :=
  match unescapeString e with
  | some v => if checkElem .filePath v then some v else none
  | none => none

/-! ### golang.org/x/mod/semver -/

structure Parsed where
  major : Bytes
  minor : Bytes
  patch : Bytes
  prerelease : Bytes
  build : Bytes
deriving Repr, DecidableEq

def parseInt (v : Bytes) : Option (Bytes × Bytes) :=
  match v with
  | [] => none
  | c :: _ =>
    if !isDigit c then none else
    let t := v.takeWhile isDigit
    if c = 48 && t.length ≠ 1 then none else some (t, v.drop t.length)

def isIdentChar (c : UInt8) : Bool := isUpper c || isLower c || isDigit c || c = 45

/-- `isBadNum`: all digits, longer than 1, leading zero. -/
def isBadNum (v : Bytes) : Bool := v.all isDigit && v.length > 1 && v.head? = some 48

/-- `parsePrerelease` on input starting with '-': (prerelease incl. '-', rest). -/
def parsePrerelease (v : Bytes) : Option (Bytes × Bytes) :=
  let body := (v.drop 1).takeWhile (· ≠ 43)
  if body.all (fun c => isIdentChar c || c = 46) && (splitOn 46 body).all (fun id => !id.isEmpty && !isBadNum id)
  then some (v.take (1 + body.length), v.drop (1 + body.length)) else none

/-- `parseBuild` on input starting with '+': consumes everything. -/
def parseBuild (v : Bytes) : Option (Bytes × Bytes) :=
  let body := v.drop 1
  if body.all (fun c => isIdentChar c || c = 46) && (splitOn 46 body).all (fun id => !id.isEmpty)
  then some (v, []) else none

/-- `semver.parse` (`none` = not ok) -/
def semverParse (v : Bytes) : Option Parsed :=
  match v with
  | 118 :: v1 =>
    match parseInt v1 with
    | none => none
    | some (major, []) => some ⟨major, [48], [48], [], []⟩
    | some (major, 46 :: v2) =>
      match parseInt v2 with
      | none => none
      | some (minor, []) => some ⟨major, minor, [48], [], []⟩
      | some (minor, 46 :: v3) =>
        match parseInt v3 with
        | none => none
        | some (patch, v4) =>
          match (if v4.head? = some 45 then parsePrerelease v4 else some ([], v4)) with
          | none => none
          | some (pre, v5) =>
            match (if v5.head? = some 43 then parseBuild v5 else some ([], v5)) with
            | none => none
            | some (build, v6) => if v6.isEmpty then some ⟨major, minor, patch, pre, build⟩ else none
      | some (_, _ :: _) => none
    | some (_, _ :: _) => none
  | _ => none

def semverIsValid (v : Bytes) : Bool := (semverParse v).isSome

/-- `semver.Major` ("" when invalid) -/
def semverMajor (v : Bytes) : Bytes :=
  match semverParse v with
  | some p => v.take (1 + p.major.length)
  | none => []

/-- `semver.Build` -/
def semverBuild (v : Bytes) : Bytes :=
  match semverParse v with
  | some p => p.build
  | none => []

def compareInt (x y : Bytes) : Int :=
  if x = y then 0 else if x.length < y.length then -1 else if x.length > y.length then 1
  else if bytesLt x y then -1 else 1

/-- the loop of `comparePrerelease` over the dot-separated identifiers (the leading '-'/'.' removed). -/
def comparePreIdents : List Bytes → List Bytes → Int
  | [], [] => 0      -- not reached from comparePrerelease (x ≠ y there)
  | [], _ :: _ => -1
  | _ :: _, [] => 1
  | dx :: xs, dy :: ys =>
    if dx ≠ dy then
      let ix := dx.all isDigit
      let iy := dy.all isDigit
      if ix ≠ iy then (if ix then -1 else 1)
      else if ix && dx.length < dy.length then -1
      else if ix && dx.length > dy.length then 1
      else if bytesLt dx dy then -1 else 1
    else comparePreIdents xs ys

def comparePrerelease (x y : Bytes) : Int :=
  if x = y then 0 else if x.isEmpty then 1 else if y.isEmpty then -1
  else comparePreIdents (splitOn 46 (x.drop 1)) (splitOn 46 (y.drop 1))

/-- `semver.Compare` -/
def semverCompare (v w : Bytes) : Int :=
  match semverParse v, semverParse w with
  | none, none => 0
  | none, some _ => -1
  | some _, none => 1
  | some pv, some pw =>
    if compareInt pv.major pw.major ≠ 0 then compareInt pv.major pw.major
    else if compareInt pv.minor pw.minor ≠ 0 then compareInt pv.minor pw.minor
    else if compareInt pv.patch pw.patch ≠ 0 then compareInt pv.patch pw.patch
    else comparePrerelease pv.prerelease pw.prerelease

/-- `module.CheckPathMajor(v, pathMajor) == nil` -/
def checkPathMajor (v pathMajor : Bytes) : Bool :=
  let pm := if hasPrefix (lit ".v") pathMajor && hasSuffix (lit "-unstable") pathMajor
            then pathMajor.take (pathMajor.length - 9) else pathMajor
  if hasPrefix (lit "v0.0.0-") v && pm = lit ".v1" then true else
  let m := semverMajor v
  if pm.isEmpty then m = lit "v0" || m = lit "v1" || semverBuild v = lit "+incompatible"
  else if pm.head? = some 47 || pm.head? = some 46 then m = pm.drop 1
  else false

/-- `module.Check(path, version) == nil` -/
def check (path version : Bytes) : Bool :=
  checkPath path && semverIsValid version && checkPathMajor version (splitPathVersion path).2.1

/-! ### pseudo.go, allhex.go -/

namespace Re
def nullable : Re → Bool
  | .empty => false
  | .eps => true
  | .cls _ => false
  | .cat a b => nullable a && nullable b
  | .alt a b => nullable a || nullable b
  | .star _ => true

def mkCat : Re → Re → Re
  | .empty, _ => .empty
  | .eps, b => b
  | a, b => .cat a b

def mkAlt : Re → Re → Re
  | .empty, b => b
  | a, .empty => a
  | a, b => .alt a b

/-- Brzozowski derivative -/
def deriv (c : UInt8) : Re → Re
  | .empty => .empty
  | .eps => .empty
  | .cls rs => if rs.any (fun r => r.1 ≤ c && c ≤ r.2) then .eps else .empty
  | .cat a b => if nullable a then mkAlt (mkCat (deriv c a) b) (deriv c b) else mkCat (deriv c a) b
  | .alt a b => mkAlt (deriv c a) (deriv c b)
  | .star a => mkCat (deriv c a) (.star a)

/-- whole-string match -/
def «matches» (r : Re) : Bytes → Bool
  | [] => nullable r
  | c :: cs => «matches» (deriv c r) cs
end Re

/-- `isPseudoVersion` -/
def isPseudo (v : Bytes) : Bool :=
  (v.count 45 ≥ Gen.Proxy.pseudoMinDashes) && semverIsValid v && Re.matches Gen.Proxy.pseudoRe v

/-! #### reference: what a pseudo-version is, written without the regular expression

The three forms of cmd/go (and golang.org/x/mod/module.IsPseudoVersion, for build metadata that is
empty or `+incompatible`):

    vX.0.0-yyyymmddhhmmss-abcdefabcdef
    vX.Y.Z-pre.0.yyyymmddhhmmss-abcdefabcdef      (pre: any bytes except '+')
    vX.Y.(Z+1)-0.yyyymmddhhmmss-abcdefabcdef

This is the *meaning* `isPseudo` is held against (GIV.Props.C20 `isPseudo_spec_partial`, and the
harness compares it with x/mod on every run); it does not use `Gen.Proxy.pseudoRe`. -/

/-- `yyyymmddhhmmss-<alphanumeric hash>` optionally followed by `+incompatible`, to the end -/
def isPseudoTail (t : Bytes) : Bool :=
  let d := t.take 14
  let r := t.drop 14
  d.length = 14 && d.all isDigit && r.head? = some 45 &&
  (let h := (r.drop 1).takeWhile (fun c => isDigit c || isUpper c || isLower c)
   let suf := (r.drop 1).drop h.length
   !h.isEmpty && (suf.isEmpty || suf = lit "+incompatible"))

/-- the optional `pre.` group: empty, or ending in '.' and free of '+' -/
def pseudoPreOK (pre : Bytes) : Bool := pre.isEmpty || (pre.getLast? = some 46 && !pre.contains 43)

/-- is there a split `r = pre ++ "0." ++ tail` (with `acc` already consumed into `pre`)? -/
def pseudoSplit (acc : Bytes) : Bytes → Bool
  | [] => false
  | c :: rest =>
    (pseudoPreOK acc && hasPrefix [48, 46] (c :: rest) && isPseudoTail ((c :: rest).drop 2)) ||
      pseudoSplit (acc ++ [c]) rest

/-- a non-empty run of digits followed by the byte `sep`: the remainder -/
def digitsThen (sep : UInt8) (s : Bytes) : Option Bytes :=
  let d := s.takeWhile isDigit
  if !d.isEmpty && (s.drop d.length).head? = some sep then some (s.drop (d.length + 1)) else none

def pseudoShape (v : Bytes) : Bool :=
  match v with
  | 118 :: v1 =>
    match digitsThen 46 v1 with
    | none => false
    | some r =>
      (hasPrefix (lit "0.0-") r && isPseudoTail (r.drop 4)) ||
      (match digitsThen 46 r with
       | none => false
       | some r2 =>
         match digitsThen 45 r2 with
         | none => false
         | some r3 => pseudoSplit [] r3)
  | _ => false

/-- reference definition of "pseudo-version" -/
def isPseudoRef (v : Bytes) : Bool := (v.count 45 ≥ 2) && semverIsValid v && pseudoShape v

/-- `allHex` -/
def allHex (rev : Bytes) : Bool := rev.all fun c => Gen.Proxy.hexRanges.any fun r => r.1 ≤ c && c ≤ r.2

/-! ### the served directory -/

structure File where
  name : Bytes
  data : Bytes
deriving Repr, DecidableEq

/-- An entry of the served directory: a regular file, or a directory given by the regular files
below it (path components, content), in any order. -/
inductive Node
  | file (data : Bytes)
  | dir (files : List (List Bytes × Bytes))
deriving Repr

/-- The served directory: entry name ↦ node (names are unique, no '/' inside). -/
abbrev Store := List (Bytes × Node)

def Node.isDir : Node → Bool
  | .file _ => false
  | .dir _ => true

/-- What the model does not interpret. -/
structure Ext where
  /-- `txtar.Parse(data).Files` (golang.org/x/tools/txtar) -/
  parseTxtar : Bytes → List File
  /-- `json.Unmarshal(data, &struct{Short string})`: the `Short` field of an `.info` file -/
  shortOf : Bytes → Bytes

structure ModVer where
  path : Bytes
  version : Bytes
deriving Repr, DecidableEq

/-- component-wise order of `filepath.WalkDir` (each directory's entries sorted by name) -/
def pathLe : List Bytes → List Bytes → Bool
  | [], _ => true
  | _ :: _, [] => false
  | a :: as, b :: bs => if bytesLt a b then true else if bytesLt b a then false else pathLe as bs

def joinSlash : List Bytes → Bytes
  | [] => []
  | [a] => a
  | a :: rest => a ++ 47 :: joinSlash rest

/-- insertion into a sorted list (before the first element that is not smaller) -/
def insertBy {α} (le : α → α → Bool) (a : α) : List α → List α
  | [] => [a]
  | b :: bs => if le a b then a :: b :: bs else b :: insertBy le a bs

/-- stable insertion sort (structural, so that concrete instances evaluate in the kernel) -/
def sortBy {α} (le : α → α → Bool) : List α → List α
  | [] => []
  | a :: as => insertBy le a (sortBy le as)

/-- the files of a directory archive, in walk order, named by their slash-separated relative path -/
def walk (files : List (List Bytes × Bytes)) : List File :=
  (sortBy (fun a b => pathLe a.1 b.1) files).map fun f => ⟨joinSlash f.1, f.2⟩

/-- `os.ReadDir`: entries sorted by name. -/
def readDir (st : Store) : List (Bytes × Bool) :=
  sortBy (fun a b => !bytesLt b.1 a.1) (st.map fun e => (e.1, e.2.isDir))

/-! ### readModList -/

/-- the `switch` on the entry name: trimmed base name, or `none` = skipped -/
def entryBase (name : Bytes) (isDir : Bool) : Option Bytes :=
  match Gen.Proxy.modListSuffixes.find? (fun suf => hasSuffix suf name) with
  | some suf => some (name.take (name.length - suf.length))
  | none => if isDir then some name else none

/-- `i := strings.LastIndex(name, "_v")`; (name[:i], name[i+1:]) -/
def splitName (name : Bytes) : Option (Bytes × Bytes) :=
  match (if Gen.Proxy.splitUsesLastIndex then lastIndexOf Gen.Proxy.splitSep name
         else indexOf Gen.Proxy.splitSep name) with
  | none => none
  | some i => some (name.take i, name.drop (i + Gen.Proxy.versOffset))

/-- base name ↦ (path, version); outer `none` = skipped (no separator), inner `none` = decode error -/
def decodeBase (base : Bytes) : Option (Option ModVer) :=
  match splitName base with
  | none => none
  | some (pre, encVers) =>
    some (match unescapePath (replaceByte Gen.Proxy.modListReplFrom Gen.Proxy.modListReplTo pre),
                unescapeVersion encVers with
          | some p, some v => some ⟨p, v⟩
          | _, _ => none)

/-- `readModList` over the sorted entries; `none` = error (NewServer fails). -/
def readModListAux : List (Bytes × Bool) → Option (List ModVer)
  | [] => some []
  | (n, d) :: rest =>
    match entryBase n d with
    | none => readModListAux rest
    | some base =>
      match decodeBase base with
      | none => readModListAux rest
      | some none => none
      | some (some m) => (readModListAux rest).map (m :: ·)

def readModList (st : Store) : Option (List ModVer) := readModListAux (readDir st)

/-! ### readArchive -/

/-- the file name (without extension) of the archive of `path@vers`; `none` = Escape error -/
def archiveBase (path vers : Bytes) : Option Bytes :=
  match escapePath path, escapeVersion vers with
  | some enc, some encVers =>
    some (replaceByte Gen.Proxy.archReplFrom Gen.Proxy.archReplTo enc ++ Gen.Proxy.archJoin ++ encVers)
  | _, _ => none

/-- the body of the `archiveCache.Do` closure: the lookups of `Gen.lookupOrder`, falling through
only on "does not exist".  `none` = nil archive. -/
def loadArchiveFrom (x : Ext) (st : Store) (name : Bytes) : List (Option Bytes) → Option (List File)
  | [] => none
  | some suf :: rest =>
    match st.lookup (name ++ suf) with
    | some (.file d) => some (x.parseTxtar d)
    | some (.dir _) => none                       -- read error that is not IsNotExist
    | none => loadArchiveFrom x st name rest
  | none :: rest =>
    match st.lookup name with
    | some (.dir fs) => some (walk fs)
    | some (.file _) => none                      -- "expected a directory root"
    | none => loadArchiveFrom x st name rest

def loadArchive (x : Ext) (st : Store) (name : Bytes) : Option (List File) :=
  loadArchiveFrom x st name Gen.Proxy.lookupOrder

def readArchive (x : Ext) (st : Store) (path vers : Bytes) : Option (List File) :=
  (archiveBase path vers).bind (loadArchive x st)

/-! ### handler -/

inductive Response
  | notFound
  | bytes (b : Bytes)
  | zip (members : List File)
  | err500
deriving Repr, DecidableEq

/-- `findHash` -/
def findHash (x : Ext) (st : Store) (m : ModVer) : Bytes :=
  match readArchive x st m.path m.version with
  | none => []
  | some files =>
    match files.find? (fun f => f.name = lit ".info") with
    | some f => x.shortOf f.data
    | none => x.shortOf []

def afterLastDash (v : Bytes) : Bytes := (v.reverse.takeWhile (· ≠ 45)).reverse

/-- one iteration of the commit-hash loop -/
def hashStep (x : Ext) (st : Store) (path vers : Bytes) (best : Bytes) (m : ModVer) : Bytes :=
  if m.path = path && semverCompare best m.version < 0 then
    let hash := if isPseudo m.version then afterLastDash m.version else findHash x st m
    if hasPrefix vers hash || hasPrefix hash vers then m.version else best
  else best

/-- the version served for a requested version `vers` -/
def resolve (x : Ext) (st : Store) (ml : List ModVer) (path vers : Bytes) : Bytes :=
  if allHex vers then
    let best := ml.foldl (hashStep x st path vers) []
    if best ≠ [] then best else vers
  else vers

/-- the list endpoint -/
def listVersions (ml : List ModVer) (path : Bytes) : List Bytes :=
  (ml.filter fun m =>
    (!Gen.Proxy.listMatchesPath || m.path = path) &&
    (!Gen.Proxy.listExcludesPseudo || !isPseudo m.version) &&
    (!Gen.Proxy.listRequiresCheck || check m.path m.version)).map (·.version)

def listResponse (ml : List ModVer) (path : Bytes) : Response :=
  let vs := listVersions ml path
  if vs.isEmpty then .notFound else .bytes (vs.flatMap fun v => v ++ [10])

/-- the members written by the zip closure run for `path@vers` -/
def zipMembers (path vers : Bytes) (files : List File) : List File :=
  (files.filter fun f => !hasPrefix Gen.Proxy.zipSkipPrefix f.name).map fun f =>
    ⟨path ++ Gen.Proxy.zipSep1 ++ vers ++ Gen.Proxy.zipSep2 ++ f.name, f.data⟩

/-- `zip.Writer.Create` fails for names longer than 65535 bytes; the error is cached and served as 500. -/
def zipResponse (members : List File) : Response :=
  if members.any (fun f => f.name.length > 65535) then .err500 else .zip members

/-- `strings.Index(path, sep)`: (path[:i], path[i+len(sep):]) -/
def cutAt (sep s : Bytes) : Option (Bytes × Bytes) :=
  (indexOf sep s).map fun i => (s.take i, s.drop (i + sep.length))

/-- The part of `handler` after the version has been unescaped.
`who name` is the zipCache oracle: `some (p, v)` = the zip cached for archive `name` was produced by
the closure of a call for `p@v` (an earlier or a concurrently winning call); `none` = this call's
own closure runs. -/
def serveFile (x : Ext) (ml : List ModVer) (st : Store) (who : Bytes → Option (Bytes × Bytes))
    (path vers0 ext : Bytes) : Response :=
  let vers := resolve x st ml path vers0
  if Gen.Proxy.handlerChecksModList && !ml.contains ⟨path, vers⟩ then .notFound else
  match archiveBase path vers with
  | none => .notFound
  | some name =>
    match loadArchive x st name with
    | none => .notFound
    | some files =>
      if Gen.Proxy.fileExts.contains ext then
        match files.find? (fun f => f.name = Gen.Proxy.wantPrefix ++ ext) with
        | some f => .bytes f.data
        | none => .notFound
      else if ext = Gen.Proxy.zipExt then
        match (if Gen.Proxy.zipKeyIsArchive then who name else none) with
        | some (p, v) => zipResponse (zipMembers p v files)
        | none => zipResponse (zipMembers path vers files)
      else .notFound

/-- the URL routing: `/mod/<enc>/@v/<file>` ↦ (enc, file), cut at the first `/@v/` -/
def route (url : Bytes) : Option (Bytes × Bytes) :=
  if !hasPrefix Gen.Proxy.urlPrefix url then none
  else cutAt Gen.Proxy.vSep (url.drop Gen.Proxy.urlPrefix.length)

/-- `i = strings.LastIndex(file, ".")`: (file[:i], file[i+1:]) -/
def splitExt (file : Bytes) : Option (Bytes × Bytes) :=
  (if Gen.Proxy.extSplitLast then lastIndexOf Gen.Proxy.extSep file else indexOf Gen.Proxy.extSep file).map
    fun i => (file.take i, file.drop (i + 1))

/-- `handler` after the routing -/
def serveRouted (x : Ext) (ml : List ModVer) (st : Store) (who : Bytes → Option (Bytes × Bytes))
    (enc file : Bytes) : Response :=
  match unescapePath enc with
  | none => .notFound
  | some path =>
    if file = Gen.Proxy.listName then listResponse ml path else
    match splitExt file with
    | none => .notFound
    | some (encVers, ext) =>
      match unescapeVersion encVers with
      | none => .notFound
      | some vers0 => serveFile x ml st who path vers0 ext

/-- `Server.handler` on `r.URL.Path`. -/
def handler (x : Ext) (ml : List ModVer) (st : Store) (who : Bytes → Option (Bytes × Bytes))
    (url : Bytes) : Response :=
  match route url with
  | none => .notFound
  | some (enc, file) => serveRouted x ml st who enc file

/-- The archive name a zip request reaches `zipCache.Do` with (`none` = it does not get there). -/
def zipKeyOf (x : Ext) (ml : List ModVer) (st : Store) (url : Bytes) : Option (Bytes × (Bytes × Bytes)) :=
  match route url with
  | none => none
  | some (enc, file) =>
    match unescapePath enc with
    | none => none
    | some path =>
      if file = Gen.Proxy.listName then none else
      match splitExt file with
      | none => none
      | some (encVers, ext) =>
        match unescapeVersion encVers with
        | none => none
        | some vers0 =>
          let vers := resolve x st ml path vers0
          if Gen.Proxy.handlerChecksModList && !ml.contains ⟨path, vers⟩ then none else
          if ext ≠ Gen.Proxy.zipExt || Gen.Proxy.fileExts.contains ext then none else
          match archiveBase path vers with
          | none => none
          | some name => (loadArchive x st name).map fun _ => (name, (path, vers))

/-- A sequential run of requests against one server: the zip cache remembers, per archive, the
first caller. -/
def runSeq (x : Ext) (ml : List ModVer) (st : Store) : List (Bytes × (Bytes × Bytes)) → List Bytes → List Response
  | _, [] => []
  | cache, url :: rest =>
    let r := handler x ml st (fun n => cache.lookup n) url
    let cache' := match zipKeyOf x ml st url with
      | some (name, pv) => if (cache.lookup name).isSome then cache else (name, pv) :: cache
      | none => cache
    r :: runSeq x ml st cache' rest

end GIV.Proxy
