/-
  GIV.Model.Build — executable model of /repo/imports/build.go
  (ShouldBuild, matchTags, matchTag, MatchFile, KnownOS/KnownArch).

  Go strings / []byte are `Bytes`; the tag map is a predicate `Tags := Bytes → Bool`
  (a missing key reads as false, as in Go).  The loops of the Go code are kept in their
  byte-offset form (`end`, `p`), each with explicit fuel = length of the remaining input.
  `unicode.IsLetter/IsDigit` is exact on ASCII; for runes ≥ 0x80 it is the parameter
  `U : Nat → Bool` ("letter or digit") — every theorem holds for every `U`; the driver's
  instance is exact on the ranges the correspondence generator draws from.
  Constants, tables and the shape of the deciding expressions come from `GIV.Gen.ImportsBuild`.
-/
import GIV.Basic
import GIV.Gen.ImportsBuild

namespace GIV.Build
open GIV
open GIV.Gen.ImportsBuild

abbrev Tags := Bytes → Bool

/-! ### white space (`unicode.IsSpace` on UTF-8 encoded input)

`unicode.IsSpace` is true for exactly: U+0009–U+000D, U+0020, U+0085, U+00A0, U+1680,
U+2000–U+200A, U+2028, U+2029, U+202F, U+205F, U+3000.  A decoded rune is one of these
iff the bytes at that position are its (unique, shortest-form) UTF-8 encoding. -/

/-- length of the white-space rune encoding that `b` starts with (0 = none). -/
def spacePrefixLen : Bytes → Nat
  | b :: rest =>
    if b = 9 ∨ b = 10 ∨ b = 11 ∨ b = 12 ∨ b = 13 ∨ b = 32 then 1 else
    match b, rest with
    | 0xC2, c :: _ => if c = 0x85 ∨ c = 0xA0 then 2 else 0
    | 0xE1, c :: d :: _ => if c = 0x9A ∧ d = 0x80 then 3 else 0
    | 0xE2, c :: d :: _ =>
      if c = 0x80 ∧ ((0x80 ≤ d ∧ d ≤ 0x8A) ∨ d = 0xA8 ∨ d = 0xA9 ∨ d = 0xAF) then 3
      else if c = 0x81 ∧ d = 0x9F then 3 else 0
    | 0xE3, c :: d :: _ => if c = 0x80 ∧ d = 0x80 then 3 else 0
    | _, _ => 0
  | [] => 0

def trimLeftAux : Nat → Bytes → Bytes
  | 0, b => b
  | n+1, b => if spacePrefixLen b = 0 then b else trimLeftAux n (b.drop (spacePrefixLen b))

def trimLeft (b : Bytes) : Bytes := trimLeftAux b.length b

/-- as `spacePrefixLen`, for the end of the string; the argument is the string reversed. -/
def spaceSuffixLenRev : Bytes → Nat
  | b :: rest =>
    if b = 9 ∨ b = 10 ∨ b = 11 ∨ b = 12 ∨ b = 13 ∨ b = 32 then 1 else
    match rest with
    | c :: rest2 =>
      if c = 0xC2 ∧ (b = 0x85 ∨ b = 0xA0) then 2 else
      match rest2 with
      | d :: _ =>
        if d = 0xE1 ∧ c = 0x9A ∧ b = 0x80 then 3
        else if d = 0xE2 ∧ c = 0x80 ∧ ((0x80 ≤ b ∧ b ≤ 0x8A) ∨ b = 0xA8 ∨ b = 0xA9 ∨ b = 0xAF) then 3
        else if d = 0xE2 ∧ c = 0x81 ∧ b = 0x9F then 3
        else if d = 0xE3 ∧ c = 0x80 ∧ b = 0x80 then 3
        else 0
      | [] => 0
    | [] => 0
  | [] => 0

def trimRightRevAux : Nat → Bytes → Bytes
  | 0, r => r
  | n+1, r => if spaceSuffixLenRev r = 0 then r else trimRightRevAux n (r.drop (spaceSuffixLenRev r))

def trimRight (b : Bytes) : Bytes := (trimRightRevAux b.length b.reverse).reverse

/-- `bytes.TrimSpace` / `strings.TrimSpace`. -/
def trimSpace (b : Bytes) : Bytes := trimRight (trimLeft b)

def flush (cur : Bytes) : List Bytes := if cur.isEmpty then [] else [cur.reverse]

/-- `strings.Fields`: `skip` = bytes of a multi-byte space still to pass, `cur` = current field reversed. -/
def fieldsGo : Bytes → Nat → Bytes → List Bytes
  | [], _, cur => flush cur
  | _ :: rest, skip+1, cur => fieldsGo rest skip cur
  | b :: rest, 0, cur =>
    let k := spacePrefixLen (b :: rest)
    if k = 0 then fieldsGo rest 0 (b :: cur) else flush cur ++ fieldsGo rest (k - 1) []

def fields (b : Bytes) : List Bytes := fieldsGo b 0 []

/-- Cut at the first byte `c`: `(before, some after)`, or `(all, none)` when there is none. -/
def cutAt (c : UInt8) : Bytes → Bytes × Option Bytes
  | [] => ([], none)
  | b :: rest =>
    if b = c then ([], some rest) else
    let r := cutAt c rest
    (b :: r.1, r.2)

/-- `strings.Split(s, string(c))` for a one-byte separator (never empty: `Split("", "_") = [""]`). -/
def splitOn (c : UInt8) : Bytes → List Bytes
  | [] => [[]]
  | b :: rest =>
    if b = c then [] :: splitOn c rest else
    match splitOn c rest with
    | [] => [[b]]          -- unreachable: splitOn never returns []
    | h :: t => (b :: h) :: t

def hasPrefix (pre b : Bytes) : Bool := pre.isPrefixOf b

/-! ### UTF-8 decoding as done by `for _, c := range name` (utf8.DecodeRuneInString) -/

def isCont (b : UInt8) : Bool := 0x80 ≤ b && b ≤ 0xBF

/-- `some (rune, width)` for a well-formed non-ASCII encoding at the head; `none` = RuneError (width 1). -/
def decodeNonAscii : Bytes → Option (Nat × Nat)
  | b0 :: rest =>
    if 0xC2 ≤ b0 ∧ b0 ≤ 0xDF then
      match rest with
      | b1 :: _ => if isCont b1 then some ((b0.toNat - 0xC0) * 64 + (b1.toNat - 0x80), 2) else none
      | [] => none
    else if 0xE0 ≤ b0 ∧ b0 ≤ 0xEF then
      match rest with
      | b1 :: b2 :: _ =>
        let lo : UInt8 := if b0 = 0xE0 then 0xA0 else 0x80
        let hi : UInt8 := if b0 = 0xED then 0x9F else 0xBF
        if lo ≤ b1 ∧ b1 ≤ hi ∧ isCont b2 then
          some ((b0.toNat - 0xE0) * 4096 + (b1.toNat - 0x80) * 64 + (b2.toNat - 0x80), 3) else none
      | _ => none
    else if 0xF0 ≤ b0 ∧ b0 ≤ 0xF4 then
      match rest with
      | b1 :: b2 :: b3 :: _ =>
        let lo : UInt8 := if b0 = 0xF0 then 0x90 else 0x80
        let hi : UInt8 := if b0 = 0xF4 then 0x8F else 0xBF
        if lo ≤ b1 ∧ b1 ≤ hi ∧ isCont b2 ∧ isCont b3 then
          some ((b0.toNat - 0xF0) * 262144 + (b1.toNat - 0x80) * 4096 + (b2.toNat - 0x80) * 64 + (b3.toNat - 0x80), 4)
        else none
      | _ => none
    else none
  | [] => none

/-- The runes `for _, c := range s` yields for a Go string `s` (utf8.DecodeRuneInString at every
position): an ASCII byte is itself, a well-formed shortest-form encoding is decoded, any other byte
is U+FFFD and consumes one byte.  (Meaning of `range` over a string for the Go→Lean translation of
imports/build.go; `n` bounds the number of runes by the number of bytes.) -/
def runesAux : Nat → Bytes → List Int
  | 0, _ => []
  | _, [] => []
  | n+1, b :: rest =>
    if b < 0x80 then (b.toNat : Int) :: runesAux n rest else
    match decodeNonAscii (b :: rest) with
    | none => 0xFFFD :: runesAux n rest
    | some (r, w) => (r : Int) :: runesAux n (rest.drop (w - 1))

def runes (s : Bytes) : List Int := runesAux s.length s

/-- ASCII part of `unicode.IsLetter(c) || unicode.IsDigit(c) || c == '_' || c == '.'`. -/
def asciiTagByte (b : UInt8) : Bool :=
  (65 ≤ b && b ≤ 90) || (97 ≤ b && b ≤ 122) || (48 ≤ b && b ≤ 57) || b = 95 || b = 46

/-- The rune loop of `matchTag`: every rune is a letter, digit, '_' or '.'.
`skip` = continuation bytes of an already accepted rune still to pass. -/
def tagRunesOK (U : Nat → Bool) : Bytes → Nat → Bool
  | [], _ => true
  | _ :: rest, skip+1 => tagRunesOK U rest skip
  | b :: rest, 0 =>
    if b < 0x80 then asciiTagByte b && tagRunesOK U rest 0 else
    match decodeNonAscii (b :: rest) with
    | none => false                                   -- RuneError U+FFFD: not a letter or digit
    | some (r, w) => U r && tagRunesOK U rest (w - 1)

def validTag (U : Nat → Bool) (name : Bytes) : Bool :=
  if tagRuneCheck then tagRunesOK U name 0 else true

/-! ### matchTag, matchTags -/

/-- `matchTag(name, tags, want)`. -/
def matchTag (U : Nat → Bool) (name : Bytes) (tags : Tags) (want : Bool) : Bool :=
  if !validTag U name then false else
  if tagStarClause && tags tagStar && name ≠ [] && name ≠ tagIgnore then true else
  let have0 := tags name
  let have1 := if androidClause && name = tagLinux then have0 || tags tagAndroid else have0
  if haveEqWant then have1 == want else have1

/-- the part of `matchTags` after the comma test (the name has no comma). -/
def matchTerm (U : Nat → Bool) (name : Bytes) (tags : Tags) : Bool :=
  if rejectsDoubleBang && hasPrefix [33, 33] name then false else
  if hasPrefix [33] name then
    decide (name.length > 1) && matchTag U (name.drop 1) tags (!bangNegates)
  else matchTag U name tags true

/-- `matchTags(name, tags)`; the Go recursion `matchTags(name[:i]) && matchTags(name[i+1:])`
with explicit fuel (`name.length + 1` suffices: both parts are shorter than `name`). -/
def matchTagsAux (U : Nat → Bool) (tags : Tags) : Nat → Bytes → Bool
  | 0, _ => false
  | n+1, name =>
    if emptyIsFalse && name.isEmpty then false else
    match cutAt 44 name with
    | (l, some r) =>
      let ok1 := matchTagsAux U tags n l
      let ok2 := matchTagsAux U tags n r
      if commaIsAnd then ok1 && ok2 else ok1 || ok2
    | (_, none) => matchTerm U name tags

def matchTags (U : Nat → Bool) (name : Bytes) (tags : Tags) : Bool :=
  matchTagsAux U tags (name.length + 1) name

/-! ### ShouldBuild -/

/-- `line, p = p[:i], p[i+1:]` at the first '\n', or `line, p = p, p[len(p):]`. -/
def cutLine (p : Bytes) : Bytes × Bytes :=
  match cutAt 10 p with
  | (l, some r) => (l, r)
  | (l, none) => (l, [])

/-- Pass 1: returns `end`. `total = len(content)`, `p` the unread rest, `e` the current `end`. -/
def pass1 : Nat → Nat → Bytes → Nat → Nat
  | 0, _, _, e => e
  | n+1, total, p, e =>
    if p.isEmpty then e else
    let lp := cutLine p
    let line := trimSpace lp.1
    if line.isEmpty then pass1 n total lp.2 (total - lp.2.length)
    else if sbNonCommentBreaks && !hasPrefix slashslash line then e
    else pass1 n total lp.2 (if sbBlankOnlySetsEnd then e else total - lp.2.length)

/-- the verdict of one `// +build` line's tokens `f[1:]`. -/
def lineOK (U : Nat → Bool) (tags : Tags) (toks : List Bytes) : Bool :=
  if sbTokensOr then toks.any (fun t => matchTags U t tags) else toks.all (fun t => matchTags U t tags)

/-- what pass 2 does with one line: `some ok` for a `+build` line, `none` for any other line. -/
def buildLine (U : Nat → Bool) (tags : Tags) (raw : Bytes) : Option Bool :=
  let line := trimSpace raw
  if !hasPrefix slashslash line then none else
  let line := trimSpace (line.drop slashslash.length)
  match line with
  | [] => none
  | c :: _ =>
    if c ≠ 43 then none else
    match fields line with
    | [] => none                       -- unreachable (line starts with '+'); Go would panic on f[0]
    | f0 :: toks => if f0 = plusBuild then some (lineOK U tags toks) else none

/-- Pass 2 over `content[:end]`: `allok`. -/
def pass2 (U : Nat → Bool) (tags : Tags) : Nat → Bytes → Bool → Bool
  | 0, _, allok => allok
  | n+1, p, allok =>
    if p.isEmpty then allok else
    let lp := cutLine p
    match buildLine U tags lp.1 with
    | some false => pass2 U tags n lp.2 false
    | _ => pass2 U tags n lp.2 allok

/-- `ShouldBuild(content, tags)`. -/
def shouldBuild (U : Nat → Bool) (content : Bytes) (tags : Tags) : Bool :=
  let e := pass1 content.length content.length content 0
  let c := content.take e
  pass2 U tags c.length c true

/-! ### MatchFile -/

def knownOS (name : Bytes) : Bool := (fields goosList).contains name
def knownArch (name : Bytes) : Bool := (fields goarchList).contains name
def unixOS (name : Bytes) : Bool := (fields unixList).contains name

/-- how a suffix rule tests a known token. -/
def fileSel (U : Nat → Bool) (tags : Tags) (tok : Bytes) : Bool :=
  if fileViaMatchTag then matchTag U tok tags true else tags tok

/-- One suffix rule on the reversed segment list (`rl = l.reverse`, so `l[n-1]` is its head):
`some verdict` if the rule's condition holds. -/
def applyRule (U : Nat → Bool) (tags : Tags) (rl : List Bytes) : Nat → Option Bool
  | 1 => match rl with
    | a :: o :: _ => if knownOS o && knownArch a then some (fileSel U tags o && fileSel U tags a) else none
    | _ => none
  | 2 => match rl with
    | o :: _ => if knownOS o then some (fileSel U tags o) else none
    | _ => none
  | 3 => match rl with
    | a :: _ => if knownArch a then some (fileSel U tags a) else none
    | _ => none
  | _ => none

def applyRules (U : Nat → Bool) (tags : Tags) (rl : List Bytes) : List Nat → Bool
  | [] => true
  | r :: rs => match applyRule U tags rl r with
    | some v => v
    | none => applyRules U tags rl rs

/-- the segments MatchFile looks at: name cut at the first '.', everything before the first '_'
dropped, split at '_' (first segment is then empty), a final "test" removed; reversed.
`none` when there is no '_'. -/
def fileSegsRev (name : Bytes) : Option (List Bytes) :=
  let stem := if fileCutsDotAndPrefix then (cutAt 46 name).1 else name
  match cutAt 95 stem with
  | (_, none) => none
  | (_, some after) =>
    let rl := (splitOn 95 (95 :: after)).reverse
    some (match rl with
      | last :: more => if fileStripsTest && last = testTok then more else rl
      | [] => rl)

/-- `MatchFile(name, tags)`. -/
def matchFile (U : Nat → Bool) (name : Bytes) (tags : Tags) : Bool :=
  if fileStarFirst && tags fileStar then true else
  match fileSegsRev name with
  | none => true
  | some rl => applyRules U tags rl fileRules

end GIV.Build
