/-
  GIV.Model.Script — the script loop of /repo/testscript (property C01), as a skeleton that is
  generic in what the commands do:

    testscript.go  (*TestScript).run      line split, lineno, '#' phase lines, failed /
                                          ContinueOnError / stopped, final FailNow
                   (*TestScript).runLine  parse, [cond] guard loop, '!' prefix, command lookup
                                          (scriptCmds first, then Params.Cmds), catchFailNow
                   Fatalf / catchFailNow  panic(failNow) caught in runLine; every other panic value
                                          (the T implementation's FailNow / Skip sentinels,
                                          runtime panics) unwinds through run()
    cmd/testscript/main.go  runT.Run / mainerr   exit status

  Everything a command, a condition or the tokenizer does is a *parameter* (`Config`): the
  theorems of GIV.Props.C01 quantify over all of them, so custom `Params.Cmds` and
  `Params.Condition` are covered by the quantifier.  The concrete builtins used for the
  correspondence run are in GIV.Model.ScriptCmds.

  Every deciding expression comes from `GIV.Gen.TsRun` (regenerated from the source).
  Namespace `GIV.TsRun` (the tokenizer group owns `GIV.Script`).
-/
import GIV.Basic
import GIV.Model.Txtar
import GIV.Gen.TsRun

namespace GIV.TsRun
open GIV

/-- How a command invocation ends, seen from `runLine`/`run`:
* `ok`      — returned normally;
* `stop`    — returned normally having set `ts.stopped` (only `cmdStop` can: the field is unexported);
* `fatal`   — called `ts.Fatalf`: `panic(failNow)`, caught by `runLine`'s `catchFailNow`;
* `skip`    — called `T.Skip`: unwinds out of `run()` (the sentinel is not `failNow`, `catchFailNow` re-panics);
* `failNow` — called `T.FailNow` directly (as `cmdSkip` does once a line has failed): unwinds likewise;
* `crash`   — any other panic value: unwinds to the caller of `T.Run`. -/
inductive Outcome | ok | stop | fatal | skip | failNow | crash
deriving DecidableEq, Repr

/-- What the `T` passed to the script observes. `crash` = a panic other than its own sentinels. -/
inductive Verdict | pass | fail | skip | crash
deriving DecidableEq, Repr

/-- A command implementation `func(ts *TestScript, neg bool, args []string)`; `failed` is the
`ts.failed` field (the only loop variable a command can see), `σ` the rest of `*ts` and the world. -/
abbrev Cmd (σ : Type) := (failed : Bool) → σ → (neg : Bool) → (args : List Bytes) → σ × Outcome

structure Config (σ : Type) where
  /-- `Params.ContinueOnError` -/
  continueOnError : Bool
  /-- `ts.parse(line)`; `none` = it called Fatalf (unterminated quote) -/
  parse : σ → Bytes → Option (List Bytes)
  /-- `ts.condition(cond)`; `none` = error result or Fatalf("unknown condition") -/
  cond : σ → Bytes → Option Bool
  /-- `scriptCmds[name]` -/
  builtin : Bytes → Option (Cmd σ)
  /-- `ts.params.Cmds[name]` -/
  custom : Bytes → Option (Cmd σ)

variable {σ : Type}

def LBRACK : UInt8 := 91
def RBRACK : UInt8 := 93
def BANG : UInt8 := 33

/-- `cmd := scriptCmds[args[0]]; if cmd == nil { cmd = ts.params.Cmds[args[0]] }`. -/
def lookup (c : Config σ) (name : Bytes) : Option (Cmd σ) :=
  if Gen.TsRun.builtinBeforeCustom then
    match c.builtin name with
    | some f => some f
    | none => c.custom name
  else
    match c.custom name with
    | some f => some f
    | none => c.builtin name

/-- `strings.HasPrefix(args[0], "[") && strings.HasSuffix(args[0], "]")`. -/
def isGuardWord (w : Bytes) : Bool :=
  Gen.TsRun.guardIsBracketed && w.head? == some LBRACK && w.getLast? == some RBRACK

/-- From `[ ! name ]` to `(want, name)`: strip the brackets, TrimSpace, a leading '!' flips `want`
and the rest is trimmed again. -/
def guardCond (w : Bytes) : Bool × Bytes :=
  let inner := Txtar.trimSpace (w.tail.dropLast)
  if Gen.TsRun.bangNegatesCond && inner.head? == some BANG then (false, Txtar.trimSpace inner.tail)
  else (true, inner)

inductive GuardRes
  | run (args : List Bytes)   -- all guards hold; the remaining words
  | skipLine                  -- a guard does not hold: "Don't run rest of line."
  | fatal                     -- missing command after condition / bad condition / unknown condition
deriving DecidableEq, Repr

/-- The `for strings.HasPrefix(args[0], "[") && …` loop of runLine. -/
def guards (c : Config σ) (s : σ) : List Bytes → GuardRes
  | [] => .run []
  | w :: rest =>
    if isGuardWord w then
      if Gen.TsRun.missingCmdBeforeCond && rest.isEmpty then .fatal else
      match c.cond s (guardCond w).2 with
      | none => if Gen.TsRun.condErrorFatal then .fatal else .skipLine
      | some ok =>
        if (if Gen.TsRun.guardSkipsOnNe then ok != (guardCond w).1 else ok == (guardCond w).1)
        then .skipLine
        else guards c s rest
    else .run (w :: rest)

/-- What one line did. `call` = the command function that was invoked, with what it was given. -/
structure LineRes (σ : Type) where
  state : σ
  out : Outcome
  call : Option (Bool × Bytes × List Bytes)

/-- The part of runLine after the guard loop: '!' prefix, lookup, call. -/
def invoke (c : Config σ) (failed : Bool) (s : σ) (args : List Bytes) : LineRes σ :=
  let neg := Gen.TsRun.bangSetsNeg && args.head? == some [BANG]
  match (if neg then args.tail else args) with
  | [] => ⟨s, .fatal, none⟩                         -- "! on line by itself"
  | name :: rest =>
    match lookup c name with
    | none => ⟨s, if Gen.TsRun.unknownCmdFatal then .fatal else .ok, none⟩
    | some f =>
      let r := f failed s neg (if Gen.TsRun.cmdGetsNegAndRest then rest else name :: rest)
      ⟨r.1, r.2, some (neg, name, rest)⟩

/-- runLine after `ts.parse` returned a non-empty word list. -/
def runArgs (c : Config σ) (failed : Bool) (s : σ) (args : List Bytes) : LineRes σ :=
  match guards c s args with
  | .fatal => ⟨s, .fatal, none⟩
  | .skipLine => ⟨s, .ok, none⟩
  | .run a => invoke c failed s a

/-- `catchFailNow` in runLine: the failNow panic becomes `runOK = false`; without it it would
escape like any other panic. -/
def caught (o : Outcome) : Outcome :=
  if o = .fatal ∧ ¬ (Gen.TsRun.runLineCatchesFailNow && Gen.TsRun.fatalfPanicsFailNow) then .crash else o

/-- `(*TestScript).runLine`. -/
def runLine (c : Config σ) (failed : Bool) (s : σ) (line : Bytes) : LineRes σ :=
  match c.parse s line with
  | none => ⟨s, caught .fatal, none⟩
  | some [] => ⟨s, if Gen.TsRun.blankLineOk then .ok else .fatal, none⟩
  | some (w :: ws) =>
    let r := runArgs c failed s (w :: ws)
    ⟨r.state, caught r.out, r.call⟩

/-- One recorded command invocation. -/
structure Call where
  lineno : Nat
  neg : Bool
  cmd : Bytes
  args : List Bytes
deriving DecidableEq, Repr

structure Result (σ : Type) where
  verdict : Verdict
  /-- `*ts` and the world when the loop is left -/
  state : σ
  /-- line number of the first `FAIL: file:line:` entry of the log -/
  reported : Option Nat
  /-- the command functions that were called, in order -/
  calls : List Call
  /-- `ts.lineno` when the loop is left -/
  lineno : Nat

def callsOf (n : Nat) (r : LineRes σ) : List Call :=
  match r.call with
  | none => []
  | some (neg, cmd, args) => [⟨n, neg, cmd, args⟩]

/-- `strings.HasPrefix(line, "#")`. -/
def isComment (l : Bytes) : Bool := l.head? == some Gen.TsRun.commentByte

/-- After the loop: `if failed { ts.t.FailNow() }`, else the function returns (PASS). -/
def endVerdict (failed : Bool) : Verdict :=
  if failed && Gen.TsRun.finalFailNow then .fail else .pass

/-- `if ts.params.ContinueOnError { verbose = true } else { ts.t.FailNow() }`. -/
def stopOnFail (c : Config σ) : Bool :=
  if Gen.TsRun.failNowInElse then !c.continueOnError else c.continueOnError

/-- The `for script != ""` loop of `run` over the remaining lines; `n` = `ts.lineno` so far,
`failed` = the local `failed` (= `ts.failed`). -/
def runLines (c : Config σ) : List Bytes → Nat → Bool → σ → Result σ
  | [], n, failed, s => ⟨endVerdict failed, s, none, [], n⟩
  | l :: ls, n, failed, s =>
    if isComment l then
      runLines c ls (if Gen.TsRun.linenoBeforeComment then n + 1 else n) failed s
    else
      let r := runLine c (Gen.TsRun.setsTsFailed && failed) s l
      match r.out with
      | .ok =>
        let rest := runLines c ls (n + 1) failed r.state
        ⟨rest.verdict, rest.state, rest.reported, callsOf (n + 1) r ++ rest.calls, rest.lineno⟩
      | .stop =>
        if Gen.TsRun.stoppedBreaks then ⟨endVerdict failed, r.state, none, callsOf (n + 1) r, n + 1⟩
        else
          let rest := runLines c ls (n + 1) failed r.state
          ⟨rest.verdict, rest.state, rest.reported, callsOf (n + 1) r ++ rest.calls, rest.lineno⟩
      | .fatal =>
        if stopOnFail c then ⟨.fail, r.state, some (n + 1), callsOf (n + 1) r, n + 1⟩
        else
          let rest := runLines c ls (n + 1) true r.state
          ⟨rest.verdict, rest.state, some (n + 1), callsOf (n + 1) r ++ rest.calls, rest.lineno⟩
      | .skip => ⟨.skip, r.state, none, callsOf (n + 1) r, n + 1⟩
      | .failNow => ⟨.fail, r.state, none, callsOf (n + 1) r, n + 1⟩
      | .crash => ⟨.crash, r.state, none, callsOf (n + 1) r, n + 1⟩

/-- The script text cut into lines as the loop does: at each '\n'; a final piece without '\n' is a
line, an empty remainder is not. -/
def splitScript (script : Bytes) : List Bytes := (Txtar.splitLines script).map (·.body)

/-- `run()` from the loop on, for a script whose setup succeeded in state `s`. -/
def run (c : Config σ) (s : σ) (script : Bytes) : Result σ :=
  runLines c (splitScript script) 0 false s

/-- `run()` including `setup()`: a Fatalf in setup is turned into `T.FailNow` regardless of
ContinueOnError, with `ts.lineno = 0`; `.error s` is the partially set-up state. -/
def runT (c : Config σ) (setup : Except σ σ) (script : Bytes) : Result σ :=
  match setup with
  | .error s => ⟨if Gen.TsRun.setupFailureFailsNow then .fail else .crash, s, some 0, [], 0⟩
  | .ok s => run c s script

/-! ### specification vocabulary

Plain folds over a list of lines, with no verdict logic in them: what it means that "these lines
were executed one after the other and each met its demand".  The theorems of GIV.Props.C01 relate
`run` to them. -/

/-- One line as the loop sees it: a '#' line does nothing and is fine; any other line is `runLine`.
`failed` is the value of `ts.failed` the commands see. -/
def lineOut (c : Config σ) (failed : Bool) (s : σ) (l : Bytes) : LineRes σ :=
  if isComment l then ⟨s, .ok, none⟩ else runLine c failed s l

/-- The state after executing `ls` in order from `s`, provided every line ends `ok` (no earlier
failure: `ts.failed = false` throughout); `none` as soon as one does not. -/
def okFold (c : Config σ) : σ → List Bytes → Option σ
  | s, [] => some s
  | s, l :: ls =>
    match (lineOut c false s l).out with
    | .ok => okFold c (lineOut c false s l).state ls
    | _ => none

/-- The state and the `failed` flag after executing `ls` in order, provided every line ends `ok` or
`fatal` (a `fatal` sets the flag): what ContinueOnError is meant to do. -/
def contFold (c : Config σ) : Bool → σ → List Bytes → Option (σ × Bool)
  | failed, s, [] => some (s, failed)
  | failed, s, l :: ls =>
    match (lineOut c failed s l).out with
    | .ok => contFold c failed (lineOut c failed s l).state ls
    | .fatal => contFold c true (lineOut c failed s l).state ls
    | _ => none

/-- The command invocations of `ls` under `contFold`, numbered from `n + 1`. -/
def foldCalls (c : Config σ) : Bool → σ → Nat → List Bytes → List Call
  | _, _, _, [] => []
  | failed, s, n, l :: ls =>
    callsOf (n + 1) (lineOut c failed s l) ++
      foldCalls c (failed || (lineOut c failed s l).out == .fatal) (lineOut c failed s l).state (n + 1) ls

/-- The number of the first line of `ls` that ends `fatal` (lines numbered from `n + 1`). -/
def firstFatal (c : Config σ) : Bool → σ → Nat → List Bytes → Option Nat
  | _, _, _, [] => none
  | failed, s, n, l :: ls =>
    if (lineOut c failed s l).out = .fatal then some (n + 1)
    else firstFatal c failed (lineOut c failed s l).state (n + 1) ls

/-- No command calls `T.Skip` once `ts.failed` is set. -/
def HonoursFailed (c : Config σ) : Prop :=
  ∀ name f s neg args, lookup c name = some f → (f true s neg args).2 ≠ .skip

/-- No command panics with a value of its own. -/
def NoCrash (c : Config σ) : Prop :=
  ∀ name f failed s neg args, lookup c name = some f → (f failed s neg args).2 ≠ .crash

/-! ### cmd/testscript -/

/-- `runT.Run` per script file, then `mainerr`/`main`: a `crash` verdict is an unexpected panic
(re-panicked: the process dies with status 2 at that script). -/
def cliAux (failed : Bool) : List Verdict → Nat
  | [] => if failed then Gen.TsRun.cliFailedExit else 0
  | .crash :: _ => 2
  | .fail :: vs => cliAux (failed || Gen.TsRun.cliFailSetsFailed) vs
  | .skip :: vs => cliAux (failed || !Gen.TsRun.cliSkipNotFailure) vs
  | .pass :: vs => cliAux failed vs

def cli (vs : List Verdict) : Nat := cliAux false vs

end GIV.TsRun
