/-
  GIV.Model.Diff — executable model of /repo/diff/diff.go (`Diff`, `lines`, `tgs`).

  Layers:
    * `lines`            bytes → lines (each with its '\n'; a last line lacking one gets the
                         "\n\\ No newline at end of file\n" suffix, exactly as the Go code builds it);
    * `tgs`              Szymanski's algorithm as coded (map counting, `sort.Search`, T / L arrays,
                         the back-scan), generic in the line type;
    * `diffHunks`        the loop of `Diff` over the matches, state `(done, chunk, count, ctext, out)`;
                         produces abstract hunks (header numbers + tagged lines);
    * `render` / `diff`  header lines, `@@ -a,b +c,d @@`, bodies; the `bytes.Equal` shortcut;
    * `apply`/`unapply`  an independent strict patch applier used to state the property.

  Go panics (index / slice out of range) are `none`.  Go `int`s that are only ever incremented
  from 0 or guarded before a decrement are `Nat`; anything computed by a subtraction that the
  code does not guard (`end.x - C`, `min(end.x-start.x, C)`, the header numbers) is `Int` and is
  checked before use as an index.  Conditions and constants come from `GIV.Gen.Diff`.

  Deviations from a literal transcription (tied by the correspondence run, and — since `lines`, `tgs` and `Diff` are
  translated from the source on every run — each one a proved equivalence with the literal translation:
  GIV/Lemmas/DiffGo*.lean, `go_tgs_eq`, `go_Diff_eq`):
    * slices are checked against `len`, Go checks against `cap` — the model is stricter, and
      `diffHunks_ok` shows the check never fires;
    * the forward expansion loop (which cannot panic) is written as a common-prefix length;
    * the dead store `done = pair{start.x + n, start.y + n}` is not modelled (after it the code
      either breaks or overwrites `done`);
    * Go maps are association lists (`m[s]` of a missing key is 0, as in Go);
    * `sort.Search`'s loop carries an iteration bound (`j - i`, which strictly decreases) so that it
      is structurally recursive; running out would give `none`, and `search_spec` shows it cannot;
    * `%d` is an own decimal printer (so that the kernel can evaluate the examples).
-/
import GIV.Basic
import GIV.Gen.Diff

namespace GIV.Diff
open GIV

/-! ### lines -/

def noNewline : Bytes := Gen.Diff.noNewline

/-- `strings.SplitAfter(x, "\n")`, dropping a final empty piece, else attaching the warning. -/
def linesGo : Bytes → Bytes → List Bytes
  | cur, [] => if cur = [] then [] else [cur ++ noNewline]
  | cur, b :: rest => if b = NL then (cur ++ [NL]) :: linesGo [] rest else linesGo (cur ++ [b]) rest

def lines (b : Bytes) : List Bytes := linesGo [] b

/-- `strings.SplitAfter(s, "\n")`: the pieces of `s`, each ending after a newline; never empty
(`SplitAfter("", "\n") = [""]`, and a text that ends in a newline has a final empty piece).  Library meaning
used by the Go→Lean translation of `lines` (GIV.Gen.DiffGo). -/
def splitAfterNL : Bytes → List Bytes
  | [] => [[]]
  | b :: rest =>
    if b = NL then [NL] :: splitAfterNL rest else
    match splitAfterNL rest with
    | h :: t => (b :: h) :: t
    | [] => [[b]]

/-- The text of one element of `lines`: up to and including the first '\n' when the line is a
complete one, the part before it when the line carries the missing-newline warning. -/
def unline (l : Bytes) : Bytes :=
  if l.dropWhile (· != NL) = [NL] then l else l.takeWhile (· != NL)

def unlines (ls : List Bytes) : Bytes := ls.flatMap unline

/-! ### tgs -/

section
variable {α : Type} [DecidableEq α]

/-- Go `map[string]int` as an association list, newest binding first. -/
abbrev Map (α : Type) := List (α × Int)

def mget : Map α → α → Option Int
  | [], _ => none
  | (k, v) :: r, s => if s = k then some v else mget r s

def mset (m : Map α) (s : α) (v : Int) : Map α := (s, v) :: m

/-- `for _, s := range x { if c := m[s]; c > -2 { m[s] = c - 1 } }` -/
def countX : List α → Map α → Map α
  | [], m => m
  | s :: r, m =>
    let c := (mget m s).getD 0
    countX r (if Gen.Diff.cntXCond c then mset m s (Gen.Diff.cntXUpd c) else m)

/-- `for _, s := range y { if c := m[s]; c > -8 { m[s] = c - 4 } }` -/
def countY : List α → Map α → Map α
  | [], m => m
  | s :: r, m =>
    let c := (mget m s).getD 0
    countY r (if Gen.Diff.cntYCond c then mset m s (Gen.Diff.cntYUpd c) else m)

/-- `for i, s := range y { if m[s] == -1+-4 { m[s] = len(yi); yi = append(yi, i) } }` -/
def gatherY : List α → Nat → Map α → Array Nat → Map α × Array Nat
  | [], _, m, yi => (m, yi)
  | s :: r, i, m, yi =>
    if Gen.Diff.isUniqueCode ((mget m s).getD 0) then gatherY r (i + 1) (mset m s yi.size) (yi.push i)
    else gatherY r (i + 1) m yi

/-- `for i, s := range x { if j, ok := m[s]; ok && j >= 0 { xi = append(xi, i); inv = append(inv, j) } }` -/
def gatherX : List α → Nat → Map α → Array Nat → Array Nat → Array Nat × Array Nat
  | [], _, _, xi, inv => (xi, inv)
  | s :: r, i, m, xi, inv =>
    match mget m s with
    | some j => if j ≥ 0 then gatherX r (i + 1) m (xi.push i) (inv.push j.toNat) else gatherX r (i + 1) m xi inv
    | none => gatherX r (i + 1) m xi inv

end

/-- The loop of `sort.Search`: `for i < j { h := int(uint(i+j) >> 1); if !f(h) { i = h+1 } else { j = h } }; return i`.
`f` may panic (`none`).  The first argument bounds the number of iterations; `j - i` strictly
decreases, so with `fuel ≥ j - i` the bound is never hit (it would give `none`, never a wrong index). -/
def searchLoop (f : Nat → Option Bool) : Nat → Nat → Nat → Option Nat
  | 0, i, j => if i < j then none else some i
  | fuel + 1, i, j =>
    if i < j then
      match f ((i + j) / 2) with
      | none => none
      | some false => searchLoop f fuel ((i + j) / 2 + 1) j
      | some true => searchLoop f fuel i ((i + j) / 2)
    else some i

/-- `sort.Search` on `[i, j)`. -/
def search (f : Nat → Option Bool) (i j : Nat) : Option Nat := searchLoop f (j - i) i j

/-- the closure passed to `sort.Search`: `func(k int) bool { return T[k] >= J[i] }` -/
def searchF (T : Array Int) (J : Array Nat) (i : Nat) (k : Nat) : Option Bool :=
  match T[k]?, J[i]? with
  | some t, some j => some (Gen.Diff.searchPred t j)
  | _, _ => none

/-- `for i := range n { k := sort.Search(n, T[k] >= J[i]); T[k] = J[i]; L[i] = k+1 }`;
first argument = iterations left. -/
def lisLoop (J : Array Nat) (n : Nat) : Nat → Nat → Array Int → Array Nat → Option (Array Int × Array Nat)
  | 0, _, T, L => some (T, L)
  | fuel + 1, i, T, L =>
    match search (searchF T J i) 0 n with
    | none => none
    | some k =>
      match J[i]? with
      | none => none
      | some j =>
        if hk : k < T.size then
          if hi : i < L.size then lisLoop J n fuel (i + 1) (T.set k j hk) (L.set i (k + 1) hi)
          else none
        else none

/-- `for i := n-1; i >= 0; i-- { if L[i] == k && J[i] < lastj { seq[k] = pair{xi[i], yi[J[i]]}; k-- } }`;
first argument = `i+1`.  (`J` and `L` have the same length, so reading both before the test is
the same as Go's short-circuit.) -/
def backScan (xi yi J L : Array Nat) (lastj : Int) : Nat → Int → Array (Nat × Nat) → Option (Array (Nat × Nat))
  | 0, _, seq => some seq
  | i + 1, k, seq =>
    match L[i]?, J[i]? with
    | some li, some ji =>
      if Gen.Diff.pickCond li k ji lastj then
        match xi[i]?, yi[ji]? with
        | some a, some b =>
          if 0 ≤ k then
            if h : k.toNat < seq.size then backScan xi yi J L lastj i (k - 1) (seq.set k.toNat (a, b) h)
            else none
          else none
        | _, _ => none
      else backScan xi yi J L lastj i k seq
    | _, _ => none

section
variable {α : Type} [DecidableEq α]

/-- `tgs(x, y)`: the sentinel `(0,0)`, the chosen pairs of unique lines, the sentinel `(len x, len y)`. -/
def tgs (x y : List α) : Option (List (Nat × Nat)) :=
  let m := countY y (countX x [])
  let (m, yi) := gatherY y 0 m #[]
  let (xi, inv) := gatherX x 0 m #[] #[]
  let n := xi.size
  match lisLoop inv n n 0 (Array.replicate n (Gen.Diff.unfilled n)) (Array.replicate n 0) with
  | none => none
  | some (_, L) =>
    let k := L.foldl max 0
    let seq : Array (Nat × Nat) := Array.replicate (2 + k) (0, 0)
    if h1 : 1 + k < seq.size then
      let seq := seq.set (1 + k) (x.length, y.length) h1
      match backScan xi yi inv L n n k seq with
      | none => none
      | some seq => if h0 : 0 < seq.size then some (seq.set 0 (0, 0) h0).toList else none
    else none

/-! ### hunks -/

inductive Tag | ctx | del | ins
deriving DecidableEq, Repr

/-- One emitted chunk: the four numbers of its `@@` line as printed, and its tagged lines. -/
structure Hunk (α : Type) where
  hx : Int
  cx : Nat
  hy : Int
  cy : Nat
  body : List (Tag × α)
deriving Repr, DecidableEq

/-- Go `l[lo:hi]` (checked against `len`). -/
def slice (l : List α) (lo hi : Nat) : Option (List α) :=
  if lo ≤ hi ∧ hi ≤ l.length then some ((l.drop lo).take (hi - lo)) else none

/-- `for start.x > done.x && start.y > done.y && x[start.x-1] == y[start.y-1] { start.x--; start.y-- }` -/
def expandStart (x y : List α) (dx dy : Nat) : Nat → Nat → Option (Nat × Nat)
  | sx + 1, sy + 1 =>
    if sx + 1 > dx ∧ sy + 1 > dy then
      match x[sx]?, y[sy]? with
      | some a, some b => if a = b then expandStart x y dx dy sx sy else some (sx + 1, sy + 1)
      | _, _ => none
    else some (sx + 1, sy + 1)
  | sx, sy => some (sx, sy)

/-- length of the longest common prefix -/
def lcp : List α → List α → Nat
  | a :: as, b :: bs => if a = b then lcp as bs + 1 else 0
  | _, _ => 0

/-- `for end.x < len(x) && end.y < len(y) && x[end.x] == y[end.y] { end.x++; end.y++ }` -/
def expandEnd (x y : List α) (m : Nat × Nat) : Nat × Nat :=
  (m.1 + lcp (x.drop m.1) (y.drop m.2), m.2 + lcp (x.drop m.1) (y.drop m.2))

def tagged (t : Tag) (l : List α) : List (Tag × α) := l.map fun s => (t, s)

/-- The variables of `Diff`'s loop (`out` holds the chunks already printed). -/
structure St (α : Type) where
  done : Nat × Nat := (0, 0)
  chunk : Int × Int := (0, 0)
  count : Nat × Nat := (0, 0)
  ctext : List (Tag × α) := []
  out : List (Hunk α) := []

/-- "End chunk with common lines for context": `if len(ctext) > 0 { n := min(..); ...; emit }`.
`ctext1` / `count1` are `ctext` / `count` after the mismatched lines were appended. -/
def closeChunk (x : List α) (st : St α) (ctext1 : List (Tag × α)) (count1 start en : Nat × Nat) : Option (St α) :=
  if Gen.Diff.closeCond ctext1.length then
    let n := Gen.Diff.closeN en.1 en.2 start.1 start.2
    if n < 0 then none else
    match slice x start.1 (start.1 + n.toNat) with
    | none => none
    | some comm =>
      let cx := count1.1 + comm.length
      let cy := count1.2 + comm.length
      let hx := if Gen.Diff.hdrIncX cx cy then st.chunk.1 + 1 else st.chunk.1
      let hy := if Gen.Diff.hdrIncY cx cy then st.chunk.2 + 1 else st.chunk.2
      some { st with count := (0, 0), ctext := [],
                     out := st.out ++ [⟨hx, cx, hy, cy, ctext1 ++ tagged .ctx comm⟩] }
  else some { st with count := count1, ctext := ctext1 }

/-- "Otherwise start a new chunk": `chunk = pair{end.x - C, end.y - C}; for .. x[chunk.x:end.x] ..; done = end`. -/
def openChunk (x : List α) (st2 : St α) (en : Nat × Nat) : Option (St α) :=
  let cx := Gen.Diff.newChunkX en.1 en.2
  let cy := Gen.Diff.newChunkY en.1 en.2
  if cx < 0 then none else
  match slice x cx.toNat en.1 with
  | none => none
  | some comm =>
    some { st2 with chunk := (cx, cy), done := en,
                    count := (st2.count.1 + comm.length, st2.count.2 + comm.length),
                    ctext := st2.ctext ++ tagged .ctx comm }

/-- One iteration of the loop for a match `m` that is not skipped. `true` = `break`. -/
def step (x y : List α) (st : St α) (m : Nat × Nat) : Option (St α × Bool) :=
  match expandStart x y st.done.1 st.done.2 m.1 m.2 with
  | none => none
  | some start =>
  let en := expandEnd x y m
  match slice x st.done.1 start.1, slice y st.done.2 start.2 with
  | some dels, some inss =>
    let ctext1 := st.ctext ++ tagged .del dels ++ tagged .ins inss
    let count1 := (st.count.1 + dels.length, st.count.2 + inss.length)
    if Gen.Diff.contCond en.1 en.2 start.1 start.2 x.length y.length ctext1.length then
      -- the chunk includes all the common lines and continues
      match slice x start.1 en.1 with
      | none => none
      | some comm =>
        some ({ st with done := en, count := (count1.1 + comm.length, count1.2 + comm.length),
                        ctext := ctext1 ++ tagged .ctx comm }, false)
    else
      match closeChunk x st ctext1 count1 start en with
      | none => none
      | some st2 =>
        if Gen.Diff.eofCond en.1 en.2 x.length y.length then some (st2, true)
        else
          match openChunk x st2 en with
          | none => none
          | some st3 => some (st3, false)
  | _, _ => none

/-- `for _, m := range tgs(x, y) { ... }`; falling off the end returns what was printed. -/
def loop (x y : List α) : List (Nat × Nat) → St α → Option (List (Hunk α))
  | [], st => some st.out
  | m :: ms, st =>
    if Gen.Diff.skipCond m.1 m.2 st.done.1 st.done.2 then loop x y ms st
    else
      match step x y st m with
      | none => none
      | some (st', true) => some st'.out
      | some (st', false) => loop x y ms st'

/-- The hunk-level function: the chunks `Diff` prints for line lists `x`, `y`. -/
def diffHunks (x y : List α) : Option (List (Hunk α)) :=
  match tgs x y with
  | none => none
  | some s => loop x y s {}

/-! ### an independent patch applier -/

def oldSide (b : List (Tag × α)) : List α := b.filterMap fun p => if p.1 = .ins then none else some p.2
def newSide (b : List (Tag × α)) : List α := b.filterMap fun p => if p.1 = .del then none else some p.2

/-- 0-based index of the first line of the hunk on the old side: the printed start line is
1-based, except that with a count of 0 it is the number of the line *before* the hunk. -/
def Hunk.posX (h : Hunk α) : Int := if h.cx = 0 then h.hx else h.hx - 1
def Hunk.posY (h : Hunk α) : Int := if h.cy = 0 then h.hy else h.hy - 1

/-- `stripPrefix p l = some r` iff `l = p ++ r`. -/
def stripPrefix : List α → List α → Option (List α)
  | [], l => some l
  | _ :: _, [] => none
  | a :: p, b :: l => if a = b then stripPrefix p l else none

/-- Apply hunks to the remaining lines `rest` of the old file, `cur` lines of which are already
consumed.  Strict: positions must be in order and not overlap, the old-side count must match the
body, context and deleted lines must be present verbatim at the stated position. -/
def applyFrom (cur : Nat) (rest : List α) : List (Hunk α) → Option (List α)
  | [] => some rest
  | h :: hs =>
    if h.posX < cur then none else
    let g := h.posX.toNat - cur
    if g > rest.length then none else
    if h.cx ≠ (oldSide h.body).length then none else
    match stripPrefix (oldSide h.body) (rest.drop g) with
    | none => none
    | some rest' =>
      match applyFrom (h.posX.toNat + h.cx) rest' hs with
      | none => none
      | some r => some (rest.take g ++ newSide h.body ++ r)

def apply (x : List α) (hs : List (Hunk α)) : Option (List α) := applyFrom 0 x hs

def Tag.swap : Tag → Tag
  | .ctx => .ctx | .del => .ins | .ins => .del

/-- The reverse patch. -/
def Hunk.swap (h : Hunk α) : Hunk α := ⟨h.hy, h.cy, h.hx, h.cx, h.body.map fun p => (p.1.swap, p.2)⟩

def unapply (y : List α) (hs : List (Hunk α)) : Option (List α) := apply y (hs.map Hunk.swap)

end

/-! ### rendering -/

/-- decimal digits of `n`, most significant first, in front of `acc`; the first argument bounds
the number of digits (`n + 1` always suffices) -/
def natDigits : Nat → Nat → Bytes → Bytes
  | 0, _, acc => acc
  | fuel + 1, n, acc =>
    if n < 10 then (48 + n).toUInt8 :: acc else natDigits fuel (n / 10) ((48 + n % 10).toUInt8 :: acc)

def fmtNat (n : Nat) : Bytes := natDigits (n + 1) n []

/-- `%d` -/
def fmtInt (i : Int) : Bytes := if i < 0 then 45 :: fmtNat i.natAbs else fmtNat i.toNat

/-- `fmt.Sprintf` for formats made of literal bytes, `%d` and `%s`; `args` are the rendered
arguments in order.  `none` = a verb without argument or an unknown verb (not modelled). -/
def sprintf : Bytes → List Bytes → Option Bytes
  | [], _ => some []
  | 37 :: v :: rest, args =>
    if v = 100 ∨ v = 115 then
      match args with
      | a :: args => (sprintf rest args).map (a ++ ·)
      | [] => none
    else none
  | [37], _ => none
  | b :: rest, args => (sprintf rest args).map (b :: ·)

/-- One `Fprintf`: format bytes, argument codes (indices into `env`). -/
def fmtWith (f : Bytes × List Nat) (env : List Bytes) : Option Bytes :=
  match f.2.mapM (fun i => env[i]?) with
  | none => none
  | some args => sprintf f.1 args

def tagByte : Tag → UInt8
  | .ctx => Gen.Diff.tagCtx
  | .del => Gen.Diff.tagDel
  | .ins => Gen.Diff.tagIns

def renderBody (b : List (Tag × Bytes)) : Bytes := b.flatMap fun p => tagByte p.1 :: p.2

/-- `fmt.Fprintf(&out, "@@ -%d,%d +%d,%d @@\n", chunk.x, count.x, chunk.y, count.y)` and the lines. -/
def renderHunk (h : Hunk Bytes) : Option Bytes :=
  (fmtWith Gen.Diff.fmtHunk [fmtInt h.hx, fmtInt h.cx, fmtInt h.hy, fmtInt h.cy]).map (· ++ renderBody h.body)

/-- the `diff`, `---`, `+++` lines -/
def renderHeader (oldName newName : Bytes) : Option Bytes :=
  (Gen.Diff.fmtHeader.mapM fun f => fmtWith f [oldName, newName]).map List.flatten

def render (oldName newName : Bytes) (hs : List (Hunk Bytes)) : Option Bytes :=
  match renderHeader oldName newName, hs.mapM renderHunk with
  | some h, some bs => some (h ++ bs.flatten)
  | _, _ => none

/-- `diff.Diff(oldName, old, newName, new)`; `none` = panic. -/
def diff (oldName old newName new : Bytes) : Option Bytes :=
  if old = new then some [] else
  match diffHunks (lines old) (lines new) with
  | none => none
  | some hs => render oldName newName hs

end GIV.Diff
