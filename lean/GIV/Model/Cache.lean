/-
  GIV.Model.Cache — executable model of /repo/cache/cache.go (fault-free, single process):
  index-entry codec (`fmtEntry` / `parseEntry`), `get`, `getFile`, `getBytes`, `outputFile`,
  `used`, `put` (= hash pass ; `copyFile` ; `putIndexEntry`) and `trim`, over an abstract
  cache directory `FS` (finite map  relative file name ↦ {data, mtime}).

  * Time is an explicit parameter `now : Int` (nanoseconds since the Unix epoch); file mtimes
    are `Int` nanoseconds; `time.Time.Sub` saturates like Go's `Duration`.
  * The hash function is a parameter `H : Bytes → Hash` of everything that hashes
    (`Hash` = byte strings of length `HashSize`); the driver instantiates it with the SHA-256
    at the end of this file, which the correspondence run ties to crypto/sha256.
  * Every constant and deciding expression comes from `GIV.Gen.Cache` (regenerated from the
    source on every run).  Standard-library behaviour (`hex.Decode`, `strconv.ParseInt`,
    `strings.TrimSpace`, `io.ReadFull`, `fmt.Sprintf("%x %20d")`, `time.Unix/Sub/Add/Before`)
    is modelled by hand here and tied by the correspondence run only.
  * A Go panic (index / slice out of range) is `Reason.panic`; theorem `lookup_total` (C05)
    shows it cannot occur.
  * Only regular files directly addressed by their relative path are modelled; directories
    exist implicitly (all 256 subdirectories exist after `Open`).

  The `cacheput` group (C11/C12) imports this file: the FS primitives (`FS.get/set/erase`, `overwrite`,
  `chtimes`, `used`), the codec (`fmtEntry`, `parseEntry`) and the pieces of `put` (`copyFile` with its re-use
  branch `refreshReused`, `putIndexEntry`) are kept separate for that purpose.  Extensional lemmas about them:
  GIV.Lemmas.CacheFS / CacheOps (codec-free), CacheParse / CacheStored / CacheRefine (index codec), CacheTrim.
-/
import GIV.Basic
import GIV.Gen.Cache

namespace GIV.Cache
open GIV

/-! ## hashes and hex -/

/-- `[HashSize]byte` (ActionID, OutputID). -/
abbrev Hash := { b : Bytes // b.length = Gen.Cache.HashSize }

def Hash.ofBytes? (b : Bytes) : Option Hash :=
  if h : b.length = Gen.Cache.HashSize then some ⟨b, h⟩ else none

/-- one lower-case hex digit (`%x`). -/
def hexDigit (n : UInt8) : UInt8 := if n < 10 then 48 + n else 87 + n

/-- `fmt.Sprintf("%x", b)` for a byte array / `hex.EncodeToString`. -/
def hexEncode : Bytes → Bytes
  | [] => []
  | b :: r => hexDigit (b >>> 4) :: hexDigit (b &&& 15) :: hexEncode r

/-- encoding/hex `fromHexChar`: accepts 0-9, a-f and A-F. -/
def fromHexChar (c : UInt8) : Option UInt8 :=
  if 48 ≤ c ∧ c ≤ 57 then some (c - 48)
  else if 97 ≤ c ∧ c ≤ 102 then some (c - 87)
  else if 65 ≤ c ∧ c ≤ 70 then some (c - 55)
  else none

/-- `hex.Decode`: `none` = InvalidByteError or ErrLength. -/
def hexDecode : Bytes → Option Bytes
  | [] => some []
  | [_] => none
  | a :: b :: r =>
    match fromHexChar a, fromHexChar b, hexDecode r with
    | some x, some y, some t => some (((x <<< 4) ||| y) :: t)
    | _, _, _ => none

/-! ## decimal numbers: `%d`, `%20d`, `strconv.ParseInt` -/

/-- decimal digits of a natural number (no sign, no padding). -/
def decimal (n : Nat) : Bytes :=
  if n < 10 then [48 + n.toUInt8] else decimal (n / 10) ++ [48 + (n % 10).toUInt8]
decreasing_by omega

/-- `%d` of an integer. -/
def fmtInt (i : Int) : Bytes := if i < 0 then 45 :: decimal i.natAbs else decimal i.natAbs

/-- width padding of `%<w>d` / `%<w>x`: spaces on the left, never truncates. -/
def padLeft (w : Nat) (s : Bytes) : Bytes := List.replicate (w - s.length) 32 ++ s

inductive Arg
  | hash (h : Hash)
  | int (i : Int)

/-- The fragment of `fmt.Sprintf` used by the cache: literal bytes, `%x` on a `[32]byte`,
`%d` and `%<width>d` on an integer.  `st = none`: copying literals; `st = some w`: inside a
directive with width `w` read so far.  An unsupported directive yields `%!` (never produced by the
regenerated format strings; theorems `fmtEntry_eq`/`trimRecord_eq` evaluate the interpreter on them). -/
def sprintfGo : Bytes → Option Nat → List Arg → Bytes
  | [], none, _ => []
  | [], some _, _ => [37, 33]
  | c :: rest, none, args => if c = 37 then sprintfGo rest (some 0) args else c :: sprintfGo rest none args
  | c :: rest, some w, args =>
    if 48 ≤ c ∧ c ≤ 57 then sprintfGo rest (some (w * 10 + (c.toNat - 48))) args
    else if c = 120 then
      match args with
      | .hash h :: as => padLeft w (hexEncode h.val) ++ sprintfGo rest none as
      | _ => [37, 33]
    else if c = 100 then
      match args with
      | .int i :: as => padLeft w (fmtInt i) ++ sprintfGo rest none as
      | _ => [37, 33]
    else [37, 33]

def sprintf (format : Bytes) (args : List Arg) : Bytes := sprintfGo format none args

/-- value of a digit character in `strconv.ParseUint` (`0-9`, `a-z`, `A-Z`); the underscore is
only legal with base 0, which the cache never uses. -/
def digitVal? (c : UInt8) : Option Nat :=
  if 48 ≤ c ∧ c ≤ 57 then some (c.toNat - 48)
  else if 97 ≤ c ∧ c ≤ 122 then some (c.toNat - 97 + 10)
  else if 65 ≤ c ∧ c ≤ 90 then some (c.toNat - 65 + 10)
  else none

/-- digits of `ParseUint` in `base`, accumulating; `none` = ErrSyntax. -/
def parseDigits (base : Nat) : Bytes → Nat → Option Nat
  | [], acc => some acc
  | c :: r, acc =>
    match digitVal? c with
    | some d => if d < base then parseDigits base r (acc * base + d) else none
    | none => none

/-- `strconv.ParseInt(s, base, bits)` for an explicit base (no prefixes, no underscores).
`none` = any error (ErrSyntax or ErrRange; an overflow inside ParseUint is reported as ErrRange even when
a later character is invalid — both are errors, so the distinction is not modelled). -/
def parseInt (base bits : Nat) (s : Bytes) : Option Int :=
  match s with
  | [] => none
  | c :: r =>
    let neg : Bool := c = 45
    let ds := if c = 43 ∨ c = 45 then r else s
    if ds.isEmpty then none else
    match parseDigits base ds 0 with
    | none => none
    | some un =>
      let cutoff := 2 ^ (bits - 1)
      if !neg && un ≥ cutoff then none
      else if neg && un > cutoff then none
      else some (if neg then -(un : Int) else (un : Int))

/-! ## strings.TrimSpace (same definition as in GIV.Model.Txtar, repeated to keep the groups independent)

`unicode.IsSpace` is true for exactly: U+0009–U+000D, U+0020, U+0085, U+00A0, U+1680,
U+2000–U+200A, U+2028, U+2029, U+202F, U+205F, U+3000. -/

def spacePrefixLen : Bytes → Nat
  | b :: rest =>
    if b = 9 ∨ b = 10 ∨ b = 11 ∨ b = 12 ∨ b = 13 ∨ b = 32 then 1 else
    match b, rest with
    | 0xC2, c :: _ => if c = 0x85 ∨ c = 0xA0 then 2 else 0
    | 0xE1, c :: d :: _ => if c = 0x9A ∧ d = 0x80 then 3 else 0
    | 0xE2, c :: d :: _ =>
      if c = 0x80 ∧ ((0x80 ≤ d ∧ d ≤ 0x8A) ∨ d = 0xA8 ∨ d = 0xA9 ∨ d = 0xAF) then 3
      else if c = 0x81 ∧ d = 0x9F then 3 else 0
    | 0xE3, c :: d :: _ => if c = 0x80 ∧ d = 0x80 then 3 else 0
    | _, _ => 0
  | [] => 0

def trimLeftAux : Nat → Bytes → Bytes
  | 0, b => b
  | n+1, b => if spacePrefixLen b = 0 then b else trimLeftAux n (b.drop (spacePrefixLen b))

def trimLeft (b : Bytes) : Bytes := trimLeftAux b.length b

def spaceSuffixLenRev : Bytes → Nat
  | b :: rest =>
    if b = 9 ∨ b = 10 ∨ b = 11 ∨ b = 12 ∨ b = 13 ∨ b = 32 then 1 else
    match rest with
    | c :: rest2 =>
      if c = 0xC2 ∧ (b = 0x85 ∨ b = 0xA0) then 2 else
      match rest2 with
      | d :: _ =>
        if d = 0xE1 ∧ c = 0x9A ∧ b = 0x80 then 3
        else if d = 0xE2 ∧ c = 0x80 ∧ ((0x80 ≤ b ∧ b ≤ 0x8A) ∨ b = 0xA8 ∨ b = 0xA9 ∨ b = 0xAF) then 3
        else if d = 0xE2 ∧ c = 0x81 ∧ b = 0x9F then 3
        else if d = 0xE3 ∧ c = 0x80 ∧ b = 0x80 then 3
        else 0
      | [] => 0
    | [] => 0
  | [] => 0

def trimRightRevAux : Nat → Bytes → Bytes
  | 0, r => r
  | n+1, r => if spaceSuffixLenRev r = 0 then r else trimRightRevAux n (r.drop (spaceSuffixLenRev r))

def trimRight (b : Bytes) : Bytes := (trimRightRevAux b.length b.reverse).reverse

/-- `strings.TrimSpace`. -/
def trimSpace (b : Bytes) : Bytes := trimRight (trimLeft b)

/-! ## time -/

def minDuration : Int := -(2 ^ 63)
def maxDuration : Int := 2 ^ 63 - 1

/-- `t.Sub(u)` on wall-clock times given in nanoseconds: exact difference saturated to the
`Duration` range. -/
def durSub (t u : Int) : Int :=
  let d := t - u
  if d < minDuration then minDuration else if d > maxDuration then maxDuration else d

/-- seconds between year 1 and 1970 (`unixToInternal`). -/
def unixToInternal : Int := 62135596800

def wrap64 (x : Int) : Int := (x + 2 ^ 63) % 2 ^ 64 - 2 ^ 63

/-- `time.Unix(sec, 0)` as nanoseconds since the epoch; the addition `sec + unixToInternal` wraps in int64. -/
def timeUnixSec (sec : Int) : Int := (wrap64 (sec + unixToInternal) - unixToInternal) * Gen.Cache.second

/-- `t.Unix()`: seconds since the epoch, rounded down. -/
def unixOf (t : Int) : Int := t / Gen.Cache.second

/-! ## the cache directory -/

structure File where
  data : Bytes
  mtime : Int
deriving Repr, DecidableEq

/-- The cache directory: association list  relative name ↦ file  (first match wins). All access goes
through `get / set / erase / names`; `GIV.Lemmas.Cache` characterises them extensionally. -/
abbrev FS := List (Bytes × File)

namespace FS

def get : FS → Bytes → Option File
  | [], _ => none
  | (k, v) :: rest, n => if k = n then some v else get rest n

def erase : FS → Bytes → FS
  | [], _ => []
  | (k, v) :: rest, n => if k = n then erase rest n else (k, v) :: erase rest n

def set (fs : FS) (n : Bytes) (f : File) : FS := (n, f) :: erase fs n

def names (fs : FS) : List Bytes := fs.map (·.1)

def empty : FS := []

end FS

/-- `pwrite` at offset 0 of a file holding `old`: bytes beyond the written range survive. -/
def overwrite (old new : Bytes) : Bytes := new ++ old.drop new.length

/-- `os.Chtimes(file, t, t)`: no effect (an ignored error) when the file does not exist. -/
def chtimes (fs : FS) (file : Bytes) (t : Int) : FS :=
  match fs.get file with
  | none => fs
  | some f => fs.set file { f with mtime := t }

def slash : UInt8 := 47

/-- `c.fileName(id, key)` relative to the cache directory. -/
def fileName (id : Hash) (key : Bytes) : Bytes :=
  hexEncode (id.val.take 1) ++ [slash] ++ hexEncode id.val ++ [45] ++ key

def keyA : Bytes := Gen.Cache.keyIndex
def keyD : Bytes := Gen.Cache.keyData

/-! ## index entries -/

structure Entry where
  out : Hash
  size : Int
  time : Int
deriving DecidableEq

inductive Reason
  | noFile          -- os.Open of the index file failed
  | tooLong | empty | readErr | incomplete | header
  | decodeID | mismatchedID | decodeOut
  | parseSize | negSize | parseTime | negTime
  | statData        -- GetFile: os.Stat of the data file failed
  | fileIncomplete  -- GetFile: size gate
  | badChecksum     -- GetBytes: checksum gate
  | panic           -- a Go run-time panic (index or slice bounds out of range)
deriving DecidableEq, Repr

/-- `fmt.Sprintf("v1 %x %x %20d %20d\n", id, out, size, time)` (format string regenerated). -/
def fmtEntry (id out : Hash) (size time : Int) : Bytes :=
  sprintf Gen.Cache.entryFormat [.hash id, .hash out, .int size, .int time]

/-- `s[lo:hi]` on a slice whose capacity equals its length; `none` = slice bounds out of range. -/
def slice (buf : Bytes) (lo hi : Nat) : Option Bytes :=
  if lo ≤ hi ∧ hi ≤ buf.length then some ((buf.take hi).drop lo) else none

/-- the header test of `get`, short-circuiting like `||`: `none` = index out of range,
`some true` = "invalid header". -/
def headerBad : List (Nat × UInt8) → Bytes → Option Bool
  | [], _ => some false
  | (i, c) :: rest, buf =>
    match buf[i]? with
    | none => none
    | some b => if b ≠ c then some true else headerBad rest buf

/-- `hex.Decode(buf[:], src)` into a `[HashSize]byte`. `none` = the source does not have exactly
`2*HashSize` bytes (Go would panic when it is longer and leave stale bytes when it is shorter; both are
reported as `panic`, an over-approximation that `lookup_total` excludes), `some none` = decode error. -/
def decodeHash (src : Bytes) : Option (Option Hash) :=
  if src.length ≠ 2 * Gen.Cache.HashSize then none else
  match hexDecode src with
  | none => some none
  | some d => some (Hash.ofBytes? d)

def skipSpaces (s : Bytes) : Bytes := s.dropWhile (· = 32)

/-- what `io.ReadFull(f, make([]byte, bufLen))` leaves in the buffer, and `n`. -/
def readFull (data : Bytes) : Bytes × Nat :=
  let n := min data.length Gen.Cache.bufLen
  (data.take Gen.Cache.bufLen ++ List.replicate (Gen.Cache.bufLen - n) 0, n)

/-- The body of `get` after the index file has been opened: `data` is the whole file content. -/
def parseEntry (id : Hash) (data : Bytes) : Except Reason Entry :=
  let (buf, n) := readFull data
  if Gen.Cache.tooLong n then .error .tooLong
  else if n = Gen.Cache.bufLen then .error .readErr     -- err == nil: `missing(nil)`
  else if n = 0 then .error .empty                       -- err == io.EOF
  else if Gen.Cache.incomplete n then .error .incomplete -- err == io.ErrUnexpectedEOF
  else
  match headerBad Gen.Cache.headerChecks buf with
  | none => .error .panic
  | some true => .error .header
  | some false =>
  match slice buf Gen.Cache.eidLo Gen.Cache.eidHi, slice buf Gen.Cache.eoutLo Gen.Cache.eoutHi,
        slice buf Gen.Cache.esizeLo Gen.Cache.esizeHi, slice buf Gen.Cache.etimeLo Gen.Cache.etimeHi with
  | some eid, some eout, some esize, some etime =>
    match decodeHash eid with
    | none => .error .panic
    | some none => .error .decodeID
    | some (some eidH) =>
    if eidH ≠ id then .error .mismatchedID else
    match decodeHash eout with
    | none => .error .panic
    | some none => .error .decodeOut
    | some (some out) =>
    match parseInt Gen.Cache.parseBase Gen.Cache.parseBits (skipSpaces esize) with
    | none => .error .parseSize
    | some size =>
    if Gen.Cache.negSize size then .error .negSize else
    match parseInt Gen.Cache.parseBase Gen.Cache.parseBits (skipSpaces etime) with
    | none => .error .parseTime
    | some tm =>
    if Gen.Cache.negTime tm then .error .negTime else
    .ok ⟨out, size, tm⟩
  | _, _, _, _ => .error .panic

/-! ## lookups -/

/-- `c.used(file)`. -/
def used (fs : FS) (now : Int) (file : Bytes) : FS :=
  let fresh := match fs.get file with
    | some f => Gen.Cache.usedFresh true (durSub now f.mtime)
    | none => Gen.Cache.usedFresh false 0
  if fresh then fs else chtimes fs file now

/-- `c.get(id)` (= `Get` outside verify mode). -/
def get (fs : FS) (now : Int) (id : Hash) : Except Reason Entry × FS :=
  match fs.get (fileName id keyA) with
  | none => (.error .noFile, fs)
  | some f =>
    match parseEntry id f.data with
    | .error r => (.error r, fs)
    | .ok e => (.ok e, if Gen.Cache.getUsesIndexFile then used fs now (fileName id keyA) else fs)

/-- `c.OutputFile(out)`. -/
def outputFile (fs : FS) (now : Int) (out : Hash) : Bytes × FS :=
  (fileName out keyD, used fs now (fileName out keyD))

/-- `c.GetFile(id)`. -/
def getFile (fs : FS) (now : Int) (id : Hash) : Except Reason (Bytes × Entry) × FS :=
  match get fs now id with
  | (.error r, fs1) => (.error r, fs1)
  | (.ok e, fs1) =>
    let (file, fs2) := outputFile fs1 now e.out
    match fs2.get file with
    | none => (.error .statData, fs2)
    | some f =>
      if Gen.Cache.getFileReject (f.data.length : Int) e.size then (.error .fileIncomplete, fs2)
      else (.ok (file, e), fs2)

/-- `c.GetBytes(id)`. -/
def getBytes (H : Bytes → Hash) (fs : FS) (now : Int) (id : Hash) : Except Reason (Bytes × Entry) × FS :=
  match get fs now id with
  | (.error r, fs1) => (.error r, fs1)
  | (.ok e, fs1) =>
    let (file, fs2) := outputFile fs1 now e.out
    -- `data, _ := os.ReadFile(file)`: a missing file reads as no bytes
    let data := match fs2.get file with
      | some f => f.data
      | none => []
    if Gen.Cache.getBytesReject (H data) e.out then (.error .badChecksum, fs2)
    else (.ok (data, e), fs2)

/-! ## Put (fault-free) -/

inductive PutErr
  | underfoot   -- "file content changed underfoot"
deriving DecidableEq, Repr

/-- what the reuse branch of `copyFile` does to the existing data file before returning (regenerated:
0 = nothing, 1 = `c.used(name)`, 2 = `os.Chtimes(name, now, now)`). -/
def refreshReused (fs : FS) (now : Int) (name : Bytes) : FS :=
  if Gen.Cache.copyReuseRefresh = 1 then used fs now name
  else if Gen.Cache.copyReuseRefresh = 2 then chtimes fs name now
  else fs

/-- `c.copyFile(file, out, size)` with a reader that delivers `data` on every pass and no I/O error. -/
def copyFile (H : Bytes → Hash) (fs : FS) (now : Int) (data : Bytes) (out : Hash) (size : Int) : Except PutErr Unit × FS :=
  let name := fileName out keyD
  let info := fs.get name
  let statOk := info.isSome
  let infoSize : Int := match info with
    | some f => f.data.length
    | none => 0
  let reuse : Bool := match info with
    | some f => Gen.Cache.copyCheckExisting statOk infoSize size && Gen.Cache.copyReuse out (H f.data)
    | none => false
  if reuse then (.ok (), refreshReused fs now name) else
  -- os.OpenFile(name, O_RDWR|O_CREATE [|O_TRUNC], 0666)
  let opened : File := match info with
    | some f => if Gen.Cache.copyTrunc statOk infoSize size then ⟨[], now⟩ else f
    | none => ⟨[], now⟩
  let fs1 := fs.set name opened
  if Gen.Cache.copyEmptyReturn size then (.ok (), fs1) else
  -- CopyN(size-1) bytes to the file and the hash, read the last byte, compare, then write it
  let first := data.take (Gen.Cache.copyFirstLen size).toNat
  let last := (data.drop (Gen.Cache.copyFirstLen size).toNat).take 1
  if Gen.Cache.copyUnderfoot (H (first ++ last)) out then
    (.error .underfoot, fs1.set name ⟨[], now⟩)          -- f.Truncate(0)
  else
    (.ok (), fs1.set name ⟨overwrite opened.data (first ++ last), now⟩)   -- …; os.Chtimes(name, now, now)

/-- `c.putIndexEntry(id, out, size, _)` outside verify mode. -/
def putIndexEntry (fs : FS) (now : Int) (id out : Hash) (size : Int) : FS :=
  let entry := fmtEntry id out size now
  let file := fileName id keyA
  let old : Bytes := match fs.get file with
    | some f => if Gen.Cache.indexOpenTrunc then [] else f.data
    | none => []
  let written := overwrite old entry
  let final := if Gen.Cache.indexTruncAfterWrite then written.take entry.length else written
  fs.set file ⟨final, now⟩

/-- `c.Put(id, file)` / `c.PutBytes(id, data)`: hash pass, copyFile, putIndexEntry. -/
def put (H : Bytes → Hash) (fs : FS) (now : Int) (id : Hash) (data : Bytes) : Except PutErr (Hash × Int) × FS :=
  let out := H data
  let size : Int := data.length
  match copyFile H fs now data out size with
  | (.error e, fs1) => (.error e, fs1)
  | (.ok (), fs1) => (.ok (out, size), putIndexEntry fs1 now id out size)

/-! ## Trim -/

def hasSuffix (s suffix : Bytes) : Bool := suffix.isSuffixOf s

/-- `fmt.Sprintf("%02x", i)` for `i < 256`. -/
def subdirName (i : Nat) : Bytes := hexEncode [i.toUInt8]

/-- `Readdirnames` of a subdirectory: the regular files directly inside it. -/
def listDir (fs : FS) (sub : Bytes) : List Bytes :=
  fs.names.filterMap fun p =>
    if (sub ++ [slash]).isPrefixOf p then
      let n := p.drop (sub.length + 1)
      if n.isEmpty || n.contains slash then none else some n
    else none

/-- one iteration of the loop of `trimSubdir`. -/
def trimStep (sub : Bytes) (cutoff : Int) (fs : FS) (name : Bytes) : FS :=
  if Gen.Cache.trimSkipName hasSuffix name then fs else
  let entry := sub ++ [slash] ++ name
  let remove := match fs.get entry with
    | some f => Gen.Cache.trimRemove true f.mtime cutoff
    | none => Gen.Cache.trimRemove false 0 cutoff
  if remove then fs.erase entry else fs

/-- `c.trimSubdir(subdir, cutoff)`. -/
def trimSubdir (fs : FS) (sub : Bytes) (cutoff : Int) : FS :=
  (listDir fs sub).foldl (trimStep sub cutoff) fs

/-- the loop over the 256 subdirectories. -/
def trimSweep (fs : FS) (cutoff : Int) : FS :=
  (List.range Gen.Cache.trimSubdirs).foldl (fun fs i => trimSubdir fs (subdirName i) cutoff) fs

/-- the time of the last trim as `Trim` reads it: `none` = missing or unparseable `trim.txt`. -/
def lastTrim? (fs : FS) : Option Int :=
  match fs.get Gen.Cache.trimFile with
  | none => none
  | some f =>
    match parseInt Gen.Cache.parseBase Gen.Cache.parseBits (trimSpace f.data) with
    | none => none
    | some t => some (timeUnixSec t)

def trimNotDue (fs : FS) (now : Int) : Bool :=
  match lastTrim? fs with
  | some lt => Gen.Cache.trimNotDue (durSub now lt)
  | none => false

/-- the content `Trim` writes to `trim.txt`. -/
def trimRecord (now : Int) : Bytes := sprintf Gen.Cache.trimFormat [.int (unixOf now)]

/-- `c.Trim()`. -/
def trim (fs : FS) (now : Int) : FS :=
  if trimNotDue fs now then fs else
  (trimSweep fs (Gen.Cache.cutoff now)).set Gen.Cache.trimFile ⟨trimRecord now, now⟩

/-! ## SHA-256 (FIPS 180-4), the driver's instance of `H`

Plain Lean over `UInt32`; tied to Go's crypto/sha256 by the correspondence run (every case compares
output IDs, plus dedicated digest cases over the padding boundaries). -/

namespace SHA256

def K : Array UInt32 := #[
  0x428a2f98, 0x71374491, 0xb5c0fbcf, 0xe9b5dba5, 0x3956c25b, 0x59f111f1, 0x923f82a4, 0xab1c5ed5,
  0xd807aa98, 0x12835b01, 0x243185be, 0x550c7dc3, 0x72be5d74, 0x80deb1fe, 0x9bdc06a7, 0xc19bf174,
  0xe49b69c1, 0xefbe4786, 0x0fc19dc6, 0x240ca1cc, 0x2de92c6f, 0x4a7484aa, 0x5cb0a9dc, 0x76f988da,
  0x983e5152, 0xa831c66d, 0xb00327c8, 0xbf597fc7, 0xc6e00bf3, 0xd5a79147, 0x06ca6351, 0x14292967,
  0x27b70a85, 0x2e1b2138, 0x4d2c6dfc, 0x53380d13, 0x650a7354, 0x766a0abb, 0x81c2c92e, 0x92722c85,
  0xa2bfe8a1, 0xa81a664b, 0xc24b8b70, 0xc76c51a3, 0xd192e819, 0xd6990624, 0xf40e3585, 0x106aa070,
  0x19a4c116, 0x1e376c08, 0x2748774c, 0x34b0bcb5, 0x391c0cb3, 0x4ed8aa4a, 0x5b9cca4f, 0x682e6ff3,
  0x748f82ee, 0x78a5636f, 0x84c87814, 0x8cc70208, 0x90befffa, 0xa4506ceb, 0xbef9a3f7, 0xc67178f2]

@[inline] def rotr (x : UInt32) (n : UInt32) : UInt32 := (x >>> n) ||| (x <<< (32 - n))

structure St where
  a : UInt32
  b : UInt32
  c : UInt32
  d : UInt32
  e : UInt32
  f : UInt32
  g : UInt32
  h : UInt32

def init : St := ⟨0x6a09e667, 0xbb67ae85, 0x3c6ef372, 0xa54ff53a, 0x510e527f, 0x9b05688c, 0x1f83d9ab, 0x5be0cd19⟩

/-- message padding: 0x80, zeros up to 56 mod 64, 64-bit big-endian bit length. -/
def padding (len : Nat) : Bytes :=
  let zeros := (119 - len % 64) % 64
  let bits := len * 8
  ((0x80 : UInt8) :: List.replicate zeros (0 : UInt8)) ++
    (List.range 8).map (fun i => (bits >>> (8 * (7 - i))).toUInt8)

def byteAt (m : ByteArray) (i : Nat) : UInt32 := (m.get! i).toUInt32

/-- extend the 16 message words of the block at `off` to the 64-entry schedule. -/
def schedule (m : ByteArray) (off : Nat) : Array UInt32 :=
  let w0 : Array UInt32 := (List.range 16).foldl (fun w i =>
    w.push ((byteAt m (off + 4*i) <<< 24) ||| (byteAt m (off + 4*i + 1) <<< 16) |||
            (byteAt m (off + 4*i + 2) <<< 8) ||| byteAt m (off + 4*i + 3))) (Array.mkEmpty 64)
  (List.range 48).foldl (fun w j =>
    let i := j + 16
    let w15 := w[i - 15]!
    let w2 := w[i - 2]!
    let s0 := rotr w15 7 ^^^ rotr w15 18 ^^^ (w15 >>> 3)
    let s1 := rotr w2 17 ^^^ rotr w2 19 ^^^ (w2 >>> 10)
    w.push (w[i - 16]! + s0 + w[i - 7]! + s1)) w0

def round (s : St) (k w : UInt32) : St :=
  let s1 := rotr s.e 6 ^^^ rotr s.e 11 ^^^ rotr s.e 25
  let ch := (s.e &&& s.f) ^^^ ((~~~ s.e) &&& s.g)
  let t1 := s.h + s1 + ch + k + w
  let s0 := rotr s.a 2 ^^^ rotr s.a 13 ^^^ rotr s.a 22
  let maj := (s.a &&& s.b) ^^^ (s.a &&& s.c) ^^^ (s.b &&& s.c)
  let t2 := s0 + maj
  ⟨t1 + t2, s.a, s.b, s.c, s.d + t1, s.e, s.f, s.g⟩

def compress (s : St) (m : ByteArray) (off : Nat) : St :=
  let w := schedule m off
  let r := (List.range 64).foldl (fun s i => round s K[i]! w[i]!) s
  ⟨s.a + r.a, s.b + r.b, s.c + r.c, s.d + r.d, s.e + r.e, s.f + r.f, s.g + r.g, s.h + r.h⟩

def word (x : UInt32) : Bytes := [(x >>> 24).toUInt8, (x >>> 16).toUInt8, (x >>> 8).toUInt8, x.toUInt8]

def digest (data : Bytes) : Bytes :=
  let m := (data ++ padding data.length).toByteArray
  let s := (List.range (m.size / 64)).foldl (fun s i => compress s m (64 * i)) init
  word s.a ++ word s.b ++ word s.c ++ word s.d ++ word s.e ++ word s.f ++ word s.g ++ word s.h

theorem digest_length (data : Bytes) : (digest data).length = Gen.Cache.HashSize := by
  simp [digest, word, Gen.Cache.HashSize]

end SHA256

/-- real SHA-256 as a `Hash`-valued function. -/
def sha256 (data : Bytes) : Hash := ⟨SHA256.digest data, SHA256.digest_length data⟩

end GIV.Cache
