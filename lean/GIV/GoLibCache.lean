/-
  Run-time library of the Go→Lean translation of the index-entry parser of cache/cache.go (preset "cacheparse"):
  the LIBRARY MEANINGS of `hex.Decode` into a local byte array and of `strconv.ParseInt(s, 10, 64)`.
  They are trusted (not translated from GOROOT) and tested by the correspondence run of the cache group.
  Core Lean only.
-/
import GIV.GoLib
import GIV.Model.Cache

namespace GIV.GoLib
open GIV

/-- the loop of encoding/hex `Decode` over the source alone: the bytes decoded before the first
invalid character / dangling half pair, and whether there was such an error (`fromHexChar` = the model's table:
0-9, a-f, A-F). -/
def hexDecodePrefix : Bytes → Bytes × Bool
  | [] => ([], false)
  | [_] => ([], true)
  | a :: b :: r =>
    match GIV.Cache.fromHexChar a, GIV.Cache.fromHexChar b with
    | some x, some y => (((x <<< 4) ||| y) :: (hexDecodePrefix r).1, (hexDecodePrefix r).2)
    | _, _ => ([], true)

/-- `n, err := hex.Decode(dst[:], src)` for a byte array `dst`: the array afterwards (the decoded bytes stored from
index 0, the rest untouched — also when Decode fails half way), n, and err (opaque: nil / non-nil).  `none` = the
index panic of `dst[i] = …` when more bytes are decoded than the array holds. -/
def hexDecodeInto (dst src : Bytes) : Option (Bytes × Int × GoError) :=
  let d := (hexDecodePrefix src).1
  if d.length ≤ dst.length then
    some (d ++ dst.drop d.length, (d.length : Int),
      if (hexDecodePrefix src).2 then some [104, 101, 120] else none)
  else none

/-- `strconv.ParseInt(s, 10, 64)`: the model's `parseInt 10 64` (value, nil) or (0, non-nil error).  Go returns the
clamped bound with ErrRange; no translated code reads the value when err != nil. -/
def strconvParseInt10_64 (s : Bytes) : Int × GoError :=
  match GIV.Cache.parseInt 10 64 s with
  | some v => (v, none)
  | none => (0, some [115, 116, 114, 99, 111, 110, 118])

end GIV.GoLib
