/-
  GIV.GoLibStr — run-time library of the Go→Lean translator, part 3: runes and the `strings` / `utf8`
  functions the translation of golang.org/x/mod/module calls (preset `module` of harness/internal/go2lean).

  Like GIV.GoLib this is the *trusted meaning* of the Go built-ins and library functions (modelled, not
  verified); the definitions are written from the Go specification / the package documentation:

  * `for i, r := range s` over a string: at every position utf8.DecodeRuneInString — an ASCII byte is
    itself (width 1), a well-formed shortest-form encoding of a scalar value is decoded (width 2–4), any
    other byte is U+FFFD with width 1 (`decodeRune`); `runesIdx s` lists the (byte offset, rune) pairs,
    `runes s` the runes;
  * `byte(x)` of an int / rune keeps the low eight bits;
  * `strings.Contains / Count / ContainsRune / LastIndexByte`, `utf8.ValidString`;
  * the Unicode tables are NOT defined here: `unicode.IsLetter` and the case folding of `strings.EqualFold`
    are the two fields of the parameter `u : Unicode` every translated definition takes.  What a theorem
    needs of them is a hypothesis (`GIV.ModuleGo.FoldOK`: on two ASCII strings EqualFold is equality up to
    ASCII case — true of Go's simple case folding, whose orbits of ASCII letters contain, apart from the
    other-case ASCII letter, only U+212A (for k) and U+017F (for s), both non-ASCII); `Unicode.ascii` is
    the instance used for closed examples.
  Core Lean only.
-/
import GIV.GoLib

namespace GIV.GoLib
open GIV

/-- `byte(x)` for an `int` / `rune` x: the low eight bits. -/
def byteOfInt (x : Int) : UInt8 := UInt8.ofNat (x % 256).toNat

/-- a UTF-8 continuation byte -/
def isCont (b : UInt8) : Bool := 0x80 ≤ b && b ≤ 0xBF

/-- two-byte encoding `110xxxxx 10xxxxxx` (lead C2..DF: C0, C1 would be over-long): U+0080..U+07FF -/
def dec2 (b0 b1 : UInt8) : Option Nat :=
  if 0xC2 ≤ b0 ∧ b0 ≤ 0xDF ∧ isCont b1 then some ((b0.toNat - 0xC0) * 64 + (b1.toNat - 0x80)) else none

/-- three-byte encoding `1110xxxx 10xxxxxx 10xxxxxx`: U+0800..U+FFFF without the surrogates (after E0 the second
byte is A0..BF: no over-long forms; after ED it is 80..9F: no surrogates) -/
def dec3 (b0 b1 b2 : UInt8) : Option Nat :=
  if 0xE0 ≤ b0 ∧ b0 ≤ 0xEF ∧ (if b0 = 0xE0 then 0xA0 else 0x80) ≤ b1 ∧ b1 ≤ (if b0 = 0xED then 0x9F else 0xBF) ∧ isCont b2
  then some ((b0.toNat - 0xE0) * 4096 + (b1.toNat - 0x80) * 64 + (b2.toNat - 0x80)) else none

/-- four-byte encoding `11110xxx 10xxxxxx 10xxxxxx 10xxxxxx`: U+10000..U+10FFFF (after F0 the second byte is
90..BF: no over-long forms; after F4 it is 80..8F: nothing above U+10FFFF) -/
def dec4 (b0 b1 b2 b3 : UInt8) : Option Nat :=
  if 0xF0 ≤ b0 ∧ b0 ≤ 0xF4 ∧ (if b0 = 0xF0 then 0x90 else 0x80) ≤ b1 ∧ b1 ≤ (if b0 = 0xF4 then 0x8F else 0xBF) ∧
     isCont b2 ∧ isCont b3
  then some ((b0.toNat - 0xF0) * 262144 + (b1.toNat - 0x80) * 4096 + (b2.toNat - 0x80) * 64 + (b3.toNat - 0x80)) else none

/-- `utf8.DecodeRuneInString` at a non-ASCII lead byte: `some (rune, width)` for a well-formed
shortest-form encoding of a Unicode scalar value, `none` = RuneError with width 1.  (The lead-byte ranges
of the three forms are disjoint, so the order of the attempts does not matter.) -/
def decodeMulti : Bytes → Option (Nat × Nat)
  | b0 :: b1 :: rest =>
    match dec2 b0 b1 with
    | some r => some (r, 2)
    | none =>
      match rest with
      | b2 :: rest2 =>
        match dec3 b0 b1 b2 with
        | some r => some (r, 3)
        | none =>
          match rest2 with
          | b3 :: _ => (dec4 b0 b1 b2 b3).map fun r => (r, 4)
          | [] => none
      | [] => none
  | _ => none

/-- `utf8.DecodeRuneInString(s)` for a non-empty `s`: (rune, width). -/
def decodeRune : Bytes → Int × Nat
  | [] => (0xFFFD, 0)
  | b :: rest =>
    if b < 0x80 then ((b.toNat : Int), 1) else
    match decodeMulti (b :: rest) with
    | none => (0xFFFD, 1)
    | some (r, w) => ((r : Int), w)

/-- the (byte offset, rune) pairs of `for i, r := range s`, for the suffix `s` that starts at offset `off`
(`n` bounds the number of runes by the number of bytes). -/
def runesFrom : Nat → Int → Bytes → List (Int × Int)
  | 0, _, _ => []
  | _, _, [] => []
  | n+1, off, b :: rest =>
    (off, (decodeRune (b :: rest)).1) ::
      runesFrom n (off + ((decodeRune (b :: rest)).2 : Int)) (rest.drop ((decodeRune (b :: rest)).2 - 1))

/-- `for i, r := range s` -/
def runesIdx (s : Bytes) : List (Int × Int) := runesFrom s.length 0 s

/-- `for _, r := range s` -/
def runes (s : Bytes) : List Int := (runesIdx s).map (·.2)

/-- `utf8.ValidString(s)` -/
def utf8ValidAux : Nat → Bytes → Bool
  | 0, s => s.isEmpty
  | _, [] => true
  | n+1, b :: rest =>
    if b < 0x80 then utf8ValidAux n rest else
    match decodeMulti (b :: rest) with
    | none => false
    | some (_, w) => utf8ValidAux n (rest.drop (w - 1))

def utf8Valid (s : Bytes) : Bool := utf8ValidAux s.length s

/-- `strings.Contains(s, substr)` -/
def contains (s sub : Bytes) : Bool := decide (0 ≤ index s sub)

/-- `strings.Count(s, sep)`: non-overlapping instances of a non-empty `sep`; 1 + the number of runes for an empty one. -/
def countAux (sep : Bytes) : Nat → Bytes → Int
  | 0, _ => 0
  | _, [] => 0
  | fuel + 1, x :: xs =>
    if hasPrefix (x :: xs) sep then 1 + countAux sep fuel ((x :: xs).drop sep.length)
    else countAux sep fuel xs

def count (s sep : Bytes) : Int :=
  if sep.isEmpty then ((runes s).length : Int) + 1 else countAux sep s.length s

/-- `strings.ContainsRune(s, r)`: `r` is one of the runes of `s` (an invalid byte of `s` counts as U+FFFD; a
value that is not a Unicode scalar value is never found). -/
def containsRune (s : Bytes) (r : Int) : Bool := (runes s).contains r

/-- `strings.LastIndexByte(s, c)`; `-1` when absent. -/
def lastIndexByte : Bytes → UInt8 → Int
  | [], _ => -1
  | x :: xs, c =>
    let r := lastIndexByte xs c
    if 0 ≤ r then r + 1 else if x = c then 0 else -1

/-- The Unicode tables translated code consults. -/
structure Unicode where
  /-- `unicode.IsLetter` -/
  isLetter : Int → Bool
  /-- `strings.EqualFold` -/
  equalFold : Bytes → Bytes → Bool

def asciiUpper (c : UInt8) : UInt8 := if 97 ≤ c ∧ c ≤ 122 then c - 32 else c

/-- the ASCII-only tables (for closed examples): letters A–Z a–z, equality up to ASCII case -/
def Unicode.ascii : Unicode where
  isLetter r := (decide (65 ≤ r) && decide (r ≤ 90)) || (decide (97 ≤ r) && decide (r ≤ 122))
  equalFold s t := s.map asciiUpper == t.map asciiUpper

end GIV.GoLib
