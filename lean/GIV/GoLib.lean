/-
  GIV.GoLib — the run-time library of the Go→Lean translator (`harness/internal/go2lean`).

  The translator turns a pure Go function (over `[]byte`, `string`, `int`, `byte`, `bool`, small
  structs) into Lean definitions in the `Option` monad: `none` is a Go run-time panic (index or
  slice out of range, negative `make`) or an exhausted loop budget.  This file gives the meaning
  of the Go built-ins and of the handful of standard-library functions the translated code calls.
  Everything here is *modelled, not verified* (it is the trusted meaning of the Go library) and is
  exercised by the correspondence run, which executes definitions proved equal to the generated
  ones against the real implementation.

  Conventions: Go `int` is Lean `Int` (no overflow: sizes are far below 2^63); `string` and
  `[]byte` are both `Bytes` and `nil` is `[]` (so `x == nil` on slices is outside the subset);
  a slice expression is checked against `len`, not `cap` (stricter than Go: never hides a panic).
  Core Lean only.
-/
import GIV.Basic

namespace GIV.GoLib
open GIV

/-- `len(s)` -/
@[inline] def len (s : List α) : Int := (s.length : Int)

/-- `s[lo:hi]`; panics unless `0 ≤ lo ≤ hi ≤ len(s)`. -/
def slice? (s : List α) (lo hi : Int) : Option (List α) :=
  if 0 ≤ lo ∧ lo ≤ hi ∧ hi ≤ (s.length : Int) then some ((s.take hi.toNat).drop lo.toNat) else none

/-- `s[i]`; panics unless `0 ≤ i < len(s)`. -/
def idx? (s : List α) (i : Int) : Option α :=
  if 0 ≤ i then s[i.toNat]? else none

/-- `s[i] = v`; panics unless `0 ≤ i < len(s)`. -/
def setIdx? (s : List α) (i : Int) (v : α) : Option (List α) :=
  if 0 ≤ i ∧ i < (s.length : Int) then some (s.set i.toNat v) else none

/-- `make([]T, n)` with zero value `z`; panics on negative `n`. -/
def make? (z : α) (n : Int) : Option (List α) :=
  if 0 ≤ n then some (List.replicate n.toNat z) else none

/-- `copy(dst, src)`: the new contents of `dst` (the count is `min(len(dst), len(src))`). -/
def copyInto (dst src : List α) : List α :=
  src.take dst.length ++ dst.drop (min dst.length src.length)

/-- the values of `i` in `for i := range n` (Go 1.22): 0, 1, …, n-1 (none for n ≤ 0). -/
def rangeInt (n : Int) : List Int := (List.range n.toNat).map Int.ofNat

/-- `bytes.HasPrefix(s, prefix)` -/
def hasPrefix (s pre : Bytes) : Bool := s.take pre.length == pre

/-- `bytes.HasSuffix(s, suffix)` -/
def hasSuffix (s suf : Bytes) : Bool :=
  decide (suf.length ≤ s.length) && (s.drop (s.length - suf.length) == suf)

/-- `bytes.IndexByte(s, c)`; `-1` when absent. -/
def indexByte : Bytes → UInt8 → Int
  | [], _ => -1
  | x :: xs, c => if x = c then 0 else
      let r := indexByte xs c
      if r < 0 then -1 else r + 1

/-- `bytes.Index(s, sep)`; `-1` when absent. -/
def index : Bytes → Bytes → Int
  | [], sep => if sep.isEmpty then 0 else -1
  | x :: xs, sep => if hasPrefix (x :: xs) sep then 0 else
      let r := index xs sep
      if r < 0 then -1 else r + 1

/-- `bytes.TrimSuffix(s, suffix)` -/
def trimSuffix (s suf : Bytes) : Bytes :=
  if hasSuffix s suf then s.take (s.length - suf.length) else s

/-- `bytes.TrimPrefix(s, prefix)` -/
def trimPrefix (s pre : Bytes) : Bytes :=
  if hasPrefix s pre then s.drop pre.length else s

/-- `bytes.Replace(s, old, new, -1)` for non-empty `old`: left to right, non-overlapping. -/
def replaceAllAux (old new : Bytes) : Nat → Bytes → Bytes
  | 0, s => s
  | _, [] => []
  | fuel + 1, x :: xs =>
    if hasPrefix (x :: xs) old then new ++ replaceAllAux old new fuel ((x :: xs).drop old.length)
    else x :: replaceAllAux old new fuel xs

def replaceAll (s old new : Bytes) : Bytes := replaceAllAux old new s.length s

/-- result of a function that can end in a reported failure (`ts.Fatalf(msg)`: no return, no panic). -/
inductive Res (α : Type) where
  | ok (v : α)
  | fatal (msg : Bytes)
deriving Repr, DecidableEq

/-- a Go `error` value: `nil` or a message. -/
abbrev GoError := Option Bytes

end GIV.GoLib
