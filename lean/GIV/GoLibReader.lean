/-
  GIV.GoLibReader — the part of the translator's run-time library (`harness/internal/go2lean`) that
  gives `io.Reader` / `*bufio.Reader` a meaning (imports/read.go, preset "importsread").

  A reader IS the input that remains to be read (`Bytes`).  Trusted meaning, like the rest of GoLib:
    * the underlying reader never fails other than by running out — an I/O error other than io.EOF
      is outside the translation (the correspondence run exercises it against the implementation);
    * how the underlying reader cuts its input into pieces is invisible (bufio hides it);
    * `Peek(n)` / `Discard(n)` only for a literal 0 ≤ n ≤ 16 (no ErrBufferFull / ErrNegativeCount).
  Core Lean only.
-/
import GIV.GoLib

namespace GIV.GoLib
open GIV

/-- `io.EOF` (errors are compared by message; the translator checks that the messages of all the
sentinels a file compares are different). -/
def ioEOF : GoError := some [69, 79, 70]

/-- `(*bufio.Reader).ReadByte`: (byte, error, remaining input) — `(c, nil)` and one byte consumed,
or `(0, io.EOF)` at the end of the input. -/
def readerReadByte : Bytes → UInt8 × GoError × Bytes
  | [] => (0, ioEOF, [])
  | c :: rest => (c, none, rest)

/-- `(*bufio.Reader).Peek(n)`: the next `n` bytes without consuming them; when fewer are left, all
of them and io.EOF. -/
def readerPeek (b : Bytes) (n : Nat) : Bytes × GoError :=
  if n ≤ b.length then (b.take n, none) else (b, ioEOF)

/-- `(*bufio.Reader).Discard(n)` (results dropped): the next `n` bytes are skipped, fewer at the end. -/
def readerDiscard (b : Bytes) (n : Nat) : Bytes := b.drop n

end GIV.GoLib
