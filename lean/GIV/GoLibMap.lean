/-
  GIV.GoLibMap — run-time library of the Go→Lean translator (`harness/internal/go2lean`), part "maps":
  the trusted meaning of a LOCAL `m := make(map[string]int)` that the translated function only reads
  (`m[k]`), writes (`m[k] = v`) and tests with the comma-ok form (`v, ok := m[k]`).

  A Go map is a finite function from keys to values; the translation is the functional map
  `StrIntMap` = association list, newest binding first, last write wins.  `m[k]` of a missing key is
  the zero value 0 and never panics; `m[k] = v` never panics on a map made by `make` (a nil map is
  outside the subset).  The translator rejects every other use of the variable (as a value it would
  alias; `range` over a map has no fixed order; `len`, `delete`, `clear` are not modelled).
  Modelled, not verified — like everything in GoLib, exercised by the correspondence run through
  definitions proved equal to the generated ones.  Core Lean only.
-/
import GIV.GoLib

namespace GIV.GoLib
open GIV

/-- a Go `map[string]int`: the bindings, newest first. -/
abbrev StrIntMap := List (Bytes × Int)

/-- `make(map[string]int)` -/
def mapEmpty : StrIntMap := []

/-- the binding of `k`, if there is one (the newest wins). -/
def mapGet? : StrIntMap → Bytes → Option Int
  | [], _ => none
  | (k', v) :: r, k => if k = k' then some v else mapGet? r k

/-- `m[k]`: 0 for a missing key. -/
def mapGet (m : StrIntMap) (k : Bytes) : Int := (mapGet? m k).getD 0

/-- the `ok` of `v, ok := m[k]`. -/
def mapHas (m : StrIntMap) (k : Bytes) : Bool := (mapGet? m k).isSome

/-- `m[k] = v` -/
def mapSet (m : StrIntMap) (k : Bytes) (v : Int) : StrIntMap := (k, v) :: m

/-! the laws of a finite map (what "functional map" means) -/

theorem mapGet?_empty (k : Bytes) : mapGet? mapEmpty k = none := rfl

theorem mapGet?_set (m : StrIntMap) (k k' : Bytes) (v : Int) :
    mapGet? (mapSet m k v) k' = if k' = k then some v else mapGet? m k' := rfl

theorem mapGet_set_same (m : StrIntMap) (k : Bytes) (v : Int) : mapGet (mapSet m k v) k = v := by
  simp [mapGet, mapSet, mapGet?]

theorem mapGet_set_other (m : StrIntMap) (k k' : Bytes) (v : Int) (h : k' ≠ k) :
    mapGet (mapSet m k v) k' = mapGet m k' := by
  simp [mapGet, mapSet, mapGet?, h]

theorem mapHas_set (m : StrIntMap) (k k' : Bytes) (v : Int) :
    mapHas (mapSet m k v) k' = (decide (k' = k) || mapHas m k') := by
  by_cases h : k' = k <;> simp [mapHas, mapSet, mapGet?, h]

end GIV.GoLib
