/-
  GIV.Basic — byte strings and small helpers shared by all models.
  Core Lean only (no Mathlib): everything here is linked into the native model drivers.
-/

namespace GIV

/-- Go's `[]byte` / `string` contents. -/
abbrev Bytes := List UInt8

/-- ASCII literal to bytes (used only for literals in models). -/
def lit (s : String) : Bytes := s.toUTF8.toList

def NL : UInt8 := 10
def CR : UInt8 := 13

/-! ### hex line protocol -/

def hexDigit (n : UInt8) : Char :=
  if n < 10 then Char.ofNat (48 + n.toNat) else Char.ofNat (87 + n.toNat)

def toHex (b : Bytes) : String :=
  if b.isEmpty then "-" else
  String.ofList (b.flatMap fun (x : UInt8) => [hexDigit (x / 16), hexDigit (x % 16)])

def hexVal (c : Char) : Option UInt8 :=
  if '0' ≤ c ∧ c ≤ '9' then some (c.toNat - 48).toUInt8
  else if 'a' ≤ c ∧ c ≤ 'f' then some (c.toNat - 87).toUInt8
  else none

def fromHexAux : List Char → Option Bytes
  | [] => some []
  | [_] => none
  | a :: b :: rest => do
    let x ← hexVal a
    let y ← hexVal b
    let r ← fromHexAux rest
    pure ((x * 16 + y) :: r)

/-- `-` is the empty byte string; otherwise lower-case hex. -/
def fromHex (s : String) : Option Bytes :=
  if s == "-" then some [] else fromHexAux s.toList

end GIV
