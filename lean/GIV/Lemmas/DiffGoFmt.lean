/-
  GIV.Lemmas.DiffGoFmt — the translator's `%d` (GoLib.fmtInt, GIV/GoLibFmt.lean) is the model's own decimal
  printer (GIV.Diff.fmtInt), for every integer.
-/
import GIV.GoLibFmt
import GIV.Model.Diff

namespace GIV.Go.Diff
open GIV

theorem fmtNatAux_eq : ∀ (fuel n : Nat) (acc : Bytes), GoLib.fmtNatAux fuel n acc = GIV.Diff.natDigits fuel n acc := by
  intro fuel
  induction fuel with
  | zero => intro n acc; rfl
  | succ fuel ih =>
    intro n acc
    simp only [GoLib.fmtNatAux, GIV.Diff.natDigits]
    by_cases h : n < 10
    · have h1 : n / 10 = 0 := by omega
      have h2 : n % 10 = n := by omega
      simp [h, h1, h2]
    · have h1 : ¬ n / 10 = 0 := by omega
      simp only [h, h1, if_false]
      exact ih _ _

theorem fmtNat_eq (n : Nat) : GoLib.fmtNat n = GIV.Diff.fmtNat n := fmtNatAux_eq _ _ _

/-- `%d` of the translation = the model's decimal printer. -/
theorem fmtInt_eq (i : Int) : GoLib.fmtInt i = GIV.Diff.fmtInt i := by
  simp only [GoLib.fmtInt, GIV.Diff.fmtInt, fmtNat_eq]

end GIV.Go.Diff
