/-
  Lemmas for GIV.Model.TsLife §6: the waitOrStop transition system (waiter, stopper goroutine,
  process, abstract clock).  One inductive invariant `Inv`, preserved by every step; from it:
  no stuck state other than the final ones (no deadlock, no leaked goroutine, exactly one send
  and one receive), a bound on the length of every execution, the outcome attribution, the kill
  timing, and independence from the deadline of every execution in which the context does not fire.
-/
import GIV.Model.TsLifeDl

namespace GIV.TsLife
open GIV

/-! ### inversion of `step` -/

theorem step_some {c : Scn} {s s' : St} {l : Lbl} (h : step c s l = some s') :
    s.now ≤ l.time ∧ ∃ s1, stepCore c s l = some s1 ∧ s' = { s1 with now := l.time } := by
  unfold step at h
  split at h
  · rename_i hle
    split at h
    · rename_i s1 h1
      injection h with h
      exact ⟨hle, s1, h1, h.symm⟩
    · cases h
  · cases h

def Stopper.afterCtx : Stopper → Bool
  | .sel1 | .done => false
  | _ => true

def Stopper.signalled : Stopper → Bool
  | .sel2 _ _ | .kill _ | .sendErr _ => true
  | _ => false

def Stopper.preSignal : Stopper → Bool
  | .sel1 | .sig | .sendNil => true
  | _ => false

/-- the inductive invariant -/
structure Inv (c : Scn) (s : St) : Prop where
  j1 : s.s = .done ↔ ∃ v, s.w = .returned v
  j2 : s.sends = s.recvs ∧ s.sends = if s.s = .done then 1 else 0
  j3 : s.w ≠ .waiting → ∃ h, s.proc = .exited h
  j4 : s.s = .sendNil → ∃ h, s.proc = .exited h
  j5 : ∀ e pi pk, s.s = .sendErr e → killArmed c.killDelay = true → s.proc = .running pi pk → pk = true
  j6 : s.s.afterCtx = true → s.ctxDone = true
  j7 : s.s.signalled = true → s.sigAt.isSome = true
  j8 : s.s.preSignal = true → s.delivered = false ∧ s.killAt = none
  j9 : ∀ e, s.w = .returned (some e) → s.ctxDone = true ∧ s.sigAt.isSome = true
  j10 : s.w = .returned none → s.delivered = false ∧ s.killAt = none
  j11 : ∀ e st, s.s = .sel2 e st → s.sigAt = some st ∧ killArmed c.killDelay = true ∧ s.killAt = none
  j12 : ∀ e, s.s = .kill e → killArmed c.killDelay = true ∧ s.killAt = none ∧
          ∃ ti, s.sigAt = some ti ∧ (ti : Int) + c.killDelay ≤ (s.now : Int)
  j13 : ∀ tk, s.killAt = some tk → killArmed c.killDelay = true ∧
          ∃ ti, s.sigAt = some ti ∧ (ti : Int) + c.killDelay ≤ (tk : Int)
  j14 : ∀ h, s.proc = .exited h → (h = .own → c.mayExit = true) ∧
          (h = .bySig → c.onInt = true ∧ s.delivered = true) ∧ (h = .byKill → s.killAt.isSome = true)
  j15 : ∀ pi pk, s.proc = .running pi pk → (pi = true → s.delivered = true) ∧ (pk = true → s.killAt.isSome = true)
  j16 : s.delivered = true → s.ctxDone = true ∧ s.sigAt.isSome = true
  j17 : c.deadline = none → s.ctxDone = false

theorem inv_init (c : Scn) : Inv c St.init := by
  constructor <;> simp [St.init, Stopper.afterCtx, Stopper.signalled, Stopper.preSignal]

/-! per-label preservation; each proof first inverts `stepCore`, which fixes the control state. -/

section preserve
variable {c : Scn} {s s' : St}

theorem inv_ctxFire {t : Nat} (hi : Inv c s) (h : step c s (.ctxFire t) = some s') : Inv c s' := by
  obtain ⟨_, s1, h1, rfl⟩ := step_some h
  simp only [stepCore] at h1
  split at h1
  · rename_i d hd
    split at h1
    · injection h1 with h1; subst h1
      obtain ⟨j1, j2, j3, j4, j5, j6, j7, j8, j9, j10, j11, j12, j13, j14, j15, j16, j17⟩ := hi
      refine ⟨j1, j2, j3, j4, j5, ?_, j7, j8, ?_, j10, j11, ?_, j13, j14, j15, ?_, ?_⟩
      · intro _; rfl
      · intro e he; exact ⟨rfl, (j9 e he).2⟩
      · intro e he
        dsimp only at he
        have h6 := j6 (by simp [he, Stopper.afterCtx])
        rename_i hc; simp [h6] at hc
      · intro hd'; exact ⟨rfl, (j16 hd').2⟩
      · intro hn; simp [hd] at hn
    · cases h1
  · cases h1

theorem inv_exitOwn {t : Nat} (hi : Inv c s) (h : step c s (.exitOwn t) = some s') : Inv c s' := by
  obtain ⟨_, s1, h1, rfl⟩ := step_some h
  simp only [stepCore] at h1
  split at h1
  · rename_i pi pk hp
    split at h1
    · rename_i hm
      injection h1 with h1; subst h1
      obtain ⟨j1, j2, j3, j4, j5, j6, j7, j8, j9, j10, j11, j12, j13, j14, j15, j16, j17⟩ := hi
      refine ⟨j1, j2, fun _ => ⟨_, rfl⟩, fun _ => ⟨_, rfl⟩, ?_, j6, j7, j8, j9, j10, j11, ?_, j13, ?_, ?_, j16, j17⟩
      · intro e pi pk _ _ hr; cases hr
      · intro e he
        obtain ⟨a, b, ti, hti, hle⟩ := j12 e he
        exact ⟨a, b, ti, hti, by simp only at hle ⊢; omega⟩
      · intro h hh; injection hh with hh; subst hh; simp [hm]
      · intro pi pk hr; cases hr
    · cases h1
  · cases h1

theorem inv_exitSig {t : Nat} (hi : Inv c s) (h : step c s (.exitSig t) = some s') : Inv c s' := by
  obtain ⟨_, s1, h1, rfl⟩ := step_some h
  simp only [stepCore] at h1
  split at h1
  · rename_i pk hp
    split at h1
    · rename_i hm
      injection h1 with h1; subst h1
      obtain ⟨j1, j2, j3, j4, j5, j6, j7, j8, j9, j10, j11, j12, j13, j14, j15, j16, j17⟩ := hi
      have hd := (j15 true pk hp).1 rfl
      refine ⟨j1, j2, fun _ => ⟨_, rfl⟩, fun _ => ⟨_, rfl⟩, ?_, j6, j7, j8, j9, j10, j11, ?_, j13, ?_, ?_, j16, j17⟩
      · intro e pi pk _ _ hr; cases hr
      · intro e he
        obtain ⟨a, b, ti, hti, hle⟩ := j12 e he
        exact ⟨a, b, ti, hti, by simp only at hle ⊢; omega⟩
      · intro h hh; injection hh with hh; subst hh; simp [hm, hd]
      · intro pi pk hr; cases hr
    · cases h1
  · cases h1

theorem inv_exitKill {t : Nat} (hi : Inv c s) (h : step c s (.exitKill t) = some s') : Inv c s' := by
  obtain ⟨_, s1, h1, rfl⟩ := step_some h
  simp only [stepCore] at h1
  split at h1
  · rename_i pi hp
    injection h1 with h1; subst h1
    obtain ⟨j1, j2, j3, j4, j5, j6, j7, j8, j9, j10, j11, j12, j13, j14, j15, j16, j17⟩ := hi
    have hd := (j15 pi true hp).2 rfl
    refine ⟨j1, j2, fun _ => ⟨_, rfl⟩, fun _ => ⟨_, rfl⟩, ?_, j6, j7, j8, j9, j10, j11, ?_, j13, ?_, ?_, j16, j17⟩
    · intro e pi pk _ _ hr; cases hr
    · intro e he
      obtain ⟨a, b, ti, hti, hle⟩ := j12 e he
      exact ⟨a, b, ti, hti, by simp only at hle ⊢; omega⟩
    · intro h hh; injection hh with hh; subst hh; simp [hd]
    · intro pi pk hr; cases hr
  · cases h1

theorem inv_waitRet {t : Nat} (hi : Inv c s) (h : step c s (.waitRet t) = some s') : Inv c s' := by
  obtain ⟨_, s1, h1, rfl⟩ := step_some h
  simp only [stepCore] at h1
  split at h1
  · rename_i hh hw hp
    injection h1 with h1; subst h1
    obtain ⟨j1, j2, j3, j4, j5, j6, j7, j8, j9, j10, j11, j12, j13, j14, j15, j16, j17⟩ := hi
    refine ⟨?_, j2, fun _ => ⟨_, hp⟩, j4, j5, j6, j7, j8, ?_, ?_, j11, ?_, j13, j14, j15, j16, j17⟩
    · constructor
      · intro hd; obtain ⟨v, hv⟩ := j1.1 hd; rw [hw] at hv; cases hv
      · intro ⟨v, hv⟩; cases hv
    · intro e he; cases he
    · intro he; cases he
    · intro e he
      obtain ⟨a, b, ti, hti, hle⟩ := j12 e he
      exact ⟨a, b, ti, hti, by simp only at hle ⊢; omega⟩
  · cases h1

theorem inv_selCtx {t : Nat} (hi : Inv c s) (h : step c s (.selCtx t) = some s') : Inv c s' := by
  obtain ⟨_, s1, h1, rfl⟩ := step_some h
  simp only [stepCore] at h1
  split at h1
  · rename_i hs
    split at h1
    · rename_i hc
      injection h1 with h1; subst h1
      obtain ⟨j1, j2, j3, j4, j5, j6, j7, j8, j9, j10, j11, j12, j13, j14, j15, j16, j17⟩ := hi
      have h8 := j8 (by simp [hs, Stopper.preSignal])
      refine ⟨?_, ?_, j3, ?_, ?_, fun _ => hc, ?_, fun _ => h8, j9, j10, ?_, ?_, j13, j14, j15, j16, j17⟩
      · constructor
        · intro hd; cases hd
        · intro hv; have := j1.2 hv; rw [hs] at this; cases this
      · simpa [hs] using j2
      · intro hn; cases hn
      · intro e pi pk hn; cases hn
      · intro hn; simp [Stopper.signalled] at hn
      · intro e st hn; cases hn
      · intro e hn; cases hn
    · cases h1
  · cases h1

theorem inv_sendRecv {t : Nat} (hi : Inv c s) (h : step c s (.sendRecv t) = some s') : Inv c s' := by
  obtain ⟨_, s1, h1, rfl⟩ := step_some h
  simp only [stepCore] at h1
  split at h1
  · rename_i v hw ho
    injection h1 with h1; subst h1
    obtain ⟨j1, j2, j3, j4, j5, j6, j7, j8, j9, j10, j11, j12, j13, j14, j15, j16, j17⟩ := hi
    have hnd : s.s ≠ .done := by intro hd; rw [hd] at ho; simp [Stopper.offer] at ho
    have h3 := j3 (by rw [hw]; intro hh; cases hh)
    refine ⟨?_, ?_, fun _ => h3, ?_, ?_, ?_, ?_, ?_, ?_, ?_, ?_, ?_, j13, j14, j15, j16, j17⟩
    · exact ⟨fun _ => ⟨v, rfl⟩, fun _ => rfl⟩
    · have := j2; simp [hnd] at this; simp; omega
    · intro hn; cases hn
    · intro e pi pk hn; cases hn
    · intro hn; simp [Stopper.afterCtx] at hn
    · intro hn; simp [Stopper.signalled] at hn
    · intro hn; simp [Stopper.preSignal] at hn
    · -- a non-nil value was sent by sel2 or sendErr
      intro e he
      injection he with he; subst he
      cases hs : s.s <;> rw [hs] at ho <;> simp [Stopper.offer] at ho
      · exact ⟨j6 (by simp [hs, Stopper.afterCtx]), j7 (by simp [hs, Stopper.signalled])⟩
      · exact ⟨j6 (by simp [hs, Stopper.afterCtx]), j7 (by simp [hs, Stopper.signalled])⟩
    · intro he
      injection he with he; subst he
      cases hs : s.s <;> rw [hs] at ho <;> simp [Stopper.offer] at ho
      · exact j8 (by simp [hs, Stopper.preSignal])
      · exact j8 (by simp [hs, Stopper.preSignal])
    · intro e st hn; cases hn
    · intro e hn; cases hn
  · cases h1

theorem inv_timer {t : Nat} (hi : Inv c s) (h : step c s (.timer t) = some s') : Inv c s' := by
  obtain ⟨_, s1, h1, rfl⟩ := step_some h
  simp only [stepCore] at h1
  split at h1
  · rename_i e st hs
    split at h1
    · rename_i hle
      injection h1 with h1; subst h1
      obtain ⟨j1, j2, j3, j4, j5, j6, j7, j8, j9, j10, j11, j12, j13, j14, j15, j16, j17⟩ := hi
      obtain ⟨h11a, h11b, h11c⟩ := j11 e st hs
      have h6 := j6 (by simp [hs, Stopper.afterCtx])
      have h7 := j7 (by simp [hs, Stopper.signalled])
      refine ⟨?_, ?_, j3, ?_, ?_, fun _ => h6, fun _ => h7, ?_, j9, j10, ?_, ?_, j13, j14, j15, j16, j17⟩
      · constructor
        · intro hd; cases hd
        · intro hv; have := j1.2 hv; rw [hs] at this; cases this
      · simpa [hs] using j2
      · intro hn; cases hn
      · intro e pi pk hn; cases hn
      · intro hn; simp [Stopper.preSignal] at hn
      · intro e st hn; cases hn
      · intro e' _
        exact ⟨h11b, h11c, st, h11a, by simpa [Lbl.time] using hle⟩
    · cases h1
  · cases h1

theorem inv_kill {t : Nat} (hi : Inv c s) (h : step c s (.kill t) = some s') : Inv c s' := by
  obtain ⟨hnow, s1, h1, rfl⟩ := step_some h
  simp only [stepCore] at h1
  split at h1
  · rename_i e hs
    injection h1 with h1; subst h1
    obtain ⟨j1, j2, j3, j4, j5, j6, j7, j8, j9, j10, j11, j12, j13, j14, j15, j16, j17⟩ := hi
    obtain ⟨h12a, h12b, ti, hti, hle⟩ := j12 e hs
    have h6 := j6 (by simp [hs, Stopper.afterCtx])
    have h7 := j7 (by simp [hs, Stopper.signalled])
    have hw : ∀ v, s.w ≠ .returned v := by
      intro v hv; have := j1.2 ⟨v, hv⟩; rw [hs] at this; cases this
    simp only [Lbl.time] at hnow
    refine ⟨?_, ?_, ?_, ?_, ?_, fun _ => h6, fun _ => h7, ?_, ?_, ?_, ?_, ?_, ?_, ?_, ?_, j16, j17⟩
    · constructor
      · intro hd; cases hd
      · intro ⟨v, hv⟩; exact absurd hv (hw v)
    · simpa [hs] using j2
    · intro hne
      obtain ⟨hh, hp⟩ := j3 hne
      exact ⟨hh, by simp [hp]⟩
    · intro hn; cases hn
    · intro e' pi pk _ _ hr
      cases hp : s.proc with
      | running a b => simp [hp] at hr; exact hr.2
      | exited hh => simp [hp] at hr
    · intro hn; simp [Stopper.preSignal] at hn
    · intro e' he; exact absurd he (hw _)
    · intro he; exact absurd he (hw _)
    · intro e' st hn; cases hn
    · intro e' hn; cases hn
    · intro tk htk
      injection htk with htk; subst htk
      exact ⟨h12a, ti, hti, by omega⟩
    · intro hh hp
      cases hq : s.proc with
      | running a b => simp [hq] at hp
      | exited h0 =>
        simp [hq] at hp; subst hp
        obtain ⟨a, b, c'⟩ := j14 h0 hq
        exact ⟨a, b, fun _ => rfl⟩
    · intro pi pk hp
      cases hq : s.proc with
      | running a b =>
        simp [hq] at hp
        obtain ⟨rfl, rfl⟩ := hp
        exact ⟨(j15 a b hq).1, fun _ => rfl⟩
      | exited h0 => simp [hq] at hp
  · cases h1

theorem inv_signal {t : Nat} {r : SigRes} (hi : Inv c s) (h : step c s (.signal t r) = some s') : Inv c s' := by
  obtain ⟨hnow, s1, h1, rfl⟩ := step_some h
  simp only [stepCore] at h1
  split at h1
  · rename_i hs
    obtain ⟨j1, j2, j3, j4, j5, j6, j7, j8, j9, j10, j11, j12, j13, j14, j15, j16, j17⟩ := hi
    have h6 := j6 (by simp [hs, Stopper.afterCtx])
    obtain ⟨h8a, h8b⟩ := j8 (by simp [hs, Stopper.preSignal])
    have hw : ∀ v, s.w ≠ .returned v := by
      intro v hv; have := j1.2 ⟨v, hv⟩; rw [hs] at this; cases this
    have j2' : s.sends = s.recvs ∧ s.sends = 0 := by simpa [hs] using j2
    -- the three ways of going on after the call
    have key : ∀ (e : SErr) (p : Proc) (d : Bool),
        (∀ hh, s.proc = .exited hh → p = .exited hh) →
        (∀ a b, s.proc = .running a b → p = .running (a || d) b ∧ (d = true ∨ True)) →
        (∀ hh, p = .exited hh → s.proc = .exited hh) →
        (∀ a b, p = .running a b → ∃ a', s.proc = .running a' b ∧ (a = true → a' = true ∨ d = true)) →
        Inv c { s with now := t, proc := p, delivered := s.delivered || d, sigAt := some t, s := afterSignal c e t } := by
      intro e p d hpe hpr hpe' hpr'
      have hne : afterSignal c e t ≠ .done := by unfold afterSignal; split <;> simp
      refine ⟨?_, ?_, ?_, ?_, ?_, fun _ => h6, fun _ => rfl, ?_, ?_, ?_, ?_, ?_, ?_, ?_, ?_, ?_, j17⟩
      · constructor
        · intro hd; exact absurd hd hne
        · intro ⟨v, hv⟩; exact absurd hv (hw v)
      · simp [hne, j2'.1.symm, j2'.2]
      · intro hne'
        obtain ⟨hh, hp⟩ := j3 hne'
        exact ⟨hh, hpe hh hp⟩
      · intro hn; unfold afterSignal at hn; split at hn <;> cases hn
      · intro e' pi pk hn ha
        unfold afterSignal at hn; simp [ha] at hn
      · intro hn; unfold afterSignal at hn; split at hn <;> simp [Stopper.preSignal] at hn
      · intro e' he; exact absurd he (hw _)
      · intro he; exact absurd he (hw _)
      · intro e' st hn
        unfold afterSignal at hn
        split at hn
        · rename_i ha
          injection hn with _ hst; subst hst
          exact ⟨rfl, ha, h8b⟩
        · cases hn
      · intro e' hn; unfold afterSignal at hn; split at hn <;> cases hn
      · intro tk htk; simp [h8b] at htk
      · intro hh hp
        obtain ⟨a, b, c'⟩ := j14 hh (hpe' hh hp)
        refine ⟨a, ?_, ?_⟩
        · intro hb; obtain ⟨x, y⟩ := b hb; exact ⟨x, by simp [y]⟩
        · intro hk; have := c' hk; simp [h8b] at this
      · intro a b hp
        obtain ⟨a', hp', ha⟩ := hpr' a b hp
        obtain ⟨x, y⟩ := j15 a' b hp'
        refine ⟨?_, ?_⟩
        · intro hat
          rcases ha hat with h | h
          · simp [x h]
          · simp [h]
        · intro hb; have := y hb; simp [h8b] at this
      · intro _; exact ⟨h6, rfl⟩
    split at h1
    · -- running, ok: delivered
      rename_i a pk hp
      injection h1 with h1; subst h1
      have := key .ctxErr (.running true pk) true
        (by intro hh hq; rw [hp] at hq; cases hq)
        (by intro a' b' hq; rw [hp] at hq; injection hq with h1 h2; subst h1; subst h2; simp)
        (by intro hh hq; cases hq)
        (by intro a' b' hq; injection hq with h1 h2; subst h1; subst h2; exact ⟨a, hp, fun _ => Or.inr rfl⟩)
      simpa [Lbl.time] using this
    · -- running, other error: not delivered
      rename_i a pk hp
      injection h1 with h1; subst h1
      have := key .other s.proc false
        (by intro hh hq; exact hq)
        (by intro a' b' hq; simp [hq])
        (by intro hh hq; exact hq)
        (by intro a' b' hq; exact ⟨a', hq, fun h => Or.inl h⟩)
      simpa [Lbl.time, h8a] using this
    · cases h1
    · -- exited, ok (no effect)
      rename_i hh hp
      injection h1 with h1; subst h1
      have := key .ctxErr s.proc false
        (by intro hh hq; exact hq)
        (by intro a' b' hq; simp [hq])
        (by intro hh hq; exact hq)
        (by intro a' b' hq; exact ⟨a', hq, fun h => Or.inl h⟩)
      simpa [Lbl.time, h8a] using this
    · -- exited, ErrProcessDone: send nil
      rename_i hh hp
      injection h1 with h1; subst h1
      refine ⟨?_, ?_, j3, fun _ => ⟨hh, hp⟩, ?_, fun _ => h6, ?_, fun _ => ⟨h8a, h8b⟩, ?_, ?_, ?_, ?_, ?_, j14, j15, ?_, j17⟩
      · constructor
        · intro hd; cases hd
        · intro ⟨v, hv⟩; exact absurd hv (hw v)
      · simp [j2'.1.symm, j2'.2]
      · intro e pi pk hn; cases hn
      · intro hn; simp [Stopper.signalled] at hn
      · intro e he; exact absurd he (hw _)
      · intro he; exact absurd he (hw _)
      · intro e st hn; cases hn
      · intro e hn; cases hn
      · intro tk htk; simp [h8b] at htk
      · intro hd; simp [h8a] at hd
    · cases h1
  · cases h1

theorem inv_step {l : Lbl} (hi : Inv c s) (h : step c s l = some s') : Inv c s' := by
  cases l with
  | ctxFire t => exact inv_ctxFire hi h
  | exitOwn t => exact inv_exitOwn hi h
  | exitSig t => exact inv_exitSig hi h
  | exitKill t => exact inv_exitKill hi h
  | waitRet t => exact inv_waitRet hi h
  | sendRecv t => exact inv_sendRecv hi h
  | selCtx t => exact inv_selCtx hi h
  | signal t r => exact inv_signal hi h
  | timer t => exact inv_timer hi h
  | kill t => exact inv_kill hi h

end preserve

theorem inv_run {c : Scn} : ∀ (ls : List Lbl) {s s' : St}, Inv c s → runLbls c s ls = some s' → Inv c s'
  | [], s, s', hi, h => by simp [runLbls] at h; subst h; exact hi
  | l :: rest, s, s', hi, h => by
    simp only [runLbls] at h
    split at h
    · cases h
    · rename_i s1 h1
      exact inv_run rest (inv_step hi h1) h

theorem inv_reach {c : Scn} {ls : List Lbl} {s : St} (h : runLbls c St.init ls = some s) : Inv c s :=
  inv_run ls (inv_init c) h

end GIV.TsLife
