/-
  GIV.Lemmas.CacheTrim — extensional characterisation of the sweep of `Trim`
  (256 × `trimSubdir`, each a loop over the directory listing) and of the due test.  Core Lean only.
-/
import GIV.Lemmas.CacheFS

namespace GIV.Cache
open GIV

/-- `none` when `c` holds, otherwise `o` (a classical `if`, used to state what a sweep leaves of a file). -/
noncomputable def keepUnless (c : Prop) (o : Option File) : Option File :=
  @ite _ c (Classical.propDecidable c) none o

theorem keepUnless_pos {c : Prop} (h : c) (o : Option File) : keepUnless c o = none := by
  unfold keepUnless; exact @if_pos _ (Classical.propDecidable c) h _ _ _

theorem keepUnless_neg {c : Prop} (h : ¬ c) (o : Option File) : keepUnless c o = o := by
  unfold keepUnless; exact @if_neg _ (Classical.propDecidable c) h _ _ _

theorem keepUnless_none (c : Prop) : keepUnless c none = none := by
  unfold keepUnless; exact @ite_self _ c (Classical.propDecidable c) none

theorem keepUnless_congr {c c' : Prop} (h : c ↔ c') (o : Option File) : keepUnless c o = keepUnless c' o := by
  have : c = c' := propext h
  rw [this]

/-! ### removing loops -/

/-- the removal test of `trimSubdir` on the result of `os.Stat`. -/
def stale (cutoff : Int) : Option File → Bool
  | some f => Gen.Cache.trimRemove true f.mtime cutoff
  | none => Gen.Cache.trimRemove false 0 cutoff

theorem stale_some_iff (cutoff : Int) (f : File) : stale cutoff (some f) = true ↔ f.mtime < cutoff := by
  simp [stale, Gen.Cache.trimRemove]

theorem stale_none (cutoff : Int) : stale cutoff none = false := by
  simp [stale, Gen.Cache.trimRemove]

/-- A loop whose every iteration removes the files selected by `Q x` that are stale, and nothing else,
removes exactly the stale files selected by some element. -/
theorem foldl_remove_get {ι : Type} (cutoff : Int) (step : FS → ι → FS) (Q : ι → Bytes → Prop)
    (hstep : ∀ fs x p, (step fs x).get p = keepUnless (Q x p ∧ stale cutoff (fs.get p) = true) (fs.get p))
    (L : List ι) : ∀ (fs : FS) (p : Bytes),
    (L.foldl step fs).get p = keepUnless ((∃ x ∈ L, Q x p) ∧ stale cutoff (fs.get p) = true) (fs.get p) := by
  induction L with
  | nil => intro fs p; rw [keepUnless_neg (by simp)]; rfl
  | cons x rest ih =>
    intro fs p
    simp only [List.foldl_cons]
    rw [ih (step fs x) p, hstep fs x p]
    by_cases hs : stale cutoff (fs.get p) = true
    · by_cases hq : Q x p
      · have hin : keepUnless (Q x p ∧ stale cutoff (fs.get p) = true) (fs.get p) = none := keepUnless_pos ⟨hq, hs⟩ _
        have h1 : (∃ y ∈ x :: rest, Q y p) := ⟨x, by simp, hq⟩
        rw [hin, keepUnless_none, keepUnless_pos ⟨h1, hs⟩]
      · have hin : keepUnless (Q x p ∧ stale cutoff (fs.get p) = true) (fs.get p) = fs.get p := keepUnless_neg (fun h => hq h.1) _
        rw [hin]
        apply keepUnless_congr
        constructor
        · rintro ⟨⟨y, hy, hqy⟩, h⟩; exact ⟨⟨y, by simp [hy], hqy⟩, h⟩
        · rintro ⟨⟨y, hy, hqy⟩, h⟩
          simp only [List.mem_cons] at hy
          rcases hy with rfl | hy
          · exact absurd hqy hq
          · exact ⟨⟨y, hy, hqy⟩, h⟩
    · have hin : keepUnless (Q x p ∧ stale cutoff (fs.get p) = true) (fs.get p) = fs.get p := keepUnless_neg (fun h => hs h.2) _
      rw [hin, keepUnless_neg (fun h => hs h.2), keepUnless_neg (fun h => hs h.2)]

/-! ### one subdirectory -/

/-- the name is a cache entry for `trimSubdir` (not skipped by the suffix filter). -/
def entryName (name : Bytes) : Prop := Gen.Cache.trimSkipName hasSuffix name = false

theorem entryName_iff (name : Bytes) : entryName name ↔ (hasSuffix name [45, 97] = true ∨ hasSuffix name [45, 100] = true) := by
  simp only [entryName, Gen.Cache.trimSkipName]
  cases hasSuffix name [45, 97] <;> cases hasSuffix name [45, 100] <;> simp

theorem trimStep_get (sub : Bytes) (cutoff : Int) (fs : FS) (name p : Bytes) :
    (trimStep sub cutoff fs name).get p =
      keepUnless ((p = sub ++ [slash] ++ name ∧ entryName name) ∧ stale cutoff (fs.get p) = true) (fs.get p) := by
  unfold trimStep
  by_cases hskip : Gen.Cache.trimSkipName hasSuffix name = true
  · have : ¬ entryName name := by simp [entryName, hskip]
    rw [keepUnless_neg (fun h => this h.1.2)]
    simp [hskip]
  · have he : entryName name := by simpa [entryName] using hskip
    simp only [hskip, Bool.false_eq_true, if_false]
    cases hget : fs.get (sub ++ [slash] ++ name) with
    | none =>
      have hf : Gen.Cache.trimRemove false 0 cutoff = false := by simp [Gen.Cache.trimRemove]
      simp only [hf, Bool.false_eq_true, if_false]
      rw [keepUnless_neg]
      rintro ⟨⟨hp, _⟩, hs⟩
      rw [hp, hget, stale_none] at hs
      cases hs
    | some f =>
      simp only []
      by_cases hr : Gen.Cache.trimRemove true f.mtime cutoff = true
      · simp only [hr, if_true, FS.get_erase]
        by_cases hp : p = sub ++ [slash] ++ name
        · rw [keepUnless_pos ⟨⟨hp, he⟩, by rw [hp, hget]; exact hr⟩, if_pos hp]
        · rw [keepUnless_neg (fun h => hp h.1.1), if_neg hp]
      · simp only [hr, Bool.false_eq_true, if_false]
        rw [keepUnless_neg]
        rintro ⟨⟨hp, _⟩, hs⟩
        rw [hp, hget] at hs
        exact hr hs

theorem mem_listDir (fs : FS) (sub name : Bytes) :
    name ∈ listDir fs sub ↔ (sub ++ [slash] ++ name) ∈ fs.names ∧ name ≠ [] ∧ slash ∉ name := by
  simp only [listDir, List.mem_filterMap]
  constructor
  · rintro ⟨p, hp, hg⟩
    split at hg
    · rename_i hpre
      split at hg
      · cases hg
      · rename_i hne
        simp only [Option.some.injEq] at hg
        have hpre' := List.isPrefixOf_iff_prefix.mp hpre
        obtain ⟨t, ht⟩ := hpre'
        have hdrop : p.drop (sub.length + 1) = t := by
          rw [← ht]; simp
        rw [hdrop] at hg hne
        subst hg
        simp only [Bool.or_eq_true, List.isEmpty_iff, List.contains_eq_mem, decide_eq_true_eq, not_or] at hne
        refine ⟨by rw [ht]; exact hp, hne.1, hne.2⟩
    · cases hg
  · rintro ⟨hp, hne, hns⟩
    refine ⟨sub ++ [slash] ++ name, hp, ?_⟩
    have hpre : (sub ++ [slash]).isPrefixOf (sub ++ [slash] ++ name) = true :=
      List.isPrefixOf_iff_prefix.mpr ⟨name, rfl⟩
    have hdrop : (sub ++ [slash] ++ name).drop (sub.length + 1) = name := by simp
    simp only [hpre, if_true, hdrop]
    simp [hne, hns]

/-- `p` is directly inside `sub` and its base name is a cache-entry name. -/
def inSubdir (sub p : Bytes) : Prop :=
  ∃ name, p = sub ++ [slash] ++ name ∧ name ≠ [] ∧ slash ∉ name ∧ entryName name

theorem stale_isSome {cutoff : Int} {o : Option File} (h : stale cutoff o = true) : o.isSome = true := by
  cases o with
  | none => rw [stale_none] at h; cases h
  | some f => rfl

theorem trimSubdir_get (fs : FS) (sub : Bytes) (cutoff : Int) (p : Bytes) :
    (trimSubdir fs sub cutoff).get p = keepUnless (inSubdir sub p ∧ stale cutoff (fs.get p) = true) (fs.get p) := by
  unfold trimSubdir
  rw [foldl_remove_get cutoff (trimStep sub cutoff) (fun name p => p = sub ++ [slash] ++ name ∧ entryName name)
    (fun fs x p => trimStep_get sub cutoff fs x p)]
  apply keepUnless_congr
  constructor
  · rintro ⟨⟨x, hx, hp, he⟩, hs⟩
    obtain ⟨_, hne, hns⟩ := (mem_listDir fs sub x).mp hx
    exact ⟨⟨x, hp, hne, hns, he⟩, hs⟩
  · rintro ⟨⟨x, hp, hne, hns, he⟩, hs⟩
    have hin : p ∈ fs.names := (FS.get_isSome_iff_mem_names fs p).mp (stale_isSome hs)
    exact ⟨⟨x, (mem_listDir fs sub x).mpr ⟨hp ▸ hin, hne, hns⟩, hp, he⟩, hs⟩

/-! ### all subdirectories -/

/-- `p` is a cache entry file as far as `Trim` is concerned: a `-a`/`-d` name directly inside one of the
`trimSubdirs` subdirectories. -/
def sweepCandidate (p : Bytes) : Prop := ∃ i, i < Gen.Cache.trimSubdirs ∧ inSubdir (subdirName i) p

theorem trimSweep_get (fs : FS) (cutoff : Int) (p : Bytes) :
    (trimSweep fs cutoff).get p = keepUnless (sweepCandidate p ∧ stale cutoff (fs.get p) = true) (fs.get p) := by
  unfold trimSweep
  rw [foldl_remove_get cutoff (fun fs i => trimSubdir fs (subdirName i) cutoff) (fun i p => inSubdir (subdirName i) p)
    (fun fs i p => trimSubdir_get fs (subdirName i) cutoff p)]
  apply keepUnless_congr
  simp [sweepCandidate, List.mem_range]

/-! ### the statement's notion of a cache entry path -/

def lowerHex (c : UInt8) : Bool := (48 ≤ c && c ≤ 57) || (97 ≤ c && c ≤ 102)

/-- a name ending in `-a` or `-d`, directly inside a subdirectory named by two lower-case hex digits. -/
def isEntryPath : Bytes → Bool
  | a :: b :: c :: name =>
    lowerHex a && lowerHex b && c == 47 && !name.contains 47 &&
      ((([45, 97] : Bytes).isSuffixOf name) || (([45, 100] : Bytes).isSuffixOf name))
  | _ => false

set_option maxRecDepth 100000 in
theorem subdirName_lowerHex_aux : ∀ i : Nat, i < 256 →
    (match subdirName i with
     | [a, b] => lowerHex a && lowerHex b
     | _ => false) = true := by
  decide

theorem subdirName_lowerHex (i : Nat) (hi : i < 256) :
    ∃ a b, subdirName i = [a, b] ∧ lowerHex a = true ∧ lowerHex b = true := by
  have h := subdirName_lowerHex_aux i hi
  split at h
  · rename_i a b hab
    simp only [Bool.and_eq_true] at h
    exact ⟨a, b, hab, h.1, h.2⟩
  · cases h

set_option maxRecDepth 100000 in
theorem lowerHex_digit : ∀ n : Nat, n < 256 → lowerHex (UInt8.ofNat n) = true →
    ∃ x : Nat, x < 16 ∧ hexDigit (UInt8.ofNat x) = UInt8.ofNat n := by
  decide

set_option maxRecDepth 100000 in
theorem subdirName_digits : ∀ x : Nat, x < 16 → ∀ y : Nat, y < 16 →
    subdirName (16 * x + y) = [hexDigit (UInt8.ofNat x), hexDigit (UInt8.ofNat y)] := by
  decide

theorem lowerHex_subdir (a b : UInt8) (ha : lowerHex a = true) (hb : lowerHex b = true) :
    ∃ i, i < 256 ∧ subdirName i = [a, b] := by
  have ha' := lowerHex_digit a.toNat (UInt8.toNat_lt a) (by simpa using ha)
  have hb' := lowerHex_digit b.toNat (UInt8.toNat_lt b) (by simpa using hb)
  obtain ⟨x, hx, hxa⟩ := ha'
  obtain ⟨y, hy, hyb⟩ := hb'
  refine ⟨16 * x + y, by omega, ?_⟩
  rw [subdirName_digits x hx y hy, hxa, hyb]
  simp

theorem sweepCandidate_iff (p : Bytes) : sweepCandidate p ↔ isEntryPath p = true := by
  have h256 : Gen.Cache.trimSubdirs = 256 := by decide
  constructor
  · rintro ⟨i, hi, name, hp, hne, hns, he⟩
    rw [h256] at hi
    obtain ⟨a, b, hab, ha, hb⟩ := subdirName_lowerHex i hi
    rw [hab] at hp
    subst hp
    rw [entryName_iff] at he
    simp only [hasSuffix] at he
    simp only [List.cons_append, List.nil_append, isEntryPath, ha, hb, slash, Bool.and_self, beq_self_eq_true, Bool.true_and]
    have : name.contains 47 = false := by simpa [slash] using hns
    simp only [this, Bool.not_false, Bool.true_and, Bool.or_eq_true]
    exact he
  · intro h
    match p, h with
    | a :: b :: c :: name, h =>
      simp only [isEntryPath, Bool.and_eq_true, Bool.or_eq_true, beq_iff_eq, Bool.not_eq_true', List.contains_eq_mem,
        decide_eq_false_iff_not] at h
      obtain ⟨⟨⟨⟨ha, hb⟩, hc⟩, hns⟩, hsuf⟩ := h
      obtain ⟨i, hi, hab⟩ := lowerHex_subdir a b ha hb
      refine ⟨i, by rw [h256]; exact hi, name, ?_, ?_, ?_, ?_⟩
      · rw [hab, hc]; simp [slash]
      · intro hn; subst hn; simp at hsuf
      · simpa [slash] using hns
      · rw [entryName_iff]; simpa [hasSuffix] using hsuf

/-! ### the trim record -/

/-- The trim record is the plain decimal Unix time (format `"%d"`). -/
theorem trimRecord_eq (now : Int) : trimRecord now = fmtInt (unixOf now) := by
  simp [trimRecord, sprintf, sprintfGo, Gen.Cache.trimFormat, padLeft]


/-! ### the due test -/

theorem wrap64_id (x : Int) (h0 : -(2 ^ 63) ≤ x) (h1 : x < 2 ^ 63) : wrap64 x = x := by
  unfold wrap64
  omega

theorem timeUnixSec_small (t : Int) (h0 : -(2 ^ 62) ≤ t) (h1 : t < 2 ^ 62) :
    timeUnixSec t = t * 1000000000 := by
  unfold timeUnixSec
  rw [wrap64_id _ (by unfold unixToInternal; omega) (by unfold unixToInternal; omega)]
  have : Gen.Cache.second = 1000000000 := by decide
  rw [this]; omega

theorem durSub_exact (a b : Int) (h0 : -(2 ^ 63) ≤ a - b) (h1 : a - b < 2 ^ 63) : durSub a b = a - b := by
  unfold durSub minDuration maxDuration
  simp only []
  split
  · omega
  · split
    · omega
    · rfl


/-- saturation does not move a `Duration` across a threshold that is itself a `Duration`. -/
theorem durSub_lt_iff (a b c : Int) (h0 : -(2 ^ 63) < c) (h1 : c < 2 ^ 63) : durSub a b < c ↔ a - b < c := by
  unfold durSub minDuration maxDuration
  simp only []
  split
  · omega
  · split
    · omega
    · rfl

theorem durSub_gt_iff (a b c : Int) (h0 : -(2 ^ 63) ≤ c) (h1 : c < 2 ^ 63 - 1) : durSub a b > c ↔ a - b > c := by
  unfold durSub minDuration maxDuration
  simp only []
  split
  · omega
  · split
    · omega
    · rfl

end GIV.Cache
