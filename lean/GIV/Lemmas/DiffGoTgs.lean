/-
  GIV.Lemmas.DiffGoTgs — the Go→Lean translation of `tgs` (GIV.Gen.DiffGo, regenerated from /repo on every run)
  equals the model's `tgs`, for all line lists.
-/
import GIV.Lemmas.DiffGoTgsA
import GIV.Lemmas.DiffGoTgsB

namespace GIV.Go.Diff
open GIV GIV.GoLib GIV.Diff

theorem tgs_eq_tail (x y : List Bytes) :
    GIV.Diff.tgs x y = tgsTail x.length y.length
      (gatherX x 0 (gatherY y 0 (countY y (countX x [])) #[]).1 #[] #[]).1
      (gatherY y 0 (countY y (countX x [])) #[]).2
      (gatherX x 0 (gatherY y 0 (countY y (countX x [])) #[]).1 #[] #[]).2 := by
  rfl

/-- The translated `tgs` is the model's `tgs` (pairs of Ints for pairs of Nats), panics included. -/
theorem go_tgs_eq (x y : List Bytes) :
    GIV.Go.Diff.tgs x y = (GIV.Diff.tgs x y).map (List.map ofPair) := by
  rw [tgs_front_eq, tgs_eq_tail]
  exact tgs_after4_eq x y _ _ _ _ (gatherX_sizes _ _ _ _ _ rfl)

end GIV.Go.Diff
