/-
  C18 — the main theorem: on every header of the grammar followed by an admissible tail,
  ReadImports returns exactly the header's imports, no error, and the input up to (not
  including) the first byte of the next declaration.
-/
import GIV.Lemmas.ImportsReadRun3

namespace GIV.C18
open GIV GIV.ReadImports GIV.Gen.Imports

theorem Decl.render_length (d : Decl) : 1 ≤ d.render.length := by
  obtain ⟨r, hr⟩ := Decl.render_head d
  rw [hr]; simp

theorem renderDecls_length (ds : List (Sp × Decl)) : ds.length ≤ (renderDecls ds).length := by
  induction ds with
  | nil => simp
  | cons x xs ih =>
    rw [renderDecls_cons]
    have := Decl.render_length x.2
    simp; omega

theorem init_eq (data : Bytes) : St.init data = G data [] 0 [] := rfl

theorem scan_run (h : Header) (hw : h.WF = true) (tsp : Sp) (e : Ending) (ht : tsp.WF = true) (he : e.OK)
    (hi : ∀ d tl, e = .byte d tl → d ≠ 105) (hsepar : h.decls = [] → tsp = [] → ∀ d tl, e ≠ .byte d tl) :
    scan (h.body ++ renderSp tsp ++ e.bytes) =
      (peekResult e ((renderSp tsp).reverse ++ h.body.reverse) h.importsOf).2 := by
  obtain ⟨bom, pre, sep, name, decls⟩ := h
  simp only [Header.WF, Bool.and_eq_true, Bool.not_eq_true', List.isEmpty_eq_false_iff] at hw
  obtain ⟨⟨⟨⟨⟨hpre, hsep⟩, hsepne⟩, hname⟩, hdecls⟩, hfirst⟩ := hw
  simp only at hsepar
  have hkw : noNul kwPackageBytes = true := by decide
  have hk0 : ∃ k ks, kwPackageBytes = k :: ks ∧ solid k :=
    ⟨112, _, rfl, ⟨by decide, by decide, by decide⟩⟩
  obtain ⟨A, hA⟩ : ∃ A, A = renderDecls decls ++ renderSp tsp ++ e.bytes := ⟨_, rfl⟩
  obtain ⟨x, r, hxr, hx⟩ := sp_head_nid sep hsep (name ++ A) (fun h0 => absurd h0 hsepne) (Or.inl hsepne)
  have hdata : (Header.mk bom pre sep name decls).body ++ renderSp tsp ++ e.bytes =
      renderSp pre ++ kwPackageBytes ++ x :: r := by
    rw [← hxr, hA]; simp [Header.body]
  unfold scan
  rw [hdata, init_eq, kwPackage_eq]
  rw [readKeyword_run kwPackageBytes _ pre x r [] [] (Rep.plain _ _ _) hpre hkw hk0 hx.1 hx.2]
  simp only [List.cons_append, List.append_nil]
  obtain ⟨B, hB⟩ : ∃ B, B = kwPackageBytes.reverse ++ (renderSp pre).reverse := ⟨_, rfl⟩
  rw [← hB]
  have hrep : Rep (G r (x :: B) x []) (renderSp sep ++ name ++ A) B [] := by
    have := Rep.peeked x r B [] hx.1
    rw [← hxr] at this
    simpa using this
  cases hAc : A with
  | nil =>
    -- nothing after the package name
    rw [hAc] at hrep
    have hparts : renderDecls decls = [] ∧ renderSp tsp = [] ∧ e.bytes = [] := by
      have := hA.symm.trans hAc
      simp only [List.append_eq_nil_iff] at this
      exact ⟨this.1.1, this.1.2, this.2⟩
    have hd0 : decls = [] := by
      cases decls with
      | nil => rfl
      | cons y ys =>
        have := renderDecls_length (y :: ys)
        rw [hparts.1] at this
        simp at this
    have ht0 : tsp = [] := renderSp_eq_nil _ hparts.2.1
    have he0 : e = .eof := by
      cases e with
      | eof => rfl
      | byte d tl => simp [Ending.bytes] at hparts
      | comment body => simp [Ending.bytes] at hparts
    subst hd0 ht0 he0
    rw [readIdent_run_eof _ sep name B [] (by simpa using hrep) hsep hname]
    rw [declLoop_succ, peekByte_E]
    simp only [peekResult, renderSp_nil, List.reverse_nil, List.nil_append, Header.importsOf,
      List.flatMap_nil]
    have e1 : ((0 : UInt8) = 105) = False := by decide
    simp only [e1, if_false]
    rw [hB]
    simp [Header.body, renderDecls]
  | cons y A' =>
    have hy : nid y := by
      cases decls with
      | nil =>
        cases tsp with
        | nil =>
          rw [hA] at hAc
          cases e with
          | eof => simp [renderDecls, Ending.bytes] at hAc
          | byte d tl => exact absurd rfl (hsepar rfl rfl d tl)
          | comment body =>
            simp [renderDecls, Ending.bytes] at hAc
            rw [← hAc.1]; exact ⟨by decide, by decide⟩
        | cons it tsp' =>
          obtain ⟨y', r', h1, h2⟩ := sp_head_nid (it :: tsp') ht e.bytes (fun h0 => by simp at h0) (Or.inl (by simp))
          rw [hA] at hAc
          simp only [renderDecls, List.flatMap_nil, List.nil_append] at hAc
          rw [hAc] at h1
          simp only [List.cons.injEq] at h1
          rw [h1.1]; exact h2
      | cons d ds =>
        obtain ⟨sp, dd⟩ := d
        have hfirst : sp ≠ [] := by
          intro h0; subst h0; simp at hfirst
        simp only [List.all_cons, Bool.and_eq_true] at hdecls
        obtain ⟨y', r', h1, h2⟩ := sp_head_nid sp hdecls.1.1 (dd.render ++ renderDecls ds ++ renderSp tsp ++ e.bytes)
          (fun h0 => absurd h0 hfirst) (Or.inl hfirst)
        rw [hA] at hAc
        simp only [renderDecls_cons, List.append_assoc] at hAc h1
        rw [hAc] at h1
        simp only [List.cons.injEq] at h1
        rw [h1.1]; exact h2
    rw [hAc] at hrep
    rw [readIdent_run _ sep name y A' B [] hrep hsep hname hy.1 hy.2]
    have hrep2 : Rep (G A' (y :: name.reverse ++ (renderSp sep).reverse ++ B) y [])
        (renderDecls decls ++ renderSp tsp ++ e.bytes) (name.reverse ++ (renderSp sep).reverse ++ B) [] := by
      have := Rep.peeked y A' (name.reverse ++ (renderSp sep).reverse ++ B) [] hy.1
      rw [← hAc, hA] at this
      simpa using this
    have hfuel : decls.length + 1 ≤ (renderSp pre ++ kwPackageBytes ++ x :: r).length + 2 := by
      have h1 := renderDecls_length decls
      have h2 : (x :: r).length = (renderSp sep ++ (name ++ A)).length := by rw [hxr]
      rw [hA] at h2
      simp at h2 ⊢
      omega
    rw [declLoop_run tsp e ht he hi decls _ _ _ [] hrep2 hdecls hfuel]
    rw [hB]
    congr 2 <;> simp [Header.body, Header.importsOf]

theorem bom_eq : bom = bomBytes := by decide

theorem stripBOM_bom (X : Bytes) : stripBOM (bomBytes ++ X) = X := by
  have h1 : bomDiscarded = true := rfl
  simp [stripBOM, h1, bom_eq, bomBytes, List.isPrefixOf]

theorem stripBOM_other (c : UInt8) (X : Bytes) (hc : c ≠ 0xEF) : stripBOM (c :: X) = c :: X := by
  have h1 : bomDiscarded = true := rfl
  have : (0xEF == c) = false := by simp; exact fun h => hc h.symm
  simp [stripBOM, h1, bom_eq, bomBytes, List.isPrefixOf, this]

/-- a header body never starts with the first BOM byte. -/
theorem body_head (h : Header) (hw : h.WF = true) (Y : Bytes) : ∃ c r, h.body ++ Y = c :: r ∧ c ≠ 0xEF := by
  obtain ⟨bom, pre, sep, name, decls⟩ := h
  simp only [Header.WF, Bool.and_eq_true] at hw
  have hpre := hw.1.1.1.1.1
  cases pre with
  | nil => exact ⟨112, _, rfl, by decide⟩
  | cons it pre' =>
    simp only [Sp.WF, List.all_cons, Bool.and_eq_true] at hpre
    cases it with
    | blank s =>
      refine ⟨s, _, rfl, ?_⟩
      have := isSpace_nid s (blankWF_isSpace s hpre.1)
      intro h0; subst h0; exact absurd this.2 (by decide)
    | line body => exact ⟨47, _, rfl, by decide⟩
    | block body => exact ⟨47, _, rfl, by decide⟩

theorem finish_G (report : Bool) (tl B : Bytes) (d : UInt8) (imps : List Bytes) :
    finish report (G tl (d :: B) d imps) = .ok imps B.reverse none := by
  have h1 : dropsLastByte = true := rfl
  simp [finish, G, h1]

theorem finish_E (report : Bool) (B : Bytes) (imps : List Bytes) :
    finish report (E B 0 imps) = .ok imps B.reverse none := by
  simp [finish, E]

/-- The main theorem, in its sharpest form: the returned bytes are exactly the header (without the
byte-order mark) and the white space after it. -/
theorem readImports_header (h : Header) (hw : h.WF = true) (tsp : Sp) (rest : Bytes)
    (ht : TailOK h tsp rest) (report : Bool) :
    readImports (h.render ++ renderSp tsp ++ rest) report =
      .ok h.importsOf (h.body ++ renderSp tsp ++ keptTail rest) none := by
  obtain ⟨htsp, hrest⟩ := ht
  have hstrip : stripBOM (h.render ++ renderSp tsp ++ rest) = h.body ++ renderSp tsp ++ rest := by
    unfold Header.render
    cases hb : h.bom with
    | true => simp only [if_true, List.append_assoc]; exact stripBOM_bom _
    | false =>
      obtain ⟨c, r, hcr, hc⟩ := body_head h hw (renderSp tsp ++ rest)
      simp only [Bool.false_eq_true, if_false, List.nil_append, List.append_assoc]
      rw [hcr]
      exact stripBOM_other c r hc
  unfold readImports
  rw [hstrip]
  rcases hrest with rfl | ⟨body, rfl, hb1, hb2⟩ | ⟨d, tl, rfl, hd, hsep⟩
  · have := scan_run h hw tsp .eof htsp trivial (by intro d tl h0; cases h0) (by intro _ _ d tl h0; cases h0)
    simp only [Ending.bytes, peekResult] at this
    rw [this, finish_E]
    simp [keptTail]
  · have := scan_run h hw tsp (.comment body) htsp ⟨hb1, hb2⟩ (by intro d tl h0; cases h0)
      (by intro _ _ d tl h0; cases h0)
    simp only [Ending.bytes, peekResult] at this
    rw [this, finish_E]
    simp [keptTail]
  · simp only [declStart, Bool.and_eq_true, Bool.not_eq_true', decide_eq_true_eq] at hd
    obtain ⟨⟨⟨hd1, hd2⟩, hd3⟩, hd4⟩ := hd
    have := scan_run h hw tsp (.byte d tl) htsp ⟨hd1, hd2, hd3⟩
      (by intro d' tl' h0; cases h0; exact hd4)
      (by intro h1 h2; exact absurd h2 (hsep h1))
    simp only [Ending.bytes, peekResult] at this
    rw [this, finish_G]
    have hk : keptTail (d :: tl) = [] := by
      unfold keptTail
      split
      · next h0 => simp only [List.cons.injEq] at h0; exact absurd h0.1 hd2
      · rfl
    simp [hk]

end GIV.C18
