/-
  GIV.Lemmas.TxtarIdxQuote — the index forms of Quote / Unquote (range loop as a fold over
  (nd, prev); bytes.Replace / bytes.TrimPrefix) compute the structural `quote` / `unquote`.
-/
import GIV.Lemmas.TxtarIdx
namespace GIV.Txtar
open GIV

/-! ### Quote -/

theorem quoteFold_eq (data : Bytes) (arr : Array UInt8) (prev : UInt8) :
    (data.foldl (fun (st : Array UInt8 × UInt8) b =>
      let nd := if st.2 = NL then st.1.push 62 else st.1
      (nd.push b, b)) (arr, prev)).1.toList = arr.toList ++ quoteLoop prev data := by
  induction data generalizing arr prev with
  | nil => simp [quoteLoop]
  | cons b rest ih =>
    simp only [List.foldl_cons]
    rw [ih]
    simp only [quoteLoop]
    split <;> simp

theorem quoteIdx_eq (d : Bytes) : quoteIdx d = quote d := by
  unfold quoteIdx quote
  by_cases h0 : d = []
  · simp [h0]
  · have hlen : d.length ≠ 0 := by simpa using h0
    have hemp : d.isEmpty = false := by simpa using h0
    simp only [hlen, if_false, hemp, Bool.false_eq_true, ← List.getLast?_eq_getElem?]
    split
    · rfl
    · split
      · rfl
      · simp only [Except.ok.injEq]
        rw [quoteFold_eq]
        rfl

/-! ### Unquote -/

theorem replaceAllAux_eq (fuel : Nat) (s : Bytes) (h : s.length ≤ fuel) :
    replaceAllAux [NL, 62] [NL] fuel s = replaceNLGT s := by
  induction fuel generalizing s with
  | zero =>
    have : s = [] := by simpa using h
    subst this
    simp [replaceAllAux, replaceNLGT]
  | succ fuel ih =>
    match s with
    | [] => simp [replaceAllAux, replaceNLGT]
    | [b] =>
      have : replaceAllAux [NL, 62] [NL] fuel [] = [] := by cases fuel <;> simp [replaceAllAux]
      simp [replaceAllAux, replaceNLGT, hasPrefix, this]
    | a :: b :: rest =>
      simp only [List.length_cons] at h
      rw [replaceAllAux, replaceNLGT]
      have hp : hasPrefix (a :: b :: rest) [NL, 62] = true ↔ (a = NL ∧ b = 62) := by
        simp [hasPrefix]
      by_cases hc : a = NL ∧ b = 62
      · rw [if_pos (hp.mpr hc), if_pos hc]
        have : List.drop [NL, 62].length (a :: b :: rest) = rest := rfl
        rw [this, ih rest (by omega)]
        rfl
      · rw [if_neg (fun e => hc (hp.mp e)), if_neg hc, ih (b :: rest) (by simp only [List.length_cons]; omega)]

theorem replaceAll_eq (s : Bytes) : replaceAll s [NL, 62] [NL] = replaceNLGT s :=
  replaceAllAux_eq _ _ (Nat.le_refl _)

theorem trimPrefix_gt (s : Bytes) : trimPrefix s [62] = if s.head? = some 62 then s.tail else s := by
  unfold trimPrefix hasPrefix
  cases s with
  | nil => simp
  | cons x xs =>
    by_cases hx : x = 62
    · simp [hx]
    · simp [hx]

theorem unquoteIdx_eq (d : Bytes) : unquoteIdx d = unquote d := by
  unfold unquoteIdx unquote
  by_cases h0 : d = []
  · simp [h0]
  · have hlen : d.length ≠ 0 := by simpa using h0
    have hemp : d.isEmpty = false := by simpa using h0
    simp only [hlen, if_false, hemp, Bool.false_eq_true, ← List.getLast?_eq_getElem?, ← List.head?_eq_getElem?,
      replaceAll_eq, trimPrefix_gt]

end GIV.Txtar
