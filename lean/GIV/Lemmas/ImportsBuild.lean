/-
  Helper lemmas for C19 (GIV.Model.Build): cutAt / splitOn, the comma recursion of matchTags,
  the byte-offset loops of ShouldBuild against a line-structured reading.
-/
import GIV.Model.Build

namespace GIV.Build
open GIV GIV.Gen.ImportsBuild

@[simp] theorem hasPrefix_nil (b : Bytes) : hasPrefix [] b = true := by simp [hasPrefix, List.isPrefixOf]
@[simp] theorem hasPrefix_cons_nil (a : UInt8) (as : Bytes) : hasPrefix (a :: as) [] = false := by
  simp [hasPrefix, List.isPrefixOf]
@[simp] theorem hasPrefix_cons (a b : UInt8) (as bs : Bytes) :
    hasPrefix (a :: as) (b :: bs) = (a == b && hasPrefix as bs) := by simp [hasPrefix, List.isPrefixOf]

/-! ### cutAt / splitOn -/

theorem splitOn_ne_nil (c : UInt8) (b : Bytes) : splitOn c b ≠ [] := by
  induction b with
  | nil => simp [splitOn]
  | cons x xs ih =>
    unfold splitOn
    split
    · simp
    · split <;> simp

theorem cutAt_some {c : UInt8} {b l r : Bytes} (h : cutAt c b = (l, some r)) :
    b = l ++ c :: r ∧ splitOn c b = l :: splitOn c r := by
  induction b generalizing l with
  | nil => simp [cutAt] at h
  | cons x xs ih =>
    unfold cutAt at h
    split at h
    · next hx =>
      simp at h
      obtain ⟨rfl, rfl⟩ := h
      subst hx
      simp [splitOn]
    · next hx =>
      simp at h
      obtain ⟨hl, hr⟩ := h
      have := ih (l := (cutAt c xs).1) (by rw [← hr])
      subst hl
      refine ⟨by simp [← this.1], ?_⟩
      rw [splitOn, if_neg hx, this.2]

theorem cutAt_none {c : UInt8} {b l : Bytes} (h : cutAt c b = (l, none)) :
    l = b ∧ splitOn c b = [b] := by
  induction b generalizing l with
  | nil => simp [cutAt] at h; simp [h, splitOn]
  | cons x xs ih =>
    unfold cutAt at h
    split at h
    · simp at h
    · next hx =>
      simp at h
      obtain ⟨hl, hr⟩ := h
      have := ih (l := (cutAt c xs).1) (by rw [← hr])
      subst hl
      refine ⟨by simp [this.1], ?_⟩
      rw [splitOn, if_neg hx, this.2]

/-- the piece before the cut holds no separator. -/
theorem splitOn_cutAt_fst (c : UInt8) (b : Bytes) : splitOn c (cutAt c b).1 = [(cutAt c b).1] := by
  induction b with
  | nil => simp [cutAt, splitOn]
  | cons x xs ih =>
    unfold cutAt
    split
    · simp [splitOn]
    · next hx => simp only; rw [splitOn, if_neg hx, ih]

theorem cutAt_append {c : UInt8} {b l r : Bytes} (h : cutAt c b = (l, some r)) (X : Bytes) :
    cutAt c (l ++ c :: X) = (l, some X) := by
  induction b generalizing l with
  | nil => simp [cutAt] at h
  | cons x xs ih =>
    unfold cutAt at h
    split at h
    · simp at h; obtain ⟨rfl, _⟩ := h; simp [cutAt]
    · next hx =>
      simp at h
      obtain ⟨hl, hr⟩ := h
      have := ih (l := (cutAt c xs).1) (by rw [← hr])
      subst hl
      simp only [List.cons_append]
      rw [cutAt, if_neg hx, this]

theorem cutAt_cases (c : UInt8) (b : Bytes) :
    (∃ l r, cutAt c b = (l, some r)) ∨ (∃ l, cutAt c b = (l, none)) := by
  rcases h : cutAt c b with ⟨l, _ | r⟩
  · exact Or.inr ⟨l, rfl⟩
  · exact Or.inl ⟨l, r, rfl⟩

end GIV.Build
