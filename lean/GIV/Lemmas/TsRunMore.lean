/-
  GIV.Lemmas.TsRunMore — further lemmas for property C01 (used at the end of GIV.Props.C01):

  * skeleton (GIV.Model.Script, every `Config σ`):
      `contTrace` — the outcomes of the lines the loop executes under ContinueOnError, and the
      classification of the verdict by that trace; ContinueOnError is irrelevant as long as no
      line is fatal; what a recorded call ran (`lineOut_call`); `cli` in closed form.
  * concrete builtins (GIV.Model.ScriptCmds): one demand lemma per command — the commands that do
      not support `!` (a negated use is a usage failure, state untouched, whatever the arguments) and
      the exact rule of those that do (exists, cmp, cmpenv, grep, stdout, stderr, ttyout, exec),
      `wait` / `wait name` / `kill` as demand rules for background commands.
-/
import GIV.Model.Script
import GIV.Model.ScriptCmds
import GIV.Lemmas.TsRun
import GIV.Lemmas.TsRunCmds

namespace GIV.TsRun
open GIV

variable {σ : Type}

/-! ### the lines executed under ContinueOnError -/

/-- The outcomes of the lines the loop executes when ContinueOnError is set, in order: an `ok` or
`fatal` line is followed by the next one (a `fatal` sets `ts.failed` for the rest); any other
outcome (`stop`, `skip`, `failNow`, `crash`) is the last entry. -/
def contTrace (c : Config σ) : Bool → σ → List Bytes → List Outcome
  | _, _, [] => []
  | failed, s, l :: ls =>
    (lineOut c failed s l).out ::
      (match (lineOut c failed s l).out with
       | .ok => contTrace c failed (lineOut c failed s l).state ls
       | .fatal => contTrace c true (lineOut c failed s l).state ls
       | _ => [])

/-- the verdict as a function of the trace -/
def traceVerdict (failed : Bool) (t : List Outcome) : Verdict :=
  if .crash ∈ t then .crash
  else if .skip ∈ t then .skip
  else if failed = true ∨ .fatal ∈ t ∨ .failNow ∈ t then .fail
  else .pass

theorem runLines_contTrace (F : LoopFacts) (c : Config σ) (hc : c.continueOnError = true) (ls : List Bytes) :
    ∀ (n : Nat) (failed : Bool) (s : σ),
      (runLines c ls n failed s).verdict = traceVerdict failed (contTrace c failed s ls) ∧
      (runLines c ls n failed s).calls = foldCalls c failed s n (ls.take (contTrace c failed s ls).length) ∧
      (runLines c ls n failed s).lineno = n + (contTrace c failed s ls).length := by
  induction ls with
  | nil =>
    intro n failed s
    cases failed <;> simp [runLines, contTrace, traceVerdict, endVerdict_false, endVerdict_true F, foldCalls]
  | cons l ls ih =>
    intro n failed s
    rw [runLines_cons F]
    simp only [contTrace]
    cases h : (lineOut c failed s l).out
    · obtain ⟨h1, h2, h3⟩ := ih (n + 1) failed (lineOut c failed s l).state
      refine ⟨?_, ?_, ?_⟩
      · simp only [h1]; simp [traceVerdict]
      · simp only [h2]; simp [foldCalls, h]
      · simp only [h3]; simp; omega
    · cases failed <;> simp [traceVerdict, endVerdict_false, endVerdict_true F, foldCalls]
    · obtain ⟨h1, h2, h3⟩ := ih (n + 1) true (lineOut c failed s l).state
      simp only [hc, if_true]
      refine ⟨?_, ?_, ?_⟩
      · simp only [h1]; simp [traceVerdict]
      · simp only [h2]; simp [foldCalls, h]
      · simp only [h3]; simp; omega
    · simp [traceVerdict, foldCalls]
    · simp [traceVerdict, foldCalls]
    · simp [traceVerdict, foldCalls]

/-- Every line runs unless a `stop`, `skip`, `FailNow` or panic ends the loop: the trace is as long
as the script, or its last entry is one of those four. -/
theorem contTrace_full_or_ended (c : Config σ) (ls : List Bytes) :
    ∀ (failed : Bool) (s : σ),
      (contTrace c failed s ls).length = ls.length ∨
      ∃ o, (contTrace c failed s ls).getLast? = some o ∧ o ≠ .ok ∧ o ≠ .fatal := by
  induction ls with
  | nil => intro failed s; simp [contTrace]
  | cons l ls ih =>
    intro failed s
    simp only [contTrace]
    cases h : (lineOut c failed s l).out
    · rcases ih failed (lineOut c failed s l).state with h1 | ⟨o, h1, h2⟩
      · left; simp [h1]
      · right; refine ⟨o, ?_, h2⟩
        simp only
        rw [List.getLast?_cons, h1]; rfl
    · right; exact ⟨.stop, by simp, by simp, by simp⟩
    · rcases ih true (lineOut c failed s l).state with h1 | ⟨o, h1, h2⟩
      · left; simp [h1]
      · right; refine ⟨o, ?_, h2⟩
        simp only
        rw [List.getLast?_cons, h1]; rfl
    · right; exact ⟨.skip, by simp, by simp, by simp⟩
    · right; exact ⟨.failNow, by simp, by simp, by simp⟩
    · right; exact ⟨.crash, by simp, by simp, by simp⟩

/-- … and all entries but the last are `ok` or `fatal`. -/
theorem contTrace_init (c : Config σ) (ls : List Bytes) :
    ∀ (failed : Bool) (s : σ), ∀ o ∈ (contTrace c failed s ls).dropLast, o = .ok ∨ o = .fatal := by
  induction ls with
  | nil => intro failed s o ho; simp [contTrace] at ho
  | cons l ls ih =>
    intro failed s o ho
    simp only [contTrace] at ho
    cases h : (lineOut c failed s l).out <;> rw [h] at ho <;> simp only at ho
    · cases ht : contTrace c failed (lineOut c failed s l).state ls with
      | nil => rw [ht] at ho; simp at ho
      | cons x xs =>
        rw [ht, List.dropLast_cons_cons] at ho
        rcases List.mem_cons.1 ho with rfl | ho
        · left; rfl
        · exact ih failed _ o (by rw [ht]; exact ho)
    · simp at ho
    · cases ht : contTrace c true (lineOut c failed s l).state ls with
      | nil => rw [ht] at ho; simp at ho
      | cons x xs =>
        rw [ht, List.dropLast_cons_cons] at ho
        rcases List.mem_cons.1 ho with rfl | ho
        · right; rfl
        · exact ih true _ o (by rw [ht]; exact ho)
    · simp at ho
    · simp at ho
    · simp at ho

/-- Once `ts.failed` is set no later line ends in T.Skip, if every command honours the flag. -/
theorem contTrace_failed_no_skip (LF : LineFacts) (c : Config σ) (hh : HonoursFailed c) (ls : List Bytes) :
    ∀ (s : σ), Outcome.skip ∉ contTrace c true s ls := by
  induction ls with
  | nil => intro s; simp [contTrace]
  | cons l ls ih =>
    intro s
    have hs := lineOut_not_skip LF c hh s l
    simp only [contTrace]
    cases h : (lineOut c true s l).out <;> simp_all

theorem contTrace_fatal_no_skip (LF : LineFacts) (c : Config σ) (hh : HonoursFailed c) (ls : List Bytes) :
    ∀ (failed : Bool) (s : σ), Outcome.fatal ∈ contTrace c failed s ls → Outcome.skip ∉ contTrace c failed s ls := by
  induction ls with
  | nil => intro failed s h; simp [contTrace] at h
  | cons l ls ih =>
    intro failed s hf
    simp only [contTrace] at hf ⊢
    cases h : (lineOut c failed s l).out <;> rw [h] at hf <;> simp only at hf ⊢
    · simp only [List.mem_cons, reduceCtorEq, false_or] at hf ⊢
      exact ih _ _ hf
    · simp at hf
    · simp only [List.mem_cons, reduceCtorEq, false_or]
      exact contTrace_failed_no_skip LF c hh ls _
    · simp at hf
    · simp at hf
    · simp at hf

theorem contTrace_no_crash (LF : LineFacts) (c : Config σ) (hn : NoCrash c) (ls : List Bytes) :
    ∀ (failed : Bool) (s : σ), Outcome.crash ∉ contTrace c failed s ls := by
  induction ls with
  | nil => intro failed s; simp [contTrace]
  | cons l ls ih =>
    intro failed s
    have hs := lineOut_not_crash LF c hn failed s l
    simp only [contTrace]
    cases h : (lineOut c failed s l).out
    · simpa using ih failed _
    · simp
    · simpa using ih true _
    · simp
    · simp
    · exact absurd h hs

/-- No command calls T.FailNow directly while `ts.failed` is unset (true of every builtin: only
`cmdSkip` calls it, and only once a line has failed). -/
def FailNowOnlyAfterFailure (c : Config σ) : Prop :=
  ∀ name f s neg args, lookup c name = some f → (f false s neg args).2 ≠ .failNow

theorem lineOut_not_failNow (LF : LineFacts) (c : Config σ) (hf : FailNowOnlyAfterFailure c) (s : σ) (line : Bytes) :
    (lineOut c false s line).out ≠ .failNow := by
  rcases lineOut_cases LF c false s line with h | h | ⟨name, f, neg, rest, hl, h⟩
  · simp [h]
  · simp [h]
  · rw [h]; exact hf name f s neg rest hl

/-- … then a T.FailNow in the trace comes after a fatal line. -/
theorem contTrace_failNow_fatal (LF : LineFacts) (c : Config σ) (hf : FailNowOnlyAfterFailure c) (ls : List Bytes) :
    ∀ (s : σ), Outcome.failNow ∈ contTrace c false s ls → Outcome.fatal ∈ contTrace c false s ls := by
  induction ls with
  | nil => intro s h; simp [contTrace] at h
  | cons l ls ih =>
    intro s h
    have hn := lineOut_not_failNow LF c hf s l
    simp only [contTrace] at h ⊢
    cases ho : (lineOut c false s l).out <;> rw [ho] at h <;> simp only at h ⊢
    · simp only [List.mem_cons, reduceCtorEq, false_or] at h ⊢
      exact ih _ h
    · simp at h
    · simp
    · simp at h
    · exact absurd ho hn
    · simp at h

/-! ### ContinueOnError does not matter while no line is fatal -/

theorem guards_congr (c c' : Config σ) (hcond : c'.cond = c.cond) (s : σ) (args : List Bytes) :
    guards c' s args = guards c s args := by
  induction args with
  | nil => rfl
  | cons w rest ih => simp only [guards, hcond, ih]

theorem lineOut_congr (c c' : Config σ) (hp : c'.parse = c.parse) (hcond : c'.cond = c.cond)
    (hb : c'.builtin = c.builtin) (hcu : c'.custom = c.custom) (failed : Bool) (s : σ) (l : Bytes) :
    lineOut c' failed s l = lineOut c failed s l := by
  have hl : ∀ name, lookup c' name = lookup c name := by intro name; simp [lookup, hb, hcu]
  have hi : ∀ a, invoke c' failed s a = invoke c failed s a := by intro a; simp only [invoke, hl]
  have hr : ∀ a, runArgs c' failed s a = runArgs c failed s a := by
    intro a; simp only [runArgs, guards_congr c c' hcond, hi]
  simp only [lineOut, runLine, hp, hr]

theorem contTrace_congr (c c' : Config σ) (hp : c'.parse = c.parse) (hcond : c'.cond = c.cond)
    (hb : c'.builtin = c.builtin) (hcu : c'.custom = c.custom) (ls : List Bytes) :
    ∀ (failed : Bool) (s : σ), contTrace c' failed s ls = contTrace c failed s ls := by
  induction ls with
  | nil => intro failed s; rfl
  | cons l ls ih =>
    intro failed s
    simp only [contTrace, lineOut_congr c c' hp hcond hb hcu, ih]

/-- Two configurations that differ only in ContinueOnError run a script identically as long as no
executed line is fatal. -/
theorem runLines_continue_irrelevant (F : LoopFacts) (c c' : Config σ) (hp : c'.parse = c.parse)
    (hcond : c'.cond = c.cond) (hb : c'.builtin = c.builtin) (hcu : c'.custom = c.custom) (ls : List Bytes) :
    ∀ (n : Nat) (failed : Bool) (s : σ), Outcome.fatal ∉ contTrace c failed s ls →
      runLines c' ls n failed s = runLines c ls n failed s := by
  induction ls with
  | nil => intro n failed s _; rfl
  | cons l ls ih =>
    intro n failed s hnf
    rw [runLines_cons F, runLines_cons F, lineOut_congr c c' hp hcond hb hcu]
    simp only [contTrace] at hnf
    cases h : (lineOut c failed s l).out <;> rw [h] at hnf <;> simp only at hnf ⊢
    · rw [ih (n + 1) failed _ (by simpa using hnf)]
    · simp at hnf

/-! ### what a recorded call ran -/

/-- A line that records the call `(neg, name, rest)` ran exactly the function `lookup` gives for
`name`, on `neg` and `rest`: state and outcome are that function's. -/
theorem lineOut_call (LF : LineFacts) (c : Config σ) (failed : Bool) (s : σ) (l : Bytes)
    (neg : Bool) (name : Bytes) (rest : List Bytes)
    (h : (lineOut c failed s l).call = some (neg, name, rest)) :
    ∃ f, lookup c name = some f ∧ (lineOut c failed s l).state = (f failed s neg rest).1 ∧
      (lineOut c failed s l).out = (f failed s neg rest).2 := by
  rcases lineOut_cases LF c failed s l with h1 | h1 | ⟨name', f, neg', rest', hf, h1⟩
  · rw [h1] at h; simp at h
  · rw [h1] at h; simp at h
  · rw [h1] at h ⊢
    simp only [Option.some.injEq, Prod.mk.injEq] at h
    obtain ⟨rfl, rfl, rfl⟩ := h
    exact ⟨f, hf, rfl, rfl⟩

/-- a builtin is never shadowed by `Params.Cmds` -/
theorem lookup_builtin (LF : LineFacts) (c : Config σ) (name : Bytes) (g : Cmd σ) (h : c.builtin name = some g) :
    lookup c name = some g := by
  rw [lookup_eq LF, h]

/-! ### cmd/testscript in closed form -/

theorem cliAux_closed (CF : CliFacts) (vs : List Verdict) : ∀ (b : Bool),
    cliAux b vs = (if .crash ∈ vs then 2 else if b = true ∨ .fail ∈ vs then 1 else 0) := by
  induction vs with
  | nil => intro b; cases b <;> simp [cliAux, CF.failedExit]
  | cons v vs ih =>
    intro b
    cases v
    · simp [cliAux, ih b]
    · simp [cliAux, CF.failSetsFailed, ih true]
    · simp [cliAux, CF.skipNotFailure, ih b]
    · simp [cliAux]

end GIV.TsRun

/-! ## the concrete builtins: what each command demands -/

namespace GIV.TsRun.Cmds
open GIV GIV.TsRun GIV.TsRun.Update

/-- `r` leaves the state `s` untouched, ends `ok` exactly when `P` holds and `fatal` exactly when it
does not (so it never ends any other way). -/
def Judged (r : St × Outcome) (s : St) (P : Prop) : Prop :=
  r.1 = s ∧ (r.2 = .ok ↔ P) ∧ (r.2 = .fatal ↔ ¬ P)

theorem judged_ite (s : St) (P : Prop) [Decidable P] : Judged (s, if P then .ok else .fatal) s P := by
  by_cases h : P <;> simp [Judged, h]

theorem judged_congr {r : St × Outcome} {s : St} {P Q : Prop} (h : Judged r s P) (hpq : P ↔ Q) : Judged r s Q := by
  obtain ⟨a, b, c⟩ := h
  exact ⟨a, b.trans hpq, c.trans (not_congr hpq)⟩

/-! ### commands that do not support `!` -/

/-- `! cmd …` is a failure of the line ("unsupported: ! cmd", or the usage error that comes first),
whatever the arguments, and nothing is touched. -/
def NoBang (f : Cmd St) : Prop := ∀ failed s args, f failed s true args = (s, .fatal)

theorem noBang_cd : NoBang cmdCd := by intro failed s args; simp [cmdCd, fatal]
theorem noBang_cp : NoBang cmdCp := by intro failed s args; simp [cmdCp, fatal]
theorem noBang_env : NoBang cmdEnv := by intro failed s args; simp [cmdEnv, fatal]
theorem noBang_mkdir : NoBang cmdMkdir := by intro failed s args; simp [cmdMkdir, fatal]
theorem noBang_mv : NoBang cmdMv := by intro failed s args; simp [cmdMv, fatal]
theorem noBang_rm : NoBang cmdRm := by intro failed s args; simp [cmdRm, fatal]
theorem noBang_stop : NoBang cmdStop := by intro failed s args; simp [cmdStop, fatal]
theorem noBang_stdin : NoBang cmdStdin := by intro failed s args; simp [cmdStdin, fatal]
theorem noBang_unquote : NoBang cmdUnquote := by intro failed s args; simp [cmdUnquote, fatal]
theorem noBang_skip : NoBang cmdSkip := by
  intro failed s args; unfold cmdSkip; split <;> simp [fatal]
theorem noBang_wait : NoBang cmdWait := by
  intro failed s args; unfold cmdWait; split <;> simp [fatal]
theorem noBang_kill : NoBang cmdKill := by
  intro failed s args; unfold cmdKill; split <;> simp [fatal]

/-! ### exists -/

/-- what `exists` / `! exists` asks of ONE file: it is there (and, with `-readonly`, not writable —
nothing in the modelled file system is read-only), resp. it is not there (`-readonly` is ignored
under `!`) -/
def existsWant (fs : FS) (neg ro : Bool) (p : Path) : Bool := (fs.exists p != neg) && (neg || !ro)

theorem existsLoop_demand (s : St) (neg ro : Bool) : ∀ (files : List Bytes) (paths : List Path),
    files.map (resolve s.cd) = paths.map some →
    existsLoop s neg ro files = (s, if paths.all (existsWant s.fs neg ro) then .ok else .fatal) := by
  intro files
  induction files with
  | nil => intro paths h; cases paths <;> simp_all [existsLoop, okay]
  | cons f files ih =>
    intro paths h
    cases paths with
    | nil => simp at h
    | cons p paths =>
      simp only [List.map_cons, List.cons.injEq] at h
      obtain ⟨h1, h2⟩ := h
      simp only [existsLoop, h1, ih paths h2, List.all_cons, existsWant, fatal]
      rcases Bool.eq_false_or_eq_true (s.fs.exists p) with hx | hx <;> cases neg <;> cases ro <;> simp [hx]

/-- every file is judged on its own: `exists a b` needs both, `! exists a b` needs NEITHER (one that
exists fails the line); no file at all is a usage error either way. -/
def ExistsDemand (f : Cmd St) : Prop :=
  ∀ (failed : Bool) (s : St) (neg ro : Bool) (files : List Bytes) (paths : List Path),
    files.map (resolve s.cd) = paths.map some →
    (ro = false → files.head? ≠ some (lit "-readonly")) →
    Judged (f failed s neg ((if ro then [lit "-readonly"] else []) ++ files)) s
      (files ≠ [] ∧ (∀ p ∈ paths, s.fs.exists p = !neg) ∧ (ro = true → neg = true))

theorem exists_demand : ExistsDemand cmdExists := by
  intro failed s neg ro files paths hres hhead
  have key : cmdExists failed s neg ((if ro then [lit "-readonly"] else []) ++ files) =
      (s, if files ≠ [] ∧ paths.all (existsWant s.fs neg ro) = true then .ok else .fatal) := by
    cases ro with
    | true =>
      simp only [cmdExists, if_true, List.cons_append, List.nil_append, List.head?_cons, List.tail_cons]
      cases files with
      | nil => simp [fatal]
      | cons f fs => simp [existsLoop_demand s neg true (f :: fs) paths hres]
    | false =>
      have hh := hhead rfl
      simp only [cmdExists, Bool.false_eq_true, if_false, List.nil_append, hh]
      cases files with
      | nil => simp [fatal]
      | cons f fs => simp [existsLoop_demand s neg false (f :: fs) paths hres]
  rw [key]
  refine judged_congr (judged_ite s _) ?_
  have hlen : files = [] ↔ paths = [] := by
    have := congrArg List.length hres
    simp only [List.length_map] at this
    constructor <;> intro h <;> subst h <;> simp_all
  constructor
  · rintro ⟨h1, h2⟩
    refine ⟨h1, ?_, ?_⟩
    · intro p hp
      have := List.all_eq_true.1 h2 p hp
      simp only [existsWant, Bool.and_eq_true, bne_iff_ne] at this
      cases hx : s.fs.exists p <;> cases neg <;> simp_all
    · intro hro; subst hro
      cases paths with
      | nil => exact absurd (hlen.2 rfl) h1
      | cons p ps =>
        have := List.all_eq_true.1 h2 p (by simp)
        simp only [existsWant, Bool.and_eq_true] at this
        simpa using this.2
  · rintro ⟨h1, h2, h3⟩
    refine ⟨h1, List.all_eq_true.2 ?_⟩
    intro p hp
    have := h2 p hp
    simp only [existsWant, Bool.and_eq_true, bne_iff_ne]
    cases neg <;> cases ro <;> simp_all

/-! ### cmp / cmpenv (Params.UpdateScripts off; the update mode is property C16's) -/

/-- `cmp a b` is satisfied by equal texts, `! cmp a b` by different ones; a usage error, comparing a
file with itself, or a file that cannot be read fails the line with or without `!`. -/
def CmpDemand (p : P) (env : Bool) (f : Cmd St) : Prop :=
  (∀ failed s neg args, args.length ≠ 2 → f failed s neg args = (s, .fatal)) ∧
  (∀ failed s neg n, f failed s neg [n, n] = (s, .fatal)) ∧
  (∀ failed s neg n1 n2, n1 ≠ n2 → readArg s n1 = .err → f failed s neg [n1, n2] = (s, .fatal)) ∧
  (∀ failed s neg n1 n2 t1 abs2, n1 ≠ n2 → readArg s n1 = .ok t1 → resolve s.cd n2 = some abs2 →
      s.fs.read abs2 = none → f failed s neg [n1, n2] = (s, .fatal)) ∧
  (p.updateScripts = false → ∀ failed s neg n1 n2 t1 abs2 raw2 t2, n1 ≠ n2 → readArg s n1 = .ok t1 →
      resolve s.cd n2 = some abs2 → s.fs.read abs2 = some raw2 →
      (if env then expand s.env raw2 else some raw2) = some t2 →
      Judged (f failed s neg [n1, n2]) s (t1 = t2 ↔ neg = false))

theorem doCmp_plain (i : CmpIn) (h : i.updateScripts = false) :
    doCmp i = (if (i.text1 == i.text2) != i.neg then .ok else .fatal) := by
  have hu : updateApplies i = false := by
    unfold updateApplies; split <;> simp [h]
  unfold doCmp
  simp only [hu, Bool.false_eq_true, if_false]
  cases Gen.TsRunUpdate.updateAfterNegAndEq <;> cases i.neg <;> cases (i.text1 == i.text2) <;> simp

theorem cmp_demand (p : P) (env : Bool) : CmpDemand p env (fun _ s neg args => doCmdCmp p s neg args env) := by
  refine ⟨?_, ?_, ?_, ?_, ?_⟩
  · intro failed s neg args h
    match args, h with
    | [], _ => simp [doCmdCmp, fatal]
    | [_], _ => simp [doCmdCmp, fatal]
    | _ :: _ :: _ :: _, _ => simp [doCmdCmp, fatal]
  · intro failed s neg n; simp [doCmdCmp, fatal]
  · intro failed s neg n1 n2 hne h1; simp [doCmdCmp, hne, h1, fatal]
  · intro failed s neg n1 n2 t1 abs2 hne h1 h2 h3; simp [doCmdCmp, hne, h1, h2, h3, fatal]
  · intro hup failed s neg n1 n2 t1 abs2 raw2 t2 hne h1 h2 h3 h4
    have key : doCmdCmp p s neg [n1, n2] env = (s, if (t1 == t2) != neg then .ok else .fatal) := by
      simp only [doCmdCmp, hne, if_false, h1, h2, h3, h4]
      rw [doCmp_plain _ hup]
      by_cases hb : ((t1 == t2) != neg) = true <;> simp [hb, okay, fatal]
    show Judged (doCmdCmp p s neg [n1, n2] env) s _
    rw [key]
    refine judged_congr (judged_ite s _) ?_
    cases neg <;> simp

/-! ### stdout / stderr / ttyout / grep -/

theorem alnum_not_count (pat : Bytes) (h0 : pat ≠ []) (ha : pat.all isAlnum = true) :
    (lit "-count=").isPrefixOf pat = false := by
  have hl : lit "-count=" = [45, 99, 111, 117, 110, 116, 61] := by decide +kernel
  cases pat with
  | nil => exact absurd rfl h0
  | cons c cs =>
    simp only [List.all_cons, Bool.and_eq_true] at ha
    have hc : c ≠ 45 := by
      intro h; subst h
      exact absurd ha.1 (by decide)
    have hb : ((45 : UInt8) == c) = false := by simpa using (Ne.symm hc)
    rw [hl]
    simp [List.isPrefixOf, hb]

theorem count_prefix (digits : Bytes) :
    (lit "-count=").isPrefixOf (lit "-count=" ++ digits) = true ∧
    (lit "-count=" ++ digits).drop (lit "-count=").length = digits := by simp

/-- the pattern fragment of the model: a non-empty alphanumeric literal (regexp match = substring search) -/
def Lit (pat : Bytes) : Prop := pat ≠ [] ∧ pat.all isAlnum = true

theorem scriptMatch_plain (s : St) (neg : Bool) (pat text : Bytes) (hp : Lit pat) :
    scriptMatch s neg [pat] text false = (s, if (0 < occurrences pat text) ↔ neg = false then .ok else .fatal) := by
  obtain ⟨h0, ha⟩ := hp
  have hnc := alnum_not_count pat h0 ha
  have he : pat.isEmpty = false := by cases pat <;> simp_all
  simp only [scriptMatch, hnc, Bool.false_and, Bool.false_eq_true, if_false]
  simp only [he, ha, okay, fatal]
  cases neg <;> by_cases hk : occurrences pat text = 0 <;> simp [hk] <;> omega

theorem scriptMatch_grep_plain (s : St) (neg : Bool) (pat file text t0 : Bytes) (p : Path) (hp : Lit pat)
    (hr : resolve s.cd file = some p) (hf : s.fs.read p = some text) :
    scriptMatch s neg [pat, file] t0 true = (s, if (0 < occurrences pat text) ↔ neg = false then .ok else .fatal) := by
  obtain ⟨h0, ha⟩ := hp
  have hnc := alnum_not_count pat h0 ha
  have he : pat.isEmpty = false := by cases pat <;> simp_all
  simp only [scriptMatch, hnc, Bool.false_and, Bool.false_eq_true, if_false]
  simp only [he, ha, scriptMatch.readArg', hr, hf, okay, fatal]
  cases neg <;> by_cases hk : occurrences pat text = 0 <;> simp [hk] <;> omega

theorem scriptMatch_grep_missing (s : St) (neg : Bool) (pat file t0 : Bytes) (p : Path) (hp : Lit pat)
    (hr : resolve s.cd file = some p) (hf : s.fs.read p = none) :
    scriptMatch s neg [pat, file] t0 true = (s, .fatal) := by
  obtain ⟨h0, ha⟩ := hp
  have hnc := alnum_not_count pat h0 ha
  have he : pat.isEmpty = false := by cases pat <;> simp_all
  simp only [scriptMatch, hnc, Bool.false_and, Bool.false_eq_true, if_false]
  simp [he, ha, scriptMatch.readArg', hr, hf, fatal]

theorem scriptMatch_count_neg (s : St) (a : Bytes) (rest : List Bytes) (text : Bytes) (g : Bool)
    (h : (lit "-count=").isPrefixOf a = true) : scriptMatch s true (a :: rest) text g = (s, .fatal) := by
  simp [scriptMatch, h, fatal]

theorem scriptMatch_count (s : St) (digits : Bytes) (n : Nat) (pat text : Bytes) (hp : Lit pat)
    (hn : parseNat digits = some n) :
    scriptMatch s false [lit "-count=" ++ digits, pat] text false =
      (s, if 1 ≤ n ∧ occurrences pat text = n then .ok else .fatal) := by
  obtain ⟨h0, ha⟩ := hp
  obtain ⟨c1, c2⟩ := count_prefix digits
  have he : pat.isEmpty = false := by cases pat <;> simp_all
  simp only [scriptMatch, c1, c2, hn, Bool.true_and, Bool.false_eq_true, if_false, Option.map_some, if_true,
    List.tail_cons]
  by_cases h0n : n = 0
  · subst h0n; simp [fatal]
  · simp only [Option.some.injEq, h0n, if_false, List.length_singleton, he, ha, okay, fatal]
    have h1n : 1 ≤ n := by omega
    have h0n' : ¬ 0 = n := by omega
    by_cases hk : occurrences pat text = 0 <;> by_cases hm : occurrences pat text = n <;>
      simp [hk, hm, h0n, h1n, h0n']
    all_goals omega

theorem scriptMatch_grep_count (s : St) (digits : Bytes) (n : Nat) (pat file text t0 : Bytes) (p : Path) (hp : Lit pat)
    (hn : parseNat digits = some n) (hr : resolve s.cd file = some p) (hf : s.fs.read p = some text) :
    scriptMatch s false [lit "-count=" ++ digits, pat, file] t0 true =
      (s, if 1 ≤ n ∧ occurrences pat text = n then .ok else .fatal) := by
  obtain ⟨h0, ha⟩ := hp
  obtain ⟨c1, c2⟩ := count_prefix digits
  have he : pat.isEmpty = false := by cases pat <;> simp_all
  simp only [scriptMatch, c1, c2, hn, Bool.true_and, Bool.false_eq_true, if_false, Option.map_some, if_true,
    List.tail_cons]
  by_cases h0n : n = 0
  · subst h0n; simp [fatal]
  · simp only [Option.some.injEq, h0n, if_false, List.length_cons, List.length_nil, he, ha,
      scriptMatch.readArg', hr, hf, okay, fatal]
    have h1n : 1 ≤ n := by omega
    have h0n' : ¬ 0 = n := by omega
    by_cases hk : occurrences pat text = 0 <;> by_cases hm : occurrences pat text = n <;>
      simp [hk, hm, h0n, h1n, h0n']
    all_goals omega

/-- `stdout pat` wants a match, `! stdout pat` wants none; `-count=N` wants exactly N ≥ 1 matches and
cannot be negated (a usage failure). `text` = the buffer the command looks at. -/
def MatchDemand (text : St → Bytes) (f : Cmd St) : Prop :=
  (∀ failed s neg pat, Lit pat → Judged (f failed s neg [pat]) s (0 < occurrences pat (text s) ↔ neg = false)) ∧
  (∀ failed s digits n pat, Lit pat → parseNat digits = some n →
      Judged (f failed s false [lit "-count=" ++ digits, pat]) s (1 ≤ n ∧ occurrences pat (text s) = n)) ∧
  (∀ failed s a rest, (lit "-count=").isPrefixOf a = true → f failed s true (a :: rest) = (s, .fatal))

theorem match_demand (text : St → Bytes) :
    MatchDemand text (fun _ s neg args => scriptMatch s neg args (text s) false) :=
  ⟨fun _ s neg pat hp => by
      show Judged (scriptMatch s neg [pat] (text s) false) s _
      rw [scriptMatch_plain s neg pat _ hp]; exact judged_ite s _,
   fun _ s digits n pat hp hn => by
      show Judged (scriptMatch s false [lit "-count=" ++ digits, pat] (text s) false) s _
      rw [scriptMatch_count s digits n pat _ hp hn]; exact judged_ite s _,
   fun _ s a rest h => scriptMatch_count_neg s a rest _ _ h⟩

/-- the same for `grep pat file`; a file that cannot be read fails the line even under `!`. -/
def GrepDemand (f : Cmd St) : Prop :=
  (∀ failed s neg pat file p text, Lit pat → resolve s.cd file = some p → s.fs.read p = some text →
      Judged (f failed s neg [pat, file]) s (0 < occurrences pat text ↔ neg = false)) ∧
  (∀ failed s digits n pat file p text, Lit pat → parseNat digits = some n → resolve s.cd file = some p →
      s.fs.read p = some text →
      Judged (f failed s false [lit "-count=" ++ digits, pat, file]) s (1 ≤ n ∧ occurrences pat text = n)) ∧
  (∀ failed s a rest, (lit "-count=").isPrefixOf a = true → f failed s true (a :: rest) = (s, .fatal)) ∧
  (∀ failed s neg pat file p, Lit pat → resolve s.cd file = some p → s.fs.read p = none →
      f failed s neg [pat, file] = (s, .fatal))

theorem grep_demand : GrepDemand cmdGrep :=
  ⟨fun _ s neg pat file p text hp hr hf => by
      show Judged (scriptMatch s neg [pat, file] [] true) s _
      rw [scriptMatch_grep_plain s neg pat file text [] p hp hr hf]; exact judged_ite s _,
   fun _ s digits n pat file p text hp hn hr hf => by
      show Judged (scriptMatch s false [lit "-count=" ++ digits, pat, file] [] true) s _
      rw [scriptMatch_grep_count s digits n pat file text [] p hp hn hr hf]; exact judged_ite s _,
   fun _ s a rest h => scriptMatch_count_neg s a rest _ _ h,
   fun _ s neg pat file p hp hr hf => scriptMatch_grep_missing s neg pat file [] p hp hr hf⟩

/-! ### exec -/

/-- What running `prog args…` to completion gives in the modelled fragment: (exit status 0?, stdout,
stderr); a program that is not on PATH is a failure with no output; `none` = outside the fragment
(another program, a helper action the model does not know, a helper that blocks for ever). -/
def execSuccess (s : St) (prog : Bytes) (hargs : List Bytes) : Option (Bool × Bytes × Bytes) :=
  match progOf prog with
  | .unmodelled => none
  | .notFound => some (false, [], [])
  | .helper =>
    match runHelper s.stdin hargs with
    | none => none
    | some r => if r.blocks then none else some (r.status == 0, r.out, r.err)

/-- `exec prog args…` wants the program to succeed, `! exec prog args…` wants it to fail; either way
its output becomes stdout / stderr and nothing else the later lines can see changes, except that
stdin is consumed.  `exec prog args… &` (helper found) never fails by itself: it records the line's
`!` for the `wait`.  No program at all is a usage failure. -/
def ExecDemand (f : Cmd St) : Prop :=
  (∀ failed s neg prog rest ok o e, s.fs.isDir s.cd = true → isBgSpec ((rest.getLast?).getD prog) = false →
      execSuccess s prog rest = some (ok, o, e) →
      ((f failed s neg (prog :: rest)).2 = .ok ↔ ok ≠ neg) ∧
      ((f failed s neg (prog :: rest)).2 = .fatal ↔ ok = neg) ∧
      (f failed s neg (prog :: rest)).1.stdout = o ∧ (f failed s neg (prog :: rest)).1.stderr = e ∧
      (f failed s neg (prog :: rest)).1.fs = s.fs ∧ (f failed s neg (prog :: rest)).1.env = s.env ∧
      (f failed s neg (prog :: rest)).1.cd = s.cd ∧ (f failed s neg (prog :: rest)).1.bg = s.bg) ∧
  (∀ failed s neg hargs spec r, s.fs.isDir s.cd = true → isBgSpec spec = true →
      findBg s.bg (bgNameOf spec) = none → runHelper s.stdin hargs = some r →
      f failed s neg (lit "vh" :: (hargs ++ [spec])) =
        ({ s with stdin := [], stdout := [], stderr := [],
                  bg := s.bg ++ [⟨bgNameOf spec, neg, r.out, r.err, r.status, r.blocks, false⟩] }, .ok)) ∧
  (∀ failed s neg, f failed s neg [] = (s, .fatal)) ∧
  (∀ failed s neg spec, isBgSpec spec = true → f failed s neg [spec] = (s, .fatal))

theorem exec_demand (hf : Gen.TsRun.execRejectsLoneBgSpec = true) : ExecDemand cmdExec := by
  refine ⟨?_, ?_, ?_, ?_⟩
  · intro failed s neg prog rest ok o e hcd hfg hex
    have husage : (rest.isEmpty && isBgSpec prog) = false := by
      cases rest with
      | nil => simpa using hfg
      | cons _ _ => simp
    have key : cmdExec failed s neg (prog :: rest) = execFg s neg prog rest := by
      simp [cmdExec, hf, husage, hcd, hfg]
    rw [key]
    unfold execSuccess at hex
    unfold execFg
    cases hp : progOf prog with
    | unmodelled => simp [hp] at hex
    | notFound =>
      simp only [hp, Option.some.injEq, Prod.mk.injEq] at hex
      obtain ⟨rfl, rfl, rfl⟩ := hex
      cases neg <;> simp [okay, fatal]
    | helper =>
      simp only [hp] at hex ⊢
      cases hr : runHelper s.stdin rest with
      | none => simp [hr] at hex
      | some r =>
        simp only [hr] at hex ⊢
        cases hb : r.blocks with
        | true => simp [hb] at hex
        | false =>
          simp only [hb, Bool.false_eq_true, if_false, Option.some.injEq, Prod.mk.injEq] at hex ⊢
          obtain ⟨rfl, rfl, rfl⟩ := hex
          by_cases h : (r.status == 0) = neg <;> simp [h, okay, fatal]
  · intro failed s neg hargs spec r hcd hspec hfind hr
    have hp : progOf (lit "vh") = .helper := by decide +kernel
    have h1 : (hargs ++ [spec]).isEmpty = false := by simp
    have h3 : (hargs ++ [spec]).dropLast = hargs := by simp
    simp [cmdExec, hf, h1, h3, hcd, hspec, hfind, execBg, hp, hr, okay]
  · intro failed s neg; rfl
  · intro failed s neg spec hspec; simp [cmdExec, hf, hspec, fatal]

/-! ### wait / kill: the demand of a background command is charged at the `wait` -/

/-- every entry's process ended in a way that does not depend on timing -/
def Settled (bgs : List Bg) : Prop := ∀ b ∈ bgs, b.result ≠ none

/-- the entry ended as its `exec … &` line demands: success without `!`, failure with it -/
def bgOk (b : Bg) : Bool := b.result != some b.neg

theorem waitAll_settled (bgs : List Bg) : ∀ (o e : Bytes), Settled bgs →
    waitAll false true bgs o e =
      if bgs.all bgOk then some (some (o ++ (bgs.map (·.out)).flatten, e ++ (bgs.map (·.err)).flatten))
      else some none := by
  induction bgs with
  | nil => intro o e _; simp [waitAll]
  | cons b bs ih =>
    intro o e hs
    have hb : b.result ≠ none := hs b (by simp)
    have hbs : Settled bs := fun x hx => hs x (by simp [hx])
    cases hr : b.result with
    | none => exact absurd hr hb
    | some ok =>
      simp only [waitAll, if_true, Bool.false_eq_true, if_false, hr, List.all_cons, bgOk]
      by_cases hk : ok = b.neg
      · simp [hk]
      · have : (ok == b.neg) = false := by simpa using hk
        simp only [this, Bool.false_eq_true, if_false, ih _ _ hbs]
        simp [hk, bgOk, List.append_assoc]

/-- `wait`: the line ends `ok` exactly when EVERY outstanding background command ended as the line
that started it demands; then their outputs (joined in order) become stdout / stderr and
`ts.background` is empty.  One that did not makes the `wait` line fail, with nothing assigned. -/
theorem wait_demand (failed : Bool) (s : St) (hs : Settled s.bg) :
    cmdWait failed s false [] =
      if s.bg.all bgOk then
        ({ s with stdout := (s.bg.map (·.out)).flatten, stderr := (s.bg.map (·.err)).flatten, bg := [] }, .ok)
      else (s, .fatal) := by
  simp only [cmdWait, List.length_nil, gt_iff_lt, Nat.not_lt_zero, if_false, Bool.false_eq_true,
    waitAll_settled s.bg [] [] hs]
  by_cases h : s.bg.all bgOk = true <;> simp [h, okay, fatal]

/-- `wait name`: stdout / stderr are the named command's, whatever its status; the line ends `ok`
exactly when it ended as its `exec … &name&` line demands, and only then is the entry removed; an
unknown name fails the line. -/
theorem wait_one_demand (failed : Bool) (s : St) (name : Bytes) :
    (findBg s.bg name = none → cmdWait failed s false [name] = (s, .fatal)) ∧
    (∀ b ok, findBg s.bg name = some b → b.result = some ok →
      cmdWait failed s false [name] =
        if ok = b.neg then ({ s with stdout := b.out, stderr := b.err }, .fatal)
        else ({ s with stdout := b.out, stderr := b.err, bg := removeBg s.bg name }, .ok)) := by
  constructor
  · intro h; simp [cmdWait, h, fatal]
  · intro b ok h hr
    by_cases hk : ok = b.neg <;> simp [cmdWait, h, hr, hk, okay, fatal]

theorem signalAll_blocking (bgs : List Bg) (h : ∀ b ∈ bgs, b.blocks = true ∧ b.signalled = false) :
    signalAll bgs = some (bgs.map (fun b => { b with signalled := true })) := by
  induction bgs with
  | nil => rfl
  | cons b bs ih =>
    obtain ⟨h1, h2⟩ := h b (by simp)
    simp [signalAll, h1, h2, ih (fun x hx => h x (by simp [hx]))]

/-- `kill` (no name) signals every background command; in the fragment (helpers that block until
signalled, not signalled yet) it ends `ok` and touches nothing else. -/
theorem kill_all (failed : Bool) (s : St) (h : ∀ b ∈ s.bg, b.blocks = true ∧ b.signalled = false) :
    cmdKill failed s false [] = ({ s with bg := s.bg.map (fun b => { b with signalled := true }) }, .ok) := by
  simp [cmdKill, killArgs, signalAll_blocking s.bg h, okay]

/-- … and a killed command counts as FAILED: the following `wait` ends `ok` exactly when every one of
them was started under `!` (`! exec … &`), and fails the line otherwise. -/
theorem kill_then_wait (failed : Bool) (s : St) (h : ∀ b ∈ s.bg, b.blocks = true ∧ b.signalled = false) :
    ((cmdWait failed (cmdKill failed s false []).1 false []).2 = .ok ↔ ∀ b ∈ s.bg, b.neg = true) ∧
    ((cmdWait failed (cmdKill failed s false []).1 false []).2 = .fatal ↔ ∃ b ∈ s.bg, b.neg = false) := by
  rw [kill_all failed s h]
  have hs : Settled (s.bg.map (fun b => { b with signalled := true })) := by
    intro b hb
    obtain ⟨x, hx, rfl⟩ := List.mem_map.1 hb
    simp [Bg.result, (h x hx).1]
  rw [wait_demand failed _ hs]
  have hall : (s.bg.map (fun b => { b with signalled := true })).all bgOk = s.bg.all (fun b => b.neg) := by
    rw [List.all_map, Bool.eq_iff_iff]
    simp only [List.all_eq_true]
    constructor
    · intro hh x hx
      have := hh x hx
      simpa [bgOk, Bg.result, (h x hx).1] using this
    · intro hh x hx
      have := hh x hx
      simpa [bgOk, Bg.result, (h x hx).1] using this
  simp only [hall]
  by_cases hk : s.bg.all (fun b => b.neg) = true
  · have hk' := hk
    simp only [List.all_eq_true] at hk'
    simp only [hk, if_true, true_iff, reduceCtorEq, false_iff, not_exists, not_and]
    exact ⟨hk', fun b hb => by simp [hk' b hb]⟩
  · have hk' : ∃ b ∈ s.bg, b.neg = false := by
      simpa using hk
    simp only [hk, Bool.false_eq_true, if_false, reduceCtorEq, false_iff, true_iff]
    refine ⟨?_, hk'⟩
    obtain ⟨b, hb, hn⟩ := hk'
    intro hall'
    simpa [hn] using hall' b hb

/-- `waitBackground(false)` — what the end of a run uses — never calls Fatalf: the statuses of the
commands still running then are ignored. -/
theorem waitAll_unchecked (i : Bool) (bgs : List Bg) : ∀ (o e : Bytes), waitAll i false bgs o e ≠ some none := by
  induction bgs with
  | nil => intro o e; simp [waitAll]
  | cons b bs ih =>
    intro o e
    simp only [waitAll, Bool.false_eq_true, if_false]
    split
    · exact ih _ _
    · simp

/-! ### the plain use of some commands that have no `!` -/

/-- `cd dir`: the line succeeds exactly when `dir` is a directory (then it becomes `ts.cd`); any other
number of arguments is a usage failure. -/
def CdDemand (f : Cmd St) : Prop :=
  NoBang f ∧
  (∀ failed s args, args.length ≠ 1 → f failed s false args = (s, .fatal)) ∧
  (∀ failed s dir p, resolve s.cd dir = some p →
    f failed s false [dir] = if s.fs.isDir p then ({ s with cd := p }, .ok) else (s, .fatal))

theorem cd_demand : CdDemand cmdCd := by
  refine ⟨noBang_cd, ?_, ?_⟩
  · intro failed s args h
    match args, h with
    | [], _ => simp [cmdCd, fatal]
    | _ :: _ :: _, _ => simp [cmdCd, fatal]
  · intro failed s dir p h
    by_cases hd : s.fs.isDir p = true <;> simp [cmdCd, h, hd, okay, fatal]

/-- `env …` never fails and touches only the environment. -/
def EnvDemand (f : Cmd St) : Prop :=
  NoBang f ∧
  (∀ failed s args, (f failed s false args).2 = .ok ∧ (f failed s false args).1.fs = s.fs ∧
    (f failed s false args).1.cd = s.cd ∧ (f failed s false args).1.bg = s.bg ∧
    (f failed s false args).1.stdout = s.stdout ∧ (f failed s false args).1.stderr = s.stderr)

theorem env_demand : EnvDemand cmdEnv :=
  ⟨noBang_env, fun failed s args => by simp [cmdEnv, okay]⟩

/-- `stdin file`: succeeds exactly when the file (or `stdout` / `stderr`) can be read; its text
becomes the next command's standard input. -/
def StdinDemand (f : Cmd St) : Prop :=
  NoBang f ∧
  (∀ failed s args, args.length ≠ 1 → f failed s false args = (s, .fatal)) ∧
  (∀ failed s file b, readArg s file = .ok b → f failed s false [file] = ({ s with stdin := b }, .ok)) ∧
  (∀ failed s file, readArg s file = .err → f failed s false [file] = (s, .fatal))

theorem stdin_demand : StdinDemand cmdStdin := by
  refine ⟨noBang_stdin, ?_, ?_, ?_⟩
  · intro failed s args h
    match args, h with
    | [], _ => simp [cmdStdin, fatal]
    | _ :: _ :: _, _ => simp [cmdStdin, fatal]
  · intro failed s file b h; simp [cmdStdin, h, okay]
  · intro failed s file h; simp [cmdStdin, h, fatal]

/-- `stop [msg]`: sets `ts.stopped` and nothing else; more than one argument is a usage failure (the
script then fails instead of passing). -/
def StopDemand (f : Cmd St) : Prop :=
  NoBang f ∧ (∀ failed s args, f failed s false args = (s, if args.length ≤ 1 then .stop else .fatal))

theorem stop_demand (hs : Gen.TsRun.stopSetsStopped = true) : StopDemand cmdStop := by
  refine ⟨noBang_stop, ?_⟩
  intro failed s args
  by_cases h : args.length ≤ 1
  · have : ¬ args.length > 1 := by omega
    simp [cmdStop, hs, h, this]
  · have : args.length > 1 := by omega
    simp [cmdStop, h, this, fatal]

/-- `skip [msg]` with nothing in the background: T.Skip — or T.FailNow when a line has already failed
(ContinueOnError); more than one argument is a usage failure. -/
def SkipDemand (f : Cmd St) : Prop :=
  NoBang f ∧
  (∀ failed s args, args.length > 1 → f failed s false args = (s, .fatal)) ∧
  (∀ failed s args, args.length ≤ 1 → s.bg = [] →
    f failed s false args = ({ s with stdout := [], stderr := [] }, if failed then .failNow else .skip))

theorem skip_demand (hs : Gen.TsRun.skipChecksFailed = true) : SkipDemand cmdSkip := by
  refine ⟨noBang_skip, ?_, ?_⟩
  · intro failed s args h; simp [cmdSkip, h, fatal]
  · intro failed s args h hbg
    have : ¬ args.length > 1 := by omega
    cases failed <;> simp [cmdSkip, this, hbg, waitAll, hs]

/-! ### the table of demands -/

/-- `wait`: not negatable; the rules for `wait` and `wait name` -/
def WaitDemand (f : Cmd St) : Prop :=
  NoBang f ∧
  (∀ failed s, Settled s.bg →
    f failed s false [] =
      if s.bg.all bgOk then
        ({ s with stdout := (s.bg.map (·.out)).flatten, stderr := (s.bg.map (·.err)).flatten, bg := [] }, .ok)
      else (s, .fatal)) ∧
  (∀ failed s name, findBg s.bg name = none → f failed s false [name] = (s, .fatal)) ∧
  (∀ failed s name b ok, findBg s.bg name = some b → b.result = some ok →
    f failed s false [name] =
      if ok = b.neg then ({ s with stdout := b.out, stderr := b.err }, .fatal)
      else ({ s with stdout := b.out, stderr := b.err, bg := removeBg s.bg name }, .ok))

theorem wait_demand_all : WaitDemand cmdWait :=
  ⟨noBang_wait, fun failed s hs => wait_demand failed s hs,
   fun failed s name h => (wait_one_demand failed s name).1 h,
   fun failed s name b ok h hr => (wait_one_demand failed s name).2 b ok h hr⟩

/-- One entry per builtin of the modelled fragment (`chmod`, `symlink`, `ttyin`, `unix2dos` are outside
it): what the command demands of the world, i.e. when a line using it — plain or negated — ends `ok`. -/
def demandTable (p : P) : List (Bytes × (Cmd St → Prop)) :=
  [ (lit "cd", CdDemand), (lit "cmp", CmpDemand p false), (lit "cmpenv", CmpDemand p true), (lit "cp", NoBang),
    (lit "env", EnvDemand), (lit "exec", ExecDemand), (lit "exists", ExistsDemand), (lit "grep", GrepDemand),
    (lit "kill", NoBang), (lit "mkdir", NoBang), (lit "mv", NoBang), (lit "rm", NoBang), (lit "skip", SkipDemand),
    (lit "stderr", MatchDemand (·.stderr)), (lit "stdin", StdinDemand), (lit "stdout", MatchDemand (·.stdout)),
    (lit "ttyout", MatchDemand (fun _ => [])), (lit "stop", StopDemand), (lit "unquote", NoBang),
    (lit "wait", WaitDemand) ]

theorem lookup_of_mem_nodup {α : Type} (t : List (Bytes × α)) (k : Bytes) (v : α) (hm : (k, v) ∈ t)
    (hn : (t.map (·.1)).Nodup) : t.lookup k = some v := by
  induction t with
  | nil => simp at hm
  | cons e t ih =>
    obtain ⟨k', w⟩ := e
    simp only [List.map_cons, List.nodup_cons] at hn
    simp only [List.lookup]
    rcases List.mem_cons.1 hm with h | h
    · simp only [Prod.mk.injEq] at h
      obtain ⟨rfl, rfl⟩ := h
      simp
    · have hne : k ≠ k' := by
        intro hk; subst hk
        exact hn.1 (List.mem_map.2 ⟨(k, v), h, rfl⟩)
      have hb : (k == k') = false := by simpa using hne
      simp [hb, ih h hn.2]

theorem builtin_names_nodup (p : P) : ((builtinTable p).map (·.1)).Nodup := by
  have : (builtinTable p).map (·.1) =
      ["cd", "chmod", "cmp", "cmpenv", "cp", "env", "exec", "exists", "grep", "kill", "mkdir", "mv", "rm", "skip",
       "stderr", "stdin", "stdout", "ttyin", "ttyout", "stop", "symlink", "unix2dos", "unquote", "wait"].map lit := rfl
  rw [this]
  decide +kernel

/-- the function the table holds under a name that is in it -/
theorem builtin_at (p : P) (k : Bytes) (v : Cmd St) (hm : (k, v) ∈ builtinTable p) :
    (config p).builtin k = some v :=
  lookup_of_mem_nodup _ k v hm (builtin_names_nodup p)

theorem builtin_demand_table (hx : Gen.TsRun.execRejectsLoneBgSpec = true) (hstop : Gen.TsRun.stopSetsStopped = true)
    (hskip : Gen.TsRun.skipChecksFailed = true) (p : P) :
    ∀ e ∈ demandTable p, ∀ f, (config p).builtin e.1 = some f → e.2 f := by
  intro e he f hf
  simp only [demandTable, List.mem_cons, List.mem_nil_iff, or_false] at he
  have at_ : ∀ (k : Bytes) (v : Cmd St), (k, v) ∈ builtinTable p → (config p).builtin k = some f → f = v := by
    intro k v hm h
    rw [builtin_at p k v hm] at h
    exact (Option.some.inj h).symm
  rcases he with rfl | rfl | rfl | rfl | rfl | rfl | rfl | rfl | rfl | rfl | rfl | rfl | rfl | rfl | rfl | rfl | rfl |
    rfl | rfl | rfl
  · rw [at_ _ cmdCd (by simp [builtinTable]) hf]; exact cd_demand
  · rw [at_ _ (cmdCmp p) (by simp [builtinTable]) hf]; exact cmp_demand p false
  · rw [at_ _ (cmdCmpenv p) (by simp [builtinTable]) hf]; exact cmp_demand p true
  · rw [at_ _ cmdCp (by simp [builtinTable]) hf]; exact noBang_cp
  · rw [at_ _ cmdEnv (by simp [builtinTable]) hf]; exact env_demand
  · rw [at_ _ cmdExec (by simp [builtinTable]) hf]; exact exec_demand hx
  · rw [at_ _ cmdExists (by simp [builtinTable]) hf]; exact exists_demand
  · rw [at_ _ cmdGrep (by simp [builtinTable]) hf]; exact grep_demand
  · rw [at_ _ cmdKill (by simp [builtinTable]) hf]; exact noBang_kill
  · rw [at_ _ cmdMkdir (by simp [builtinTable]) hf]; exact noBang_mkdir
  · rw [at_ _ cmdMv (by simp [builtinTable]) hf]; exact noBang_mv
  · rw [at_ _ cmdRm (by simp [builtinTable]) hf]; exact noBang_rm
  · rw [at_ _ cmdSkip (by simp [builtinTable]) hf]; exact skip_demand hskip
  · rw [at_ _ cmdStderr (by simp [builtinTable]) hf]; exact match_demand (·.stderr)
  · rw [at_ _ cmdStdin (by simp [builtinTable]) hf]; exact stdin_demand
  · rw [at_ _ cmdStdout (by simp [builtinTable]) hf]; exact match_demand (·.stdout)
  · rw [at_ _ cmdTtyout (by simp [builtinTable]) hf]; exact match_demand (fun _ => [])
  · rw [at_ _ cmdStop (by simp [builtinTable]) hf]; exact stop_demand hstop
  · rw [at_ _ cmdUnquote (by simp [builtinTable]) hf]; exact noBang_unquote
  · rw [at_ _ cmdWait (by simp [builtinTable]) hf]; exact wait_demand_all

/-- the demand table covers every builtin name but the four outside the modelled fragment -/
theorem demandTable_keys (p : P) :
    (demandTable p).map (·.1) =
      ["cd", "cmp", "cmpenv", "cp", "env", "exec", "exists", "grep", "kill", "mkdir", "mv", "rm", "skip",
       "stderr", "stdin", "stdout", "ttyout", "stop", "unquote", "wait"].map lit := rfl

/-- the custom `exists` the harness registers is never reached -/
theorem exists_not_shadowed (LF : LineFacts) (p : P) : lookup (config p) (lit "exists") = some cmdExists :=
  lookup_builtin LF (config p) _ _ (builtin_at p (lit "exists") cmdExists (by simp [builtinTable]))

/-! ### T.FailNow is only ever called by `skip` after a failure -/

theorem skip_not_failNow (s : St) (neg : Bool) (args : List Bytes) : (cmdSkip false s neg args).2 ≠ .failNow := by
  unfold cmdSkip fatal unm
  repeat' split
  all_goals first | (simp; done) | simp_all

theorem config_failNow_only_after_failure (LF : LineFacts) (p : P) : FailNowOnlyAfterFailure (config p) := by
  intro name f s neg args hl
  rw [lookup_eq LF] at hl
  simp only [config] at hl
  split at hl
  · rename_i g hg
    simp at hl
    subst hl
    by_cases h3 : name = lit "skip"
    · rw [builtin_skip p name g hg h3]
      exact skip_not_failNow s neg args
    · by_cases h1 : name = lit "cmp"
      · have := (builtin_cmp p name g hg (Or.inl h1) false s neg args).1
        rcases this with h | h | h <;> simp [h]
      · by_cases h2 : name = lit "cmpenv"
        · have := (builtin_cmp p name g hg (Or.inr h2) false s neg args).1
          rcases this with h | h | h <;> simp [h]
        · have := (builtin_tame p name g hg h1 h2 h3 false s neg args).1
          rcases this with h | h | h | h <;> simp [h]
  · have := (custom_tame p name f hl false s neg args).1
    rcases this with h | h | h | h <;> simp [h]

end GIV.TsRun.Cmds
