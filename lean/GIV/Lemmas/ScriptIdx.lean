/-
  The index form of the tokenizer (`parseIdx`: Go's `i`, `start`, `line[start:i]`) computes exactly the
  structural form `parseLine` that the C02 theorems are about.
-/
import GIV.Lemmas.ScriptTok
namespace GIV.Script
open GIV

theorem drop_of_getElem?_none {line : Bytes} {i : Nat} (h : line[i]? = none) : line.drop i = [] := by
  rw [List.getElem?_eq_none_iff] at h
  exact List.drop_eq_nil_of_le h

theorem drop_of_getElem?_some {line : Bytes} {i : Nat} {c : UInt8} (h : line[i]? = some c) :
    line.drop i = c :: line.drop (i + 1) := by
  obtain ⟨hlt, hc⟩ := List.getElem?_eq_some_iff.1 h
  rw [List.drop_eq_getElem_cons hlt, hc]

theorem slice_self (line : Bytes) (a : Nat) : slice line a a = [] := by simp [slice]

theorem slice_succ {line : Bytes} {st i : Nat} {c : UInt8} (hst : st ≤ i) (h : line[i]? = some c) :
    slice line st (i + 1) = slice line st i ++ [c] := by
  have e : i + 1 - st = (i - st) + 1 := by omega
  have hg : (line.drop st)[i - st]? = some c := by
    rw [List.getElem?_drop]
    have : st + (i - st) = i := by omega
    rw [this, h]
  simp only [slice, e, List.take_add_one, hg, Option.toList_some]

theorem slice_one {line : Bytes} {i : Nat} {c : UInt8} (h : line[i]? = some c) : slice line i (i + 1) = [c] := by
  rw [slice_succ (Nat.le_refl i) h, slice_self]
  rfl

/-! ### single steps of the index loop (mirroring the `tok_*` step lemmas) -/

section steps
variable (env : Env) (line : Bytes) (fuel i : Nat) (args : List Bytes) (arg : Bytes)

theorem idx_end_unq (start : Option Nat) (hi : line[i]? = none) :
    parseIdxLoop env line (fuel + 1) i args arg start false =
      .ok (match start with | some st => args ++ [arg ++ expand env (slice line st i)] | none => args) := by
  conv => lhs; unfold parseIdxLoop
  cases start <;> simp [hi, chunkText_unq]

theorem idx_end_q (start : Option Nat) (hi : line[i]? = none) :
    parseIdxLoop env line (fuel + 1) i args arg start true = .error .unterminated := by
  conv => lhs; unfold parseIdxLoop
  simp [hi, Gen.Script.unterminatedIsFatal]

theorem idx_blank (start : Option Nat) {c : UInt8} (hi : line[i]? = some c) (hb : isBlank c = true) :
    parseIdxLoop env line (fuel + 1) i args arg start false =
      match start with
      | some st => parseIdxLoop env line fuel (i + 1) (args ++ [arg ++ expand env (slice line st i)]) [] none false
      | none => parseIdxLoop env line fuel (i + 1) args arg none false := by
  have hc : isComment c = false := by
    rcases (isBlank_iff c).1 hb with h | h | h <;> subst h <;> decide
  conv => lhs; unfold parseIdxLoop
  cases start <;> simp [hi, hb, hc, chunkText_unq]

theorem idx_comment (start : Option Nat) {c : UInt8} (hi : line[i]? = some c) (hc : isComment c = true) :
    parseIdxLoop env line (fuel + 1) i args arg start false =
      .ok (match start with | some st => args ++ [arg ++ expand env (slice line st i)] | none => args) := by
  conv => lhs; unfold parseIdxLoop
  cases start <;> simp [hi, hc, chunkText_unq]

theorem idx_ord (start : Option Nat) {c : UInt8} (hi : line[i]? = some c) (h : Ordinary c) :
    parseIdxLoop env line (fuel + 1) i args arg start false =
      parseIdxLoop env line fuel (i + 1) args arg (match start with | some st => some st | none => some i) false := by
  obtain ⟨hb, hc, hq⟩ := h
  conv => lhs; unfold parseIdxLoop
  cases start <;> simp [hi, hb, hc, hq]

theorem idx_open (start : Option Nat) (hi : line[i]? = some quoteChar) :
    parseIdxLoop env line (fuel + 1) i args arg start false =
      parseIdxLoop env line fuel (i + 1) args
        (arg ++ match start with | some st => expand env (slice line st i) | none => []) (some (i + 1)) true := by
  have hb : isBlank quoteChar = false := by decide
  have hc : isComment quoteChar = false := by decide
  conv => lhs; unfold parseIdxLoop
  cases start <;> simp [hi, hb, hc, chunkText_unq]

theorem idx_q_other (st : Nat) {c : UInt8} (hi : line[i]? = some c) (h : c ≠ quoteChar) :
    parseIdxLoop env line (fuel + 1) i args arg (some st) true =
      parseIdxLoop env line fuel (i + 1) args arg (some st) true := by
  conv => lhs; unfold parseIdxLoop
  simp [hi, h]

theorem idx_q_doubled (st : Nat) (hi : line[i]? = some quoteChar) (hn : line[i + 1]? = some quoteChar) :
    parseIdxLoop env line (fuel + 1) i args arg (some st) true =
      parseIdxLoop env line fuel (i + 2) args (arg ++ slice line st i) (some (i + 1)) true := by
  conv => lhs; unfold parseIdxLoop
  simp [hi, hn, chunkText_q, Gen.Script.doubledQuoteRule]

theorem idx_q_close (st : Nat) (hi : line[i]? = some quoteChar) (hn : line[i + 1]? ≠ some quoteChar) :
    parseIdxLoop env line (fuel + 1) i args arg (some st) true =
      parseIdxLoop env line fuel (i + 1) args (arg ++ slice line st i) (some (i + 1)) false := by
  conv => lhs; unfold parseIdxLoop
  have : (line[i + 1]? == some quoteChar) = false := by simpa using hn
  simp [hi, this, chunkText_q]

end steps

/-- Simulation: the index loop at position `i` is the structural loop on `line[i:]`. -/
theorem parseIdxLoop_eq (env : Env) (line : Bytes) :
    ∀ (fuel i : Nat) (args : List Bytes) (arg : Bytes) (start : Option Nat) (quoted : Bool),
      line.length - i < fuel → (∀ st, start = some st → st ≤ i) → (quoted = true → start.isSome = true) →
      parseIdxLoop env line fuel i args arg start quoted =
        tok env (line.drop i) args arg (start.map fun st => slice line st i) quoted := by
  intro fuel
  induction fuel with
  | zero => intro i args arg start quoted h; omega
  | succ fuel ih =>
    intro i args arg start quoted hf hst hqs
    cases hi : line[i]? with
    | none =>
      rw [drop_of_getElem?_none hi]
      cases quoted
      · rw [idx_end_unq _ _ _ _ _ _ _ hi, tok_nil_unq]; cases start <;> rfl
      · rw [idx_end_q _ _ _ _ _ _ _ hi, tok_nil_q]
    | some c =>
      have hlt : i < line.length := (List.getElem?_eq_some_iff.1 hi).1
      have hf' : line.length - (i + 1) < fuel := by omega
      rw [drop_of_getElem?_some hi]
      cases quoted with
      | false =>
        by_cases hq : c = quoteChar
        · subst hq
          rw [idx_open _ _ _ _ _ _ _ hi, tok_open, ih (i + 1) args _ (some (i + 1)) true hf' (by simp) (by simp)]
          cases start <;> simp [slice_self, stText]
        · by_cases hcm : isComment c = true
          · rw [idx_comment _ _ _ _ _ _ _ hi hcm, tok_comment _ _ _ _ _ _ hcm]; cases start <;> rfl
          · have hcm' : isComment c = false := by simpa using hcm
            by_cases hb : isBlank c = true
            · rw [idx_blank _ _ _ _ _ _ _ hi hb, tok_blank _ _ _ _ _ _ hb]
              cases start with
              | none => simpa using ih (i + 1) args arg none false hf' (by simp) (by simp)
              | some st => simpa using ih (i + 1) _ [] none false hf' (by simp) (by simp)
            · have hb' : isBlank c = false := by simpa using hb
              have ho : Ordinary c := ⟨hb', hcm', hq⟩
              rw [idx_ord _ _ _ _ _ _ _ hi ho, tok_ord _ _ _ _ _ _ ho]
              cases start with
              | none =>
                rw [ih (i + 1) args arg (some i) false hf' (by simp) (by simp)]
                simp [slice_one hi]
              | some st =>
                have hsti : st ≤ i := hst st rfl
                rw [ih (i + 1) args arg (some st) false hf' (by intro s hs; cases hs; omega) (by simp)]
                simp [slice_succ hsti hi]
      | true =>
        obtain ⟨st, rfl⟩ : ∃ st, start = some st := by
          cases start with
          | none => simp at hqs
          | some st => exact ⟨st, rfl⟩
        have hsti : st ≤ i := hst st rfl
        simp only [Option.map_some]
        by_cases hq : c = quoteChar
        · subst hq
          cases hn : line[i + 1]? with
          | none =>
            have hd : line.drop (i + 1) = [] := drop_of_getElem?_none hn
            rw [idx_q_close _ _ _ _ _ _ _ hi (by simp [hn]), hd, tok_q_close _ _ _ _ _ (by simp),
              ih (i + 1) args _ (some (i + 1)) false hf' (by simp) (by simp), hd]
            simp [slice_self]
          | some c2 =>
            have hd : line.drop (i + 1) = c2 :: line.drop (i + 2) := drop_of_getElem?_some hn
            have hlt2 : i + 1 < line.length := (List.getElem?_eq_some_iff.1 hn).1
            by_cases hc2 : c2 = quoteChar
            · subst hc2
              rw [idx_q_doubled _ _ _ _ _ _ _ hi hn, hd, tok_q_doubled,
                ih (i + 2) args _ (some (i + 1)) true (by omega) (by simp) (by simp)]
              simp [slice_one hn]
            · rw [idx_q_close _ _ _ _ _ _ _ hi (by simpa [hn] using hc2), hd,
                tok_q_close _ _ _ _ _ (by simpa using hc2),
                ih (i + 1) args _ (some (i + 1)) false hf' (by simp) (by simp), hd]
              simp [slice_self]
        · rw [idx_q_other _ _ _ _ _ _ _ hi hq, tok_q_other _ _ _ _ _ _ hq,
            ih (i + 1) args arg (some st) true hf' (by intro s hs; cases hs; omega) (by simp)]
          simp [slice_succ hsti hi]

/-- The index form and the structural form of the tokenizer are the same function. -/
theorem parseIdx_eq (env : Env) (line : Bytes) : parseIdx env line = parseLine env line := by
  have := parseIdxLoop_eq env line (line.length + 1) 0 [] [] none false (by omega) (by simp) (by simp)
  simpa [parseIdx, parseLine] using this

end GIV.Script
