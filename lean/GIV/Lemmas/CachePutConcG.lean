/-
  GIV.Lemmas.CachePutConcG — lookups in fault-free concurrent executions (C11): what a lookup has read
  from the index file is nothing or a WHOLE entry that some Put wrote (every system call is one step),
  and what it reports is that entry with the complete bytes of that Put.
-/
import GIV.Lemmas.CachePutConcX

set_option linter.unusedSimpArgs false
set_option linter.unusedSectionVars false
set_option linter.unusedVariables false

namespace GIV.CachePut
open GIV

variable {Id Hsh : Type} [DecidableEq Id] [DecidableEq Hsh]
variable {P : Params Id Hsh} {offered : Bytes → Prop} {now : Int}
  {fs fs' : FS Id Hsh} {proc n : Nat} {r : Res} {nx : Next Hsh}

def Op.isGet : Op Id → Bool
  | .put _ _ => false
  | _ => true

section
variable (P : Params Id Hsh) (offered : Bytes → Prop) (K : Id → Bytes → Prop)

/-- an entry of a content known to have been stored for this id. -/
def EntryK (id : Id) (e : Entry Hsh) : Prop := ∃ c, K id c ∧ offered c ∧ e = ⟨P.H c, c.length⟩

/-- every index file is empty or the whole entry of a content known to have been stored for that id. -/
def IndexK (fs : FS Id Hsh) : Prop :=
  ∀ id d, fs.content (.index id) = some d →
    d = [] ∨ ∃ c t, K id c ∧ offered c ∧ d = P.enc id (P.H c) c.length t

def LocalG (id : Id) (fs : FS Id Hsh) : PC Hsh → Prop
  | .gOpen => True
  | .gRead fd acc => acc.length < Gen.CachePut.getBufLen ∧ ∃ o, fs.fds fd = some o ∧ fs.names (.index id) = some o.ino ∧
      ((acc = [] ∧ o.off = 0) ∨
       (o.off = Gen.CachePut.entrySize ∧ ∃ c t, K id c ∧ offered c ∧ acc = P.enc id (P.H c) c.length t))
  | .gUsedStat _ e => EntryK P offered K id e
  | .gUsedChtimes _ e => EntryK P offered K id e
  | .gClose _ r => ∀ e, r = some e → EntryK P offered K id e
  | .oStat e => EntryK P offered K id e
  | .oChtimes e => EntryK P offered K id e
  | .fStat e => EntryK P offered K id e
  | .bOpen e => EntryK P offered K id e
  | .bRead _ _ e => EntryK P offered K id e
  | .bClose _ _ e => EntryK P offered K id e
  | _ => False

/-- what a lookup may report: an entry / a file / bytes of a content known to have been stored for the id. -/
def ResK (id : Id) : Result Hsh → Prop
  | .entry e => EntryK P offered K id e
  | .file e cont => ∃ c, K id c ∧ offered c ∧ e = ⟨P.H c, c.length⟩ ∧ cont = some c
  | .bytes d e => K id d ∧ offered d ∧ e = ⟨P.H d, d.length⟩
  | _ => True

def PostG (id : Id) (fs' : FS Id Hsh) : Next Hsh → Prop
  | .goto pc' => LocalG P offered K id fs' pc'
  | .done res => ResK P offered K id res
end

variable {K K' : Id → Bytes → Prop}

theorem EntryK.mono (hK : ∀ id c, K id c → K' id c) {id : Id} {e : Entry Hsh} (h : EntryK P offered K id e) :
    EntryK P offered K' id e := by
  obtain ⟨c, h1, h2, h3⟩ := h; exact ⟨c, hK _ _ h1, h2, h3⟩

theorem ResK.mono (hK : ∀ id c, K id c → K' id c) {id : Id} {res : Result Hsh} (h : ResK P offered K id res) :
    ResK P offered K' id res := by
  cases res <;> simp only [ResK] at h ⊢
  case entry e => exact h.mono hK
  case file e cont => obtain ⟨c, h1, h2, h3⟩ := h; exact ⟨c, hK _ _ h1, h2, h3⟩
  case bytes d e => exact ⟨hK _ _ h.1, h.2⟩

/-- the local facts of a lookup survive the steps of the others (and the growth of the ghost history). -/
theorem localG_mono (hK : ∀ id c, K id c → K' id c) {f : Option Nat} (hm : Mono fs fs' f) {id : Id} {pc : PC Hsh}
    (hfd : ∀ g, fdOf pc = some g → some g ≠ f ∧ g < fs.nextFd) (hL : LocalG P offered K id fs pc) :
    LocalG P offered K' id fs' pc := by
  cases pc <;> simp only [LocalG] at hL ⊢ <;> simp only [fdOf] at hfd <;>
    first | exact hL.mono hK | trivial | exact hL.elim | skip
  case gRead fd acc =>
    obtain ⟨hlt, o, h1, h2, h3⟩ := hL
    refine ⟨hlt, o, by rw [hm.fds fd (hfd fd rfl).1 (hfd fd rfl).2]; exact h1, hm.names _ _ h2, ?_⟩
    rcases h3 with h | ⟨h, c, t, k1, k2, k3⟩
    · exact Or.inl h
    · exact Or.inr ⟨h, c, t, hK _ _ k1, k2, k3⟩
  case gClose fd ro => exact fun e he => (hL e he).mono hK

/-- the system calls of a lookup are safe and change no file. -/
theorem get_safe {op : Op Id} (hop : op.isGet = true) {pc : PC Hsh} (hL : LocalG P offered K op.id fs pc) :
    SafeSys fs (sysOf P now n op pc) := by
  cases op <;> simp [Op.isGet] at hop <;> cases pc <;> simp only [LocalG] at hL <;>
    first | exact hL.elim | simp [sysOf, SafeSys]

theorem get_same {op : Op Id} (hop : op.isGet = true) {pc : PC Hsh} (hL : LocalG P offered K op.id fs pc)
    (he : execOk fs proc (sysOf P now n op pc) = some (fs', r)) : SameFiles fs fs' := by
  have he' : exec fs proc (sysOf P now n op pc) .none = some (fs', r) := by simpa [exec] using he
  cases op <;> simp [Op.isGet] at hop <;> cases pc <;> simp only [LocalG] at hL <;> simp only [sysOf] at he' <;>
    first
      | exact hL.elim
      | exact exec_stat_same he'
      | exact exec_chtimes_same he'
      | exact exec_close_same he'
      | exact exec_open_ro_same he'
      | exact exec_read_same he'

theorem postG_bytesResult (hy : Hyps P offered) {id : Id} {acc : Bytes} {e : Entry Hsh} (he : EntryK P offered K id e) :
    PostG P offered K id fs' (bytesResult P acc e) := by
  unfold bytesResult
  by_cases h : P.H acc = e.out
  · have hd : Gen.CachePut.getBytesReject (P.H acc) e.out = false := by simp [Gen.CachePut.getBytesReject, h]
    rw [hd]
    simp only [Bool.false_eq_true, if_false, PostG, ResK]
    obtain ⟨c, h1, h2, rfl⟩ := he
    have : acc = c := hy.noColl c acc h2 h
    subst this
    exact ⟨h1, h2, rfl⟩
  · have hd : Gen.CachePut.getBytesReject (P.H acc) e.out = true := by simp [Gen.CachePut.getBytesReject, h]
    rw [hd]
    simp only [if_true, PostG, ResK]

theorem postG_afterGetClose {op : Op Id} (hop : op.isGet = true) {ro : Option (Entry Hsh)}
    (he : ∀ e, ro = some e → EntryK P offered K op.id e) : PostG P offered K op.id fs' (afterGetClose op ro) := by
  cases ro with
  | none => simp [afterGetClose, PostG, ResK]
  | some e =>
    have := he e rfl
    cases op <;> simp [Op.isGet] at hop <;> simp [afterGetClose, PostG, ResK, LocalG, this]

theorem postG_afterUsed {op : Op Id} (hop : op.isGet = true) {e : Entry Hsh}
    (he : EntryK P offered K op.id e) : PostG P offered K op.id fs' (afterUsed op e) := by
  cases op <;> simp [Op.isGet] at hop <;> simp [afterUsed, PostG, LocalG, he]

/-- **One fault-free step of a lookup, concurrently with anything**: no file changes, and the lookup's
local facts are re-established; what it finally reports is known to have been stored for its id. -/
theorem get_cstep (hy : Hyps P offered) {op : Op Id} {pc : PC Hsh} (hop : op.isGet = true)
    (hinv : FSInvP P offered fs) (hig : IndexK P offered K fs)
    (hL : LocalG P offered K op.id fs pc)
    (hs : tstep P now fs proc op pc .none n = some (fs', r, nx)) : PostG P offered K op.id fs' nx := by
  obtain ⟨he, rfl⟩ := tstep_eq hs
  have he0 : execOk fs proc (sysOf P now n op pc) = some (fs', r) := by simpa [exec] using he
  have hsame : SameFiles fs fs' := get_same hop hL he0
  cases pc <;> simp only [LocalG] at hL
  case gOpen =>
    have hnx : next P fs'.content n op .gOpen r = (match r with | .okFd fd => .goto (.gRead fd []) | _ => .done .miss) := by
      cases op <;> simp [Op.isGet] at hop <;> cases r <;> rfl
    rw [hnx]
    cases r <;> simp only [PostG, ResK]
    case okFd fd =>
      have hs' : exec fs proc (.open (.index op.id) .rdonly false false) .none = some (fs', .okFd fd) := by
        cases op <;> simp [Op.isGet] at hop <;> simpa [sysOf, Op.id] using he
      obtain ⟨i, nd, h1, h2, h3⟩ := exec_okFd_ro hs'
      simp only [LocalG]
      refine ⟨by simp [Gen.CachePut.getBufLen, Gen.CachePut.entrySize], ⟨i, 0, proc⟩, h3, ?_, Or.inl ⟨trivial, rfl⟩⟩
      rw [hsame.1]; exact h1
  case gRead fd acc =>
    obtain ⟨hlt, o, h1, h2, h3⟩ := hL
    obtain ⟨nd, h4, _⟩ := hinv.1.named _ _ h2
    have hnx : next P fs'.content n op (.gRead fd acc) r = (match r with
        | .okData bs => if (acc ++ bs).length ≥ Gen.CachePut.getBufLen then .goto (.gClose fd none) else .goto (.gRead fd (acc ++ bs))
        | .eof => match P.parse op.id acc with
          | some e => .goto (.gUsedStat fd e)
          | none => .goto (.gClose fd none)
        | _ => .goto (.gClose fd none)) := by
      cases op <;> simp [Op.isGet] at hop <;> cases r <;> rfl
    have hs' : exec fs proc (.read fd (Gen.CachePut.getBufLen - acc.length)) .none = some (fs', r) := by
      cases op <;> simp [Op.isGet] at hop <;> simpa [sysOf] using he
    rw [hnx]
    by_cases hr : r = .fail
    · subst hr; simp [PostG, LocalG]
    obtain ⟨o', nd', g1, g2, hcase⟩ := read_spec hs' hr
    rw [h1] at g1; cases g1
    rw [h4] at g2; cases g2
    -- the index file is empty or one whole entry
    have hdata := hig op.id nd.data (by simp [FS.content, FS.file?, h2, h4])
    rcases hcase with ⟨rfl, rfl, hnil⟩ | ⟨bs, rfl, hbne, hbs, rfl⟩
    · -- end of file
      rcases h3 with ⟨rfl, hoff0⟩ | ⟨hoff, c, t, k1, k2, rfl⟩
      · simp [hy.parseNil, PostG, LocalG]
      · simp only [hy.parseEnc op.id c t k2, PostG, LocalG]
        exact ⟨c, k1, k2, rfl⟩
    · rcases h3 with ⟨rfl, hoff0⟩ | ⟨hoff, c, t, k1, k2, rfl⟩
      · -- first read: the whole file at once
        rcases hdata with h0 | ⟨c, t, k1, k2, hcd⟩
        · simp [hoff0, h0] at hbs
          exact absurd hbs hbne
        · have hlen : nd.data.length = Gen.CachePut.entrySize := by rw [hcd]; exact hy.encLen op.id c t k2
          have hbs' : bs = nd.data := by
            rw [hbs, hoff0]; simp [Gen.CachePut.getBufLen]
            apply List.take_of_length_le; omega
          subst hbs'
          have hlt' : ¬ ([] ++ nd.data).length ≥ Gen.CachePut.getBufLen := by
            simp [Gen.CachePut.getBufLen, hlen]
          simp only [hlt', if_false, PostG, LocalG]
          refine ⟨by simpa using Nat.lt_of_not_ge hlt', { o with off := o.off + nd.data.length }, by simp [FS.setFd], h2, Or.inr ⟨?_, c, t, k1, k2, by simpa using hcd⟩⟩
          simp [hoff0, hlen]
      · -- second read at offset 175: nothing can be left
        exfalso
        have hl : nd.data.length ≤ Gen.CachePut.entrySize := by
          rcases hdata with h0 | ⟨c', t', _, k2', hcd⟩
          · simp [h0]
          · rw [hcd, hy.encLen op.id c' t' k2']; exact Nat.le_refl _
        have : bs = [] := by rw [hbs, hoff, List.drop_eq_nil_of_le hl]; simp
        exact hbne this
  case gUsedStat fd e =>
    have hnx : next P fs'.content n op (.gUsedStat fd e) r = (if n = 0 then .goto (.gClose fd (some e)) else .goto (.gUsedChtimes fd e)) := by
      cases op <;> simp [Op.isGet] at hop <;> cases r <;> rfl
    rw [hnx]
    split <;> simp only [PostG, LocalG]
    · exact fun e' h => by cases h; exact hL
    · exact hL
  case gUsedChtimes fd e =>
    have hnx : next P fs'.content n op (.gUsedChtimes fd e) r = .goto (.gClose fd (some e)) := by
      cases op <;> simp [Op.isGet] at hop <;> cases r <;> rfl
    rw [hnx]
    simp only [PostG, LocalG]
    exact fun e' h => by cases h; exact hL
  case gClose fd ro =>
    have hnx : next P fs'.content n op (.gClose fd ro) r = afterGetClose op ro := by
      cases op <;> simp [Op.isGet] at hop <;> cases r <;> rfl
    rw [hnx]
    exact postG_afterGetClose hop hL
  case oStat e =>
    have hnx : next P fs'.content n op (.oStat e) r = (if n = 0 then afterUsed op e else .goto (.oChtimes e)) := by
      cases op <;> simp [Op.isGet] at hop <;> cases r <;> rfl
    rw [hnx]
    split
    · exact postG_afterUsed hop hL
    · exact hL
  case oChtimes e =>
    have hnx : next P fs'.content n op (.oChtimes e) r = afterUsed op e := by
      cases op <;> simp [Op.isGet] at hop <;> cases r <;> rfl
    rw [hnx]
    exact postG_afterUsed hop hL
  case fStat e =>
    obtain ⟨c, hk, hc, rfl⟩ := hL
    have hnx : next P fs'.content n op (.fStat ⟨P.H c, c.length⟩) r = (match r with
        | .okSize L => if Gen.CachePut.getFileReject L c.length then .done .miss
            else .done (.file ⟨P.H c, c.length⟩ (fs'.content (.data (P.H c))))
        | _ => .done .miss) := by
      cases op <;> simp [Op.isGet] at hop <;> cases r <;> rfl
    have hs' : exec fs proc (.stat (.data (P.H c))) .none = some (fs', r) := by
      cases op <;> simp [Op.isGet] at hop <;> simpa [sysOf] using he
    rw [hnx]
    cases r <;> simp only [PostG, ResK]
    case okSize L =>
      obtain ⟨rfl, i, nd, h1, h2, rfl⟩ := exec_okSize hs'
      simp only [Gen.CachePut.getFileReject]
      by_cases hl : nd.data.length = c.length
      · simp only [hl, ne_eq, not_true_eq_false, decide_false, Bool.false_eq_true, if_false, PostG, ResK]
        refine ⟨c, hk, hc, rfl, ?_⟩
        have hcont : fs'.content (.data (P.H c)) = some nd.data := by simp [FS.content, FS.file?, h1, h2]
        rw [hcont]
        exact congrArg some (prefix_of_length_eq (hinv.2 _ _ _ (by simp) h1 h2 c hc rfl) hl)
      · simp [hl, PostG, ResK]
  case bOpen e =>
    have hnx : next P fs'.content n op (.bOpen e) r = (match r with
        | .okFd fd => .goto (.bRead fd [] e)
        | _ => bytesResult P [] e) := by
      cases op <;> simp [Op.isGet] at hop <;> cases r <;> rfl
    rw [hnx]
    cases r <;> first
      | exact postG_bytesResult hy hL
      | exact hL
  case bRead fd acc e =>
    have hnx : next P fs'.content n op (.bRead fd acc e) r = (match r with
        | .okData bs => .goto (.bRead fd (acc ++ bs) e)
        | _ => .goto (.bClose fd acc e)) := by
      cases op <;> simp [Op.isGet] at hop <;> cases r <;> rfl
    rw [hnx]
    cases r <;> exact hL
  case bClose fd acc e =>
    have hnx : next P fs'.content n op (.bClose fd acc e) r = bytesResult P acc e := by
      cases op <;> simp [Op.isGet] at hop <;> cases r <;> rfl
    rw [hnx]
    exact postG_bytesResult hy hL
  all_goals exact hL.elim

end GIV.CachePut
