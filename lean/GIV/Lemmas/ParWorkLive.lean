/-
  GIV.Lemmas.ParWorkLive — invariants about the mutex and the condition variable of par.Work
  (needed for deadlock freedom), on top of the safety invariant.
-/
import GIV.Lemmas.ParWorkInv
namespace GIV.ParWork
open GIV.Gen.ParWork

/-- holds `w.mu` -/
def Pc.holder : Pc → Bool
  | .wait | .bcast | .unlockRet | .rand | .unlockRun _ | .addSignal _ | .addUnlock _ => true
  | _ => false

/-- has executed the final Broadcast -/
def Pc.postBcast : Pc → Bool
  | .unlockRet | .returned | .retd | .exited => true
  | _ => false

structure InvL (c : Cfg) (s : State) : Prop where
  own_holder : ∀ t : Nat, s.owner = some t → (s.pc t).holder = true
  holder_own : ∀ t : Nat, (s.pc t).holder = true → s.owner = some t
  randTodo : ∀ t : Nat, s.pc t = .rand → s.todo ≠ []
  wakeMem : ∀ t : Nat, s.pc t = .wake → t ∈ s.waiters ∨ t ∈ s.woken
  doneNoWait : ∀ d t : Nat, (s.pc d).isDone = true → s.pc t ≠ .wait
  postNoWaiters : ∀ d : Nat, (s.pc d).postBcast = true → s.waiters = []
  someDone : (s.pc 0).preDo = false → s.waiting = s.running → ∃ d : Nat, (s.pc d).isDone = true
  absentPhase : ∀ t : Nat, t < c.n → s.pc t = .absent → (s.pc 0).preDo = true ∨ ∃ i : Nat, s.pc 0 = .spawn i ∧ i ≤ t

theorem invL_init (c : Cfg) : InvL c init0 := by
  refine ⟨?_, ?_, ?_, ?_, ?_, ?_, ?_, ?_⟩ <;> simp [init0, Pc.preDo] <;> (intros; split <;> simp_all [Pc.holder, Pc.isDone, Pc.postBcast])

@[simp] theorem upd_apply (f : Nat → Pc) (t : Nat) (p : Pc) (i : Nat) : upd f t p i = if i = t then p else f i := rfl

theorem postBcast_isDone (p : Pc) (h : p.postBcast = true) : p.isDone = true := by
  cases p <;> simp_all [Pc.postBcast, Pc.isDone]

syntax "lgoals " ident ident ident : tactic
macro_rules
  | `(tactic| lgoals $l $inv $hw) => `(tactic|
    (refine ⟨?_, ?_, ?_, ?_, ?_, ?_, ?_, ?_⟩ <;> simp only [State.setPc, upd_apply, resume]
     · have a1 := ($l).own_holder; have a2 := ($l).holder_own; have b6 := ($inv).spawnAbs; clear $l $inv $hw
       first | grind [Pc.holder] | skip
     · have a1 := ($l).own_holder; have a2 := ($l).holder_own; clear $l $inv $hw
       first | grind [Pc.holder] | skip
     · have a2 := ($l).holder_own; have a3 := ($l).randTodo; clear $l $inv $hw
       first | grind [Pc.holder] | skip
     · have a4 := ($l).wakeMem; clear $l $inv $hw
       first | grind | skip
     · have a2 := ($l).holder_own; have a5 := ($l).doneNoWait; have b9 := ($inv).doneAll; have b1 := ($inv).bound
       clear $l $inv $hw
       first | grind [Pc.holder, Pc.isDone, Pc.inW] | skip
     · have a5 := ($l).doneNoWait; have a6 := ($l).postNoWaiters; clear $l $inv $hw
       first | grind [Pc.isDone, Pc.postBcast, postBcast_isDone] | skip
     · have a7 := ($l).someDone; have b4 := ($inv).waitingEq; have b8 := ($inv).run; have b7 := ($inv).pre
       have b6 := ($inv).spawnAbs; have b5 := ($inv).mainOnly
       clear $l $inv
       first | grind [Pc.isDone, Pc.preDo] | skip
     · have a8 := ($l).absentPhase; have b5 := ($inv).mainOnly; have b6 := ($inv).spawnAbs; have b3 := ($inv).spawnLt
       clear $l $inv $hw
       first | grind [Pc.preDo, Pc.mainOnly] | skip))

set_option maxHeartbeats 4000000 in
theorem invL_step {c : Cfg} (hn : 1 ≤ c.n) {s s' : State} {t : Nat} {e : Event} (inv : Inv c s)
    (l : InvL c s) (h : Step c s t e s') : InvL c s' := by
  have hwle := cnt_le Pc.inW s.pc c.n
  cases h with
  | start hpc => lgoals l inv hwle
  | @addLock p k x hpc hcall ho =>
    rw [addBody_eq]
    cases hcall <;> split <;> (try split) <;> lgoals l inv hwle
  | doCall hpc hj =>
    have hnp : ¬ c.n < 1 := by omega
    simp only [hnp, if_false, afterSpawn_eq]
    have ht0 : t = 0 := inv.mainOnly t (by rw [hpc]; rfl)
    have hw0 : s.waiting = 0 := by
      rw [inv.waitingEq, cnt_eq_zero]; rfl
      intro i _
      by_cases hi : i = 0
      · rw [hi, ← ht0, hpc]; rfl
      · rw [inv.pre (by rw [← ht0, hpc]; rfl) i hi]; rfl
    split <;> lgoals l inv hwle
    all_goals (intro _ hh; rw [hw0] at hh; exact absurd hh (by omega))
  | panic hpc => exact absurd hpc (inv.nopanic t)
  | @go i hpc =>
    simp only [afterSpawn_eq]
    have ht0 : t = 0 := inv.mainOnly t (by rw [hpc]; rfl)
    have habs : s.pc i = .absent := inv.spawnAbs t i hpc i (Nat.le_refl i)
    have f1 : ∀ q : Pc, ∀ t_1 : Nat, s.owner = some t_1 →
        (if t_1 = t then q else if t_1 = i then Pc.init else s.pc t_1).holder = true := by
      intro q t1 ho
      have h1 := l.own_holder t1 ho
      by_cases e1 : t1 = t
      · subst e1; rw [hpc] at h1; simp [Pc.holder] at h1
      · by_cases e2 : t1 = i
        · subst e2; rw [habs] at h1; simp [Pc.holder] at h1
        · simp only [e1, e2, if_false]; exact h1
    have f7 : ∀ q : Pc, s.waiting = s.running →
        ∃ d : Nat, (if d = t then q else if d = i then Pc.init else s.pc d).isDone = true := by
      intro q hw
      obtain ⟨d, hd⟩ := l.someDone (by rw [← ht0, hpc]; rfl) hw
      refine ⟨d, ?_⟩
      by_cases e1 : d = t
      · subst e1; rw [hpc] at hd; simp [Pc.isDone] at hd
      · by_cases e2 : d = i
        · subst e2; rw [habs] at hd; simp [Pc.isDone] at hd
        · simp only [e1, e2, if_false]; exact hd
    split <;> lgoals l inv hwle
    all_goals first | exact f1 _ | (intro _ hh; exact f7 _ hh)
  | lockTop hpc ho =>
    rw [loopHead_eq]
    split <;> (try split) <;> lgoals l inv hwle
  | wait hpc ho => lgoals l inv hwle
  | wake hpc hw ho =>
    rw [loopHead_eq]
    split <;> (try split) <;> lgoals l inv hwle
  | spurious hpc hw => lgoals l inv hwle
  | bcast hpc => lgoals l inv hwle
  | unlockRet hpc ho => lgoals l inv hwle
  | doReturn hpc ht0 => lgoals l inv hwle
  | exitRunner hpc ht0 => lgoals l inv hwle
  | exitMain hpc => lgoals l inv hwle
  | rand hpc hx => lgoals l inv hwle
  | unlockRun hpc ho => lgoals l inv hwle
  | fEnter hpc => lgoals l inv hwle
  | fExit hpc hk => lgoals l inv hwle
  | @signalNone k hpc hw => cases k <;> lgoals l inv hwle
  | @signalSome k w rest hpc hw => cases k <;> lgoals l inv hwle
  | @addUnlock k hpc ho => cases k <;> lgoals l inv hwle

end GIV.ParWork
