/-
  A count-driven parser for the output of `render`, and the round trip `parsePatch ∘ render = id`
  on well-formed hunks: the rendering is unambiguous even when lines look like diff syntax.
-/
import GIV.Model.Diff
import GIV.Lemmas.DiffRender
import GIV.Lemmas.DiffLines
import GIV.Lemmas.DiffScript

namespace GIV.Diff
open GIV

/-! ### decimal numbers -/

def isDigit (b : UInt8) : Bool := 48 ≤ b && b ≤ 57

/-- read digits, accumulating the value; stops at the first non-digit -/
def parseDigits : Nat → Bytes → Nat × Bytes
  | v, [] => (v, [])
  | v, b :: r => if isDigit b then parseDigits (v * 10 + (b.toNat - 48)) r else (v, b :: r)

/-- a non-empty decimal number -/
def parseNat : Bytes → Option (Nat × Bytes)
  | [] => none
  | b :: r => if isDigit b then some (parseDigits 0 (b :: r)) else none

theorem digit_ok (k : Nat) (hk : k < 10) : isDigit (48 + k).toUInt8 = true ∧ (48 + k).toUInt8.toNat - 48 = k := by
  have : k = 0 ∨ k = 1 ∨ k = 2 ∨ k = 3 ∨ k = 4 ∨ k = 5 ∨ k = 6 ∨ k = 7 ∨ k = 8 ∨ k = 9 := by omega
  rcases this with h | h | h | h | h | h | h | h | h | h <;> subst h <;> decide

theorem natDigits_acc (fuel n : Nat) (acc : Bytes) : natDigits fuel n acc = natDigits fuel n [] ++ acc := by
  induction fuel generalizing n acc with
  | zero => simp [natDigits]
  | succ fuel ih =>
    unfold natDigits
    split
    · simp
    · rw [ih, ih (n / 10) [_]]; simp

theorem parseDigits_append (ds rest : Bytes) (v : Nat) (hd : ∀ b ∈ ds, isDigit b = true) :
    parseDigits v (ds ++ rest) = parseDigits (ds.foldl (fun v b => v * 10 + (b.toNat - 48)) v) rest := by
  induction ds generalizing v with
  | nil => rfl
  | cons b ds ih =>
    simp only [List.cons_append, parseDigits, hd b (by simp), if_true, List.foldl_cons]
    exact ih _ (fun b' hb' => hd b' (by simp [hb']))

theorem natDigits_spec (fuel n : Nat) (h : n < fuel) :
    natDigits fuel n [] ≠ [] ∧ (∀ b ∈ natDigits fuel n [], isDigit b = true) ∧
    (natDigits fuel n []).foldl (fun v b => v * 10 + (b.toNat - 48)) 0 = n := by
  induction fuel generalizing n with
  | zero => omega
  | succ fuel ih =>
    unfold natDigits
    split
    · rename_i hn
      obtain ⟨d1, d2⟩ := digit_ok n hn
      refine ⟨by simp, by simpa using d1, by simp; omega⟩
    · rename_i hn
      rw [natDigits_acc]
      obtain ⟨h1, h2, h3⟩ := ih (n / 10) (by omega)
      obtain ⟨d1, d2⟩ := digit_ok (n % 10) (by omega)
      refine ⟨by simp, ?_, ?_⟩
      · intro b hb
        simp only [List.mem_append, List.mem_singleton] at hb
        rcases hb with hb | rfl
        · exact h2 b hb
        · exact d1
      · rw [List.foldl_append, h3]
        simp only [List.foldl_cons, List.foldl_nil, d2]
        omega

/-- printing then parsing a number, in front of anything that does not start with a digit -/
theorem parseNat_fmtNat (n : Nat) (rest : Bytes) (hr : ∀ b r, rest = b :: r → isDigit b = false) :
    parseNat (fmtNat n ++ rest) = some (n, rest) := by
  obtain ⟨h1, h2, h3⟩ := natDigits_spec (n + 1) n (by omega)
  unfold fmtNat
  cases hds : natDigits (n + 1) n [] with
  | nil => exact absurd hds h1
  | cons b ds =>
    rw [hds] at h2 h3
    simp only [List.cons_append, parseNat, h2 b (by simp), if_true]
    rw [← List.cons_append, parseDigits_append _ _ _ h2, h3]
    cases rest with
    | nil => rfl
    | cons c r => simp [parseDigits, hr c r rfl]

theorem parseNat_fmtInt (n : Nat) (rest : Bytes) (hr : ∀ b r, rest = b :: r → isDigit b = false) :
    parseNat (fmtInt (n : Int) ++ rest) = some (n, rest) := by
  have : fmtInt (n : Int) = fmtNat n := by
    unfold fmtInt
    rw [if_neg (by omega)]
    simp
  rw [this]
  exact parseNat_fmtNat n rest hr


/-! ### lines -/

/-- an element of `lines`: a complete line, or a last line with the missing-newline warning attached -/
def IsLine (l : Bytes) : Prop := ∃ cur, NL ∉ cur ∧ (l = cur ++ [NL] ∨ l = cur ++ noNewline)

/-- "\\ No newline at end of file\n" -/
def noNLMarker : Bytes := noNewline.tail

theorem noNewline_eq : noNewline = NL :: noNLMarker := by decide
theorem noNLMarker_head : ∃ t, noNLMarker = 92 :: t := ⟨noNLMarker.tail, by decide⟩

/-- read one body line: up to the newline, plus the warning if it follows -/
def parseLine (inp : Bytes) : Option (Bytes × Bytes) :=
  match inp.dropWhile (· != NL) with
  | [] => none
  | _ :: rest =>
    match stripPrefix noNLMarker rest with
    | some rest' => some (inp.takeWhile (· != NL) ++ noNewline, rest')
    | none => some (inp.takeWhile (· != NL) ++ [NL], rest)

/-- `rest` does not begin with a backslash -/
def NoBackslash (rest : Bytes) : Prop := ∀ b r, rest = b :: r → b ≠ 92

theorem stripPrefix_marker_none (rest : Bytes) (h : NoBackslash rest) : stripPrefix noNLMarker rest = none := by
  obtain ⟨t, ht⟩ := noNLMarker_head
  rw [ht]
  cases rest with
  | nil => rfl
  | cons b r =>
    have := h b r rfl
    simp only [stripPrefix]
    rw [if_neg (fun e => this e.symm)]

theorem parseLine_spec (l rest : Bytes) (hl : IsLine l) (hr : NoBackslash rest) :
    parseLine (l ++ rest) = some (l, rest) := by
  obtain ⟨cur, hc, rfl | rfl⟩ := hl
  · unfold parseLine
    rw [List.append_assoc, dropWhile_ne_append cur _ hc, takeWhile_ne_append cur _ hc]
    simp only [List.singleton_append, List.dropWhile_cons, List.takeWhile_cons, bne_self_eq_false, Bool.false_eq_true,
      if_false, List.append_nil]
    rw [stripPrefix_marker_none rest hr]
  · unfold parseLine
    rw [List.append_assoc, dropWhile_ne_append cur _ hc, takeWhile_ne_append cur _ hc, noNewline_eq]
    simp only [List.cons_append, List.dropWhile_cons, List.takeWhile_cons, bne_self_eq_false, Bool.false_eq_true,
      if_false, List.append_nil]
    rw [stripPrefix_append]

theorem linesGo_isLine (cur b : Bytes) (h : NL ∉ cur) : ∀ l ∈ linesGo cur b, IsLine l := by
  induction b generalizing cur with
  | nil =>
    unfold linesGo
    split
    · simp
    · intro l hl
      simp only [List.mem_singleton] at hl
      exact ⟨cur, h, Or.inr hl⟩
  | cons c b ih =>
    unfold linesGo
    split
    · intro l hl
      simp only [List.mem_cons] at hl
      rcases hl with rfl | hl
      · exact ⟨cur, h, Or.inl rfl⟩
      · exact ih [] (by simp) l hl
    · rename_i hc
      exact ih (cur ++ [c]) (by simp only [List.mem_append, List.mem_singleton, not_or]; exact ⟨h, fun e => hc e.symm⟩)

theorem lines_isLine (b : Bytes) : ∀ l ∈ lines b, IsLine l := linesGo_isLine [] b (by simp)

/-! ### hunk bodies -/

def tagOf (b : UInt8) : Option Tag :=
  if b = tagByte .ctx then some .ctx else if b = tagByte .del then some .del else if b = tagByte .ins then some .ins else none

theorem tagOf_tagByte (t : Tag) : tagOf (tagByte t) = some t := by cases t <;> decide
theorem tagByte_ne_backslash (t : Tag) : tagByte t ≠ 92 := by cases t <;> decide

/-- the counts left after a line with tag `t`; `none` if the line exceeds a count -/
def decCounts : Tag → Nat → Nat → Option (Nat × Nat)
  | .ctx, ro, rn => if 0 < ro ∧ 0 < rn then some (ro - 1, rn - 1) else none
  | .del, ro, rn => if 0 < ro then some (ro - 1, rn) else none
  | .ins, ro, rn => if 0 < rn then some (ro, rn - 1) else none

/-- read tagged lines until both counts are used up (first argument: bound on the number of lines) -/
def parseBody : Nat → Nat → Nat → Bytes → Option (List (Tag × Bytes) × Bytes)
  | 0, ro, rn, inp => if ro = 0 ∧ rn = 0 then some ([], inp) else none
  | fuel + 1, ro, rn, inp =>
    if ro = 0 ∧ rn = 0 then some ([], inp) else
    match inp with
    | [] => none
    | t :: r =>
      match tagOf t with
      | none => none
      | some tag =>
        match decCounts tag ro rn with
        | none => none
        | some (ro', rn') =>
          match parseLine r with
          | none => none
          | some (l, rest) =>
            match parseBody fuel ro' rn' rest with
            | none => none
            | some (b, rest') => some ((tag, l) :: b, rest')

theorem renderBody_cons (t : Tag) (l : Bytes) (b : List (Tag × Bytes)) :
    renderBody ((t, l) :: b) = tagByte t :: l ++ renderBody b := by
  simp [renderBody]

theorem noBackslash_renderBody (b : List (Tag × Bytes)) (rest : Bytes) (hr : NoBackslash rest) :
    NoBackslash (renderBody b ++ rest) := by
  cases b with
  | nil => simpa [renderBody] using hr
  | cons p b =>
    obtain ⟨t, l⟩ := p
    intro c r h
    rw [renderBody_cons] at h
    simp only [List.cons_append, List.cons.injEq] at h
    rw [← h.1]
    exact tagByte_ne_backslash t

theorem parseBody_renderBody (b : List (Tag × Bytes)) : ∀ (fuel : Nat) (rest : Bytes), b.length ≤ fuel →
    (∀ p ∈ b, IsLine p.2) → NoBackslash rest →
    parseBody fuel (oldSide b).length (newSide b).length (renderBody b ++ rest) = some (b, rest) := by
  induction b with
  | nil =>
    intro fuel rest _ _ _
    cases fuel <;> simp [parseBody, oldSide, newSide, renderBody]
  | cons p b ih =>
    intro fuel rest hf hl hr
    obtain ⟨t, l⟩ := p
    cases fuel with
    | zero => simp at hf
    | succ fuel =>
      have hdec : decCounts t (oldSide ((t, l) :: b)).length (newSide ((t, l) :: b)).length =
          some ((oldSide b).length, (newSide b).length) := by
        cases t <;> simp [decCounts, oldSide, newSide]
      have hnz : ¬ ((oldSide ((t, l) :: b)).length = 0 ∧ (newSide ((t, l) :: b)).length = 0) := by
        cases t <;> simp [oldSide, newSide]
      unfold parseBody
      rw [if_neg hnz, renderBody_cons]
      simp only [List.cons_append, tagOf_tagByte, hdec]
      rw [List.append_assoc, parseLine_spec l _ (hl (t, l) (by simp)) (noBackslash_renderBody b rest hr)]
      simp only
      rw [ih fuel rest (by simpa using hf) (fun p hp => hl p (by simp [hp])) hr]

/-! ### hunks -/

def parseHeader (inp : Bytes) : Option ((Nat × Nat × Nat × Nat) × Bytes) :=
  match stripPrefix [64, 64, 32, 45] inp with
  | none => none
  | some r =>
  match parseNat r with
  | none => none
  | some (a, r) =>
  match stripPrefix [44] r with
  | none => none
  | some r =>
  match parseNat r with
  | none => none
  | some (b, r) =>
  match stripPrefix [32, 43] r with
  | none => none
  | some r =>
  match parseNat r with
  | none => none
  | some (c, r) =>
  match stripPrefix [44] r with
  | none => none
  | some r =>
  match parseNat r with
  | none => none
  | some (d, r) =>
  match stripPrefix [32, 64, 64, 10] r with
  | none => none
  | some r => some ((a, b, c, d), r)

theorem parseHeader_spec (h : Hunk Bytes) (a c : Nat) (ha : h.hx = a) (hc : h.hy = c) (rest : Bytes) :
    parseHeader (hunkHeaderBytes h ++ rest) = some ((a, h.cx, c, h.cy), rest) := by
  have nd : ∀ (x : UInt8) (r' : Bytes), isDigit x = false → ∀ b r, x :: r' = b :: r → isDigit b = false := by
    intro x r' hx b r e; cases e; exact hx
  unfold parseHeader hunkHeaderBytes
  rw [ha, hc]
  simp only [List.append_assoc, List.cons_append, List.nil_append]
  rw [show ([64, 64, 32, 45] : Bytes) = [64, 64, 32, 45] ++ [] by rfl]
  simp only [List.cons_append, List.nil_append, stripPrefix, if_true]
  rw [parseNat_fmtInt a _ (nd 44 _ (by decide))]
  simp only [stripPrefix, if_true]
  rw [parseNat_fmtInt h.cx _ (nd 32 _ (by decide))]
  simp only [stripPrefix, if_true]
  rw [parseNat_fmtInt c _ (nd 44 _ (by decide))]
  simp only [stripPrefix, if_true]
  rw [parseNat_fmtInt h.cy _ (nd 32 _ (by decide))]
  simp only [stripPrefix, if_true]

/-- read hunks until the input is used up (first argument: bound on the number of hunks) -/
def parseHunks : Nat → Bytes → Option (List (Hunk Bytes))
  | _, [] => some []
  | 0, _ :: _ => none
  | fuel + 1, b :: inp =>
    match parseHeader (b :: inp) with
    | none => none
    | some ((a, cx, c, cy), r) =>
      match parseBody (cx + cy) cx cy r with
      | none => none
      | some (body, rest) =>
        match parseHunks fuel rest with
        | none => none
        | some hs => some (⟨a, cx, c, cy, body⟩ :: hs)

/-- What `parsePatch ∘ render` needs of a hunk: non-negative start lines, counts matching the
body, and body lines that are lines (no inner newline except in the warning). -/
def HunkOK (h : Hunk Bytes) : Prop :=
  0 ≤ h.hx ∧ 0 ≤ h.hy ∧ h.cx = (oldSide h.body).length ∧ h.cy = (newSide h.body).length ∧ ∀ p ∈ h.body, IsLine p.2

theorem hunkBytes_head (h : Hunk Bytes) : ∃ t, hunkBytes h = 64 :: t := by
  simp [hunkBytes, hunkHeaderBytes]

theorem noBackslash_hunks (hs : List (Hunk Bytes)) : NoBackslash (hs.map hunkBytes).flatten := by
  cases hs with
  | nil => intro b r h; simp at h
  | cons h hs =>
    obtain ⟨t, ht⟩ := hunkBytes_head h
    intro b r e
    simp only [List.map_cons, List.flatten_cons, ht, List.cons_append, List.cons.injEq] at e
    rw [← e.1]; decide

theorem sides_length_le (b : List (Tag × Bytes)) : b.length ≤ (oldSide b).length + (newSide b).length := by
  induction b with
  | nil => simp
  | cons p b ih =>
    obtain ⟨t, l⟩ := p
    cases t <;> simp [oldSide, newSide] at ih ⊢ <;> omega

theorem parseHunks_render (hs : List (Hunk Bytes)) : ∀ fuel, hs.length ≤ fuel → (∀ h ∈ hs, HunkOK h) →
    parseHunks fuel (hs.map hunkBytes).flatten = some hs := by
  induction hs with
  | nil => intro fuel _ _; cases fuel <;> simp [parseHunks]
  | cons h hs ih =>
    intro fuel hf hok
    obtain ⟨h0, h1, h2, h3, h4⟩ := hok h (by simp)
    obtain ⟨t, ht⟩ := hunkBytes_head h
    cases fuel with
    | zero => simp at hf
    | succ fuel =>
      simp only [List.map_cons, List.flatten_cons]
      rw [ht, List.cons_append]
      unfold parseHunks
      rw [← List.cons_append, ← ht]
      have hhdr := parseHeader_spec h h.hx.toNat h.hy.toNat (by omega) (by omega)
        (renderBody h.body ++ (hs.map hunkBytes).flatten)
      rw [← List.append_assoc] at hhdr
      rw [show hunkBytes h = hunkHeaderBytes h ++ renderBody h.body from rfl, hhdr]
      simp only
      rw [h2, h3, parseBody_renderBody h.body _ _ (sides_length_le h.body) h4 (noBackslash_hunks hs)]
      simp only
      rw [ih fuel (by simpa using hf) (fun h' hh' => hok h' (by simp [hh']))]
      simp only [Option.some.injEq, List.cons.injEq, and_true]
      obtain ⟨hx, cx, hy, cy, body⟩ := h
      simp only at h0 h1 h2 h3 ⊢
      rw [← h2, ← h3]
      congr <;> omega

/-- parse the output of `render` for the given file names -/
def parsePatch (n₁ n₂ out : Bytes) : Option (List (Hunk Bytes)) :=
  match stripPrefix (headerBytes n₁ n₂) out with
  | none => none
  | some r => parseHunks r.length r

theorem flatten_length_ge (hs : List (Hunk Bytes)) : hs.length ≤ ((hs.map hunkBytes).flatten).length := by
  induction hs with
  | nil => simp
  | cons h hs ih =>
    obtain ⟨t, ht⟩ := hunkBytes_head h
    simp only [List.map_cons, List.flatten_cons, List.length_append, List.length_cons, ht]
    omega

theorem parsePatch_render' (n₁ n₂ : Bytes) (hs : List (Hunk Bytes)) (hok : ∀ h ∈ hs, HunkOK h) :
    parsePatch n₁ n₂ (headerBytes n₁ n₂ ++ (hs.map hunkBytes).flatten) = some hs := by
  unfold parsePatch
  rw [stripPrefix_append]
  exact parseHunks_render hs _ (flatten_length_ge hs) hok

end GIV.Diff
