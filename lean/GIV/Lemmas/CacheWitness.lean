/-
  GIV.Lemmas.CacheWitness — concrete instances used by the non-vacuity examples of C05 / C13:
  a toy hash function that is injective on short strings, two ids, a small content set.
-/
import GIV.Lemmas.CacheOps

namespace GIV.Cache
open GIV

/-- a toy hash: the first 31 bytes (zero padded) and the length; injective on strings shorter than 32 bytes. -/
def toyH (d : Bytes) : Hash :=
  ⟨(d ++ List.replicate 31 0).take 31 ++ [d.length.toUInt8], by simp [Gen.Cache.HashSize]⟩

def id1 : Hash := toyH [1]
def id2 : Hash := toyH [2]

/-- the contents of the example histories: sizes 0, 1, 2. -/
def exC (d : Bytes) : Prop := d = [] ∨ d = [65] ∨ d = [65, 66]

theorem toyH_inj_exC : ∀ a b, exC a → exC b → toyH a = toyH b → a = b := by
  intro a b ha hb h
  rcases ha with rfl | rfl | rfl <;> rcases hb with rfl | rfl | rfl <;> first | rfl | (exact absurd h (by decide))

/-- a directory on which the gates are exercised: the index entry of `id1` claims output `toyH [65]`
of size 1, and the data file holds those bytes. -/
def exFS : FS := (FS.empty.set (fileName id1 keyA) ⟨fmtEntry id1 (toyH [65]) 1 7, 0⟩).set (fileName (toyH [65]) keyD) ⟨[65], 0⟩

/-- the closed fact about the index codec (C05, theorem `parse_fmt`) that the example entry of `exFS` parses. -/
def exEntryParses : Prop := parseEntry id1 (fmtEntry id1 (toyH [65]) 1 7) = .ok ⟨toyH [65], 1, 7⟩

theorem exFS_storedP (hp : exEntryParses) : StoredP toyH exFS id1 [65] := by
  refine ⟨⟨_, 7, ?_, hp⟩, ?_⟩
  · simp [exFS, dataOf, FS.get_set, fileName_a_ne_d]
  · simp [exFS, dataOf, FS.get_set]

/-! ### real SHA-256 on the example contents (kernel-evaluated digests) -/

set_option maxRecDepth 1000000 in
theorem sha256_ex0 : (sha256 []).val = [227, 176, 196, 66, 152, 252, 28, 20, 154, 251, 244, 200, 153, 111, 185, 36, 39, 174, 65, 228, 100, 155, 147, 76, 164, 149, 153, 27, 120, 82, 184, 85] := by decide

set_option maxRecDepth 1000000 in
theorem sha256_ex1 : (sha256 [65]).val = [85, 154, 234, 208, 130, 100, 213, 121, 93, 57, 9, 113, 140, 221, 5, 171, 212, 149, 114, 232, 79, 229, 85, 144, 238, 243, 26, 136, 160, 143, 223, 253] := by decide

set_option maxRecDepth 1000000 in
theorem sha256_ex2 : (sha256 [65, 66]).val = [56, 22, 79, 189, 23, 96, 61, 115, 246, 150, 184, 180, 215, 38, 100, 215, 53, 187, 106, 124, 136, 87, 118, 135, 253, 42, 227, 63, 214, 150, 65, 83] := by decide

/-- SHA-256 has no collision among the three example contents. -/
theorem sha256_inj_exC : ∀ a b, exC a → exC b → sha256 a = sha256 b → a = b := by
  intro a b ha hb h
  have hv := congrArg Subtype.val h
  rcases ha with rfl | rfl | rfl <;> rcases hb with rfl | rfl | rfl <;>
    first
    | rfl
    | (simp only [sha256_ex0, sha256_ex1, sha256_ex2] at hv; exact absurd hv (by decide))

end GIV.Cache
