/-
  GIV.Lemmas.FsxMore — more about `txtar.Write` (C15): the loop over a concatenation, where a failing run
  stops (the prefix before the failing entry is written, the failing entry adds at most directories), and
  what a second entry for an existing target does (EEXIST, nothing changes).  Core Lean only.
-/
import GIV.Lemmas.FsxFS

namespace GIV.Fsx
open GIV GIV.Txtar

/-! ### the loop over a concatenation -/

theorem writeFiles_append (dir : Path) (fs : FS) (a b : List File) :
    writeFiles dir fs (a ++ b) =
      match writeFiles dir fs a with
      | (some e, fs1) => (some e, fs1)
      | (none, fs1) => writeFiles dir fs1 b := by
  induction a generalizing fs with
  | nil => rfl
  | cons f rest ih =>
    simp only [List.cons_append, writeFiles]
    rcases hres : writeOne dir fs f with ⟨e, fs1⟩
    cases e with
    | some e => rfl
    | none => exact ih fs1

theorem writeFiles_append_ok {dir : Path} {fs : FS} {a : List File} (b : List File)
    (h : (writeFiles dir fs a).1 = none) :
    writeFiles dir fs (a ++ b) = writeFiles dir (writeFiles dir fs a).2 b := by
  rw [writeFiles_append]
  rcases hres : writeFiles dir fs a with ⟨e, fs1⟩
  rw [hres] at h
  simp only at h
  subst h
  rfl

/-- a run that succeeds on `a ++ b` succeeds on `a`. -/
theorem writeFiles_ok_prefix {dir : Path} {fs : FS} {a b : List File}
    (h : (writeFiles dir fs (a ++ b)).1 = none) : (writeFiles dir fs a).1 = none := by
  rw [writeFiles_append] at h
  rcases hres : writeFiles dir fs a with ⟨e, fs1⟩
  rw [hres] at h
  cases e with
  | none => rfl
  | some e => simp at h

theorem writeFiles_cons_fail {dir : Path} {fs fs1 : FS} {g : File} {e : Err} (rest : List File)
    (h : writeOne dir fs g = (some e, fs1)) : writeFiles dir fs (g :: rest) = (some e, fs1) := by
  simp [writeFiles, h]

theorem writeFiles_cons_ok {dir : Path} {fs fs1 : FS} {g : File} (rest : List File)
    (h : writeOne dir fs g = (none, fs1)) : writeFiles dir fs (g :: rest) = writeFiles dir fs1 rest := by
  simp [writeFiles, h]

/-- a failing run stops at a definite entry: everything before it was written without error, that entry's own
step returns the error, and the state `Write` leaves is the state that step leaves. -/
theorem writeFiles_fail_split (dir : Path) (fs : FS) (files : List File) (e : Err)
    (h : (writeFiles dir fs files).1 = some e) :
    ∃ pre f post, files = pre ++ f :: post ∧ (writeFiles dir fs pre).1 = none ∧
      writeOne dir (writeFiles dir fs pre).2 f = (some e, (writeFiles dir fs files).2) := by
  induction files generalizing fs with
  | nil => simp [writeFiles] at h
  | cons g rest ih =>
    rcases hres : writeOne dir fs g with ⟨e1, fs1⟩
    cases e1 with
    | some e1 =>
      rw [writeFiles_cons_fail rest hres] at h ⊢
      simp only [Option.some.injEq] at h
      subst h
      exact ⟨[], g, rest, rfl, rfl, hres⟩
    | none =>
      rw [writeFiles_cons_ok rest hres] at h ⊢
      obtain ⟨pre, f, post, hsplit, hpre, hone⟩ := ih fs1 h
      refine ⟨g :: pre, f, post, by rw [hsplit]; rfl, ?_, ?_⟩
      · rw [writeFiles_cons_ok pre hres]; exact hpre
      · rw [writeFiles_cons_ok pre hres]; exact hone

/-! ### one entry: failure adds at most directories; success leaves the file under a directory -/

/-- an entry whose step fails creates no regular file: all it can have added are directories on the way to its
target (MkdirAll runs before OpenFile). -/
theorem writeOne_fail_dirs [FOpen] (dir : Path) (fs : FS) (f : File) (e : Err)
    (h : (writeOne dir fs f).1 = some e) :
    Step (fun q n => n = .dir ∧ q <+: (joinPath dir (cleanPath f.name)).dropLast) fs (writeOne dir fs f).2 := by
  cases hrej : Gen.Fsx.writeRejects (cleanPath f.name) with
  | true => rw [writeOne_rejected hrej]; exact Step.refl _ _
  | false =>
    unfold writeOne at h ⊢
    simp only [hrej, Bool.false_eq_true, if_false, FOpen.mkdirFirst, if_true] at h ⊢
    have hmk := mkdirAll_step fs (joinPath dir (cleanPath f.name)).dropLast
    rcases hres : mkdirAll fs (joinPath dir (cleanPath f.name)).dropLast with ⟨e1, fs1⟩
    rw [hres] at hmk h
    cases e1 with
    | some e1 => exact hmk
    | none =>
      simp only [] at h ⊢
      rcases openFile_excl fs1 (joinPath dir (cleanPath f.name)) with ⟨_, _, hopen⟩ | ⟨_, e2, hopen⟩
      · rw [hopen] at h; simp at h
      · rw [hopen]; exact hmk

/-- an entry whose step succeeds: its name passed the test, its target did not exist, and afterwards the target
holds the entry's data and the target's parent is a directory. -/
theorem writeOne_ok_target [FOpen] (dir : Path) (fs : FS) (f : File) (h : (writeOne dir fs f).1 = none) :
    Gen.Fsx.writeRejects (cleanPath f.name) = false ∧
    (writeOne dir fs f).2.get (joinPath dir (cleanPath f.name)) = some (.file f.data) ∧
    (writeOne dir fs f).2.get (joinPath dir (cleanPath f.name)).dropLast = some .dir := by
  cases hrej : Gen.Fsx.writeRejects (cleanPath f.name) with
  | true => rw [writeOne_rejected hrej] at h; cases h
  | false =>
    refine ⟨rfl, ?_⟩
    unfold writeOne at h ⊢
    simp only [hrej, Bool.false_eq_true, if_false, FOpen.mkdirFirst, if_true] at h ⊢
    have hmkok := @mkdirAll_ok_get fs (joinPath dir (cleanPath f.name)).dropLast
    rcases hres : mkdirAll fs (joinPath dir (cleanPath f.name)).dropLast with ⟨e1, fs1⟩
    rw [hres] at hmkok h
    cases e1 with
    | some e1 => simp at h
    | none =>
      simp only [] at h ⊢
      have hparent := hmkok rfl
      rcases openFile_excl fs1 (joinPath dir (cleanPath f.name)) with ⟨hnone, _, hopen⟩ | ⟨_, e2, hopen⟩
      · rw [hopen]
        simp only []
        have hfne := ne_nil_of_get_none hnone
        rw [writeData_fresh _ _ hfne]
        refine ⟨get_set_self _ _ hfne, ?_⟩
        rw [get_set_ne _ _ (dropLast_ne_self hfne), get_set_ne _ _ (dropLast_ne_self hfne)]
        exact hparent
      · rw [hopen] at h; simp at h

theorem mkdirAll_of_dir {fs : FS} {p : Path} (h : fs.get p = some .dir) : mkdirAll fs p = (none, fs) := by
  unfold mkdirAll
  cases hr : p.reverse with
  | nil => rfl
  | cons c up =>
    have : (c :: up).reverse = p := by rw [← hr, List.reverse_reverse]
    unfold mkdirAllR
    rw [this, h]

/-- an entry whose target already exists as a regular file beneath an existing directory: `EEXIST`, and the file
system is exactly as before — the existing file keeps its data. -/
theorem writeOne_exists [FOpen] (dir : Path) (fs : FS) (f : File) (d : Bytes)
    (hrej : Gen.Fsx.writeRejects (cleanPath f.name) = false)
    (hfile : fs.get (joinPath dir (cleanPath f.name)) = some (.file d))
    (hparent : fs.get (joinPath dir (cleanPath f.name)).dropLast = some .dir) :
    writeOne dir fs f = (some .exists, fs) := by
  have hc : writeFlags.create = true := FOpen.create
  have he : writeFlags.excl = true := FOpen.excl
  unfold writeOne
  simp only [hrej, Bool.false_eq_true, if_false, FOpen.mkdirFirst, if_true, mkdirAll_of_dir hparent]
  simp [openFile, hfile, hc, he]

/-- **duplicate entry names.** If the archive has two entries with the same cleaned name and `Write` gets past the
first one and everything between them, the second occurrence fails with `EEXIST`, `Write` returns that error
without changing anything further, and the file holds the FIRST entry's data. -/
theorem writeFiles_duplicate [FRej] [FOpen] (dir : Path) (fs : FS) (pre mid post : List File) (f1 f2 : File)
    (hsame : cleanPath f1.name = cleanPath f2.name)
    (hok : (writeFiles dir fs (pre ++ f1 :: mid)).1 = none) :
    writeFiles dir fs ((pre ++ f1 :: mid) ++ f2 :: post) = (some .exists, (writeFiles dir fs (pre ++ f1 :: mid)).2) ∧
    (writeFiles dir fs (pre ++ f1 :: mid)).2.get (joinPath dir (cleanPath f1.name)) = some (.file f1.data) := by
  have hpre : (writeFiles dir fs pre).1 = none := writeFiles_ok_prefix hok
  have hmid : (writeFiles dir (writeFiles dir fs pre).2 (f1 :: mid)).1 = none := by
    rw [← writeFiles_append_ok _ hpre]; exact hok
  have h1 : (writeOne dir (writeFiles dir fs pre).2 f1).1 = none := by
    rcases hres : writeOne dir (writeFiles dir fs pre).2 f1 with ⟨e, fs1⟩
    cases e with
    | none => rfl
    | some e => rw [writeFiles_cons_fail mid hres] at hmid; simp at hmid
  obtain ⟨hrej, hfile, hparent⟩ := writeOne_ok_target dir _ f1 h1
  -- the state before the second occurrence
  have hstate : writeFiles dir fs (pre ++ f1 :: mid) =
      writeFiles dir (writeOne dir (writeFiles dir fs pre).2 f1).2 mid := by
    rw [writeFiles_append_ok _ hpre]
    exact writeFiles_cons_ok mid (Prod.ext h1 rfl)
  have hext := (writeFiles_inside dir (writeOne dir (writeFiles dir fs pre).2 f1).2 mid).1
  have hfile' : (writeFiles dir fs (pre ++ f1 :: mid)).2.get (joinPath dir (cleanPath f1.name)) = some (.file f1.data) := by
    rw [hstate]; exact hext _ _ hfile
  have hparent' : (writeFiles dir fs (pre ++ f1 :: mid)).2.get (joinPath dir (cleanPath f1.name)).dropLast = some .dir := by
    rw [hstate]; exact hext _ _ hparent
  refine ⟨?_, hfile'⟩
  rw [writeFiles_append_ok _ hok]
  apply writeFiles_cons_fail
  exact writeOne_exists dir _ f2 f1.data (hsame ▸ hrej) (hsame ▸ hfile') (hsame ▸ hparent')

end GIV.Fsx
