/-
  Classical linearizability of the lockedfile transition system (for C07), derived from the
  invariants of LockedfileLin / LockedfileTransform / LockedfileWrite.

  * `history files0 p ls` — the invocation / response events of the Read / Write / Transform calls on file
    `p` in the execution `ls` (a list of labelled steps from `init files0`), with the values they wrote /
    returned; every event carries the identifier of its operation (= the position of the operation's
    invocation event in the history) and the client.
  * `specStep` / `specRun` — the sequential specification of one file as a register.
  * `LinearizedBy x0 H ord` / `Linearizable x0 H` — there is a list `ord` of operations (all completed
    operations of `H`, plus possibly some pending ones with a result chosen for them; the other pending ones
    are dropped: the usual completion rule) without repetition, that respects real time
    (`[res a, inv b] <+ H → [a, b] <+ ord`) and is a legal sequential execution of the register from `x0`
    in which every completed operation has the result it has in `H`.
  * `linearizable_history` — every execution of the model in which (in every state it passes through,
    `Along (StateOK p)`) all operations running on `p` are Read / Write / Transform, no fault has been injected
    into a Read or Write on `p`, and at most one fault, at a data step (ReadAll read, tail pwrite, body pwrite,
    shrinking ftruncate), into each Transform on `p`, has a linearizable history.
    `linearizable_history_fault_free`: the same from a hypothesis on the labels only (`FaultFree`).
    The witness is the ghost commit order `commitOrder`: every operation enters it at the step that releases its
    flock (`releases`; for Write / Transform this is the step that pushes its commit on `World.hist`, for Read
    nobody has committed since its flock, `HistOK`); an operation that returns without ever having got the
    lock (a Read of a file that does not exist) enters it when it returns.  A pending operation is completed
    iff it has passed that point (a later Read may already have seen its commit).
    The proof is an induction along the execution (`GInv`, `ginv_call` / `ginv_sys` / `ginv_ret`); the step that
    matters, `legal_release`, is a corollary of the existing invariants: `ReadOK` (Inv3), `TransOK`/`TFin` (Inv4),
    `WriteOK`/`WFin` (Inv5), `HistOK` (Inv2), and of `hist_change` / `release_pushes` (the commit history
    changes exactly at the release of an exclusive lock by an operation on that file, `Inv1`).

  What is NOT covered (the existing invariants do not give it, and for most of it the claim is false):
  * a Write into which a fault was injected: a failed / short write leaves a prefix of the content in the file and
    commits that (`WriteOK` says nothing about it) — not a register operation;
  * a Read into which a fault was injected: `read_complete` still gives the value, but after a failed Unlock AND a
    failed Close the Read returns while its descriptor keeps the shared lock, so there is no release step to
    take as linearization point (one would have to linearize it at its flock step, where its result is not known yet);
  * a Transform with two or more faults, or with a fault at the roll-back steps or in closeFile
    (`transform_commits` is conditional on `NoRb`; see `demoTF2` in Props/C07: the old contents are lost);
  * files that are also accessed through OpenFile / Create / Edit handles or a Mutex (their user I/O is not a
    register operation): excluded by `StateOK` (every operation running on `p` is a Read / Write / Transform).
  The specification is permissive about errors: a Read that does not return contents and a Transform that reports
  an error are allowed whenever they leave the contents unchanged (it does not say WHEN they may fail).
-/
import GIV.Lemmas.LockedfileWrite

namespace GIV.Lockedfile
open GIV
open scoped List

/-! ### small list facts -/

theorem pair_sublist_snoc {α : Type} {x y z : α} {l : List α} :
    [x, y] <+ l ++ [z] → [x, y] <+ l ∨ (y = z ∧ x ∈ l) := by
  intro h
  rw [← List.reverse_sublist] at h
  simp only [List.reverse_append, List.reverse_cons, List.reverse_nil, List.nil_append,
    List.cons_append] at h
  rcases List.sublist_cons_iff.1 h with h | ⟨r, hr, h⟩
  · left
    rw [← List.reverse_sublist]
    simpa using h
  · right
    simp only [List.cons.injEq] at hr
    obtain ⟨rfl, rfl⟩ := hr
    exact ⟨rfl, by simpa using h⟩

theorem pair_sublist_snoc_of_mem {α : Type} {x z : α} {l : List α} (h : x ∈ l) : [x, z] <+ l ++ [z] := by
  have : [x] <+ l := List.singleton_sublist.2 h
  simpa using this.append (List.Sublist.refl [z])

theorem mem_of_pair_sublist {α : Type} {x y : α} {l : List α} (h : [x, y] <+ l) : x ∈ l ∧ y ∈ l :=
  ⟨h.subset (by simp), h.subset (by simp)⟩

/-! ### history, sequential specification, linearizable -/

/-- The operations the property is about. -/
def Op.isRWT : Op → Bool
  | .read _ => true
  | .write _ _ => true
  | .transform _ _ => true
  | _ => false

/-- An event of a history: the invocation of an operation by client `c` (with its arguments: the content
to write, the function to apply) or its response (with the value it returned).  `id` names the operation:
it is the position of the operation's invocation event in the history. -/
inductive Ev
  | inv (id : Nat) (c : Cid) (op : Op)
  | res (id : Nat) (c : Cid) (r : Ret)

def Ev.id : Ev → Nat
  | .inv id _ _ => id
  | .res id _ _ => id

/-- An operation with its result, as it appears in a sequential execution. -/
structure OpRec where
  id : Nat
  c : Cid
  op : Op
  ret : Ret

/-- **The sequential specification of one file as a register** holding `x`: the new contents after
operation `op` returned `r`, or `none` if `op` cannot return `r` when the file holds `x`.
* Read returns the current contents (a Read that reports an error — the file does not exist — has no effect);
* Write v sets them to v and returns nil;
* Transform t that returns nil has set them to `t x`; a Transform that reports an error (`t x` failed, or
  a fault was injected) leaves them unchanged. -/
def specStep (x : Bytes) : Op → Ret → Option Bytes
  | .read _, .bytes v => if v = x then some x else none
  | .read _, _ => some x
  | .write _ v, .ok => some v
  | .transform _ t, .ok => t x
  | .transform _ _, .err => some x
  | _, _ => none

/-- Run a sequence of operations (oldest first) through the register specification. -/
def specRun : Bytes → List OpRec → Option Bytes
  | x, [] => some x
  | x, o :: os => (specStep x o.op o.ret).bind (fun x' => specRun x' os)

theorem specRun_snoc (x : Bytes) (l : List OpRec) (o : OpRec) :
    specRun x (l ++ [o]) = (specRun x l).bind (fun y => specStep y o.op o.ret) := by
  induction l generalizing x with
  | nil => simp [specRun]
  | cons a l ih =>
    simp only [List.cons_append, specRun]
    cases specStep x a.op a.ret with
    | none => rfl
    | some y => simpa using ih y

/-- **Linearizable history** (Herlihy–Wing, with operation identifiers): there is a total order `ord` of
operations such that
* no operation occurs twice;
* every operation of `ord` was invoked in `H`, and if it completed in `H` it has in `ord` the result it has in `H`
  (pending operations may be completed with any result, or dropped);
* every operation that completed in `H` is in `ord`;
* `ord` respects real time: if the response of `a` precedes the invocation of `b` in `H` then `a` comes before `b`;
* `ord` is a legal sequential execution of the register specification from the initial contents `x0`.
`LinearizedBy x0 H ord`: `ord` is such an order; `Linearizable x0 H`: one exists. -/
def LinearizedBy (x0 : Bytes) (H : List Ev) (ord : List OpRec) : Prop :=
  (ord.map (·.id)).Nodup ∧
  (∀ o ∈ ord, Ev.inv o.id o.c o.op ∈ H ∧ ∀ r, Ev.res o.id o.c r ∈ H → r = o.ret) ∧
  (∀ id c r, Ev.res id c r ∈ H → ∃ o ∈ ord, o.id = id ∧ o.c = c) ∧
  (∀ a ∈ ord, ∀ b ∈ ord, [Ev.res a.id a.c a.ret, Ev.inv b.id b.c b.op] <+ H → [a, b] <+ ord) ∧
  (specRun x0 ord).isSome = true

def Linearizable (x0 : Bytes) (H : List Ev) : Prop := ∃ ord : List OpRec, LinearizedBy x0 H ord

/-! ### the ghost: history and commit order along an execution -/

structure Ghost where
  /-- the history so far (oldest first) -/
  H : List Ev
  /-- the operations that have passed their linearization point, in that order (oldest first) -/
  ord : List OpRec
  /-- the running tracked operation of each client: its identifier, and whether it is already in `ord` -/
  cur : Cid → Option (Nat × Bool)

def ghost0 : Ghost := ⟨[], [], fun _ => none⟩

/-- The result of the system call of a `sys` step. -/
def sysRes (s : State) (l : Label) : Option Res := (stepRes s l).bind (·.2)

/-- The result closeFile was handed / the operation returns. -/
def Pc.finRet : Pc → Ret
  | .unlock _ r => r
  | .close _ r _ => r
  | .done r => r
  | _ => .err

/-- One step of the ghost for file `p` (`s` is the state before the step `l`). -/
def gstep (p : Path) (s : State) (l : Label) (g : Ghost) : Ghost :=
  match l.a with
  | .call op =>
    if op.path = p ∧ op.isRWT = true then
      { g with H := g.H ++ [.inv g.H.length l.c op], cur := upd g.cur l.c (some (g.H.length, false)) }
    else g
  | .sys f _ =>
    match (s.cl l.c).cur, g.cur l.c, sysRes s l with
    | some fr, some (id, false), some r =>
      if releases fr.pc r f = true then
        { g with ord := g.ord ++ [⟨id, l.c, fr.op, fr.pc.finRet⟩], cur := upd g.cur l.c (some (id, true)) }
      else g
    | _, _, _ => g
  | .ret =>
    match (s.cl l.c).cur, g.cur l.c with
    | some fr, some (id, b) =>
      { H := g.H ++ [.res id l.c fr.pc.finRet],
        ord := if b then g.ord else g.ord ++ [⟨id, l.c, fr.op, fr.pc.finRet⟩],
        cur := upd g.cur l.c none }
    | _, _ => g

/-- Run the model and the ghost together. -/
def gRun (p : Path) : State → Ghost → List Label → Option (State × Ghost)
  | s, g, [] => some (s, g)
  | s, g, l :: ls =>
    match step s l with
    | none => none
    | some s' => gRun p s' (gstep p s l g) ls

/-- **The history** of the execution `ls` (from `init files0`) on file `p`: the invocation and response events
of its Read / Write / Transform calls on `p`, oldest first.  (Empty if `ls` is not an execution of the model.) -/
def history (files0 : Path → Option Bytes) (p : Path) (ls : List Label) : List Ev :=
  match gRun p (init files0) ghost0 ls with
  | some (_, g) => g.H
  | none => []

/-- The ghost commit order of the execution: the witness of `linearizable_history`. -/
def commitOrder (files0 : Path → Option Bytes) (p : Path) (ls : List Label) : List OpRec :=
  match gRun p (init files0) ghost0 ls with
  | some (_, g) => g.ord
  | none => []

theorem gRun_runLabels {p : Path} {s : State} {g : Ghost} {ls : List Label} {s' : State}
    (h : runLabels s ls = some s') : ∃ g', gRun p s g ls = some (s', g') := by
  induction ls generalizing s g with
  | nil => simp [runLabels] at h; subst h; exact ⟨g, rfl⟩
  | cons l ls ih =>
    simp only [runLabels] at h
    cases hs : step s l with
    | none => simp [hs] at h
    | some s1 =>
      simp [hs] at h
      simp only [gRun, hs]
      exact ih h

/-! ### hypotheses on an execution -/

/-- The faults the existing theorems allow: none in a Read or Write (`write_commits`), at most one, at a data
step, in a Transform (`transform_fault`). -/
def FaultOK (fr : Frame) : Prop :=
  match fr.op with
  | .transform _ _ =>
    fr.flt = [] ∨ ∃ tag f, fr.flt = [(tag, f)] ∧ (tag = .read ∨ tag = .tail ∨ tag = .body ∨ tag = .shrink)
  | _ => fr.flt = []

/-- Every operation running on `p` is a Read / Write / Transform with allowed faults only. -/
def StateOK (p : Path) (s : State) : Prop :=
  ∀ c fr, (s.cl c).cur = some fr → fr.op.path = p → fr.op.isRWT = true ∧ FaultOK fr

/-- `P` holds in every state the execution `ls` passes through, starting in `s`. -/
def Along (P : State → Prop) : State → List Label → Prop
  | s, [] => P s
  | s, l :: ls => P s ∧ ∀ s', step s l = some s' → Along P s' ls

/-! ### the model: which steps change the commit history -/

theorem sysRes_of {s : State} {c : Cid} {f : Fault} {n : Nat} {fr : Frame} {sc tag w' r}
    (hcur : (s.cl c).cur = some fr) (hs : sysOf fr n = some (sc, tag)) (hos : osStep s.w c sc f = some (w', r)) :
    sysRes s ⟨c, .sys f n⟩ = some r := by
  simp [sysRes, stepRes, hcur, hs, hos]

theorem release_pc {pc : Pc} {r : Res} {f : Fault} (h : releases pc r f = true) :
    r = .ok ∧ ((∃ fd ret, pc = .unlock fd ret) ∨ (∃ fd ret, pc = .close fd ret true ∧ f ≠ .shared)) := by
  cases pc <;> simp [releases] at h <;> first | (cases r <;> simp at h; done) | skip
  · cases r <;> simp at h
    exact ⟨rfl, .inl ⟨_, _, rfl⟩⟩
  · rename_i fd ret b
    cases b <;> cases r <;> simp at h
    exact ⟨rfl, .inr ⟨_, _, rfl, h⟩⟩

/-- The step that releases an exclusive lock pushes the contents on the commit history. -/
theorem release_pushes {s : State} {c : Cid} {fr : Frame} {n : Nat} {sc tag f w' r} (hi : Inv1 s)
    (hcur : (s.cl c).cur = some fr) (hs : sysOf fr n = some (sc, tag)) (hos : osStep s.w c sc f = some (w', r))
    (hrel : releases fr.pc r f = true) (hex : lockMode fr.op.flag = .ex) :
    w'.hist fr.op.path = s.w.content fr.op.path :: s.w.hist fr.op.path := by
  have hfr := (hi.clients c).frame fr hcur
  obtain ⟨rfl, hpc | hpc⟩ := release_pc hrel
  · obtain ⟨fd, ret, hpc⟩ := hpc
    simp only [sysOf, hpc] at hs
    simp at hs; obtain ⟨rfl, _⟩ := hs
    obtain ⟨ho, _, hk⟩ := hfr.fd fd (by simp [hpc, Pc.fd?])
    simp only [hpc, Pc.locked, if_true, hex] at hk
    obtain ⟨o, hod, hpath, _⟩ := ho.open
    rcases cls_funlock hod hos with ⟨e, _, he, _⟩ | ⟨_, _, rfl⟩
    · cases he
    · rw [hpath]; exact dropLock_pushes hk
  · obtain ⟨fd, ret, hpc, hns⟩ := hpc
    simp only [sysOf, hpc] at hs
    simp at hs; obtain ⟨rfl, _⟩ := hs
    obtain ⟨ho, _, hk⟩ := hfr.fd fd (by simp [hpc, Pc.fd?])
    simp only [hpc, Pc.locked, if_true, hex] at hk
    obtain ⟨o, hod, hpath, _⟩ := ho.open
    rcases cls_close hod hos with ⟨e, _, he, _⟩ | ⟨_, _, _, rfl⟩ | ⟨hsh, _, _⟩
    · cases he
    · rw [closeFd_hist, hpath]; exact dropLock_pushes hk
    · exact absurd hsh hns

/-- The commit history of `p` changes only at the step by which an operation on `p` releases its exclusive lock. -/
theorem hist_change {s : State} {c : Cid} {fr : Frame} {n : Nat} {sc tag f w' r} (hi : Inv1 s)
    (hcur : (s.cl c).cur = some fr) (hs : sysOf fr n = some (sc, tag)) (hos : osStep s.w c sc f = some (w', r))
    {p : Path} (hne : w'.hist p ≠ s.w.hist p) :
    fr.op.path = p ∧ releases fr.pc r f = true ∧ lockMode fr.op.flag = .ex := by
  have hfr := (hi.clients c).frame fr hcur
  rcases osStep_hist hos p with e | ⟨fd0, hctl, hex, _⟩
  · exact absurd e hne
  · have hfd := sysOf_ctl hfr hs hctl
    obtain ⟨ho, _, hk⟩ := hfr.fd fd0 hfd
    by_cases hl : fr.pc.locked = true
    · rw [if_pos hl] at hk
      obtain ⟨o, hod, hpath, _⟩ := ho.open
      have hp : fr.op.path = p := by rw [← hpath]; exact hi.world.holds_path hex hod
      subst hp
      have hm := (hi.world.ex_only hex hk).2
      refine ⟨rfl, ?_, hm⟩
      cases hpc : fr.pc <;> simp only [sysOf, hpc] at hs <;> rw [hpc] at hl hfd
      case unlock fd ret =>
        simp at hs; obtain ⟨rfl, _⟩ := hs
        simp [Pc.fd?] at hfd; subst hfd
        rcases cls_funlock hod hos with ⟨e, _, _, rfl⟩ | ⟨_, rfl, _⟩
        · exact absurd rfl hne
        · simp [releases]
      case close fd ret b =>
        simp at hs; obtain ⟨rfl, _⟩ := hs
        simp [Pc.fd?] at hfd; subst hfd
        simp [Pc.locked] at hl; subst hl
        rcases cls_close hod hos with ⟨e, _, _, rfl⟩ | ⟨_, hns, rfl, _⟩ | ⟨_, _, rfl⟩
        · exact absurd rfl hne
        · simp [releases, hns]
        · exact absurd rfl hne
      case done r' => cases hs
      all_goals (first | (simp [Pc.locked] at hl; done) | skip)
      all_goals (first | (split at hs <;> simp at hs) | simp at hs)
      all_goals (obtain ⟨rfl, _⟩ := hs; simp [Sys.ctl] at hctl)
    · rw [if_neg hl] at hk
      exact absurd hex (hk p .ex)

/-! ### control points before / after the linearization point -/

/-- Before the release: if the operation is already on its way out (it never got the lock), it reports an error. -/
def Pc.noResult : Pc → Prop
  | .close _ ret false => ret = .err
  | .done ret => ret = .err
  | _ => True

/-- After the release: the operation is on its way out with result `ret`. -/
def Pc.after (ret : Ret) : Pc → Prop
  | .close _ r false => r = ret
  | .done r => r = ret
  | _ => False

theorem rwt_pc {files0 : Path → Option Bytes} {s : State} (hr : Reachable files0 s) {c : Cid} {fr : Frame}
    (hcur : (s.cl c).cur = some fr) (hop : fr.op.isRWT = true) :
    (∀ fd m, fr.pc ≠ .mlock fd m) ∧ (∀ x, fr.pc ≠ .user x) := by
  cases hop' : fr.op <;> rw [hop'] at hop <;> simp [Op.isRWT] at hop
  case read p =>
    have := reachable_Inv3 hr c fr p hcur hop'
    unfold ReadOK at this
    exact ⟨fun fd m e => by rw [e] at this; exact this, fun x e => by rw [e] at this; exact this⟩
  case write p content =>
    have := reachable_Inv5 hr c fr p content hcur hop'
    unfold WriteOK at this
    exact ⟨fun fd m e => by rw [e] at this; exact this, fun x e => by rw [e] at this; exact this⟩
  case transform p t =>
    have := reachable_Inv4 hr c fr p t hcur hop'
    unfold TransOK at this
    exact ⟨fun fd m e => by rw [e] at this; exact this, fun x e => by rw [e] at this; exact this⟩

theorem closeRet_err (op : Op) (b : Bool) : closeRet op .err b = .err := by
  simp [closeRet]

theorem advancePc_noResult {op : Op} {pc : Pc} {n : Nat} {r : Res} (hop : op.isRWT = true)
    (hm : ∀ fd m, pc ≠ .mlock fd m) (hu : ∀ x, pc ≠ .user x) (hn : pc.noResult)
    (hc : ∀ fd ret, pc ≠ .close fd ret true) (hul : ∀ fd ret, pc = .unlock fd ret → r ≠ .ok) :
    (advancePc op pc n r).noResult := by
  cases pc
  case mlock fd m => exact absurd rfl (hm fd m)
  case user x => exact absurd rfl (hu x)
  case close fd ret b =>
    cases b
    · simp only [Pc.noResult] at hn; subst hn
      simp only [advancePc, closeRet_err]
      split <;> rfl
    · exact absurd rfl (hc fd ret)
  case unlock fd ret =>
    have := hul fd ret rfl
    simp only [advancePc]
    split
    · exact absurd rfl this
    · split <;> trivial
    · trivial
  case done ret => exact hn
  all_goals
    cases op <;> simp [Op.isRWT] at hop <;>
      simp only [advancePc, finPc_eq, rollbackPc, afterLock, afterOpen] <;>
      (repeat' split) <;> trivial

/-! ### the invariant that ties the ghost to the model -/

/-- What the ghost knows about the running operation `fr` of client `c` (an operation on the tracked file). -/
def Tracked (g : Ghost) (c : Cid) (fr : Frame) : Prop :=
  ∃ id b, g.cur c = some (id, b) ∧ Ev.inv id c fr.op ∈ g.H ∧ (∀ r, Ev.res id c r ∉ g.H) ∧
    (b = false → id ∉ g.ord.map (·.id) ∧ fr.pc.noResult) ∧
    (b = true → ∃ o ∈ g.ord, o.id = id ∧ o.c = c ∧ o.op = fr.op ∧ fr.pc.after o.ret)

structure GInv (p : Path) (x0 : Bytes) (s : State) (g : Ghost) : Prop where
  /-- the commit order is a legal sequential execution, and it ends in the newest committed value -/
  legal : specRun x0 g.ord = (s.w.hist p).head?
  idle : ∀ c, (s.cl c).cur = none → g.cur c = none
  off : ∀ c fr, (s.cl c).cur = some fr → fr.op.path ≠ p → g.cur c = none
  on : ∀ c fr, (s.cl c).cur = some fr → fr.op.path = p → Tracked g c fr
  ids : ∀ e ∈ g.H, e.id < g.H.length
  curLt : ∀ c id b, g.cur c = some (id, b) → id < g.H.length
  inj : ∀ c1 c2 id b1 b2, g.cur c1 = some (id, b1) → g.cur c2 = some (id, b2) → c1 = c2
  nodup : (g.ord.map (·.id)).Nodup
  ordH : ∀ o ∈ g.ord, Ev.inv o.id o.c o.op ∈ g.H ∧ ∀ r, Ev.res o.id o.c r ∈ g.H → r = o.ret
  compl : ∀ id c r, Ev.res id c r ∈ g.H → ∃ o ∈ g.ord, o.id = id ∧ o.c = c
  rt : ∀ a ∈ g.ord, ∀ b ∈ g.ord, [Ev.res a.id a.c a.ret, Ev.inv b.id b.c b.op] <+ g.H → [a, b] <+ g.ord

theorem ginv_init (p : Path) (files0 : Path → Option Bytes) :
    GInv p (contentOf (files0 p)) (init files0) ghost0 := by
  refine { legal := ?_, idle := ?_, off := ?_, on := ?_, ids := ?_, curLt := ?_, inj := ?_, nodup := ?_,
           ordH := ?_, compl := ?_, rt := ?_ } <;> simp [ghost0, init, initWorld, specRun]

theorem Tracked.mono {g g' : Ghost} {c : Cid} {fr : Frame} (h : Tracked g c fr) (hcur : g'.cur c = g.cur c)
    (hH : ∀ e, e ∈ g.H → e ∈ g'.H) (hres : ∀ id r, Ev.res id c r ∈ g'.H → Ev.res id c r ∈ g.H)
    (hord : ∀ o, o ∈ g.ord → o ∈ g'.ord)
    (hnew : ∀ id b, g.cur c = some (id, b) → ∀ o ∈ g'.ord, o.id = id → o ∈ g.ord) : Tracked g' c fr := by
  obtain ⟨id, b, h1, h2, h3, h4, h5⟩ := h
  refine ⟨id, b, hcur.trans h1, hH _ h2, fun r hr => h3 r (hres _ _ hr), fun hb => ⟨?_, (h4 hb).2⟩, fun hb => ?_⟩
  · intro hm
    obtain ⟨o, ho, hoid⟩ := List.mem_map.1 hm
    exact (h4 hb).1 (List.mem_map.2 ⟨o, hnew id b h1 o ho hoid, hoid⟩)
  · obtain ⟨o, ho, hrest⟩ := h5 hb
    exact ⟨o, hord o ho, hrest⟩

theorem ginv_call {p : Path} {x0 : Bytes} {s s' : State} {g : Ghost} {c : Cid} {op : Op} (hg : GInv p x0 s g)
    (hs : step s ⟨c, .call op⟩ = some s') (hok' : StateOK p s') :
    GInv p x0 s' (gstep p s ⟨c, .call op⟩ g) := by
  obtain ⟨hcur, _, rfl⟩ := step_call hs
  have hsame : ∀ X, ((setClient s c X).cl c) = X := fun X => setClient_cl_same s c X
  have hoth : ∀ X c', c' ≠ c → ((setClient s c X).cl c') = s.cl c' := fun X c' h => setClient_cl_other s c X c' h
  by_cases ht : op.path = p ∧ op.isRWT = true
  · have hgs : gstep p s ⟨c, .call op⟩ g =
        { g with H := g.H ++ [.inv g.H.length c op], cur := upd g.cur c (some (g.H.length, false)) } := by
      simp [gstep, ht]
    rw [hgs]
    have hmem : ∀ e, e ∈ g.H → e ∈ g.H ++ [Ev.inv g.H.length c op] := fun e he => List.mem_append_left _ he
    have hresm : ∀ id c' r, Ev.res id c' r ∈ g.H ++ [Ev.inv g.H.length c op] → Ev.res id c' r ∈ g.H := by
      intro id c' r h
      rcases List.mem_append.1 h with h | h
      · exact h
      · simp at h
    refine { legal := hg.legal, idle := ?_, off := ?_, on := ?_, ids := ?_, curLt := ?_, inj := ?_,
             nodup := hg.nodup, ordH := ?_, compl := ?_, rt := ?_ }
    · intro c' hc'
      by_cases hcc : c' = c
      · subst hcc; rw [hsame] at hc'; cases hc'
      · rw [hoth _ _ hcc] at hc'
        show upd g.cur c _ c' = none
        rw [upd_other _ _ _ _ hcc]; exact hg.idle c' hc'
    · intro c' fr hc' hp
      by_cases hcc : c' = c
      · subst hcc; rw [hsame] at hc'; cases hc'; exact absurd ht.1 hp
      · rw [hoth _ _ hcc] at hc'
        show upd g.cur c _ c' = none
        rw [upd_other _ _ _ _ hcc]; exact hg.off c' fr hc' hp
    · intro c' fr hc' hp
      by_cases hcc : c' = c
      · subst hcc; rw [hsame] at hc'; cases hc'
        refine ⟨g.H.length, false, upd_same _ _ _, List.mem_append_right _ (by simp), ?_, fun _ => ⟨?_, ?_⟩,
          fun h => by cases h⟩
        · intro r hr
          have := hg.ids _ (hresm _ _ _ hr)
          simp [Ev.id] at this
        · intro hm
          obtain ⟨o, ho, hoid⟩ := List.mem_map.1 hm
          have := hg.ids _ (hg.ordH o ho).1
          simp only [Ev.id] at this
          omega
        · have : startPc op = .open := by
            cases op <;> simp [Op.isRWT] at ht <;> rfl
          simp only [this]; trivial
      · rw [hoth _ _ hcc] at hc'
        exact (hg.on c' fr hc' hp).mono (upd_other _ _ _ _ hcc) hmem (fun id r => hresm id c' r) (fun o ho => ho)
          (fun _ _ _ o ho _ => ho)
    · intro e he
      rcases List.mem_append.1 he with he | he
      · have := hg.ids e he; simp; omega
      · simp at he; subst he; simp [Ev.id]
    · intro c' id b hc'
      by_cases hcc : c' = c
      · subst hcc
        have : upd g.cur c' (some (g.H.length, false)) c' = some (id, b) := hc'
        rw [upd_same] at this; cases this; simp
      · have : upd g.cur c (some (g.H.length, false)) c' = some (id, b) := hc'
        rw [upd_other _ _ _ _ hcc] at this
        have := hg.curLt c' id b this; simp; omega
    · intro c1 c2 id b1 b2 h1 h2
      have h1' : upd g.cur c (some (g.H.length, false)) c1 = some (id, b1) := h1
      have h2' : upd g.cur c (some (g.H.length, false)) c2 = some (id, b2) := h2
      by_cases hc1 : c1 = c <;> by_cases hc2 : c2 = c
      · rw [hc1, hc2]
      · subst hc1; rw [upd_same] at h1'; cases h1'
        rw [upd_other _ _ _ _ hc2] at h2'
        have := hg.curLt c2 _ b2 h2'; omega
      · subst hc2; rw [upd_same] at h2'; cases h2'
        rw [upd_other _ _ _ _ hc1] at h1'
        have := hg.curLt c1 _ b1 h1'; omega
      · rw [upd_other _ _ _ _ hc1] at h1'; rw [upd_other _ _ _ _ hc2] at h2'
        exact hg.inj c1 c2 id b1 b2 h1' h2'
    · intro o ho
      exact ⟨hmem _ (hg.ordH o ho).1, fun r hr => (hg.ordH o ho).2 r (hresm _ _ _ hr)⟩
    · intro id c' r hr
      exact hg.compl id c' r (hresm _ _ _ hr)
    · intro a ha b hb hsub
      rcases pair_sublist_snoc hsub with h | ⟨h, _⟩
      · exact hg.rt a ha b hb h
      · simp only [Ev.inv.injEq] at h
        have := hg.ids _ (hg.ordH b hb).1
        simp only [Ev.id] at this
        omega
  · have hgs : gstep p s ⟨c, .call op⟩ g = g := by simp [gstep, ht]
    rw [hgs]
    have hp : op.path ≠ p := by
      intro hp
      have := (hok' c _ (by rw [hsame]) hp).1
      exact ht ⟨hp, this⟩
    refine { legal := hg.legal, idle := ?_, off := ?_, on := ?_, ids := hg.ids, curLt := hg.curLt, inj := hg.inj,
             nodup := hg.nodup, ordH := hg.ordH, compl := hg.compl, rt := hg.rt }
    · intro c' hc'
      by_cases hcc : c' = c
      · subst hcc; rw [hsame] at hc'; cases hc'
      · rw [hoth _ _ hcc] at hc'; exact hg.idle c' hc'
    · intro c' fr hc' hp'
      by_cases hcc : c' = c
      · subst hcc; exact hg.idle c' hcur
      · rw [hoth _ _ hcc] at hc'; exact hg.off c' fr hc' hp'
    · intro c' fr hc' hp'
      by_cases hcc : c' = c
      · subst hcc; rw [hsame] at hc'; cases hc'; exact absurd hp' hp
      · rw [hoth _ _ hcc] at hc'; exact hg.on c' fr hc' hp'

theorem eq_of_nodup_map_id {l : List OpRec} (hn : (l.map (·.id)).Nodup) {a b : OpRec} (ha : a ∈ l) (hb : b ∈ l)
    (h : a.id = b.id) : a = b := by
  induction l with
  | nil => cases ha
  | cons x t ih =>
    simp only [List.map_cons, List.nodup_cons] at hn
    rcases List.mem_cons.1 ha with ha1 | ha1 <;> rcases List.mem_cons.1 hb with hb1 | hb1
    · rw [ha1, hb1]
    · subst ha1
      have : a.id ∈ t.map (·.id) := List.mem_map.2 ⟨b, hb1, h.symm⟩
      exact absurd this hn.1
    · subst hb1
      have : b.id ∈ t.map (·.id) := List.mem_map.2 ⟨a, ha1, h⟩
      exact absurd this hn.1
    · exact ih hn.2 ha1 hb1

theorem ginv_ret {files0 : Path → Option Bytes} {p : Path} {x0 : Bytes} {s s' : State} {g : Ghost} {c : Cid}
    (hr : Reachable files0 s) (hg : GInv p x0 s g) (hs : step s ⟨c, .ret⟩ = some s') (hok : StateOK p s) :
    GInv p x0 s' (gstep p s ⟨c, .ret⟩ g) := by
  obtain ⟨fr, r, hcur, hpc, rfl⟩ := step_ret hs
  have hsame : ∀ X, ((setClient s c X).cl c) = X := fun X => setClient_cl_same s c X
  have hoth : ∀ X c', c' ≠ c → ((setClient s c X).cl c') = s.cl c' := fun X c' h => setClient_cl_other s c X c' h
  have hidle : ∀ (g' : Ghost), g'.cur = upd g.cur c none →
      ∀ c', ((setClient s c ⟨heldAfterRet (s.cl c).held fr.op r, none⟩).cl c').cur = none → g'.cur c' = none := by
    intro g' hg' c' hc'
    by_cases hcc : c' = c
    · subst hcc; rw [hg', upd_same]
    · rw [hoth _ _ hcc] at hc'; rw [hg', upd_other _ _ _ _ hcc]; exact hg.idle c' hc'
  by_cases hp : fr.op.path = p
  · obtain ⟨id, b, h1, h2, h3, h4, h5⟩ := hg.on c fr hcur hp
    have hfin : fr.pc.finRet = r := by rw [hpc]; rfl
    have hgs : gstep p s ⟨c, .ret⟩ g =
        { H := g.H ++ [.res id c r],
          ord := if b then g.ord else g.ord ++ [⟨id, c, fr.op, r⟩],
          cur := upd g.cur c none } := by
      simp [gstep, hcur, h1, hfin]
    rw [hgs]
    have hmem : ∀ e, e ∈ g.H → e ∈ g.H ++ [Ev.res id c r] := fun e he => List.mem_append_left _ he
    have hinvm : ∀ i c' op', Ev.inv i c' op' ∈ g.H ++ [Ev.res id c r] → Ev.inv i c' op' ∈ g.H := by
      intro i c' op' h
      rcases List.mem_append.1 h with h | h
      · exact h
      · simp at h
    have hresm : ∀ i c' r', Ev.res i c' r' ∈ g.H ++ [Ev.res id c r] →
        Ev.res i c' r' ∈ g.H ∨ (i = id ∧ c' = c ∧ r' = r) := by
      intro i c' r' h
      rcases List.mem_append.1 h with h | h
      · exact .inl h
      · simp at h; exact .inr h
    have hidlt := hg.curLt c id b h1
    have hids : ∀ e ∈ g.H ++ [Ev.res id c r], e.id < (g.H ++ [Ev.res id c r]).length := by
      intro e he
      rcases List.mem_append.1 he with he | he
      · have := hg.ids e he; simp; omega
      · simp at he; subst he; simp [Ev.id]; omega
    have hcurLt : ∀ c' id' b', upd g.cur c none c' = some (id', b') → id' < (g.H ++ [Ev.res id c r]).length := by
      intro c' id' b' hc'
      by_cases hcc : c' = c
      · subst hcc; rw [upd_same] at hc'; cases hc'
      · rw [upd_other _ _ _ _ hcc] at hc'
        have := hg.curLt c' id' b' hc'; simp; omega
    have hinj : ∀ c1 c2 id' b1 b2, upd g.cur c none c1 = some (id', b1) → upd g.cur c none c2 = some (id', b2) →
        c1 = c2 := by
      intro c1 c2 id' b1 b2 e1 e2
      by_cases hc1 : c1 = c
      · subst hc1; rw [upd_same] at e1; cases e1
      · by_cases hc2 : c2 = c
        · subst hc2; rw [upd_same] at e2; cases e2
        · rw [upd_other _ _ _ _ hc1] at e1; rw [upd_other _ _ _ _ hc2] at e2
          exact hg.inj c1 c2 id' b1 b2 e1 e2
    have hoff : ∀ c' fr', ((setClient s c ⟨heldAfterRet (s.cl c).held fr.op r, none⟩).cl c').cur = some fr' →
        fr'.op.path ≠ p → upd g.cur c none c' = none := by
      intro c' fr' hc' hp'
      by_cases hcc : c' = c
      · subst hcc; rw [upd_same]
      · rw [hoth _ _ hcc] at hc'; rw [upd_other _ _ _ _ hcc]; exact hg.off c' fr' hc' hp'
    cases b
    · -- the operation never got its lock: it is linearized now
      obtain ⟨hnid, hnr⟩ := h4 rfl
      have hrerr : r = .err := by rw [hpc] at hnr; exact hnr
      simp only [Bool.false_eq_true, if_false]
      have hnewmem : ∀ o' ∈ g.ord ++ [(⟨id, c, fr.op, r⟩ : OpRec)], o'.id = id → o' = ⟨id, c, fr.op, r⟩ := by
        intro o' ho' hid
        rcases List.mem_append.1 ho' with ho' | ho'
        · exact absurd (List.mem_map.2 ⟨o', ho', hid⟩) hnid
        · simpa using ho'
      refine { legal := ?_, idle := hidle _ rfl, off := hoff, on := ?_, ids := hids, curLt := hcurLt, inj := hinj,
               nodup := ?_, ordH := ?_, compl := ?_, rt := ?_ }
      · show specRun x0 (g.ord ++ [⟨id, c, fr.op, r⟩]) = (s.w.hist p).head?
        rw [specRun_snoc, hg.legal]
        have hne := reachable_hist_ne hr p
        cases hh : s.w.hist p with
        | nil => exact absurd hh hne
        | cons x rest =>
          simp only [List.head?_cons, Option.bind_some]
          subst hrerr
          have hrwt := (hok c fr hcur hp).1
          have hflt := (hok c fr hcur hp).2
          cases hop : fr.op <;> rw [hop] at hrwt <;> simp [Op.isRWT] at hrwt
          · rfl
          · rename_i q content
            have := reachable_Inv5 hr c fr q content hcur hop
            unfold WriteOK at this; rw [hpc] at this
            unfold FaultOK at hflt; rw [hop] at hflt
            rcases this.1 with ⟨e, _⟩ | ⟨_, e⟩
            · cases e
            · exact absurd hflt e
          · rfl
      · intro c' fr' hc' hp'
        by_cases hcc : c' = c
        · subst hcc; rw [hsame] at hc'; cases hc'
        · rw [hoth _ _ hcc] at hc'
          refine (hg.on c' fr' hc' hp').mono (upd_other _ _ _ _ hcc) hmem ?_ (fun o ho => List.mem_append_left _ ho) ?_
          · intro i r' hr'
            rcases hresm _ _ _ hr' with h | ⟨_, h, _⟩
            · exact h
            · exact absurd h hcc
          · intro id' b' hc'' o' ho' hid'
            rcases List.mem_append.1 ho' with ho' | ho'
            · exact ho'
            · simp at ho'; subst ho'
              simp only at hid'; subst hid'
              exact absurd (hg.inj c' c _ b' false hc'' h1) hcc
      · rw [List.map_append, List.nodup_append]
        refine ⟨hg.nodup, by simp, ?_⟩
        intro a ha b hb
        simp at hb; subst hb
        intro e; subst e; exact hnid ha
      · intro o' ho'
        rcases List.mem_append.1 ho' with ho' | ho'
        · refine ⟨hmem _ (hg.ordH o' ho').1, fun r' hr' => ?_⟩
          rcases hresm _ _ _ hr' with h | ⟨h, _, _⟩
          · exact (hg.ordH o' ho').2 r' h
          · exact absurd (List.mem_map.2 ⟨o', ho', h⟩) hnid
        · simp at ho'; subst ho'
          refine ⟨hmem _ h2, fun r' hr' => ?_⟩
          rcases hresm _ _ _ hr' with h | ⟨_, _, h⟩
          · exact absurd h (h3 r')
          · exact h
      · intro i c' r' hr'
        rcases hresm _ _ _ hr' with h | ⟨rfl, rfl, rfl⟩
        · obtain ⟨o', ho', h⟩ := hg.compl i c' r' h
          exact ⟨o', List.mem_append_left _ ho', h⟩
        · exact ⟨⟨i, c', fr.op, r'⟩, List.mem_append_right _ (by simp), rfl, rfl⟩
      · intro a ha b hb hsub
        rcases pair_sublist_snoc hsub with h | ⟨h, _⟩
        · rcases List.mem_append.1 ha with ha | ha
          · rcases List.mem_append.1 hb with hb | hb
            · exact (hg.rt a ha b hb h).trans (List.sublist_append_left _ _)
            · simp at hb; subst hb
              exact pair_sublist_snoc_of_mem ha
          · simp at ha; subst ha
            exact absurd (mem_of_pair_sublist h).1 (h3 _)
        · cases h
    · -- the operation was linearized when it released its lock
      obtain ⟨o, ho, hoid, hoc, hoop, hoaft⟩ := h5 rfl
      have hor : r = o.ret := by rw [hpc] at hoaft; exact hoaft
      simp only [if_true]
      refine { legal := hg.legal, idle := hidle _ rfl, off := hoff, on := ?_, ids := hids, curLt := hcurLt, inj := hinj,
               nodup := hg.nodup, ordH := ?_, compl := ?_, rt := ?_ }
      · intro c' fr' hc' hp'
        by_cases hcc : c' = c
        · subst hcc; rw [hsame] at hc'; cases hc'
        · rw [hoth _ _ hcc] at hc'
          refine (hg.on c' fr' hc' hp').mono (upd_other _ _ _ _ hcc) hmem ?_ (fun o ho => ho) (fun _ _ _ o ho _ => ho)
          intro i r' hr'
          rcases hresm _ _ _ hr' with h | ⟨_, h, _⟩
          · exact h
          · exact absurd h hcc
      · intro o' ho'
        refine ⟨hmem _ (hg.ordH o' ho').1, fun r' hr' => ?_⟩
        rcases hresm _ _ _ hr' with h | ⟨h, _, h'⟩
        · exact (hg.ordH o' ho').2 r' h
        · have : o' = o := eq_of_nodup_map_id hg.nodup ho' ho (h.trans hoid.symm)
          rw [this, h', hor]
      · intro i c' r' hr'
        rcases hresm _ _ _ hr' with h | ⟨rfl, rfl, rfl⟩
        · exact hg.compl i c' r' h
        · exact ⟨o, ho, hoid, hoc⟩
      · intro a ha b hb hsub
        rcases pair_sublist_snoc hsub with h | ⟨h, _⟩
        · exact hg.rt a ha b hb h
        · cases h
  · have hgc := hg.off c fr hcur hp
    have hgs : gstep p s ⟨c, .ret⟩ g = g := by simp [gstep, hcur, hgc]
    rw [hgs]
    refine { legal := hg.legal, idle := ?_, off := ?_, on := ?_, ids := hg.ids, curLt := hg.curLt, inj := hg.inj,
             nodup := hg.nodup, ordH := hg.ordH, compl := hg.compl, rt := hg.rt }
    · intro c' hc'
      by_cases hcc : c' = c
      · subst hcc; exact hgc
      · rw [hoth _ _ hcc] at hc'; exact hg.idle c' hc'
    · intro c' fr' hc' hp'
      by_cases hcc : c' = c
      · subst hcc; exact hgc
      · rw [hoth _ _ hcc] at hc'; exact hg.off c' fr' hc' hp'
    · intro c' fr' hc' hp'
      by_cases hcc : c' = c
      · subst hcc; rw [hsame] at hc'; cases hc'
      · rw [hoth _ _ hcc] at hc'; exact hg.on c' fr' hc' hp'

/-- A fault recorded in an operation with allowed faults: the operation is a Transform, it is its only fault,
and it hit a data step. -/
theorem FaultOK.cons {fr : Frame} {x : Tag × Fault} {rest : List (Tag × Fault)} (h : FaultOK fr)
    (hf : fr.flt = x :: rest) : x.1 = .read ∨ x.1 = .tail ∨ x.1 = .body ∨ x.1 = .shrink := by
  unfold FaultOK at h
  cases hop : fr.op <;> rw [hop] at h <;> simp only at h
  case transform q t =>
    rcases h with h | ⟨tag, f, h, ht⟩
    · rw [hf] at h; cases h
    · rw [hf] at h; cases h; exact ht
  all_goals (rw [hf] at h; cases h)

theorem FaultOK.noRb {fr : Frame} (h : FaultOK fr) : NoRb fr.flt := by
  intro x hx
  obtain ⟨pre, post, e⟩ := List.append_of_mem hx
  cases pre with
  | nil =>
    rcases h.cons e with h | h | h | h <;> simp [h]
  | cons y pre =>
    unfold FaultOK at h
    cases hop : fr.op <;> rw [hop] at h <;> simp only at h
    case transform q t =>
      rcases h with h | ⟨tag, f, h, _⟩
      · rw [e] at h; cases h
      · rw [e] at h; simp at h
    all_goals (rw [e] at h; cases h)

/-- A step that leaves the ghost alone. -/
theorem ginv_keep {p : Path} {x0 : Bytes} {s : State} {g : Ghost} {c : Cid} {w' : World} {fr fr' : Frame}
    (hg : GInv p x0 s g) (hcur : (s.cl c).cur = some fr) (hop : fr'.op = fr.op)
    (hh : w'.hist p = s.w.hist p) (htr : fr.op.path = p → Tracked g c fr') :
    GInv p x0 ⟨w', upd s.cl c ⟨(s.cl c).held, some fr'⟩⟩ g := by
  refine { legal := by rw [hg.legal]; exact congrArg _ hh.symm, idle := ?_, off := ?_, on := ?_, ids := hg.ids,
           curLt := hg.curLt, inj := hg.inj, nodup := hg.nodup, ordH := hg.ordH, compl := hg.compl, rt := hg.rt }
  · intro c' hc'
    by_cases hcc : c' = c
    · subst hcc; simp only [upd_same] at hc'; cases hc'
    · simp only [upd_other _ _ _ _ hcc] at hc'; exact hg.idle c' hc'
  · intro c' fr'' hc' hp'
    by_cases hcc : c' = c
    · subst hcc; simp only [upd_same, Option.some.injEq] at hc'; subst hc'
      rw [hop] at hp'; exact hg.off c' fr hcur hp'
    · simp only [upd_other _ _ _ _ hcc] at hc'; exact hg.off c' fr'' hc' hp'
  · intro c' fr'' hc' hp'
    by_cases hcc : c' = c
    · subst hcc; simp only [upd_same, Option.some.injEq] at hc'; subst hc'
      rw [hop] at hp'; exact htr hp'
    · simp only [upd_other _ _ _ _ hcc] at hc'; exact hg.on c' fr'' hc' hp'

/-- **The step that releases the lock is a legal step of the register specification**: appending the releasing
operation (with the result closeFile was handed) to the commit order keeps it a legal sequential execution
ending in the newest committed value.  Read: `ReadOK` (it returns the newest value, nobody committed under
its shared lock); Write: `WriteOK`; Transform: `TransOK` (`TFin`). -/
theorem legal_release {files0 : Path → Option Bytes} {p : Path} {x0 : Bytes} {s : State} {g : Ghost} {c : Cid}
    {fr : Frame} {n : Nat} {sc tag f w' r} (hr : Reachable files0 s) (hg : GInv p x0 s g)
    (hcur : (s.cl c).cur = some fr) (hsys : sysOf fr n = some (sc, tag)) (hos : osStep s.w c sc f = some (w', r))
    (hp : fr.op.path = p) (hrwt : fr.op.isRWT = true) (hflt : FaultOK fr) (hrel : releases fr.pc r f = true)
    (o : OpRec) (ho1 : o.op = fr.op) (ho2 : o.ret = fr.pc.finRet) :
    specRun x0 (g.ord ++ [o]) = (w'.hist p).head? := by
  have hi := reachable_Inv1 hr
  have hne := reachable_hist_ne hr p
  rw [specRun_snoc, hg.legal, ho1, ho2]
  obtain ⟨_, hpc⟩ := release_pc hrel
  have hlk : fr.pc.locked = true ∧ fr.pc.preLock = false := by
    rcases hpc with ⟨fd, ret, e⟩ | ⟨fd, ret, e, _⟩ <;> rw [e] <;> exact ⟨rfl, rfl⟩
  have hopens : fr.op.opens = true := by
    cases hop : fr.op <;> rw [hop] at hrwt <;> simp [Op.isRWT] at hrwt <;> rfl
  have hh := (reachable_Inv2 hr).hist c fr hcur hopens
  unfold HistOK at hh
  rw [if_neg (by simp [hlk.2]), if_pos hlk.1, hp] at hh
  cases hhist : s.w.hist p with
  | nil => exact absurd hhist hne
  | cons x rest =>
    simp only [List.head?_cons, Option.bind_some]
    have hh1 : fr.h1.head? = some x := by rw [← hh.1, hhist]; rfl
    cases hop : fr.op <;> rw [hop] at hrwt <;> simp [Op.isRWT] at hrwt
    case read q =>
      have hsame : w'.hist p = s.w.hist p := by
        apply Classical.byContradiction; intro hne'
        have := (hist_change hi hcur hsys hos hne').2.2
        rw [hop] at this
        have hsh : lockMode Gen.Lockedfile.flagsOpen = .sh := by decide
        exact absurd (hsh.symm.trans this) (by decide)
      rw [hsame, hhist]; simp only [List.head?_cons]
      have hro := reachable_Inv3 hr c fr q hcur hop
      unfold ReadOK at hro
      have hv : ∀ v, fr.pc.finRet = .bytes v → v = x := by
        intro v hv
        have : fr.h1.head? = some v := by
          rcases hpc with ⟨fd, ret, e⟩ | ⟨fd, ret, e, _⟩ <;> rw [e] at hro hv <;> exact hro v hv
        rw [hh1] at this; cases this; rfl
      cases hfr : fr.pc.finRet <;> simp only [specStep]
      rw [if_pos (hv _ hfr)]
    case write q content =>
      have hq : q = p := by rw [hop] at hp; exact hp
      have hex : lockMode fr.op.flag = .ex := by rw [hop]; show lockMode Gen.Lockedfile.flagsWrite = .ex; decide
      have hpush := release_pushes hi hcur hsys hos hrel hex
      rw [hp] at hpush
      have hwo := reachable_Inv5 hr c fr q content hcur hop
      unfold WriteOK at hwo
      have hf0 : fr.flt = [] := by unfold FaultOK at hflt; rw [hop] at hflt; exact hflt
      rcases hpc with ⟨fd, ret, e⟩ | ⟨fd, ret, e, _⟩ <;> rw [e] at hwo
      · obtain ⟨_, hfin⟩ := hwo
        rcases hfin with ⟨h1, h2⟩ | ⟨_, h2⟩
        · rw [hp] at h2
          rw [hpush, e, h2]; simp [Pc.finRet, h1, specStep]
        · exact absurd hf0 h2
      · exact absurd hf0 hwo.2.2
    case transform q t =>
      have hex : lockMode fr.op.flag = .ex := by rw [hop]; show lockMode Gen.Lockedfile.flagsEdit = .ex; decide
      have hpush := release_pushes hi hcur hsys hos hrel hex
      rw [hp] at hpush
      have hto := reachable_Inv4 hr c fr q t hcur hop
      unfold TransOK at hto
      have hfin : TFin t fr.h1 fr.flt fr.pc.finRet (s.w.content p) := by
        rcases hpc with ⟨fd, ret, e⟩ | ⟨fd, ret, e, _⟩ <;> rw [e] at hto ⊢ <;> rw [← hp] <;> exact hto.2
      obtain ⟨o', ho', hcase⟩ := hfin
      rw [hh1] at ho'; cases ho'
      rw [hpush]; simp only [List.head?_cons]
      rcases hcase with ⟨h1, h2, _⟩ | ⟨h1, h2, _⟩
      · rw [h1]; simpa [specStep] using h2
      · rw [h1, h2 hflt.noRb]; simp [specStep]

theorem ginv_sys {files0 : Path → Option Bytes} {p : Path} {x0 : Bytes} {s s' : State} {g : Ghost} {c : Cid}
    {f : Fault} {n : Nat} (hr : Reachable files0 s) (hg : GInv p x0 s g)
    (hs : step s ⟨c, .sys f n⟩ = some s') (hok : StateOK p s) (hok' : StateOK p s') :
    GInv p x0 s' (gstep p s ⟨c, .sys f n⟩ g) := by
  have hi := reachable_Inv1 hr
  obtain ⟨fr, sc, tag, w', r, hcur, hsys, hos, rfl⟩ := step_sys hs
  have hsr := sysRes_of hcur hsys hos
  have hfrm := (hi.clients c).frame fr hcur
  have hsame_of : releases fr.pc r f = false → w'.hist p = s.w.hist p := by
    intro hrel; apply Classical.byContradiction; intro hne
    have := (hist_change hi hcur hsys hos hne).2.1
    rw [hrel] at this; cases this
  by_cases hp : fr.op.path = p
  · obtain ⟨hrwt, hflt⟩ := hok c fr hcur hp
    have hflt' : FaultOK (nextFrame s.w w' fr sc tag f n r) := (hok' c (nextFrame s.w w' fr sc tag f n r) (by simp) hp).2
    obtain ⟨id, b, h1, h2, h3, h4, h5⟩ := hg.on c fr hcur hp
    -- a failing / shared close is a fault that `FaultOK` excludes
    have hclose : ∀ fd ret b0, fr.pc = .close fd ret b0 → r = .ok ∧ f ≠ .shared := by
      intro fd ret b0 hpc
      obtain ⟨ho, _, _⟩ := hfrm.fd fd (by simp [hpc, Pc.fd?])
      obtain ⟨o, hod, _⟩ := ho.open
      simp only [sysOf, hpc] at hsys
      simp at hsys; obtain ⟨rfl, rfl⟩ := hsys
      rcases cls_close hod hos with ⟨e, hf, _, _⟩ | ⟨_, hns, hrok, _⟩ | ⟨hsh, _, _⟩
      · have := hflt'.cons (nextFrame_flt_err hf); simp at this
      · exact ⟨hrok, hns⟩
      · subst hsh
        have := hflt'.cons nextFrame_flt_shared_close; simp at this
    cases b
    · by_cases hrel : releases fr.pc r f = true
      · -- the linearization point
        obtain ⟨hnid, _⟩ := h4 rfl
        have hgs : gstep p s ⟨c, .sys f n⟩ g =
            { g with ord := g.ord ++ [⟨id, c, fr.op, fr.pc.finRet⟩], cur := upd g.cur c (some (id, true)) } := by
          simp [gstep, hcur, h1, hsr, hrel]
        rw [hgs]
        have haft : Pc.after fr.pc.finRet (advancePc fr.op fr.pc n r) := by
          obtain ⟨rfl, hpc | hpc⟩ := release_pc hrel
          · obtain ⟨fd, ret, hpc⟩ := hpc
            rw [hpc]; simp [advancePc, Pc.finRet, Pc.after]
          · obtain ⟨fd, ret, hpc, _⟩ := hpc
            rw [hpc]; simp [advancePc, Pc.finRet, Pc.after]
        refine { legal := legal_release hr hg hcur hsys hos hp hrwt hflt hrel _ rfl rfl, idle := ?_, off := ?_,
                 on := ?_, ids := hg.ids, curLt := ?_, inj := ?_, nodup := ?_, ordH := ?_, compl := ?_, rt := ?_ }
        · intro c' hc'
          by_cases hcc : c' = c
          · subst hcc; simp only [upd_same] at hc'; cases hc'
          · simp only [upd_other _ _ _ _ hcc] at hc'
            show upd g.cur c _ c' = none
            rw [upd_other _ _ _ _ hcc]; exact hg.idle c' hc'
        · intro c' fr'' hc' hp'
          by_cases hcc : c' = c
          · subst hcc; simp only [upd_same, Option.some.injEq] at hc'; subst hc'
            exact absurd hp hp'
          · simp only [upd_other _ _ _ _ hcc] at hc'
            show upd g.cur c _ c' = none
            rw [upd_other _ _ _ _ hcc]; exact hg.off c' fr'' hc' hp'
        · intro c' fr'' hc' hp'
          by_cases hcc : c' = c
          · subst hcc; simp only [upd_same, Option.some.injEq] at hc'; subst hc'
            exact ⟨id, true, upd_same _ _ _, h2, h3, (fun h => by cases h),
              fun _ => ⟨⟨id, c', fr.op, fr.pc.finRet⟩, List.mem_append_right _ (by simp), rfl, rfl, rfl, haft⟩⟩
          · simp only [upd_other _ _ _ _ hcc] at hc'
            refine (hg.on c' fr'' hc' hp').mono (upd_other _ _ _ _ hcc) (fun e he => he) (fun _ _ h => h)
              (fun o ho => List.mem_append_left _ ho) ?_
            intro id' b' hc'' o' ho' hid'
            rcases List.mem_append.1 ho' with ho' | ho'
            · exact ho'
            · simp at ho'; subst ho'
              simp only at hid'; subst hid'
              exact absurd (hg.inj c' c _ b' false hc'' h1) hcc
        · intro c' id' b' hc'
          have hc'' : upd g.cur c (some (id, true)) c' = some (id', b') := hc'
          by_cases hcc : c' = c
          · subst hcc; rw [upd_same] at hc''; cases hc''; exact hg.curLt c' _ _ h1
          · rw [upd_other _ _ _ _ hcc] at hc''; exact hg.curLt c' id' b' hc''
        · intro c1 c2 id' b1 b2 e1 e2
          have e1' : upd g.cur c (some (id, true)) c1 = some (id', b1) := e1
          have e2' : upd g.cur c (some (id, true)) c2 = some (id', b2) := e2
          by_cases hc1 : c1 = c <;> by_cases hc2 : c2 = c
          · rw [hc1, hc2]
          · subst hc1; rw [upd_same] at e1'; cases e1'
            rw [upd_other _ _ _ _ hc2] at e2'
            exact hg.inj c1 c2 _ false b2 h1 e2'
          · subst hc2; rw [upd_same] at e2'; cases e2'
            rw [upd_other _ _ _ _ hc1] at e1'
            exact hg.inj c1 c2 _ b1 false e1' h1
          · rw [upd_other _ _ _ _ hc1] at e1'; rw [upd_other _ _ _ _ hc2] at e2'
            exact hg.inj c1 c2 id' b1 b2 e1' e2'
        · show ((g.ord ++ [(⟨id, c, fr.op, fr.pc.finRet⟩ : OpRec)]).map (·.id)).Nodup
          rw [List.map_append, List.nodup_append]
          refine ⟨hg.nodup, by simp, ?_⟩
          intro a ha b hb
          simp at hb; subst hb
          intro e; subst e; exact hnid ha
        · intro o' ho'
          rcases List.mem_append.1 ho' with ho' | ho'
          · exact hg.ordH o' ho'
          · simp at ho'; subst ho'
            exact ⟨h2, fun r' hr' => absurd hr' (h3 r')⟩
        · intro i c' r' hr'
          obtain ⟨o', ho', h⟩ := hg.compl i c' r' hr'
          exact ⟨o', List.mem_append_left _ ho', h⟩
        · intro a ha b hb hsub
          rcases List.mem_append.1 ha with ha | ha
          · rcases List.mem_append.1 hb with hb | hb
            · exact (hg.rt a ha b hb hsub).trans (List.sublist_append_left _ _)
            · simp at hb; subst hb
              exact pair_sublist_snoc_of_mem ha
          · simp at ha; subst ha
            exact absurd (mem_of_pair_sublist hsub).1 (h3 _)
      · -- before the linearization point
        have hrel' : releases fr.pc r f = false := by simpa using hrel
        have hgs : gstep p s ⟨c, .sys f n⟩ g = g := by simp [gstep, hcur, h1, hsr, hrel']
        rw [hgs]
        refine ginv_keep hg hcur rfl (hsame_of hrel')
          (fun _ => ⟨id, false, h1, h2, h3, fun _ => ⟨(h4 rfl).1, ?_⟩, fun h => by cases h⟩)
        show (advancePc fr.op fr.pc n r).noResult
        obtain ⟨hm, hu⟩ := rwt_pc hr hcur hrwt
        apply advancePc_noResult hrwt hm hu (h4 rfl).2
        · intro fd ret hpc
          obtain ⟨hrok, hns⟩ := hclose fd ret true hpc
          simp [hpc, releases, hrok, hns] at hrel'
        · intro fd ret hpc hrok
          simp [hpc, releases, hrok] at hrel'
    · -- after the linearization point: the operation is on its way out with the recorded result
      obtain ⟨o, ho, hoid, hoc, hoop, hoaft⟩ := h5 rfl
      have hgs : gstep p s ⟨c, .sys f n⟩ g = g := by simp [gstep, hcur, h1]
      rw [hgs]
      have hpcs : ∃ fd, fr.pc = .close fd o.ret false := by
        cases hpc : fr.pc with
        | close fd r0 b0 =>
          rw [hpc] at hoaft
          cases b0
          · simp only [Pc.after] at hoaft; exact ⟨fd, by rw [hoaft]⟩
          · exact hoaft.elim
        | done r0 => simp [sysOf, hpc] at hsys
        | _ => rw [hpc] at hoaft; exact hoaft.elim
      obtain ⟨fd, hpc⟩ := hpcs
      have hrel' : releases fr.pc r f = false := by simp [hpc, releases]
      refine ginv_keep hg hcur rfl (hsame_of hrel')
        (fun _ => ⟨id, true, h1, h2, h3, (fun h => by cases h), fun _ => ⟨o, ho, hoid, hoc, hoop, ?_⟩⟩)
      show Pc.after o.ret (advancePc fr.op fr.pc n r)
      obtain ⟨hrok, _⟩ := hclose fd _ false hpc
      rw [hpc, hrok]; simp [advancePc, Pc.after]
  · have hgc := hg.off c fr hcur hp
    have hgs : gstep p s ⟨c, .sys f n⟩ g = g := by simp [gstep, hcur, hgc]
    rw [hgs]
    refine ginv_keep hg hcur rfl ?_ (fun h => absurd h hp)
    apply Classical.byContradiction; intro hne
    exact hp (hist_change hi hcur hsys hos hne).1

/-! ### executions -/

theorem ginv_step {files0 : Path → Option Bytes} {p : Path} {x0 : Bytes} {s s' : State} {g : Ghost} {l : Label}
    (hr : Reachable files0 s) (hg : GInv p x0 s g) (hs : step s l = some s') (hok : StateOK p s)
    (hok' : StateOK p s') : GInv p x0 s' (gstep p s l g) := by
  obtain ⟨c, a⟩ := l
  cases a with
  | call op => exact ginv_call hg hs hok'
  | sys f n => exact ginv_sys hr hg hs hok hok'
  | ret => exact ginv_ret hr hg hs hok

theorem Along.head {P : State → Prop} {s : State} {ls : List Label} (h : Along P s ls) : P s := by
  cases ls with
  | nil => exact h
  | cons l ls => exact h.1

theorem ginv_run {files0 : Path → Option Bytes} {p : Path} {x0 : Bytes} (ls : List Label) {s s' : State}
    {g g' : Ghost} (hr : Reachable files0 s) (hg : GInv p x0 s g) (hok : Along (StateOK p) s ls)
    (hrun : gRun p s g ls = some (s', g')) : Reachable files0 s' ∧ GInv p x0 s' g' := by
  induction ls generalizing s g with
  | nil => simp [gRun] at hrun; obtain ⟨rfl, rfl⟩ := hrun; exact ⟨hr, hg⟩
  | cons l ls ih =>
    simp only [gRun] at hrun
    cases hs : step s l with
    | none => simp [hs] at hrun
    | some s1 =>
      simp only [hs] at hrun
      have hok1 := hok.2 s1 hs
      exact ih (Reachable.step l hr hs) (ginv_step hr hg hs hok.1 hok1.head) hok1 hrun

theorem GInv.linearizedBy {p : Path} {x0 : Bytes} {s : State} {g : Ghost} {files0 : Path → Option Bytes}
    (hr : Reachable files0 s) (hg : GInv p x0 s g) : LinearizedBy x0 g.H g.ord := by
  refine ⟨hg.nodup, hg.ordH, hg.compl, hg.rt, ?_⟩
  rw [hg.legal]
  have := reachable_hist_ne hr p
  cases h : s.w.hist p with
  | nil => exact absurd h this
  | cons x rest => rfl

/-- **The ghost commit order linearizes the history** of every execution in which every operation running on
`p` is a Read / Write / Transform with allowed faults (`StateOK`: none in a Read or Write, at most one, at a data
step, in a Transform). -/
theorem commitOrder_linearizes (files0 : Path → Option Bytes) (p : Path) (ls : List Label)
    (hok : Along (StateOK p) (init files0) ls) :
    LinearizedBy (contentOf (files0 p)) (history files0 p ls) (commitOrder files0 p ls) := by
  unfold history commitOrder
  cases hrun : gRun p (init files0) ghost0 ls with
  | none => exact ⟨by simp, by simp, by simp, by simp, rfl⟩
  | some sg =>
    obtain ⟨s', g'⟩ := sg
    obtain ⟨hr', hg'⟩ := ginv_run ls .init (ginv_init p files0) hok hrun
    exact hg'.linearizedBy hr'

/-- **linearizable_history**: the history of every such execution is linearizable. -/
theorem linearizable_history (files0 : Path → Option Bytes) (p : Path) (ls : List Label)
    (hok : Along (StateOK p) (init files0) ls) :
    Linearizable (contentOf (files0 p)) (history files0 p ls) :=
  ⟨_, commitOrder_linearizes files0 p ls hok⟩

/-- The sequential execution in commit order ends in the newest committed value of the file — which is what
the file contains whenever nobody holds the exclusive lock (`HeadOK`). -/
theorem commitOrder_final (files0 : Path → Option Bytes) (p : Path) (ls : List Label) {s' : State}
    (hrun : runLabels (init files0) ls = some s') (hok : Along (StateOK p) (init files0) ls) :
    specRun (contentOf (files0 p)) (commitOrder files0 p ls) = (s'.w.hist p).head? ∧
    ((s'.w.locks p).ex = none → specRun (contentOf (files0 p)) (commitOrder files0 p ls) = some (s'.w.content p)) := by
  obtain ⟨g', hg'⟩ := gRun_runLabels (p := p) (g := ghost0) hrun
  obtain ⟨hr', hgi⟩ := ginv_run ls .init (ginv_init p files0) hok hg'
  unfold commitOrder; rw [hg']
  exact ⟨hgi.legal, fun hex => by rw [hgi.legal]; exact (reachable_Inv2 hr').head p hex⟩

/-! ### fault-free executions -/

/-- no fault is injected at this step -/
def Label.noFault : Label → Bool
  | ⟨_, .sys .none _⟩ => true
  | ⟨_, .sys _ _⟩ => false
  | _ => true

/-- a call on `p` is a Read, Write or Transform -/
def Label.rwtOn (p : Path) : Label → Bool
  | ⟨_, .call op⟩ => op.path != p || op.isRWT
  | _ => true

/-- The execution injects no fault, and all its calls on `p` are Read / Write / Transform. -/
def FaultFree (p : Path) (ls : List Label) : Prop := ls.all (fun l => l.noFault && l.rwtOn p) = true

instance (p : Path) (ls : List Label) : Decidable (FaultFree p ls) := by unfold FaultFree; infer_instance

theorem faultFree_along {p : Path} (ls : List Label) {s : State} (hff : FaultFree p ls)
    (hq : ∀ c fr, (s.cl c).cur = some fr → fr.flt = [] ∧ (fr.op.path = p → fr.op.isRWT = true)) :
    Along (StateOK p) s ls := by
  have hsok : ∀ s : State, (∀ c fr, (s.cl c).cur = some fr → fr.flt = [] ∧ (fr.op.path = p → fr.op.isRWT = true)) →
      StateOK p s := by
    intro s hq c fr hc hp
    obtain ⟨h1, h2⟩ := hq c fr hc
    refine ⟨h2 hp, ?_⟩
    unfold FaultOK; split
    · exact .inl h1
    · exact h1
  induction ls generalizing s with
  | nil => exact hsok s hq
  | cons l ls ih =>
    refine ⟨hsok s hq, fun s' hs => ?_⟩
    simp only [FaultFree, List.all_cons, Bool.and_eq_true] at hff
    obtain ⟨⟨hnf, hrw⟩, hrest⟩ := hff
    apply ih hrest
    obtain ⟨c0, a⟩ := l
    intro c fr hc
    by_cases hcc : c = c0
    · subst hcc
      cases a with
      | call op =>
        obtain ⟨_, _, rfl⟩ := step_call hs
        rw [setClient_cl_same] at hc
        simp only [Option.some.injEq] at hc; subst hc
        refine ⟨rfl, fun hp => ?_⟩
        simp only [Label.rwtOn, Bool.or_eq_true, bne_iff_ne] at hrw
        rcases hrw with h | h
        · exact absurd hp h
        · exact h
      | ret =>
        obtain ⟨_, _, _, _, rfl⟩ := step_ret hs
        rw [setClient_cl_same] at hc; cases hc
      | sys f n =>
        obtain ⟨fr0, sc, tag, w', r, hcur0, _, _, rfl⟩ := step_sys hs
        simp only [upd_same, Option.some.injEq] at hc; subst hc
        have hf : f = .none := by
          cases f <;> simp [Label.noFault] at hnf
          rfl
        subst hf
        rw [nextFrame_flt_none]
        exact hq c fr0 hcur0
    · have hsame : (s'.cl c).cur = (s.cl c).cur := by
        cases a with
        | call op => obtain ⟨_, _, rfl⟩ := step_call hs; rw [setClient_cl_other _ _ _ _ hcc]
        | ret => obtain ⟨_, _, _, _, rfl⟩ := step_ret hs; rw [setClient_cl_other _ _ _ _ hcc]
        | sys f n => obtain ⟨_, _, _, _, _, _, _, _, rfl⟩ := step_sys hs; simp only [upd_other _ _ _ _ hcc]
      rw [hsame] at hc
      exact hq c fr hc

/-- **linearizable_history_fault_free**: the history of every fault-free execution whose calls on `p` are
Read / Write / Transform is linearizable (hypothesis on the labels only). -/
theorem linearizable_history_fault_free (files0 : Path → Option Bytes) (p : Path) (ls : List Label)
    (hff : FaultFree p ls) :
    LinearizedBy (contentOf (files0 p)) (history files0 p ls) (commitOrder files0 p ls) :=
  commitOrder_linearizes files0 p ls (faultFree_along ls hff (fun c fr h => by simp [init] at h))

/-! ### a checker for the hypothesis on concrete executions (for examples) -/

def faultOKb (fr : Frame) : Bool :=
  match fr.op with
  | .transform _ _ =>
    match fr.flt with
    | [] => true
    | [(tag, _)] => tag == .read || tag == .tail || tag == .body || tag == .shrink
    | _ => false
  | _ => fr.flt.isEmpty

theorem faultOKb_sound {fr : Frame} (h : faultOKb fr = true) : FaultOK fr := by
  unfold faultOKb at h
  unfold FaultOK
  cases hop : fr.op <;> rw [hop] at h <;> simp only at h ⊢
  case transform q t =>
    cases hf : fr.flt with
    | nil => exact .inl rfl
    | cons x rest =>
      rw [hf] at h
      cases rest with
      | nil =>
        obtain ⟨tag, f⟩ := x
        refine .inr ⟨tag, f, rfl, ?_⟩
        simp only [Bool.or_eq_true, beq_iff_eq] at h
        rcases h with ((h | h) | h) | h
        · exact .inl h
        · exact .inr (.inl h)
        · exact .inr (.inr (.inl h))
        · exact .inr (.inr (.inr h))
      | cons y r => simp at h
  all_goals simpa using h

/-- the clients below `N` are fine in `s` -/
def stateOKb (p : Path) (N : Nat) (s : State) : Bool :=
  (List.range N).all fun c =>
    match (s.cl c).cur with
    | none => true
    | some fr => fr.op.path != p || (fr.op.isRWT && faultOKb fr)

/-- … in every state of the execution, and only clients below `N` take steps -/
def alongb (p : Path) (N : Nat) : State → List Label → Bool
  | s, [] => stateOKb p N s
  | s, l :: ls =>
    stateOKb p N s && (decide (l.c < N) &&
      match step s l with
      | none => true
      | some s' => alongb p N s' ls)

theorem step_other_cur {s s' : State} {c0 : Cid} {a : Act} (h : step s ⟨c0, a⟩ = some s') {c : Cid} (hc : c ≠ c0) :
    (s'.cl c).cur = (s.cl c).cur := by
  cases a with
  | call op => obtain ⟨_, _, rfl⟩ := step_call h; rw [setClient_cl_other _ _ _ _ hc]
  | ret => obtain ⟨_, _, _, _, rfl⟩ := step_ret h; rw [setClient_cl_other _ _ _ _ hc]
  | sys f n => obtain ⟨_, _, _, _, _, _, _, _, rfl⟩ := step_sys h; simp only [upd_other _ _ _ _ hc]

theorem alongb_sound {p : Path} {N : Nat} (ls : List Label) {s : State}
    (hidle : ∀ c, N ≤ c → (s.cl c).cur = none) (h : alongb p N s ls = true) : Along (StateOK p) s ls := by
  have hsok : ∀ s : State, (∀ c, N ≤ c → (s.cl c).cur = none) → stateOKb p N s = true → StateOK p s := by
    intro s hidle hb c fr hc hp
    by_cases hcN : c < N
    · simp only [stateOKb, List.all_eq_true, List.mem_range] at hb
      have := hb c hcN
      rw [hc] at this
      simp only [Bool.or_eq_true, bne_iff_ne, Bool.and_eq_true] at this
      rcases this with h | ⟨h1, h2⟩
      · exact absurd hp h
      · exact ⟨h1, faultOKb_sound h2⟩
    · rw [hidle c (Nat.le_of_not_lt hcN)] at hc; cases hc
  induction ls generalizing s with
  | nil => exact hsok s hidle h
  | cons l ls ih =>
    simp only [alongb, Bool.and_eq_true, decide_eq_true_eq] at h
    obtain ⟨h1, h2, h3⟩ := h
    refine ⟨hsok s hidle h1, fun s' hs => ?_⟩
    rw [hs] at h3
    apply ih _ h3
    intro c hc
    obtain ⟨c0, a⟩ := l
    have hne : c ≠ c0 := by
      have h2' : c0 < N := h2
      intro e; subst e
      exact Nat.lt_irrefl _ (Nat.lt_of_lt_of_le h2' hc)
    rw [step_other_cur hs hne]
    exact hidle c hc

/-! ### printable summaries (operations carry functions, so histories are compared through these in examples) -/

/-- 0 = Read, 1 = Write (with its content), 2 = Transform -/
def Op.sig : Op → Nat × Bytes
  | .read _ => (0, [])
  | .write _ v => (1, v)
  | .transform _ _ => (2, [])
  | _ => (3, [])

/-- (operation identifier, client, invocation: kind and argument, response: result) -/
structure EvSig where
  id : Nat
  c : Cid
  inv : Option (Nat × Bytes)
  res : Option Ret
  deriving DecidableEq

def Ev.sig : Ev → EvSig
  | .inv id c op => ⟨id, c, some op.sig, none⟩
  | .res id c r => ⟨id, c, none, some r⟩

structure OpSig where
  id : Nat
  c : Cid
  op : Nat × Bytes
  ret : Ret
  deriving DecidableEq

def OpRec.sig (o : OpRec) : OpSig := ⟨o.id, o.c, o.op.sig, o.ret⟩

end GIV.Lockedfile
