/-
  GIV.Lemmas.CacheHist — histories of cache operations interleaved with on-disk damage (C05).

  An event is one of the public operations (Put / PutBytes — the same function in the model —, Get, GetBytes,
  GetFile, OutputFile) or a damage step: `write name bytes mtime` puts arbitrary bytes under an arbitrary
  relative name (truncate, extend, flip, replace, create — of index files, data files, anything) and
  `delete name` removes a file (what `Trim` or a user does).  `runE` gives the observations of a history,
  `endE` the directory it leaves.  Core Lean only.
-/
import GIV.Lemmas.CacheStored

namespace GIV.Cache
open GIV

/-! ### a Put touches only its own two files — for every hash function, every directory, failing or not -/

theorem copyFile_frame (H : Bytes → Hash) (fs : FS) (now : Int) (data : Bytes) (out : Hash) (size : Int)
    (m : Bytes) (hm : m ≠ fileName out keyD) : (copyFile H fs now data out size).2.get m = fs.get m := by
  unfold copyFile
  simp only []
  repeat' split
  all_goals first
    | exact get_refreshReused_ne _ _ _ _ hm
    | simp only [FS.get_set_ne _ _ _ _ hm]

theorem put_frame (H : Bytes → Hash) (fs : FS) (now : Int) (id : Hash) (data : Bytes) (m : Bytes)
    (h1 : m ≠ fileName id keyA) (h2 : m ≠ fileName (H data) keyD) : (put H fs now id data).2.get m = fs.get m := by
  rw [put_snd, (putIndexEntry_spec _ now id (H data) data.length).2 m h1, copyFile_frame _ _ _ _ _ _ _ h2]

theorem dataOf_erase (fs : FS) (n m : Bytes) : dataOf (fs.erase n) m = if m = n then none else dataOf fs m := by
  simp only [dataOf, FS.get_erase]; split <;> rfl

/-! ### events, observations, runs -/

/-- one event of a history. -/
inductive Ev
  | put (id : Hash) (data : Bytes)
  | get (id : Hash)
  | getBytes (id : Hash)
  | getFile (id : Hash)
  | outputFile (out : Hash)
  /-- on-disk damage: the file `name` now holds `bytes` (any name, any bytes, any mtime) -/
  | write (name bytes : Bytes) (mtime : Int)
  /-- on-disk damage: the file `name` is gone -/
  | delete (name : Bytes)

/-- what the caller sees, error reasons included; for GetFile also the bytes the named file holds on return. -/
inductive Obs
  | put (r : Except PutErr (Hash × Int))
  | entry (r : Except Reason Entry)
  | bytes (r : Except Reason (Bytes × Entry))
  | file (r : Except Reason (Bytes × Entry)) (content : Option Bytes)
  | name (n : Bytes)
  | damaged

def stepE (H : Bytes → Hash) (fs : FS) (now : Int) : Ev → Obs × FS
  | .put id data => (.put (put H fs now id data).1, (put H fs now id data).2)
  | .get id => (.entry (get fs now id).1, (get fs now id).2)
  | .getBytes id => (.bytes (getBytes H fs now id).1, (getBytes H fs now id).2)
  | .getFile id =>
    (.file (getFile fs now id).1
      (match (getFile fs now id).1 with
       | .ok (f, _) => dataOf (getFile fs now id).2 f
       | .error _ => none),
     (getFile fs now id).2)
  | .outputFile out => (.name (outputFile fs now out).1, (outputFile fs now out).2)
  | .write n b mt => (.damaged, fs.set n ⟨b, mt⟩)
  | .delete n => (.damaged, fs.erase n)

/-- the observations of a history (each event carries the clock reading at which it happens). -/
def runE (H : Bytes → Hash) : FS → List (Int × Ev) → List Obs
  | _, [] => []
  | fs, (now, ev) :: rest => (stepE H fs now ev).1 :: runE H (stepE H fs now ev).2 rest

/-- the directory a history leaves behind. -/
def endE (H : Bytes → Hash) : FS → List (Int × Ev) → FS
  | fs, [] => fs
  | fs, (now, ev) :: rest => endE H (stepE H fs now ev).2 rest

theorem endE_append (H : Bytes → Hash) (fs : FS) (a b : List (Int × Ev)) :
    endE H fs (a ++ b) = endE H (endE H fs a) b := by
  induction a generalizing fs with
  | nil => rfl
  | cons p rest ih => obtain ⟨now, ev⟩ := p; simp only [List.cons_append, endE]; exact ih _

theorem runE_append (H : Bytes → Hash) (fs : FS) (a b : List (Int × Ev)) :
    runE H fs (a ++ b) = runE H fs a ++ runE H (endE H fs a) b := by
  induction a generalizing fs with
  | nil => rfl
  | cons p rest ih => obtain ⟨now, ev⟩ := p; simp only [List.cons_append, runE, endE, ih]

theorem runE_length (H : Bytes → Hash) (fs : FS) (a : List (Int × Ev)) : (runE H fs a).length = a.length := by
  induction a generalizing fs with
  | nil => rfl
  | cons p rest ih => obtain ⟨now, ev⟩ := p; simp only [runE, List.length_cons, ih]

/-- what the property demands of every single observation, whatever the directory looked like:
no lookup reports a Go panic; bytes returned by GetBytes hash to the reported OutputID; a file named by GetFile is
the output file of the reported OutputID and holds exactly as many bytes as the reported size; OutputFile's name is
the output file name. -/
def Sound (H : Bytes → Hash) : Obs → Prop
  | .entry r => r ≠ .error .panic
  | .bytes (.ok (d, e)) => H d = e.out
  | .bytes (.error r) => r ≠ .panic
  | .file (.ok (f, e)) c => f = fileName e.out keyD ∧ ∃ b, c = some b ∧ (b.length : Int) = e.size
  | .file (.error r) _ => r ≠ .panic
  | _ => True

/-! ### events that leave the entry `id ↦ data` alone -/

/-- the event does not overwrite, delete or damage the two files of the entry `id ↦ data`:
a Put is for another id and (if it produces the same OutputID) stores the same content; damage is to other names;
lookups are always fine. -/
def Quiet (H : Bytes → Hash) (id : Hash) (data : Bytes) : Ev → Prop
  | .put id' data' => id' ≠ id ∧ (H data' = H data → data' = data)
  | .write n _ _ => n ≠ fileName id keyA ∧ n ≠ fileName (H data) keyD
  | .delete n => n ≠ fileName id keyA ∧ n ≠ fileName (H data) keyD
  | _ => True

theorem Stored.of_same2 {H : Bytes → Hash} {fs fs' : FS} {id : Hash} {data : Bytes} (h : Stored H fs id data)
    (h1 : dataOf fs' (fileName id keyA) = dataOf fs (fileName id keyA))
    (h2 : dataOf fs' (fileName (H data) keyD) = dataOf fs (fileName (H data) keyD)) : Stored H fs' id data := by
  obtain ⟨⟨t, h0, ht, hi⟩, hd, hl⟩ := h
  exact ⟨⟨t, h0, ht, by rw [h1]; exact hi⟩, by rw [h2]; exact hd, hl⟩

/-- a quiet event keeps the entry intact. -/
theorem Stored.step_quiet {H : Bytes → Hash} {fs : FS} {id : Hash} {data : Bytes} (h : Stored H fs id data)
    (now : Int) (ev : Ev) (hq : Quiet H id data ev) : Stored H (stepE H fs now ev).2 id data := by
  cases ev with
  | get i => exact h.of_sameData (get_sameData _ _ _)
  | getBytes i => exact h.of_sameData (getBytes_sameData _ _ _ _)
  | getFile i => exact h.of_sameData (getFile_sameData _ _ _)
  | outputFile o => exact h.of_sameData (outputFile_sameData _ _ _)
  | write n b mt =>
    obtain ⟨h1, h2⟩ := hq
    refine h.of_same2 ?_ ?_
    · simp only [stepE, dataOf_set, if_neg (Ne.symm h1)]
    · simp only [stepE, dataOf_set, if_neg (Ne.symm h2)]
  | delete n =>
    obtain ⟨h1, h2⟩ := hq
    refine h.of_same2 ?_ ?_
    · simp only [stepE, dataOf_erase, if_neg (Ne.symm h1)]
    · simp only [stepE, dataOf_erase, if_neg (Ne.symm h2)]
  | put id' data' =>
    obtain ⟨hid, hsame⟩ := hq
    have hidx : fileName id keyA ≠ fileName id' keyA := fun e => hid (fileName_inj e).symm
    refine h.of_same2 ?_ ?_
    · simp only [stepE, dataOf]
      rw [put_frame H fs now id' data' _ hidx (fileName_a_ne_d _ _)]
    · by_cases ho : H data' = H data
      · have hd := hsame ho
        subst hd
        -- the same content under another id: the data file is re-used (or rewritten with the same bytes)
        obtain ⟨fs', hp, _, hdat, _⟩ := put_spec H fs now id' data' (by
          intro f hf _ _
          have := h.2.1
          simp only [dataOf, hf, Option.map_some, Option.some.injEq] at this
          exact this)
        simp only [stepE, hp]
        rw [hdat, h.2.1]
      · simp only [stepE, dataOf]
        rw [put_frame H fs now id' data' _ (fun e => fileName_a_ne_d _ _ e.symm)
          (fun e => ho (fileName_inj e).symm)]

theorem Stored.end_quiet {H : Bytes → Hash} {id : Hash} {data : Bytes} (later : List (Int × Ev))
    (hq : ∀ p ∈ later, Quiet H id data p.2) {fs : FS} (h : Stored H fs id data) :
    Stored H (endE H fs later) id data := by
  induction later generalizing fs with
  | nil => exact h
  | cons p rest ih =>
    obtain ⟨now, ev⟩ := p
    exact ih (fun q hq' => hq q (by simp [hq'])) (h.step_quiet now ev (hq (now, ev) (by simp)))

/-- what a lookup of `id` must answer while `id ↦ data` is stored. -/
def Answers (H : Bytes → Hash) (id : Hash) (data : Bytes) : Ev → Obs → Prop
  | .get i, o => i = id → ∃ t, o = .entry (.ok ⟨H data, data.length, t⟩)
  | .getBytes i, o => i = id → ∃ t, o = .bytes (.ok (data, ⟨H data, data.length, t⟩))
  | .getFile i, o => i = id → ∃ t, o = .file (.ok (fileName (H data) keyD, ⟨H data, data.length, t⟩)) (some data)
  | _, _ => True

theorem Stored.step_answers {H : Bytes → Hash} {fs : FS} {id : Hash} {data : Bytes} (h : Stored H fs id data)
    (now : Int) (ev : Ev) : Answers H id data ev (stepE H fs now ev).1 := by
  cases ev with
  | get i =>
    intro hi; subst hi
    obtain ⟨t, ht⟩ := h.get now
    exact ⟨t, by simp only [stepE, ht]⟩
  | getBytes i =>
    intro hi; subst hi
    obtain ⟨t, ht⟩ := h.getBytes now
    exact ⟨t, by simp only [stepE, ht]⟩
  | getFile i =>
    intro hi; subst hi
    obtain ⟨t, ht⟩ := h.getFile now
    have hd : dataOf (Cache.getFile fs now i).2 (fileName (H data) keyD) = some data := by
      rw [getFile_sameData]; exact h.2.1
    exact ⟨t, by simp only [stepE, ht, hd]⟩
  | put _ _ => trivial
  | outputFile _ => trivial
  | write _ _ _ => trivial
  | delete _ => trivial

theorem Stored.run_answers {H : Bytes → Hash} {id : Hash} {data : Bytes} (later : List (Int × Ev))
    (hq : ∀ p ∈ later, Quiet H id data p.2) {fs : FS} (h : Stored H fs id data) :
    ∀ x ∈ List.zip later (runE H fs later), Answers H id data x.1.2 x.2 := by
  induction later generalizing fs with
  | nil => intro x hx; simp [runE] at hx
  | cons p rest ih =>
    obtain ⟨now, ev⟩ := p
    intro x hx
    simp only [runE, List.zip_cons_cons, List.mem_cons] at hx
    rcases hx with rfl | hx
    · exact h.step_answers now ev
    · exact ih (fun q hq' => hq q (by simp [hq'])) (h.step_quiet now ev (hq (now, ev) (by simp))) x hx

/-- `H` has no second preimage of `H data` among the byte strings of the same length — the only files a Put of
`data` ever trusts without rewriting them. -/
def NoTwin (H : Bytes → Hash) (data : Bytes) : Prop :=
  ∀ b : Bytes, b.length = data.length → H b = H data → b = data

/-- a fault-free Put into ANY directory leaves the entry stored. -/
theorem stored_after_put (H : Bytes → Hash) (fs : FS) (now : Int) (id : Hash) (data : Bytes)
    (hn0 : 0 ≤ now) (hn1 : now < 2 ^ 63) (hlen : (data.length : Int) < 2 ^ 63) (hH : NoTwin H data) :
    (put H fs now id data).1 = .ok (H data, (data.length : Int)) ∧ Stored H (put H fs now id data).2 id data := by
  obtain ⟨fs', hp, hidx, hdat, _⟩ := put_spec H fs now id data (fun f _ hl hh => hH f.data hl hh)
  rw [hp]
  exact ⟨rfl, ⟨now, hn0, hn1, hidx⟩, hdat, hlen⟩

/-! ### why `NoTwin` is needed: a Put trusts a same-length, same-hash file that is already there -/

/-- if the output name already holds `junk` with the length and the hash of `data`, `Put(id, data)` re-uses it:
afterwards the entry `id ↦ junk` is stored. -/
theorem stored_twin_after_put (H : Bytes → Hash) (fs : FS) (now : Int) (id : Hash) (data junk : Bytes) (mt : Int)
    (hn0 : 0 ≤ now) (hn1 : now < 2 ^ 63) (hlen : (data.length : Int) < 2 ^ 63)
    (hjunk : fs.get (fileName (H data) keyD) = some ⟨junk, mt⟩) (hl : junk.length = data.length) (hh : H junk = H data) :
    Stored H (put H fs now id data).2 id junk := by
  have hre : Reused H fs data := ⟨_, hjunk, hl, hh⟩
  obtain ⟨hi1, hi2⟩ := putIndexEntry_spec (copyFile H fs now data (H data) data.length).2 now id (H data) data.length
  rw [put_snd]
  refine ⟨⟨now, hn0, hn1, ?_⟩, ?_, by rw [hl]; exact hlen⟩
  · rw [hh, hl]; simp [dataOf, hi1]
  · rw [hh]
    simp only [dataOf]
    rw [hi2 _ (fun e => fileName_a_ne_d _ _ e.symm), copyFile_reused H fs now data hre]
    have := dataOf_refreshReused fs now (fileName (H data) keyD) (fileName (H data) keyD)
    simp only [dataOf] at this
    rw [this, hjunk]; rfl

/-! ### a witness for the examples -/

theorem toyH_noTwin_65 : NoTwin toyH [65] := by
  intro b hl hh
  match b, hl with
  | [x], _ =>
    have := congrArg Subtype.val hh
    simp [toyH] at this
    rw [this]

end GIV.Cache
