/-
  Transform (for C07): vocabulary of the (not yet proved) invariant `TransOK` — what the file contains at
  every control point of a running Transform, in terms of `old` (the newest committed value when it got
  its lock) and `new = t old` — used by the `…_statement` definitions of Props/C07, and the byte-level
  lemmas about pwrite / ftruncate that its proof needs.
-/
import GIV.Lemmas.LockedfileLin
namespace GIV.Lockedfile
open GIV

theorem pwriteAt_end (o bs : Bytes) : pwriteAt o o.length bs = o ++ bs := by
  unfold pwriteAt
  cases bs with
  | nil => simp
  | cons b bs => simp [zeros, List.drop_eq_nil_of_le]

theorem pwriteAt_zero (d bs : Bytes) : pwriteAt d 0 bs = bs ++ d.drop bs.length := by
  unfold pwriteAt
  cases bs with
  | nil => simp
  | cons b bs => simp [zeros]

theorem resize_of_take {d o : Bytes} (h : d.take o.length = o) : resize d o.length = o := by
  unfold resize
  have hl : o.length ≤ d.length := by
    have := congrArg List.length h
    rw [List.length_take] at this; omega
  rw [h, Nat.sub_eq_zero_of_le hl]; simp [zeros]

/-- No fault hit a roll-back step (tail undo, the two deferred roll-back steps). -/
def NoRb (flt : List (Tag × Fault)) : Prop := ∀ x ∈ flt, x.1 ≠ .tailUndo ∧ x.1 ≠ .rb1 ∧ x.1 ≠ .rb2

theorem NoRb.tail {x : Tag × Fault} {flt} (h : NoRb (x :: flt)) : NoRb flt := fun y hy => h y (List.mem_cons_of_mem _ hy)

/-- What a Transform is about to return, against what the file holds / what it committed (`v`). -/
def TFin (t : Bytes → Option Bytes) (h1 : List Bytes) (flt : List (Tag × Fault)) (ret : Ret) (v : Bytes) : Prop :=
  ∃ o, h1.head? = some o ∧ ((ret = .ok ∧ t o = some v) ∨ (ret = .err ∧ (NoRb flt → v = o)))

theorem TFin.mono {t h1 flt ret v} (x : Tag × Fault) (h : TFin t h1 flt ret v) : TFin t h1 (x :: flt) ret v := by
  obtain ⟨o, h1, h2⟩ := h
  refine ⟨o, h1, ?_⟩
  rcases h2 with h2 | ⟨h2, h3⟩
  · exact .inl h2
  · exact .inr ⟨h2, fun hn => h3 hn.tail⟩

def TransP (w : World) (p : Path) (t : Bytes → Option Bytes) (h1 : List Bytes) (flt : List (Tag × Fault))
    (committed : Option Bytes) : Pc → Prop
  | .open => True
  | .lock fd => ∃ o, w.fds fd = some o ∧ o.off = 0
  | .tRead fd acc => h1.head? = some (w.content p) ∧
      ∃ o, w.fds fd = some o ∧ acc = (w.content p).take acc.length ∧ o.off = acc.length
  | .tTail _ o n => h1.head? = some o ∧ w.content p = o ∧ t o = some n ∧ n.length > o.length
  | .tTailUndo _ o => h1.head? = some o ∧ (w.content p).take o.length = o
  | .tBody _ o n => h1.head? = some o ∧ t o = some n ∧
      w.content p = (if n.length > o.length then o ++ n.drop o.length else o)
  | .tShrink _ o n => h1.head? = some o ∧ t o = some n ∧ n.length < o.length ∧ w.content p = n ++ o.drop n.length
  | .tRb1 _ o => h1.head? = some o
  | .tRb2 _ o => h1.head? = some o ∧ (w.content p).take o.length = o
  | .unlock _ ret => TFin t h1 flt ret (w.content p)
  | .close _ ret true => TFin t h1 flt ret (w.content p)
  | .close _ ret false => ∀ v, committed = some v → TFin t h1 flt ret v
  | .done ret => ∀ v, committed = some v → TFin t h1 flt ret v
  | _ => False

def TransOK (w : World) (fr : Frame) (t : Bytes → Option Bytes) : Prop :=
  TransP w fr.op.path t fr.h1 fr.flt fr.committed fr.pc

theorem faultErr_affects {f : Fault} {e : Err} (h : faultErr f = some e) (s : Sys) : f.affects s = true := by
  cases f <;> simp [faultErr] at h <;> cases s <;> rfl


end GIV.Lockedfile
