/-
  Transform (for C07): the invariant `TransOK` — what the file contains at every control point of a running
  Transform, in terms of `old` (the newest committed value when it got its lock) and `new = t old`, which
  faults it has seen, and what it committed — proved inductive over all interleavings (`reachable_Inv4`):
  one lemma per control point for the Transform's own step (`t_step_…`), and `transOK_other` for the steps
  of other clients (frame argument: while it holds the exclusive lock nobody else changes the file).
-/
import GIV.Lemmas.LockedfileLin
namespace GIV.Lockedfile
open GIV

theorem pwriteAt_end (o bs : Bytes) : pwriteAt o o.length bs = o ++ bs := by
  unfold pwriteAt
  cases bs with
  | nil => simp
  | cons b bs => simp [zeros, List.drop_eq_nil_of_le]

theorem pwriteAt_zero (d bs : Bytes) : pwriteAt d 0 bs = bs ++ d.drop bs.length := by
  unfold pwriteAt
  cases bs with
  | nil => simp
  | cons b bs => simp [zeros]

theorem resize_of_take {d o : Bytes} (h : d.take o.length = o) : resize d o.length = o := by
  unfold resize
  have hl : o.length ≤ d.length := by
    have := congrArg List.length h
    rw [List.length_take] at this; omega
  rw [h, Nat.sub_eq_zero_of_le hl]; simp [zeros]

/-- No fault hit a roll-back step (tail undo, the two deferred roll-back steps). -/
def NoRb (flt : List (Tag × Fault)) : Prop := ∀ x ∈ flt, x.1 ≠ .tailUndo ∧ x.1 ≠ .rb1 ∧ x.1 ≠ .rb2

theorem NoRb.tail {x : Tag × Fault} {flt} (h : NoRb (x :: flt)) : NoRb flt := fun y hy => h y (List.mem_cons_of_mem _ hy)

theorem faultErr_affects {f : Fault} {e : Err} (h : faultErr f = some e) (s : Sys) : f.affects s = true := by
  cases f <;> simp [faultErr] at h <;> cases s <;> rfl

end GIV.Lockedfile

namespace GIV.Lockedfile
open GIV

/-! ### outcome of a call on the operation's own descriptor, classified by the injected fault -/

theorem faultErr_none_cases {f : Fault} (h : faultErr f = none) : f = .none ∨ (∃ k, f = .short k) ∨ f = .shared := by
  cases f <;> simp [faultErr] at h <;> simp

theorem affects_false_of_noerr {f : Fault} (h : faultErr f = none) {s : Sys}
    (hw : ∀ fd bs, s ≠ .write fd bs) (hp : ∀ fd bs off, s ≠ .pwrite fd bs off) (hc : ∀ fd, s ≠ .close fd) :
    f.affects s = false := by
  rcases faultErr_none_cases h with rfl | ⟨k, rfl⟩ | rfl
  · cases s <;> rfl
  · cases s <;> first | rfl | (exact absurd rfl (hw _ _)) | (exact absurd rfl (hp _ _ _))
  · cases s <;> first | rfl | (exact absurd rfl (hc _))

theorem cls_read {w w' : World} {c fd n f r o} (ho : w.fds fd = some o) (hrd : o.rd = true)
    (h : osStep w c (.read fd n) f = some (w', r)) :
    (∃ e, faultErr f = some e ∧ r = .err e ∧ w' = w) ∨
    (faultErr f = none ∧
      ((o.off < (w.content o.path).length ∧ r = .bytes (((w.content o.path).drop o.off).take n) ∧
          w' = { w with fds := upd w.fds fd (some { o with off := o.off + (((w.content o.path).drop o.off).take n).length }) }) ∨
       (¬ o.off < (w.content o.path).length ∧ r = .eof ∧ w' = w))) := by
  simp only [osStep, ho] at h
  cases hf : faultErr f with
  | some e => simp [hf] at h; exact .inl ⟨e, rfl, h.2.symm, h.1.symm⟩
  | none =>
    simp only [hf] at h
    rw [if_pos hrd] at h
    by_cases hlt : o.off < (w.content o.path).length
    · rw [if_pos hlt] at h
      simp only [Option.some.injEq, Prod.mk.injEq] at h
      exact .inr ⟨rfl, .inl ⟨hlt, h.2.symm, h.1.symm⟩⟩
    · rw [if_neg hlt] at h
      simp only [Option.some.injEq, Prod.mk.injEq] at h
      exact .inr ⟨rfl, .inr ⟨hlt, h.2.symm, h.1.symm⟩⟩

theorem cls_pwrite {w w' : World} {c fd bs off f r o} (ho : w.fds fd = some o) (hwr : o.wr = true)
    (happ : o.app = false) (h : osStep w c (.pwrite fd bs off) f = some (w', r)) :
    (∃ e, faultErr f = some e ∧ r = .err e ∧ w' = w) ∨
    (f.affects (.pwrite fd bs off) = false ∧ r = .n bs.length ∧
      w' = { w with files := upd w.files o.path (some (pwriteAt (w.content o.path) off bs)) }) ∨
    (∃ k, f = .short k ∧ r = .short (bs.take k).length ∧
      w' = { w with files := upd w.files o.path (some (pwriteAt (w.content o.path) off (bs.take k))) }) := by
  have happ' : ¬ (o.app = true) := by simp [happ]
  simp only [osStep, ho] at h
  cases f with
  | none =>
    simp only [faultErr] at h; rw [if_neg happ', if_pos hwr] at h
    simp only [Option.some.injEq, Prod.mk.injEq] at h
    exact .inr (.inl ⟨rfl, h.2.symm, h.1.symm⟩)
  | shared =>
    simp only [faultErr] at h; rw [if_neg happ', if_pos hwr] at h
    simp only [Option.some.injEq, Prod.mk.injEq] at h
    exact .inr (.inl ⟨rfl, h.2.symm, h.1.symm⟩)
  | fail => simp [faultErr] at h; exact .inl ⟨_, rfl, h.2.symm, h.1.symm⟩
  | eintr => simp [faultErr] at h; exact .inl ⟨_, rfl, h.2.symm, h.1.symm⟩
  | short k =>
    simp only [faultErr] at h; rw [if_neg happ', if_pos hwr] at h
    simp only [Option.some.injEq, Prod.mk.injEq] at h
    exact .inr (.inr ⟨k, rfl, h.2.symm, h.1.symm⟩)

theorem cls_write {w w' : World} {c fd bs f r o} (ho : w.fds fd = some o) (hwr : o.wr = true)
    (happ : o.app = false) (h : osStep w c (.write fd bs) f = some (w', r)) :
    (∃ e, faultErr f = some e ∧ r = .err e ∧ w' = w) ∨
    (f.affects (.write fd bs) = false ∧ r = .n bs.length ∧
      w' = { w with files := upd w.files o.path (some (pwriteAt (w.content o.path) o.off bs)),
                    fds := upd w.fds fd (some { o with off := o.off + bs.length }) }) ∨
    (∃ k, f = .short k ∧ r = .short (bs.take k).length ∧
      w' = { w with files := upd w.files o.path (some (pwriteAt (w.content o.path) o.off (bs.take k))),
                    fds := upd w.fds fd (some { o with off := o.off + (bs.take k).length }) }) := by
  have happ' : ¬ (o.app = true) := by simp [happ]
  simp only [osStep, ho] at h
  cases f with
  | none =>
    simp only [faultErr] at h; rw [if_pos hwr] at h
    simp only [if_neg happ', Option.some.injEq, Prod.mk.injEq] at h
    exact .inr (.inl ⟨rfl, h.2.symm, h.1.symm⟩)
  | shared =>
    simp only [faultErr] at h; rw [if_pos hwr] at h
    simp only [if_neg happ', Option.some.injEq, Prod.mk.injEq] at h
    exact .inr (.inl ⟨rfl, h.2.symm, h.1.symm⟩)
  | fail => simp [faultErr] at h; exact .inl ⟨_, rfl, h.2.symm, h.1.symm⟩
  | eintr => simp [faultErr] at h; exact .inl ⟨_, rfl, h.2.symm, h.1.symm⟩
  | short k =>
    simp only [faultErr] at h; rw [if_pos hwr] at h
    simp only [if_neg happ', Option.some.injEq, Prod.mk.injEq] at h
    exact .inr (.inr ⟨k, rfl, h.2.symm, h.1.symm⟩)

theorem cls_ftruncate {w w' : World} {c fd n f r o} (ho : w.fds fd = some o) (hwr : o.wr = true)
    (h : osStep w c (.ftruncate fd n) f = some (w', r)) :
    (∃ e, faultErr f = some e ∧ r = .err e ∧ w' = w) ∨
    (faultErr f = none ∧ r = .ok ∧
      w' = { w with files := upd w.files o.path (some (resize (w.content o.path) n)) }) := by
  simp only [osStep, ho] at h
  cases hf : faultErr f with
  | some e => simp [hf] at h; exact .inl ⟨e, rfl, h.2.symm, h.1.symm⟩
  | none =>
    simp only [hf] at h; rw [if_pos hwr] at h
    simp only [Option.some.injEq, Prod.mk.injEq] at h
    exact .inr ⟨rfl, h.2.symm, h.1.symm⟩

theorem cls_funlock {w w' : World} {c fd f r o} (ho : w.fds fd = some o)
    (h : osStep w c (.funlock fd) f = some (w', r)) :
    (∃ e, faultErr f = some e ∧ r = .err e ∧ w' = w) ∨
    (faultErr f = none ∧ r = .ok ∧ w' = dropLock w fd o.path) := by
  simp only [osStep, ho] at h
  cases hf : faultErr f with
  | some e => simp [hf] at h; exact .inl ⟨e, rfl, h.2.symm, h.1.symm⟩
  | none => simp [hf] at h; exact .inr ⟨rfl, h.2.symm, h.1.symm⟩

theorem cls_close {w w' : World} {c fd f r o} (ho : w.fds fd = some o)
    (h : osStep w c (.close fd) f = some (w', r)) :
    (∃ e, faultErr f = some e ∧ r = .err e ∧ w' = w) ∨
    (faultErr f = none ∧ f ≠ .shared ∧ r = .ok ∧ w' = closeFd w fd o.path) ∨
    (f = .shared ∧ r = .ok ∧ w' = w) := by
  simp only [osStep, ho] at h
  cases hf : faultErr f with
  | some e => simp [hf] at h; exact .inl ⟨e, rfl, h.2.symm, h.1.symm⟩
  | none =>
    simp only [hf] at h
    split at h
    · rename_i hs; simp at h; exact .inr (.inr ⟨hs, h.2.symm, h.1.symm⟩)
    · rename_i hs; simp at h; exact .inr (.inl ⟨rfl, hs, h.2.symm, h.1.symm⟩)

theorem affects_close_false {f : Fault} (h : faultErr f = none) (hs : f ≠ .shared) (fd : Fd) :
    f.affects (.close fd) = false := by
  cases f <;> simp [faultErr] at h <;> first | rfl | exact absurd rfl hs

theorem nextFrame_flt_shared_close {w w' : World} {fr : Frame} {fd tag n r} :
    (nextFrame w w' fr (.close fd) tag .shared n r).flt = (tag, .shared) :: fr.flt := by
  simp [nextFrame, Fault.affects]

theorem cls_flock {w w' : World} {c fd k f r o} (ho : w.fds fd = some o) (hacc : (o.rd || o.wr) = true)
    (h : osStep w c (.flock fd k) f = some (w', r)) :
    (∃ e, faultErr f = some e ∧ r = .err e ∧ w' = w) ∨
    (faultErr f = none ∧ compatible w fd o.path k = true ∧ r = .ok ∧ w' = acquire w fd o.path k) := by
  simp only [osStep, ho, hacc] at h
  simp only [Bool.not_true, Bool.false_eq_true, if_false] at h
  split at h
  · rename_i hc
    cases hf : faultErr f with
    | some e => simp [hf] at h; exact .inl ⟨e, rfl, h.2.symm, h.1.symm⟩
    | none => simp [hf] at h; exact .inr ⟨rfl, hc, h.2.symm, h.1.symm⟩
  · cases h

theorem cls_open {w w' : World} {c p fl f r} (hcr : fCreat fl = true) (hex : fExcl fl = false)
    (h : osStep w c (.open p fl) f = some (w', r)) :
    (∃ e, faultErr f = some e ∧ r = .err e ∧ w' = w) ∨
    (faultErr f = none ∧ r = .fd w.nextFd ∧
      w' = { w with files := upd w.files p (some (if fTrunc fl then [] else w.content p)),
                    fds := upd w.fds w.nextFd (some ⟨p, 0, accRd fl, accWr fl, fAppend fl, c⟩),
                    nextFd := w.nextFd + 1 }) := by
  simp only [osStep] at h
  cases hf : faultErr f with
  | some e => simp [hf] at h; exact .inl ⟨e, rfl, h.2.symm, h.1.symm⟩
  | none =>
    simp [hf, hcr, hex] at h
    exact .inr ⟨rfl, h.2.symm, h.1.symm⟩

end GIV.Lockedfile

namespace GIV.Lockedfile
open GIV

/-! ### the Transform invariant -/

/-- only (retried or failed) flock faults so far -/
def Clean (flt : List (Tag × Fault)) : Prop := ∀ x ∈ flt, x.1 = .lock
/-- only faults that do not make Transform return an error: flock retries, closeFile's Unlock / Close -/
def OkTags (flt : List (Tag × Fault)) : Prop := ∀ x ∈ flt, x.1 = .lock ∨ x.1 = .unlock ∨ x.1 = .close
/-- no fault hit closeFile -/
def NoUC (flt : List (Tag × Fault)) : Prop := ∀ x ∈ flt, x.1 ≠ .unlock ∧ x.1 ≠ .close

theorem Clean.okTags {flt} (h : Clean flt) : OkTags flt := fun x hx => .inl (h x hx)

/-- What a Transform is about to return (`ret`), against what the file holds / what it committed (`v`). -/
def TFin (t : Bytes → Option Bytes) (h1 : List Bytes) (flt : List (Tag × Fault)) (ret : Ret) (v : Bytes) : Prop :=
  ∃ o, h1.head? = some o ∧
    ((ret = .ok ∧ t o = some v ∧ OkTags flt) ∨ (ret = .err ∧ (NoRb flt → v = o) ∧ (flt ≠ [] ∨ t o = none)))

theorem TFin.mono {t h1 flt ret v} (x : Tag × Fault) (hx : x.1 = .unlock ∨ x.1 = .close)
    (h : TFin t h1 flt ret v) : TFin t h1 (x :: flt) ret v := by
  obtain ⟨o, h1, h2⟩ := h
  refine ⟨o, h1, ?_⟩
  rcases h2 with ⟨h2, h3, h4⟩ | ⟨h2, h3, h4⟩
  · refine .inl ⟨h2, h3, fun y hy => ?_⟩
    rcases List.mem_cons.1 hy with rfl | hy
    · exact .inr hx
    · exact h4 y hy
  · exact .inr ⟨h2, fun hn => h3 hn.tail, .inl (by simp)⟩

def TDone (t : Bytes → Option Bytes) (h1 : List Bytes) (flt : List (Tag × Fault)) (committed : Option Bytes)
    (ret : Ret) : Prop :=
  (∀ v, committed = some v → TFin t h1 flt ret v) ∧ (h1 ≠ [] → NoUC flt → committed.isSome = true)

theorem TDone.mono {t h1 flt com ret} (x : Tag × Fault) (hx : x.1 = .unlock ∨ x.1 = .close)
    (h : TDone t h1 flt com ret) : TDone t h1 (x :: flt) com ret :=
  ⟨fun v hv => (h.1 v hv).mono x hx, fun hh hn => h.2 hh (fun y hy => hn y (List.mem_cons_of_mem _ hy))⟩

/-- The operation's commit sits directly on top of the history it saw at its flock step (no lost update), and
stays there. -/
def Pushed (w : World) (p : Path) (h1 : List Bytes) (committed : Option Bytes) : Prop :=
  ∀ v, committed = some v → (v :: h1) <:+ w.hist p

theorem Pushed.mono {w w' : World} {p h1 com} (h : Pushed w p h1 com) (hs : w.hist p <:+ w'.hist p) :
    Pushed w' p h1 com := fun v hv => (h v hv).trans hs

theorem step_hist_suffix {s s' : State} {l : Label} (h : step s l = some s') (p : Path) :
    s.w.hist p <:+ s'.w.hist p := by
  obtain ⟨c, a⟩ := l
  cases a with
  | call op => obtain ⟨_, _, rfl⟩ := step_call h; exact List.suffix_refl _
  | ret => obtain ⟨_, _, _, _, rfl⟩ := step_ret h; exact List.suffix_refl _
  | sys f n => obtain ⟨_, _, _, _, _, _, _, hos, rfl⟩ := step_sys h; exact osStep_hist_suffix hos p

/-- Releasing the exclusive lock through `fd` pushes the contents on the history. -/
theorem dropLock_pushes {w : World} {fd : Fd} {p : Path} (h : holdsFd w fd p .ex) :
    (dropLock w fd p).hist p = w.content p :: w.hist p := by
  rw [dropLock_hist, if_pos ⟨rfl, h⟩]

def TransP (w : World) (p : Path) (t : Bytes → Option Bytes) (h1 : List Bytes) (flt : List (Tag × Fault))
    (committed : Option Bytes) : Pc → Prop
  | .open => committed = none ∧ Clean flt
  | .lock fd => committed = none ∧ Clean flt ∧ ∃ o, w.fds fd = some o ∧ o.off = 0
  | .tRead fd acc => committed = none ∧ h1.head? = some (w.content p) ∧ Clean flt ∧
      ∃ o, w.fds fd = some o ∧ acc = (w.content p).take acc.length ∧ o.off = acc.length
  | .tTail _ o n => committed = none ∧ h1.head? = some o ∧ Clean flt ∧ w.content p = o ∧ t o = some n ∧
      n.length > o.length
  | .tTailUndo _ o => committed = none ∧ h1.head? = some o ∧ (w.content p).take o.length = o ∧ flt ≠ []
  | .tBody _ o n => committed = none ∧ h1.head? = some o ∧ Clean flt ∧ t o = some n ∧
      w.content p = (if n.length > o.length then o ++ n.drop o.length else o)
  | .tShrink _ o n => committed = none ∧ h1.head? = some o ∧ Clean flt ∧ t o = some n ∧ n.length < o.length ∧
      w.content p = n ++ o.drop n.length
  | .tRb1 _ o => committed = none ∧ h1.head? = some o ∧ flt ≠ []
  | .tRb2 _ o => committed = none ∧ h1.head? = some o ∧ (w.content p).take o.length = o ∧ flt ≠ []
  | .unlock _ ret => committed = none ∧ TFin t h1 flt ret (w.content p)
  | .close _ ret true => committed = none ∧ TFin t h1 flt ret (w.content p)
  | .close _ ret false => TDone t h1 flt committed ret ∧ Pushed w p h1 committed
  | .done ret => TDone t h1 flt committed ret ∧ Pushed w p h1 committed
  | _ => False

def TransOK (w : World) (fr : Frame) (t : Bytes → Option Bytes) : Prop :=
  TransP w fr.op.path t fr.h1 fr.flt fr.committed fr.pc

theorem content_setFile (w : World) (p : Path) (d : Bytes) :
    World.content { w with files := upd w.files p (some d) } p = d := by
  simp [World.content, contentOf]

theorem nextFrame_flt_err {w w' : World} {fr : Frame} {sc tag f n r e} (h : faultErr f = some e) :
    (nextFrame w w' fr sc tag f n r).flt = (tag, f) :: fr.flt := by
  simp [nextFrame, faultErr_affects h]

theorem nextFrame_flt_none {w w' : World} {fr : Frame} {sc tag n r} :
    (nextFrame w w' fr sc tag .none n r).flt = fr.flt := by
  simp [nextFrame, Fault.affects]

theorem nextFrame_flt_noerr {w w' : World} {fr : Frame} {sc tag f n r} (h : faultErr f = none)
    (hw : ∀ fd bs, sc ≠ .write fd bs) (hp : ∀ fd bs off, sc ≠ .pwrite fd bs off) (hc : ∀ fd, sc ≠ .close fd := by intros; simp) :
    (nextFrame w w' fr sc tag f n r).flt = fr.flt := by
  simp [nextFrame, affects_false_of_noerr h hw hp hc]

theorem nextFrame_flt_noaffect {w w' : World} {fr : Frame} {sc tag f n r} (h : f.affects sc = false) :
    (nextFrame w w' fr sc tag f n r).flt = fr.flt := by
  simp [nextFrame, h]

theorem nextFrame_flt_short_pwrite {w w' : World} {fr : Frame} {fd bs off tag k n r} :
    (nextFrame w w' fr (.pwrite fd bs off) tag (.short k) n r).flt = (tag, .short k) :: fr.flt := by
  simp [nextFrame, Fault.affects]

theorem nextFrame_flt_short_write {w w' : World} {fr : Frame} {fd bs tag k n r} :
    (nextFrame w w' fr (.write fd bs) tag (.short k) n r).flt = (tag, .short k) :: fr.flt := by
  simp [nextFrame, Fault.affects]

theorem nextFrame_committed_keep {w w' : World} {fr : Frame} {sc tag f n r} (h : releases fr.pc r f = false) :
    (nextFrame w w' fr sc tag f n r).committed = fr.committed := by
  simp [nextFrame, h]

end GIV.Lockedfile


namespace GIV.Lockedfile
open GIV

structure TCtx (s : State) (c : Cid) (fr : Frame) (p : Path) (t : Bytes → Option Bytes) : Prop where
  hi : Inv1 s
  h2 : Inv2 s
  hcur : (s.cl c).cur = some fr
  hop : fr.op = .transform p t

theorem TCtx.flag {s c fr p t} (cx : TCtx s c fr p t) : fr.op.flag = Gen.Lockedfile.flagsEdit := by
  rw [cx.hop]; rfl

/-- the operation's own descriptor: open, on the right file, readable, writable, not O_APPEND -/
theorem TCtx.own {s c fr p t} (cx : TCtx s c fr p t) {fd : Fd} (hfd : fr.pc.fd? = some fd) :
    ∃ o, s.w.fds fd = some o ∧ o.path = fr.op.path ∧ o.rd = true ∧ o.wr = true ∧ o.app = false := by
  obtain ⟨ho, _, _⟩ := ((cx.hi.clients c).frame fr cx.hcur).fd fd hfd
  obtain ⟨o, h1, h2, _, h3, h4, h5⟩ := ho.open
  refine ⟨o, h1, h2, h3.trans ?_, h4.trans ?_, h5.trans ?_⟩ <;> rw [cx.flag] <;> decide

theorem TCtx.hist {s c fr p t} (cx : TCtx s c fr p t) : HistOK s.w fr :=
  cx.h2.hist c fr cx.hcur (by rw [cx.hop]; rfl)

/-- unfold the invariant of the successor frame into its components -/
theorem transOK_next {s : State} {w' : World} {fr : Frame} {t sc tag f n r} :
    TransOK w' (nextFrame s.w w' fr sc tag f n r) t ↔
    TransP w' fr.op.path t (nextFrame s.w w' fr sc tag f n r).h1 (nextFrame s.w w' fr sc tag f n r).flt
      (nextFrame s.w w' fr sc tag f n r).committed (advancePc fr.op fr.pc n r) := Iff.rfl

theorem t_step_tTail {s : State} {w' : World} {c fr p t fd o nw f n r} (cx : TCtx s c fr p t)
    (hpc : fr.pc = .tTail fd o nw) (hr : TransOK s.w fr t)
    (h : osStep s.w c (.pwrite fd (nw.drop o.length) o.length) f = some (w', r)) :
    TransOK w' (nextFrame s.w w' fr (.pwrite fd (nw.drop o.length) o.length) .tail f n r) t := by
  obtain ⟨od, hod, hpath, _, hwr, happ⟩ := cx.own (fd := fd) (by simp [hpc, Pc.fd?])
  unfold TransOK at hr; rw [hpc] at hr
  obtain ⟨hcn, hd, hcl, hD, ht, hlen⟩ := hr
  have hD' : s.w.content od.path = o := by rw [hpath]; exact hD
  rw [transOK_next, nextFrame_h1_eq (by intro fd e; rw [hpc] at e; cases e),
    nextFrame_committed_keep (by simp [hpc, releases]), hpc]
  rcases cls_pwrite hod hwr happ h with ⟨e, hf, rfl, rfl⟩ | ⟨hna, rfl, rfl⟩ | ⟨k, rfl, rfl, rfl⟩
  · rw [nextFrame_flt_err hf]; simp only [advancePc, finPc_eq]
    exact ⟨hcn, hd, by rw [hD, List.take_length], by simp⟩
  · rw [nextFrame_flt_noaffect hna]; simp only [advancePc, finPc_eq]
    refine ⟨hcn, hd, hcl, ht, ?_⟩
    rw [← hpath, content_setFile, hD', pwriteAt_end, if_pos hlen]
  · rw [nextFrame_flt_short_pwrite]; simp only [advancePc, finPc_eq]
    refine ⟨hcn, hd, ?_, by simp⟩
    rw [← hpath, content_setFile, hD', pwriteAt_end]; simp


theorem body_ge {D o nw : Bytes} (hge : nw.length ≥ o.length)
    (hD : D = if nw.length > o.length then o ++ nw.drop o.length else o) :
    pwriteAt D 0 (nw.take o.length) = nw := by
  rw [pwriteAt_zero, List.length_take, Nat.min_eq_left hge, hD]
  split
  · rw [List.drop_left]; exact List.take_append_drop _ _
  · have : nw.length = o.length := by omega
    rw [List.drop_length, List.append_nil, ← this, List.take_length]

theorem t_step_tTailUndo {s : State} {w' : World} {c fr p t fd o f n r} (cx : TCtx s c fr p t)
    (hpc : fr.pc = .tTailUndo fd o) (hr : TransOK s.w fr t)
    (h : osStep s.w c (.ftruncate fd o.length) f = some (w', r)) :
    TransOK w' (nextFrame s.w w' fr (.ftruncate fd o.length) .tailUndo f n r) t := by
  obtain ⟨od, hod, hpath, _, hwr, happ⟩ := cx.own (fd := fd) (by simp [hpc, Pc.fd?])
  unfold TransOK at hr; rw [hpc] at hr
  obtain ⟨hcn, hd, hD, hne⟩ := hr
  have hD' : (s.w.content od.path).take o.length = o := by rw [hpath]; exact hD
  rw [transOK_next, nextFrame_h1_eq (by intro fd e; rw [hpc] at e; cases e),
    nextFrame_committed_keep (by simp [hpc, releases]), hpc]
  rcases cls_ftruncate hod hwr h with ⟨e, hf, rfl, rfl⟩ | ⟨hf, rfl, rfl⟩
  · rw [nextFrame_flt_err hf]; simp only [advancePc, finPc_eq]
    exact ⟨hcn, o, hd, .inr ⟨rfl, fun hn => absurd rfl (hn _ (List.mem_cons_self ..)).1, .inl (by simp)⟩⟩
  · rw [nextFrame_flt_noerr hf (by intros; simp) (by intros; simp)]; simp only [advancePc, finPc_eq]
    refine ⟨hcn, o, hd, .inr ⟨rfl, fun _ => ?_, .inl hne⟩⟩
    rw [← hpath, content_setFile, resize_of_take hD']

theorem t_step_tBody {s : State} {w' : World} {c fr p t fd o nw sc f n r} (cx : TCtx s c fr p t)
    (hpc : fr.pc = .tBody fd o nw) (hr : TransOK s.w fr t)
    (hsc : sc = if nw.length ≥ o.length then Sys.pwrite fd (nw.take o.length) 0 else Sys.pwrite fd nw 0)
    (h : osStep s.w c sc f = some (w', r)) :
    TransOK w' (nextFrame s.w w' fr sc .body f n r) t := by
  obtain ⟨od, hod, hpath, _, hwr, happ⟩ := cx.own (fd := fd) (by simp [hpc, Pc.fd?])
  unfold TransOK at hr; rw [hpc] at hr
  obtain ⟨hcn, hd, hcl, ht, hD⟩ := hr
  have hD' : s.w.content od.path = if nw.length > o.length then o ++ nw.drop o.length else o := by
    rw [hpath]; exact hD
  rw [transOK_next, nextFrame_h1_eq (by intro fd e; rw [hpc] at e; cases e),
    nextFrame_committed_keep (by simp [hpc, releases]), hpc]
  have hrb : rollbackPc fd o = .tRb1 fd o := by simp [rollbackPc, Gen.Lockedfile.tRollback]
  by_cases hge : nw.length ≥ o.length
  · rw [if_pos hge] at hsc; subst hsc
    rcases cls_pwrite hod hwr happ h with ⟨e, hf, rfl, rfl⟩ | ⟨hna, rfl, rfl⟩ | ⟨k, rfl, rfl, rfl⟩
    · rw [nextFrame_flt_err hf]; simp only [advancePc, finPc_eq, hrb]; exact ⟨hcn, hd, by simp⟩
    · rw [nextFrame_flt_noaffect hna]; simp only [advancePc, finPc_eq, if_pos hge]
      refine ⟨hcn, o, hd, .inl ⟨rfl, ?_, hcl.okTags⟩⟩
      rw [← hpath, content_setFile, body_ge hge hD']; exact ht
    · rw [nextFrame_flt_short_pwrite]; simp only [advancePc, finPc_eq, hrb]; exact ⟨hcn, hd, by simp⟩
  · rw [if_neg hge] at hsc; subst hsc
    have hlt : nw.length < o.length := by omega
    have hngt : ¬ nw.length > o.length := by omega
    rw [if_neg hngt] at hD'
    rcases cls_pwrite hod hwr happ h with ⟨e, hf, rfl, rfl⟩ | ⟨hna, rfl, rfl⟩ | ⟨k, rfl, rfl, rfl⟩
    · rw [nextFrame_flt_err hf]; simp only [advancePc, finPc_eq, hrb]; exact ⟨hcn, hd, by simp⟩
    · rw [nextFrame_flt_noaffect hna]; simp only [advancePc, finPc_eq, if_neg hge]
      refine ⟨hcn, hd, hcl, ht, hlt, ?_⟩
      rw [← hpath, content_setFile, hD', pwriteAt_zero]
    · rw [nextFrame_flt_short_pwrite]; simp only [advancePc, finPc_eq, hrb]; exact ⟨hcn, hd, by simp⟩

theorem t_step_tShrink {s : State} {w' : World} {c fr p t fd o nw f n r} (cx : TCtx s c fr p t)
    (hpc : fr.pc = .tShrink fd o nw) (hr : TransOK s.w fr t)
    (h : osStep s.w c (.ftruncate fd nw.length) f = some (w', r)) :
    TransOK w' (nextFrame s.w w' fr (.ftruncate fd nw.length) .shrink f n r) t := by
  obtain ⟨od, hod, hpath, _, hwr, happ⟩ := cx.own (fd := fd) (by simp [hpc, Pc.fd?])
  unfold TransOK at hr; rw [hpc] at hr
  obtain ⟨hcn, hd, hcl, ht, hlt, hD⟩ := hr
  have hD' : s.w.content od.path = nw ++ o.drop nw.length := by rw [hpath]; exact hD
  rw [transOK_next, nextFrame_h1_eq (by intro fd e; rw [hpc] at e; cases e),
    nextFrame_committed_keep (by simp [hpc, releases]), hpc]
  have hrb : rollbackPc fd o = .tRb1 fd o := by simp [rollbackPc, Gen.Lockedfile.tRollback]
  rcases cls_ftruncate hod hwr h with ⟨e, hf, rfl, rfl⟩ | ⟨hf, rfl, rfl⟩
  · rw [nextFrame_flt_err hf]; simp only [advancePc, finPc_eq, hrb]; exact ⟨hcn, hd, by simp⟩
  · rw [nextFrame_flt_noerr hf (by intros; simp) (by intros; simp)]; simp only [advancePc, finPc_eq]
    refine ⟨hcn, o, hd, .inl ⟨rfl, ?_, hcl.okTags⟩⟩
    rw [← hpath, content_setFile, resize_of_take (by rw [hD']; simp)]; exact ht

theorem t_step_tRb1 {s : State} {w' : World} {c fr p t fd o f n r} (cx : TCtx s c fr p t)
    (hpc : fr.pc = .tRb1 fd o) (hr : TransOK s.w fr t)
    (h : osStep s.w c (.pwrite fd o 0) f = some (w', r)) :
    TransOK w' (nextFrame s.w w' fr (.pwrite fd o 0) .rb1 f n r) t := by
  obtain ⟨od, hod, hpath, _, hwr, happ⟩ := cx.own (fd := fd) (by simp [hpc, Pc.fd?])
  unfold TransOK at hr; rw [hpc] at hr
  obtain ⟨hcn, hd, hne⟩ := hr
  rw [transOK_next, nextFrame_h1_eq (by intro fd e; rw [hpc] at e; cases e),
    nextFrame_committed_keep (by simp [hpc, releases]), hpc]
  rcases cls_pwrite hod hwr happ h with ⟨e, hf, rfl, rfl⟩ | ⟨hna, rfl, rfl⟩ | ⟨k, rfl, rfl, rfl⟩
  · rw [nextFrame_flt_err hf]; simp only [advancePc, finPc_eq]
    exact ⟨hcn, o, hd, .inr ⟨rfl, fun hn => absurd rfl (hn _ (List.mem_cons_self ..)).2.1, .inl (by simp)⟩⟩
  · rw [nextFrame_flt_noaffect hna]; simp only [advancePc, finPc_eq]
    refine ⟨hcn, hd, ?_, hne⟩
    rw [← hpath, content_setFile, pwriteAt_zero]; simp
  · rw [nextFrame_flt_short_pwrite]; simp only [advancePc, finPc_eq]
    exact ⟨hcn, o, hd, .inr ⟨rfl, fun hn => absurd rfl (hn _ (List.mem_cons_self ..)).2.1, .inl (by simp)⟩⟩

theorem t_step_tRb2 {s : State} {w' : World} {c fr p t fd o f n r} (cx : TCtx s c fr p t)
    (hpc : fr.pc = .tRb2 fd o) (hr : TransOK s.w fr t)
    (h : osStep s.w c (.ftruncate fd o.length) f = some (w', r)) :
    TransOK w' (nextFrame s.w w' fr (.ftruncate fd o.length) .rb2 f n r) t := by
  obtain ⟨od, hod, hpath, _, hwr, happ⟩ := cx.own (fd := fd) (by simp [hpc, Pc.fd?])
  unfold TransOK at hr; rw [hpc] at hr
  obtain ⟨hcn, hd, hD, hne⟩ := hr
  have hD' : (s.w.content od.path).take o.length = o := by rw [hpath]; exact hD
  rw [transOK_next, nextFrame_h1_eq (by intro fd e; rw [hpc] at e; cases e),
    nextFrame_committed_keep (by simp [hpc, releases]), hpc]
  rcases cls_ftruncate hod hwr h with ⟨e, hf, rfl, rfl⟩ | ⟨hf, rfl, rfl⟩
  · rw [nextFrame_flt_err hf]; simp only [advancePc, finPc_eq]
    exact ⟨hcn, o, hd, .inr ⟨rfl, fun hn => absurd rfl (hn _ (List.mem_cons_self ..)).2.2, .inl (by simp)⟩⟩
  · rw [nextFrame_flt_noerr hf (by intros; simp) (by intros; simp)]; simp only [advancePc, finPc_eq]
    refine ⟨hcn, o, hd, .inr ⟨rfl, fun _ => ?_, .inl hne⟩⟩
    rw [← hpath, content_setFile, resize_of_take hD']


theorem nextFrame_h1_lock {w w' : World} {fr : Frame} {sc tag f n fd} (h : fr.pc = .lock fd) :
    (nextFrame w w' fr sc tag f n .ok).h1 = w'.hist fr.op.path := by
  simp [nextFrame, h]

theorem nextFrame_committed_release {w w' : World} {fr : Frame} {sc tag f n r} (h : releases fr.pc r f = true)
    (hex : lockMode fr.op.flag = .ex) :
    (nextFrame w w' fr sc tag f n r).committed = some (w.content fr.op.path) := by
  simp [nextFrame, h, hex]

theorem t_step_tRead {s : State} {w' : World} {c fr p t fd acc f n r} (cx : TCtx s c fr p t)
    (hpc : fr.pc = .tRead fd acc) (hr : TransOK s.w fr t)
    (h : osStep s.w c (.read fd n) f = some (w', r)) :
    TransOK w' (nextFrame s.w w' fr (.read fd n) .read f n r) t := by
  obtain ⟨od, hod, hpath, hrd, hwr, happ⟩ := cx.own (fd := fd) (by simp [hpc, Pc.fd?])
  unfold TransOK at hr; rw [hpc] at hr
  obtain ⟨hcn, hd, hcl, o', ho', hacc, hoff⟩ := hr
  rw [hod] at ho'; cases ho'
  rw [transOK_next, nextFrame_h1_eq (by intro fd e; rw [hpc] at e; cases e),
    nextFrame_committed_keep (by simp [hpc, releases]), hpc]
  rcases cls_read hod hrd h with ⟨e, hf, rfl, rfl⟩ | ⟨hf, ⟨hlt, rfl, rfl⟩ | ⟨hge, rfl, rfl⟩⟩
  · rw [nextFrame_flt_err hf]; simp only [advancePc, finPc_eq]
    exact ⟨hcn, _, hd, .inr ⟨rfl, fun _ => rfl, .inl (by simp)⟩⟩
  · rw [nextFrame_flt_noerr hf (by intros; simp) (by intros; simp)]; simp only [advancePc, finPc_eq]
    refine ⟨hcn, hd, hcl, _, upd_same _ _ _, ?_, ?_⟩
    · show acc ++ _ = List.take (acc ++ _).length (s.w.content fr.op.path)
      rw [List.length_append, List.take_add, ← hacc, hpath, hoff]
      congr 1
      exact (take_length_take _ n).symm
    · simp [hoff, hpath]
  · rw [nextFrame_flt_noerr hf (by intros; simp) (by intros; simp)]
    have hD : acc = s.w.content fr.op.path := by
      rw [hacc]; apply List.take_of_length_le
      rw [← hoff, ← hpath]; exact Nat.le_of_not_lt hge
    have hadv : advancePc fr.op (.tRead fd acc) n .eof =
        (match t acc with
          | none => Pc.unlock fd .err
          | some nw => if nw.length > acc.length && Gen.Lockedfile.tTailFirst then .tTail fd acc nw else .tBody fd acc nw) := by
      rw [cx.hop]; rfl
    rw [hadv]
    cases hta : t acc with
    | none =>
      simp only
      exact ⟨hcn, _, hd, .inr ⟨rfl, fun _ => rfl, .inr (by rw [← hD]; exact hta)⟩⟩
    | some nw =>
      simp only [Gen.Lockedfile.tTailFirst, Bool.and_true, decide_eq_true_eq]
      split
      · rename_i hgt
        exact ⟨hcn, by rw [hD]; exact hd, hcl, hD.symm, hta, hgt⟩
      · rename_i hgt
        exact ⟨hcn, by rw [hD]; exact hd, hcl, hta, by rw [if_neg hgt]; exact hD.symm⟩

theorem t_step_open {s : State} {w' : World} {c fr p t f n r} (cx : TCtx s c fr p t)
    (hpc : fr.pc = .open) (hr : TransOK s.w fr t)
    (h : osStep s.w c (.open fr.op.path (openFlags fr.op.flag)) f = some (w', r)) :
    TransOK w' (nextFrame s.w w' fr (.open fr.op.path (openFlags fr.op.flag)) .open f n r) t := by
  unfold TransOK at hr; rw [hpc] at hr
  obtain ⟨hcn, hcl⟩ := hr
  have hh := cx.hist
  simp only [HistOK, hpc, Pc.preLock, if_true] at hh
  rw [transOK_next, nextFrame_h1_eq (by intro fd e; rw [hpc] at e; cases e),
    nextFrame_committed_keep (by simp [hpc, releases]), hpc]
  have hcr : fCreat (openFlags fr.op.flag) = true := by rw [cx.flag]; decide
  have hex : fExcl (openFlags fr.op.flag) = false := by rw [cx.flag]; decide
  rcases cls_open hcr hex h with ⟨e, hf, rfl, rfl⟩ | ⟨hf, rfl, rfl⟩
  · simp only [advancePc, finPc_eq]
    exact ⟨⟨fun v hv => (by rw [hcn] at hv; cases hv), fun hne => absurd hh.1 hne⟩,
      fun v hv => (by rw [hcn] at hv; cases hv)⟩
  · rw [nextFrame_flt_noerr hf (by intros; simp) (by intros; simp)]
    simp only [advancePc, finPc_eq, Gen.Lockedfile.truncAfterLock, Bool.not_true, Bool.and_false, Bool.false_eq_true, if_false]
    exact ⟨hcn, hcl, _, upd_same _ _ _, rfl⟩

theorem t_step_lock {s : State} {w' : World} {c fr p t fd f n r} (cx : TCtx s c fr p t)
    (hpc : fr.pc = .lock fd) (hr : TransOK s.w fr t)
    (h : osStep s.w c (.flock fd (lockMode fr.op.flag)) f = some (w', r)) :
    TransOK w' (nextFrame s.w w' fr (.flock fd (lockMode fr.op.flag)) .lock f n r) t := by
  obtain ⟨od, hod, hpath, hrd, hwr, happ⟩ := cx.own (fd := fd) (by simp [hpc, Pc.fd?])
  unfold TransOK at hr; rw [hpc] at hr
  obtain ⟨hcn, hcl, o', ho', hoff⟩ := hr
  rw [hod] at ho'; cases ho'
  have hh := cx.hist
  simp only [HistOK, hpc, Pc.preLock, if_true] at hh
  have hexm : lockMode fr.op.flag = .ex := by rw [cx.flag]; decide
  have hnothing := (((cx.hi.clients c).frame fr cx.hcur).fd fd (by simp [hpc, Pc.fd?])).2.2
  simp only [hpc, Pc.locked, Bool.false_eq_true, if_false] at hnothing
  rw [transOK_next, nextFrame_committed_keep (by simp [hpc, releases]), hpc]
  rcases cls_flock hod (by simp [hwr]) h with ⟨e, hf, rfl, rfl⟩ | ⟨hf, hc, rfl, rfl⟩
  · rw [nextFrame_flt_err hf]
    have h1e : (nextFrame s.w s.w fr (.flock fd (lockMode fr.op.flag)) .lock f n (.err e)).h1 = fr.h1 := by
      simp [nextFrame, hpc]
    rw [h1e]
    have hcl' : Clean ((Tag.lock, f) :: fr.flt) := by
      intro x hx; rcases List.mem_cons.1 hx with rfl | hx
      · rfl
      · exact hcl x hx
    have : advancePc fr.op (.lock fd) n (.err e) = .lock fd ∨ advancePc fr.op (.lock fd) n (.err e) = .close fd .err false := by
      simp only [advancePc, finPc_eq]; cases e <;> simp [Gen.Lockedfile.retriesEINTR]
    rcases this with hp | hp <;> rw [hp]
    · exact ⟨hcn, hcl', _, hod, hoff⟩
    · exact ⟨⟨fun v hv => (by rw [hcn] at hv; cases hv), fun hne => absurd hh.1 hne⟩,
        fun v hv => (by rw [hcn] at hv; cases hv)⟩
  · rw [nextFrame_flt_noerr hf (by intros; simp) (by intros; simp), nextFrame_h1_lock hpc]
    have hp : advancePc fr.op (.lock fd) n .ok = .tRead fd [] := by
      simp only [advancePc, finPc_eq, afterLock, cx.hop, Op.flag, afterOpen, finPc_eq]
      have : wantsTrunc Gen.Lockedfile.flagsEdit = false := by decide
      simp [this]
    rw [hp]
    -- nobody holds the exclusive lock before the grant, so the contents are the newest commit
    rw [hexm] at hc
    simp only [compatible, Bool.and_eq_true, Bool.or_eq_true, beq_iff_eq] at hc
    have hne : (s.w.locks od.path).ex ≠ some fd := fun e => hnothing od.path .ex e
    have hex0 : (s.w.locks od.path).ex = none := by
      rcases hc.1 with e | e
      · exact e
      · exact absurd e hne
    have hhist : (acquire s.w fd od.path (lockMode fr.op.flag)).hist fr.op.path = s.w.hist fr.op.path := by
      rw [acquire_hist, dropLock_hist, if_neg (fun h => hne h.2)]
    refine ⟨hcn, ?_, hcl, od, by simpa using hod, by simp, by simpa using hoff⟩
    rw [hhist, acquire_content, ← hpath]
    exact cx.h2.head _ hex0

theorem t_step_unlock {s : State} {w' : World} {c fr p t fd ret f n r} (cx : TCtx s c fr p t)
    (hpc : fr.pc = .unlock fd ret) (hr : TransOK s.w fr t)
    (h : osStep s.w c (.funlock fd) f = some (w', r)) :
    TransOK w' (nextFrame s.w w' fr (.funlock fd) .unlock f n r) t := by
  obtain ⟨od, hod, hpath, hrd, hwr, happ⟩ := cx.own (fd := fd) (by simp [hpc, Pc.fd?])
  unfold TransOK at hr; rw [hpc] at hr
  obtain ⟨hcn, hfin⟩ := hr
  have hexm : lockMode fr.op.flag = .ex := by rw [cx.flag]; decide
  have hcr : closeRet fr.op ret true = ret := by simp [closeRet, cx.hop, reportsCloseErr]
  rw [transOK_next, nextFrame_h1_eq (by intro fd e; rw [hpc] at e; cases e), hpc]
  rcases cls_funlock hod h with ⟨e, hf, rfl, rfl⟩ | ⟨hf, rfl, rfl⟩
  · rw [nextFrame_flt_err hf, nextFrame_committed_keep (by simp [hpc, releases])]
    have : advancePc fr.op (.unlock fd ret) n (.err e) = .unlock fd ret ∨
        advancePc fr.op (.unlock fd ret) n (.err e) = .close fd ret true := by
      simp only [advancePc, finPc_eq, hcr]; cases e <;> simp [Gen.Lockedfile.retriesEINTR]
    rcases this with hp | hp <;> rw [hp] <;> exact ⟨hcn, hfin.mono _ (.inl rfl)⟩
  · rw [nextFrame_flt_noerr hf (by intros; simp) (by intros; simp),
      nextFrame_committed_release (by simp [hpc, releases]) hexm]
    simp only [advancePc, finPc_eq]
    refine ⟨⟨fun v hv => (by cases hv; exact hfin), fun _ _ => rfl⟩, fun v hv => ?_⟩
    cases hv
    have hl := (((cx.hi.clients c).frame fr cx.hcur).fd fd (by simp [hpc, Pc.fd?])).2.2
    simp only [hpc, Pc.locked, if_true, hexm] at hl
    have hh := cx.hist
    simp only [HistOK, hpc, Pc.preLock, Pc.locked, Bool.false_eq_true, if_false, if_true] at hh
    rw [hpath, dropLock_pushes hl, hh.1]
    exact List.suffix_refl _

theorem t_step_close {s : State} {w' : World} {c fr p t fd ret b f n r} (cx : TCtx s c fr p t)
    (hpc : fr.pc = .close fd ret b) (hr : TransOK s.w fr t)
    (h : osStep s.w c (.close fd) f = some (w', r)) :
    TransOK w' (nextFrame s.w w' fr (.close fd) .close f n r) t := by
  obtain ⟨od, hod, hpath, hrd, hwr, happ⟩ := cx.own (fd := fd) (by simp [hpc, Pc.fd?])
  unfold TransOK at hr; rw [hpc] at hr
  have hexm : lockMode fr.op.flag = .ex := by rw [cx.flag]; decide
  have hcr : closeRet fr.op ret true = ret := by simp [closeRet, cx.hop, reportsCloseErr]
  rw [transOK_next, nextFrame_h1_eq (by intro fd e; rw [hpc] at e; cases e), hpc]
  rcases cls_close hod h with ⟨e, hf, rfl, rfl⟩ | ⟨hf, hns, rfl, rfl⟩ | ⟨rfl, rfl, rfl⟩
  · rw [nextFrame_flt_err hf, nextFrame_committed_keep (by simp [hpc, releases])]
    simp only [advancePc, finPc_eq, hcr]
    cases b
    · exact ⟨hr.1.mono _ (.inr rfl), hr.2⟩
    · obtain ⟨hcn, _⟩ := hr
      exact ⟨⟨fun v hv => (by rw [hcn] at hv; cases hv),
        fun _ hn => absurd rfl (hn _ (List.mem_cons_self ..)).2⟩, fun v hv => (by rw [hcn] at hv; cases hv)⟩
  · rw [nextFrame_flt_noaffect (affects_close_false hf hns fd)]
    simp only [advancePc, finPc_eq]
    cases b
    · rw [nextFrame_committed_keep (by simp [hpc, releases])]
      exact ⟨hr.1, hr.2.mono (osStep_hist_suffix h _)⟩
    · obtain ⟨hcn, hfin⟩ := hr
      rw [nextFrame_committed_release (by simp [hpc, releases, hns]) hexm]
      refine ⟨⟨fun v hv => (by cases hv; exact hfin), fun _ _ => rfl⟩, fun v hv => ?_⟩
      cases hv
      have hl := (((cx.hi.clients c).frame fr cx.hcur).fd fd (by simp [hpc, Pc.fd?])).2.2
      simp only [hpc, Pc.locked, if_true, hexm] at hl
      have hh := cx.hist
      simp only [HistOK, hpc, Pc.preLock, Pc.locked, Bool.false_eq_true, if_false, if_true] at hh
      rw [closeFd_hist, hpath, dropLock_pushes hl, hh.1]
      exact List.suffix_refl _
  · -- the description is shared: close(2) succeeds and releases nothing
    rw [nextFrame_flt_shared_close, nextFrame_committed_keep (by cases b <;> simp [hpc, releases])]
    simp only [advancePc, finPc_eq]
    cases b
    · exact ⟨hr.1.mono _ (.inr rfl), hr.2⟩
    · obtain ⟨hcn, _⟩ := hr
      exact ⟨⟨fun v hv => (by rw [hcn] at hv; cases hv),
        fun _ hn => absurd rfl (hn _ (List.mem_cons_self ..)).2⟩, fun v hv => (by rw [hcn] at hv; cases hv)⟩


/-- The running Transform's own step keeps its invariant (one lemma per control point above). -/
theorem transOK_step {s : State} {w' : World} {c : Cid} {fr : Frame} {p t n sc tag f r} (cx : TCtx s c fr p t)
    (hr : TransOK s.w fr t) (hs : sysOf fr n = some (sc, tag)) (h : osStep s.w c sc f = some (w', r)) :
    TransOK w' (nextFrame s.w w' fr sc tag f n r) t := by
  have hr0 := hr
  unfold TransOK at hr0
  cases hpc : fr.pc <;> simp only [sysOf, hpc] at hs <;> rw [hpc] at hr0
  case «open» => simp at hs; obtain ⟨rfl, rfl⟩ := hs; exact t_step_open cx hpc hr h
  case lock fd => simp at hs; obtain ⟨rfl, rfl⟩ := hs; exact t_step_lock cx hpc hr h
  case tRead fd acc =>
    split at hs
    · cases hs
    · simp at hs; obtain ⟨rfl, rfl⟩ := hs; exact t_step_tRead cx hpc hr h
  case tTail fd o nw => simp at hs; obtain ⟨rfl, rfl⟩ := hs; exact t_step_tTail cx hpc hr h
  case tTailUndo fd o => simp at hs; obtain ⟨rfl, rfl⟩ := hs; exact t_step_tTailUndo cx hpc hr h
  case tBody fd o nw =>
    have : sc = (if nw.length ≥ o.length then Sys.pwrite fd (nw.take o.length) 0 else Sys.pwrite fd nw 0) ∧ tag = .body := by
      split at hs <;> simp at hs <;> obtain ⟨rfl, rfl⟩ := hs <;> simp [*]
    obtain ⟨hsc, rfl⟩ := this
    exact t_step_tBody cx hpc hr hsc h
  case tShrink fd o nw => simp at hs; obtain ⟨rfl, rfl⟩ := hs; exact t_step_tShrink cx hpc hr h
  case tRb1 fd o => simp at hs; obtain ⟨rfl, rfl⟩ := hs; exact t_step_tRb1 cx hpc hr h
  case tRb2 fd o => simp at hs; obtain ⟨rfl, rfl⟩ := hs; exact t_step_tRb2 cx hpc hr h
  case unlock fd ret => simp at hs; obtain ⟨rfl, rfl⟩ := hs; exact t_step_unlock cx hpc hr h
  case close fd ret b => simp at hs; obtain ⟨rfl, rfl⟩ := hs; exact t_step_close cx hpc hr h
  case done r' => cases hs
  all_goals exact hr0.elim

/-- A step of another client keeps the invariant of a running Transform. -/
theorem transOK_other {s s' : State} {c0 c : Cid} {a : Act} (hi : Inv1 s) (h : step s ⟨c0, a⟩ = some s')
    (hc : c ≠ c0) {fr : Frame} {t} (hcur : (s.cl c).cur = some fr) (hr : TransOK s.w fr t) :
    TransOK s'.w fr t := by
  have hfr := (hi.clients c).frame fr hcur
  unfold TransOK at hr ⊢
  -- at a locked control point: the contents of the file do not change
  have keep : ∀ fd, fr.pc.fd? = some fd → fr.pc.locked = true →
      s'.w.content fr.op.path = s.w.content fr.op.path ∧ s'.w.fds fd = s.w.fds fd := by
    intro fd hfd hl
    obtain ⟨ho, _, hk⟩ := hfr.fd fd hfd
    rw [if_pos hl] at hk
    have := other_step_stable hi h hc ho
    exact ⟨(this.2.2 _ hk).1, this.1⟩
  cases hpc : fr.pc <;> rw [hpc] at hr <;> first | exact hr | exact hr.elim | skip
  case done ret => exact ⟨hr.1, hr.2.mono (step_hist_suffix h _)⟩
  case lock fd =>
    obtain ⟨ho, _, _⟩ := hfr.fd fd (by simp [hpc, Pc.fd?])
    obtain ⟨h1, h2, o, ho', hoff⟩ := hr
    exact ⟨h1, h2, o, by rw [(other_step_stable hi h hc ho).1]; exact ho', hoff⟩
  case tRead fd acc =>
    obtain ⟨hc', hf'⟩ := keep fd (by simp [hpc, Pc.fd?]) (by simp [hpc, Pc.locked])
    obtain ⟨h1, h2, h3, o, ho', h4, h5⟩ := hr
    exact ⟨h1, by rw [hc']; exact h2, h3, o, by rw [hf']; exact ho', by rw [hc']; exact h4, h5⟩
  case tTail fd o nw =>
    obtain ⟨hc', _⟩ := keep fd (by simp [hpc, Pc.fd?]) (by simp [hpc, Pc.locked])
    simpa only [TransP, hc'] using hr
  case tTailUndo fd o =>
    obtain ⟨hc', _⟩ := keep fd (by simp [hpc, Pc.fd?]) (by simp [hpc, Pc.locked])
    simpa only [TransP, hc'] using hr
  case tBody fd o nw =>
    obtain ⟨hc', _⟩ := keep fd (by simp [hpc, Pc.fd?]) (by simp [hpc, Pc.locked])
    simpa only [TransP, hc'] using hr
  case tShrink fd o nw =>
    obtain ⟨hc', _⟩ := keep fd (by simp [hpc, Pc.fd?]) (by simp [hpc, Pc.locked])
    simpa only [TransP, hc'] using hr
  case tRb2 fd o =>
    obtain ⟨hc', _⟩ := keep fd (by simp [hpc, Pc.fd?]) (by simp [hpc, Pc.locked])
    simpa only [TransP, hc'] using hr
  case unlock fd ret =>
    obtain ⟨hc', _⟩ := keep fd (by simp [hpc, Pc.fd?]) (by simp [hpc, Pc.locked])
    simpa only [TransP, hc'] using hr
  case close fd ret b =>
    cases b
    · exact ⟨hr.1, hr.2.mono (step_hist_suffix h _)⟩
    · obtain ⟨hc', _⟩ := keep fd (by simp [hpc, Pc.fd?]) (by simp [hpc, Pc.locked])
      simpa only [TransP, hc'] using hr

def Inv4 (s : State) : Prop := ∀ c fr p t, (s.cl c).cur = some fr → fr.op = .transform p t → TransOK s.w fr t

theorem init_Inv4 (files0 : Path → Option Bytes) : Inv4 (init files0) := fun c fr p t h => by simp [init] at h

theorem step_Inv4 {s s' : State} {l : Label} (hi : Inv1 s) (h2 : Inv2 s) (h4 : Inv4 s) (h : step s l = some s') :
    Inv4 s' := by
  obtain ⟨c0, a⟩ := l
  intro c fr p t hcur hop
  by_cases hc : c = c0
  · subst hc
    cases a with
    | call op =>
      obtain ⟨_, _, rfl⟩ := step_call h
      rw [setClient_cl_same] at hcur
      simp only [Option.some.injEq] at hcur; subst hcur
      simp only at hop; subst hop
      exact ⟨rfl, fun x hx => by cases hx⟩
    | ret =>
      obtain ⟨_, _, _, _, rfl⟩ := step_ret h
      rw [setClient_cl_same] at hcur; cases hcur
    | sys f n =>
      obtain ⟨fr0, sc, tag, w', r, hcur0, hs, hos, rfl⟩ := step_sys h
      simp only [upd_same, Option.some.injEq] at hcur; subst hcur
      exact transOK_step ⟨hi, h2, hcur0, hop⟩ (h4 c fr0 p t hcur0 hop) hs hos
  · have hsame : (s'.cl c).cur = (s.cl c).cur := by
      cases a with
      | call op => obtain ⟨_, _, rfl⟩ := step_call h; rw [setClient_cl_other _ _ _ _ hc]
      | ret => obtain ⟨_, _, _, _, rfl⟩ := step_ret h; rw [setClient_cl_other _ _ _ _ hc]
      | sys f n => obtain ⟨_, _, _, _, _, _, _, _, rfl⟩ := step_sys h; simp only [upd_other _ _ _ _ hc]
    rw [hsame] at hcur
    exact transOK_other hi h hc hcur (h4 c fr p t hcur hop)

theorem reachable_Inv4 {files0 : Path → Option Bytes} {s : State} (h : Reachable files0 s) : Inv4 s := by
  induction h with
  | init => exact init_Inv4 files0
  | step l hr hs ih => exact step_Inv4 (reachable_Inv1 hr) (reachable_Inv2 hr) ih hs

end GIV.Lockedfile
