/-
  GIV.Lemmas.ModuleGoCheck — golang.org/x/mod/module, translated (GIV.Gen.ModuleGo): the character classes,
  `checkElem` and `checkPath` compute the model's `charOK`, `checkElem`, `checkPathElems` (GIV.Model.Proxy,
  section "module.CheckPath, checkElem").  Errors are opaque: nil / non-nil.
-/
import GIV.Gen.ModuleGo
import GIV.Lemmas.ModuleGoRunes
import GIV.Lemmas.ProxyEscape
set_option linter.unusedSimpArgs false
namespace GIV.ModuleGo
open GIV GIV.GoLib GIV.Proxy GIV.SemverGo

/-- what the equivalence assumes of `strings.EqualFold`: on two ASCII strings it is equality up to ASCII case.
(`unicode.IsLetter` needs no assumption: the code consults it only for runes ≥ 128, which the proxy's strings
do not contain.) -/
def FoldOK (u : Unicode) : Prop :=
  ∀ s t : Bytes, Ascii s → Ascii t → u.equalFold s t = (s.map asciiUpper == t.map asciiUpper)

theorem foldOK_ascii : FoldOK Unicode.ascii := fun _ _ _ _ => rfl

/-- an error result: some non-nil error -/
def IsErr (x : Option GoError) : Prop := ∃ m, x = some (some m)

theorem IsErr.map {x : Option GoError} (h : IsErr x) : x.map Option.isNone = some false := by
  obtain ⟨m, rfl⟩ := h; rfl

/-! ### strings.Index / Contains / Count / LastIndexByte with a one-byte separator -/

theorem hasPrefix_single (x c : UInt8) (xs : Bytes) : GoLib.hasPrefix (x :: xs) [c] = (x == c) := by
  simp [GoLib.hasPrefix]

theorem index_single (c : UInt8) : ∀ s : Bytes,
    GoLib.index s [c] = if c ∈ s then ((s.takeWhile (· ≠ c)).length : Int) else -1 := by
  intro s
  induction s with
  | nil => simp [GoLib.index]
  | cons x xs ih =>
    rw [GoLib.index, hasPrefix_single]
    by_cases hx : x = c
    · subst hx; simp
    · have hx' : (x == c) = false := by simpa using hx
      have hx2 : ¬ c = x := fun h => hx h.symm
      rw [hx', ih]
      by_cases hm : c ∈ xs
      · simp [hm, hx, hx2]; omega
      · simp [hm, hx, hx2]

theorem contains_single (c : UInt8) (s : Bytes) : GoLib.contains s [c] = s.contains c := by
  unfold GoLib.contains
  rw [index_single]
  by_cases hm : c ∈ s
  · simp [hm]
  · simp [hm]

theorem countAux_single (c : UInt8) : ∀ (n : Nat) (s : Bytes), s.length ≤ n →
    GoLib.countAux [c] n s = (s.count c : Int) := by
  intro n
  induction n with
  | zero => intro s hs; cases s with
    | nil => simp [GoLib.countAux]
    | cons x xs => simp at hs
  | succ n ih =>
    intro s hs
    cases s with
    | nil => simp [GoLib.countAux]
    | cons x xs =>
      rw [GoLib.countAux, hasPrefix_single]
      have hl : xs.length ≤ n := by simp at hs; omega
      by_cases hx : x = c
      · subst hx
        simp only [beq_self_eq_true, if_true, List.length_singleton, List.drop_succ_cons, List.drop_zero,
          List.count_cons_self]
        rw [ih xs hl]; omega
      · have hx' : (x == c) = false := by simpa using hx
        rw [hx']
        simp only [Bool.false_eq_true, if_false]
        rw [ih xs hl, List.count_cons_of_ne (fun h => hx h)]

theorem count_single_all (c : UInt8) (s : Bytes) :
    (GoLib.count s [c] == GoLib.len s) = s.all (· = c) := by
  unfold GoLib.count GoLib.len
  simp only [List.isEmpty_cons, Bool.false_eq_true, if_false]
  rw [countAux_single c s.length s (Nat.le_refl _)]
  by_cases h : s.all (· = c) = true
  · rw [h]
    have : s.count c = s.length := List.count_eq_length.2 (by
      intro b hb
      have := List.all_eq_true.1 h b hb
      exact (of_decide_eq_true this).symm)
    simp [this]
  · have h' : s.all (· = c) = false := by simpa using h
    rw [h']
    have : s.count c ≠ s.length := by
      intro he
      apply h
      apply List.all_eq_true.2
      intro b hb
      have := List.count_eq_length.1 he b hb
      simpa using this.symm
    have h2 : ¬ ((s.count c : Int) = (s.length : Int)) := by omega
    simpa using h2

/-- `strings.LastIndexByte`: -1 when absent, otherwise the position after which `c` does not occur again -/
theorem lastIndexByte_spec (c : UInt8) : ∀ s : Bytes,
    (c ∉ s → GoLib.lastIndexByte s c = -1) ∧
    (c ∈ s → ∃ pre suf, s = pre ++ c :: suf ∧ c ∉ suf ∧ GoLib.lastIndexByte s c = (pre.length : Int)) := by
  intro s
  induction s with
  | nil => simp [GoLib.lastIndexByte]
  | cons x xs ih =>
    obtain ⟨ih1, ih2⟩ := ih
    by_cases hm : c ∈ xs
    · obtain ⟨pre, suf, e, hs, hl⟩ := ih2 hm
      refine ⟨fun h => absurd (List.mem_cons_of_mem _ hm) h, fun _ => ⟨x :: pre, suf, by rw [e]; rfl, hs, ?_⟩⟩
      rw [GoLib.lastIndexByte]
      simp only [hl]
      rw [if_pos (by omega)]
      simp
    · have hl := ih1 hm
      constructor
      · intro h
        have hx : ¬ x = c := fun hh => h (by rw [hh]; exact List.mem_cons_self ..)
        rw [GoLib.lastIndexByte]
        simp [hl, hx]
      · intro h
        have hx : x = c := by
          rcases List.mem_cons.1 h with h | h
          · exact h.symm
          · exact absurd h hm
        subst hx
        refine ⟨[], xs, rfl, hm, ?_⟩
        rw [GoLib.lastIndexByte]
        simp [hl]

/-! ### the character classes -/

/-- modPathOK on a rune -/
def modPathOKI (r : Int) : Bool :=
  decide (r < 128) && (r == 45 || r == 46 || r == 95 || r == 126 || (decide (48 ≤ r) && decide (r ≤ 57)) ||
    (decide (65 ≤ r) && decide (r ≤ 90)) || (decide (97 ≤ r) && decide (r ≤ 122)))

theorem modPathOK_go (u : Unicode) (r : Int) : GIV.Go.Module.modPathOK u r = some (modPathOKI r) := by
  unfold GIV.Go.Module.modPathOK modPathOKI
  by_cases h : r < 128 <;> simp [h]

theorem modPathOKI_byte : ∀ c : UInt8, modPathOKI (c.toNat : Int) = Proxy.modPathOK c := by
  apply forall_uint8
  decide +kernel

theorem modPathOKI_hi (r : Int) (h : 128 ≤ r) : modPathOKI r = false := by
  unfold modPathOKI
  have : ¬ r < 128 := by omega
  simp [this]

theorem modPathOK_hi : ∀ c : UInt8, 128 ≤ c.toNat → Proxy.modPathOK c = false := by
  apply forall_uint8
  decide +kernel

/-- firstPathOK on a rune -/
def firstPathOKI (r : Int) : Bool :=
  r == 45 || r == 46 || (decide (48 ≤ r) && decide (r ≤ 57)) || (decide (97 ≤ r) && decide (r ≤ 122))

theorem firstPathOK_go (u : Unicode) (r : Int) : GIV.Go.Module.firstPathOK u r = some (firstPathOKI r) := by
  unfold GIV.Go.Module.firstPathOK firstPathOKI
  rfl

theorem firstPathOKI_byte : ∀ c : UInt8, firstPathOKI (c.toNat : Int) = Proxy.firstPathOK c := by
  apply forall_uint8
  decide +kernel

theorem firstPathOKI_hi (r : Int) (h : 128 ≤ r) : firstPathOKI r = false := by
  unfold firstPathOKI
  have h1 : ¬ r = 45 := by omega
  have h2 : ¬ r = 46 := by omega
  have h3 : ¬ r ≤ 57 := by omega
  have h4 : ¬ r ≤ 122 := by omega
  simp [h1, h2, h3, h4]

theorem firstPathOK_hi : ∀ c : UInt8, 128 ≤ c.toNat → Proxy.firstPathOK c = false := by
  apply forall_uint8
  decide +kernel

/-- fileNameOK on a rune (`u.isLetter` for the runes ≥ 128) -/
def fileNameOKI (u : Unicode) (r : Int) : Bool :=
  if r < 128 then
    ((decide (48 ≤ r) && decide (r ≤ 57)) || (decide (65 ≤ r) && decide (r ≤ 90)) || (decide (97 ≤ r) && decide (r ≤ 122))) ||
      GoLib.containsRune ([33, 35, 36, 37, 38, 40, 41, 43, 44, 45, 46, 61, 64, 91, 93, 94, 95, 123, 125, 126, 32] : Bytes) r
  else u.isLetter r

theorem fileNameOK_go (u : Unicode) (r : Int) : GIV.Go.Module.fileNameOK u r = some (fileNameOKI u r) := by
  unfold GIV.Go.Module.fileNameOK fileNameOKI
  by_cases h : r < 128
  · simp only [h, decide_true, if_true]
    split
    · rename_i h1; simp [h1]
    · rename_i h1
      have : ((decide (48 ≤ r) && decide (r ≤ 57) || decide (65 ≤ r) && decide (r ≤ 90)) || decide (97 ≤ r) && decide (r ≤ 122)) = false := by
        simpa using h1
      simp [this]
  · simp [h]

theorem fileNameOKI_byte (u : Unicode) : ∀ c : UInt8, c.toNat < 128 →
    fileNameOKI u (c.toNat : Int) = Proxy.fileNameOK c := by
  have : ∀ c : UInt8, c.toNat < 128 → fileNameOKI Unicode.ascii (c.toNat : Int) = Proxy.fileNameOK c := by
    apply forall_uint8
    decide +kernel
  intro c hc
  rw [← this c hc]
  unfold fileNameOKI
  have : (c.toNat : Int) < 128 := by omega
  simp [this]

theorem digitI_byte : ∀ c : UInt8, (!(decide ((c.toNat : Int) < 48) || decide ((c.toNat : Int) > 57))) = Proxy.isDigit c := by
  apply forall_uint8
  decide +kernel

theorem asciiUpper_eq : ∀ c : UInt8, asciiUpper c = Proxy.toUpperByte c := by
  apply forall_uint8
  decide +kernel

/-! ### checkElem: the loops -/

/-- the digit test of the "trailing tilde and digits" loop -/
def digitI (r : Int) : Bool := !(decide (r < 48) || decide (r > 57))

theorem digitI_hi (r : Int) (h : 128 ≤ r) : digitI r = false := by
  unfold digitI
  have : r > 57 := by omega
  simp [this]

theorem isDigit_hi : ∀ c : UInt8, 128 ≤ c.toNat → Proxy.isDigit c = false := by
  apply forall_uint8
  decide +kernel

theorem loop3_eq (u : Unicode) (elem : Bytes) (kind : Int) (short : Bytes) (tilde : Int) (suffix : Bytes) :
    ∀ (l : List Int) (flag : Bool),
    GIV.Go.Module.checkElem_loop3 u elem kind short tilde suffix l flag =
      GIV.Go.Module.checkElem_after4 u elem kind short tilde suffix (flag && l.all digitI) := by
  intro l
  induction l with
  | nil => intro flag; simp [GIV.Go.Module.checkElem_loop3]
  | cons r rest ih =>
    intro flag
    rw [GIV.Go.Module.checkElem_loop3]
    by_cases h : (decide (r < 48) || decide (r > 57)) = true
    · have hd : digitI r = false := by simp [digitI, h]
      simp only [h, if_true, List.all_cons, hd, Bool.false_and, Bool.and_false]
    · have h' : (decide (r < 48) || decide (r > 57)) = false := by simpa using h
      have hd : digitI r = true := by simp [digitI, h']
      simp only [h', Bool.false_eq_true, if_false, List.all_cons, hd, Bool.true_and]
      exact ih flag

theorem after4_true (u : Unicode) (elem : Bytes) (kind : Int) (short : Bytes) (tilde : Int) (suffix : Bytes) :
    IsErr (GIV.Go.Module.checkElem_after4 u elem kind short tilde suffix true) := by
  unfold GIV.Go.Module.checkElem_after4
  exact ⟨_, rfl⟩

theorem after4_false (u : Unicode) (elem : Bytes) (kind : Int) (short : Bytes) (tilde : Int) (suffix : Bytes) :
    GIV.Go.Module.checkElem_after4 u elem kind short tilde suffix false = some none := by
  unfold GIV.Go.Module.checkElem_after4 GIV.Go.Module.checkElem_k3
  rfl

/-- the model's tildeDigits on a string split at its last '~' -/
theorem tw_head (b : Bytes) : ∀ a : Bytes, 126 ∉ a →
    ((((a ++ 126 :: b).drop ((a ++ 126 :: b).takeWhile Proxy.isDigit).length).head? = some 126) ↔
      a.all Proxy.isDigit = true) := by
  intro a
  induction a with
  | nil => intro _; simp [show Proxy.isDigit 126 = false from by decide]
  | cons x a ih =>
    intro h
    have hx : x ≠ 126 := fun e => h (by rw [e]; exact List.mem_cons_self ..)
    have ha : 126 ∉ a := fun m => h (List.mem_cons_of_mem _ m)
    by_cases hd : Proxy.isDigit x = true
    · simp only [List.cons_append, List.takeWhile_cons, hd, if_true, List.length_cons, List.drop_succ_cons,
        List.all_cons, Bool.true_and]
      exact ih ha
    · have hd' : Proxy.isDigit x = false := by simpa using hd
      simp [hd', hx]

theorem tildeDigits_append (pre suf : Bytes) (h : 126 ∉ suf) :
    Proxy.tildeDigits (pre ++ 126 :: suf) = (!suf.isEmpty && suf.all Proxy.isDigit) := by
  unfold Proxy.tildeDigits
  have hr : (pre ++ 126 :: suf).reverse = suf.reverse ++ 126 :: pre.reverse := by simp
  simp only [hr]
  have hm : 126 ∉ suf.reverse := by simpa using h
  have key := tw_head pre.reverse suf.reverse hm
  rw [List.all_reverse] at key
  cases hs : suf.reverse with
  | nil =>
    have : suf = [] := by simpa using hs
    subst this
    simp [show Proxy.isDigit 126 = false from by decide]
  | cons x a =>
    have hne : suf ≠ [] := by intro e; subst e; simp at hs
    have hie : suf.isEmpty = false := by cases suf <;> simp_all
    rw [hs] at key
    by_cases hd : Proxy.isDigit x = true
    · have h1 : (List.takeWhile Proxy.isDigit (x :: a ++ 126 :: pre.reverse)).isEmpty = false := by
        simp [hd]
      rw [h1, hie]
      simp only [Bool.not_false, Bool.true_and]
      by_cases hall : suf.all Proxy.isDigit = true
      · rw [hall]; simpa using key.2 hall
      · have hall' : suf.all Proxy.isDigit = false := by simpa using hall
        rw [hall']
        have := mt key.1 hall
        simpa using this
    · have hd' : Proxy.isDigit x = false := by simpa using hd
      have hall : suf.all Proxy.isDigit = false := by
        have : (suf.reverse).all Proxy.isDigit = false := by rw [hs]; simp [hd']
        rwa [List.all_reverse] at this
      rw [hall]
      simp [hd']

theorem tildeDigits_no_tilde (short : Bytes) (h : 126 ∉ short) : Proxy.tildeDigits short = false := by
  unfold Proxy.tildeDigits
  by_cases hh : ((short.reverse.drop (short.reverse.takeWhile Proxy.isDigit).length).head? = some 126)
  · exfalso
    apply h
    have : 126 ∈ short.reverse.drop (short.reverse.takeWhile Proxy.isDigit).length := List.mem_of_head? hh
    have := List.mem_of_mem_drop this
    simpa using this
  · simp only [hh, decide_false, Bool.and_false]

/-- `checkElem` after the Windows names, for a module path element: the tilde test -/
theorem after2_k0 (u : Unicode) (elem short : Bytes) :
    (GIV.Go.Module.checkElem_after2 u elem 0 short).map Option.isNone = some (!Proxy.tildeDigits short) := by
  unfold GIV.Go.Module.checkElem_after2
  simp only [show ((0 : Int) == 2) = false from rfl, Bool.false_eq_true, if_false]
  obtain ⟨h1, h2⟩ := lastIndexByte_spec 126 short
  by_cases hm : (126 : UInt8) ∈ short
  · obtain ⟨pre, suf, e, hs, hl⟩ := h2 hm
    rw [hl, e, tildeDigits_append pre suf hs]
    simp only [Option.pure_def, Option.bind_eq_bind, GoLib.len, List.length_append, List.length_cons]
    cases suf with
    | nil =>
      have : ¬ ((pre.length : Int) < ((pre.length + (0 + 1) : Nat) : Int) - 1) := by omega
      simp [this, GIV.Go.Module.checkElem_k3]
    | cons x suf' =>
      have h3 : ((pre.length : Int) < ((pre.length + ((x :: suf').length + 1) : Nat) : Int) - 1) := by
        simp; omega
      have h4 : (pre.length : Int) ≥ 0 := by omega
      simp only [h3, h4, decide_true, Bool.and_self, if_true]
      have hsl : GoLib.slice? (pre ++ 126 :: x :: suf') ((pre.length : Int) + 1)
          ((pre.length + ((x :: suf').length + 1) : Nat) : Int) = some (x :: suf') := by
        rw [cast_succ, slice_nat _ _ _ (by omega) (by simp)]
        rw [List.take_of_length_le (by simp)]
        rw [show pre ++ 126 :: x :: suf' = (pre ++ [126]) ++ x :: suf' from by simp]
        rw [List.drop_left' (by simp)]
      rw [hsl]
      simp only [Option.bind_some, loop3_eq, Bool.true_and]
      rw [runes_all digitI Proxy.isDigit (fun c _ => digitI_byte c) digitI_hi isDigit_hi]
      by_cases hall : (x :: suf').all Proxy.isDigit = true
      · rw [hall]
        exact (after4_true ..).map
      · have hall' : (x :: suf').all Proxy.isDigit = false := by simpa using hall
        rw [hall', after4_false]
        simp
  · rw [h1 hm, tildeDigits_no_tilde short hm]
    simp [GIV.Go.Module.checkElem_k3]

theorem after2_k2 (u : Unicode) (elem short : Bytes) :
    GIV.Go.Module.checkElem_after2 u elem 2 short = some none := by
  unfold GIV.Go.Module.checkElem_after2
  rfl

theorem loop2_eq (u : Unicode) (elem : Bytes) (kind : Int) (short : Bytes) : ∀ bads : List Bytes,
    (bads.any (fun bad => u.equalFold bad short) = true → IsErr (GIV.Go.Module.checkElem_loop2 u elem kind short bads)) ∧
    (bads.any (fun bad => u.equalFold bad short) = false →
      GIV.Go.Module.checkElem_loop2 u elem kind short bads = GIV.Go.Module.checkElem_after2 u elem kind short) := by
  intro bads
  induction bads with
  | nil => simp [GIV.Go.Module.checkElem_loop2]
  | cons bad rest ih =>
    rw [GIV.Go.Module.checkElem_loop2]
    by_cases h : u.equalFold bad short = true
    · simp only [h, if_true, List.any_cons, Bool.true_or]
      exact ⟨fun _ => ⟨_, rfl⟩, fun hh => by cases hh⟩
    · have h' : u.equalFold bad short = false := by simpa using h
      simp only [h', Bool.false_eq_true, if_false, List.any_cons, Bool.false_or]
      exact ih

/-! ### checkElem: short name, Windows names -/

/-- the literal table of the translation (`badWindowsNames` of module.go) -/
def badList : List Bytes :=
  [([67, 79, 78] : Bytes), ([80, 82, 78] : Bytes), ([65, 85, 88] : Bytes), ([78, 85, 76] : Bytes), ([67, 79, 77, 49] : Bytes), ([67, 79, 77, 50] : Bytes), ([67, 79, 77, 51] : Bytes), ([67, 79, 77, 52] : Bytes), ([67, 79, 77, 53] : Bytes), ([67, 79, 77, 54] : Bytes), ([67, 79, 77, 55] : Bytes), ([67, 79, 77, 56] : Bytes), ([67, 79, 77, 57] : Bytes), ([76, 80, 84, 49] : Bytes), ([76, 80, 84, 50] : Bytes), ([76, 80, 84, 51] : Bytes), ([76, 80, 84, 52] : Bytes), ([76, 80, 84, 53] : Bytes), ([76, 80, 84, 54] : Bytes), ([76, 80, 84, 55] : Bytes), ([76, 80, 84, 56] : Bytes), ([76, 80, 84, 57] : Bytes)]

theorem badList_eq : badList = Proxy.badWindowsNames := by decide +kernel

instance (s : Bytes) : Decidable (Ascii s) := inferInstanceAs (Decidable (∀ c ∈ s, c.toNat < 128))

theorem badList_upper : ∀ bad ∈ badList, Ascii bad ∧ bad.map asciiUpper = bad := by decide +kernel

theorem any_congr_mem {α} {l : List α} {f g : α → Bool} (h : ∀ x ∈ l, f x = g x) : l.any f = l.any g := by
  induction l with
  | nil => rfl
  | cons a l ih =>
    simp only [List.any_cons]
    rw [h a (List.mem_cons_self ..), ih (fun x hx => h x (List.mem_cons_of_mem _ hx))]

theorem Ascii.map_upper {s : Bytes} : s.map asciiUpper = s.map Proxy.toUpperByte := by
  apply List.map_congr_left
  intro c _
  exact asciiUpper_eq c

/-- with `FoldOK`, on an ASCII `short` the EqualFold loop is the model's membership test -/
theorem bad_any_eq (u : Unicode) (hu : FoldOK u) (short : Bytes) (ha : Ascii short) :
    badList.any (fun bad => u.equalFold bad short) = Proxy.badWindowsNames.any (· = short.map Proxy.toUpperByte) := by
  rw [← badList_eq]
  apply any_congr_mem
  intro bad hb
  obtain ⟨h1, h2⟩ := badList_upper bad hb
  rw [hu bad short h1 ha, h2, Ascii.map_upper]
  by_cases h : bad = short.map Proxy.toUpperByte <;> simp [h]

theorem takeWhile_ne_of_not_mem (c : UInt8) : ∀ s : Bytes, c ∉ s → s.takeWhile (· ≠ c) = s := by
  intro s
  induction s with
  | nil => intro _; rfl
  | cons x xs ih =>
    intro h
    have hx : x ≠ c := fun e => h (by rw [e]; exact List.mem_cons_self ..)
    rw [List.takeWhile_cons_of_pos (by simpa using hx), ih (fun m => h (List.mem_cons_of_mem _ m))]

theorem after1_eq (u : Unicode) (elem : Bytes) (kind : Int) :
    GIV.Go.Module.checkElem_after1 u elem kind =
      GIV.Go.Module.checkElem_loop2 u elem kind (elem.takeWhile (· ≠ 46)) badList := by
  simp only [GIV.Go.Module.checkElem_after1, index_single]
  by_cases hm : (46 : UInt8) ∈ elem
  · simp only [hm, if_true]
    have hle : (elem.takeWhile (· ≠ 46)).length ≤ elem.length := by
      have := scan_le (· ≠ 46) elem 0 (Nat.zero_le _)
      rwa [scan_zero] at this
    have h0 : ((elem.takeWhile (· ≠ 46)).length : Int) ≥ 0 := by omega
    simp only [h0, decide_true, if_true, slice_zero elem _ hle, take_takeWhile_length, Option.pure_def,
      Option.bind_eq_bind, Option.bind_some]
    rfl
  · simp only [hm, if_false]
    rw [takeWhile_ne_of_not_mem 46 elem hm]
    rfl

/-! ### checkElem: the character loop -/

theorem loop1_k0 (u : Unicode) (elem : Bytes) : ∀ l : List Int,
    (l.all modPathOKI = true → GIV.Go.Module.checkElem_loop1 u elem 0 l = GIV.Go.Module.checkElem_after1 u elem 0) ∧
    (l.all modPathOKI = false → IsErr (GIV.Go.Module.checkElem_loop1 u elem 0 l)) := by
  intro l
  induction l with
  | nil => simp [GIV.Go.Module.checkElem_loop1]
  | cons r rest ih =>
    have step : GIV.Go.Module.checkElem_loop1 u elem 0 (r :: rest) =
        if modPathOKI r then GIV.Go.Module.checkElem_loop1 u elem 0 rest
        else some (some ([105, 110, 118, 97, 108, 105, 100, 32, 99, 104, 97, 114, 32, 37, 113] : Bytes)) := by
      rw [GIV.Go.Module.checkElem_loop1]
      simp only [show ((0 : Int) == 0) = true from rfl, if_true, modPathOK_go, Option.pure_def, Option.bind_eq_bind,
        Option.bind_some]
      cases modPathOKI r <;> rfl
    rw [step]
    by_cases h : modPathOKI r = true
    · simp only [h, if_true, List.all_cons, Bool.true_and]
      exact ih
    · have h' : modPathOKI r = false := by simpa using h
      refine ⟨fun hh => ?_, fun _ => ?_⟩
      · simp [h'] at hh
      · simp only [h', Bool.false_eq_true, if_false]
        exact ⟨_, rfl⟩

theorem loop1_k2 (u : Unicode) (elem : Bytes) : ∀ l : List Int,
    (l.all (fileNameOKI u) = true → GIV.Go.Module.checkElem_loop1 u elem 2 l = GIV.Go.Module.checkElem_after1 u elem 2) ∧
    (l.all (fileNameOKI u) = false → IsErr (GIV.Go.Module.checkElem_loop1 u elem 2 l)) := by
  intro l
  induction l with
  | nil => simp [GIV.Go.Module.checkElem_loop1]
  | cons r rest ih =>
    have step : GIV.Go.Module.checkElem_loop1 u elem 2 (r :: rest) =
        if fileNameOKI u r then GIV.Go.Module.checkElem_loop1 u elem 2 rest
        else some (some ([105, 110, 118, 97, 108, 105, 100, 32, 99, 104, 97, 114, 32, 37, 113] : Bytes)) := by
      rw [GIV.Go.Module.checkElem_loop1]
      simp only [show ((2 : Int) == 0) = false from rfl, show ((2 : Int) == 1) = false from rfl,
        show ((2 : Int) == 2) = true from rfl, Bool.false_eq_true, if_false, Bool.not_true,
        fileNameOK_go, Option.pure_def, Option.bind_eq_bind, Option.bind_some]
      cases fileNameOKI u r <;> rfl
    rw [step]
    by_cases h : fileNameOKI u r = true
    · simp only [h, if_true, List.all_cons, Bool.true_and]
      exact ih
    · have h' : fileNameOKI u r = false := by simpa using h
      refine ⟨fun hh => ?_, fun _ => ?_⟩
      · simp [h'] at hh
      · simp only [h', Bool.false_eq_true, if_false]
        exact ⟨_, rfl⟩

theorem getLast?_eq_idx (s : Bytes) (h : s ≠ []) : GoLib.idx? s (GoLib.len s - 1) = s.getLast? := by
  have hl : 1 ≤ s.length := by cases s <;> simp_all
  have : (GoLib.len s - 1) = ((s.length - 1 : Nat) : Int) := by unfold GoLib.len; omega
  rw [this, idx_nat, List.getLast?_eq_getElem?]

theorem ascii_of_all_modPathOK {s : Bytes} (h : s.all Proxy.modPathOK = true) : Ascii s := by
  intro c hc
  have h1 := List.all_eq_true.1 h c hc
  by_cases h2 : c.toNat < 128
  · exact h2
  · have := modPathOK_hi c (by omega)
    rw [this] at h1; cases h1

theorem Ascii.takeWhile {s : Bytes} (p : UInt8 → Bool) (h : Ascii s) : Ascii (s.takeWhile p) :=
  fun c hc => h c ((List.takeWhile_prefix p).subset hc)

/-- nil-ness of an error result -/
theorem map_isNone_some_none : (some (none : GoError)).map Option.isNone = some true := rfl

/-- what is left of `checkElem` after the four early exits -/
theorem checkElem_go (u : Unicode) (c : UInt8) (rest : Bytes) (k : Int) (z : UInt8)
    (h1 : (c :: rest).all (· = 46) = false) (h2 : ((c == 46) && (k == 0)) = false)
    (hl : (c :: rest).getLast? = some z) (h3 : z ≠ 46) :
    GIV.Go.Module.checkElem u (c :: rest) k = GIV.Go.Module.checkElem_loop1 u (c :: rest) k (runes (c :: rest)) := by
  unfold GIV.Go.Module.checkElem
  have h3' : (z == 46) = false := by simpa using h3
  simp only [show ((c :: rest) == ([] : Bytes)) = false from rfl, Bool.false_eq_true, if_false, count_single_all, h1,
    idx_zero, List.head?_cons, Option.pure_def, Option.bind_eq_bind, Option.bind_some, h2,
    getLast?_eq_idx (c :: rest) (by simp), hl, h3']

theorem checkElem_go_err (u : Unicode) (c : UInt8) (rest : Bytes) (k : Int)
    (h : (c :: rest).all (· = 46) = true ∨ ((c == 46) && (k == 0)) = true ∨ (c :: rest).getLast? = some 46) :
    IsErr (GIV.Go.Module.checkElem u (c :: rest) k) := by
  unfold GIV.Go.Module.checkElem
  simp only [show ((c :: rest) == ([] : Bytes)) = false from rfl, Bool.false_eq_true, if_false, count_single_all,
    idx_zero, List.head?_cons, Option.pure_def, Option.bind_eq_bind, Option.bind_some,
    getLast?_eq_idx (c :: rest) (by simp)]
  by_cases h1 : (c :: rest).all (· = 46) = true
  · rw [h1]; exact ⟨_, rfl⟩
  · have h1' : (c :: rest).all (· = 46) = false := by simpa using h1
    rw [h1']
    simp only [Bool.false_eq_true, if_false]
    by_cases h2 : ((c == 46) && (k == 0)) = true
    · rw [h2]; exact ⟨_, rfl⟩
    · have h2' : ((c == 46) && (k == 0)) = false := by simpa using h2
      rw [h2']
      simp only [Bool.false_eq_true, if_false]
      rcases h with h | h | h
      · exact absurd h h1
      · exact absurd h h2
      · rw [h]; exact ⟨_, rfl⟩

/-- `checkElem(elem, modulePath)`, for every string -/
theorem checkElem_k0 (u : Unicode) (hu : FoldOK u) (elem : Bytes) :
    (GIV.Go.Module.checkElem u elem 0).map Option.isNone = some (Proxy.checkElem .modulePath elem) := by
  cases elem with
  | nil => rfl
  | cons c rest =>
    by_cases h1 : (c :: rest).all (· = 46) = true
    · rw [(checkElem_go_err u c rest 0 (Or.inl h1)).map]
      simp [Proxy.checkElem, h1]
    have h1' : (c :: rest).all (· = 46) = false := by simpa using h1
    by_cases h2 : c = 46
    · rw [(checkElem_go_err u c rest 0 (Or.inr (Or.inl (by subst h2; rfl)))).map]
      simp [Proxy.checkElem, h2]
    cases hl : (c :: rest).getLast? with
    | none => simp at hl
    | some z =>
    by_cases h3 : z = 46
    · rw [(checkElem_go_err u c rest 0 (Or.inr (Or.inr (by rw [hl, h3])))).map]
      simp [Proxy.checkElem, hl, h3]
    rw [checkElem_go u c rest 0 z h1' (by simp [h2]) hl h3]
    have hall : (runes (c :: rest)).all modPathOKI = (c :: rest).all (Proxy.charOK .modulePath) :=
      runes_all modPathOKI Proxy.modPathOK (fun c _ => modPathOKI_byte c) modPathOKI_hi modPathOK_hi _
    obtain ⟨l1, l2⟩ := loop1_k0 u (c :: rest) (runes (c :: rest))
    by_cases h4 : (c :: rest).all (Proxy.charOK .modulePath) = true
    · rw [l1 (by rw [hall, h4]), after1_eq]
      have ha : Ascii ((c :: rest).takeWhile (· ≠ 46)) := (ascii_of_all_modPathOK h4).takeWhile _
      obtain ⟨b1, b2⟩ := loop2_eq u (c :: rest) 0 ((c :: rest).takeWhile (· ≠ 46)) badList
      have hm : Proxy.checkElem .modulePath (c :: rest) =
          (!(badList.any (fun bad => u.equalFold bad ((c :: rest).takeWhile (· ≠ 46)))) &&
            !Proxy.tildeDigits ((c :: rest).takeWhile (· ≠ 46))) := by
        rw [bad_any_eq u hu _ ha]
        simp only [Proxy.checkElem, h1', hl, h4, List.isEmpty_cons, List.head?_cons]
        simp [h2, h3]
      rw [hm]
      by_cases h5 : badList.any (fun bad => u.equalFold bad ((c :: rest).takeWhile (· ≠ 46))) = true
      · rw [h5, (b1 h5).map]; rfl
      · have h5' : badList.any (fun bad => u.equalFold bad ((c :: rest).takeWhile (· ≠ 46))) = false := by
          simpa using h5
        rw [h5', b2 h5', after2_k0]
        simp
    · have h4' : (c :: rest).all (Proxy.charOK .modulePath) = false := by simpa using h4
      rw [(l2 (by rw [hall, h4'])).map]
      simp [Proxy.checkElem, h4']

theorem all_congr_mem {α} {l : List α} {f g : α → Bool} (h : ∀ x ∈ l, f x = g x) : l.all f = l.all g := by
  induction l with
  | nil => rfl
  | cons a l ih =>
    simp only [List.all_cons]
    rw [h a (List.mem_cons_self ..), ih (fun x hx => h x (List.mem_cons_of_mem _ hx))]

theorem all_map_toInt (P : Int → Bool) (s : Bytes) :
    (s.map fun c => (c.toNat : Int)).all P = s.all fun c => P (c.toNat : Int) := by
  induction s with
  | nil => rfl
  | cons x xs ih => simp [ih]

/-- `checkElem(elem, filePath)` on an ASCII string (what `unescapeString` returns) -/
theorem checkElem_k2 (u : Unicode) (hu : FoldOK u) (elem : Bytes) (hascii : Ascii elem) :
    (GIV.Go.Module.checkElem u elem 2).map Option.isNone = some (Proxy.checkElem .filePath elem) := by
  cases elem with
  | nil => rfl
  | cons c rest =>
    by_cases h1 : (c :: rest).all (· = 46) = true
    · rw [(checkElem_go_err u c rest 2 (Or.inl h1)).map]
      simp [Proxy.checkElem, h1]
    have h1' : (c :: rest).all (· = 46) = false := by simpa using h1
    cases hl : (c :: rest).getLast? with
    | none => simp at hl
    | some z =>
    by_cases h3 : z = 46
    · rw [(checkElem_go_err u c rest 2 (Or.inr (Or.inr (by rw [hl, h3])))).map]
      simp [Proxy.checkElem, hl, h3]
    rw [checkElem_go u c rest 2 z h1' (by simp) hl h3]
    have hall : (runes (c :: rest)).all (fileNameOKI u) = (c :: rest).all (Proxy.charOK .filePath) := by
      rw [runes_ascii hascii, all_map_toInt]
      apply all_congr_mem
      intro x hx
      exact fileNameOKI_byte u x (hascii x hx)
    obtain ⟨l1, l2⟩ := loop1_k2 u (c :: rest) (runes (c :: rest))
    by_cases h4 : (c :: rest).all (Proxy.charOK .filePath) = true
    · rw [l1 (by rw [hall, h4]), after1_eq]
      have ha : Ascii ((c :: rest).takeWhile (· ≠ 46)) := hascii.takeWhile _
      obtain ⟨b1, b2⟩ := loop2_eq u (c :: rest) 2 ((c :: rest).takeWhile (· ≠ 46)) badList
      have hm : Proxy.checkElem .filePath (c :: rest) =
          !(badList.any (fun bad => u.equalFold bad ((c :: rest).takeWhile (· ≠ 46)))) := by
        rw [bad_any_eq u hu _ ha]
        simp only [Proxy.checkElem, h1', hl, h4, List.isEmpty_cons, List.head?_cons]
        simp [h3]
      rw [hm]
      by_cases h5 : badList.any (fun bad => u.equalFold bad ((c :: rest).takeWhile (· ≠ 46))) = true
      · rw [h5, (b1 h5).map]; rfl
      · have h5' : badList.any (fun bad => u.equalFold bad ((c :: rest).takeWhile (· ≠ 46))) = false := by
          simpa using h5
        rw [h5', b2 h5', after2_k2]
        rfl
    · have h4' : (c :: rest).all (Proxy.charOK .filePath) = false := by simpa using h4
      rw [(l2 (by rw [hall, h4'])).map]
      simp [Proxy.checkElem, h4']

/-- `checkElem(elem, filePath)` never panics, whatever the string and the Unicode tables -/
theorem checkElem_k2_total (u : Unicode) (elem : Bytes) : ∃ e, GIV.Go.Module.checkElem u elem 2 = some e := by
  cases elem with
  | nil => exact ⟨_, rfl⟩
  | cons c rest =>
    by_cases h1 : (c :: rest).all (· = 46) = true
    · obtain ⟨m, hm⟩ := checkElem_go_err u c rest 2 (Or.inl h1); exact ⟨_, hm⟩
    have h1' : (c :: rest).all (· = 46) = false := by simpa using h1
    cases hl : (c :: rest).getLast? with
    | none => simp at hl
    | some z =>
    by_cases h3 : z = 46
    · obtain ⟨m, hm⟩ := checkElem_go_err u c rest 2 (Or.inr (Or.inr (by rw [hl, h3]))); exact ⟨_, hm⟩
    rw [checkElem_go u c rest 2 z h1' (by simp) hl h3]
    obtain ⟨l1, l2⟩ := loop1_k2 u (c :: rest) (runes (c :: rest))
    by_cases h4 : (runes (c :: rest)).all (fileNameOKI u) = true
    · rw [l1 h4, after1_eq]
      obtain ⟨b1, b2⟩ := loop2_eq u (c :: rest) 2 ((c :: rest).takeWhile (· ≠ 46)) badList
      by_cases h5 : badList.any (fun bad => u.equalFold bad ((c :: rest).takeWhile (· ≠ 46))) = true
      · obtain ⟨m, hm⟩ := b1 h5; exact ⟨_, hm⟩
      · rw [b2 (by simpa using h5), after2_k2]; exact ⟨_, rfl⟩
    · obtain ⟨m, hm⟩ := l2 (by simpa using h4); exact ⟨_, hm⟩

/-- a string with a byte ≥ 128 is not a valid file-path element of the model -/
theorem checkElem_filePath_ascii {v : Bytes} (h : Proxy.checkElem .filePath v = true) : Ascii v := by
  have h4 : v.all (Proxy.charOK .filePath) = true := by
    simp only [Proxy.checkElem, Bool.and_eq_true] at h
    exact h.1.2
  intro c hc
  have h1 := List.all_eq_true.1 h4 c hc
  by_cases h2 : c.toNat < 128
  · exact h2
  · exfalso
    have : ∀ c : UInt8, 128 ≤ c.toNat → Proxy.fileNameOK c = false := by
      apply forall_uint8
      decide +kernel
    have := this c (by omega)
    simp only [Proxy.charOK] at h1
    rw [this] at h1; cases h1

end GIV.ModuleGo
