/-
  The translated index-entry parser of cache/cache.go (GIV/Gen/CacheParseGo.lean, regenerated on every run from the
  statements inside `(*Cache).get`) equals the model's `parseEntry` on the buffer `get` allocates.
-/
import GIV.Gen.CacheParseGo
import GIV.Lemmas.CacheParse

namespace GIV.CacheParseGo
open GIV GIV.Cache GIV.GoLib GIV.Go.CacheParse

theorem hexDecode_prefix (s : Bytes) :
    hexDecode s = if (hexDecodePrefix s).2 then none else some (hexDecodePrefix s).1 := by
  fun_induction hexDecodePrefix s with
  | case1 => simp [hexDecode]
  | case2 => simp [hexDecode]
  | case3 a b r x y hx hy ih =>
    simp only [hexDecode, hx, hy, ih]
    by_cases hb : (hexDecodePrefix r).2 = true <;> simp [hb]
  | case4 a b r h =>
    simp only [hexDecode]
    split
    · next x y t hx hy _ => exact absurd hy (h x y hx)
    · simp

theorem hexDecodePrefix_len (s : Bytes) :
    2 * (hexDecodePrefix s).1.length ≤ s.length ∧
    ((hexDecodePrefix s).2 = false → 2 * (hexDecodePrefix s).1.length = s.length) := by
  fun_induction hexDecodePrefix s with
  | case1 => simp
  | case2 => simp
  | case3 a b r x y hx hy ih => 
    simp only [List.length_cons]
    refine ⟨by omega, fun h => ?_⟩
    have := ih.2 h
    omega
  | case4 a b r h => simp

/-- `hex.Decode(buf[:], field)` for a 64-byte field and a 32-byte array against the model's `decodeHash`. -/
theorem hexInto_cases (dst hid : Bytes) (hdst : dst.length = 32) (h : hid.length = 64) :
    (∃ b n e, hexDecodeInto dst hid = some (b, n, some e) ∧ decodeHash hid = some none) ∨
    (∃ hh : Hash, hexDecodeInto dst hid = some (hh.val, 32, none) ∧ decodeHash hid = some (some hh)) := by
  have hl := hexDecodePrefix_len hid
  have hH : Gen.Cache.HashSize = 32 := by decide
  by_cases hb : (hexDecodePrefix hid).2 = true
  · left
    refine ⟨(hexDecodePrefix hid).1 ++ dst.drop (hexDecodePrefix hid).1.length, ((hexDecodePrefix hid).1.length : Int), [104, 101, 120], ?_, ?_⟩
    · simp only [hexDecodeInto, hb, if_true]
      rw [if_pos (by omega)]
    · simp [decodeHash, hH, h, hexDecode_prefix, hb]
  · right
    have hb' : (hexDecodePrefix hid).2 = false := by simpa using hb
    have hlen : (hexDecodePrefix hid).1.length = 32 := by have := hl.2 hb'; omega
    refine ⟨⟨(hexDecodePrefix hid).1, by rw [hH]; exact hlen⟩, ?_, ?_⟩
    · simp only [hexDecodeInto, hb', hlen, hdst]
      simp [List.drop_of_length_le, hdst]
    · simp [decodeHash, hH, h, hexDecode_prefix, hb', Hash.ofBytes?, hlen]

theorem drop_takeWhile_length (p : UInt8 → Bool) (l : Bytes) : l.drop (l.takeWhile p).length = l.dropWhile p := by
  induction l with
  | nil => simp
  | cons a l ih => by_cases h : p a <;> simp [List.takeWhile, List.dropWhile, h, ih]

theorem slice?_mid (a b c : Bytes) (lo hi : Int) (ha : (a.length : Int) = lo) (hb : lo + b.length = hi) :
    GoLib.slice? (a ++ (b ++ c)) lo hi = some b := by
  subst ha hb
  have : ((a.length : Int) + (b.length : Int)).toNat = a.length + b.length := by omega
  simp [GoLib.slice?, this, List.take_append]
  omega

theorem slice?_tail (a b : Bytes) (lo hi : Int) (ha : (a.length : Int) = lo) (hb : hi = ((a ++ b).length : Int)) :
    GoLib.slice? (a ++ b) lo hi = some b := by
  subst ha hb
  have : ((a.length : Int) + (b.length : Int)).toNat = a.length + b.length := by omega
  simp [GoLib.slice?, this, List.take_of_length_le]
  omega

theorem idx?_mid (a : Bytes) (x : UInt8) (c : Bytes) (i : Int) (ha : (a.length : Int) = i) :
    GoLib.idx? (a ++ (x :: c)) i = some x := by
  subst ha; simp [GoLib.idx?]

theorem loop1_eq (entry id zero : Bytes) (zsize ztm : Int) (why : Bytes) (ok : Bool) (eid eout esize etime buf : Bytes) :
    ∀ (fuel i : Nat), i ≤ esize.length → esize.length - i < fuel →
    parseEntrySlice_loop1 entry id zero zsize ztm why ok eid eout esize etime buf fuel (i : Int) =
    parseEntrySlice_after1 entry id zero zsize ztm why ok eid eout esize etime buf
      ((i + ((esize.drop i).takeWhile (· == 32)).length : Nat) : Int) := by
  intro fuel
  induction fuel with
  | zero => intro i _ hf; omega
  | succ n ih =>
    intro i hi hf
    rw [parseEntrySlice_loop1]
    by_cases hlt : i < esize.length
    · have hd : esize.drop i = esize[i] :: esize.drop (i + 1) := List.drop_eq_getElem_cons hlt
      have hlt' : (i : Int) < GoLib.len esize := by simp [GoLib.len]; omega
      by_cases h32 : esize[i] = 32
      · have := ih (i + 1) (by omega) (by omega)
        simp only [hlt', GoLib.idx?, decide_true, if_true, Int.toNat_natCast, List.getElem?_eq_getElem hlt, h32]
        rw [hd, List.takeWhile_cons]
        simp only [h32, BEq.rfl, if_true, List.length_cons]
        rw [show i + ((List.takeWhile (fun x => x == 32) (List.drop (i + 1) esize)).length + 1)
          = i + 1 + (List.takeWhile (fun x => x == 32) (List.drop (i + 1) esize)).length by omega, ← this]
        simp
      · simp only [hlt', GoLib.idx?, decide_true, if_true, Int.toNat_natCast, List.getElem?_eq_getElem hlt]
        rw [hd, List.takeWhile_cons]
        simp [h32]
    · have : esize.drop i = [] := List.drop_of_length_le (by omega)
      have hlt' : ¬ (i : Int) < GoLib.len esize := by simp [GoLib.len]; omega
      simp [hlt', this]

theorem loop2_eq (entry id zero : Bytes) (zsize ztm : Int) (why : Bytes) (ok : Bool) (eid eout esize etime buf : Bytes) (size : Int) (err_2 : GoError) :
    ∀ (fuel i : Nat), i ≤ etime.length → etime.length - i < fuel →
    parseEntrySlice_loop2 entry id zero zsize ztm why ok eid eout esize etime buf size err_2 fuel (i : Int) =
    parseEntrySlice_after2 entry id zero zsize ztm why ok eid eout esize etime buf
      ((i + ((etime.drop i).takeWhile (· == 32)).length : Nat) : Int) size err_2 := by
  intro fuel
  induction fuel with
  | zero => intro i _ hf; omega
  | succ n ih =>
    intro i hi hf
    rw [parseEntrySlice_loop2]
    by_cases hlt : i < etime.length
    · have hd : etime.drop i = etime[i] :: etime.drop (i + 1) := List.drop_eq_getElem_cons hlt
      have hlt' : (i : Int) < GoLib.len etime := by simp [GoLib.len]; omega
      by_cases h32 : etime[i] = 32
      · have := ih (i + 1) (by omega) (by omega)
        simp only [hlt', GoLib.idx?, decide_true, if_true, Int.toNat_natCast, List.getElem?_eq_getElem hlt, h32]
        rw [hd, List.takeWhile_cons]
        simp only [h32, BEq.rfl, if_true, List.length_cons]
        rw [show i + ((List.takeWhile (fun x => x == 32) (List.drop (i + 1) etime)).length + 1)
          = i + 1 + (List.takeWhile (fun x => x == 32) (List.drop (i + 1) etime)).length by omega, ← this]
        simp
      · simp only [hlt', GoLib.idx?, decide_true, if_true, Int.toNat_natCast, List.getElem?_eq_getElem hlt]
        rw [hd, List.takeWhile_cons]
        simp [h32]
    · have : etime.drop i = [] := List.drop_of_length_le (by omega)
      have hlt' : ¬ (i : Int) < GoLib.len etime := by simp [GoLib.len]; omega
      simp [hlt', this]

/-- the reason strings of the wrapper (`errors.New` literal / `fmt.Errorf` prefix) for the model's reasons. -/
def reasonText : Reason → Bytes
  | .header => [105, 110, 118, 97, 108, 105, 100, 32, 104, 101, 97, 100, 101, 114]
  | .decodeID => [100, 101, 99, 111, 100, 105, 110, 103, 32, 73, 68]
  | .mismatchedID => [109, 105, 115, 109, 97, 116, 99, 104, 101, 100, 32, 73, 68]
  | .decodeOut => [100, 101, 99, 111, 100, 105, 110, 103, 32, 111, 117, 116, 112, 117, 116, 32, 73, 68]
  | .parseSize => [112, 97, 114, 115, 105, 110, 103, 32, 115, 105, 122, 101]
  | .negSize => [110, 101, 103, 97, 116, 105, 118, 101, 32, 115, 105, 122, 101]
  | .parseTime => [112, 97, 114, 115, 105, 110, 103, 32, 116, 105, 109, 101, 115, 116, 97, 109, 112]
  | .negTime => [110, 101, 103, 97, 116, 105, 118, 101, 32, 116, 105, 109, 101, 115, 116, 97, 109, 112]
  | _ => []

/-- what the wrapper returns for a result of the model's parser. -/
def goResult : Except Reason Entry → Bytes × Int × Int × Bytes × Bool
  | .ok e => (e.out.val, e.size, e.time, [], true)
  | .error r => (List.replicate 32 0, 0, 0, reasonText r, false)

/-- the model's parser after the two hex fields. -/
def numTail (out : Hash) (fs ft : Bytes) : Except Reason Entry :=
  match parseInt 10 64 (skipSpaces fs) with
  | none => .error .parseSize
  | some size =>
    if size < 0 then .error .negSize else
    match parseInt 10 64 (skipSpaces ft) with
    | none => .error .parseTime
    | some tm => if tm < 0 then .error .negTime else .ok ⟨out, size, tm⟩

theorem skip_eq (s : Bytes) : s.drop (s.takeWhile (· == 32)).length = skipSpaces s := by
  rw [drop_takeWhile_length]
  simp only [skipSpaces]
  congr 1

theorem slice?_from (s : Bytes) (k : Nat) (hk : k ≤ s.length) : GoLib.slice? s (k : Int) (GoLib.len s) = some (s.drop k) := by
  simp [GoLib.slice?, GoLib.len, hk]

theorem takeWhile_le (p : UInt8 → Bool) (s : Bytes) : (s.takeWhile p).length ≤ s.length := by
  induction s with
  | nil => simp
  | cons a s ih => rw [List.takeWhile_cons]; split <;> simp <;> omega

theorem tail_eq (entry id : Bytes) (zsize ztm : Int) (why : Bytes) (ok : Bool) (eid eout esize etime : Bytes) (out : Hash)
    (fuel : Nat) (hf : esize.length + etime.length < fuel) :
    parseEntrySlice_loop1 entry id (List.replicate 32 0) zsize ztm why ok eid eout esize etime out.val fuel 0 =
    some (goResult (numTail out esize etime)) := by
  have h1 := loop1_eq entry id (List.replicate 32 0) zsize ztm why ok eid eout esize etime out.val fuel 0 (by omega) (by omega)
  simp only [Int.natCast_zero, Nat.zero_add, List.drop_zero] at h1
  rw [h1]
  unfold parseEntrySlice_after1
  rw [slice?_from _ _ (takeWhile_le _ _), skip_eq]
  simp only [Option.bind_eq_bind, Option.bind_some, Option.pure_def, strconvParseInt10_64, numTail]
  rcases Option.eq_none_or_eq_some (parseInt 10 64 (skipSpaces esize)) with hps | ⟨size, hps⟩
  · simp [hps, goResult, reasonText]
  · simp only [hps]
    by_cases hneg : size < 0
    · simp [goResult, reasonText, hneg]
    · have h2 := loop2_eq entry id (List.replicate 32 0) zsize ztm why ok eid eout esize etime out.val size none
        (entry.length + id.length + (List.replicate 32 (0:UInt8)).length + why.length + eid.length + eout.length + esize.length + etime.length + out.val.length + 2)
        0 (by omega) (by omega)
      simp only [Int.natCast_zero, Nat.zero_add, List.drop_zero] at h2
      simp only [hneg, decide_false, if_false, bne_self_eq_false, Bool.false_eq_true]
      rw [h2]
      unfold parseEntrySlice_after2
      rw [slice?_from _ _ (takeWhile_le _ _), skip_eq]
      simp only [Option.bind_eq_bind, Option.bind_some, Option.pure_def, strconvParseInt10_64]
      rcases Option.eq_none_or_eq_some (parseInt 10 64 (skipSpaces etime)) with hpt | ⟨tm, hpt⟩
      · simp [hpt, goResult, reasonText]
      · simp only [hpt]
        by_cases hneg2 : tm < 0
        · simp [goResult, reasonText, hneg2]
        · simp [goResult, hneg2]

/-- the 176-byte buffer split into its fields. -/
def layout (b0 b1 b2 : UInt8) (hid : Bytes) (s1 : UInt8) (hout : Bytes) (s2 : UInt8) (fs : Bytes) (s3 : UInt8) (ft : Bytes)
    (tl : Bytes) : Bytes :=
  [b0, b1, b2] ++ (hid ++ (s1 :: (hout ++ (s2 :: (fs ++ (s3 :: (ft ++ tl)))))))

def hdrOK (b0 b1 b2 s1 s2 s3 nl : UInt8) : Bool :=
  decide (b0 = 118 ∧ b1 = 49 ∧ b2 = 32 ∧ s1 = 32 ∧ s2 = 32 ∧ s3 = 32 ∧ nl = 10)

section
variable (b0 b1 b2 s1 s2 s3 nl x : UInt8) (hid hout fs ft : Bytes)
variable (hhid : hid.length = 64) (hhout : hout.length = 64) (hfs : fs.length = 20) (hft : ft.length = 20)
include hhid hhout hfs hft

theorem go_header {β : Type} (k : Bool → Option β) :
    (do
      let t1 ← GoLib.idx? (layout b0 b1 b2 hid s1 hout s2 fs s3 ft [nl, x]) 0
      let t3 ← (if t1 != 118 then pure true else (do
        let t2 ← GoLib.idx? (layout b0 b1 b2 hid s1 hout s2 fs s3 ft [nl, x]) 1
        pure (t2 != 49)))
      let t5 ← (if t3 then pure true else (do
        let t4 ← GoLib.idx? (layout b0 b1 b2 hid s1 hout s2 fs s3 ft [nl, x]) 2
        pure (t4 != 32)))
      let t7 ← (if t5 then pure true else (do
        let t6 ← GoLib.idx? (layout b0 b1 b2 hid s1 hout s2 fs s3 ft [nl, x]) (3 + (32 * 2))
        pure (t6 != 32)))
      let t9 ← (if t7 then pure true else (do
        let t8 ← GoLib.idx? (layout b0 b1 b2 hid s1 hout s2 fs s3 ft [nl, x]) (((3 + (32 * 2)) + 1) + (32 * 2))
        pure (t8 != 32)))
      let t11 ← (if t9 then pure true else (do
        let t10 ← GoLib.idx? (layout b0 b1 b2 hid s1 hout s2 fs s3 ft [nl, x]) (((((3 + (32 * 2)) + 1) + (32 * 2)) + 1) + 20)
        pure (t10 != 32)))
      let t13 ← (if t11 then pure true else (do
        let t12 ← GoLib.idx? (layout b0 b1 b2 hid s1 hout s2 fs s3 ft [nl, x]) ((((((((((2 + 1) + (32 * 2)) + 1) + (32 * 2)) + 1) + 20) + 1) + 20) + 1) - 1)
        pure (t12 != 10)))
      k t13 : Option β) = k (!hdrOK b0 b1 b2 s1 s2 s3 nl) := by
  simp [layout, GoLib.idx?, hdrOK, hhid, hhout, hfs, hft]
  by_cases h0 : b0 = 118 <;> by_cases h1 : b1 = 49 <;> by_cases h2 : b2 = 32 <;> by_cases h3 : s1 = 32 <;>
    by_cases h4 : s2 = 32 <;> by_cases h5 : s3 = 32 <;> by_cases h6 : nl = 10 <;> simp [h0, h1, h2, h3, h4, h5, h6, bne] <;>
    (have e : (nl == 10) = false := by simpa using h6) <;> simp [e]

theorem model_header :
    headerBad Gen.Cache.headerChecks (layout b0 b1 b2 hid s1 hout s2 fs s3 ft [nl, 0]) = some (!hdrOK b0 b1 b2 s1 s2 s3 nl) := by
  have hc : Gen.Cache.headerChecks = [(0, 118), (1, 49), (2, 32), (67, 32), (132, 32), (153, 32), (174, 10)] := by decide
  rw [hc]
  simp [layout, headerBad, hdrOK, hhid, hhout, hfs, hft]
  by_cases h0 : b0 = 118 <;> by_cases h1 : b1 = 49 <;> by_cases h2 : b2 = 32 <;> by_cases h3 : s1 = 32 <;>
    by_cases h4 : s2 = 32 <;> by_cases h5 : s3 = 32 <;> by_cases h6 : nl = 10 <;> simp [h0, h1, h2, h3, h4, h5, h6]
end

/-- the model's parser on the fields (`okh` = the seven header bytes are right). -/
def fieldsSpec (id : Hash) (okh : Bool) (hid hout fs ft : Bytes) : Except Reason Entry :=
  if !okh then .error .header else
  match decodeHash hid with
  | none => .error .panic
  | some none => .error .decodeID
  | some (some h) =>
    if h ≠ id then .error .mismatchedID else
    match decodeHash hout with
    | none => .error .panic
    | some none => .error .decodeOut
    | some (some out) => numTail out fs ft

theorem go_layout (id : Hash) (b0 b1 b2 s1 s2 s3 nl x : UInt8) (hid hout fs ft : Bytes)
    (hhid : hid.length = 64) (hhout : hout.length = 64) (hfs : fs.length = 20) (hft : ft.length = 20) :
    parseEntrySlice (layout b0 b1 b2 hid s1 hout s2 fs s3 ft [nl, x]) id.val =
      some (goResult (fieldsSpec id (hdrOK b0 b1 b2 s1 s2 s3 nl) hid hout fs ft)) := by
  unfold parseEntrySlice
  dsimp only
  rw [go_header b0 b1 b2 s1 s2 s3 nl x hid hout fs ft hhid hhout hfs hft]
  by_cases hok : hdrOK b0 b1 b2 s1 s2 s3 nl = true
  · have e14 : slice? (layout b0 b1 b2 hid s1 hout s2 fs s3 ft [nl, x]) 3 (3 + 32 * 2) = some hid :=
      slice?_mid [b0, b1, b2] hid _ _ _ (by simp) (by simp [hhid])
    have e15 : slice? (layout b0 b1 b2 hid s1 hout s2 fs s3 ft [nl, x]) (3 + 32 * 2)
        (len (layout b0 b1 b2 hid s1 hout s2 fs s3 ft [nl, x])) = some (s1 :: (hout ++ (s2 :: (fs ++ (s3 :: (ft ++ [nl, x])))))) :=
      slice?_tail ([b0, b1, b2] ++ hid) _ _ _ (by simp [hhid]) rfl
    have e16 : slice? (s1 :: (hout ++ (s2 :: (fs ++ (s3 :: (ft ++ [nl, x])))))) 1 (1 + 32 * 2) = some hout :=
      slice?_mid [s1] hout _ _ _ (by simp) (by simp [hhout])
    have e17 : slice? (s1 :: (hout ++ (s2 :: (fs ++ (s3 :: (ft ++ [nl, x])))))) (1 + 32 * 2)
        (len (s1 :: (hout ++ (s2 :: (fs ++ (s3 :: (ft ++ [nl, x]))))))) = some (s2 :: (fs ++ (s3 :: (ft ++ [nl, x])))) :=
      slice?_tail ([s1] ++ hout) _ _ _ (by simp [hhout]) rfl
    have e18 : slice? (s2 :: (fs ++ (s3 :: (ft ++ [nl, x])))) 1 (1 + 20) = some fs :=
      slice?_mid [s2] fs _ _ _ (by simp) (by simp [hfs])
    have e19 : slice? (s2 :: (fs ++ (s3 :: (ft ++ [nl, x])))) (1 + 20) (len (s2 :: (fs ++ (s3 :: (ft ++ [nl, x]))))) =
        some (s3 :: (ft ++ [nl, x])) :=
      slice?_tail ([s2] ++ fs) _ _ _ (by simp [hfs]) rfl
    have e20 : slice? (s3 :: (ft ++ [nl, x])) 1 (1 + 20) = some ft :=
      slice?_mid [s3] ft _ _ _ (by simp) (by simp [hft])
    have e21 : slice? (s3 :: (ft ++ [nl, x])) (1 + 20) (len (s3 :: (ft ++ [nl, x]))) = some [nl, x] :=
      slice?_tail ([s3] ++ ft) _ _ _ (by simp [hft]) rfl
    simp only [hok, Bool.not_true, Bool.false_eq_true, if_false, e14, e15, e16, e17, e18, e19, e20, e21,
      Option.bind_eq_bind, Option.bind_some, show Int.toNat 32 = 32 from rfl]
    have hH : Gen.Cache.HashSize = 32 := by decide
    rcases hexInto_cases (List.replicate 32 0) hid (by simp) hhid with ⟨b, n, e, hd, hm⟩ | ⟨hh, hd, hm⟩
    · simp only [hd, Option.bind_some]
      simp [hm, fieldsSpec, goResult, reasonText]
    · simp only [hd, Option.bind_some]
      by_cases hne : hh = id
      · subst hne
        rcases hexInto_cases hh.val hout (by rw [hh.property, hH]) hhout with ⟨b, n, e, hd2, hm2⟩ | ⟨out, hd2, hm2⟩
        · simp only [hd2, Option.bind_some, bne_self_eq_false, Bool.false_eq_true, if_false]
          simp [hm, hm2, fieldsSpec, goResult, reasonText]
        · simp only [hd2, Option.bind_some, bne_self_eq_false, Bool.false_eq_true, if_false]
          rw [tail_eq _ _ _ _ _ _ _ _ _ _ _ _ (by simp only [hfs, hft]; omega)]
          simp [fieldsSpec, hm, hm2]
      · have hv : hh.val ≠ id.val := fun h => hne (Subtype.ext h)
        simp only [bne_iff_ne, ne_eq, hv, not_false_eq_true, if_true]
        simp [hm, hne, fieldsSpec, goResult, reasonText]
  · have hok' : hdrOK b0 b1 b2 s1 s2 s3 nl = false := by simpa using hok
    simp [hok', fieldsSpec, goResult, reasonText]

theorem model_layout (id : Hash) (b0 b1 b2 s1 s2 s3 nl : UInt8) (hid hout fs ft : Bytes)
    (hhid : hid.length = 64) (hhout : hout.length = 64) (hfs : fs.length = 20) (hft : ft.length = 20) :
    parseEntry id (layout b0 b1 b2 hid s1 hout s2 fs s3 ft [nl]) =
      fieldsSpec id (hdrOK b0 b1 b2 s1 s2 s3 nl) hid hout fs ft := by
  have hlen : (layout b0 b1 b2 hid s1 hout s2 fs s3 ft [nl]).length = 175 := by
    simp [layout, hhid, hhout, hfs, hft]
  have hbuf : readFull (layout b0 b1 b2 hid s1 hout s2 fs s3 ft [nl]) = (layout b0 b1 b2 hid s1 hout s2 fs s3 ft [nl, 0], 175) := by
    simp only [readFull, hlen]
    have : Gen.Cache.bufLen = 176 := by decide
    rw [this, List.take_of_length_le (by omega)]
    simp [layout]
  have hh := model_header b0 b1 b2 s1 s2 s3 nl hid hout fs ft hhid hhout hfs hft
  have e1 : slice (layout b0 b1 b2 hid s1 hout s2 fs s3 ft [nl, 0]) Gen.Cache.eidLo Gen.Cache.eidHi = some hid := by
    rw [show Gen.Cache.eidLo = 3 by decide, show Gen.Cache.eidHi = 67 by decide]
    exact slice_mid [b0, b1, b2] _ _ _ _ (by simp) (by simp [hhid])
  have e2 : slice (layout b0 b1 b2 hid s1 hout s2 fs s3 ft [nl, 0]) Gen.Cache.eoutLo Gen.Cache.eoutHi = some hout := by
    rw [show Gen.Cache.eoutLo = 68 by decide, show Gen.Cache.eoutHi = 132 by decide,
      show layout b0 b1 b2 hid s1 hout s2 fs s3 ft [nl, 0] =
        ([b0, b1, b2] ++ hid ++ [s1]) ++ (hout ++ (s2 :: (fs ++ (s3 :: (ft ++ [nl, 0]))))) by simp [layout]]
    exact slice_mid _ _ _ _ _ (by simp [hhid]) (by simp [hhout])
  have e3 : slice (layout b0 b1 b2 hid s1 hout s2 fs s3 ft [nl, 0]) Gen.Cache.esizeLo Gen.Cache.esizeHi = some fs := by
    rw [show Gen.Cache.esizeLo = 133 by decide, show Gen.Cache.esizeHi = 153 by decide,
      show layout b0 b1 b2 hid s1 hout s2 fs s3 ft [nl, 0] =
        ([b0, b1, b2] ++ hid ++ [s1] ++ hout ++ [s2]) ++ (fs ++ (s3 :: (ft ++ [nl, 0]))) by simp [layout]]
    exact slice_mid _ _ _ _ _ (by simp [hhid, hhout]) (by simp [hfs])
  have e4 : slice (layout b0 b1 b2 hid s1 hout s2 fs s3 ft [nl, 0]) Gen.Cache.etimeLo Gen.Cache.etimeHi = some ft := by
    rw [show Gen.Cache.etimeLo = 154 by decide, show Gen.Cache.etimeHi = 174 by decide,
      show layout b0 b1 b2 hid s1 hout s2 fs s3 ft [nl, 0] =
        ([b0, b1, b2] ++ hid ++ [s1] ++ hout ++ [s2] ++ fs ++ [s3]) ++ (ft ++ [nl, 0]) by simp [layout]]
    exact slice_mid _ _ _ _ _ (by simp [hhid, hhout, hfs]) (by simp [hft])
  unfold parseEntry
  rw [hbuf]
  simp only [show Gen.Cache.tooLong 175 = false by decide, show Gen.Cache.incomplete 175 = false by decide,
    show Gen.Cache.bufLen = 176 by decide, show Gen.Cache.parseBase = 10 by decide, show Gen.Cache.parseBits = 64 by decide,
    hh, e1, e2, e3, e4]
  cases hdrOK b0 b1 b2 s1 s2 s3 nl with
  | false => simp [fieldsSpec]
  | true =>
    simp only [fieldsSpec, numTail, Gen.Cache.negSize, Gen.Cache.negTime]
    simp
    rfl

theorem split_at (l : Bytes) (n : Nat) (h : n ≤ l.length) :
    ∃ a b, l = a ++ b ∧ a.length = n ∧ b.length = l.length - n :=
  ⟨l.take n, l.drop n, (List.take_append_drop n l).symm, by simp; omega, by simp⟩

theorem split_cons (l : Bytes) (h : 0 < l.length) : ∃ x r, l = x :: r ∧ r.length = l.length - 1 := by
  cases l with
  | nil => simp at h
  | cons x r => exact ⟨x, r, rfl, by simp⟩

theorem layout_exists (entry : Bytes) (h : entry.length = 176) :
    ∃ b0 b1 b2 hid s1 hout s2 fs s3 ft nl x, hid.length = 64 ∧ hout.length = 64 ∧ fs.length = 20 ∧ ft.length = 20 ∧
      entry = layout b0 b1 b2 hid s1 hout s2 fs s3 ft [nl, x] := by
  obtain ⟨b0, r, rfl, hr⟩ := split_cons entry (by omega)
  obtain ⟨b1, r, rfl, hr⟩ := split_cons r (by omega)
  obtain ⟨b2, r, rfl, hr⟩ := split_cons r (by omega)
  obtain ⟨hid, r, rfl, hhid, hr⟩ := split_at r 64 (by simp at h hr; omega)
  obtain ⟨s1, r, rfl, hr⟩ := split_cons r (by simp at h hr; omega)
  obtain ⟨hout, r, rfl, hhout, hr⟩ := split_at r 64 (by simp at h hr; omega)
  obtain ⟨s2, r, rfl, hr⟩ := split_cons r (by simp at h hr; omega)
  obtain ⟨fs, r, rfl, hfs, hr⟩ := split_at r 20 (by simp at h hr; omega)
  obtain ⟨s3, r, rfl, hr⟩ := split_cons r (by simp at h hr; omega)
  obtain ⟨ft, r, rfl, hft, hr⟩ := split_at r 20 (by simp at h hr; omega)
  obtain ⟨nl, r, rfl, hr⟩ := split_cons r (by simp at h hr; omega)
  obtain ⟨x, r, rfl, hr⟩ := split_cons r (by simp at h hr; omega)
  have : r = [] := by
    apply List.eq_nil_of_length_eq_zero
    simp at h hr; omega
  subst this
  exact ⟨b0, b1, b2, hid, s1, hout, s2, fs, s3, ft, nl, x, hhid, hhout, hfs, hft, rfl⟩

/-- **The translated parser block = the model's parser.**  `get` allocates `entry := make([]byte, entrySize+1)` and has
read exactly `entrySize` bytes into it when the block starts; the block never panics (the result is `some …`) and
returns what the model's `parseEntry` returns on those `entrySize` bytes: the output id, size and time of an accepted
entry, or the reason of the rejection. -/
theorem go_parseEntrySlice_eq (id : Hash) (entry : Bytes) (h : entry.length = Gen.Cache.entrySize + 1) :
    parseEntrySlice entry id.val = some (goResult (parseEntry id (entry.take Gen.Cache.entrySize))) := by
  have hE : Gen.Cache.entrySize = 175 := by decide
  rw [hE] at h ⊢
  obtain ⟨b0, b1, b2, hid, s1, hout, s2, fs, s3, ft, nl, x, hhid, hhout, hfs, hft, rfl⟩ := layout_exists entry h
  have ht : (layout b0 b1 b2 hid s1 hout s2 fs s3 ft [nl, x]).take 175 = layout b0 b1 b2 hid s1 hout s2 fs s3 ft [nl] := by
    have : layout b0 b1 b2 hid s1 hout s2 fs s3 ft [nl, x] = layout b0 b1 b2 hid s1 hout s2 fs s3 ft [nl] ++ [x] := by
      simp [layout]
    rw [this, List.take_left' (by simp [layout, hhid, hhout, hfs, hft])]
  rw [ht, model_layout id b0 b1 b2 s1 s2 s3 nl hid hout fs ft hhid hhout hfs hft,
    go_layout id b0 b1 b2 s1 s2 s3 nl x hid hout fs ft hhid hhout hfs hft]

end GIV.CacheParseGo
