/-
  GIV.Lemmas.TxtarGo — ties the Lean translation of txtar/archive.go (GIV.Gen.TxtarGo, regenerated
  from /repo on every run by harness/internal/go2lean) to the index-form model GIV.Model.TxtarIdx:
  the translator's run-time library (GIV.GoLib, Int offsets, -1 for "not found") against the
  model's helpers (Nat offsets, Option), then `isMarker_eq` and `fixNL_eq` for all inputs.
-/
import GIV.Gen.TxtarGo
import GIV.Model.TxtarIdx
namespace GIV.TxtarGo
open GIV GIV.GoLib GIV.Txtar GIV.Go.Txtar

theorem hasPrefix_eq : @GoLib.hasPrefix = @GIV.Txtar.hasPrefix := rfl
theorem hasSuffix_eq : @GoLib.hasSuffix = @GIV.Txtar.hasSuffix := rfl
theorem trimSuffix_eq : @GoLib.trimSuffix = @GIV.Txtar.trimSuffix := rfl
theorem trimPrefix_eq : @GoLib.trimPrefix = @GIV.Txtar.trimPrefix := rfl
theorem replaceAllAux_eq (old new : Bytes) : ∀ (n : Nat) (s : Bytes),
    GoLib.replaceAllAux old new n s = GIV.Txtar.replaceAllAux old new n s := by
  intro n
  induction n with
  | zero => intro s; simp [GoLib.replaceAllAux, GIV.Txtar.replaceAllAux]
  | succ n ih =>
    intro s
    cases s with
    | nil => simp [GoLib.replaceAllAux, GIV.Txtar.replaceAllAux]
    | cons x xs =>
      simp only [GoLib.replaceAllAux, GIV.Txtar.replaceAllAux, hasPrefix_eq, ih]

theorem replaceAll_eq (s old new : Bytes) : GoLib.replaceAll s old new = GIV.Txtar.replaceAll s old new := by
  simp [GoLib.replaceAll, GIV.Txtar.replaceAll, replaceAllAux_eq]

theorem indexByte_eq (s : Bytes) (c : UInt8) :
    GoLib.indexByte s c = match GIV.Txtar.indexByte s c with | some i => (i : Int) | none => -1 := by
  induction s with
  | nil => rfl
  | cons x xs ih =>
    unfold GoLib.indexByte GIV.Txtar.indexByte
    split
    · rfl
    · rw [ih]
      cases GIV.Txtar.indexByte xs c <;> simp <;> omega

theorem index_eq (s sep : Bytes) :
    GoLib.index s sep = match GIV.Txtar.indexSub s sep with | some i => (i : Int) | none => -1 := by
  induction s with
  | nil => unfold GoLib.index GIV.Txtar.indexSub; split <;> rfl
  | cons x xs ih =>
    unfold GoLib.index GIV.Txtar.indexSub
    rw [hasPrefix_eq]
    split
    · rfl
    · rw [ih]
      cases GIV.Txtar.indexSub xs sep <;> simp <;> omega

theorem slice_eq (s : Bytes) (a b : Nat) : GoLib.slice? s (a : Int) (b : Int) = GIV.Txtar.slice? s a b := by
  unfold GoLib.slice? GIV.Txtar.slice?
  simp only [Int.toNat_natCast]
  by_cases h : a ≤ b ∧ b ≤ s.length
  · rw [if_pos h, if_pos]; omega
  · rw [if_neg h, if_neg]; omega


def optB (r : Bytes × Option Bytes) : Bytes × Bytes := (r.1, r.2.getD [])

theorem isMarker_tail (d : Bytes) (a : Option Bytes) :
    (if (!(Txtar.hasSuffix (Txtar.trimSuffix d [13]) Gen.Txtar.markerEnd &&
          decide ((↑(List.length (Txtar.trimSuffix d [13])) : Int) ≥
            ↑(List.length Gen.Txtar.marker) + ↑(List.length Gen.Txtar.markerEnd)))) = true
      then (pure ([], []) : Option (Bytes × Bytes))
      else do
        let t3 ← GoLib.slice? (Txtar.trimSuffix d [13]) (↑(List.length Gen.Txtar.marker))
          (↑(List.length (Txtar.trimSuffix d [13])) - ↑(List.length Gen.Txtar.markerEnd))
        pure (trimSpace t3, a.getD [])) =
    Option.map optB
      (if (!(Txtar.hasSuffix (Txtar.trimSuffix d [13]) Gen.Txtar.markerEnd &&
            (!true || decide (List.length Gen.Txtar.marker + List.length Gen.Txtar.markerEnd ≤
              List.length (Txtar.trimSuffix d [13]))))) = true
        then some ([], none)
        else do
          let nm ← Txtar.slice? (Txtar.trimSuffix d [13]) (List.length Gen.Txtar.marker)
            (List.length (Txtar.trimSuffix d [13]) - List.length Gen.Txtar.markerEnd)
          some (trimSpace nm, a)) := by
  generalize Txtar.trimSuffix d [13] = e
  by_cases hs : Txtar.hasSuffix e Gen.Txtar.markerEnd = true
  · by_cases hl : List.length Gen.Txtar.marker + List.length Gen.Txtar.markerEnd ≤ List.length e
    · have hl' : (↑(List.length e) : Int) ≥ ↑(List.length Gen.Txtar.marker) + ↑(List.length Gen.Txtar.markerEnd) := by omega
      have hsub : ((↑(List.length e) : Int) - ↑(List.length Gen.Txtar.markerEnd)) =
          ((List.length e - List.length Gen.Txtar.markerEnd : Nat) : Int) := by omega
      simp only [hs, hl, hl', decide_true, Bool.and_true, Bool.not_true, Bool.false_eq_true, if_false,
        Bool.or_true, Bool.true_and, Bool.false_or, hsub, slice_eq]
      cases Txtar.slice? e (List.length Gen.Txtar.marker) (List.length e - List.length Gen.Txtar.markerEnd) <;> rfl
    · have hl' : ¬ ((↑(List.length e) : Int) ≥ ↑(List.length Gen.Txtar.marker) + ↑(List.length Gen.Txtar.markerEnd)) := by omega
      simp [hs, hl, hl', optB]
  · simp [hs, optB]

theorem isMarker_eq (data : Bytes) : isMarker data = (isMarkerIdx data).map optB := by
  unfold isMarker isMarkerIdx
  simp only [hasPrefix_eq, hasSuffix_eq, trimSuffix_eq, indexByte_eq, Txtar.marker, Txtar.markerEnd, NL, CR]
  by_cases hp : Txtar.hasPrefix data Gen.Txtar.marker = true
  · simp only [hp, Bool.not_true, Bool.false_eq_true, if_false]
    cases hi : Txtar.indexByte data 10 with
    | none =>
      simp only [Gen.Txtar.crAtEOF, Gen.Txtar.lenGuard, GoLib.len]
      have h0 : ¬ ((-1 : Int) ≥ 0) := by omega
      simp only [h0, decide_false, Bool.false_eq_true, if_false, Bool.true_or, if_true]
      exact isMarker_tail data none
    | some i =>
      simp only [Gen.Txtar.crAtEOF, Gen.Txtar.lenGuard, GoLib.len]
      have h0 : ((i : Int) ≥ 0) := by omega
      simp only [h0, decide_true, if_true, Bool.true_or]
      have e0 : GoLib.slice? data 0 (i : Int) = Txtar.slice? data 0 i := slice_eq data 0 i
      have e1 : GoLib.slice? data ((i : Int) + 1) (↑(List.length data)) = Txtar.slice? data (i + 1) data.length := by
        have := slice_eq data (i + 1) data.length
        simpa using this
      rw [e0, e1]
      cases h1 : Txtar.slice? data 0 i with
      | none => rfl
      | some d1 =>
        cases h2 : Txtar.slice? data (i + 1) data.length with
        | none => rfl
        | some d2 => exact isMarker_tail d1 (some d2)
  · simp [hp, optB]

theorem copy_set (d : Bytes) (z v : UInt8) :
    (GoLib.copyInto (List.replicate (d.length + 1) z) d).set d.length v = d ++ [v] := by
  unfold GoLib.copyInto
  simp only [List.length_replicate]
  have h1 : d.take (d.length + 1) = d := List.take_of_length_le (by omega)
  have h2 : min (d.length + 1) d.length = d.length := by omega
  rw [h1, h2, List.drop_replicate]
  have : d.length + 1 - d.length = 1 := by omega
  rw [this]
  simp

theorem idx_last (d : Bytes) (hne : d ≠ []) : GoLib.idx? d (GoLib.len d - 1) = some (d.getLast hne) := by
  unfold GoLib.idx? GoLib.len
  have hpos : 0 < d.length := List.length_pos_iff.mpr hne
  have : (0 : Int) ≤ ↑d.length - 1 := by omega
  rw [if_pos this]
  have e : ((↑d.length : Int) - 1).toNat = d.length - 1 := by omega
  rw [e, List.getLast_eq_getElem]
  simp

theorem fixNL_eq (d : Bytes) : GIV.Go.Txtar.fixNL d = some (GIV.Txtar.fixNL d) := by
  unfold GIV.Go.Txtar.fixNL GIV.Txtar.fixNL
  by_cases hne : d = []
  · subst hne; simp [GoLib.len]
  · have hpos : 0 < d.length := List.length_pos_iff.mpr hne
    have hlen : ((GoLib.len d) == 0) = false := by simp [GoLib.len]; omega
    have hlast : d.getLast? = some (d.getLast hne) := List.getLast?_eq_some_getLast hne
    have hmk : GoLib.make? (0 : UInt8) (GoLib.len d + 1) = some (List.replicate (d.length + 1) 0) := by
      unfold GoLib.make? GoLib.len
      have : (0 : Int) ≤ ↑d.length + 1 := by omega
      rw [if_pos this]
      congr 2
    have hset : ∀ (l : Bytes), l.length = d.length + 1 → GoLib.setIdx? l (GoLib.len d) 10 = some (l.set d.length 10) := by
      intro l hl
      unfold GoLib.setIdx? GoLib.len
      rw [if_pos (by omega)]
      simp
    have hemp : d.isEmpty = false := by cases d <;> simp_all
    simp only [hlen, Bool.false_eq_true, if_false, idx_last d hne]
    by_cases h10 : d.getLast hne = 10
    · simp [h10, hlast, NL]
    · have hb : (d.getLast hne == 10) = false := by simpa using h10
      simp only [Option.bind_eq_bind, Option.bind_some, Option.pure_def, hb, Bool.false_eq_true, if_false,
        hmk]
      rw [hset _ (by simp [GoLib.copyInto]), copy_set]
      simp [hlast, h10, NL, hemp]

end GIV.TxtarGo
