/-
  Lemmas about the OS model of GIV.Model.Lockedfile: flag arithmetic, `dropLock`, the world
  invariant `WInv` (descriptor numbers are fresh, the flock table is well formed: an exclusive holder
  excludes every shared holder, every holder is an open descriptor of that file) and the effect of
  one system call on the claims clients make about descriptors other than the one it acts on.
-/
import GIV.Model.Lockedfile
namespace GIV.Lockedfile
open GIV

theorem finPc_eq (fd : Fd) (ret : Ret) : finPc fd ret = .unlock fd ret := by
  simp [finPc, Gen.Lockedfile.unlockBeforeClose]

/-! ### flags -/

theorem testBit_three (i : Nat) : (3:Nat).testBit i = decide (i < 2) := by
  have := Nat.testBit_two_pow_sub_one 2 i
  simpa using this

theorem testBit_512 (i : Nat) : (512:Nat).testBit i = decide (9 = i) := by
  have := @Nat.testBit_two_pow 9 i
  simpa using this

theorem accMode_eq_mod (f : Nat) : accMode f = f % 4 := Nat.and_two_pow_sub_one_eq_mod f 2

theorem andNot_testBit (a b i : Nat) : (andNot a b).testBit i = (a.testBit i && !b.testBit i) := by
  simp [andNot]
  cases a.testBit i <;> cases b.testBit i <;> rfl

theorem accMode_andNot_trunc (f : Nat) : accMode (andNot f 512) = accMode f := by
  unfold accMode
  apply Nat.eq_of_testBit_eq
  intro i
  simp only [Nat.testBit_and, andNot_testBit, testBit_three, testBit_512]
  by_cases h : i < 2
  · have : ¬ (9 = i) := by omega
    simp [h, this]
  · simp [h]

theorem fTrunc_andNot (f : Nat) : fTrunc (andNot f 512) = false := by
  simp [fTrunc, andNot_testBit, testBit_512]

/-- Stripping O_TRUNC keeps the access mode (uses `Gen.stripsTrunc`, `Gen.O_TRUNC`). -/
theorem openFlags_accMode (f : Nat) : accMode (openFlags f) = accMode f := by
  simp [openFlags, Gen.Lockedfile.stripsTrunc, Gen.Lockedfile.O_TRUNC, accMode_andNot_trunc]

/-- What openFile passes to open(2) never has O_TRUNC (uses `Gen.stripsTrunc`). -/
theorem openFlags_noTrunc (f : Nat) : fTrunc (openFlags f) = false := by
  simp [openFlags, Gen.Lockedfile.stripsTrunc, Gen.Lockedfile.O_TRUNC, fTrunc_andNot]

theorem openFlags_accRd (f : Nat) : accRd (openFlags f) = accRd f := by simp [accRd, openFlags_accMode]
theorem openFlags_accWr (f : Nat) : accWr (openFlags f) = accWr f := by simp [accWr, openFlags_accMode]

theorem lockMask_eq : Gen.Lockedfile.lockMask = 3 := by decide

/-- The lock-mode switch asks for the exclusive lock exactly when the descriptor is writable. -/
theorem lockExclusive_eq_accWr (f : Nat) : lockExclusive f = accWr f := by
  simp only [lockExclusive, accWr, lockMask_eq, Gen.Lockedfile.exclusiveCases, Gen.Lockedfile.sharedCases,
    Gen.Lockedfile.defaultShared, Gen.Lockedfile.O_WRONLY, Gen.Lockedfile.O_RDWR]
  have h : accMode f = f &&& 3 := rfl
  rw [← h]
  have := accMode_eq_mod f
  generalize accMode f = a at *
  have : a < 4 := by omega
  match a, this with
  | 0, _ => decide
  | 1, _ => decide
  | 2, _ => decide
  | 3, _ => decide

theorem lockMode_ex_iff (f : Nat) : lockMode f = .ex ↔ accWr f = true := by
  simp [lockMode, lockExclusive_eq_accWr]

/-! ### dropLock -/

@[simp] theorem dropLock_fds (w : World) (fd p) : (dropLock w fd p).fds = w.fds := rfl
@[simp] theorem dropLock_files (w : World) (fd p) : (dropLock w fd p).files = w.files := rfl
@[simp] theorem dropLock_nextFd (w : World) (fd p) : (dropLock w fd p).nextFd = w.nextFd := rfl
@[simp] theorem dropLock_mus (w : World) (fd p) : (dropLock w fd p).mus = w.mus := rfl
@[simp] theorem dropLock_content (w : World) (fd p q) : (dropLock w fd p).content q = w.content q := rfl

theorem dropLock_locks (w : World) (fd p q) : (dropLock w fd p).locks q =
    if q = p then ⟨if (w.locks p).ex = some fd then none else (w.locks p).ex, (w.locks p).sh.filter (· != fd)⟩
    else w.locks q := by
  by_cases hq : q = p <;> simp [dropLock, hq, upd]

theorem dropLock_hist (w : World) (fd p q) : (dropLock w fd p).hist q =
    if q = p ∧ (w.locks p).ex = some fd then w.content p :: w.hist p else w.hist q := by
  unfold dropLock
  by_cases h : (w.locks p).ex = some fd <;> by_cases hq : q = p <;> simp [h, hq, upd]

theorem holdsFd_dropLock (w : World) (fd p fd' q k) :
    holdsFd (dropLock w fd p) fd' q k ↔ holdsFd w fd' q k ∧ ¬ (fd' = fd ∧ q = p) := by
  cases k <;> simp only [holdsFd, dropLock_locks]
  · by_cases hq : q = p
    · subst hq; simp [List.mem_filter]
    · simp [hq]
  · by_cases hq : q = p
    · subst hq
      by_cases h : (w.locks q).ex = some fd
      · simp [h]; intro h2; exact h2.symm
      · simp [h]; intro h2 h3; subst h3; exact absurd h2 h
    · simp [hq]

/-! ### the world invariant -/

structure WInv (w : World) : Prop where
  fresh : ∀ fd, w.nextFd ≤ fd → w.fds fd = none
  exExcl : ∀ p fd fd', holdsFd w fd p .ex → ¬ holdsFd w fd' p .sh
  holderOpen : ∀ p fd k, holdsFd w fd p k → ∃ o, w.fds fd = some o ∧ o.path = p

theorem WInv.holds_path {w : World} (hw : WInv w) {fd p k o} (h : holdsFd w fd p k) (ho : w.fds fd = some o) :
    o.path = p := by
  obtain ⟨o', h1, h2⟩ := hw.holderOpen p fd k h
  rw [ho] at h1; cases h1; exact h2

/-- An exclusive holder is the only holder. -/
theorem WInv.ex_only {w : World} (hw : WInv w) {fd fd' p k} (h : holdsFd w fd p .ex) (h' : holdsFd w fd' p k) :
    fd' = fd ∧ k = .ex := by
  cases k
  · exact absurd h' (hw.exExcl p fd fd' h)
  · simp only [holdsFd] at h h'
    rw [h] at h'; cases h'; exact ⟨rfl, rfl⟩

theorem initWorld_WInv (files0 : Path → Option Bytes) : WInv (initWorld files0) := by
  refine ⟨fun _ _ => rfl, fun p fd fd' h => ?_, fun p fd k h => ?_⟩
  · simp [holdsFd, initWorld] at h
  · cases k <;> simp [holdsFd, initWorld] at h

macro "os_cases" h:ident : tactic =>
  `(tactic| (simp only [osStep] at $h:ident <;> repeat' split at $h:ident))

/-! ### claims about descriptors -/

/-- Forget the offset of an open file description. -/
def OpenFD.static (o : OpenFD) : Path × Bool × Bool × Bool × Cid := (o.path, o.rd, o.wr, o.app, o.owner)

/-- `fd` is an open descriptor of client `c` on `p`, opened with (the stripped form of) `flag`. -/
def Owns (w : World) (c : Cid) (fd : Fd) (p : Path) (flag : Nat) : Prop :=
  (w.fds fd).map OpenFD.static = some (p, accRd flag, accWr flag, fAppend (openFlags flag), c)

theorem Owns.open {w : World} {c fd p flag} (h : Owns w c fd p flag) :
    ∃ o, w.fds fd = some o ∧ o.path = p ∧ o.owner = c ∧ o.rd = accRd flag ∧ o.wr = accWr flag ∧
      o.app = fAppend (openFlags flag) := by
  unfold Owns at h
  cases ho : w.fds fd with
  | none => simp [ho] at h
  | some o =>
    simp [ho, OpenFD.static] at h
    exact ⟨o, rfl, h.1, h.2.2.2.2, h.2.1, h.2.2.1, h.2.2.2.1⟩

theorem Owns.congr {w w' : World} {fd} (h : (w'.fds fd).map OpenFD.static = (w.fds fd).map OpenFD.static) {c p flag}
    (ho : Owns w c fd p flag) : Owns w' c fd p flag := by
  unfold Owns at *; rw [h]; exact ho

/-- The descriptor a lock-table or descriptor-table changing call acts on. -/
def Sys.ctl : Sys → Option Fd
  | .flock fd _ => some fd
  | .funlock fd => some fd
  | .close fd => some fd
  | _ => none

theorem holdsFd_congr {w w' : World} (h : w'.locks = w.locks) (fd p k) : holdsFd w' fd p k ↔ holdsFd w fd p k := by
  cases k <;> simp only [holdsFd, h]

/-! ### acquire / closeFd -/

@[simp] theorem acquire_fds (w : World) (fd p k) : (acquire w fd p k).fds = w.fds := by cases k <;> rfl
@[simp] theorem acquire_files (w : World) (fd p k) : (acquire w fd p k).files = w.files := by cases k <;> rfl
@[simp] theorem acquire_nextFd (w : World) (fd p k) : (acquire w fd p k).nextFd = w.nextFd := by cases k <;> rfl
@[simp] theorem acquire_mus (w : World) (fd p k) : (acquire w fd p k).mus = w.mus := by cases k <;> rfl
@[simp] theorem acquire_hist (w : World) (fd p k) : (acquire w fd p k).hist = (dropLock w fd p).hist := by
  cases k <;> rfl
@[simp] theorem acquire_content (w : World) (fd p k q) : (acquire w fd p k).content q = w.content q := by
  cases k <;> rfl

@[simp] theorem closeFd_files (w : World) (fd p) : (closeFd w fd p).files = w.files := rfl
@[simp] theorem closeFd_nextFd (w : World) (fd p) : (closeFd w fd p).nextFd = w.nextFd := rfl
@[simp] theorem closeFd_mus (w : World) (fd p) : (closeFd w fd p).mus = w.mus := rfl
@[simp] theorem closeFd_hist (w : World) (fd p) : (closeFd w fd p).hist = (dropLock w fd p).hist := rfl
@[simp] theorem closeFd_locks (w : World) (fd p) : (closeFd w fd p).locks = (dropLock w fd p).locks := rfl
@[simp] theorem closeFd_content (w : World) (fd p q) : (closeFd w fd p).content q = w.content q := rfl
theorem closeFd_fds (w : World) (fd p fd') : (closeFd w fd p).fds fd' = if fd' = fd then none else w.fds fd' := rfl

theorem holdsFd_closeFd (w : World) (fd p fd' q k) :
    holdsFd (closeFd w fd p) fd' q k ↔ holdsFd w fd' q k ∧ ¬ (fd' = fd ∧ q = p) := by
  rw [← holdsFd_dropLock]; exact holdsFd_congr rfl fd' q k

/-- After a compatible acquisition `fd` holds exactly `k` on `p`; other descriptors hold what they held. -/
theorem holdsFd_acquire (w : World) (fd p k) (hc : compatible w fd p k = true) (fd' q k') :
    holdsFd (acquire w fd p k) fd' q k' ↔
      if fd' = fd ∧ q = p then k' = k else holdsFd w fd' q k' := by
  by_cases hq : q = p
  · subst hq
    cases k
    · -- shared
      simp only [compatible, Bool.or_eq_true, beq_iff_eq] at hc
      cases k'
      · simp only [holdsFd, acquire, upd_same, dropLock_locks, if_pos, List.mem_cons, List.mem_filter]
        by_cases he : fd' = fd <;> simp [he]
      · simp only [holdsFd, acquire, upd_same]
        by_cases he : fd' = fd
        · simp [he]
        · simp [he]; intro h; rcases hc with h1 | h1 <;> rw [h1] at h <;> cases h; exact he rfl
    · -- exclusive
      simp only [compatible, Bool.and_eq_true, Bool.or_eq_true, beq_iff_eq, List.all_eq_true] at hc
      cases k'
      · simp only [holdsFd, acquire, upd_same]
        by_cases he : fd' = fd
        · simp [he]
        · simp [he]; intro h; exact he (hc.2 fd' h)
      · simp only [holdsFd, acquire, upd_same]
        by_cases he : fd' = fd
        · simp [he]
        · simp [he]
          constructor
          · intro h2; exact absurd h2.symm he
          · intro h; rcases hc.1 with h1 | h1 <;> rw [h1] at h <;> cases h; exact absurd rfl he
  · have hne : ¬ (fd' = fd ∧ q = p) := fun h => hq h.2
    rw [if_neg hne]
    cases k <;> cases k' <;> simp only [holdsFd, acquire, upd_other _ _ _ _ hq, dropLock_locks, if_neg hq]

/-! ### what one system call does -/

theorem osStep_open_spec {w w' : World} {c p fl f r} (h : osStep w c (.open p fl) f = some (w', r)) :
    (∃ e, r = .err e ∧ w' = w) ∨
    (r = .fd w.nextFd ∧
      w' = { w with files := upd w.files p (some (if fTrunc fl then [] else w.content p)),
                    fds := upd w.fds w.nextFd (some ⟨p, 0, accRd fl, accWr fl, fAppend fl, c⟩),
                    nextFd := w.nextFd + 1 }) := by
  simp only [osStep] at h
  split at h
  · simp at h; exact .inl ⟨_, h.2.symm, h.1.symm⟩
  · split at h
    · simp at h; exact .inl ⟨_, h.2.symm, h.1.symm⟩
    · split at h
      · simp at h; exact .inl ⟨_, h.2.symm, h.1.symm⟩
      · simp at h; exact .inr ⟨h.2.symm, h.1.symm⟩

theorem osStep_flock_spec {w w' : World} {c fd k f r} (h : osStep w c (.flock fd k) f = some (w', r)) :
    (∃ e, r = .err e ∧ w' = w) ∨
    (∃ o, w.fds fd = some o ∧ compatible w fd o.path k = true ∧ r = .ok ∧ w' = acquire w fd o.path k) := by
  simp only [osStep] at h
  split at h
  · simp at h; exact .inl ⟨_, h.2.symm, h.1.symm⟩
  · rename_i o ho
    split at h
    · simp at h; exact .inl ⟨_, h.2.symm, h.1.symm⟩
    · split at h
      · rename_i hc
        split at h
        · simp at h; exact .inl ⟨_, h.2.symm, h.1.symm⟩
        · simp at h; exact .inr ⟨o, ho, hc, h.2.symm, h.1.symm⟩
      · simp at h

theorem osStep_funlock_spec {w w' : World} {c fd f r} (h : osStep w c (.funlock fd) f = some (w', r)) :
    (∃ e, r = .err e ∧ w' = w) ∨ (∃ o, w.fds fd = some o ∧ r = .ok ∧ w' = dropLock w fd o.path) := by
  simp only [osStep] at h
  split at h
  · simp at h; exact .inl ⟨_, h.2.symm, h.1.symm⟩
  · rename_i o ho
    split at h
    · simp at h; exact .inl ⟨_, h.2.symm, h.1.symm⟩
    · simp at h; exact .inr ⟨o, ho, h.2.symm, h.1.symm⟩

/-- close(2): an error or a close of a shared description (nothing changes); or the last descriptor of the
description goes away, and with it the lock. -/
theorem osStep_close_spec {w w' : World} {c fd f r} (h : osStep w c (.close fd) f = some (w', r)) :
    (w' = w) ∨ (∃ o, w.fds fd = some o ∧ r = .ok ∧ w' = closeFd w fd o.path) := by
  simp only [osStep] at h
  split at h
  · simp at h; exact .inl h.1.symm
  · rename_i o ho
    split at h
    · simp at h; exact .inl h.1.symm
    · split at h
      · simp at h; exact .inl h.1.symm
      · simp at h; exact .inr ⟨o, ho, h.2.symm, h.1.symm⟩

theorem osStep_nextFd {w w' : World} {c s f r} (h : osStep w c s f = some (w', r)) : w.nextFd ≤ w'.nextFd := by
  cases s <;> os_cases h
  all_goals first | (simp at h; done) | (simp at h; obtain ⟨rfl, rfl⟩ := h; simp)

/-- An error result means the call had no effect. -/
theorem osStep_err {w w' : World} {c s f e} (h : osStep w c s f = some (w', .err e)) : w' = w := by
  cases s <;> os_cases h
  all_goals first | (simp at h; done) | (simp at h; obtain ⟨rfl, _⟩ := h; rfl) | skip
  all_goals (simp at h; try (split at h <;> simp at h))


/-- Data calls (everything except open / flock / close) leave the lock table, the commit history, the
descriptor numbering and the static part of every descriptor alone. -/
theorem osStep_data_spec {w w' : World} {c s f r} (h : osStep w c s f = some (w', r))
    (hs : Sys.ctl s = none) (hop : ∀ p fl, s ≠ .open p fl) :
    w'.locks = w.locks ∧ w'.hist = w.hist ∧ w'.nextFd = w.nextFd ∧
    ∀ fd, (w'.fds fd).map OpenFD.static = (w.fds fd).map OpenFD.static := by
  cases s with
  | «open» p fl => exact absurd rfl (hop p fl)
  | flock _ _ => simp [Sys.ctl] at hs
  | funlock _ => simp [Sys.ctl] at hs
  | close _ => simp [Sys.ctl] at hs
  | _ =>
    os_cases h
    all_goals first
      | (simp at h; done)
      | (simp at h; obtain ⟨rfl, _⟩ := h; exact ⟨rfl, rfl, rfl, fun _ => rfl⟩)
      | (simp at h; obtain ⟨rfl, _⟩ := h
         refine ⟨rfl, rfl, rfl, fun fd' => ?_⟩
         simp only [upd_apply]
         split
         · rename_i e; subst e; simp [OpenFD.static, *]
         · rfl)


theorem Sys.open_or (s : Sys) : (∃ p fl, s = .open p fl) ∨ (∀ p fl, s ≠ .open p fl) := by
  cases s <;> simp

/-- Every system call preserves the world invariant. -/
theorem osStep_WInv {w w' : World} {c s f r} (hw : WInv w) (h : osStep w c s f = some (w', r)) : WInv w' := by
  by_cases hctl : Sys.ctl s = none
  · by_cases hop : ∀ p fl, s ≠ .open p fl
    · obtain ⟨hl, _, hn, hfd⟩ := osStep_data_spec h hctl hop
      refine ⟨fun fd hle => ?_, fun p a b ha hb => ?_, fun p a k ha => ?_⟩
      · have := hw.fresh fd (hn ▸ hle)
        have h2 := hfd fd; rw [this] at h2
        cases hx : w'.fds fd <;> simp [hx] at h2; rfl
      · exact hw.exExcl p a b ((holdsFd_congr hl a p .ex).1 ha) ((holdsFd_congr hl b p .sh).1 hb)
      · obtain ⟨o, ho, hp⟩ := hw.holderOpen p a k ((holdsFd_congr hl a p k).1 ha)
        have h2 := hfd a; rw [ho] at h2
        cases hx : w'.fds a with
        | none => simp [hx] at h2
        | some o' =>
          simp [hx, OpenFD.static] at h2
          exact ⟨o', rfl, h2.1.trans hp⟩
    · obtain ⟨p, fl, rfl⟩ := (Sys.open_or s).resolve_right hop
      rcases osStep_open_spec h with ⟨e, _, rfl⟩ | ⟨_, rfl⟩
      · exact hw
      · refine ⟨fun fd hle => ?_, fun p a b ha hb => hw.exExcl p a b ha hb, fun q a k ha => ?_⟩
        · simp only at hle ⊢
          rw [upd_other _ _ _ _ (by omega)]; exact hw.fresh fd (by omega)
        · obtain ⟨o, ho, hp⟩ := hw.holderOpen q a k ha
          have hne : a ≠ w.nextFd := fun e => by rw [e, hw.fresh _ (Nat.le_refl _)] at ho; cases ho
          exact ⟨o, by simp only [upd_other _ _ _ _ hne, ho], hp⟩
  · cases s with
    | flock fd k =>
      rcases osStep_flock_spec h with ⟨e, _, rfl⟩ | ⟨o, ho, hc, _, rfl⟩
      · exact hw
      · refine ⟨fun fd' hle => by simpa using hw.fresh fd' (by simpa using hle), fun p a b ha hb => ?_, fun p a k' ha => ?_⟩
        · rw [holdsFd_acquire _ _ _ _ hc] at ha hb
          by_cases h1 : a = fd ∧ p = o.path
          · rw [if_pos h1] at ha
            by_cases h2 : b = fd ∧ p = o.path
            · rw [if_pos h2] at hb; rw [← ha] at hb; cases hb
            · rw [if_neg h2] at hb
              subst ha
              simp only [compatible, Bool.and_eq_true, List.all_eq_true, beq_iff_eq] at hc
              have := hc.2 b (by rw [← h1.2]; exact hb)
              exact h2 ⟨this, h1.2⟩
          · rw [if_neg h1] at ha
            by_cases h2 : b = fd ∧ p = o.path
            · rw [if_pos h2] at hb
              subst hb
              simp only [compatible, Bool.or_eq_true, beq_iff_eq] at hc
              simp only [holdsFd] at ha
              rw [h2.2] at ha
              rcases hc with h3 | h3 <;> rw [h3] at ha <;> cases ha
              exact h1 ⟨rfl, h2.2⟩
            · rw [if_neg h2] at hb; exact hw.exExcl p a b ha hb
        · rw [holdsFd_acquire _ _ _ _ hc] at ha
          by_cases h1 : a = fd ∧ p = o.path
          · exact ⟨o, by simpa [h1.1] using ho, h1.2.symm⟩
          · rw [if_neg h1] at ha; simpa using hw.holderOpen p a k' ha
    | funlock fd =>
      rcases osStep_funlock_spec h with ⟨e, _, rfl⟩ | ⟨o, ho, _, rfl⟩
      · exact hw
      · refine ⟨fun fd' hle => hw.fresh fd' hle, fun p a b ha hb => ?_, fun p a k' ha => ?_⟩
        · exact hw.exExcl p a b ((holdsFd_dropLock ..).1 ha).1 ((holdsFd_dropLock ..).1 hb).1
        · exact hw.holderOpen p a k' ((holdsFd_dropLock ..).1 ha).1
    | close fd =>
      rcases osStep_close_spec h with rfl | ⟨o, ho, _, rfl⟩
      · exact hw
      · refine ⟨fun fd' hle => ?_, fun p a b ha hb => ?_, fun p a k' ha => ?_⟩
        · rw [closeFd_fds]; split
          · rfl
          · exact hw.fresh fd' hle
        · exact hw.exExcl p a b ((holdsFd_closeFd ..).1 ha).1 ((holdsFd_closeFd ..).1 hb).1
        · obtain ⟨h1, h2⟩ := (holdsFd_closeFd ..).1 ha
          obtain ⟨o', ho', hp⟩ := hw.holderOpen p a k' h1
          have hne : a ≠ fd := fun e => by
            subst e; rw [ho] at ho'; cases ho'; exact h2 ⟨rfl, hp.symm⟩
          exact ⟨o', by rw [closeFd_fds, if_neg hne]; exact ho', hp⟩
    | _ => simp [Sys.ctl] at hctl

/-- A call leaves alone what other descriptors hold. -/
theorem osStep_holds_other {w w' : World} {c s f r} (h : osStep w c s f = some (w', r)) {fd : Fd}
    (hfd : Sys.ctl s ≠ some fd) (p : Path) (k : LockKind) : holdsFd w' fd p k ↔ holdsFd w fd p k := by
  by_cases hctl : Sys.ctl s = none
  · by_cases hop : ∀ p fl, s ≠ .open p fl
    · exact holdsFd_congr (osStep_data_spec h hctl hop).1 fd p k
    · obtain ⟨p', fl, rfl⟩ := (Sys.open_or s).resolve_right hop
      rcases osStep_open_spec h with ⟨e, _, rfl⟩ | ⟨_, rfl⟩
      · exact Iff.rfl
      · exact holdsFd_congr rfl fd p k
  · cases s with
    | flock fd0 k0 =>
      have hne : fd ≠ fd0 := fun e => hfd (by simp [Sys.ctl, e])
      rcases osStep_flock_spec h with ⟨e, _, rfl⟩ | ⟨o, ho, hc, _, rfl⟩
      · exact Iff.rfl
      · rw [holdsFd_acquire _ _ _ _ hc, if_neg (fun h => hne h.1)]
    | funlock fd0 =>
      have hne : fd ≠ fd0 := fun e => hfd (by simp [Sys.ctl, e])
      rcases osStep_funlock_spec h with ⟨e, _, rfl⟩ | ⟨o, ho, _, rfl⟩
      · exact Iff.rfl
      · rw [holdsFd_dropLock]; simp [hne]
    | close fd0 =>
      have hne : fd ≠ fd0 := fun e => hfd (by simp [Sys.ctl, e])
      rcases osStep_close_spec h with rfl | ⟨o, ho, _, rfl⟩
      · exact Iff.rfl
      · rw [holdsFd_closeFd]; simp [hne]
    | _ => simp [Sys.ctl] at hctl

/-- A call leaves alone the static part of the descriptors it does not create or close. -/
theorem osStep_owns_other {w w' : World} {c s f r} (hw : WInv w) (h : osStep w c s f = some (w', r)) {fd : Fd}
    (hfd : Sys.ctl s ≠ some fd) {c' p flag} (ho : Owns w c' fd p flag) : Owns w' c' fd p flag := by
  by_cases hctl : Sys.ctl s = none
  · by_cases hop : ∀ p fl, s ≠ .open p fl
    · exact ho.congr ((osStep_data_spec h hctl hop).2.2.2 fd)
    · obtain ⟨p', fl, rfl⟩ := (Sys.open_or s).resolve_right hop
      rcases osStep_open_spec h with ⟨e, _, rfl⟩ | ⟨_, rfl⟩
      · exact ho
      · obtain ⟨o, ho', _⟩ := ho.open
        have hne : fd ≠ w.nextFd := fun e => by rw [e, hw.fresh _ (Nat.le_refl _)] at ho'; cases ho'
        exact ho.congr (by simp only [upd_other _ _ _ _ hne])
  · cases s with
    | flock fd0 k0 =>
      rcases osStep_flock_spec h with ⟨e, _, rfl⟩ | ⟨o, _, hc, _, rfl⟩
      · exact ho
      · exact ho.congr (by simp)
    | funlock fd0 =>
      rcases osStep_funlock_spec h with ⟨e, _, rfl⟩ | ⟨o, _, _, rfl⟩
      · exact ho
      · exact ho.congr rfl
    | close fd0 =>
      have hne : fd ≠ fd0 := fun e => hfd (by simp [Sys.ctl, e])
      rcases osStep_close_spec h with rfl | ⟨o, _, _, rfl⟩
      · exact ho
      · exact ho.congr (by rw [closeFd_fds, if_neg hne])
    | _ => simp [Sys.ctl] at hctl

end GIV.Lockedfile
