/-
  GIV.Lemmas.CachePutConcReadable — C11: an id that is stored (whole index entry, outputs of all
  stored contents complete) stays readable for ever in fault-free executions, whatever is Put
  concurrently for this or other ids: every lookup of it succeeds and returns a content stored for it.
-/
import GIV.Lemmas.CachePutConcRestore

set_option linter.unusedSimpArgs false
set_option linter.unusedSectionVars false
set_option linter.unusedVariables false

namespace GIV.CachePut
open GIV

variable {Id Hsh : Type} [DecidableEq Id] [DecidableEq Hsh]
variable {P : Params Id Hsh} {offered : Bytes → Prop} {now : Int}
  {fs fs' : FS Id Hsh} {proc n : Nat} {r : Res} {nx : Next Hsh}

section
variable (P : Params Id Hsh) (offered : Bytes → Prop) (K : Id → Bytes → Prop) (id0 : Id)

/-- a lookup of `id0` on its way to success. -/
def LocalQ (fs : FS Id Hsh) : PC Hsh → Prop
  | .gOpen => True
  | .gRead fd acc => ∃ o, fs.fds fd = some o ∧ fs.names (.index id0) = some o.ino ∧
      ((acc = [] ∧ o.off = 0) ∨
       (o.off = Gen.CachePut.entrySize ∧ ∃ c t, K id0 c ∧ offered c ∧ acc = P.enc id0 (P.H c) c.length t))
  | .gUsedStat _ e => EntryK P offered K id0 e
  | .gUsedChtimes _ e => EntryK P offered K id0 e
  | .gClose _ r => ∃ e, r = some e ∧ EntryK P offered K id0 e
  | .oStat e => EntryK P offered K id0 e
  | .oChtimes e => EntryK P offered K id0 e
  | .fStat e => EntryK P offered K id0 e
  | .bOpen e => EntryK P offered K id0 e
  | .bRead fd acc e => ∃ c, K id0 c ∧ offered c ∧ e = ⟨P.H c, c.length⟩ ∧ ∃ o, fs.fds fd = some o ∧
      fs.names (.data (P.H c)) = some o.ino ∧ o.off ≤ c.length ∧ acc = c.take o.off
  | .bClose _ acc e => K id0 acc ∧ offered acc ∧ e = ⟨P.H acc, acc.length⟩
  | _ => False

/-- a successful result with a content stored for `id0`. -/
def ResQ : Result Hsh → Prop
  | .entry e => EntryK P offered K id0 e
  | .file e cont => ∃ c, K id0 c ∧ offered c ∧ e = ⟨P.H c, c.length⟩ ∧ cont = some c
  | .bytes d e => K id0 d ∧ offered d ∧ e = ⟨P.H d, d.length⟩
  | _ => False

def PostQ (fs' : FS Id Hsh) : Next Hsh → Prop
  | .goto pc' => LocalQ P offered K id0 fs' pc'
  | .done res => ResQ P offered K id0 res
end

variable {K K' : Id → Bytes → Prop} {id0 : Id}

theorem ResQ.mono (hK : ∀ id c, K id c → K' id c) {res : Result Hsh} (h : ResQ P offered K id0 res) :
    ResQ P offered K' id0 res := by
  cases res <;> simp only [ResQ] at h ⊢
  case entry e => exact h.mono hK
  case file e cont => obtain ⟨c, h1, h2, h3⟩ := h; exact ⟨c, hK _ _ h1, h2, h3⟩
  case bytes d e => exact ⟨hK _ _ h.1, h.2⟩
  all_goals exact h

theorem localQ_mono (hK : ∀ id c, K id c → K' id c) {f : Option Nat} (hm : Mono fs fs' f) {pc : PC Hsh}
    (hfd : ∀ g, fdOf pc = some g → some g ≠ f ∧ g < fs.nextFd) (hL : LocalQ P offered K id0 fs pc) :
    LocalQ P offered K' id0 fs' pc := by
  cases pc <;> simp only [LocalQ] at hL ⊢ <;> simp only [fdOf] at hfd <;>
    first | exact hL.mono hK | trivial | exact hL.elim | skip
  case gRead fd acc =>
    obtain ⟨o, h1, h2, h3⟩ := hL
    refine ⟨o, by rw [hm.fds fd (hfd fd rfl).1 (hfd fd rfl).2]; exact h1, hm.names _ _ h2, ?_⟩
    rcases h3 with h | ⟨h, c, t, k1, k2, k3⟩
    · exact Or.inl h
    · exact Or.inr ⟨h, c, t, hK _ _ k1, k2, k3⟩
  case gClose fd ro =>
    obtain ⟨e, h1, h2⟩ := hL; exact ⟨e, h1, h2.mono hK⟩
  case bRead fd acc e =>
    obtain ⟨c, k1, k2, k3, o, h1, h2, h3⟩ := hL
    exact ⟨c, hK _ _ k1, k2, k3, o, by rw [hm.fds fd (hfd fd rfl).1 (hfd fd rfl).2]; exact h1, hm.names _ _ h2, h3⟩
  case bClose fd acc e => exact ⟨hK _ _ hL.1, hL.2⟩

/-- **a lookup of a stored id proceeds towards success**, whatever the other tasks do. -/
theorem get_qstep (hy : Hyps P offered) {op : Op Id} {pc : PC Hsh} (hop : op.isGet = true)
    (hid : op.id = id0) (hinv : FSInvP P offered fs) (hik : IndexK P offered K fs)
    (hkc : ∀ c, K id0 c → offered c → CompleteF P fs c) (hfull : IndexFull fs id0)
    (hL : LocalQ P offered K id0 fs pc)
    (hs : tstep P now fs proc op pc .none n = some (fs', r, nx)) : PostQ P offered K id0 fs' nx := by
  obtain ⟨he, rfl⟩ := tstep_eq hs
  have he0 : execOk fs proc (sysOf P now n op pc) = some (fs', r) := by simpa [exec] using he
  obtain ⟨ii, ind, hin, hii, hlen⟩ := hfull
  have hidata := hik id0 ind.data (content_of' hin hii)
  subst hid
  cases pc <;> simp only [LocalQ] at hL
  case gOpen =>
    have hnx : next P fs'.content n op .gOpen r = (match r with | .okFd fd => .goto (.gRead fd []) | _ => .done .miss) := by
      cases op <;> simp [Op.isGet] at hop <;> cases r <;> rfl
    have he1 : execOk fs proc (.open (.index op.id) .rdonly false false) = some (fs', r) := by
      cases op <;> simp [Op.isGet] at hop <;> simpa [sysOf, Op.id] using he0
    obtain ⟨rfl, hfd, hsame⟩ := open_ro_existing hin hii he1
    rw [hnx]
    simp only [PostQ, LocalQ]
    exact ⟨⟨ii, 0, proc⟩, hfd, by rw [hsame.1]; exact hin, Or.inl ⟨trivial, rfl⟩⟩
  case gRead fd acc =>
    obtain ⟨o, h1, h2, h3⟩ := hL
    rw [hin] at h2; cases h2
    have hnx : next P fs'.content n op (.gRead fd acc) r = (match r with
        | .okData bs => if (acc ++ bs).length ≥ Gen.CachePut.getBufLen then .goto (.gClose fd none) else .goto (.gRead fd (acc ++ bs))
        | .eof => match P.parse op.id acc with
          | some e => .goto (.gUsedStat fd e)
          | none => .goto (.gClose fd none)
        | _ => .goto (.gClose fd none)) := by
      cases op <;> simp [Op.isGet] at hop <;> cases r <;> rfl
    have he1 : execOk fs proc (.read fd (Gen.CachePut.getBufLen - acc.length)) = some (fs', r) := by
      cases op <;> simp [Op.isGet] at hop <;> simpa [sysOf] using he0
    obtain ⟨o', nd', g1, g2, hcase⟩ := read_none_spec he1
    rw [h1] at g1; cases g1
    rw [hii] at g2; cases g2
    rw [hnx]
    rcases h3 with ⟨rfl, hoff0⟩ | ⟨hoff, c, t, k1, k2, rfl⟩
    · rcases hcase with ⟨_, _, hnil⟩ | ⟨bs, rfl, hbne, hbs, rfl⟩
      · exfalso
        rw [hoff0] at hnil
        simp [Gen.CachePut.getBufLen] at hnil
        rw [hnil] at hlen; simp [Gen.CachePut.entrySize] at hlen
      · have hbs' : bs = ind.data := by
          rw [hbs, hoff0]; simp [Gen.CachePut.getBufLen]
          apply List.take_of_length_le; omega
        subst hbs'
        have hlt' : ¬ ([] ++ ind.data).length ≥ Gen.CachePut.getBufLen := by
          simp [Gen.CachePut.getBufLen, hlen]
        simp only [hlt', if_false, PostQ, LocalQ]
        rcases hidata with h0 | ⟨c, t, k1, k2, k3⟩
        · rw [h0] at hlen; simp [Gen.CachePut.entrySize] at hlen
        · refine ⟨{ o with off := o.off + ind.data.length }, by simp [FS.setFd], hin, Or.inr ⟨?_, c, t, k1, k2, by simpa using k3⟩⟩
          simp [hoff0, hlen]
    · rcases hcase with ⟨rfl, rfl, _⟩ | ⟨bs, rfl, hbne, hbs, rfl⟩
      · simp only [hy.parseEnc op.id c t k2, PostQ, LocalQ]
        exact ⟨c, k1, k2, rfl⟩
      · exfalso
        have : bs = [] := by rw [hbs, hoff, List.drop_eq_nil_of_le (by omega)]; simp
        exact hbne this
  case gUsedStat fd e =>
    have hnx : next P fs'.content n op (.gUsedStat fd e) r = (if n = 0 then .goto (.gClose fd (some e)) else .goto (.gUsedChtimes fd e)) := by
      cases op <;> simp [Op.isGet] at hop <;> cases r <;> rfl
    rw [hnx]
    split <;> simp only [PostQ, LocalQ]
    · exact ⟨e, rfl, hL⟩
    · exact hL
  case gUsedChtimes fd e =>
    have hnx : next P fs'.content n op (.gUsedChtimes fd e) r = .goto (.gClose fd (some e)) := by
      cases op <;> simp [Op.isGet] at hop <;> cases r <;> rfl
    rw [hnx]
    exact ⟨e, rfl, hL⟩
  case gClose fd ro =>
    obtain ⟨e, rfl, hL⟩ := hL
    have hnx : next P fs'.content n op (.gClose fd (some e)) r = afterGetClose op (some e) := by
      cases op <;> simp [Op.isGet] at hop <;> cases r <;> rfl
    rw [hnx]
    cases op <;> simp [Op.isGet] at hop <;> simp [afterGetClose, PostQ, LocalQ, ResQ, hL]
  case oStat e =>
    have hnx : next P fs'.content n op (.oStat e) r = (if n = 0 then afterUsed op e else .goto (.oChtimes e)) := by
      cases op <;> simp [Op.isGet] at hop <;> cases r <;> rfl
    rw [hnx]
    split
    · cases op <;> simp [Op.isGet] at hop <;> simp [afterUsed, PostQ, LocalQ, hL]
    · exact hL
  case oChtimes e =>
    have hnx : next P fs'.content n op (.oChtimes e) r = afterUsed op e := by
      cases op <;> simp [Op.isGet] at hop <;> cases r <;> rfl
    rw [hnx]
    cases op <;> simp [Op.isGet] at hop <;> simp [afterUsed, PostQ, LocalQ, hL]
  case fStat e =>
    obtain ⟨c, hk, hc, rfl⟩ := hL
    obtain ⟨di, dnd, hdn, hdi, hddata⟩ := hkc c hk hc
    have hnx : next P fs'.content n op (.fStat ⟨P.H c, c.length⟩) r = (match r with
        | .okSize L => if Gen.CachePut.getFileReject L c.length then .done .miss
            else .done (.file ⟨P.H c, c.length⟩ (fs'.content (.data (P.H c))))
        | _ => .done .miss) := by
      cases op <;> simp [Op.isGet] at hop <;> cases r <;> rfl
    have he1 : execOk fs proc (.stat (.data (P.H c))) = some (fs', r) := by
      cases op <;> simp [Op.isGet] at hop <;> simpa [sysOf] using he0
    obtain ⟨rfl, hcase⟩ := stat_spec he1
    rcases hcase with ⟨hnone, _⟩ | ⟨i, nd, k1, k2, rfl⟩
    · rw [hdn] at hnone; cases hnone
    · rw [hdn] at k1; cases k1
      rw [hdi] at k2; cases k2
      rw [hnx]
      simp only [Gen.CachePut.getFileReject, hddata, ne_eq, not_true_eq_false, decide_false, Bool.false_eq_true, if_false,
        PostQ, ResQ]
      refine ⟨c, hk, hc, rfl, ?_⟩
      rw [content_of' hdn hdi, hddata]
  case bOpen e =>
    obtain ⟨c, hk, hc, rfl⟩ := hL
    obtain ⟨di, dnd, hdn, hdi, hddata⟩ := hkc c hk hc
    have hnx : next P fs'.content n op (.bOpen ⟨P.H c, c.length⟩) r = (match r with
        | .okFd fd => .goto (.bRead fd [] ⟨P.H c, c.length⟩)
        | _ => bytesResult P [] ⟨P.H c, c.length⟩) := by
      cases op <;> simp [Op.isGet] at hop <;> cases r <;> rfl
    have he1 : execOk fs proc (.open (.data (P.H c)) .rdonly false false) = some (fs', r) := by
      cases op <;> simp [Op.isGet] at hop <;> simpa [sysOf] using he0
    obtain ⟨rfl, hfd, hsame⟩ := open_ro_existing hdn hdi he1
    rw [hnx]
    simp only [PostQ, LocalQ]
    exact ⟨c, hk, hc, rfl, ⟨di, 0, proc⟩, hfd, by rw [hsame.1]; exact hdn, Nat.zero_le _, by simp⟩
  case bRead fd acc e =>
    obtain ⟨c, hk, hc, rfl, o, h1, h2, h3, h4⟩ := hL
    obtain ⟨di, dnd, hdn, hdi, hddata⟩ := hkc c hk hc
    rw [hdn] at h2; cases h2
    have hnx : next P fs'.content n op (.bRead fd acc ⟨P.H c, c.length⟩) r = (match r with
        | .okData bs => .goto (.bRead fd (acc ++ bs) ⟨P.H c, c.length⟩)
        | _ => .goto (.bClose fd acc ⟨P.H c, c.length⟩)) := by
      cases op <;> simp [Op.isGet] at hop <;> cases r <;> rfl
    have he1 : execOk fs proc (.read fd (chunk n)) = some (fs', r) := by
      cases op <;> simp [Op.isGet] at hop <;> simpa [sysOf] using he0
    obtain ⟨o', nd', g1, g2, hcase⟩ := read_none_spec he1
    rw [h1] at g1; cases g1
    rw [hdi] at g2; cases g2
    rw [hnx]
    rcases hcase with ⟨rfl, rfl, hnil⟩ | ⟨bs, rfl, hbne, hbs, rfl⟩
    · simp only [PostQ, LocalQ]
      have hd : dnd.data.drop o.off = [] := take_nil_of_pos (chunk_pos n) hnil
      rw [hddata] at hd
      have : acc = c := by rw [h4]; exact List.take_of_length_le (List.drop_eq_nil_iff.mp hd)
      subst this
      exact ⟨hk, hc, rfl⟩
    · simp only [PostQ, LocalQ]
      refine ⟨c, hk, hc, rfl, { o with off := o.off + bs.length }, by simp [FS.setFd], hdn, ?_, ?_⟩
      · show o.off + bs.length ≤ c.length
        rw [hbs, hddata]; simp; omega
      · show acc ++ bs = c.take (o.off + bs.length)
        rw [h4, List.take_add, hbs, hddata]
        congr 1
        exact (take_take_length _ _).symm
  case bClose fd acc e =>
    obtain ⟨hk, hc, rfl⟩ := hL
    have hnx : next P fs'.content n op (.bClose fd acc ⟨P.H acc, acc.length⟩) r = bytesResult P acc ⟨P.H acc, acc.length⟩ := by
      cases op <;> simp [Op.isGet] at hop <;> cases r <;> rfl
    rw [hnx]
    simp [bytesResult, Gen.CachePut.getBytesReject, PostQ, ResQ, hk, hc]
  all_goals exact hL.elim

/-! ## the invariant "id0 is stored and every lookup of it is on its way to success" -/

structure QInv (P : Params Id Hsh) (offered : Bytes → Prop) (K0 : Id → Bytes → Prop) (id0 : Id) (w : World Id Hsh) : Prop where
  full : IndexFull w.fs id0
  cur : ∀ tid tk op pc, w.tasks tid = some tk → tk.cur = some (op, pc) → op.isGet = true → op.id = id0 →
    LocalQ P offered (Known K0 w.hist) id0 w.fs pc
  res : ∀ tid op res, Ev.ret tid op res ∈ w.hist → op.isGet = true → op.id = id0 →
    ResQ P offered (Known K0 w.hist) id0 res

theorem localQ_start {op : Op Id} (hop : op.isGet = true) : LocalQ P offered K id0 fs (startPC op) := by
  cases op <;> simp [Op.isGet] at hop <;> simp [startPC, LocalQ]

theorem qinv_step (hy : Hyps P offered) {K0 : Id → Bytes → Prop} {w w' : World Id Hsh} {l : Label}
    {obs : Obs Id Hsh} (W : WInv P offered K0 K0 w) (Q : QInv P offered K0 id0 w) (h : step P w l = some (w', obs))
    (hf : l.fault = .none) : QInv P offered K0 id0 w' := by
  obtain ⟨tk, op, pc, fs1, r, nx, htk, hcur, hts, hfs, hother, cur', todo', htk', hcth⟩ := step_spec h hf
  obtain ⟨hgood, hT, hbound⟩ := W.cur _ _ _ _ htk hcur
  obtain ⟨hinv', hsafe, hpost, hidxc, hghost⟩ := task_step hy hgood W.fs W.ik hT hts
  have he0 : execOk w.fs tk.proc (sysOf P w.now l.n op pc) = some (fs1, r) := by
    have := (tstep_eq hts).1; simpa [exec] using this
  have hm : Mono w.fs fs1 (sysFd (sysOf P w.now l.n op pc)) := exec_mono W.fs.1 he0 hsafe
  have htodo : ∀ op', op' ∈ tk.todo → GoodOp offered op' := fun op' ho => W.todo _ _ _ htk ho
  have hgoto : ∀ pc'', nx = .goto pc'' → cur' = some (op, pc'') ∧ todo' = tk.todo ∧
      w'.hist = w.hist ++ ghostOf l.tid op pc r := by
    intro pc'' hnx; subst hnx
    simp only at hcth
    exact ⟨congrArg (fun x => x.1) hcth, congrArg (fun x => x.2.1) hcth, congrArg (fun x => x.2.2) hcth⟩
  have hdone : ∀ res, nx = .done res → w'.hist = w.hist ++ ghostOf l.tid op pc r ++ [.ret l.tid op res] ∧
      ((tk.todo = [] ∧ cur' = none ∧ todo' = []) ∨
       ∃ o rest, tk.todo = o :: rest ∧ cur' = some (o, startPC o) ∧ todo' = rest) := by
    intro res hnx; subst hnx
    simp only at hcth
    cases htd : tk.todo with
    | nil =>
      rw [htd] at hcth
      simp only [startOps] at hcth
      exact ⟨congrArg (fun x => x.2.2) hcth, Or.inl ⟨rfl, congrArg (fun x => x.1) hcth, congrArg (fun x => x.2.1) hcth⟩⟩
    | cons o rest =>
      rw [htd, startOps_cons (offered := offered) (htodo o (by rw [htd]; simp))] at hcth
      exact ⟨congrArg (fun x => x.2.2) hcth, Or.inr ⟨o, rest, rfl, congrArg (fun x => x.1) hcth, congrArg (fun x => x.2.1) hcth⟩⟩
  have hsub : ∀ e, e ∈ w.hist → e ∈ w'.hist := by
    intro e he
    cases hnx' : nx with
    | goto pc'' => rw [(hgoto _ hnx').2.2]; simp [he]
    | done res => rw [(hdone _ hnx').1]; simp [he]
  have hK : ∀ id c, Known K0 w.hist id c → Known K0 w'.hist id c := fun id c hk => hk.mono hsub
  have hown_post : op.isGet = true → op.id = id0 → PostQ P offered (Known K0 w.hist) id0 fs1 nx :=
    fun hop hid => get_qstep hy hop hid W.fs W.ik (fun c hk _ => (W.kc id0 c hk).2) Q.full (Q.cur _ _ _ _ htk hcur hop hid) hts
  have hown : ∀ g, sysFd (sysOf P w.now l.n op pc) = some g → fdOf pc = some g := fun g hg => sysOf_fd hg
  refine ⟨by rw [hfs]; exact indexFull_mono hy hm hinv' Q.full, ?_, ?_⟩
  · intro tid tk2 op' pc' ht2 hc2 hop hid
    rw [hfs]
    by_cases hne : tid = l.tid
    · subst hne; rw [htk'] at ht2; cases ht2
      cases hnx' : nx with
      | goto pc'' =>
        rw [(hgoto _ hnx').1] at hc2; cases hc2
        have := hown_post hop hid
        rw [hnx'] at this
        have hb' : ∀ g, fdOf pc' = some g → g < fs1.nextFd := by
          intro g hg
          have hnxeq := (tstep_eq hts).2
          rw [hnx'] at hnxeq
          have := next_fd (P := P) (content := fs1.content) (n := l.n) (op := op) (pc := pc) (r := r) (g := g)
            (by rw [← hnxeq]; simpa using hg)
          rcases this with h | h
          · exact Nat.lt_of_lt_of_le (hbound g h) hm.nextFd
          · subst h; obtain ⟨h1, h2⟩ := execOk_okFd he0; omega
        exact localQ_mono hK (f := none)
          ⟨fun _ _ h => h, fun i nd h => ⟨nd, h, Nat.le_refl _⟩, fun _ _ _ => rfl, Nat.le_refl _⟩
          (fun g hg => ⟨by simp, hb' g hg⟩) this
      | done res =>
        rcases (hdone _ hnx').2 with ⟨_, h1, _⟩ | ⟨o, rest, htd, h1, _⟩
        · rw [h1] at hc2; cases hc2
        · rw [h1] at hc2; cases hc2
          exact localQ_start hop
    · rw [hother _ hne] at ht2
      obtain ⟨_, _, b2⟩ := W.cur _ _ _ _ ht2 hc2
      refine localQ_mono hK hm (fun g hg => ⟨fun heq => ?_, b2 g hg⟩) (Q.cur _ _ _ _ ht2 hc2 hop hid)
      exact W.distinct l.tid tid tk tk2 op pc op' pc' g (Ne.symm hne) htk ht2 hcur hc2 (hown g heq.symm) hg
  · intro tid op' res hr hop hid
    cases hnx' : nx with
    | goto pc'' =>
      rw [(hgoto _ hnx').2.2] at hr
      simp only [List.mem_append] at hr
      rcases hr with hr | hr
      · exact (Q.res _ _ _ hr hop hid).mono hK
      · obtain ⟨_, _, _, _, _, _, _, he⟩ := ghostOf_mem hr; cases he
    | done res' =>
      rw [(hdone _ hnx').1] at hr
      simp only [List.mem_append, List.mem_singleton] at hr
      rcases hr with (hr | hr) | hr
      · exact (Q.res _ _ _ hr hop hid).mono hK
      · obtain ⟨_, _, _, _, _, _, _, he⟩ := ghostOf_mem hr; cases he
      · cases hr
        have := hown_post hop hid
        rw [hnx'] at this; exact this.mono hK

theorem qinv_run (hy : Hyps P offered) {K0 : Id → Bytes → Prop} {ls : List Label} :
    ∀ {w0 w : World Id Hsh}, WInv P offered K0 K0 w0 → QInv P offered K0 id0 w0 → FaultFree ls → run P w0 ls = some w →
      QInv P offered K0 id0 w := by
  induction ls with
  | nil => intro w0 w _ Q _ h; simp [run] at h; subst h; exact Q
  | cons l ls ih =>
    intro w0 w W Q hf h
    simp only [run] at h
    split at h
    · simp at h
    · next w1 obs hs =>
      have hl := hf l (by simp)
      exact ih (winv_step hy W hs hl) (qinv_step hy W Q hs hl) (fun l' hl' => hf l' (by simp [hl'])) h

/-- an entry present at the start whose output is complete. -/
def InitialStored (P : Params Id Hsh) (offered : Bytes → Prop) (fs0 : FS Id Hsh) (id : Id) (c : Bytes) : Prop :=
  InitialEntry P offered fs0 id c ∧ CompleteF P fs0 c

/-- **stored stays readable**: the execution starts from a directory in which `id0` has a whole index
entry and the outputs named by the entries present are complete (e.g. the state reached when all writers
have finished: `put_ok_readable`).  Then, whatever any number of tasks Put concurrently — for `id0` or other
ids, identical or differing contents —, every lookup of `id0` succeeds, and what it reports is a content
stored for `id0` (at the start, or by a Put that had executed its index write). -/
theorem stored_stays_readable_run (hy : Hyps P offered) {w0 w : World Id Hsh} {ls : List Label}
    (hinv : FSInvP P offered w0.fs) (hi : Initial offered w0) (hfull : IndexFull w0.fs id0)
    (hcomplete : ∀ id c, InitialEntry P offered w0.fs id c → CompleteF P w0.fs c)
    (hf : FaultFree ls) (hr : run P w0 ls = some w)
    {tid : Nat} {op : Op Id} {res : Result Hsh} (hop : op.isGet = true) (hid : op.id = id0)
    (hret : Ev.ret tid op res ∈ w.hist) :
    ResQ P offered (Known (InitialEntry P offered w0.fs) w.hist) id0 res := by
  have W0 : WInv P offered (InitialEntry P offered w0.fs) (InitialEntry P offered w0.fs) w0 :=
    winv_init hinv hi (fun id d hd => by
      obtain ⟨i, nd, h1, h2, rfl⟩ := content_inv hinv.1 hd
      rcases hinv.2 _ _ _ (by simp) h1 h2 with h | ⟨c, t, hc, h⟩
      · exact Or.inl h
      · exact Or.inr ⟨c, t, ⟨hc, t, by rw [hd, h]⟩, hc, h⟩) (fun id c h => ⟨h.1, hcomplete id c h⟩)
  have Q0 : QInv P offered (InitialEntry P offered w0.fs) id0 w0 := by
    refine ⟨hfull, ?_, ?_⟩
    · intro tid tk op pc h1 h2 hop _
      obtain ⟨_, rfl⟩ := (hi.2 tid tk h1).2 op pc h2
      exact localQ_start hop
    · intro tid op res hr; rw [hi.1] at hr; cases hr
  exact (qinv_run hy W0 Q0 hf hr).res tid op res hret hop hid

end GIV.CachePut
