import GIV.Gen.ModuleGo
import GIV.Lemmas.ModuleGoRunes
set_option linter.unusedSimpArgs false
namespace GIV.ModuleGo
open GIV GIV.GoLib GIV.Proxy

/-! ### byte classes: the model's UInt8 tests as facts about `toNat` -/

theorem isLower_iff (c : UInt8) : isLower c = true ↔ 97 ≤ c.toNat ∧ c.toNat ≤ 122 := by
  simp only [isLower, Bool.and_eq_true, decide_eq_true_eq, u8_le]
  exact Iff.rfl

theorem isUpper_iff (c : UInt8) : isUpper c = true ↔ 65 ≤ c.toNat ∧ c.toNat ≤ 90 := by
  simp only [isUpper, Bool.and_eq_true, decide_eq_true_eq, u8_le]
  exact Iff.rfl

theorem ge128_iff (c : UInt8) : c ≥ 128 ↔ 128 ≤ c.toNat := by
  show (128 : UInt8) ≤ c ↔ _
  rw [u8_le]
  exact Iff.rfl

theorem eq33_iff (c : UInt8) : c = 33 ↔ c.toNat = 33 := by
  constructor
  · intro h; subst h; rfl
  · intro h; exact UInt8.toNat_inj.1 (by rw [h]; rfl)

theorem byte_lower_sub {b : UInt8} (h : 97 ≤ b.toNat) :
    byteOfInt (((b.toNat : Int) + 65) - 97) = b - 32 := by
  have hle : (32 : UInt8) ≤ b := by
    rw [u8_le]
    have : (32 : UInt8).toNat = 32 := rfl
    omega
  have e : (b - 32).toNat = b.toNat - 32 := by
    rw [UInt8.toNat_sub_of_le b 32 hle]
    rfl
  have : ((b.toNat : Int) + 65) - 97 = ((b - 32).toNat : Int) := by
    rw [e]; omega
  rw [this, byteOfInt_toNat]

theorem byte_upper_add {b : UInt8} (h : b.toNat ≤ 90) :
    byteOfInt (((b.toNat : Int) + 97) - 65) = b + 32 := by
  have e : (b + 32).toNat = b.toNat + 32 := by
    rw [UInt8.toNat_add]
    have : (32 : UInt8).toNat = 32 := rfl
    rw [this]
    omega
  have : ((b.toNat : Int) + 97) - 65 = ((b + 32).toNat : Int) := by
    rw [e]; omega
  rw [this, byteOfInt_toNat]

/-- the result of a Go function returning (string, error), errors opaque: the string when the error is nil -/
def okOf (r : Bytes × GoError) : Option Bytes := if r.2.isNone then some r.1 else none

/-! ### unescapeString -/

theorem unescape_loop_eq (u : GoLib.Unicode) (e : Bytes) :
    ∀ (n : Nat) (s buf : Bytes) (bang : Bool), s.length ≤ n →
      GIV.Go.Module.unescapeString_loop1 u e (runesOf n s) buf bang =
        some (match unescapeAux bang s with | some r => (buf ++ r, true) | none => ([], false)) := by
  have hnil : ∀ (buf : Bytes) (bang : Bool),
      GIV.Go.Module.unescapeString_loop1 u e [] buf bang =
        some (match unescapeAux bang [] with | some r => (buf ++ r, true) | none => ([], false)) := by
    intro buf bang
    cases bang <;>
      simp [GIV.Go.Module.unescapeString_loop1, GIV.Go.Module.unescapeString_after1, unescapeAux]
  intro n
  induction n with
  | zero =>
    intro s buf bang hs
    cases s with
    | nil => rw [runesOf_nil]; exact hnil buf bang
    | cons b r => simp at hs
  | succ n ih =>
    intro s buf bang hs
    cases s with
    | nil => rw [runesOf_nil]; exact hnil buf bang
    | cons b rest =>
      have hlen : rest.length ≤ n := by simp at hs; omega
      by_cases hb : b < 0x80
      · have h128 := lt_128 hb
        have hge : ¬ (b ≥ 128) := by rw [ge128_iff]; omega
        rw [runesOf_ascii n rest hb, GIV.Go.Module.unescapeString_loop1, unescapeAux]
        have d1 : decide ((b.toNat : Int) ≥ 128) = false := by
          simp only [decide_eq_false_iff_not]; omega
        simp only [d1, if_neg hge, Bool.false_eq_true, if_false]
        cases bang with
        | true =>
          simp only [if_true]
          by_cases hl : isLower b = true
          · have hl' := (isLower_iff b).1 hl
            have d2 : (decide ((b.toNat : Int) < 97) || decide (122 < (b.toNat : Int))) = false := by
              simp only [Bool.or_eq_false_iff, decide_eq_false_iff_not]; omega
            simp only [d2, hl, Bool.false_eq_true, if_false, if_true]
            rw [ih rest _ false hlen, byte_lower_sub hl'.1]
            cases unescapeAux false rest <;> simp
          · have hl' : ¬ (97 ≤ b.toNat ∧ b.toNat ≤ 122) := fun h => hl ((isLower_iff b).2 h)
            have d2 : (decide ((b.toNat : Int) < 97) || decide (122 < (b.toNat : Int))) = true := by
              simp only [Bool.or_eq_true, decide_eq_true_eq]; omega
            simp only [d2, hl, if_true, if_false]
            rfl
        | false =>
          simp only [Bool.false_eq_true, if_false]
          by_cases h33 : b = 33
          · subst h33
            simp only [if_true]
            rw [show (((33 : UInt8).toNat : Int) == 33) = true from rfl]
            simp only [if_true]
            exact ih rest buf true hlen
          · have h33' : b.toNat ≠ 33 := fun h => h33 ((eq33_iff b).2 h)
            have d3 : (((b.toNat : Int)) == 33) = false := by
              simp only [beq_eq_false_iff_ne, ne_eq]; omega
            simp only [d3, if_neg h33, Bool.false_eq_true, if_false]
            by_cases hu : isUpper b = true
            · have hu' := (isUpper_iff b).1 hu
              have d4 : (decide (65 ≤ (b.toNat : Int)) && decide ((b.toNat : Int) ≤ 90)) = true := by
                simp only [Bool.and_eq_true, decide_eq_true_eq]; omega
              simp only [d4, hu, if_true]
              rfl
            · have hu' : ¬ (65 ≤ b.toNat ∧ b.toNat ≤ 90) := fun h => hu ((isUpper_iff b).2 h)
              have d4 : (decide (65 ≤ (b.toNat : Int)) && decide ((b.toNat : Int) ≤ 90)) = false := by
                simp only [Bool.and_eq_false_iff, decide_eq_false_iff_not]; omega
              simp only [d4, hu, Bool.false_eq_true, if_false]
              rw [ih rest _ false hlen, byteOfInt_toNat]
              cases unescapeAux false rest <;> simp
      · obtain ⟨r, tl, er, hr⟩ := runesOf_multi n rest hb
        have hge : b ≥ 128 := (ge128_iff b).2 (not_lt_128 hb)
        rw [er, GIV.Go.Module.unescapeString_loop1, unescapeAux]
        have d1 : decide (r ≥ 128) = true := by simp only [decide_eq_true_eq]; omega
        simp only [d1, if_pos hge, if_true]
        rfl

theorem unescapeString_eq (u : GoLib.Unicode) (e : Bytes) :
    GIV.Go.Module.unescapeString u e =
      some (match Proxy.unescapeString e with | some p => (p, true) | none => ([], false)) := by
  unfold GIV.Go.Module.unescapeString Proxy.unescapeString
  have := unescape_loop_eq u e e.length e [] false (Nat.le_refl _)
  rw [← runes_eq] at this
  simpa using this

/-! ### what unescapeString returns is ASCII -/

theorem unescapeAux_ascii : ∀ (s : Bytes) (bang : Bool) (p : Bytes), unescapeAux bang s = some p → Ascii p := by
  intro s
  induction s with
  | nil =>
    intro bang p h
    cases bang <;> simp [unescapeAux] at h
    subst h
    intro c hc
    simp at hc
  | cons c rest ih =>
    intro bang p h
    rw [unescapeAux] at h
    by_cases hge : c ≥ 128
    · simp [hge] at h
    · have hc : c.toNat < 128 := by rw [ge128_iff] at hge; omega
      simp only [if_neg hge] at h
      cases bang with
      | true =>
        simp only [if_true] at h
        by_cases hl : isLower c = true
        · simp only [hl, if_true, Option.map_eq_some_iff] at h
          obtain ⟨r, hr, rfl⟩ := h
          have hl' := (isLower_iff c).1 hl
          have hle : (32 : UInt8) ≤ c := by
            rw [u8_le]
            have : (32 : UInt8).toNat = 32 := rfl
            omega
          have e : (c - 32).toNat = c.toNat - 32 := by
            rw [UInt8.toNat_sub_of_le c 32 hle]
            rfl
          intro x hx
          rcases List.mem_cons.1 hx with rfl | hx
          · omega
          · exact ih false r hr x hx
        · simp [hl] at h
      | false =>
        simp only [Bool.false_eq_true, if_false] at h
        by_cases h33 : c = 33
        · simp only [if_pos h33] at h
          exact ih true p h
        · simp only [if_neg h33] at h
          by_cases hu : isUpper c = true
          · simp [hu] at h
          · simp only [hu, Bool.false_eq_true, if_false, Option.map_eq_some_iff] at h
            obtain ⟨r, hr, rfl⟩ := h
            intro x hx
            rcases List.mem_cons.1 hx with rfl | hx
            · exact hc
            · exact ih false r hr x hx

/-- what unescapeString returns is ASCII -/
theorem unescapeString_ascii {e p : Bytes} (h : Proxy.unescapeString e = some p) : Ascii p :=
  unescapeAux_ascii e false p h

/-! ### escapeString -/

/-- the bytes `escapeString` refuses -/
def escBad (c : UInt8) : Bool := c = 33 || c ≥ 128

/-- "internal error: inconsistency in EscapePath" -/
def escMsg : Bytes := [105, 110, 116, 101, 114, 110, 97, 108, 32, 101, 114, 114, 111, 114, 58, 32, 105, 110, 99, 111, 110, 115, 105, 115, 116, 101, 110, 99, 121, 32, 105, 110, 32, 69, 115, 99, 97, 112, 101, 80, 97, 116, 104]

theorem escape_loop1_eq (u : GoLib.Unicode) (s escaped : Bytes) (err : GoError) :
    ∀ (n : Nat) (t : Bytes) (hu : Bool), t.length ≤ n →
      GIV.Go.Module.escapeString_loop1 u s escaped err (runesOf n t) hu =
        if t.any escBad then some ([], some escMsg)
        else GIV.Go.Module.escapeString_after1 u s escaped err (hu || t.any isUpper) := by
  intro n
  induction n with
  | zero =>
    intro t hu ht
    cases t with
    | nil => simp [runesOf_nil, GIV.Go.Module.escapeString_loop1]
    | cons b r => simp at ht
  | succ n ih =>
    intro t hu ht
    cases t with
    | nil => simp [runesOf_nil, GIV.Go.Module.escapeString_loop1]
    | cons b rest =>
      have hlen : rest.length ≤ n := by simp at ht; omega
      by_cases hb : b < 0x80
      · have h128 := lt_128 hb
        rw [runesOf_ascii n rest hb, GIV.Go.Module.escapeString_loop1]
        by_cases h33 : b = 33
        · subst h33
          rw [show ((((33 : UInt8).toNat : Int) == 33) || decide (((33 : UInt8).toNat : Int) ≥ 128)) = true from rfl]
          have hbad : escBad 33 = true := rfl
          simp only [if_true, List.any_cons, hbad, Bool.true_or]
          rfl
        · have h33' : b.toNat ≠ 33 := fun h => h33 ((eq33_iff b).2 h)
          have hge : ¬ (b ≥ 128) := by rw [ge128_iff]; omega
          have d1 : (((b.toNat : Int) == 33) || decide ((b.toNat : Int) ≥ 128)) = false := by
            simp only [Bool.or_eq_false_iff, beq_eq_false_iff_ne, ne_eq, decide_eq_false_iff_not]
            omega
          have hbad : escBad b = false := by simp [escBad, h33, hge]
          simp only [d1, Bool.false_eq_true, if_false, List.any_cons, hbad, Bool.false_or]
          by_cases hup : isUpper b = true
          · have hup' := (isUpper_iff b).1 hup
            have d4 : (decide (65 ≤ (b.toNat : Int)) && decide ((b.toNat : Int) ≤ 90)) = true := by
              simp only [Bool.and_eq_true, decide_eq_true_eq]; omega
            have hm := ih rest true hlen
            simp only [d4, if_true, hup, Bool.true_or, Bool.or_true]
            simpa using hm
          · have hup' : ¬ (65 ≤ b.toNat ∧ b.toNat ≤ 90) := fun h => hup ((isUpper_iff b).2 h)
            have d4 : (decide (65 ≤ (b.toNat : Int)) && decide ((b.toNat : Int) ≤ 90)) = false := by
              simp only [Bool.and_eq_false_iff, decide_eq_false_iff_not]; omega
            have hm := ih rest hu hlen
            simp only [d4, Bool.false_eq_true, if_false, hup, Bool.false_or]
            simpa using hm
      · obtain ⟨r, tl, er, hr⟩ := runesOf_multi n rest hb
        have hge : b ≥ 128 := (ge128_iff b).2 (not_lt_128 hb)
        rw [er, GIV.Go.Module.escapeString_loop1]
        have d1 : ((r == 33) || decide (r ≥ 128)) = true := by
          simp only [Bool.or_eq_true, decide_eq_true_eq]; omega
        have hbad : escBad b = true := by simp [escBad, hge]
        simp only [d1, if_true, List.any_cons, hbad, Bool.true_or]
        rfl

theorem escape_loop2_eq (u : GoLib.Unicode) (s escaped : Bytes) (err : GoError) (hu : Bool) :
    ∀ (t buf : Bytes), Ascii t →
      GIV.Go.Module.escapeString_loop2 u s escaped err hu (t.map fun c => (c.toNat : Int)) buf =
        some (buf ++ t.flatMap escapeByte, none) := by
  intro t
  induction t with
  | nil =>
    intro buf _
    simp [GIV.Go.Module.escapeString_loop2, GIV.Go.Module.escapeString_after2]
  | cons b rest ih =>
    intro buf ha
    rw [List.map_cons, GIV.Go.Module.escapeString_loop2, List.flatMap_cons]
    by_cases hup : isUpper b = true
    · have hup' := (isUpper_iff b).1 hup
      have d4 : (decide (65 ≤ (b.toNat : Int)) && decide ((b.toNat : Int) ≤ 90)) = true := by
        simp only [Bool.and_eq_true, decide_eq_true_eq]; omega
      simp only [d4, if_true, escapeByte, hup, byte_upper_add hup'.2]
      simp only [pure, bind, Option.bind]
      rw [ih _ ha.tail]
      simp
    · have hup' : ¬ (65 ≤ b.toNat ∧ b.toNat ≤ 90) := fun h => hup ((isUpper_iff b).2 h)
      have d4 : (decide (65 ≤ (b.toNat : Int)) && decide ((b.toNat : Int) ≤ 90)) = false := by
        simp only [Bool.and_eq_false_iff, decide_eq_false_iff_not]; omega
      simp only [d4, Bool.false_eq_true, if_false, escapeByte, hup, byteOfInt_toNat]
      simp only [pure, bind, Option.bind]
      rw [ih _ ha.tail]
      simp

theorem flatMap_escapeByte_noUpper : ∀ (t : Bytes), t.any isUpper = false → t.flatMap escapeByte = t := by
  intro t
  induction t with
  | nil => intro _; rfl
  | cons b rest ih =>
    intro h
    simp only [List.any_cons, Bool.or_eq_false_iff] at h
    rw [List.flatMap_cons, ih h.2]
    simp [escapeByte, h.1]

theorem ascii_of_not_bad {t : Bytes} (h : t.any escBad = false) : Ascii t := by
  intro c hc
  have : escBad c = false := by
    cases hb : escBad c with
    | false => rfl
    | true =>
      have : t.any escBad = true := List.any_eq_true.2 ⟨c, hc, hb⟩
      rw [h] at this
      cases this
  simp only [escBad, Bool.or_eq_false_iff, decide_eq_false_iff_not, ge128_iff] at this
  omega

theorem escapeString_eq (u : GoLib.Unicode) (s : Bytes) :
    (GIV.Go.Module.escapeString u s).map okOf = some (Proxy.escapeString s) := by
  unfold GIV.Go.Module.escapeString Proxy.escapeString
  have hm := escape_loop1_eq u s [] none s.length s false (Nat.le_refl _)
  rw [← runes_eq] at hm
  simp only [pure, bind, Option.bind] at hm ⊢
  rw [hm]
  have hfun : (fun c : UInt8 => (decide (c = 33) || decide (c ≥ 128))) = escBad := rfl
  rw [hfun]
  cases hbad : s.any escBad with
  | true => simp [okOf]
  | false =>
    simp only [Bool.false_eq_true, if_false, Bool.false_or]
    have ha := ascii_of_not_bad hbad
    rw [GIV.Go.Module.escapeString_after1]
    cases hup : s.any isUpper with
    | false =>
      simp [okOf, flatMap_escapeByte_noUpper s hup]
    | true =>
      simp only [Bool.not_true, Bool.false_eq_true, if_false]
      rw [runes_ascii ha, escape_loop2_eq u s [] none true s [] ha]
      simp [okOf]

end GIV.ModuleGo
