/-
  GIV.Lemmas.CacheParse — the index-entry parser `parseEntry` (= the body of `get`):
  round trip with `fmtEntry`, inversion of a successful parse, absence of panics.  Core Lean only.
-/
import GIV.Lemmas.CacheCodec

namespace GIV.Cache
open GIV


/-! ### the regenerated index-entry format string, evaluated -/

/-- The index entry, as the explicit concatenation the format string `"v1 %x %x %20d %20d\n"` denotes. -/
theorem fmtEntry_eq (id out : Hash) (size t : Int) : fmtEntry id out size t =
    [118, 49, 32] ++ (hexEncode id.val ++ (32 :: (hexEncode out.val ++ (32 :: (padLeft 20 (fmtInt size) ++ (32 :: (padLeft 20 (fmtInt t) ++ [10]))))))) := by
  simp [fmtEntry, sprintf, sprintfGo, Gen.Cache.entryFormat, padLeft]

theorem fmtEntry_length' (id out : Hash) (size t : Int)
    (hs0 : 0 ≤ size) (hs1 : size < 10 ^ 20) (ht0 : 0 ≤ t) (ht1 : t < 10 ^ 20) :
    (fmtEntry id out size t).length = 175 := by
  rw [fmtEntry_eq]
  simp [Hash.hex_length, pad20_length size hs0 hs1, pad20_length t ht0 ht1]


theorem slice_mid (a b c : Bytes) (lo hi : Nat) (ha : a.length = lo) (hb : lo + b.length = hi) :
    slice (a ++ (b ++ c)) lo hi = some b := by
  subst ha hb
  simp [slice, List.take_append]

theorem getElem?_mid (a : Bytes) (x : UInt8) (c : Bytes) (i : Nat) (ha : a.length = i) :
    (a ++ (x :: c))[i]? = some x := by
  subst ha; simp

theorem parseEntry_of_fields (id out : Hash) (hid hout fs ft : Bytes) (size t : Int)
    (hhid : hid.length = 64) (hhout : hout.length = 64)
    (hdid : decodeHash hid = some (some id)) (hdout : decodeHash hout = some (some out))
    (hfs : fs.length = 20) (hft : ft.length = 20)
    (hps : parseInt 10 64 (skipSpaces fs) = some size) (hpt : parseInt 10 64 (skipSpaces ft) = some t)
    (hs0 : 0 ≤ size) (ht0 : 0 ≤ t) :
    parseEntry id ([118, 49, 32] ++ (hid ++ (32 :: (hout ++ (32 :: (fs ++ (32 :: (ft ++ [10])))))))) = .ok ⟨out, size, t⟩ := by
  have hlen : ([118, 49, 32] ++ (hid ++ (32 :: (hout ++ (32 :: (fs ++ (32 :: (ft ++ [10])))))))).length = 175 := by
    simp [hhid, hhout, hfs, hft]
  have hbuf : (readFull ([118, 49, 32] ++ (hid ++ (32 :: (hout ++ (32 :: (fs ++ (32 :: (ft ++ [10]))))))))) =
      ([118, 49, 32] ++ (hid ++ (32 :: (hout ++ (32 :: (fs ++ (32 :: (ft ++ [10, 0]))))))), 175) := by
    simp only [readFull, hlen]
    have : Gen.Cache.bufLen = 176 := by decide
    rw [this, List.take_of_length_le (by omega)]
    simp
  have hc : Gen.Cache.headerChecks = [(0, 118), (1, 49), (2, 32), (67, 32), (132, 32), (153, 32), (174, 10)] := by decide
  have hh : headerBad Gen.Cache.headerChecks ([118, 49, 32] ++ (hid ++ (32 :: (hout ++ (32 :: (fs ++ (32 :: (ft ++ [10, 0])))))))) = some false := by
    rw [hc]
    simp [headerBad, hhid, hhout, hfs, hft]
  have e1 : slice ([118, 49, 32] ++ (hid ++ (32 :: (hout ++ (32 :: (fs ++ (32 :: (ft ++ [10, 0])))))))) Gen.Cache.eidLo Gen.Cache.eidHi = some hid := by
    rw [show Gen.Cache.eidLo = 3 by decide, show Gen.Cache.eidHi = 67 by decide]
    exact slice_mid _ _ _ _ _ (by simp) (by simp [hhid])
  have e2 : slice ([118, 49, 32] ++ (hid ++ (32 :: (hout ++ (32 :: (fs ++ (32 :: (ft ++ [10, 0])))))))) Gen.Cache.eoutLo Gen.Cache.eoutHi = some hout := by
    rw [show Gen.Cache.eoutLo = 68 by decide, show Gen.Cache.eoutHi = 132 by decide,
      show ([118, 49, 32] ++ (hid ++ (32 :: (hout ++ (32 :: (fs ++ (32 :: (ft ++ [10, 0])))))))) =
        ([118, 49, 32] ++ hid ++ [32]) ++ (hout ++ (32 :: (fs ++ (32 :: (ft ++ [10, 0]))))) by simp]
    exact slice_mid _ _ _ _ _ (by simp [hhid]) (by simp [hhout])
  have e3 : slice ([118, 49, 32] ++ (hid ++ (32 :: (hout ++ (32 :: (fs ++ (32 :: (ft ++ [10, 0])))))))) Gen.Cache.esizeLo Gen.Cache.esizeHi = some fs := by
    rw [show Gen.Cache.esizeLo = 133 by decide, show Gen.Cache.esizeHi = 153 by decide,
      show ([118, 49, 32] ++ (hid ++ (32 :: (hout ++ (32 :: (fs ++ (32 :: (ft ++ [10, 0])))))))) =
        ([118, 49, 32] ++ hid ++ [32] ++ hout ++ [32]) ++ (fs ++ (32 :: (ft ++ [10, 0]))) by simp]
    exact slice_mid _ _ _ _ _ (by simp [hhid, hhout]) (by simp [hfs])
  have e4 : slice ([118, 49, 32] ++ (hid ++ (32 :: (hout ++ (32 :: (fs ++ (32 :: (ft ++ [10, 0])))))))) Gen.Cache.etimeLo Gen.Cache.etimeHi = some ft := by
    rw [show Gen.Cache.etimeLo = 154 by decide, show Gen.Cache.etimeHi = 174 by decide,
      show ([118, 49, 32] ++ (hid ++ (32 :: (hout ++ (32 :: (fs ++ (32 :: (ft ++ [10, 0])))))))) =
        ([118, 49, 32] ++ hid ++ [32] ++ hout ++ [32] ++ fs ++ [32]) ++ (ft ++ [10, 0]) by simp]
    exact slice_mid _ _ _ _ _ (by simp [hhid, hhout, hfs]) (by simp [hft])
  have hns : Gen.Cache.negSize size = false := by simp [Gen.Cache.negSize]; omega
  have hnt : Gen.Cache.negTime t = false := by simp [Gen.Cache.negTime]; omega
  unfold parseEntry
  rw [hbuf]
  simp only [show Gen.Cache.tooLong 175 = false by decide, show Gen.Cache.incomplete 175 = false by decide,
    show Gen.Cache.bufLen = 176 by decide, show Gen.Cache.parseBase = 10 by decide, show Gen.Cache.parseBits = 64 by decide,
    hh, e1, e2, e3, e4, hdid, hdout, hps, hpt, hns, hnt]
  simp


/-- `get` parses what `putIndexEntry` formats (sizes and times in `[0, 2^63)`). -/
theorem parse_fmt (id out : Hash) (size t : Int) (hs0 : 0 ≤ size) (hs1 : size < 2 ^ 63) (ht0 : 0 ≤ t) (ht1 : t < 2 ^ 63) :
    parseEntry id (fmtEntry id out size t) = .ok ⟨out, size, t⟩ := by
  rw [fmtEntry_eq]
  exact parseEntry_of_fields id out _ _ _ _ size t (Hash.hex_length id) (Hash.hex_length out)
    (decodeHash_hexEncode id) (decodeHash_hexEncode out)
    (pad20_length size hs0 (by omega)) (pad20_length t ht0 (by omega))
    (parse_pad20 size hs0 hs1) (parse_pad20 t ht0 ht1) hs0 ht0


theorem readFull_snd (data : Bytes) : (readFull data).2 = min data.length Gen.Cache.bufLen := rfl
theorem readFull_fst (data : Bytes) : (readFull data).1 =
    data.take Gen.Cache.bufLen ++ List.replicate (Gen.Cache.bufLen - min data.length Gen.Cache.bufLen) 0 := rfl

theorem parseEntry_ok {id : Hash} {data : Bytes} {e : Entry} (h : parseEntry id data = .ok e) :
    data.length = Gen.Cache.entrySize ∧
    ∃ eid eout esize etime,
      slice (readFull data).1 Gen.Cache.eidLo Gen.Cache.eidHi = some eid ∧
      slice (readFull data).1 Gen.Cache.eoutLo Gen.Cache.eoutHi = some eout ∧
      slice (readFull data).1 Gen.Cache.esizeLo Gen.Cache.esizeHi = some esize ∧
      slice (readFull data).1 Gen.Cache.etimeLo Gen.Cache.etimeHi = some etime ∧
      decodeHash eid = some (some id) ∧ decodeHash eout = some (some e.out) ∧
      parseInt Gen.Cache.parseBase Gen.Cache.parseBits (skipSpaces esize) = some e.size ∧ 0 ≤ e.size ∧
      parseInt Gen.Cache.parseBase Gen.Cache.parseBits (skipSpaces etime) = some e.time ∧ 0 ≤ e.time := by
  unfold parseEntry at h
  simp only [] at h
  split at h
  · cases h
  split at h
  · cases h
  split at h
  · cases h
  split at h
  · cases h
  rename_i h1 h2 h3 h4
  have hlen : data.length = Gen.Cache.entrySize := by
    rw [readFull_snd] at h1 h4
    simp only [Gen.Cache.tooLong, Gen.Cache.incomplete, decide_eq_true_eq] at h1 h4
    have : Gen.Cache.bufLen = Gen.Cache.entrySize + 1 := by decide
    omega
  refine ⟨hlen, ?_⟩
  split at h
  · cases h
  · cases h
  split at h
  · rename_i eid eout esize etime he1 he2 he3 he4
    split at h
    · cases h
    · cases h
    rename_i eidH hd1
    split at h
    · cases h
    rename_i hid
    split at h
    · cases h
    · cases h
    rename_i out hd2
    split at h
    · cases h
    rename_i size hp1
    split at h
    · cases h
    rename_i hn1
    split at h
    · cases h
    rename_i tm hp2
    split at h
    · cases h
    rename_i hn2
    cases h
    simp only [ne_eq, Decidable.not_not] at hid
    subst hid
    refine ⟨eid, eout, esize, etime, he1, he2, he3, he4, hd1, hd2, hp1, ?_, hp2, ?_⟩
    · simpa [Gen.Cache.negSize] using hn1
    · simpa [Gen.Cache.negTime] using hn2
  · cases h


theorem readFull_length (data : Bytes) : (readFull data).1.length = Gen.Cache.bufLen := by
  rw [readFull_fst]; simp [List.length_take]; omega

theorem headerBad_ne_none (checks : List (Nat × UInt8)) (buf : Bytes) (h : ∀ p ∈ checks, p.1 < buf.length) :
    headerBad checks buf ≠ none := by
  induction checks with
  | nil => simp [headerBad]
  | cons p rest ih =>
    obtain ⟨i, c⟩ := p
    have hi : i < buf.length := h (i, c) (by simp)
    simp only [headerBad, List.getElem?_eq_getElem hi]
    split
    · simp
    · exact ih (fun p hp => h p (by simp [hp]))

theorem slice_some (buf : Bytes) (lo hi : Nat) (h1 : lo ≤ hi) (h2 : hi ≤ buf.length) :
    ∃ s, slice buf lo hi = some s ∧ s.length = hi - lo := by
  refine ⟨(buf.take hi).drop lo, by simp [slice, h1, h2], ?_⟩
  simp [List.length_take]; omega

theorem decodeHash_ne_none (s : Bytes) (h : s.length = 2 * Gen.Cache.HashSize) : decodeHash s ≠ none := by
  simp only [decodeHash, h, ne_eq, not_true_eq_false, if_false]
  split <;> simp

/-- No index or slice expression of `get` can be out of range, whatever the file holds. -/
theorem parseEntry_ne_panic (id : Hash) (data : Bytes) : parseEntry id data ≠ .error .panic := by
  have hb := readFull_length data
  have hh := headerBad_ne_none Gen.Cache.headerChecks (readFull data).1 (by rw [hb]; decide)
  obtain ⟨eid, he1, hl1⟩ := slice_some (readFull data).1 Gen.Cache.eidLo Gen.Cache.eidHi (by decide) (by rw [hb]; decide)
  obtain ⟨eout, he2, hl2⟩ := slice_some (readFull data).1 Gen.Cache.eoutLo Gen.Cache.eoutHi (by decide) (by rw [hb]; decide)
  obtain ⟨esize, he3, _⟩ := slice_some (readFull data).1 Gen.Cache.esizeLo Gen.Cache.esizeHi (by decide) (by rw [hb]; decide)
  obtain ⟨etime, he4, _⟩ := slice_some (readFull data).1 Gen.Cache.etimeLo Gen.Cache.etimeHi (by decide) (by rw [hb]; decide)
  have hd1 := decodeHash_ne_none eid (by rw [hl1]; decide)
  have hd2 := decodeHash_ne_none eout (by rw [hl2]; decide)
  unfold parseEntry
  simp only [he1, he2, he3, he4]
  repeat' split
  all_goals first | (intro h; cases h; done) | (intro _; simp_all)

theorem decodeHash_some {s : Bytes} {h : Hash} (hd : decodeHash s = some (some h)) : hexDecode s = some h.val := by
  unfold decodeHash at hd
  split at hd
  · cases hd
  split at hd
  · cases hd
  · rename_i d hdec
    simp only [Hash.ofBytes?, Option.some.injEq] at hd
    split at hd
    · cases hd; rw [hdec]
    · cases hd

end GIV.Cache
