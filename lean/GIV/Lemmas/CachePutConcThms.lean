/-
  GIV.Lemmas.CachePutConcThms — C11: every world reachable by fault-free steps, from any number of
  processes and goroutines under any schedule, satisfies the invariant; consequences for what lookups
  return and for what is readable after a Put returned.
-/
import GIV.Lemmas.CachePutConcWorld

set_option linter.unusedSimpArgs false
set_option linter.unusedSectionVars false
set_option linter.unusedVariables false

namespace GIV.CachePut
open GIV

variable {Id Hsh : Type} [DecidableEq Id] [DecidableEq Hsh]
variable {P : Params Id Hsh} {offered : Bytes → Prop}

/-- the start of an execution: nothing has happened yet; every task is at the first program point of a
well-behaved operation, and has only well-behaved operations to do. -/
def Initial (offered : Bytes → Prop) (w : World Id Hsh) : Prop :=
  w.hist = [] ∧ ∀ tid tk, w.tasks tid = some tk →
    (∀ op, op ∈ tk.todo → GoodOp offered op) ∧
    (∀ op pc, tk.cur = some (op, pc) → GoodOp offered op ∧ pc = startPC op)

/-- all labels of a schedule are fault free. -/
def FaultFree (ls : List Label) : Prop := ∀ l, l ∈ ls → l.fault = .none

theorem winv_init {K0 K1 : Id → Bytes → Prop} {w0 : World Id Hsh} (hinv : FSInvP P offered w0.fs)
    (hi : Initial offered w0) (hik : IndexK P offered K0 w0.fs)
    (hk1 : ∀ id c, K1 id c → offered c ∧ CompleteF P w0.fs c) : WInv P offered K0 K1 w0 := by
  obtain ⟨hh, ht⟩ := hi
  refine ⟨hinv, ?_, ?_, ?_, ?_, ?_, ?_, ?_⟩
  · intro id d hd
    rcases hik id d hd with h | ⟨c, t, h1, h2, h3⟩
    · exact Or.inl h
    · exact Or.inr ⟨c, t, Or.inl h1, h2, h3⟩
  · intro id c hk
    rcases hk with hk | ⟨t, ht'⟩
    · exact hk1 id c hk
    · rw [hh] at ht'; cases ht'
  · intro tid id s out size hr; rw [hh] at hr; cases hr
  · intro tid op res hr; rw [hh] at hr; cases hr
  · intro tid tk op h1 h2; exact (ht tid tk h1).1 op h2
  · intro tid tk op pc h1 h2
    obtain ⟨hg, rfl⟩ := (ht tid tk h1).2 op pc h2
    refine ⟨hg, taskOK_start, fun g hg' => ?_⟩
    cases op <;> simp [startPC, fdOf] at hg'
  · intro t1 t2 tk1 tk2 op1 pc1 op2 pc2 g _ h1 _ c1 _ g1
    obtain ⟨_, rfl⟩ := (ht t1 tk1 h1).2 op1 pc1 c1
    cases op1 <;> simp [startPC, fdOf] at g1

theorem winv_run (hy : Hyps P offered) {K0 K1 : Id → Bytes → Prop} {ls : List Label} :
    ∀ {w0 w : World Id Hsh}, WInv P offered K0 K1 w0 → FaultFree ls → run P w0 ls = some w → WInv P offered K0 K1 w := by
  induction ls with
  | nil => intro w0 w W _ h; simp [run] at h; subst h; exact W
  | cons l ls ih =>
    intro w0 w W hf h
    simp only [run] at h
    split at h
    · simp at h
    · next w1 obs hs =>
      exact ih (winv_step hy W hs (hf l (by simp))) (fun l' hl' => hf l' (by simp [hl'])) h

/-- **concurrent_inv.** -/
theorem concurrent_inv_fs (hy : Hyps P offered) {w0 w : World Id Hsh} {ls : List Label}
    (hinv : FSInvP P offered w0.fs) (hi : Initial offered w0) (hf : FaultFree ls) (hr : run P w0 ls = some w) :
    FSInvP P offered w.fs := by
  have W0 : WInv P offered (fun _ c => offered c) (fun _ _ => False) w0 :=
    winv_init hinv hi (fun id d hd => by
      obtain ⟨i, nd, h1, h2, rfl⟩ := content_inv hinv.1 hd
      rcases hinv.2 _ _ _ (by simp) h1 h2 with h | ⟨c, t, hc, h⟩
      · exact Or.inl h
      · exact Or.inr ⟨c, t, hc, hc, h⟩) (fun _ _ h => h.elim)
  exact (winv_run hy W0 hf hr).fs

/-- an entry present before the execution started. -/
def InitialEntry (P : Params Id Hsh) (offered : Bytes → Prop) (fs0 : FS Id Hsh) (id : Id) (c : Bytes) : Prop :=
  offered c ∧ ∃ t, fs0.content (.index id) = some (P.enc id (P.H c) c.length t)

theorem winv_of_initial (hy : Hyps P offered) {w0 w : World Id Hsh} {ls : List Label}
    (hinv : FSInvP P offered w0.fs) (hi : Initial offered w0) (hf : FaultFree ls) (hr : run P w0 ls = some w) :
    WInv P offered (InitialEntry P offered w0.fs) (fun _ _ => False) w := by
  have W0 : WInv P offered (InitialEntry P offered w0.fs) (fun _ _ => False) w0 :=
    winv_init hinv hi (fun id d hd => by
      obtain ⟨i, nd, h1, h2, rfl⟩ := content_inv hinv.1 hd
      rcases hinv.2 _ _ _ (by simp) h1 h2 with h | ⟨c, t, hc, h⟩
      · exact Or.inl h
      · exact Or.inr ⟨c, t, ⟨hc, t, by rw [hd, h]⟩, hc, h⟩) (fun _ _ h => h.elim)
  exact winv_run hy W0 hf hr

/-- **lookup_returns_some_put**: whatever a lookup of `id` reports in a fault-free concurrent execution —
an entry, a file, bytes — belongs to a content that was stored for that very `id`: by a Put of this
execution that has executed its index write (ghost event `indexed`), or before the execution started;
with matching hash and size, and complete bytes. -/
theorem lookup_returns_stored (hy : Hyps P offered) {w0 w : World Id Hsh} {ls : List Label}
    (hinv : FSInvP P offered w0.fs) (hi : Initial offered w0) (hf : FaultFree ls) (hr : run P w0 ls = some w)
    {tid : Nat} {op : Op Id} {res : Result Hsh} (hop : op.isGet = true) (hret : Ev.ret tid op res ∈ w.hist) :
    ResK P offered (Known (InitialEntry P offered w0.fs) w.hist) op.id res :=
  (winv_of_initial hy hinv hi hf hr).rl tid op res hret hop

/-- **once a Put returned nil, its id is readable** (at any later point of a fault-free execution, in
particular after all writers have finished): the index file of the id holds a whole entry of a content
stored for this id, and — when the entries present at the start had complete outputs (`hk1`), e.g. an
empty cache — the output of that content is completely there. -/
theorem put_ok_readable (hy : Hyps P offered) {K0 : Id → Bytes → Prop} {w0 w : World Id Hsh} {ls : List Label}
    (W0 : WInv P offered K0 K0 w0) (hf : FaultFree ls) (hr : run P w0 ls = some w)
    {tid : Nat} {id : Id} {s : Src} {out : Hsh} {size : Nat}
    (hret : Ev.ret tid (.put id s) (.putOk out size) ∈ w.hist) :
    ∃ c t, Known K0 w.hist id c ∧ offered c ∧
      w.fs.content (.index id) = some (P.enc id (P.H c) c.length t) ∧
      P.parse id (P.enc id (P.H c) c.length t) = some ⟨P.H c, c.length⟩ ∧
      w.fs.content (.data (P.H c)) = some c := by
  have W := winv_run hy W0 hf hr
  obtain ⟨i, nd, h1, h2, h3⟩ := W.rp _ _ _ _ _ hret
  have hcont : w.fs.content (.index id) = some nd.data := content_of' h1 h2
  rcases W.ik id nd.data hcont with h0 | ⟨c, t, k1, k2, k3⟩
  · rw [h0] at h3; simp [Gen.CachePut.entrySize] at h3
  · obtain ⟨_, j, nd', g1, g2, g3⟩ := W.kc id c k1
    exact ⟨c, t, k1, k2, by rw [hcont, k3], hy.parseEnc id c t k2, by rw [content_of' g1 g2, g3]⟩

end GIV.CachePut
