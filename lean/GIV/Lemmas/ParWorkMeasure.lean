/-
  GIV.Lemmas.ParWorkMeasure — the termination measure of par.Work and its strict decrease.
-/
import GIV.Lemmas.ParWorkTerm
namespace GIV.ParWork
open GIV.Gen.ParWork

def Lc (c : Cfg) : Nat := 6 + 2 * c.n
def fI (c : Cfg) (x : Nat) : Nat := 3 * (c.children x).length + 1 + Lc c

def phiResume (c : Cfg) : Cont → Nat
  | .main j => 3 * (c.init.length - (j + 1)) + c.n + Lc c + 1
  | .inF x k => 3 * ((c.children x).length - (k + 1)) + 1 + Lc c

/-- an upper bound on the number of steps a task at this program point can still take on its own -/
def phi (c : Cfg) : Pc → Nat
  | .absent => 3 * c.init.length + c.n + Lc c + 3
  | .init => 3 * c.init.length + c.n + Lc c + 2
  | .mainAdd j => 3 * (c.init.length - j) + c.n + Lc c + 1
  | .panicNext => 1
  | .spawn i => (c.n - i) + Lc c
  | .lockTop => Lc c
  | .wait => 5 + 2 * c.n
  | .wake => 4 + 2 * c.n
  | .bcast => 4 + 2 * c.n
  | .unlockRet => 3
  | .returned => 2
  | .retd => 1
  | .exited => 0
  | .rand => 0
  | .unlockRun x => fI c x + 2
  | .fEnter x => fI c x + 1
  | .inF x k => 3 * ((c.children x).length - k) + 1 + Lc c
  | .addSignal k => phiResume c k + 4
  | .addUnlock k => phiResume c k + 1

/-- weight of a queued item / of an item not added yet -/
def wI (c : Cfg) (x : Nat) : Nat := fI c x + 3
def uI (c : Cfg) (x : Nat) : Nat := fI c x + 5

/-- the termination measure: work left in the tasks + 2 per pending wake-up + work for queued items
+ work for items of `U` that were never added -/
def measure (c : Cfg) (U : List Nat) (s : State) : Nat :=
  psum (phi c) s.pc c.n + 2 * s.woken.length + tw (wI c) s.todo + uaw (uI c) s.added U

theorem getElem?_lt {l : List Nat} {k x : Nat} (h : l[k]? = some x) : k < l.length := by
  apply Classical.byContradiction
  intro hk
  rw [List.getElem?_eq_none (by omega)] at h; simp at h

theorem getElem?_ge {l : List Nat} {k : Nat} (h : l[k]? = none) : l.length ≤ k := by
  exact List.getElem?_eq_none_iff.mp h

syntax "mdec " term " with " ident ident ident : tactic
macro_rules
  | `(tactic| mdec $q with $hps $ht $hpc) => `(tactic|
    (have hq := $hps $q $ht; rw [$hpc:ident] at hq; simp only [phi, phiResume, fI, Lc, wI, uI, resume] at hq
     simp only [measure, State.setPc, tw_append, tw, wI, uI, fI, Lc, List.length_cons, resume] at *
     omega))

theorem measure_decreases {c : Cfg} (hn : 1 ≤ c.n) {U : List Nat} (cl : Closed c U) {s s' : State} {t : Nat} {e : Event}
    (inv : Inv c s) (iT : InvT c U s) (h : Step c s t e s') (hsp : e ≠ .spurious) :
    measure c U s' < measure c U s := by
  have htn : s.pc t ≠ .absent → t < c.n := inv.bound t
  have hps := fun q ht => psum_upd (phi c) s.pc t q c.n ht
  cases h with
  | start hpc =>
    have ht : t < c.n := htn (by rw [hpc]; simp)
    split
    · mdec (.mainAdd 0) with hps ht hpc
    · mdec .lockTop with hps ht hpc
  | @addLock p k x hpc hcall ho =>
    have ht : t < c.n := htn (by rw [hpc]; cases hcall <;> simp)
    obtain ⟨hxU, _, _⟩ := addCall_mem cl iT hpc hcall
    rw [addBody_eq]
    cases hcall with
    | @main j x hj =>
      have hjl := getElem?_lt hj
      split
      · mdec (.addUnlock (.main j)) with hps ht hpc
      · rename_i hna
        have hu := uaw_add (uI c) s.added x U hxU hna
        split
        · mdec (.addSignal (.main j)) with hps ht hpc
        · mdec (.addUnlock (.main j)) with hps ht hpc
    | @inF y i x hj =>
      have hjl := getElem?_lt hj
      split
      · mdec (.addUnlock (.inF y i)) with hps ht hpc
      · rename_i hna
        have hu := uaw_add (uI c) s.added x U hxU hna
        split
        · mdec (.addSignal (.inF y i)) with hps ht hpc
        · mdec (.addUnlock (.inF y i)) with hps ht hpc
  | @doCall j hpc hj =>
    have ht : t < c.n := htn (by rw [hpc]; simp)
    have hjl := getElem?_ge hj
    have hnp : ¬ c.n < 1 := by omega
    simp only [hnp, if_false, afterSpawn_eq]
    split
    · mdec (.spawn 1) with hps ht hpc
    · mdec .lockTop with hps ht hpc
  | panic hpc => exact absurd hpc (inv.nopanic t)
  | @go i hpc =>
    have ht : t < c.n := htn (by rw [hpc]; simp)
    have hi : i < c.n := inv.spawnLt t i hpc
    have habs : s.pc i = .absent := inv.spawnAbs t i hpc i (Nat.le_refl i)
    have hit : t ≠ i := by intro e; rw [e, habs] at hpc; simp at hpc
    have h1 := psum_upd (phi c) s.pc i .init c.n hi
    rw [habs] at h1
    simp only [afterSpawn_eq]
    split
    · have h2 := psum_upd (phi c) (upd s.pc i .init) t (.spawn (i + 1)) c.n ht
      simp only [upd_apply', hit, if_false, hpc] at h2
      simp only [phi, Lc] at h1 h2
      simp only [measure, State.setPc]
      omega
    · have h2 := psum_upd (phi c) (upd s.pc i .init) t .lockTop c.n ht
      simp only [upd_apply', hit, if_false, hpc] at h2
      simp only [phi, Lc] at h1 h2
      simp only [measure, State.setPc]
      omega
  | lockTop hpc ho =>
    have ht : t < c.n := htn (by rw [hpc]; simp)
    rw [loopHead_eq]
    split
    · split
      · mdec .bcast with hps ht hpc
      · mdec .wait with hps ht hpc
    · mdec .rand with hps ht hpc
  | wait hpc ho =>
    have ht : t < c.n := htn (by rw [hpc]; simp)
    mdec .wake with hps ht hpc
  | wake hpc hw ho =>
    have ht : t < c.n := htn (by rw [hpc]; simp)
    have hl : (s.woken.erase t).length + 1 = s.woken.length := by
      rw [List.length_erase_of_mem hw]
      have : 0 < s.woken.length := List.length_pos_of_mem hw
      omega
    rw [loopHead_eq]
    split
    · split
      · mdec .bcast with hps ht hpc
      · mdec .wait with hps ht hpc
    · mdec .rand with hps ht hpc
  | spurious hpc hw => exact absurd rfl hsp
  | bcast hpc =>
    have ht : t < c.n := htn (by rw [hpc]; simp)
    have hlen := iT.len
    have hle := cnt_le Pc.isWake s.pc c.n
    have hl : (s.waiters ++ s.woken).length = s.waiters.length + s.woken.length := List.length_append
    mdec .unlockRet with hps ht hpc
  | unlockRet hpc ho =>
    have ht : t < c.n := htn (by rw [hpc]; simp)
    mdec .returned with hps ht hpc
  | doReturn hpc ht0 =>
    have ht : t < c.n := htn (by rw [hpc]; simp)
    mdec .retd with hps ht hpc
  | exitRunner hpc ht0 =>
    have ht : t < c.n := htn (by rw [hpc]; simp)
    mdec .exited with hps ht hpc
  | exitMain hpc =>
    have ht : t < c.n := htn (by rw [hpc]; simp)
    mdec .exited with hps ht hpc
  | @rand k x hpc hx =>
    have ht : t < c.n := htn (by rw [hpc]; simp)
    have htw := tw_swapRemove (wI c) s.todo k x hx
    mdec (.unlockRun x) with hps ht hpc
  | @unlockRun x hpc ho =>
    have ht : t < c.n := htn (by rw [hpc]; simp)
    mdec (.fEnter x) with hps ht hpc
  | @fEnter x hpc =>
    have ht : t < c.n := htn (by rw [hpc]; simp)
    mdec (.inF x 0) with hps ht hpc
  | @fExit x k hpc hk =>
    have ht : t < c.n := htn (by rw [hpc]; simp)
    have hkl := getElem?_ge hk
    mdec .lockTop with hps ht hpc
  | @signalNone k hpc hw =>
    have ht : t < c.n := htn (by rw [hpc]; simp)
    mdec (.addUnlock k) with hps ht hpc
  | @signalSome k w rest hpc hw =>
    have ht : t < c.n := htn (by rw [hpc]; simp)
    mdec (.addUnlock k) with hps ht hpc
  | @addUnlock k hpc ho =>
    have ht : t < c.n := htn (by rw [hpc]; simp)
    cases k with
    | main j => mdec (.mainAdd (j + 1)) with hps ht hpc
    | inF y i => mdec (.inF y (i + 1)) with hps ht hpc

end GIV.ParWork
