/-
  Lemmas about the `!x` case-escaping codec of golang.org/x/mod/module as modelled in
  GIV.Model.Proxy: `escapeString` and `unescapeString` are mutually inverse partial maps.
-/
import GIV.Model.Proxy
namespace GIV.Proxy
open GIV

theorem forall_uint8 (P : UInt8 → Prop) (h : ∀ n : Fin 256, P (UInt8.ofFin n)) : ∀ c, P c := by
  intro c
  have := h c.toFin
  simpa using this

theorem lower_facts : ∀ c : UInt8, isLower c = true →
    (isUpper (c - 32) = true ∧ c - 32 + 32 = c ∧ c - 32 ≠ 33 ∧ c - 32 < 128) := by
  apply forall_uint8
  decide +kernel

theorem upper_facts : ∀ c : UInt8, isUpper c = true →
    (isLower (c + 32) = true ∧ c + 32 - 32 = c ∧ c + 32 < 128 ∧ c ≠ 33 ∧ c < 128 ∧ c + 32 ≠ 33 ∧
      isUpper (c + 32) = false ∧ isLower c = false) := by
  apply forall_uint8
  decide +kernel

/-- the bytes `escapeString` accepts -/
def Plain (s : Bytes) : Prop := ∀ c ∈ s, c ≠ 33 ∧ c < 128

theorem escapeString_eq_some {s e : Bytes} : escapeString s = some e ↔ Plain s ∧ e = s.flatMap escapeByte := by
  unfold escapeString Plain
  by_cases h : s.any (fun c => c = 33 || c ≥ 128) = true
  · simp only [h, if_true]
    constructor
    · intro h'; cases h'
    · rintro ⟨hp, _⟩
      rw [List.any_eq_true] at h
      obtain ⟨c, hc, hc'⟩ := h
      have := hp c hc
      simp only [Bool.or_eq_true, decide_eq_true_eq] at hc'
      rcases hc' with hc' | hc'
      · exact absurd hc' this.1
      · exact absurd this.2 (by simpa [UInt8.not_lt] using hc')
  · simp only [h]
    constructor
    · intro h'
      simp only [Bool.false_eq_true, if_false, Option.some.injEq] at h'
      refine ⟨?_, h'.symm⟩
      intro c hc
      have h2 : ¬ (c = 33 ∨ c ≥ 128) := by
        intro hcc
        apply h
        rw [List.any_eq_true]
        exact ⟨c, hc, by simpa using hcc⟩
      constructor
      · intro h3; exact h2 (Or.inl h3)
      · exact UInt8.not_le.mp (fun h3 => h2 (Or.inr h3))
    · rintro ⟨_, rfl⟩
      simp

theorem unescapeAux_escapeByte (c : UInt8) (rest : Bytes) (h1 : c ≠ 33) (h2 : c < 128) :
    unescapeAux false (escapeByte c ++ rest) = (unescapeAux false rest).map (fun r => c :: r) := by
  unfold escapeByte
  by_cases hu : isUpper c = true
  · obtain ⟨hl, hsub, hlt, _, _, hne, _, _⟩ := upper_facts c hu
    have h33 : ¬ ((33 : UInt8) ≥ 128) := by decide
    have hge : ¬ (c + 32 ≥ 128) := UInt8.not_le.mpr hlt
    simp only [hu, if_true, List.cons_append, List.nil_append]
    rw [unescapeAux]
    simp only [h33, if_false, Bool.false_eq_true]
    rw [unescapeAux]
    simp only [hge, if_false, if_true, hl, hsub]
  · have hge : ¬ (c ≥ 128) := UInt8.not_le.mpr h2
    simp only [hu, Bool.false_eq_true, if_false, List.cons_append, List.nil_append]
    rw [unescapeAux]
    simp only [hge, if_false, Bool.false_eq_true, h1, hu]

theorem unescapeAux_flatMap (s : Bytes) (h : Plain s) : unescapeAux false (s.flatMap escapeByte) = some s := by
  induction s with
  | nil => simp [unescapeAux]
  | cons c s ih =>
    have hc := h c (List.mem_cons_self ..)
    have hs : Plain s := fun d hd => h d (List.mem_cons_of_mem _ hd)
    rw [List.flatMap_cons, unescapeAux_escapeByte c _ hc.1 hc.2, ih hs]
    rfl

/-- `unescapeString (escapeString s) = s` -/
theorem unescapeString_escapeString {s e : Bytes} (h : escapeString s = some e) : unescapeString e = some s := by
  obtain ⟨hp, rfl⟩ := escapeString_eq_some.mp h
  exact unescapeAux_flatMap s hp

/-- what `unescapeAux` returns, for both states of the `bang` flag -/
theorem unescapeAux_inv (e : Bytes) :
    (∀ s, unescapeAux false e = some s → Plain s ∧ s.flatMap escapeByte = e) ∧
    (∀ s, unescapeAux true e = some s → ∃ c s', s = c :: s' ∧ isUpper c = true ∧ Plain s' ∧
        e = (c + 32) :: s'.flatMap escapeByte) := by
  induction e with
  | nil =>
    constructor
    · intro s hs
      simp only [unescapeAux, Bool.false_eq_true, if_false, Option.some.injEq] at hs
      subst hs
      exact ⟨(fun _ h => nomatch h), rfl⟩
    · intro s hs
      simp [unescapeAux] at hs
  | cons c rest ih =>
    constructor
    · intro s hs
      rw [unescapeAux] at hs
      by_cases hge : c ≥ 128
      · simp [hge] at hs
      · simp only [hge, if_false, Bool.false_eq_true] at hs
        by_cases h33 : c = 33
        · simp only [h33, if_true] at hs
          obtain ⟨u, s', rfl, hu, hp, hrest⟩ := ih.2 s hs
          obtain ⟨_, _, _, hu33, hu128, _, _, _⟩ := upper_facts u hu
          refine ⟨?_, ?_⟩
          · intro d hd
            rcases List.mem_cons.mp hd with rfl | hd
            · exact ⟨hu33, hu128⟩
            · exact hp d hd
          · rw [List.flatMap_cons, hrest, h33]
            simp [escapeByte, hu]
        · simp only [h33, if_false] at hs
          by_cases hu : isUpper c = true
          · simp [hu] at hs
          · simp only [hu, Bool.false_eq_true, if_false, Option.map_eq_some_iff] at hs
            obtain ⟨r, hr, rfl⟩ := hs
            obtain ⟨hp, hfm⟩ := ih.1 r hr
            refine ⟨?_, ?_⟩
            · intro d hd
              rcases List.mem_cons.mp hd with rfl | hd
              · exact ⟨h33, UInt8.not_le.mp hge⟩
              · exact hp d hd
            · rw [List.flatMap_cons, hfm]
              simp [escapeByte, hu]
    · intro s hs
      rw [unescapeAux] at hs
      by_cases hge : c ≥ 128
      · simp [hge] at hs
      · simp only [hge, if_false, if_true] at hs
        by_cases hl : isLower c = true
        · simp only [hl, if_true, Option.map_eq_some_iff] at hs
          obtain ⟨r, hr, rfl⟩ := hs
          obtain ⟨hp, hfm⟩ := ih.1 r hr
          obtain ⟨hu, hadd, _, _⟩ := lower_facts c hl
          exact ⟨c - 32, r, rfl, hu, hp, by rw [hadd, hfm]⟩
        · simp [hl] at hs

/-- `escapeString (unescapeString e) = e` -/
theorem escapeString_unescapeString {e s : Bytes} (h : unescapeString e = some s) : escapeString s = some e := by
  obtain ⟨hp, hfm⟩ := (unescapeAux_inv e).1 s h
  exact escapeString_eq_some.mpr ⟨hp, hfm.symm⟩

theorem unescapeString_plain {e s : Bytes} (h : unescapeString e = some s) : Plain s :=
  ((unescapeAux_inv e).1 s h).1

theorem escapeString_injective {s t e : Bytes} (hs : escapeString s = some e) (ht : escapeString t = some e) : s = t := by
  have h1 := unescapeString_escapeString hs
  have h2 := unescapeString_escapeString ht
  rw [h1] at h2
  exact Option.some.inj h2

/-! ### which bytes an escaped string contains -/

/-- a byte that is neither '!' nor a letter occurs in the escaped string iff it occurs in the original -/
theorem mem_flatMap_escapeByte (b : UInt8) (hb : b ≠ 33) (hl : isLower b = false) (hu : isUpper b = false) (s : Bytes) :
    b ∈ s.flatMap escapeByte ↔ b ∈ s := by
  induction s with
  | nil => simp
  | cons c s ih =>
    rw [List.flatMap_cons, List.mem_append, ih, List.mem_cons]
    constructor
    · rintro (h | h)
      · unfold escapeByte at h
        by_cases hc : isUpper c = true
        · simp only [hc, if_true, List.mem_cons, List.not_mem_nil, or_false] at h
          rcases h with h | h
          · exact absurd h hb
          · have := (upper_facts c hc).1
            rw [← h] at this
            rw [this] at hl
            cases hl
        · simp only [hc, Bool.false_eq_true, if_false, List.mem_cons, List.not_mem_nil, or_false] at h
          exact Or.inl h
      · exact Or.inr h
    · rintro (h | h)
      · left
        subst h
        simp [escapeByte, hu]
      · exact Or.inr h

theorem mem_escapeString {s e : Bytes} (h : escapeString s = some e) (b : UInt8) (hb : b ≠ 33)
    (hl : isLower b = false) (hu : isUpper b = false) : b ∈ e ↔ b ∈ s := by
  obtain ⟨_, rfl⟩ := escapeString_eq_some.mp h
  exact mem_flatMap_escapeByte b hb hl hu s

/-- escaping keeps a leading lower-case letter (here: the `v` of a version) -/
theorem head_escapeString {s e : Bytes} (h : escapeString s = some e) (b : UInt8) (hl : isLower b = true) :
    e.head? = some b ↔ s.head? = some b := by
  obtain ⟨_, rfl⟩ := escapeString_eq_some.mp h
  have hbu : isUpper b = false := by
    revert hl; revert b; apply forall_uint8; decide +kernel
  have hb33 : b ≠ 33 := by
    intro h'; subst h'; revert hl; decide
  cases s with
  | nil => simp
  | cons c s =>
    rw [List.flatMap_cons]
    unfold escapeByte
    by_cases hc : isUpper c = true
    · simp only [hc, if_true, List.cons_append, List.head?_cons, Option.some.injEq]
      constructor
      · intro h'; exact absurd h'.symm hb33
      · intro h'; subst h'; rw [hc] at hbu; cases hbu
    · simp [hc]

end GIV.Proxy
