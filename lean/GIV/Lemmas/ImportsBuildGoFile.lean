/-
  GIV.Lemmas.ImportsBuildGoFile — translated MatchFile (GIV.Gen.ImportsBuildGo) = model matchFile.
-/
import GIV.Lemmas.ImportsBuildGo

namespace GIV.Go.Build
open GIV GIV.GoLib GIV.Build GIV.Gen.ImportsBuild

variable (isLetter isDigit : Int → Bool)

theorem go_MatchFile_eq (hU : UnicodeOK isLetter isDigit) (name : Bytes) (tags : Tags) :
    GIV.Go.Build.MatchFile isLetter isDigit name tags
      = some (GIV.Build.matchFile (UOf isLetter isDigit) name tags) := by
  have g1 : fileStarFirst = true := rfl
  have g2 : fileCutsDotAndPrefix = true := rfl
  have g3 : fileStripsTest = true := rfl
  have g4 : fileRules = [1, 2, 3] := rfl
  have g5 : fileStar = [42] := rfl
  have g6 : testTok = [116, 101, 115, 116] := rfl
  simp only [GIV.Go.Build.MatchFile, GIV.Build.matchFile, g1, g4, g5, Bool.true_and]
  cases hstar : tags [42] with
  | true => simp
  | false =>
  simp only [Bool.false_eq_true, if_false, fileSegsRev, g2, g3, g6, if_true]
  -- the stem: name cut at the first '.'
  have hstem : ∃ stem, stem = (cutAt 46 name).1 ∧
      ((GoLib.index name ([46] : Bytes) != -1) = true → GoLib.slice? name 0 (GoLib.index name ([46] : Bytes)) = some stem) ∧
      ((GoLib.index name ([46] : Bytes) != -1) = false → name = stem) := by
    cases hc : cutAt 46 name with
    | mk l r =>
      cases r with
      | some r =>
        obtain ⟨hi, hs⟩ := (index_single_cutAt 46 name).1 l r hc
        have hl : l.length ≤ name.length := by rw [hs]; simp
        refine ⟨l, rfl, ?_, ?_⟩
        · intro _; rw [hi, slice_take _ _ hl, hs]; simp
        · intro h; rw [hi] at h; simp [bne] at h
      | none =>
        obtain ⟨hi, hs⟩ := (index_single_cutAt 46 name).2 l hc
        refine ⟨l, rfl, ?_, ?_⟩
        · intro h; rw [hi] at h; simp at h
        · intro _; exact hs.symm
  obtain ⟨stem, hst, hA, hB⟩ := hstem
  rw [← hst]
  have hbind : ∀ (k : Bytes → Option Bool), ((if (GoLib.index name ([46] : Bytes) != -1) = true then
        (GoLib.slice? name 0 (GoLib.index name ([46] : Bytes)) >>= fun t1 => pure t1)
      else pure name) >>= k) = k stem := by
    intro k
    cases hb : (GoLib.index name ([46] : Bytes) != -1)
    · simp [hB hb]
    · simp [hA hb]
  rw [hbind]
  clear hbind hA hB hst
  cases hc : cutAt 95 stem with
  | mk pre r =>
    cases r with
    | none =>
      obtain ⟨hi, hs⟩ := (index_single_cutAt 95 stem).2 pre hc
      rw [hi]; simp
    | some after =>
      obtain ⟨hi, hs⟩ := (index_single_cutAt 95 stem).1 pre after hc
      have hlt : decide ((pre.length : Int) < 0) = false := by simp
      have hl : pre.length ≤ stem.length := by rw [hs]; simp
      have hd : stem.drop pre.length = 95 :: after := by rw [hs]; simp
      rw [hi, hlt, slice_drop _ _ hl, hd]
      simp only [Bool.false_eq_true, if_false, Option.bind_eq_bind, Option.bind_some]
      have hne := splitOn_ne_nil 95 (95 :: after)
      generalize splitOn 95 (95 :: after) = L at hne
      rcases List.eq_nil_or_concat L with rfl | ⟨xs, last, rfl⟩
      · exact absurd rfl hne
      · have e : xs.concat last = xs ++ [last] := by simp
        rw [e]
        have hpos : decide (GoLib.len (xs ++ [last]) > 0) = true := by simp [GoLib.len]
        simp only [hpos, if_true, idx_last1, Option.bind_some, List.reverse_append, List.reverse_cons,
          List.reverse_nil, List.nil_append, List.singleton_append, Option.pure_def]
        by_cases ht : last = [116, 101, 115, 116]
        · subst ht
          simp only [beq_self_eq_true, if_true, slice_init, Option.bind_some]
          have := rules_eq isLetter isDigit hU tags xs
          simpa using this
        · have hb : (last == ([116, 101, 115, 116] : Bytes)) = false := by simp [ht]
          simp only [hb, Bool.false_eq_true, if_false, Option.bind_some, ht]
          have := rules_eq isLetter isDigit hU tags (xs ++ [last])
          simpa using this

end GIV.Go.Build
