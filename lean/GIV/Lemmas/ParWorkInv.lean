/-
  GIV.Lemmas.ParWorkInv — the safety invariant of the par.Work transition system and its preservation.
-/
import GIV.Lemmas.ParWorkStep
namespace GIV.ParWork
open GIV.Gen.ParWork

/-- counted in `w.waiting`: incremented it and did not (yet) decrement it again -/
def Pc.inW : Pc → Bool
  | .wait | .wake | .bcast | .unlockRet | .returned | .retd | .exited => true
  | _ => false

/-- has seen `waiting == running` -/
def Pc.isDone : Pc → Bool
  | .bcast | .unlockRet | .returned | .retd | .exited => true
  | _ => false

/-- removed `x` from todo, has not called f on it yet -/
def Pc.holds (x : Item) : Pc → Bool
  | .unlockRun y => y == x
  | .fEnter y => y == x
  | _ => false

/-- program points of the main task before `Do` -/
def Pc.preDo : Pc → Bool
  | .absent | .init | .mainAdd _ | .addSignal (.main _) | .addUnlock (.main _) => true
  | _ => false

/-- program points only the main task (task 0) can be at -/
def Pc.mainOnly : Pc → Bool
  | .mainAdd _ | .spawn _ | .panicNext | .retd | .addSignal (.main _) | .addUnlock (.main _) => true
  | _ => false

structure Inv (c : Cfg) (s : State) : Prop where
  bound : ∀ i : Nat, s.pc i ≠ .absent → i < c.n
  nopanic : ∀ i : Nat, s.pc i ≠ .panicNext
  spawnLt : ∀ i j : Nat, s.pc i = .spawn j → j < c.n
  waitingEq : s.waiting = cnt Pc.inW s.pc c.n
  mainOnly : ∀ i : Nat, (s.pc i).mainOnly = true → i = 0
  spawnAbs : ∀ i j : Nat, s.pc i = .spawn j → ∀ k : Nat, j ≤ k → s.pc k = .absent
  pre : (s.pc 0).preDo = true → ∀ i : Nat, i ≠ 0 → s.pc i = .absent
  run : (s.pc 0).preDo = false → s.running = c.n
  doneAll : ∀ d : Nat, (s.pc d).isDone = true →
    s.todo = [] ∧ s.waiting = s.running ∧ ∀ i : Nat, i < c.n → (s.pc i).inW = true
  items : ∀ x : Nat, s.todo.count x + cnt (Pc.holds x) s.pc c.n + s.calls.count x = if x ∈ s.added then 1 else 0

theorem inv_init (c : Cfg) (hn : 1 ≤ c.n) : Inv c init0 where
  bound := by intro i; simp only [init0]; split <;> simp_all <;> omega
  nopanic := by intro i; simp only [init0]; split <;> simp
  spawnLt := by intro i j; simp only [init0]; split <;> simp
  waitingEq := by
    simp only [init0]
    rw [cnt_eq_zero]; rfl
    intro i _; split <;> rfl
  mainOnly := by intro i; simp only [init0]; split <;> simp [Pc.mainOnly]
  spawnAbs := by intro i j; simp only [init0]; split <;> simp
  pre := by intro _ i hi; simp [init0, hi]
  run := by simp [init0, Pc.preDo]
  doneAll := by intro d; simp only [init0]; split <;> simp [Pc.isDone]
  items := by
    intro x
    simp only [init0, List.count_nil, List.not_mem_nil, if_false]
    rw [cnt_eq_zero]
    intro i _; split <;> rfl

/-- a step of task `t` between two program points outside the waiting classes (the bookkeeping of
items and `running` is supplied by the caller) -/
theorem inv_simple_gen {c : Cfg} {s s1 : State} {t : Nat} {p p' : Pc} (inv : Inv c s)
    (hpc : s.pc t = p) (hp : p ≠ .absent) (hW : p.inW = false) (hW' : p'.inW = false)
    (hpan : p' ≠ .panicNext) (hsp : ∀ j, p' = .spawn j → t = 0 ∧ j < c.n ∧ ∀ k : Nat, j ≤ k → s.pc k = .absent)
    (hpre : p'.preDo = true → p.preDo = true) (hmo : p'.mainOnly = true → t = 0)
    (h3 : s1.waiting = s.waiting)
    (hrun : (upd s.pc t p' 0).preDo = false → s1.running = c.n)
    (hitems : ∀ x : Nat, s1.todo.count x + cnt (Pc.holds x) (upd s.pc t p') c.n + s1.calls.count x = if x ∈ s1.added then 1 else 0)
    (h6 : s1.pc = upd s.pc t p') : Inv c s1 := by
  have ht : t < c.n := inv.bound t (by rw [hpc]; exact hp)
  have hD' : p'.isDone = false := by cases p' <;> simp_all [Pc.inW, Pc.isDone]
  refine ⟨?_, ?_, ?_, ?_, ?_, ?_, ?_, ?_, ?_, ?_⟩
  · intro i; rw [h6]; simp only [upd]; split
    · intro _; subst i; exact ht
    · exact inv.bound i
  · intro i; rw [h6]; simp only [upd]; split
    · exact hpan
    · exact inv.nopanic i
  · intro i j; rw [h6]; simp only [upd]; split
    · intro h; exact (hsp j h).2.1
    · exact inv.spawnLt i j
  · rw [h3, h6, cnt_upd_same _ _ _ _ _ (by rw [hpc, hW, hW']), inv.waitingEq]
  · intro i; rw [h6]; simp only [upd]; split
    · rename_i h; subst h; exact hmo
    · exact inv.mainOnly i
  · intro i j; rw [h6]; simp only [upd]; split
    · intro h k hk
      obtain ⟨ht0, _, habs⟩ := hsp j h
      split
      · rename_i hkt; subst hkt; exact absurd (habs k hk) (by rw [hpc]; exact hp)
      · exact habs k hk
    · intro h k hk; split
      · rename_i hkt; subst hkt
        exact absurd (inv.spawnAbs i j h k hk) (by rw [hpc]; exact hp)
      · exact inv.spawnAbs i j h k hk
  · rw [h6]; simp only [upd]
    by_cases ht0 : t = 0
    · subst ht0; simp only [if_true]
      intro hp' i hi; simp only [show ¬ (i = 0) from hi, if_false]
      exact inv.pre (by rw [hpc]; exact hpre hp') i hi
    · simp only [show ¬ (0 = t) from fun h => ht0 h.symm, if_false]
      intro h0
      exact absurd (inv.pre h0 t ht0) (by rw [hpc]; exact hp)
  · rw [h6]; exact hrun
  · intro d; rw [h6]; simp only [upd]; split
    · rw [hD']; intro h; exact absurd h (by simp)
    · intro hd
      have := (inv.doneAll d hd).2.2 t ht
      rw [hpc, hW] at this; exact absurd this (by simp)
  · intro x; rw [h6]; exact hitems x

theorem inv_simple {c : Cfg} {s s1 : State} {t : Nat} {p p' : Pc} (inv : Inv c s)
    (hpc : s.pc t = p) (hp : p ≠ .absent) (hW : p.inW = false) (hW' : p'.inW = false)
    (hh : ∀ x, p.holds x = p'.holds x) (hpan : p' ≠ .panicNext) (hsp : ∀ j, p' ≠ .spawn j)
    (hpre : p.preDo = p'.preDo) (hmo : p'.mainOnly = true → t = 0)
    (h1 : s1.added = s.added) (h2 : s1.todo = s.todo) (h3 : s1.waiting = s.waiting) (h4 : s1.running = s.running)
    (h5 : s1.calls = s.calls) (h6 : s1.pc = upd s.pc t p') : Inv c s1 := by
  apply inv_simple_gen inv hpc hp hW hW' hpan (fun j h => absurd h (hsp j)) (by rw [hpre]; exact id) hmo h3 _ _ h6
  · rw [h4]; simp only [upd]
    by_cases ht0 : t = 0
    · subst ht0; simp only [if_true]
      intro hp'; exact inv.run (by rw [hpc, hpre]; exact hp')
    · simp only [show ¬ (0 = t) from fun h => ht0 h.symm, if_false]
      exact inv.run
  · intro x
    rw [h1, h2, h5, cnt_upd_same _ _ _ _ _ (by rw [hpc]; exact hh x)]
    exact inv.items x

/-- a step that moves `t` inside the waiting classes, never out of the done class -/
theorem inv_wstep {c : Cfg} {s s1 : State} {t : Nat} {p p' : Pc} (inv : Inv c s)
    (hpc : s.pc t = p) (hW : p.inW = true) (hW' : p'.inW = true) (hD : p'.isDone = true → p.isDone = true)
    (hmo : p'.mainOnly = true → t = 0)
    (h1 : s1.added = s.added) (h2 : s1.todo = s.todo) (h3 : s1.waiting = s.waiting) (h4 : s1.running = s.running)
    (h5 : s1.calls = s.calls) (h6 : s1.pc = upd s.pc t p') : Inv c s1 := by
  have hp : p ≠ .absent := by intro h; rw [h] at hW; simp [Pc.inW] at hW
  have ht : t < c.n := inv.bound t (by rw [hpc]; exact hp)
  have hh : ∀ x, p.holds x = false := by intro x; cases p <;> simp_all [Pc.inW, Pc.holds]
  have hh' : ∀ x, p'.holds x = false := by intro x; cases p' <;> simp_all [Pc.inW, Pc.holds]
  have hpre : p.preDo = false := by cases p <;> simp_all [Pc.inW, Pc.preDo]
  have hpre' : p'.preDo = false := by cases p' <;> simp_all [Pc.inW, Pc.preDo]
  refine ⟨?_, ?_, ?_, ?_, ?_, ?_, ?_, ?_, ?_, ?_⟩
  · intro i; rw [h6]; simp only [upd]; split
    · intro _; subst i; exact ht
    · exact inv.bound i
  · intro i; rw [h6]; simp only [upd]; split
    · intro h; rw [h] at hW'; simp [Pc.inW] at hW'
    · exact inv.nopanic i
  · intro i j; rw [h6]; simp only [upd]; split
    · intro h; rw [h] at hW'; simp [Pc.inW] at hW'
    · exact inv.spawnLt i j
  · rw [h3, h6, cnt_upd_same _ _ _ _ _ (by rw [hpc, hW, hW']), inv.waitingEq]
  · intro i; rw [h6]; simp only [upd]; split
    · rename_i h; subst h; exact hmo
    · exact inv.mainOnly i
  · intro i j; rw [h6]; simp only [upd]; split
    · intro h; rw [h] at hW'; simp [Pc.inW] at hW'
    · intro h k hk; split
      · rename_i hkt; subst hkt
        exact absurd (inv.spawnAbs i j h k hk) (by rw [hpc]; exact hp)
      · exact inv.spawnAbs i j h k hk
  · rw [h6]; simp only [upd]
    by_cases ht0 : t = 0
    · subst ht0; simp only [if_true, hpre']; intro h; exact absurd h (by simp)
    · simp only [show ¬ (0 = t) from fun h => ht0 h.symm, if_false]
      intro h0
      exact absurd (inv.pre h0 t ht0) (by rw [hpc]; exact hp)
  · rw [h6, h4]; simp only [upd]
    by_cases ht0 : t = 0
    · subst ht0; simp only [if_true]
      intro _; exact inv.run (by rw [hpc]; exact hpre)
    · simp only [show ¬ (0 = t) from fun h => ht0 h.symm, if_false]
      exact inv.run
  · intro d hd
    have key : ∃ d', (s.pc d').isDone = true := by
      rw [h6] at hd; simp only [upd] at hd
      split at hd
      · exact ⟨t, by rw [hpc]; exact hD hd⟩
      · exact ⟨d, hd⟩
    obtain ⟨d', hd'⟩ := key
    obtain ⟨a, b, cc⟩ := inv.doneAll d' hd'
    refine ⟨by rw [h2]; exact a, by rw [h3, h4]; exact b, ?_⟩
    intro i hi; rw [h6]; simp only [upd]; split
    · exact hW'
    · exact cc i hi
  · intro x
    rw [h1, h2, h5, h6, cnt_upd_same _ _ _ _ _ (by rw [hpc, hh x, hh' x])]
    exact inv.items x

/-- the invariant does not mention the mutex and the condition variable -/
theorem inv_congr {c : Cfg} {s s1 : State} (inv : Inv c s)
    (h1 : s1.added = s.added) (h2 : s1.todo = s.todo) (h3 : s1.waiting = s.waiting) (h4 : s1.running = s.running)
    (h5 : s1.calls = s.calls) (h6 : s1.pc = s.pc) : Inv c s1 := by
  obtain ⟨a, b, c', d, m1, m2, m3, e, f, g⟩ := inv
  exact ⟨by rw [h6]; exact a, by rw [h6]; exact b, by rw [h6]; exact c', by rw [h3, h6]; exact d,
    by rw [h6]; exact m1, by rw [h6]; exact m2, by rw [h6]; exact m3,
    by rw [h4, h6]; exact e, by rw [h6, h2, h3, h4]; exact f, by rw [h1, h2, h5, h6]; exact g⟩


/-! ### the swap-remove pick -/

theorem count_swapRemove (l : List Nat) (k x : Nat) (h : l[k]? = some x) (y : Nat) :
    (swapRemove l k).count y + (if x = y then 1 else 0) = l.count y := by
  rcases List.eq_nil_or_concat l with hl | ⟨l', z, hl⟩
  · subst hl; simp at h
  · subst hl
    have hlast : (l'.concat z).getLast? = some z := by simp
    unfold swapRemove
    rw [hlast]
    simp only [List.concat_eq_append] at *
    by_cases hk : k < l'.length
    · rw [List.set_append, if_pos hk, List.dropLast_concat]
      rw [List.getElem?_append, if_pos hk] at h
      have hx : l'[k] = x := by
        rw [List.getElem?_eq_getElem hk] at h; exact Option.some.inj h
      rw [List.count_set hk, List.count_append, List.count_singleton, hx]
      have : 0 < l'.count x := List.count_pos_iff.mpr (hx ▸ List.getElem_mem hk)
      by_cases hxy : x = y
      · subst hxy; simp; omega
      · simp [hxy]
    · rw [List.getElem?_append, if_neg hk] at h
      have hk' : k - l'.length = 0 := by
        by_cases h0 : k - l'.length = 0
        · exact h0
        · have : ([z] : List Nat)[k - l'.length]? = none := by
            rw [List.getElem?_eq_none]; simp; omega
          rw [this] at h; simp at h
      rw [hk'] at h
      simp only [List.getElem?_cons_zero, Option.some.injEq] at h
      subst h
      rw [List.set_append, if_neg hk, hk']
      simp only [List.set_cons_zero, List.dropLast_concat, List.count_append, List.count_singleton, beq_iff_eq]

/-! ### the two pieces of code shared by several program points -/

/-- the wait-loop header, run by `t` after acquiring the mutex at `lockTop` (δ = 0) or when woken (δ = 1) -/
theorem inv_loopHead {c : Cfg} {s s1 : State} {t : Nat} {p : Pc} (inv : Inv c s)
    (hpc : s.pc t = p) (hp : p = .lockTop ∨ p = .wake)
    (h1 : s1.added = s.added) (h2 : s1.todo = s.todo)
    (h3 : s1.waiting + (if p.inW then 1 else 0) = s.waiting) (h4 : s1.running = s.running)
    (h5 : s1.calls = s.calls) (h6 : s1.pc = s.pc) : Inv c (loopHead s1 t) := by
  have hpa : p ≠ .absent := by rcases hp with h | h <;> subst h <;> simp
  have ht : t < c.n := inv.bound t (by rw [hpc]; exact hpa)
  have hpre : p.preDo = false := by rcases hp with h | h <;> subst h <;> rfl
  have hmo : p.mainOnly = false := by rcases hp with h | h <;> subst h <;> rfl
  have hhold : ∀ x, p.holds x = false := by intro x; rcases hp with h | h <;> subst h <;> rfl
  have hDp : p.isDone = false := by rcases hp with h | h <;> subst h <;> rfl
  have hrun : s.running = c.n := by
    apply inv.run
    by_cases ht0 : t = 0
    · subst ht0; rw [hpc]; exact hpre
    · cases hq : (s.pc 0).preDo with
      | false => rfl
      | true => exact absurd (inv.pre hq t ht0) (by rw [hpc]; exact hpa)
  have hcq : ∀ q : Pc, (cnt Pc.inW (upd s.pc t q) c.n : Int) = s1.waiting + (if q.inW then 1 else 0) := by
    intro q
    have a := cnt_upd Pc.inW s.pc t q c.n ht
    have e := inv.waitingEq
    rw [hpc] at a
    generalize (cnt Pc.inW (upd s.pc t q) c.n) = X at *
    generalize q.inW = b at *
    rcases hp with h | h <;> subst h <;> cases b <;> simp [Pc.inW] at a h3 ⊢ <;> omega
  -- generic parts, for any new pc q of t that is not main-only / spawn / panic / preDo and holds nothing
  have generic : ∀ (q : Pc) (w : Int), q ≠ .panicNext → (∀ j, q ≠ .spawn j) → q.mainOnly = false → q.preDo = false →
      (∀ x, q.holds x = false) → w = cnt Pc.inW (upd s.pc t q) c.n →
      (∀ d : Nat, (upd s.pc t q d).isDone = true →
        s.todo = [] ∧ w = s.running ∧ ∀ i : Nat, i < c.n → (upd s.pc t q i).inW = true) →
      Inv c { s1 with waiting := w, pc := upd s1.pc t q } := by
    intro q w hq1 hq2 hq3 hq4 hq5 hw hdone
    refine ⟨?_, ?_, ?_, ?_, ?_, ?_, ?_, ?_, ?_, ?_⟩
    · intro i; simp only [h6, upd]; split
      · intro _; subst i; exact ht
      · exact inv.bound i
    · intro i; simp only [h6, upd]; split
      · exact hq1
      · exact inv.nopanic i
    · intro i j; simp only [h6, upd]; split
      · intro h; exact absurd h (hq2 j)
      · exact inv.spawnLt i j
    · simp only [h6]; exact hw
    · intro i; simp only [h6, upd]; split
      · rw [hq3]; intro h; exact absurd h (by simp)
      · exact inv.mainOnly i
    · intro i j; simp only [h6, upd]; split
      · intro h; exact absurd h (hq2 j)
      · intro h k hk; split
        · rename_i hkt; subst hkt
          exact absurd (inv.spawnAbs i j h k hk) (by rw [hpc]; exact hpa)
        · exact inv.spawnAbs i j h k hk
    · simp only [h6, upd]
      by_cases ht0 : t = 0
      · subst ht0; simp only [if_true, hq4]; intro h; exact absurd h (by simp)
      · simp only [show ¬ (0 = t) from fun h => ht0 h.symm, if_false]
        intro h0
        exact absurd (inv.pre h0 t ht0) (by rw [hpc]; exact hpa)
    · intro _; simp only [h4]; exact hrun
    · intro d; simp only [h6, h2, h4]; exact hdone d
    · intro x
      simp only [h1, h2, h5, h6]
      rw [cnt_upd_same _ _ _ _ _ (by rw [hpc, hhold x, hq5 x])]
      exact inv.items x
  rw [loopHead_eq]
  split
  · rename_i htodo
    rw [h2] at htodo
    split
    · -- all done: broadcast next
      rename_i heq
      have hw : s1.waiting + 1 = cnt Pc.inW (upd s.pc t .bcast) c.n := by rw [hcq]; simp [Pc.inW]
      apply generic .bcast _ (by simp) (by simp) rfl rfl (fun _ => rfl) hw
      intro d _
      refine ⟨htodo, by rw [← h4]; exact heq, ?_⟩
      apply cnt_full
      have : (cnt Pc.inW (upd s.pc t .bcast) c.n : Int) = c.n := by rw [← hw, heq, h4, hrun]
      exact Int.ofNat.inj this
    · rename_i hne
      have hw : s1.waiting + 1 = cnt Pc.inW (upd s.pc t .wait) c.n := by rw [hcq]; simp [Pc.inW]
      apply generic .wait _ (by simp) (by simp) rfl rfl (fun _ => rfl) hw
      intro d hd
      simp only [upd] at hd
      split at hd
      · simp [Pc.isDone] at hd
      · exfalso
        obtain ⟨_, b, cc⟩ := inv.doneAll d hd
        have htw := cc t ht
        rw [hpc] at htw
        rw [htw] at h3
        apply hne
        rw [h4, ← b]
        simpa using h3
  · rename_i htodo
    rw [h2] at htodo
    have hw : s1.waiting = cnt Pc.inW (upd s.pc t .rand) c.n := by rw [hcq]; simp [Pc.inW]
    apply generic .rand s1.waiting (by simp) (by simp) rfl rfl (fun _ => rfl) hw
    intro d hd
    simp only [upd] at hd
    split at hd
    · simp [Pc.isDone] at hd
    · exact absurd (inv.doneAll d hd).1 htodo

theorem run_of_pc {c : Cfg} {s : State} (inv : Inv c s) {t : Nat} (hp : s.pc t ≠ .absent) (hpre : (s.pc t).preDo = false) :
    (s.pc 0).preDo = false := by
  by_cases ht0 : t = 0
  · subst ht0; exact hpre
  · cases hq : (s.pc 0).preDo with
    | false => rfl
    | true => exact absurd (inv.pre hq t ht0) hp

/-- the body of `Add(x)` run by `t` after acquiring the mutex -/
theorem inv_addBody {c : Cfg} {s s1 : State} {t : Nat} {p : Pc} {k : Cont} {x : Nat} (inv : Inv c s)
    (hpc : s.pc t = p) (hcall : AddCall c p k x)
    (h1 : s1.added = s.added) (h2 : s1.todo = s.todo) (h3 : s1.waiting = s.waiting) (h4 : s1.running = s.running)
    (h5 : s1.calls = s.calls) (h6 : s1.pc = s.pc) : Inv c (addBody s1 t k x) := by
  have hp : p ≠ .absent := by cases hcall <;> simp
  have hW : p.inW = false := by cases hcall <;> rfl
  have hh : ∀ y, p.holds y = false := by intro y; cases hcall <;> rfl
  have facts : ∀ q, q = Pc.addSignal k ∨ q = Pc.addUnlock k →
      q.inW = false ∧ (∀ y, q.holds y = false) ∧ q ≠ .panicNext ∧ (∀ j, q ≠ .spawn j) ∧ p.preDo = q.preDo ∧
      (q.mainOnly = true → p.mainOnly = true) := by
    intro q hq
    cases hcall <;> rcases hq with h | h <;> subst h <;> simp [Pc.inW, Pc.holds, Pc.preDo, Pc.mainOnly]
  have hmo : ∀ q, q = Pc.addSignal k ∨ q = Pc.addUnlock k → q.mainOnly = true → t = 0 := by
    intro q hq hm
    exact inv.mainOnly t (by rw [hpc]; exact (facts q hq).2.2.2.2.2 hm)
  have hrunq : ∀ q, q = Pc.addSignal k ∨ q = Pc.addUnlock k → (upd s.pc t q 0).preDo = false → s.running = c.n := by
    intro q hq
    simp only [upd]
    by_cases ht0 : t = 0
    · subst ht0; simp only [if_true]
      intro hp'; exact inv.run (by rw [hpc, (facts q hq).2.2.2.2.1]; exact hp')
    · simp only [show ¬ (0 = t) from fun h => ht0 h.symm, if_false]
      exact inv.run
  rw [addBody_eq]
  split
  · obtain ⟨a, b, c1, d, e, _⟩ := facts _ (Or.inr rfl)
    exact inv_simple inv hpc hp hW a (fun y => by rw [hh y, b y]) c1 d e (hmo _ (Or.inr rfl))
      h1 h2 h3 h4 h5 (by simp [State.setPc, h6])
  · rename_i hx
    rw [h1] at hx
    have new : ∀ q, q = Pc.addSignal k ∨ q = Pc.addUnlock k →
        Inv c { s1 with added := x :: s1.added, todo := s1.todo ++ [x], pc := upd s1.pc t q } := by
      intro q hq
      obtain ⟨a, b, c1, d, e, _⟩ := facts q hq
      refine inv_simple_gen (p' := q) inv hpc hp hW a c1 (fun j h => absurd h (d j)) (by rw [e]; exact id) (hmo q hq) h3
        (by show (upd s.pc t q 0).preDo = false → s1.running = c.n; rw [h4]; exact hrunq q hq) ?_
        (by show upd s1.pc t q = upd s.pc t q; rw [h6])
      intro y
      show (s1.todo ++ [x]).count y + cnt (Pc.holds y) (upd s.pc t q) c.n + s1.calls.count y = if y ∈ x :: s1.added then 1 else 0
      simp only [h1, h2, h5, List.count_append, List.count_singleton, beq_iff_eq, List.mem_cons]
      rw [cnt_upd_same _ _ _ _ _ (by rw [hpc, hh y, b y])]
      have := inv.items y
      by_cases hyx : y = x
      · subst hyx; simp only [hx, if_false] at this; simp; omega
      · have hxy : ¬ x = y := fun h => hyx h.symm
        simp only [hxy, hyx, if_false, false_or]; omega
    split
    · exact new _ (Or.inl rfl)
    · exact new _ (Or.inr rfl)

/-- the safety invariant is preserved by every step -/
theorem inv_step {c : Cfg} (hn : 1 ≤ c.n) {s s' : State} {t : Nat} {e : Event} (inv : Inv c s)
    (h : Step c s t e s') : Inv c s' := by
  cases h with
  | start hpc =>
    by_cases ht0 : t = 0
    · subst ht0
      simp only [↓reduceIte]
      exact inv_simple (p' := .mainAdd 0) inv hpc (by simp) rfl rfl (fun _ => rfl) (by simp) (by simp) (by simp [Pc.preDo]) (fun _ => rfl)
        rfl rfl rfl rfl rfl rfl
    · simp only [ht0, ↓reduceIte]
      refine inv_simple_gen (p' := .lockTop) inv hpc (by simp) rfl rfl (by simp) (fun j h => by simp at h) (by simp [Pc.preDo])
        (by simp [Pc.mainOnly]) rfl ?_ ?_ rfl
      · simp only [upd, show ¬ (0 = t) from fun h => ht0 h.symm, if_false]; exact inv.run
      · intro x; rw [cnt_upd_same _ _ _ _ _ (by rw [hpc]; rfl)]; exact inv.items x
  | addLock hpc hcall ho => exact inv_addBody inv hpc hcall rfl rfl rfl rfl rfl rfl
  | doCall hpc hj =>
    have ht0 : t = 0 := inv.mainOnly t (by rw [hpc]; rfl)
    have hnp : ¬ c.n < 1 := by omega
    simp only [hnp, if_false, afterSpawn_eq]
    have habs : ∀ k : Nat, 1 ≤ k → s.pc k = .absent := by
      intro k hk
      exact inv.pre (by rw [← ht0, hpc]; rfl) k (by omega)
    by_cases h1n : 1 < c.n
    · simp only [h1n, if_true]
      refine inv_simple_gen (p' := .spawn 1) inv hpc (by simp) rfl rfl (by simp) (fun j h => by
          simp only [Pc.spawn.injEq] at h; subst h; exact ⟨ht0, h1n, habs⟩) (by simp [Pc.preDo]) (fun _ => ht0) rfl
          (fun _ => rfl) ?_ rfl
      intro x
      rw [cnt_upd_same _ _ _ _ _ (by rw [hpc]; rfl)]
      exact inv.items x
    · simp only [h1n, if_false]
      refine inv_simple_gen (p' := .lockTop) inv hpc (by simp) rfl rfl (by simp) (fun j h => by simp at h) (by simp [Pc.preDo])
          (fun h => by simp [Pc.mainOnly] at h) rfl (fun _ => rfl) ?_ rfl
      intro x
      rw [cnt_upd_same _ _ _ _ _ (by rw [hpc]; rfl)]
      exact inv.items x
  | panic hpc => exact absurd hpc (inv.nopanic t)
  | @go i hpc =>
    have ht0 : t = 0 := inv.mainOnly t (by rw [hpc]; rfl)
    have hi : i < c.n := inv.spawnLt t i hpc
    have habs := inv.spawnAbs t i hpc
    have hit : i ≠ t := by
      intro h; have := habs i (Nat.le_refl i); rw [h, hpc] at this; simp at this
    have htn : t < c.n := by omega
    -- first the new task appears …
    have hrun0 : (s.pc 0).preDo = false := by rw [← ht0, hpc]; rfl
    have inv1 : Inv c ((s.setPc i .init).setPc t (.spawn (i + 1))) ∨ True := Or.inr trivial
    clear inv1
    simp only [afterSpawn_eq]
    -- all fields by hand: two pcs change, none of them in a counted class
    have hpcs : ∀ q : Pc, ∀ k : Nat, ((s.setPc i .init).setPc t q).pc k = if k = t then q else if k = i then .init else s.pc k := by
      intro q k; simp [State.setPc, upd]
    have hcntW : ∀ q : Pc, q.inW = false → cnt Pc.inW ((s.setPc i .init).setPc t q).pc c.n = cnt Pc.inW s.pc c.n := by
      intro q hq
      simp only [State.setPc]
      rw [cnt_upd_same _ _ _ _ _ (by simp only [upd, hit.symm, if_false]; rw [hpc, hq]; rfl)]
      rw [cnt_upd_same _ _ _ _ _ (by rw [habs i (Nat.le_refl i)]; rfl)]
    have hcntH : ∀ (q : Pc) (x : Nat), q.holds x = false → cnt (Pc.holds x) ((s.setPc i .init).setPc t q).pc c.n = cnt (Pc.holds x) s.pc c.n := by
      intro q x hq
      simp only [State.setPc]
      rw [cnt_upd_same _ _ _ _ _ (by simp only [upd, hit.symm, if_false]; rw [hpc, hq]; rfl)]
      rw [cnt_upd_same _ _ _ _ _ (by rw [habs i (Nat.le_refl i)]; rfl)]
    have main : ∀ q : Pc, (q = .spawn (i + 1) ∧ i + 1 < c.n) ∨ q = .lockTop → Inv c ((s.setPc i .init).setPc t q) := by
      intro q hq
      have hqW : q.inW = false := by rcases hq with ⟨h, _⟩ | h <;> subst h <;> rfl
      have hqH : ∀ x, q.holds x = false := by intro x; rcases hq with ⟨h, _⟩ | h <;> subst h <;> rfl
      have hqD : q.isDone = false := by rcases hq with ⟨h, _⟩ | h <;> subst h <;> rfl
      have hqP : q.preDo = false := by rcases hq with ⟨h, _⟩ | h <;> subst h <;> rfl
      refine ⟨?_, ?_, ?_, ?_, ?_, ?_, ?_, ?_, ?_, ?_⟩
      · intro k; rw [hpcs]; split
        · intro _; omega
        · split
          · intro _; omega
          · exact inv.bound k
      · intro k; rw [hpcs]; split
        · rcases hq with ⟨h, _⟩ | h <;> subst h <;> simp
        · split
          · simp
          · exact inv.nopanic k
      · intro k j; rw [hpcs]; split
        · rcases hq with ⟨h, h'⟩ | h <;> subst h
          · intro hj; simp only [Pc.spawn.injEq] at hj; omega
          · simp
        · split
          · simp
          · exact inv.spawnLt k j
      · show s.waiting = _
        rw [hcntW q hqW]; exact inv.waitingEq
      · intro k; rw [hpcs]; split
        · intro _; omega
        · split
          · simp [Pc.mainOnly]
          · exact inv.mainOnly k
      · intro k j; rw [hpcs]; split
        · rcases hq with ⟨h, h'⟩ | h <;> subst h
          · intro hj; simp only [Pc.spawn.injEq] at hj; subst hj
            intro m hm; rw [hpcs]
            have h1 : m ≠ t := by omega
            have h2 : m ≠ i := by omega
            simp only [h1, h2, if_false]
            exact habs m (by omega)
          · simp
        · split
          · simp
          · intro hj
            rename_i hk1 hk2
            have hk0 : k = 0 := inv.mainOnly k (by rw [hj]; rfl)
            omega
      · rw [hpcs]; simp only [ht0, if_true, hqP]; intro h; exact absurd h (by simp)
      · intro _; exact inv.run hrun0
      · intro d; rw [hpcs]; split
        · rw [hqD]; intro h; exact absurd h (by simp)
        · split
          · simp [Pc.isDone]
          · intro hd
            have := (inv.doneAll d hd).2.2 t htn
            rw [hpc] at this; simp [Pc.inW] at this
      · intro x
        show s.todo.count x + cnt (Pc.holds x) ((s.setPc i .init).setPc t q).pc c.n + s.calls.count x = _
        rw [hcntH q x (hqH x)]; exact inv.items x
    by_cases h1 : i + 1 < c.n
    · simp only [h1, if_true]; exact main _ (Or.inl ⟨rfl, h1⟩)
    · simp only [h1, if_false]; exact main _ (Or.inr rfl)
  | lockTop hpc ho => exact inv_loopHead inv hpc (Or.inl rfl) rfl rfl (by simp [Pc.inW]) rfl rfl rfl
  | wait hpc ho =>
    exact inv_wstep (p' := .wake) inv hpc rfl rfl (by simp [Pc.isDone]) (by simp [Pc.mainOnly]) rfl rfl rfl rfl rfl rfl
  | wake hpc hw ho =>
    exact inv_loopHead inv hpc (Or.inr rfl) rfl rfl (by simp [Pc.inW]) rfl rfl rfl
  | spurious hpc hw => exact inv_congr inv rfl rfl rfl rfl rfl rfl
  | bcast hpc =>
    exact inv_wstep (p' := .unlockRet) inv hpc rfl rfl (fun _ => rfl) (by simp [Pc.mainOnly]) rfl rfl rfl rfl rfl rfl
  | unlockRet hpc ho =>
    exact inv_wstep (p' := .returned) inv hpc rfl rfl (fun _ => rfl) (by simp [Pc.mainOnly]) rfl rfl rfl rfl rfl rfl
  | doReturn hpc ht0 =>
    exact inv_wstep (p' := .retd) inv hpc rfl rfl (fun _ => rfl) (fun _ => ht0) rfl rfl rfl rfl rfl rfl
  | exitRunner hpc ht0 =>
    exact inv_wstep (p' := .exited) inv hpc rfl rfl (fun _ => rfl) (by simp [Pc.mainOnly]) rfl rfl rfl rfl rfl rfl
  | exitMain hpc =>
    exact inv_wstep (p' := .exited) inv hpc rfl rfl (fun _ => rfl) (by simp [Pc.mainOnly]) rfl rfl rfl rfl rfl rfl
  | @rand k x hpc hx =>
    have htn : t < c.n := inv.bound t (by rw [hpc]; simp)
    refine inv_simple_gen (p' := .unlockRun x) inv hpc (by simp) rfl rfl (by simp) (fun j h => by simp at h) (by simp [Pc.preDo])
      (fun h => by simp [Pc.mainOnly] at h) rfl ?_ ?_ rfl
    · intro _; exact inv.run (run_of_pc inv (t := t) (by rw [hpc]; simp) (by rw [hpc]; rfl))
    · intro y
      show (swapRemove s.todo k).count y + cnt (Pc.holds y) (upd s.pc t (.unlockRun x)) c.n + s.calls.count y = if y ∈ s.added then 1 else 0
      have h1 := cnt_upd (Pc.holds y) s.pc t (.unlockRun x) c.n htn
      have h2 := count_swapRemove s.todo k x hx y
      have h3 := inv.items y
      rw [hpc] at h1
      simp only [Pc.holds, beq_iff_eq] at h1
      simp at h1
      omega
  | @unlockRun x hpc ho =>
    exact inv_simple (p' := .fEnter x) inv hpc (by simp) rfl rfl (fun _ => rfl) (by simp) (by simp) rfl (by simp [Pc.mainOnly])
      rfl rfl rfl rfl rfl rfl
  | @fEnter x hpc =>
    have htn : t < c.n := inv.bound t (by rw [hpc]; simp)
    refine inv_simple_gen (p' := .inF x 0) inv hpc (by simp) rfl rfl (by simp) (fun j h => by simp at h) (by simp [Pc.preDo])
      (fun h => by simp [Pc.mainOnly] at h) rfl ?_ ?_ rfl
    · intro _; exact inv.run (run_of_pc inv (t := t) (by rw [hpc]; simp) (by rw [hpc]; rfl))
    · intro y
      show (s.calls ++ [x]).count y |> fun cc => s.todo.count y + cnt (Pc.holds y) (upd s.pc t (.inF x 0)) c.n + cc = if y ∈ s.added then 1 else 0
      simp only [List.count_append, List.count_singleton, beq_iff_eq]
      have h1 := cnt_upd (Pc.holds y) s.pc t (.inF x 0) c.n htn
      have h3 := inv.items y
      rw [hpc] at h1
      simp only [Pc.holds, beq_iff_eq] at h1
      simp at h1
      omega
  | fExit hpc hk =>
    exact inv_simple (p' := .lockTop) inv hpc (by simp) rfl rfl (fun _ => rfl) (by simp) (by simp) rfl (by simp [Pc.mainOnly])
      rfl rfl rfl rfl rfl rfl
  | @signalNone k hpc hw =>
    exact inv_simple (p' := .addUnlock k) inv hpc (by simp) rfl rfl (fun _ => by cases k <;> rfl) (by simp) (by simp) (by cases k <;> rfl)
      (fun h => inv.mainOnly t (by rw [hpc]; cases k <;> simp_all [Pc.mainOnly]))
      rfl rfl rfl rfl rfl rfl
  | @signalSome k w rest hpc hw =>
    exact inv_simple (p' := .addUnlock k) inv hpc (by simp) rfl rfl (fun _ => by cases k <;> rfl) (by simp) (by simp) (by cases k <;> rfl)
      (fun h => inv.mainOnly t (by rw [hpc]; cases k <;> simp_all [Pc.mainOnly]))
      rfl rfl rfl rfl rfl rfl
  | @addUnlock k hpc ho =>
    cases k with
    | main j =>
      exact inv_simple (p' := .mainAdd (j + 1)) inv hpc (by simp) rfl rfl (fun _ => rfl) (by simp) (by simp) rfl
        (fun _ => inv.mainOnly t (by rw [hpc]; rfl)) rfl rfl rfl rfl rfl rfl
    | inF y i =>
      exact inv_simple (p' := .inF y (i + 1)) inv hpc (by simp) rfl rfl (fun _ => rfl) (by simp) (by simp) rfl
        (by simp [Pc.mainOnly]) rfl rfl rfl rfl rfl rfl

theorem inv_reach {c : Cfg} (hn : 1 ≤ c.n) {s : State} (h : Reach c s) : Inv c s := by
  induction h with
  | init => exact inv_init c hn
  | step _ hs ih => exact inv_step hn ih (step_sound hs)

end GIV.ParWork
