/-
  GIV.Lemmas.TxtarGoLoop — the translated loops of txtar/archive.go (GIV.Gen.TxtarGo, regenerated
  from /repo on every run by harness/internal/go2lean) equal the index-form model:

      findFileMarker_eq, Parse_eq, NeedsQuote_eq   (for all inputs; `none` = panic / budget)
      Quote_eq, Unquote_eq                          (results read through `QOk`)

  `Parse_lines` shows in passing that the loop budgets chosen by the translator suffice.
-/
import GIV.Lemmas.TxtarGo
import GIV.Lemmas.TxtarIdxLoop
namespace GIV.TxtarGo
open GIV GIV.GoLib

def toGo3 (r : Bytes × Bytes × Option Bytes) : Bytes × Bytes × Bytes := (r.1, r.2.1, r.2.2.getD [])

theorem findFileMarker_loop_eq (data before : Bytes) :
    ∀ (fuel i : Nat) (name after : Bytes),
      GIV.Go.Txtar.findFileMarker_loop1 data before fuel name after (i : Int) =
        (GIV.Txtar.findFileMarkerLoop GIV.Txtar.isMarkerIdx data fuel i).map toGo3 := by
  intro fuel
  induction fuel with
  | zero => intro i name after; rfl
  | succ fuel ih =>
    intro i name after
    unfold GIV.Go.Txtar.findFileMarker_loop1 GIV.Txtar.findFileMarkerLoop
    have e1 : GoLib.slice? data (i : Int) (GoLib.len data) = GIV.Txtar.slice? data i data.length := slice_eq data i data.length
    have e0 : GoLib.slice? data 0 (i : Int) = GIV.Txtar.slice? data 0 i := slice_eq data 0 i
    simp only [e1, e0, isMarker_eq, index_eq]
    cases GIV.Txtar.slice? data i data.length with
    | none => rfl
    | some d =>
      simp only [Option.bind_eq_bind, Option.bind_some]
      cases GIV.Txtar.isMarkerIdx d with
      | none => rfl
      | some p =>
        obtain ⟨nm, af⟩ := p
        simp only [Option.map_some, Option.bind_some, optB]
        by_cases hn : nm = []
        · subst hn
          simp only [bne_self_eq_false, Bool.false_eq_true, if_false, ne_eq, not_true_eq_false]
          cases hj : GIV.Txtar.indexSub d GIV.Txtar.newlineMarker with
          | none =>
            have : GIV.Gen.Txtar.newlineMarker = GIV.Txtar.newlineMarker := rfl
            simp [this, hj, fixNL_eq, toGo3]
          | some j =>
            have : GIV.Gen.Txtar.newlineMarker = GIV.Txtar.newlineMarker := rfl
            simp only [this, hj]
            have hlt : ¬ ((j : Int) < 0) := by omega
            simp only [hlt, decide_false, Bool.false_eq_true, if_false]
            have := ih (i + (j + 1)) [] (af.getD [])
            simpa using this
        · have hb : (nm != []) = true := by simpa using hn
          simp only [hb, if_true, ne_eq, hn, not_false_eq_true]
          cases GIV.Txtar.slice? data 0 i <;> rfl
end GIV.TxtarGo

namespace GIV.TxtarGo
open GIV GIV.GoLib

theorem findFileMarker_eq (d : Bytes) :
    GIV.Go.Txtar.findFileMarker d = (GIV.Txtar.findFileMarkerIdx d).map toGo3 := by
  unfold GIV.Go.Txtar.findFileMarker GIV.Txtar.findFileMarkerIdx GIV.Txtar.findFileMarkerG
  exact findFileMarker_loop_eq d [] (d.length + 1) 0 [] []

def toGoFile (f : GIV.Txtar.File) : GIV.Go.Txtar.GoFile := ⟨f.name, f.data⟩
def toGoArchive (a : GIV.Txtar.Archive) : GIV.Go.Txtar.GoArchive := ⟨a.comment, a.files.map toGoFile⟩

theorem Parse_loop_eq :
    ∀ (fuel : Nat) (data name : Bytes) (a : GIV.Go.Txtar.GoArchive) (files : List GIV.Txtar.File),
      a.Files = files.map toGoFile →
      GIV.Go.Txtar.Parse_loop1 fuel data a name =
        (GIV.Txtar.parseLoopG GIV.Txtar.isMarkerIdx fuel name data files).map
          (fun fs => (⟨a.Comment, fs.map toGoFile⟩ : GIV.Go.Txtar.GoArchive)) := by
  intro fuel
  induction fuel with
  | zero => intro data name a files _; rfl
  | succ fuel ih =>
    intro data name a files ha
    unfold GIV.Go.Txtar.Parse_loop1 GIV.Txtar.parseLoopG
    by_cases hn : name = []
    · subst hn
      simp [GIV.Go.Txtar.Parse_after1, ← ha]
    · have hb : (name != []) = true := by simpa using hn
      simp only [hb, Bool.not_true, Bool.false_eq_true, if_false, hn, findFileMarker_eq,
        GIV.Txtar.findFileMarkerIdx]
      cases GIV.Txtar.findFileMarkerG GIV.Txtar.isMarkerIdx data with
      | none => rfl
      | some r =>
        obtain ⟨fd, nm, af⟩ := r
        simp only [Option.map_some, Option.bind_eq_bind, Option.bind_some, toGo3]
        rw [ih (af.getD []) nm _ (files ++ [⟨name, fd⟩]) (by simp [ha, toGoFile])]
end GIV.TxtarGo

namespace GIV.TxtarGo
open GIV GIV.GoLib GIV.Txtar

/-- The translated `Parse` computes the line-structured parse (so its loop budget suffices). -/
theorem Parse_lines [FLit] [FNLM] (d : Bytes) :
    GIV.Go.Txtar.Parse d = (parseLinesG markerName (splitLines d) []).map toGoArchive := by
  have hs := markerSpec_idx
  have hok := splitLines_ok d
  have hd := joinLines_splitLines d
  unfold GIV.Go.Txtar.Parse
  simp only [findFileMarker_eq, findFileMarkerIdx]
  rw [parseLinesG_unfold]
  conv => lhs; rw [← hd, findFileMarkerG_joinLines hs hok]
  cases hf : findFMG markerName (splitLines d) [] with
  | none => rfl
  | some fd =>
    simp only [Option.map_some, Found.toIdx, Option.bind_eq_bind, Option.bind_some, toGo3]
    by_cases hn : fd.name = []
    · simp [hn, GIV.Go.Txtar.Parse_loop1, GIV.Go.Txtar.Parse_after1, toGoArchive]
    · obtain ⟨hok', hlt⟩ := findFMG_after hf hn hok
      have hj : (fd.after.map joinLines).getD [] = joinLines (fd.after.getD []) := by
        cases fd.after <;> rfl
      have hlen := length_le_joinLines hok'
      rw [hj, Parse_loop_eq _ _ _ _ [] rfl,
        parseLoopG_eq hs _ (fd.after.getD []) _ fd.name [] (Nat.le_refl _) hok' hn (by omega)]
      simp only [if_neg hn, List.nil_append]
      cases parseFilesG markerName (fd.after.getD []) fd.name [] <;> rfl

/-- The translated `Parse` equals the index-form model (hence the line-structured one). -/
theorem Parse_eq [FLit] [FNLM] (d : Bytes) : GIV.Go.Txtar.Parse d = (parseIdx d).map toGoArchive := by
  rw [Parse_lines, parseIdx, parseG_eq markerSpec_idx]

theorem NeedsQuote_eq (d : Bytes) : GIV.Go.Txtar.NeedsQuote d = needsQuoteIdx d := by
  unfold GIV.Go.Txtar.NeedsQuote needsQuoteIdx
  simp only [findFileMarker_eq]
  cases findFileMarkerIdx d with
  | none => rfl
  | some r =>
    obtain ⟨b, n, a⟩ := r
    simp only [toGo3, Gen.Txtar.needsQuoteTestsName, Option.map_some, Option.bind_eq_bind, Option.bind_some,
      Option.pure_def, if_true, ne_eq, decide_not]
    by_cases hn : n = [] <;> simp [hn]
end GIV.TxtarGo
namespace GIV.TxtarGo
open GIV GIV.GoLib GIV.Txtar

/-- how the translated `([]byte, error)` results read as the model's `Except QErr Bytes`:
an error carries the message, never data. -/
def QOk (r : Except QErr Bytes) (g : Bytes × GoError) : Prop :=
  match r with
  | .ok b => g = (b, none)
  | .error _ => g.1 = [] ∧ g.2.isSome

theorem Quote_loop_eq (data : Bytes) : ∀ (l : Bytes) (arr : Array UInt8) (prev : UInt8),
    GIV.Go.Txtar.Quote_loop1 data l arr.toList prev =
      some ((l.foldl (fun (st : Array UInt8 × UInt8) b =>
        let nd := if st.2 = NL then st.1.push 62 else st.1
        (nd.push b, b)) (arr, prev)).1.toList, none) := by
  intro l
  induction l with
  | nil => intro arr prev; rfl
  | cons b rest ih =>
    intro arr prev
    unfold GIV.Go.Txtar.Quote_loop1
    by_cases hp : prev = 10
    · subst hp
      have := ih ((arr.push 62).push b) b
      simpa [NL] using this
    · have hb : (prev == 10) = false := by simpa using hp
      have := ih (arr.push b) b
      simpa [NL, hp, hb] using this

theorem Quote_eq (d : Bytes) : ∃ g, GIV.Go.Txtar.Quote d = some g ∧ QOk (quoteIdx d) g := by
  unfold GIV.Go.Txtar.Quote quoteIdx
  by_cases hne : d = []
  · subst hne; exact ⟨([], none), by simp [GoLib.len], by simp [QOk]⟩
  · have hpos : 0 < d.length := List.length_pos_iff.mpr hne
    have hlen : ((GoLib.len d) == 0) = false := by simp [GoLib.len]; omega
    have hl0 : ¬ d.length = 0 := by omega
    have hget : d[d.length - 1]? = some (d.getLast hne) := by
      rw [List.getLast_eq_getElem]; simp
    simp only [hlen, Bool.false_eq_true, if_false, idx_last d hne, hl0, hget]
    by_cases h10 : d.getLast hne = 10
    · have hb : (d.getLast hne != 10) = false := by simp [h10]
      simp only [Option.bind_eq_bind, Option.bind_some, hb, Bool.false_eq_true, if_false, h10, NL, ne_eq,
        not_true_eq_false]
      by_cases hu : utf8Valid d = true
      · simp only [hu, Bool.not_true, Bool.false_eq_true, if_false]
        have := Quote_loop_eq d d #[] 10
        simp only [List.toList_toArray] at this
        exact ⟨_, this, by simp [QOk, NL]⟩
      · have hu' : utf8Valid d = false := by simpa using hu
        simp only [hu', Bool.not_false, if_true]
        exact ⟨_, rfl, by simp [QOk]⟩
    · have hb : (d.getLast hne != 10) = true := by simpa using h10
      simp only [Option.bind_eq_bind, Option.bind_some, hb, if_true, NL, ne_eq, Option.some.injEq, h10,
        not_false_eq_true]
      exact ⟨_, rfl, by simp [QOk]⟩
end GIV.TxtarGo

namespace GIV.TxtarGo
open GIV GIV.GoLib GIV.Txtar

theorem idx_zero (d : Bytes) : GoLib.idx? d 0 = d[0]? := by
  unfold GoLib.idx?; simp

theorem Unquote_eq (d : Bytes) : ∃ g, GIV.Go.Txtar.Unquote d = some g ∧ QOk (unquoteIdx d) g := by
  unfold GIV.Go.Txtar.Unquote unquoteIdx
  by_cases hne : d = []
  · subst hne; exact ⟨([], none), by simp [GoLib.len], by simp [QOk]⟩
  · have hpos : 0 < d.length := List.length_pos_iff.mpr hne
    have hlen : ((GoLib.len d) == 0) = false := by simp [GoLib.len]; omega
    have hl0 : ¬ d.length = 0 := by omega
    have hget : d[d.length - 1]? = some (d.getLast hne) := by
      rw [List.getLast_eq_getElem]; simp
    have h0 : d[0]? = some (d.head hne) := by
      cases d with
      | nil => exact absurd rfl hne
      | cons x xs => rfl
    simp only [hlen, Bool.false_eq_true, if_false, idx_last d hne, idx_zero, hl0, hget, h0,
      Option.bind_eq_bind, Option.bind_some, NL, ne_eq, Option.some.injEq, replaceAll_eq, trimPrefix_eq]
    by_cases hh : d.head hne = 62
    · have hb : (d.head hne != 62) = false := by simp [hh]
      simp only [hb, Bool.false_eq_true, if_false, hh, not_true_eq_false, false_or, Option.pure_def,
        Option.bind_some]
      by_cases h10 : d.getLast hne = 10
      · have hb2 : (d.getLast hne != 10) = false := by simp [h10]
        simp only [hb2, Bool.false_eq_true, if_false, h10, not_true_eq_false]
        exact ⟨_, rfl, by simp [QOk]⟩
      · have hb2 : (d.getLast hne != 10) = true := by simpa using h10
        simp only [hb2, if_true, h10, not_false_eq_true]
        exact ⟨_, rfl, by simp [QOk]⟩
    · have hb : (d.head hne != 62) = true := by simpa using hh
      simp only [hb, if_true, hh, not_false_eq_true, true_or, Option.pure_def, Option.bind_some]
      exact ⟨_, rfl, by simp [QOk]⟩
end GIV.TxtarGo

namespace GIV.TxtarGo
open GIV GIV.Txtar

def ofGoFile (f : GIV.Go.Txtar.GoFile) : File := ⟨f.Name, f.Data⟩
def ofGoArchive (a : GIV.Go.Txtar.GoArchive) : Archive := ⟨a.Comment, a.Files.map ofGoFile⟩

theorem ofGo_toGo (a : Archive) : ofGoArchive (toGoArchive a) = a := by
  cases a with
  | mk c fs =>
    simp only [toGoArchive, ofGoArchive, List.map_map, Archive.mk.injEq, true_and]
    have : (ofGoFile ∘ toGoFile) = id := by funext f; cases f; rfl
    rw [this, List.map_id]

/-- reading a `QOk` result back: success with data `q`. -/
theorem QOk_ok {r : Except QErr Bytes} {q : Bytes} (h : QOk r (q, none)) : r = .ok q := by
  cases r with
  | ok b => simp only [QOk, Prod.mk.injEq, and_true] at h; rw [h]
  | error e => simp [QOk] at h
end GIV.TxtarGo
