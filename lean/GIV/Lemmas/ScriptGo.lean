/-
  GIV.Lemmas.ScriptGo — the Lean translation of (*TestScript).parse (GIV.Gen.ScriptGo, regenerated
  from /repo/testscript/testscript.go on every run by harness/internal/go2lean) computes the
  index-form tokenizer of GIV.Model.ScriptParse, step for step: one `go_*` lemma per case of the
  loop body (mirroring the `idx_*` lemmas of GIV.Lemmas.ScriptIdx), then `parse_loop_eq` by
  induction on the loop budget and `parse_eq`.  `ts.expand` is the model's `expand env`
  (os.Expand and the mapping function are tied by the correspondence run, as before).
-/
import GIV.Gen.ScriptGo
import GIV.Lemmas.ScriptIdx
namespace GIV.ScriptGo
open GIV GIV.GoLib GIV.Script

def fatalMsg : Bytes := [117, 110, 116, 101, 114, 109, 105, 110, 97, 116, 101, 100, 32, 113, 117, 111, 116, 101, 100, 32, 97, 114, 103, 117, 109, 101, 110, 116]

/-- the translated result type read as the model's: `ts.Fatalf` = `.unterminated`, a Go panic or
an exhausted loop budget = `.panic`. -/
def resOf : Except Fatal (List Bytes) → Option (GoLib.Res (List Bytes))
  | .ok a => some (.ok a)
  | .error .unterminated => some (.fatal fatalMsg)
  | .error .panic => none

def startI : Option Nat → Int
  | some st => (st : Int)
  | none => -1

theorem idx_nat (line : Bytes) (i : Nat) : GoLib.idx? line (i : Int) = line[i]? := by
  unfold GoLib.idx?; simp

theorem idx_nat1 (line : Bytes) (i : Nat) : GoLib.idx? line ((i : Int) + 1) = line[i + 1]? := by
  have := idx_nat line (i + 1)
  simpa using this

theorem slice_nat (line : Bytes) (st i : Nat) (h1 : st ≤ i) (h2 : i ≤ line.length) :
    GoLib.slice? line (st : Int) (i : Int) = some (slice line st i) := by
  unfold GoLib.slice? slice
  rw [if_pos (by omega)]
  simp only [Int.toNat_natCast, Option.some.injEq]
  rw [List.take_drop]
  congr 2
  omega

section steps
variable (env : Env) (line : Bytes) (fuel i : Nat) (args : List Bytes) (arg : Bytes)

theorem go_end_unq (start : Option Nat) (hi : line[i]? = none) (hs : ∀ st, start = some st → st ≤ i)
    (hl : i ≤ line.length) :
    GIV.Go.Script.parse_loop1 env line (fuel + 1) args arg (startI start) false (i : Int) =
      some (.ok (match (generalizing := false) start with | some st => args ++ [arg ++ expand env (slice line st i)] | none => args)) := by
  have hlen : line.length ≤ i := by
    rcases Nat.lt_or_ge i line.length with h | h
    · rw [List.getElem?_eq_getElem h] at hi; cases hi
    · exact h
  have hge : ((i : Int) ≥ GoLib.len line) := by unfold GoLib.len; omega
  unfold GIV.Go.Script.parse_loop1
  simp only [Bool.not_false, hge, decide_true, if_true, Option.pure_def, Option.bind_eq_bind, Option.bind_some]
  cases start with
  | none =>
    have : ¬ ((startI none) ≥ 0) := by simp [startI]
    simp [this, GIV.Go.Script.parse_after1]
  | some st =>
    have h0 : (startI (some st)) ≥ 0 := by simp [startI]
    have hsl := slice_nat line st i (hs st rfl) hl
    simp only [startI] at h0 ⊢
    simp [h0, hsl, GIV.Go.Script.parse_after1]

theorem lt_of_some {c : UInt8} (hi : line[i]? = some c) : i < line.length := by
  rcases Nat.lt_or_ge i line.length with h | h
  · exact h
  · rw [List.getElem?_eq_none h] at hi; cases hi

theorem go_end_q (start : Option Nat) (hi : line[i]? = none) :
    GIV.Go.Script.parse_loop1 env line (fuel + 1) args arg (startI start) true (i : Int) =
      some (.fatal fatalMsg) := by
  have hlen : line.length ≤ i := by
    rcases Nat.lt_or_ge i line.length with h | h
    · rw [List.getElem?_eq_getElem h] at hi; cases hi
    · exact h
  have hge : ((i : Int) ≥ GoLib.len line) := by unfold GoLib.len; omega
  unfold GIV.Go.Script.parse_loop1
  simp [hge, fatalMsg]

theorem go_blank (start : Option Nat) {c : UInt8} (hi : line[i]? = some c) (hb : isBlank c = true)
    (hs : ∀ st, start = some st → st ≤ i) :
    GIV.Go.Script.parse_loop1 env line (fuel + 1) args arg (startI start) false (i : Int) =
      match (generalizing := false) start with
      | some st => GIV.Go.Script.parse_loop1 env line fuel (args ++ [arg ++ expand env (slice line st i)]) [] (-1) false ((i : Int) + 1)
      | none => GIV.Go.Script.parse_loop1 env line fuel args arg (-1) false ((i : Int) + 1) := by
  have hlt := lt_of_some line i hi
  have hge : ¬ ((i : Int) ≥ GoLib.len line) := by unfold GoLib.len; omega
  have hc : c = 32 ∨ c = 9 ∨ c = 13 := (isBlank_iff c).1 hb
  conv => lhs; unfold GIV.Go.Script.parse_loop1
  simp only [Bool.not_false, hge, decide_false, Bool.false_eq_true, if_false, if_true, Option.pure_def,
    Option.bind_eq_bind, Option.bind_some, idx_nat, hi]
  cases start with
  | none =>
    have : ¬ ((startI none) ≥ 0) := by simp [startI]
    rcases hc with h | h | h <;> subst h <;> simp [this, startI]
  | some st =>
    have h0 : (startI (some st)) ≥ 0 := by simp [startI]
    have hsl := slice_nat line st i (hs st rfl) (Nat.le_of_lt hlt)
    simp only [startI] at h0 ⊢
    rcases hc with h | h | h <;> subst h <;> simp [h0, hsl]

theorem go_comment (start : Option Nat) {c : UInt8} (hi : line[i]? = some c) (hc : isComment c = true)
    (hs : ∀ st, start = some st → st ≤ i) :
    GIV.Go.Script.parse_loop1 env line (fuel + 1) args arg (startI start) false (i : Int) =
      some (.ok (match (generalizing := false) start with | some st => args ++ [arg ++ expand env (slice line st i)] | none => args)) := by
  have hlt := lt_of_some line i hi
  have hge : ¬ ((i : Int) ≥ GoLib.len line) := by unfold GoLib.len; omega
  have hc' : c = 35 := (isComment_iff c).1 hc
  subst hc'
  conv => lhs; unfold GIV.Go.Script.parse_loop1
  simp only [Bool.not_false, hge, decide_false, Bool.false_eq_true, if_false, if_true, Option.pure_def,
    Option.bind_eq_bind, Option.bind_some, idx_nat, hi]
  cases start with
  | none => simp [startI, GIV.Go.Script.parse_after1]
  | some st =>
    have h0 : (startI (some st)) ≥ 0 := by simp [startI]
    have hsl := slice_nat line st i (hs st rfl) (Nat.le_of_lt hlt)
    simp only [startI] at h0 ⊢
    simp [h0, hsl, GIV.Go.Script.parse_after1]

theorem go_ord (start : Option Nat) {c : UInt8} (hi : line[i]? = some c) (h : Ordinary c) :
    GIV.Go.Script.parse_loop1 env line (fuel + 1) args arg (startI start) false (i : Int) =
      GIV.Go.Script.parse_loop1 env line fuel args arg
        (startI (match (generalizing := false) start with | some st => some st | none => some i)) false ((i : Int) + 1) := by
  obtain ⟨hb, hc, hq⟩ := h
  have hlt := lt_of_some line i hi
  have hge : ¬ ((i : Int) ≥ GoLib.len line) := by unfold GoLib.len; omega
  have h32 : c ≠ 32 := fun e => by subst e; exact absurd hb (by decide)
  have h9 : c ≠ 9 := fun e => by subst e; exact absurd hb (by decide)
  have h13 : c ≠ 13 := fun e => by subst e; exact absurd hb (by decide)
  have h35 : c ≠ 35 := fun e => by subst e; exact absurd hc (by decide)
  have h39 : c ≠ 39 := hq
  conv => lhs; unfold GIV.Go.Script.parse_loop1
  simp only [Bool.not_false, hge, decide_false, Bool.false_eq_true, if_false, if_true, Option.pure_def,
    Option.bind_eq_bind, Option.bind_some, idx_nat, hi, beq_iff_eq, h32, h9, h13, h35, h39]
  cases start with
  | none => simp [startI]
  | some st =>
    have : ¬ ((st : Int) < 0) := by omega
    simp [startI, this]

theorem go_open (start : Option Nat) (hi : line[i]? = some quoteChar) (hs : ∀ st, start = some st → st ≤ i) :
    GIV.Go.Script.parse_loop1 env line (fuel + 1) args arg (startI start) false (i : Int) =
      GIV.Go.Script.parse_loop1 env line fuel args
        (arg ++ match (generalizing := false) start with | some st => expand env (slice line st i) | none => []) ((i : Int) + 1) true ((i : Int) + 1) := by
  have hlt := lt_of_some line i hi
  have hge : ¬ ((i : Int) ≥ GoLib.len line) := by unfold GoLib.len; omega
  have hq : quoteChar = 39 := rfl
  rw [hq] at hi
  conv => lhs; unfold GIV.Go.Script.parse_loop1
  simp only [Bool.not_false, hge, decide_false, Bool.false_eq_true, if_false, if_true, Option.pure_def,
    Option.bind_eq_bind, Option.bind_some, idx_nat, hi]
  cases start with
  | none => simp [startI]
  | some st =>
    have h0 : (startI (some st)) ≥ 0 := by simp [startI]
    have hsl := slice_nat line st i (hs st rfl) (Nat.le_of_lt hlt)
    simp only [startI] at h0 ⊢
    simp [h0, hsl]

theorem go_q_other (st : Nat) {c : UInt8} (hi : line[i]? = some c) (h : c ≠ quoteChar) :
    GIV.Go.Script.parse_loop1 env line (fuel + 1) args arg (st : Int) true (i : Int) =
      GIV.Go.Script.parse_loop1 env line fuel args arg (st : Int) true ((i : Int) + 1) := by
  have hlt := lt_of_some line i hi
  have hge : ¬ ((i : Int) ≥ GoLib.len line) := by unfold GoLib.len; omega
  have h39 : c ≠ 39 := h
  have : ¬ ((st : Int) < 0) := by omega
  conv => lhs; unfold GIV.Go.Script.parse_loop1
  simp [hge, idx_nat, hi, h39, this]

theorem go_q_doubled (st : Nat) (hi : line[i]? = some quoteChar) (hn : line[i + 1]? = some quoteChar)
    (hs : st ≤ i) :
    GIV.Go.Script.parse_loop1 env line (fuel + 1) args arg (st : Int) true (i : Int) =
      GIV.Go.Script.parse_loop1 env line fuel args (arg ++ slice line st i) ((i : Int) + 1) true ((i : Int) + 1 + 1) := by
  have hlt := lt_of_some line i hi
  have hlt1 := lt_of_some line (i + 1) hn
  have hge : ¬ ((i : Int) ≥ GoLib.len line) := by unfold GoLib.len; omega
  have hlt1' : ((i : Int) + 1 < GoLib.len line) := by unfold GoLib.len; omega
  have hq : quoteChar = 39 := rfl
  rw [hq] at hi hn
  have hsl := slice_nat line st i hs (Nat.le_of_lt hlt)
  conv => lhs; unfold GIV.Go.Script.parse_loop1
  simp [hge, idx_nat, idx_nat1, hi, hn, hlt1', hsl]

theorem go_q_close (st : Nat) (hi : line[i]? = some quoteChar) (hn : line[i + 1]? ≠ some quoteChar)
    (hs : st ≤ i) :
    GIV.Go.Script.parse_loop1 env line (fuel + 1) args arg (st : Int) true (i : Int) =
      GIV.Go.Script.parse_loop1 env line fuel args (arg ++ slice line st i) ((i : Int) + 1) false ((i : Int) + 1) := by
  have hlt := lt_of_some line i hi
  have hge : ¬ ((i : Int) ≥ GoLib.len line) := by unfold GoLib.len; omega
  have hq : quoteChar = 39 := rfl
  rw [hq] at hi hn
  have hsl := slice_nat line st i hs (Nat.le_of_lt hlt)
  conv => lhs; unfold GIV.Go.Script.parse_loop1
  by_cases hl : i + 1 < line.length
  · have hlt1' : ((i : Int) + 1 < GoLib.len line) := by unfold GoLib.len; omega
    have hne : line[i + 1]? ≠ some 39 := hn
    have hc : line[i + 1]? = some line[i + 1] := List.getElem?_eq_getElem hl
    have : line[i + 1] ≠ 39 := fun e => hne (by rw [hc, e])
    simp [hge, idx_nat, idx_nat1, hi, hc, hlt1', hsl, this]
  · have hlt1' : ¬ ((i : Int) + 1 < GoLib.len line) := by unfold GoLib.len; omega
    simp [hge, idx_nat, hi, hlt1', hsl]
end steps

/-- Simulation: the translated loop computes the index-form loop, step for step (same budget). -/
theorem parse_loop_eq (env : Env) (line : Bytes) :
    ∀ (fuel i : Nat) (args : List Bytes) (arg : Bytes) (start : Option Nat) (quoted : Bool),
      (∀ st, start = some st → st ≤ i) → (quoted = true → start.isSome = true) → i ≤ line.length →
      GIV.Go.Script.parse_loop1 env line fuel args arg (startI start) quoted (i : Int) =
        resOf (parseIdxLoop env line fuel i args arg start quoted) := by
  intro fuel
  induction fuel with
  | zero => intro i args arg start quoted _ _ _; rfl
  | succ fuel ih =>
    intro i args arg start quoted hst hqs hil
    cases hi : line[i]? with
    | none =>
      cases quoted
      · rw [go_end_unq _ _ _ _ _ _ _ hi hst hil, idx_end_unq _ _ _ _ _ _ _ hi]; rfl
      · rw [go_end_q _ _ _ _ _ _ _ hi, idx_end_q _ _ _ _ _ _ _ hi]; rfl
    | some c =>
      have hlt : i < line.length := lt_of_some line i hi
      have hcast : ((i : Int) + 1) = ((i + 1 : Nat) : Int) := by omega
      cases quoted with
      | false =>
        by_cases hq : c = quoteChar
        · subst hq
          rw [go_open _ _ _ _ _ _ _ hi hst, idx_open _ _ _ _ _ _ _ hi, hcast]
          exact ih (i + 1) args _ (some (i + 1)) true (by simp) (by simp) (by omega)
        · by_cases hcm : isComment c = true
          · rw [go_comment _ _ _ _ _ _ _ hi hcm hst, idx_comment _ _ _ _ _ _ _ hi hcm]; rfl
          · have hcm' : isComment c = false := by simpa using hcm
            by_cases hb : isBlank c = true
            · rw [go_blank _ _ _ _ _ _ _ hi hb hst, idx_blank _ _ _ _ _ _ _ hi hb]
              cases start with
              | none =>
                have := ih (i + 1) args arg none false (by simp) (by simp) (by omega)
                rw [← hcast] at this
                exact this
              | some st =>
                have := ih (i + 1) (args ++ [arg ++ expand env (slice line st i)]) [] none false (by simp) (by simp) (by omega)
                rw [← hcast] at this
                exact this
            · have hb' : isBlank c = false := by simpa using hb
              have ho : Ordinary c := ⟨hb', hcm', hq⟩
              rw [go_ord _ _ _ _ _ _ _ hi ho, idx_ord _ _ _ _ _ _ _ hi ho, hcast]
              cases start with
              | none => exact ih (i + 1) args arg (some i) false (by intro s hs; cases hs; omega) (by simp) (by omega)
              | some st =>
                have hsti : st ≤ i := hst st rfl
                exact ih (i + 1) args arg (some st) false (by intro s hs; cases hs; omega) (by simp) (by omega)
      | true =>
        obtain ⟨st, rfl⟩ : ∃ st, start = some st := by
          cases start with
          | none => simp at hqs
          | some st => exact ⟨st, rfl⟩
        have hsti : st ≤ i := hst st rfl
        simp only [startI]
        by_cases hq : c = quoteChar
        · subst hq
          by_cases hn : line[i + 1]? = some quoteChar
          · have hlt2 : i + 1 < line.length := lt_of_some line (i + 1) hn
            have hcast2 : (((i + 1 : Nat) : Int) + 1) = ((i + 2 : Nat) : Int) := by omega
            rw [go_q_doubled _ _ _ _ _ _ _ hi hn hsti, idx_q_doubled _ _ _ _ _ _ _ hi hn, hcast, hcast2]
            exact ih (i + 2) args _ (some (i + 1)) true (by intro s hs; cases hs; omega) (by simp) (by omega)
          · rw [go_q_close _ _ _ _ _ _ _ hi hn hsti, idx_q_close _ _ _ _ _ _ _ hi hn, hcast]
            exact ih (i + 1) args _ (some (i + 1)) false (by simp) (by simp) (by omega)
        · rw [go_q_other _ _ _ _ _ _ _ hi hq, idx_q_other _ _ _ _ _ _ _ hi hq, hcast]
          exact ih (i + 1) args arg (some st) true (by intro s hs; cases hs; omega) (by simp) (by omega)

/-- The translated tokenizer is the model's, for every environment and every line. -/
theorem parse_eq (env : Env) (line : Bytes) : GIV.Go.Script.parse env line = resOf (parseIdx env line) := by
  unfold GIV.Go.Script.parse parseIdx
  exact parse_loop_eq env line (line.length + 1) 0 [] [] none false (by simp) (by simp) (by omega)

/-! ### the mapping function of `expand` (the closure handed to os.Expand) -/

theorem trimSuffix_isSuffixOf (key suf : Bytes) :
    GoLib.trimSuffix key suf = if suf.isSuffixOf key then key.take (key.length - suf.length) else key := by
  unfold GoLib.trimSuffix GoLib.hasSuffix
  by_cases h : suf <:+ key
  · have hlen := h.length_le
    have hd : key.drop (key.length - suf.length) = suf := (List.suffix_iff_eq_drop.mp h).symm
    simp [List.isSuffixOf_iff_suffix.mpr h, hlen, hd]
  · have hs : suf.isSuffixOf key = false := by
      cases hh : suf.isSuffixOf key
      · rfl
      · exact absurd (List.isSuffixOf_iff_suffix.mp hh) h
    rw [hs]
    by_cases hlen : suf.length ≤ key.length
    · by_cases hd : key.drop (key.length - suf.length) = suf
      · exact absurd (List.suffix_iff_eq_drop.mpr hd.symm) h
      · simp [hlen, hd]
    · simp [hlen]

/-- The translated mapping function of `expand` is the model's, for every environment and key. -/
theorem expandMapping_eq (env : Env) (key : Bytes) :
    GIV.Go.Script.expandMapping env key = some (GoLib.Res.ok (GIV.Script.expandMapping env key)) := by
  have f1 : Gen.Script.atRSuffix = [64, 82] := rfl
  have f2 : Gen.Script.atRQuotesMeta = true := rfl
  have f3 : Gen.Script.expandUsesGetenv = true := rfl
  unfold GIV.Go.Script.expandMapping GIV.Script.expandMapping
  simp only [f1, f2, f3, if_true, trimSuffix_isSuffixOf, GoLib.len]
  by_cases hs : ([64, 82] : Bytes).isSuffixOf key
  · by_cases hl : key.length - 2 = key.length
    · have hi : (((key.length - 2 : Nat) : Int) = ((key.length : Nat) : Int)) := by omega
      simp [hs, hl, hi]
    · have hi : ¬ (((key.length - 2 : Nat) : Int) = ((key.length : Nat) : Int)) := by omega
      simp [hs, hl, hi]
  · simp [hs]
end GIV.ScriptGo
