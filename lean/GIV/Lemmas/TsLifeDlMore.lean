/-
  More lemmas for GIV.Model.TsLifeDl (property C17):
    §1  the order of the events of the plan and that no intermediate value of RunT's deadline block
        leaves the int64 range of time.Duration;
    §7  the complete table of cmdExec's attribution;
    §6  waitOrStop: every action happens at most once (counted over the labels of an execution),
        signals are sent only after the context's expiry (times), and the interrupt error is
        returned exactly when the Signal call was made and did not report ErrProcessDone.
-/
import GIV.Lemmas.TsLifeGrace
import GIV.Lemmas.TsLifeWosMain

namespace GIV.TsLife
open GIV

/-! ### §1 the plan -/

/-- interrupt, one grace period, kill, one grace period, deadline; a grace period is ≥ 100ms. -/
theorem plan_order [FGrace] (t : Int) :
    (plan t).interruptAt + (plan t).grace = (plan t).killAt ∧ (plan t).killAt + (plan t).grace = t ∧
    (plan t).interruptAt + 100000000 ≤ (plan t).killAt ∧ (plan t).killAt + 100000000 ≤ t := by
  obtain ⟨hg, hi, hk⟩ := plan_eq t
  have := grace_ge t
  rw [hg, hi, hk]
  omega

/-- the value is an int64 (a `time.Duration`). -/
def fits64 (x : Int) : Prop := -9223372036854775808 ≤ x ∧ x ≤ 9223372036854775807

instance (x : Int) : Decidable (fits64 x) := by unfold fits64; infer_instance

/-- every value computed by RunT's deadline block (`timeout / 20`, the grace period, `2 * gracePeriod`,
`timeout - 2 * gracePeriod`) and the kill offset is an int64 again, for every int64 `timeout` that is
not within 200ms of the most negative duration. -/
theorem plan_fits64 [FGrace] (t : Int) (h1 : -9223372036654775808 ≤ t) (h2 : t ≤ 9223372036854775807) :
    fits64 (Int.tdiv t 20) ∧ fits64 (grace t) ∧ fits64 (2 * grace t) ∧ fits64 (ctxTimeout t) ∧
    fits64 (ctxTimeout t + fgKillDelay t) := by
  simp only [fits64, fgKillDelay, ctxTimeout_eq, grace_eq]
  by_cases h0 : 0 ≤ t
  · rw [Int.tdiv_eq_ediv_of_nonneg h0]; split <;> omega
  · have := tdiv20_of_neg t (by omega)
    have h3 : -(-t) = t := by omega
    have : Int.tdiv t 20 = -((-t) / 20) := by
      rw [← Int.tdiv_eq_ediv_of_nonneg (by omega), ← Int.neg_tdiv, h3]
    split <;> omega

/-! ### §7 cmdExec: the whole table -/

theorem cmdExec_table [F : FExec] (neg err ctx : Bool) :
    cmdExecOutcome neg err ctx =
      if err && ctx then .fatal "test timed out while running command"
      else if err == neg then .ok
      else if err then .fatal "unexpected command failure" else .fatal "unexpected command success" := by
  cases neg <;> cases err <;> cases ctx <;> simp [cmdExecOutcome, F.first, F.negOk, F.msg]

theorem cmdExec_timeout_iff [FExec] (neg err ctx : Bool) :
    cmdExecOutcome neg err ctx = .fatal "test timed out while running command" ↔ (err = true ∧ ctx = true) := by
  rw [cmdExec_table]
  cases neg <;> cases err <;> cases ctx <;> simp <;> decide

/-! ### §6 waitOrStop: every action at most once -/

def Lbl.isCtxFire : Lbl → Bool | .ctxFire _ => true | _ => false
def Lbl.isExit : Lbl → Bool | .exitOwn _ | .exitSig _ | .exitKill _ => true | _ => false
def Lbl.isWaitRet : Lbl → Bool | .waitRet _ => true | _ => false
def Lbl.isSendRecv : Lbl → Bool | .sendRecv _ => true | _ => false
def Lbl.isSelCtx : Lbl → Bool | .selCtx _ => true | _ => false
def Lbl.isSignal : Lbl → Bool | .signal _ _ => true | _ => false
def Lbl.isTimer : Lbl → Bool | .timer _ => true | _ => false
def Lbl.isKill : Lbl → Bool | .kill _ => true | _ => false

/-- what is still to come, per action: 1 while the action can still happen, 0 afterwards. -/
def St.cLeft (s : St) : Nat := if s.ctxDone then 0 else 1
def St.eLeft (s : St) : Nat := match s.proc with | .running _ _ => 1 | .exited _ => 0
def St.wLeft (s : St) : Nat := match s.w with | .waiting => 1 | _ => 0
def St.rLeft (s : St) : Nat := match s.s with | .done => 0 | _ => 1
def St.selLeft (s : St) : Nat := match s.s with | .sel1 => 1 | _ => 0
def St.gLeft (s : St) : Nat := match s.s with | .sel1 | .sig => 1 | _ => 0
def St.tLeft (s : St) : Nat := match s.s with | .sel1 | .sig | .sel2 _ _ => 1 | _ => 0
def St.kLeft (s : St) : Nat := match s.s with | .sel1 | .sig | .sel2 _ _ | .kill _ => 1 | _ => 0

def b2n (b : Bool) : Nat := if b then 1 else 0

theorem afterSignal_cases (c : Scn) (e : SErr) (t : Nat) :
    afterSignal c e t = .sel2 e t ∨ afterSignal c e t = .sendErr e := by
  unfold afterSignal; split <;> simp

/-- one step: each budget goes down by one exactly at its own label (for the stopper's later
actions: at least by that much, because the rendezvous can end the stopper earlier). -/
theorem budget_step {c : Scn} {s s' : St} {l : Lbl} (h : step c s l = some s') :
    b2n l.isCtxFire + s'.cLeft = s.cLeft ∧ b2n l.isExit + s'.eLeft = s.eLeft ∧
    b2n l.isWaitRet + s'.wLeft = s.wLeft ∧ b2n l.isSendRecv + s'.rLeft = s.rLeft ∧
    b2n l.isSelCtx + s'.selLeft ≤ s.selLeft ∧ b2n l.isSignal + s'.gLeft ≤ s.gLeft ∧
    b2n l.isTimer + s'.tLeft ≤ s.tLeft ∧ b2n l.isKill + s'.kLeft ≤ s.kLeft := by
  obtain ⟨_, s1, h1, rfl⟩ := step_some h
  clear h
  obtain ⟨now, ctxDone, proc, w, st, sends, recvs, sigAt, delivered, killAt⟩ := s
  cases l <;> simp only [stepCore] at h1 <;> (repeat' split at h1) <;>
    first
      | contradiction
      | (injection h1 with h1; subst h1
         cases st <;>
         simp_all [St.cLeft, St.eLeft, St.wLeft, St.rLeft, St.selLeft, St.gLeft, St.tLeft, St.kLeft, b2n, Stopper.offer,
           Lbl.isCtxFire, Lbl.isExit, Lbl.isWaitRet, Lbl.isSendRecv, Lbl.isSelCtx, Lbl.isSignal, Lbl.isTimer, Lbl.isKill]
         done)
      | (injection h1 with h1; subst h1
         simp_all [St.cLeft, St.eLeft, St.wLeft, St.rLeft, St.selLeft, St.gLeft, St.tLeft, St.kLeft, b2n,
           Lbl.isCtxFire, Lbl.isExit, Lbl.isWaitRet, Lbl.isSendRecv, Lbl.isSelCtx, Lbl.isSignal, Lbl.isTimer, Lbl.isKill]
         done)
      | (injection h1 with h1; subst h1
         rcases afterSignal_cases c .ctxErr ‹Nat› with hh | hh <;>
         simp_all [St.cLeft, St.eLeft, St.wLeft, St.rLeft, St.selLeft, St.gLeft, St.tLeft, St.kLeft, b2n,
           Lbl.isCtxFire, Lbl.isExit, Lbl.isWaitRet, Lbl.isSendRecv, Lbl.isSelCtx, Lbl.isSignal, Lbl.isTimer, Lbl.isKill]
         done)
      | (injection h1 with h1; subst h1
         rcases afterSignal_cases c .other ‹Nat› with hh | hh <;>
         simp_all [St.cLeft, St.eLeft, St.wLeft, St.rLeft, St.selLeft, St.gLeft, St.tLeft, St.kLeft, b2n,
           Lbl.isCtxFire, Lbl.isExit, Lbl.isWaitRet, Lbl.isSendRecv, Lbl.isSelCtx, Lbl.isSignal, Lbl.isTimer, Lbl.isKill]
         done)

theorem b2n_countP (p : Lbl → Bool) (l : Lbl) (rest : List Lbl) :
    (l :: rest).countP p = b2n (p l) + rest.countP p := by
  simp only [List.countP_cons, b2n]; omega

theorem budget_run {c : Scn} : ∀ (ls : List Lbl) {s s' : St}, runLbls c s ls = some s' →
    ls.countP Lbl.isCtxFire + s'.cLeft = s.cLeft ∧ ls.countP Lbl.isExit + s'.eLeft = s.eLeft ∧
    ls.countP Lbl.isWaitRet + s'.wLeft = s.wLeft ∧ ls.countP Lbl.isSendRecv + s'.rLeft = s.rLeft ∧
    ls.countP Lbl.isSelCtx + s'.selLeft ≤ s.selLeft ∧ ls.countP Lbl.isSignal + s'.gLeft ≤ s.gLeft ∧
    ls.countP Lbl.isTimer + s'.tLeft ≤ s.tLeft ∧ ls.countP Lbl.isKill + s'.kLeft ≤ s.kLeft
  | [], s, s', h => by simp [runLbls] at h; subst h; simp
  | l :: rest, s, s', h => by
    simp only [runLbls] at h
    split at h
    · cases h
    · rename_i s1 h1
      have a := budget_run rest h
      have b := budget_step h1
      simp only [b2n_countP]
      omega

/-! ### §6 waitOrStop: times -/

/-- the clock of the transition system against the recorded times. -/
structure TInv (c : Scn) (s : St) : Prop where
  t1 : s.ctxDone = true → ∃ d, c.deadline = some d ∧ d ≤ s.now
  t2 : ∀ ti, s.sigAt = some ti → ti ≤ s.now ∧ ∃ d, c.deadline = some d ∧ d ≤ ti
  t3 : ∀ tk, s.killAt = some tk → tk ≤ s.now

theorem tinv_init (c : Scn) : TInv c St.init := by
  constructor <;> simp [St.init]

/-- which fields a step can change -/
theorem step_frame {c : Scn} {s s' : St} {l : Lbl} (h : step c s l = some s') :
    s.now ≤ s'.now ∧ s'.now = l.time ∧
    (l.isCtxFire = false → s'.ctxDone = s.ctxDone) ∧ (l.isSignal = false → s'.sigAt = s.sigAt) ∧
    (l.isKill = false → s'.killAt = s.killAt) := by
  obtain ⟨hle, s1, h1, rfl⟩ := step_some h
  clear h
  refine ⟨hle, rfl, ?_⟩
  cases l <;> simp only [stepCore] at h1 <;> (repeat' split at h1) <;>
    first
      | contradiction
      | (injection h1 with h1; subst h1
         simp [Lbl.isCtxFire, Lbl.isSignal, Lbl.isKill])

theorem tinv_step {c : Scn} {s s' : St} {l : Lbl} (hi : Inv c s) (ht : TInv c s) (h : step c s l = some s') :
    TInv c s' := by
  obtain ⟨hnow, htime, fc, fs, fk⟩ := step_frame h
  obtain ⟨t1, t2, t3⟩ := ht
  -- the three labels that record something
  have hc : l.isCtxFire = true → ∃ d, c.deadline = some d ∧ d ≤ s'.now := by
    intro hl
    cases l <;> simp [Lbl.isCtxFire] at hl
    obtain ⟨_, s1, h1, rfl⟩ := step_some h
    simp only [stepCore] at h1
    split at h1
    · rename_i d hd
      split at h1
      · rename_i hcond
        simp only [Bool.and_eq_true, decide_eq_true_eq] at hcond
        exact ⟨d, hd, by simpa [Lbl.time] using hcond.1.2⟩
      · cases h1
    · cases h1
  have hs : l.isSignal = true → s.ctxDone = true ∧ s'.sigAt = some s'.now := by
    intro hl
    cases l <;> simp [Lbl.isSignal] at hl
    obtain ⟨_, s1, h1, rfl⟩ := step_some h
    simp only [stepCore] at h1
    split at h1
    · rename_i hst
      have h6 := hi.j6 (by simp [hst, Stopper.afterCtx])
      refine ⟨h6, ?_⟩
      (repeat' split at h1) <;> first | contradiction | (injection h1 with h1; subst h1; simp [Lbl.time])
    · cases h1
  have hk : l.isKill = true → s'.killAt = some s'.now := by
    intro hl
    cases l <;> simp [Lbl.isKill] at hl
    obtain ⟨_, s1, h1, rfl⟩ := step_some h
    simp only [stepCore] at h1
    split at h1
    · injection h1 with h1; subst h1; simp [Lbl.time]
    · cases h1
  refine ⟨?_, ?_, ?_⟩
  · intro hd
    cases hl : l.isCtxFire with
    | true => exact hc hl
    | false =>
      rw [fc hl] at hd
      obtain ⟨d, a, b⟩ := t1 hd
      exact ⟨d, a, by omega⟩
  · intro ti hti
    cases hl : l.isSignal with
    | true =>
      obtain ⟨hcd, hsa⟩ := hs hl
      rw [hsa] at hti
      injection hti with hti
      obtain ⟨d, a, b⟩ := t1 hcd
      exact ⟨by omega, d, a, by omega⟩
    | false =>
      rw [fs hl] at hti
      obtain ⟨a, b⟩ := t2 ti hti
      exact ⟨by omega, b⟩
  · intro tk htk
    cases hl : l.isKill with
    | true =>
      rw [hk hl] at htk
      injection htk with htk
      omega
    | false =>
      rw [fk hl] at htk
      have := t3 tk htk
      omega

theorem tinv_run {c : Scn} : ∀ (ls : List Lbl) {s s' : St}, Inv c s → TInv c s → runLbls c s ls = some s' → TInv c s'
  | [], s, s', _, ht, h => by simp [runLbls] at h; subst h; exact ht
  | l :: rest, s, s', hi, ht, h => by
    simp only [runLbls] at h
    split at h
    · cases h
    · rename_i s1 h1
      exact tinv_run rest (inv_step hi h1) (tinv_step hi ht h1) h

theorem tinv_reach {c : Scn} {ls : List Lbl} {s : St} (h : runLbls c St.init ls = some s) : TInv c s :=
  tinv_run ls (inv_init c) (tinv_init c) h

/-! ### §6 waitOrStop: when the interrupt error is returned -/

/-- the stopper has a non-nil error to send, or the waiter has received one. -/
def St.intr (s : St) : Bool :=
  s.s.signalled || (match s.w with | .returned (some _) => true | _ => false)

/-- `cmd.Process.Signal` was called and returned nil or an error other than ErrProcessDone. -/
def Lbl.sigSent : Lbl → Bool
  | .signal _ .ok | .signal _ .other => true
  | _ => false

theorem intr_step {c : Scn} {s s' : St} {l : Lbl} (hi : Inv c s) (h : step c s l = some s') :
    s'.intr = (s.intr || l.sigSent) := by
  obtain ⟨_, s1, h1, rfl⟩ := step_some h
  clear h
  have j1 := hi.j1
  obtain ⟨now, ctxDone, proc, w, st, sends, recvs, sigAt, delivered, killAt⟩ := s
  simp only at j1
  clear hi
  cases l with
  | sendRecv t =>
    simp only [stepCore] at h1
    split at h1
    · rename_i v ho hle
      injection h1 with h1; subst h1
      cases st <;> simp [Stopper.offer] at ho <;> (try subst ho) <;> simp [St.intr, Lbl.sigSent, Stopper.signalled]
    · cases h1
  | _ =>
    simp only [stepCore] at h1 <;> (repeat' split at h1) <;>
    first
      | contradiction
      | (injection h1 with h1; subst h1
         simp_all [St.intr, Lbl.sigSent, Stopper.signalled]
         done)
      | (injection h1 with h1; subst h1
         rcases afterSignal_cases c .ctxErr ‹Nat› with hh | hh <;>
         simp_all [St.intr, Lbl.sigSent, Stopper.signalled]
         done)
      | (injection h1 with h1; subst h1
         rcases afterSignal_cases c .other ‹Nat› with hh | hh <;>
         simp_all [St.intr, Lbl.sigSent, Stopper.signalled]
         done)

theorem intr_run {c : Scn} : ∀ (ls : List Lbl) {s s' : St}, Inv c s → runLbls c s ls = some s' →
    s'.intr = (s.intr || ls.any Lbl.sigSent)
  | [], s, s', _, h => by simp [runLbls] at h; subst h; simp
  | l :: rest, s, s', hi, h => by
    simp only [runLbls] at h
    split at h
    · cases h
    · rename_i s1 h1
      rw [intr_run rest (inv_step hi h1) h, intr_step hi h1]
      simp [Bool.or_assoc]

/-- for an execution from the start: waitOrStop returns the interrupt error iff the Signal call was
made and did not return ErrProcessDone. -/
theorem result_interrupt_iff {c : Scn} {ls : List Lbl} {s : St} (h : runLbls c St.init ls = some s)
    (hf : s.final = true) :
    (∃ e, s.result = some (.interruptErr e)) ↔ ls.any Lbl.sigSent = true := by
  have hr := intr_run ls (inv_init c) h
  have h0 : St.init.intr = false := by decide
  rw [h0, Bool.false_or] at hr
  rw [← hr]
  simp only [St.final, Bool.and_eq_true, beq_iff_eq] at hf
  obtain ⟨⟨⟨hw, hs⟩, _⟩, _⟩ := hf
  unfold St.intr St.result
  rw [hs]
  cases hw' : s.w with
  | waiting => simp [hw'] at hw
  | ready => simp [hw'] at hw
  | returned v =>
    cases v with
    | none => cases s.proc <;> simp [Stopper.signalled]
    | some e => simp [Stopper.signalled]

/-! ### §6 waitOrStop: which interrupt error -/

/-- the error the stopper holds, or the waiter has received, is the error of a failed Signal call. -/
def Stopper.err? : Stopper → Option SErr
  | .sel2 e _ | .kill e | .sendErr e => some e
  | _ => none

def St.errOther (s : St) : Bool :=
  s.s.err? == some .other || s.w == .returned (some .other)

theorem errOther_step {c : Scn} {s s' : St} {l : Lbl} (hi : Inv c s) (h : step c s l = some s')
    (hp : s.errOther = true → s.delivered = false) : s'.errOther = true → s'.delivered = false := by
  obtain ⟨_, s1, h1, rfl⟩ := step_some h
  clear h
  have j8 := hi.j8
  have j1 := hi.j1
  obtain ⟨now, ctxDone, proc, w, st, sends, recvs, sigAt, delivered, killAt⟩ := s
  simp only at j1 j8 hp
  clear hi
  cases l with
  | sendRecv t =>
    simp only [stepCore] at h1
    split at h1
    · rename_i v ho hle
      injection h1 with h1; subst h1
      cases st <;> simp [Stopper.offer] at ho <;> (try subst ho) <;> simp_all [St.errOther, Stopper.err?]
    · cases h1
  | _ =>
    simp only [stepCore] at h1 <;> (repeat' split at h1) <;>
    first
      | contradiction
      | (injection h1 with h1; subst h1
         simp_all [St.errOther, Stopper.preSignal, Stopper.err?]
         done)
      | (injection h1 with h1; subst h1
         rcases afterSignal_cases c .ctxErr ‹Nat› with hh | hh <;>
         simp_all [St.errOther, Stopper.preSignal, Stopper.err?]
         done)
      | (injection h1 with h1; subst h1
         rcases afterSignal_cases c .other ‹Nat› with hh | hh <;>
         simp_all [St.errOther, Stopper.preSignal, Stopper.err?]
         done)

theorem errOther_run {c : Scn} : ∀ (ls : List Lbl) {s s' : St}, Inv c s → runLbls c s ls = some s' →
    (s.errOther = true → s.delivered = false) → s'.errOther = true → s'.delivered = false
  | [], s, s', _, h, hp => by simp [runLbls] at h; subst h; exact hp
  | l :: rest, s, s', hi, h, hp => by
    simp only [runLbls] at h
    split at h
    · cases h
    · rename_i s1 h1
      exact errOther_run rest (inv_step hi h1) h (errOther_step hi h1 hp)

/-- when the interrupt reached the live process, what waitOrStop returns is the context's error. -/
theorem delivered_result {c : Scn} {ls : List Lbl} {s : St} (h : runLbls c St.init ls = some s)
    (hf : s.final = true) (hd : s.delivered = true) : s.result = some (.interruptErr .ctxErr) := by
  have hi := inv_reach h
  have ho := errOther_run ls (inv_init c) h (by decide)
  simp only [St.final, Bool.and_eq_true, beq_iff_eq] at hf
  obtain ⟨⟨⟨hw, hs⟩, _⟩, _⟩ := hf
  cases hw' : s.w with
  | waiting => simp [hw'] at hw
  | ready => simp [hw'] at hw
  | returned v =>
    cases v with
    | none => have := (hi.j10 hw').1; simp [hd] at this
    | some e =>
      cases e with
      | ctxErr => simp [St.result, hw']
      | other =>
        have := ho (by simp [St.errOther, hw'])
        simp [hd] at this

end GIV.TsLife
