/-
  C18 — how the byte machine runs on well-formed input ("good path"): one lemma per reader
  function, giving the exact resulting state.
-/
import GIV.Lemmas.ImportsReadGrammar

namespace GIV.C18
open GIV GIV.ReadImports GIV.Gen.Imports

/-- a state on the good path: no error, not at EOF. -/
def G (rest buf : Bytes) (peek : UInt8) (imps : List Bytes) : St :=
  { rest := rest, buf := buf, peek := peek, err := none, eof := false, nerr := 0, imports := imps,
    panicked := false, stuck := false }

/-- the state after a clean end of input. -/
def E (buf : Bytes) (peek : UInt8) (imps : List Bytes) : St :=
  { rest := [], buf := buf, peek := peek, err := none, eof := true, nerr := 0, imports := imps,
    panicked := false, stuck := false }

/-- a byte at which space skipping stops. -/
def solid (d : UInt8) : Prop := isSpace d = false ∧ d ≠ 47 ∧ d ≠ 0

theorem isSpace_iff (c : UInt8) :
    isSpace c = true ↔ (c = 32 ∨ c = 12 ∨ c = 9 ∨ c = 13 ∨ c = 10 ∨ c = 59) := by
  simp [isSpace, spaceBytes]

theorem isSpace_ne (c : UInt8) (h : isSpace c = true) : c ≠ 0 ∧ c ≠ 47 := by
  rw [isSpace_iff] at h
  rcases h with h | h | h | h | h | h <;> subst h <;> decide

theorem isSpace_47 : isSpace 47 = false := by decide

theorem isIdent_solid (c : UInt8) (h : isIdent c = true) : solid c := by
  refine ⟨?_, ?_, ?_⟩
  · cases hs : isSpace c with
    | false => rfl
    | true =>
      rw [isSpace_iff] at hs
      rcases hs with hs | hs | hs | hs | hs | hs <;> subst hs <;> exact absurd h (by decide)
  · intro h0; subst h0; exact absurd h (by decide)
  · intro h0; subst h0; exact absurd h (by decide)

@[simp] theorem G_rest (r b : Bytes) (p : UInt8) (i : List Bytes) : (G r b p i).rest = r := rfl
@[simp] theorem G_buf (r b : Bytes) (p : UInt8) (i : List Bytes) : (G r b p i).buf = b := rfl
@[simp] theorem G_peek (r b : Bytes) (p : UInt8) (i : List Bytes) : (G r b p i).peek = p := rfl
@[simp] theorem G_err (r b : Bytes) (p : UInt8) (i : List Bytes) : (G r b p i).err = none := rfl
@[simp] theorem G_eof (r b : Bytes) (p : UInt8) (i : List Bytes) : (G r b p i).eof = false := rfl
@[simp] theorem G_imports (r b : Bytes) (p : UInt8) (i : List Bytes) : (G r b p i).imports = i := rfl
@[simp] theorem E_rest (b : Bytes) (p : UInt8) (i : List Bytes) : (E b p i).rest = [] := rfl
@[simp] theorem E_peek (b : Bytes) (p : UInt8) (i : List Bytes) : (E b p i).peek = p := rfl
@[simp] theorem E_err (b : Bytes) (p : UInt8) (i : List Bytes) : (E b p i).err = none := rfl
@[simp] theorem E_eof (b : Bytes) (p : UInt8) (i : List Bytes) : (E b p i).eof = true := rfl
@[simp] theorem G_setPeek (r b : Bytes) (p q : UInt8) (i : List Bytes) : { G r b p i with peek := q } = G r b q i := rfl
@[simp] theorem E_setPeek (b : Bytes) (p q : UInt8) (i : List Bytes) : { E b p i with peek := q } = E b q i := rfl

theorem readByte_G (c : UInt8) (r b : Bytes) (p : UInt8) (i : List Bytes) (hc : c ≠ 0) :
    readByte (G (c :: r) b p i) = (c, G r (c :: b) p i) := by
  simp [readByte, G, hc]

@[simp] theorem readByte_G_nil (b : Bytes) (p : UInt8) (i : List Bytes) :
    readByte (G [] b p i) = (0, E b p i) := by
  simp [readByte, G, E]

@[simp] theorem readByte_E (b : Bytes) (p : UInt8) (i : List Bytes) :
    readByte (E b p i) = (0, E b p i) := by
  simp [readByte, E]

/-! ### comments -/

theorem lineLoop_run (tl : Bytes) (p : UInt8) (i : List Bytes) :
    ∀ (body : Bytes) (n : Nat) (c : UInt8) (b : Bytes), noNul body = true → body.all (· ≠ 10) = true →
      c ≠ 10 → body.length + 1 ≤ n →
      lineLoop n c (G (body ++ 10 :: tl) b p i) = (10, G tl (10 :: body.reverse ++ b) p i) := by
  intro body
  induction body with
  | nil =>
    intro n c b _ _ hc hn
    obtain ⟨m, rfl⟩ : ∃ m, n = m + 1 := ⟨n - 1, by omega⟩
    rw [lineLoop]
    simp only [List.nil_append, G_err, G_eof, ne_eq, hc, not_false_eq_true, decide_true, Option.isNone_none,
      Bool.and_self, Bool.not_false, if_true, readByte_G 10 tl b p i (by decide)]
    cases m <;> simp [lineLoop]
  | cons x xs ih =>
    intro n c b hnul hnl hc hn
    obtain ⟨m, rfl⟩ : ∃ m, n = m + 1 := ⟨n - 1, by simp at hn; omega⟩
    simp only [noNul, List.all_cons, Bool.and_eq_true, decide_eq_true_eq] at hnul hnl
    rw [lineLoop]
    simp only [List.cons_append, G_err, G_eof, ne_eq, hc, not_false_eq_true, decide_true, Option.isNone_none,
      Bool.and_self, Bool.not_false, if_true, readByte_G x _ b p i hnul.1]
    rw [ih m x (x :: b) (by simpa [noNul] using hnul.2) hnl.2 hnl.1 (by simp at hn; omega)]
    simp

/-- a line comment that runs into the end of input. -/
theorem lineLoop_run_eof (p : UInt8) (i : List Bytes) :
    ∀ (body : Bytes) (n : Nat) (c : UInt8) (b : Bytes), noNul body = true → body.all (· ≠ 10) = true →
      c ≠ 10 → body.length + 1 ≤ n →
      lineLoop n c (G body b p i) = (0, E (body.reverse ++ b) p i) := by
  intro body
  induction body with
  | nil =>
    intro n c b _ _ hc hn
    obtain ⟨m, rfl⟩ : ∃ m, n = m + 1 := ⟨n - 1, by omega⟩
    rw [lineLoop]
    simp only [G_err, G_eof, ne_eq, hc, not_false_eq_true, decide_true, Option.isNone_none,
      Bool.and_self, Bool.not_false, if_true, readByte_G_nil]
    cases m <;> simp [lineLoop]
  | cons x xs ih =>
    intro n c b hnul hnl hc hn
    obtain ⟨m, rfl⟩ : ∃ m, n = m + 1 := ⟨n - 1, by simp at hn; omega⟩
    simp only [noNul, List.all_cons, Bool.and_eq_true, decide_eq_true_eq] at hnul hnl
    rw [lineLoop]
    simp only [G_err, G_eof, ne_eq, hc, not_false_eq_true, decide_true, Option.isNone_none,
      Bool.and_self, Bool.not_false, if_true, readByte_G x _ b p i hnul.1]
    rw [ih m x (x :: b) (by simpa [noNul] using hnul.2) hnl.2 hnl.1 (by simp at hn; omega)]
    simp

theorem blockLoop_run (tl : Bytes) (p : UInt8) (i : List Bytes) :
    ∀ (body : Bytes) (n : Nat) (c c1 : UInt8) (b : Bytes), noNul body = true → noStarSlash (c1 :: body) = true →
      (c ≠ 42 ∨ c1 ≠ 47) → body.length + 3 ≤ n →
      blockLoop n c c1 (G (body ++ 42 :: 47 :: tl) b p i) = G tl (47 :: 42 :: body.reverse ++ b) p i := by
  intro body
  induction body with
  | nil =>
    intro n c c1 b _ _ hcc hn
    obtain ⟨m, rfl⟩ : ∃ m, n = m + 3 := ⟨n - 3, by simp at hn; omega⟩
    have h1 : (decide (c ≠ 42) || decide (c1 ≠ 47)) = true := by
      rcases hcc with h | h <;> simp [h]
    rw [blockLoop]
    simp only [List.nil_append, G_err, G_eof, h1, Option.isNone_none, Bool.and_self, if_true,
      Bool.false_eq_true, if_false, readByte_G 42 _ b p i (by decide)]
    rw [blockLoop]
    simp only [G_err, G_eof, Option.isNone_none, Bool.false_eq_true, if_false, readByte_G 47 _ _ p i (by decide)]
    have h2 : (decide (c1 ≠ 42) || decide ((42 : UInt8) ≠ 47)) = true := by simp
    simp only [h2, Bool.and_self, if_true]
    rw [blockLoop]
    simp
  | cons x xs ih =>
    intro n c c1 b hnul hns hcc hn
    obtain ⟨m, rfl⟩ : ∃ m, n = m + 1 := ⟨n - 1, by simp at hn; omega⟩
    simp only [noNul, List.all_cons, Bool.and_eq_true, decide_eq_true_eq] at hnul
    have h1 : (decide (c ≠ 42) || decide (c1 ≠ 47)) = true := by
      rcases hcc with h | h <;> simp [h]
    rw [blockLoop]
    simp only [List.cons_append, G_err, G_eof, h1, Option.isNone_none, Bool.and_self, if_true,
      Bool.false_eq_true, if_false, readByte_G x _ b p i hnul.1]
    simp only [noStarSlash, Bool.and_eq_true, Bool.not_eq_true', Bool.and_eq_false_imp, decide_eq_true_eq,
      decide_eq_false_iff_not] at hns
    have hcc' : c1 ≠ 42 ∨ x ≠ 47 := by
      by_cases h : c1 = 42
      · exact Or.inr (hns.1 h)
      · exact Or.inl h
    rw [ih m c1 x (x :: b) (by simpa [noNul] using hnul.2) hns.2 hcc' (by simp at hn; omega)]
    simp

/-! ### skipping white space and comments -/

/-- what follows the white space: end of input, or a solid byte. -/
inductive Ending
  | eof
  | byte (d : UInt8) (tl : Bytes)
  | comment (body : Bytes)          -- a final `//body` without newline, then end of input

def Ending.bytes : Ending → Bytes
  | .eof => []
  | .byte d tl => d :: tl
  | .comment body => 47 :: 47 :: body

def Ending.OK : Ending → Prop
  | .eof => True
  | .byte d _ => solid d
  | .comment body => noNul body = true ∧ body.all (· ≠ 10) = true

def skipResult (e : Ending) (b : Bytes) (pk : UInt8) (i : List Bytes) : UInt8 × St :=
  match e with
  | .eof => (0, E b pk i)
  | .byte d tl => (d, G tl (d :: b) pk i)
  | .comment body => (0, E (body.reverse ++ 47 :: 47 :: b) pk i)

theorem blankWF_isSpace (c : UInt8) (h : (SpItem.blank c).WF = true) : isSpace c = true := by
  simp only [SpItem.WF, Bool.or_eq_true, decide_eq_true_eq] at h
  rw [isSpace_iff]
  rcases h with ((((h | h) | h) | h) | h) | h <;> simp [h]

theorem SpItem.render_ne_nil (it : SpItem) : it.render ≠ [] := by
  cases it <;> simp [SpItem.render]

/-- the first byte of white space followed by an ending is never NUL. -/
theorem sp_head_ne_zero (sp : Sp) (e : Ending) (hw : sp.WF = true) (he : e.OK) (c : UInt8) (r : Bytes)
    (h : renderSp sp ++ e.bytes = c :: r) : c ≠ 0 := by
  cases sp with
  | nil =>
    cases e with
    | eof => simp [renderSp, Ending.bytes] at h
    | byte d tl =>
      simp [renderSp, Ending.bytes] at h
      obtain ⟨rfl, _⟩ := h
      exact he.2.2
    | comment body =>
      simp [renderSp, Ending.bytes] at h
      obtain ⟨rfl, _⟩ := h
      decide
  | cons it sp' =>
    simp only [Sp.WF, List.all_cons, Bool.and_eq_true] at hw
    cases it with
    | blank s =>
      simp [renderSp, SpItem.render] at h
      obtain ⟨rfl, _⟩ := h
      exact (isSpace_ne _ (blankWF_isSpace _ hw.1)).1
    | line body =>
      simp [renderSp, SpItem.render] at h
      obtain ⟨rfl, _⟩ := h
      decide
    | block body =>
      simp [renderSp, SpItem.render] at h
      obtain ⟨rfl, _⟩ := h
      decide

theorem renderSp_cons (it : SpItem) (sp : Sp) : renderSp (it :: sp) = it.render ++ renderSp sp := by
  simp [renderSp]

theorem renderSp_eq_nil (sp : Sp) (h : renderSp sp = []) : sp = [] := by
  cases sp with
  | nil => rfl
  | cons it sp' =>
    rw [renderSp_cons] at h
    exact absurd (List.append_eq_nil_iff.mp h).1 (SpItem.render_ne_nil it)

theorem noStarSlash_zero (body : Bytes) : noStarSlash (0 :: body) = noStarSlash body := by
  cases body <;> simp [noStarSlash]

theorem skipLoop_stop (n : Nat) (d : UInt8) (st : St) (hd : solid d) :
    skipLoop true n d st = (d, st) := by
  cases n with
  | zero => simp [skipLoop, hd.1, hd.2.1]
  | succ m => simp [skipLoop, hd.1, hd.2.1]

theorem skipLoop_E (s : Bool) (n : Nat) (c : UInt8) (b : Bytes) (pk : UInt8) (i : List Bytes) :
    skipLoop s n c (E b pk i) = (c, E b pk i) := by
  cases n <;> simp [skipLoop]

theorem skipLoop_run (e : Ending) (he : e.OK) (pk : UInt8) (i : List Bytes) :
    ∀ (sp : Sp) (n : Nat) (c : UInt8) (inp b : Bytes), sp.WF = true →
      c :: inp = renderSp sp ++ e.bytes → sp.length + 1 ≤ n →
      skipLoop true n c (G inp (c :: b) pk i) = skipResult e ((renderSp sp).reverse ++ b) pk i := by
  intro sp
  induction sp with
  | nil =>
    intro n c inp b _ h _
    cases e with
    | eof => simp [renderSp, Ending.bytes] at h
    | byte d tl =>
      simp [renderSp, Ending.bytes] at h
      obtain ⟨rfl, rfl⟩ := h
      rw [skipLoop_stop _ _ _ he]
      simp [skipResult, renderSp]
    | comment body =>
      simp [renderSp, Ending.bytes] at h
      obtain ⟨rfl, rfl⟩ := h
      obtain ⟨m, rfl⟩ : ∃ m, n = m + 1 := ⟨n - 1, by omega⟩
      rw [skipLoop]
      simp only [G_err, G_eof, Option.isNone_none, Bool.not_false, Bool.and_self, if_true, isSpace_47,
        Bool.false_eq_true, if_false, readByte_G 47 _ _ pk i (by decide), G_rest]
      rw [lineLoop_run_eof pk i body _ 47 _ he.1 he.2 (by decide) (by simp)]
      simp [skipLoop_E, skipResult, renderSp]
  | cons it sp' ih =>
    intro n c inp b hw h hn
    obtain ⟨m, rfl⟩ : ∃ m, n = m + 1 := ⟨n - 1, by simp at hn; omega⟩
    have hw' := hw
    simp only [Sp.WF, List.all_cons, Bool.and_eq_true] at hw'
    -- the common continuation: read the byte after the item and go on
    have next : ∀ (buf : Bytes),
        skipLoop true m (readByte (G (renderSp sp' ++ e.bytes) buf pk i)).1 (readByte (G (renderSp sp' ++ e.bytes) buf pk i)).2 =
          skipResult e ((renderSp sp').reverse ++ buf) pk i := by
      intro buf
      cases hR : renderSp sp' ++ e.bytes with
      | nil =>
        have h1 := (List.append_eq_nil_iff.mp hR)
        have hsp : sp' = [] := renderSp_eq_nil _ h1.1
        subst hsp
        cases e with
        | byte d tl => simp [Ending.bytes] at h1
        | comment body => simp [Ending.bytes] at h1
        | eof => simp [skipLoop_E, skipResult, renderSp]
      | cons c' inp' =>
        have hc' : c' ≠ 0 := sp_head_ne_zero sp' e hw'.2 he c' inp' hR
        rw [readByte_G c' inp' buf pk i hc']
        exact ih m c' inp' buf hw'.2 hR.symm (by simp at hn; omega)
    rw [renderSp_cons] at h
    cases it with
    | blank s =>
      have hs := blankWF_isSpace s hw'.1
      simp only [SpItem.render, List.cons_append, List.nil_append, List.cons.injEq] at h
      obtain ⟨rfl, rfl⟩ := h
      rw [skipLoop]
      simp only [G_err, G_eof, Option.isNone_none, Bool.not_false, Bool.and_self, if_true, hs]
      rw [next]
      simp [renderSp_cons, SpItem.render]
    | line body =>
      simp only [SpItem.render, List.cons_append, List.cons.injEq, List.append_assoc] at h
      obtain ⟨rfl, rfl⟩ := h
      simp only [SpItem.WF, Bool.and_eq_true] at hw'
      rw [skipLoop]
      simp only [G_err, G_eof, Option.isNone_none, Bool.not_false, Bool.and_self, if_true, isSpace_47,
        Bool.false_eq_true, if_false, readByte_G 47 _ _ pk i (by decide), G_rest]
      rw [lineLoop_run _ pk i body _ 47 _ hw'.1.1 hw'.1.2 (by decide) (by simp)]
      simp only [List.nil_append]
      rw [next]
      simp [renderSp_cons, SpItem.render]
    | block body =>
      simp only [SpItem.render, List.cons_append, List.cons.injEq, List.append_assoc] at h
      obtain ⟨rfl, rfl⟩ := h
      simp only [SpItem.WF, Bool.and_eq_true] at hw'
      rw [skipLoop]
      simp only [G_err, G_eof, Option.isNone_none, Bool.not_false, Bool.and_self, if_true, isSpace_47,
        Bool.false_eq_true, if_false, readByte_G 47 _ _ pk i (by decide),
        readByte_G 42 _ _ pk i (by decide), G_rest]
      have h42 : ((42 : UInt8) = 47) = False := by decide
      simp only [h42, if_false, if_true]
      rw [blockLoop_run _ pk i body _ 42 0 _ hw'.1.1 (by rw [noStarSlash_zero]; exact hw'.1.2) (Or.inr (by decide)) (by simp)]
      simp only [List.nil_append]
      rw [next]
      simp [renderSp_cons, SpItem.render]

/-! ### peekByte / nextByte -/

/-- The reader stands before input `inp` having consumed `b` (reversed): either nothing is
peeked, or the first byte of `inp` is (it is then already in `buf`). -/
def Rep (st : St) (inp b : Bytes) (i : List Bytes) : Prop :=
  st = G inp b 0 i ∨ ∃ c inp', c ≠ 0 ∧ inp = c :: inp' ∧ st = G inp' (c :: b) c i

theorem Rep.plain (inp b : Bytes) (i : List Bytes) : Rep (G inp b 0 i) inp b i := Or.inl rfl
theorem Rep.peeked (c : UInt8) (inp b : Bytes) (i : List Bytes) (hc : c ≠ 0) :
    Rep (G inp (c :: b) c i) (c :: inp) b i := Or.inr ⟨c, inp, hc, rfl, rfl⟩

def peekResult (e : Ending) (b : Bytes) (i : List Bytes) : UInt8 × St :=
  match e with
  | .eof => (0, E b 0 i)
  | .byte d tl => (d, G tl (d :: b) d i)
  | .comment body => (0, E (body.reverse ++ 47 :: 47 :: b) 0 i)

theorem renderSp_length (sp : Sp) : sp.length ≤ (renderSp sp).length := by
  induction sp with
  | nil => simp
  | cons it sp' ih =>
    rw [renderSp_cons]
    have : 1 ≤ it.render.length := List.length_pos_iff.mpr (SpItem.render_ne_nil it)
    simp; omega

theorem skipLoop_false (n : Nat) (c : UInt8) (st : St) : skipLoop false n c st = (c, st) := by
  cases n <;> simp [skipLoop]

theorem peekByte_skip (st : St) (sp : Sp) (e : Ending) (b : Bytes) (i : List Bytes)
    (hr : Rep st (renderSp sp ++ e.bytes) b i) (hw : sp.WF = true) (he : e.OK) :
    peekByte true st = peekResult e ((renderSp sp).reverse ++ b) i := by
  have key : ∀ (c : UInt8) (inp' : Bytes) (pk : UInt8), c :: inp' = renderSp sp ++ e.bytes →
      (let r2 := skipLoop true (inp'.length + 2) c (G inp' (c :: b) pk i); (r2.1, { r2.2 with peek := r2.1 })) =
        peekResult e ((renderSp sp).reverse ++ b) i := by
    intro c inp' pk h
    have hlen : sp.length + 1 ≤ inp'.length + 2 := by
      have h1 := renderSp_length sp
      have h2 : (c :: inp').length = (renderSp sp ++ e.bytes).length := by rw [h]
      simp at h2; omega
    simp only
    rw [skipLoop_run e he pk i sp _ c inp' b hw h hlen]
    cases e <;> simp only [skipResult, peekResult] <;> rfl
  rcases hr with rfl | ⟨c, inp', hc, hinp, rfl⟩
  · unfold peekByte
    simp only [G_err, Option.isSome_none, Bool.false_eq_true, if_false, G_peek, if_true]
    cases hR : renderSp sp ++ e.bytes with
    | nil =>
      have h1 := (List.append_eq_nil_iff.mp hR)
      have hsp : sp = [] := renderSp_eq_nil _ h1.1
      subst hsp
      cases e with
      | byte d tl => simp [Ending.bytes] at h1
      | comment body => simp [Ending.bytes] at h1
      | eof => simp [skipLoop_E, peekResult, renderSp]; rfl
    | cons c inp' =>
      have hc : c ≠ 0 := sp_head_ne_zero sp e hw he c inp' hR
      rw [readByte_G c inp' b 0 i hc]
      exact key c inp' 0 hR.symm
  · unfold peekByte
    simp only [G_err, Option.isSome_none, Bool.false_eq_true, if_false, G_peek, hc, G_rest]
    exact key c inp' c hinp.symm

theorem peekByte_false (st : St) (x : UInt8) (inp b : Bytes) (i : List Bytes)
    (hr : Rep st (x :: inp) b i) (hx : x ≠ 0) :
    peekByte false st = (x, G inp (x :: b) x i) := by
  rcases hr with rfl | ⟨c, inp', hc, hinp, rfl⟩
  · unfold peekByte
    simp [readByte_G x inp b 0 i hx, skipLoop_false]; rfl
  · simp only [List.cons.injEq] at hinp
    obtain ⟨rfl, rfl⟩ := hinp
    unfold peekByte
    simp [hc, skipLoop_false]; rfl

theorem nextByte_false (st : St) (x : UInt8) (inp b : Bytes) (i : List Bytes)
    (hr : Rep st (x :: inp) b i) (hx : x ≠ 0) :
    nextByte false st = (x, G inp (x :: b) 0 i) := by
  unfold nextByte
  rw [peekByte_false st x inp b i hr hx]
  rfl

theorem peekByte_false_eof (b : Bytes) (i : List Bytes) : peekByte false (G [] b 0 i) = (0, E b 0 i) := by
  unfold peekByte
  simp [skipLoop_E]; rfl

theorem peekByte_E (s : Bool) (b : Bytes) (i : List Bytes) : peekByte s (E b 0 i) = (0, E b 0 i) := by
  unfold peekByte
  simp [skipLoop_E]; rfl

end GIV.C18
