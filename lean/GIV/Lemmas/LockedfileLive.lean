/-
  GIV.Lemmas.LockedfileLive — progress of the lockedfile transition system (GIV.Model.Lockedfile):
  which steps can block and on whom, that the holder of a lock can always release it and how many of its
  own steps that takes, deadlock freedom when no blocked client holds a File, the EINTR retry loop, and a
  step measure.
-/
import GIV.Lemmas.LockedfileInv
namespace GIV.Lockedfile
open GIV

/-! ### enabledness -/

/-- client `c` has some enabled step -/
def Enabled (s : State) (c : Cid) : Prop := ∃ a s', step s ⟨c, a⟩ = some s'

/-- client `c` has an operation in progress -/
def Busy (s : State) (c : Cid) : Prop := ∃ fr, (s.cl c).cur = some fr

theorem step_sys_mk {s : State} {c f n fr sc tag w' r} (hc : (s.cl c).cur = some fr)
    (hs : sysOf fr n = some (sc, tag)) (ho : osStep s.w c sc f = some (w', r)) :
    step s ⟨c, .sys f n⟩ = some ⟨w', upd s.cl c ⟨(s.cl c).held, some (nextFrame s.w w' fr sc tag f n r)⟩⟩ := by
  simp [step, stepRes, hc, hs, ho]

theorem step_ret_mk {s : State} {c fr r} (hc : (s.cl c).cur = some fr) (hp : fr.pc = .done r) :
    step s ⟨c, .ret⟩ = some (setClient s c ⟨heldAfterRet (s.cl c).held fr.op r, none⟩) := by
  simp [step, stepRes, hc, hp]

theorem step_call_mk {s : State} {c op} (hc : (s.cl c).cur = none) (hk : callable (s.cl c).held op = true) :
    step s ⟨c, .call op⟩ = some (setClient s c ⟨heldAfterCall (s.cl c).held op,
      some ⟨op, startPc op, s.w.hist op.path, [], [], none⟩⟩) := by
  simp [step, stepRes, hc, hk]

/-- Every system call other than flock, sync.Mutex.Lock and sync.Mutex.Unlock is enabled in every world,
with every injected fault. -/
theorem osStep_some_data (w : World) (c : Cid) (sc : Sys) (f : Fault) (h1 : ∀ fd k, sc ≠ .flock fd k)
    (h2 : ∀ m, sc ≠ .mlock m) (h3 : ∀ m, sc ≠ .munlock m) : ∃ w' r, osStep w c sc f = some (w', r) := by
  cases sc with
  | flock fd k => exact absurd rfl (h1 fd k)
  | mlock m => exact absurd rfl (h2 m)
  | munlock m => exact absurd rfl (h3 m)
  | _ =>
    simp only [osStep]
    repeat' split
    all_goals exact ⟨_, _, rfl⟩

/-- flock(2) is enabled iff the descriptor is bad or the request is compatible with the lock table -/
theorem osStep_flock_none {w : World} {c fd k f} :
    osStep w c (.flock fd k) f = none ↔
      ∃ o, w.fds fd = some o ∧ (o.rd || o.wr) = true ∧ compatible w fd o.path k = false := by
  simp only [osStep]
  cases ho : w.fds fd with
  | none => simp
  | some o =>
    simp only
    cases hr : o.rd <;> cases hw : o.wr <;> cases hc : compatible w fd o.path k <;> cases hf : faultErr f <;> simp [hr, hw, hc]

/-- an incompatible request names a holder: another description, holding a lock on that file, and one of the
two is exclusive -/
theorem incompatible_holder {w : World} {fd p k} (h : compatible w fd p k = false) :
    ∃ fd' k', fd' ≠ fd ∧ holdsFd w fd' p k' ∧ (k = .ex ∨ k' = .ex) := by
  cases k with
  | sh =>
    simp only [compatible, Bool.or_eq_false_iff, beq_eq_false_iff_ne, ne_eq] at h
    cases hex : (w.locks p).ex with
    | none => exact absurd hex h.1
    | some x => exact ⟨x, .ex, fun e => h.2 (by rw [hex, e]), hex, .inr rfl⟩
  | ex =>
    simp only [compatible, Bool.and_eq_false_iff, Bool.or_eq_false_iff, beq_eq_false_iff_ne, ne_eq] at h
    rcases h with h | h
    · cases hex : (w.locks p).ex with
      | none => exact absurd hex h.1
      | some x => exact ⟨x, .ex, fun e => h.2 (by rw [hex, e]), hex, .inl rfl⟩
    · have : ∃ x ∈ (w.locks p).sh, x ≠ fd := by
        apply Classical.byContradiction
        intro hne
        have : (w.locks p).sh.all (· == fd) = true := by
          rw [List.all_eq_true]; intro x hx
          apply Classical.byContradiction
          intro hx'; exact hne ⟨x, hx, by simpa using hx'⟩
        rw [this] at h; cases h
      obtain ⟨x, hx, hne⟩ := this
      exact ⟨x, .sh, hne, hx, .inl rfl⟩

/-- … and conversely -/
theorem holder_incompatible {w : World} {fd p k fd' k'} (hne : fd' ≠ fd) (hh : holdsFd w fd' p k')
    (hk : k = .ex ∨ k' = .ex) : compatible w fd p k = false := by
  cases k' with
  | ex =>
    simp only [holdsFd] at hh
    cases k <;> simp [compatible, hh, hne]
  | sh =>
    simp only [holdsFd] at hh
    rcases hk with rfl | hk
    · simp only [compatible, Bool.and_eq_false_iff]
      right
      apply Classical.byContradiction
      intro h
      simp only [Bool.not_eq_false, List.all_eq_true, beq_iff_eq] at h
      exact hne (h fd' hh)
    · cases hk


/-! ### the in-process mutexes (`sync.Mutex` of `lockedfile.Mutex`) -/

/-- the running operation owns the in-process mutex `m`: Mutex.Lock between its `mu.mu.Lock()` and its
return, the unlock function before its `mu.mu.Unlock()` -/
def holdsMu (op : Op) (pc : Pc) (m : Nat) : Bool :=
  match pc, op with
  | .munlock _ m', _ => m' == m
  | .done (.handle _), .mutexLock _ m' => m' == m
  | _, _ => false

/-- the number of times client `cl` owns the in-process mutex `m` (through a Mutex it was handed and has not
unlocked, or through its running operation): 0 or 1 in every reachable state (`MuInv`) -/
def muTok (cl : Client) (m : Nat) : Nat :=
  cl.held.countP (fun h => h.mu == some m) +
    (match cl.cur with
     | some fr => if holdsMu fr.op fr.pc m then 1 else 0
     | none => 0)

/-- the operations that go through openFile -/
def Op.opens : Op → Bool
  | .read _ | .write _ _ | .transform _ _ | .openFile _ _ | .mutexLock _ _ => true
  | _ => false

/-- the control points of openFile up to the Truncate -/
def Pc.opening : Pc → Bool
  | .open | .lock _ | .trunc _ => true
  | _ => false

structure MuInv (s : State) : Prop where
  /-- only Read / Write / Transform / OpenFile / Mutex.Lock are inside openFile -/
  opens : ∀ c fr, (s.cl c).cur = some fr → fr.pc.opening = true → fr.op.opens = true
  /-- `mu.mu.Lock()` is only performed by Mutex.Lock, on its own mutex -/
  mlockOp : ∀ c fr fd m, (s.cl c).cur = some fr → fr.pc = .mlock fd m → ∃ p, fr.op = .mutexLock p m
  /-- a free mutex has no owner; a locked one has exactly one -/
  glob : ∀ m, (s.w.mus m = false ∧ ∀ c, muTok (s.cl c) m = 0) ∨
    (s.w.mus m = true ∧ ∃ c, muTok (s.cl c) m = 1 ∧ ∀ c', c' ≠ c → muTok (s.cl c') m = 0)

theorem osStep_mus {w w' : World} {c sc f r} (h : osStep w c sc f = some (w', r)) (h2 : ∀ m, sc ≠ .mlock m)
    (h3 : ∀ m, sc ≠ .munlock m) : w'.mus = w.mus := by
  cases sc with
  | mlock m => exact absurd rfl (h2 m)
  | munlock m => exact absurd rfl (h3 m)
  | _ =>
    os_cases h
    all_goals first | (simp at h; done) | (simp at h; obtain ⟨rfl, _⟩ := h; simp)

theorem sysOf_mu {w : World} {c held} {fr : Frame} (hf : FrameOK w c held fr) {n sc tag}
    (hs : sysOf fr n = some (sc, tag)) :
    (∀ m, sc = .mlock m → ∃ fd, fr.pc = .mlock fd m) ∧ (∀ m, sc = .munlock m → ∃ fd, fr.pc = .munlock fd m) := by
  cases hpc : fr.pc <;> simp only [sysOf, hpc] at hs
  case user s =>
    obtain ⟨h, io, _, rfl, _⟩ := hf.user s hpc
    simp at hs; obtain ⟨rfl, _⟩ := hs
    cases io <;> simp [UserIO.sys]
  case done r => cases hs
  all_goals (first | (split at hs <;> simp at hs) | simp at hs)
  all_goals (obtain ⟨rfl, _⟩ := hs; simp)

theorem afterOpen_mlock {op : Op} {fd fd' m} (h : afterOpen op fd = .mlock fd' m) : ∃ p, op = .mutexLock p m := by
  cases op <;> simp only [afterOpen, finPc_eq] at h
  case write p content => split at h <;> cases h
  case mutexLock p m' => simp at h; exact ⟨p, by rw [h.2]⟩
  all_goals cases h

theorem advancePc_mlock {op : Op} {pc : Pc} {n r fd m} (h : advancePc op pc n r = .mlock fd m) :
    ∃ p, op = .mutexLock p m := by
  cases pc <;> simp only [advancePc, finPc_eq, rollbackPc, afterLock, Gen.Lockedfile.truncAfterLock,
    Gen.Lockedfile.tRollback, Gen.Lockedfile.retriesEINTR, if_true, Bool.not_true, Bool.and_false, Bool.and_true,
    Bool.false_eq_true, if_false] at h
  all_goals (repeat' split at h)
  all_goals first
    | (cases h; done)
    | exact afterOpen_mlock h

theorem afterOpen_holdsMu (op : Op) (fd : Fd) (m : Nat) : holdsMu op (afterOpen op fd) m = false := by
  cases op <;> simp only [afterOpen, finPc_eq]
  case write p content => split <;> rfl
  all_goals rfl

/-- a system call other than `mu.mu.Lock()` / `mu.mu.Unlock()` does not make the operation an owner of a mutex -/
theorem advancePc_holdsMu (op : Op) (pc : Pc) (n : Nat) (r : Res) (m : Nat) (h1 : ∀ fd m, pc ≠ .mlock fd m)
    (hr : pc.retNoHandle) (hd : ∀ ret, pc ≠ .done ret) : holdsMu op (advancePc op pc n r) m = false := by
  cases pc
  case mlock fd m' => exact absurd rfl (h1 fd m')
  case done ret => exact absurd rfl (hd ret)
  case close fd ret b =>
    simp only [Pc.retNoHandle] at hr
    simp only [advancePc]
    split
    · cases ret <;> simp [Ret.isHandle] at hr <;> cases op <;> rfl
    · have := closeRet_isHandle op ret true hr
      generalize closeRet op ret true = ret' at this
      cases ret' <;> simp [Ret.isHandle] at this <;> cases op <;> rfl
  all_goals simp only [advancePc, finPc_eq, rollbackPc, afterLock, Gen.Lockedfile.truncAfterLock,
    Gen.Lockedfile.tRollback, Gen.Lockedfile.retriesEINTR, if_true, Bool.not_true, Bool.and_false, Bool.and_true,
    Bool.false_eq_true, if_false]
  all_goals (repeat' split)
  all_goals first
    | rfl
    | exact afterOpen_holdsMu _ _ _
    | (cases op <;> rfl)


theorem countP_erase_mem {α : Type} [BEq α] [LawfulBEq α] (p : α → Bool) (l : List α) (a : α) (h : a ∈ l) :
    (l.erase a).countP p + (if p a then 1 else 0) = l.countP p := by
  induction l with
  | nil => cases h
  | cons b t ih =>
    by_cases hb : b = a
    · subst hb; simp [List.countP_cons]
    · have hm : a ∈ t := by
        rcases List.mem_cons.1 h with e | e
        · exact absurd e.symm hb
        · exact e
      rw [List.erase_cons_tail (by simpa using hb)]
      simp only [List.countP_cons]
      have := ih hm
      omega

theorem muTok_mk (held : List Handle) (fr : Frame) (m : Nat) :
    muTok ⟨held, some fr⟩ m = held.countP (fun h => h.mu == some m) + if holdsMu fr.op fr.pc m then 1 else 0 := rfl

theorem muTok_idle (held : List Handle) (m : Nat) :
    muTok ⟨held, none⟩ m = held.countP (fun h => h.mu == some m) := rfl

/-- How one step changes the ownership of the in-process mutexes: not at all, or it is the `mu.mu.Lock()` of a
free mutex `m0` (the client gets one more token for `m0`), or the `mu.mu.Unlock()` (one token less). -/
theorem step_mu {s s' : State} {l : Label} (hi : Inv1 s) (hm : MuInv s) (h : step s l = some s') :
    (s'.w.mus = s.w.mus ∧ ∀ c m, muTok (s'.cl c) m = muTok (s.cl c) m) ∨
    (∃ m0, s.w.mus m0 = false ∧ s'.w.mus = upd s.w.mus m0 true ∧
       ∀ c m, muTok (s'.cl c) m = muTok (s.cl c) m + if c = l.c ∧ m = m0 then 1 else 0) ∨
    (∃ m0, s'.w.mus = upd s.w.mus m0 false ∧
       ∀ c m, muTok (s'.cl c) m + (if c = l.c ∧ m = m0 then 1 else 0) = muTok (s.cl c) m) := by
  obtain ⟨c, a⟩ := l
  cases a with
  | call op =>
    obtain ⟨hcur, hcall, rfl⟩ := step_call h
    refine .inl ⟨rfl, fun c' m => ?_⟩
    by_cases hc : c' = c
    · subst hc
      rw [setClient_cl_same, muTok_mk]
      have hold : muTok (s.cl c') m = (s.cl c').held.countP (fun h => h.mu == some m) := by
        simp [muTok, hcur]
      rw [hold]
      cases op with
      | closeH x =>
        simp only [callable, Bool.and_eq_true, List.contains_iff_mem] at hcall
        have hmem : x ∈ (s.cl c').held := by simpa using hcall.1
        have := countP_erase_mem (fun h => h.mu == some m) _ x hmem
        have hx : (x.mu == some m) = false := by
          cases hxm : x.mu <;> simp [hxm] at hcall ⊢
        simp only [hx] at this
        simp only [heldAfterCall, startPc, finPc_eq, holdsMu]
        simpa using this
      | unlockM x =>
        simp only [callable, Bool.and_eq_true, List.contains_iff_mem] at hcall
        have hmem : x ∈ (s.cl c').held := by simpa using hcall.1
        have := countP_erase_mem (fun h => h.mu == some m) _ x hmem
        cases hxm : x.mu with
        | none => simp [hxm] at hcall
        | some m' =>
          simp only [hxm] at this
          simp only [heldAfterCall, startPc, hxm, holdsMu]
          rw [← this]
          by_cases e : m' = m <;> simp [e]
      | _ => simp [heldAfterCall, startPc, holdsMu]
    · rw [setClient_cl_other _ _ _ _ hc]
  | ret =>
    obtain ⟨fr, r, hcur, hpc, rfl⟩ := step_ret h
    refine .inl ⟨rfl, fun c' m => ?_⟩
    by_cases hc : c' = c
    · subst hc
      rw [setClient_cl_same, muTok_idle]
      have hold : muTok (s.cl c') m = (s.cl c').held.countP (fun h => h.mu == some m) +
          if holdsMu fr.op fr.pc m then 1 else 0 := by simp [muTok, hcur]
      rw [hold, hpc]
      cases hop : fr.op <;> cases r <;> simp [heldAfterRet, holdsMu, List.countP_cons]
    · rw [setClient_cl_other _ _ _ _ hc]
  | sys f n =>
    obtain ⟨fr, sc, tag, w', r, hcur, hs, hos, rfl⟩ := step_sys h
    have hfr := (hi.clients c).frame fr hcur
    have hold : ∀ m, muTok (s.cl c) m = (s.cl c).held.countP (fun h => h.mu == some m) +
        if holdsMu fr.op fr.pc m then 1 else 0 := fun m => by simp [muTok, hcur]
    have hnew : ∀ m, muTok ((upd s.cl c ⟨(s.cl c).held, some (nextFrame s.w w' fr sc tag f n r)⟩) c) m =
        (s.cl c).held.countP (fun h => h.mu == some m) +
          if holdsMu fr.op (advancePc fr.op fr.pc n r) m then 1 else 0 := fun m => by
      rw [upd_same]; rfl
    have hoth : ∀ c', c' ≠ c → (upd s.cl c ⟨(s.cl c).held, some (nextFrame s.w w' fr sc tag f n r)⟩) c' = s.cl c' :=
      fun c' hc => upd_other _ _ _ _ hc
    by_cases hml : ∃ fd m0, fr.pc = .mlock fd m0
    · obtain ⟨fd, m0, hpc⟩ := hml
      obtain ⟨p, hop⟩ := hm.mlockOp c fr fd m0 hcur hpc
      simp only [sysOf, hpc, Option.some.injEq, Prod.mk.injEq] at hs
      obtain ⟨rfl, _⟩ := hs
      simp only [osStep] at hos
      split at hos
      · cases hos
      · rename_i hfree
        simp only [Option.some.injEq, Prod.mk.injEq] at hos
        obtain ⟨rfl, rfl⟩ := hos
        refine .inr (.inl ⟨m0, by simpa using hfree, rfl, fun c' m => ?_⟩)
        by_cases hc : c' = c
        · subst hc
          simp only [hnew, hold, hpc, hop, advancePc, holdsMu, true_and]
          by_cases e : m0 = m
          · subst e; simp
          · have : ¬ m = m0 := fun e' => e e'.symm
            simp [e, this]
        · simp only [hoth c' hc]; simp [hc]
    · by_cases hmu : ∃ fd m0, fr.pc = .munlock fd m0
      · obtain ⟨fd, m0, hpc⟩ := hmu
        simp only [sysOf, hpc, Option.some.injEq, Prod.mk.injEq] at hs
        obtain ⟨rfl, _⟩ := hs
        simp only [osStep] at hos
        split at hos
        · simp only [Option.some.injEq, Prod.mk.injEq] at hos
          obtain ⟨rfl, rfl⟩ := hos
          refine .inr (.inr ⟨m0, rfl, fun c' m => ?_⟩)
          by_cases hc : c' = c
          · subst hc
            simp only [hnew, hold, hpc, advancePc, finPc_eq, holdsMu, true_and]
            by_cases e : m0 = m
            · subst e; simp
            · have : ¬ m = m0 := fun e' => e e'.symm
              simp [e, this]
          · simp only [hoth c' hc]; simp [hc]
        · cases hos
      · have h1 : ∀ fd m, fr.pc ≠ .mlock fd m := fun fd m e => hml ⟨fd, m, e⟩
        have h2 : ∀ fd m, fr.pc ≠ .munlock fd m := fun fd m e => hmu ⟨fd, m, e⟩
        have h3 : ∀ ret, fr.pc ≠ .done ret := fun ret e => by simp [sysOf, e] at hs
        obtain ⟨g1, g2⟩ := sysOf_mu hfr hs
        have hmus := osStep_mus hos (fun m e => by obtain ⟨fd, e'⟩ := g1 m e; exact h1 fd m e')
          (fun m e => by obtain ⟨fd, e'⟩ := g2 m e; exact h2 fd m e')
        refine .inl ⟨hmus, fun c' m => ?_⟩
        by_cases hc : c' = c
        · subst hc
          rw [hnew, hold, advancePc_holdsMu fr.op fr.pc n r m h1 hfr.ret h3]
          have : holdsMu fr.op fr.pc m = false := by
            cases hpc : fr.pc <;> first | rfl | exact absurd hpc (h2 _ _) | exact absurd hpc (h3 _)
          rw [this]
        · show muTok (upd s.cl c _ c') m = _
          rw [hoth c' hc]


theorem init_MuInv (files0 : Path → Option Bytes) : MuInv (init files0) :=
  ⟨fun _ _ h => by simp [init] at h, fun _ _ _ _ h => by simp [init] at h, fun _ => .inl ⟨rfl, fun _ => rfl⟩⟩

theorem startPc_opening (op : Op) (h : (startPc op).opening = true) : op.opens = true := by
  cases op <;> simp only [startPc, finPc_eq] at h <;> first | rfl | (cases h; done) | skip
  split at h <;> cases h

theorem afterOpen_not_opening (op : Op) (fd : Fd) : (afterOpen op fd).opening = false := by
  cases op <;> simp only [afterOpen, finPc_eq]
  case write p content => split <;> rfl
  all_goals rfl

theorem advancePc_opening (op : Op) (pc : Pc) (n : Nat) (r : Res) (h : (advancePc op pc n r).opening = true) :
    pc.opening = true := by
  cases pc <;> first | rfl | skip
  all_goals simp only [advancePc, finPc_eq, rollbackPc,
    Gen.Lockedfile.tRollback, Gen.Lockedfile.retriesEINTR, if_true] at h
  all_goals (repeat' split at h)
  all_goals first
    | (cases h; done)
    | (rw [afterOpen_not_opening] at h; cases h)

theorem startPc_ne_mlock (op : Op) (fd : Fd) (m : Nat) : startPc op ≠ .mlock fd m := by
  cases op <;> simp only [startPc, finPc_eq] <;> try (intro h; cases h)
  split <;> (intro h; cases h)

theorem step_MuInv {s s' : State} {l : Label} (hi : Inv1 s) (hm : MuInv s) (h : step s l = some s') : MuInv s' := by
  refine ⟨?_, ?_, ?_⟩
  · -- opens
    obtain ⟨c, a⟩ := l
    intro c' fr' hcur hpc
    cases a with
    | call op =>
      obtain ⟨_, _, rfl⟩ := step_call h
      by_cases hc : c' = c
      · subst hc
        rw [setClient_cl_same] at hcur
        simp only [Option.some.injEq] at hcur; subst hcur
        exact startPc_opening _ hpc
      · rw [setClient_cl_other _ _ _ _ hc] at hcur; exact hm.opens c' fr' hcur hpc
    | ret =>
      obtain ⟨_, _, _, _, rfl⟩ := step_ret h
      by_cases hc : c' = c
      · subst hc; rw [setClient_cl_same] at hcur; cases hcur
      · rw [setClient_cl_other _ _ _ _ hc] at hcur; exact hm.opens c' fr' hcur hpc
    | sys f n =>
      obtain ⟨fr, sc, tag, w', r, hc0, _, _, rfl⟩ := step_sys h
      by_cases hc : c' = c
      · subst hc
        simp only [upd_same, Option.some.injEq] at hcur; subst hcur
        exact hm.opens c' fr hc0 (advancePc_opening _ _ _ _ hpc)
      · simp only [upd_other _ _ _ _ hc] at hcur; exact hm.opens c' fr' hcur hpc
  · -- mlockOp
    obtain ⟨c, a⟩ := l
    intro c' fr' fd m hcur hpc
    cases a with
    | call op =>
      obtain ⟨_, _, rfl⟩ := step_call h
      by_cases hc : c' = c
      · subst hc
        rw [setClient_cl_same] at hcur
        simp only [Option.some.injEq] at hcur; subst hcur
        exact absurd hpc (startPc_ne_mlock _ _ _)
      · rw [setClient_cl_other _ _ _ _ hc] at hcur; exact hm.mlockOp c' fr' fd m hcur hpc
    | ret =>
      obtain ⟨_, _, _, _, rfl⟩ := step_ret h
      by_cases hc : c' = c
      · subst hc; rw [setClient_cl_same] at hcur; cases hcur
      · rw [setClient_cl_other _ _ _ _ hc] at hcur; exact hm.mlockOp c' fr' fd m hcur hpc
    | sys f n =>
      obtain ⟨fr, sc, tag, w', r, _, _, _, rfl⟩ := step_sys h
      by_cases hc : c' = c
      · subst hc
        simp only [upd_same, Option.some.injEq] at hcur; subst hcur
        exact advancePc_mlock hpc
      · simp only [upd_other _ _ _ _ hc] at hcur; exact hm.mlockOp c' fr' fd m hcur hpc
  · intro m
    rcases step_mu hi hm h with ⟨e1, e2⟩ | ⟨m0, hfree, e1, e2⟩ | ⟨m0, e1, e2⟩
    · rw [e1]; simp only [e2]; exact hm.glob m
    · by_cases hmm : m = m0
      · subst hmm
        rcases hm.glob m with ⟨_, g⟩ | ⟨g, _⟩
        · refine .inr ⟨by rw [e1]; simp, l.c, by rw [e2, g]; simp, fun c' hc => ?_⟩
          rw [e2, g]; simp [hc]
        · rw [hfree] at g; cases g
      · have : ∀ c, muTok (s'.cl c) m = muTok (s.cl c) m := fun c => by rw [e2]; simp [hmm]
        rw [e1, upd_other _ _ _ _ hmm]; simp only [this]; exact hm.glob m
    · by_cases hmm : m = m0
      · subst hmm
        have hl := e2 l.c m
        simp only [and_self, if_true] at hl
        rcases hm.glob m with ⟨_, g⟩ | ⟨_, c0, g1, g2⟩
        · rw [g] at hl; omega
        · have hc0 : l.c = c0 := by
            apply Classical.byContradiction
            intro hne; rw [g2 _ hne] at hl; omega
          refine .inl ⟨by rw [e1]; simp, fun c => ?_⟩
          have hcm := e2 c m
          by_cases hc : c = l.c
          · have g1' : muTok (s.cl l.c) m = 1 := by rw [hc0]; exact g1
            rw [hc]; omega
          · rw [g2 c (hc0 ▸ hc)] at hcm; omega
      · have : ∀ c, muTok (s'.cl c) m = muTok (s.cl c) m := fun c => by
          have := e2 c m; simp [hmm] at this; exact this
        rw [e1, upd_other _ _ _ _ hmm]; simp only [this]; exact hm.glob m

theorem reachable_MuInv {files0 : Path → Option Bytes} {s : State} (h : Reachable files0 s) : MuInv s := by
  induction h with
  | init => exact init_MuInv files0
  | step l hr hs ih => exact step_MuInv (reachable_Inv1 hr) ih hs

/-- an owner of the in-process mutex `m` exists exactly when it is locked -/
def MuHolder (s : State) (c : Cid) (m : Nat) : Prop :=
  (∃ h ∈ (s.cl c).held, h.mu = some m) ∨ (∃ fr, (s.cl c).cur = some fr ∧ holdsMu fr.op fr.pc m = true)

theorem muTok_pos_iff (s : State) (c : Cid) (m : Nat) : 0 < muTok (s.cl c) m ↔ MuHolder s c m := by
  unfold muTok MuHolder
  cases hc : (s.cl c).cur with
  | none => simp [List.countP_pos_iff]
  | some fr =>
    by_cases hh : holdsMu fr.op fr.pc m = true
    · simp [hh]
    · simp [hh, List.countP_pos_iff]

theorem MuInv.locked {s : State} (hm : MuInv s) {c m} (h : MuHolder s c m) : s.w.mus m = true := by
  rcases hm.glob m with ⟨_, g⟩ | ⟨g, _⟩
  · have := (muTok_pos_iff s c m).2 h; rw [g c] at this; cases this
  · exact g

theorem MuInv.owner {s : State} (hm : MuInv s) {m} (h : s.w.mus m = true) : ∃ c, MuHolder s c m := by
  rcases hm.glob m with ⟨g, _⟩ | ⟨_, c, g, _⟩
  · rw [h] at g; cases g
  · exact ⟨c, (muTok_pos_iff s c m).1 (by omega)⟩

theorem MuInv.unique {s : State} (hm : MuInv s) {c c' m} (h : MuHolder s c m) (h' : MuHolder s c' m) : c = c' := by
  rcases hm.glob m with ⟨_, g⟩ | ⟨_, c0, _, g2⟩
  · have := (muTok_pos_iff s c m).2 h; rw [g c] at this; cases this
  · have a := (muTok_pos_iff s c m).2 h
    have b := (muTok_pos_iff s c' m).2 h'
    have e1 : c = c0 := by
      apply Classical.byContradiction; intro hne; rw [g2 _ hne] at a; cases a
    have e2 : c' = c0 := by
      apply Classical.byContradiction; intro hne; rw [g2 _ hne] at b; cases b
    rw [e1, e2]


/-! ### who blocks whom -/

/-- `c` is at the flock(2) call of openFile, and the request conflicts with a lock that ANOTHER open file
description `fd'` holds on the same file (one of the two is exclusive). -/
def FlockWait (s : State) (c : Cid) (fd' : Fd) : Prop :=
  ∃ fr fd k', (s.cl c).cur = some fr ∧ fr.pc = .lock fd ∧ (accRd fr.op.flag || accWr fr.op.flag) = true ∧
    fd' ≠ fd ∧ holdsFd s.w fd' fr.op.path k' ∧ (lockMode fr.op.flag = .ex ∨ k' = .ex)

/-- `c` is at the `mu.mu.Lock()` of Mutex.Lock (it already has the file lock), and client `c'` owns that
in-process mutex. -/
def MuWait (s : State) (c c' : Cid) : Prop :=
  ∃ fr fd m, (s.cl c).cur = some fr ∧ fr.pc = .mlock fd m ∧ s.w.mus m = true ∧ MuHolder s c' m

theorem busy_no_call {s : State} {c fr} (hc : (s.cl c).cur = some fr) (op : Op) : step s ⟨c, .call op⟩ = none := by
  simp [step, stepRes, hc]

theorem notDone_no_ret {s : State} {c fr} (hc : (s.cl c).cur = some fr) (hp : ∀ r, fr.pc ≠ .done r) :
    step s ⟨c, .ret⟩ = none := by
  cases hpc : fr.pc with
  | done r => exact absurd hpc (hp r)
  | _ => simp [step, stepRes, hc, hpc]

/-- a client blocked at flock has no enabled step at all: whatever fault is injected, whatever chunk size -/
theorem FlockWait.blocked {s : State} (hi : Inv1 s) {c fd'} (h : FlockWait s c fd') : ¬ Enabled s c := by
  obtain ⟨fr, fd, k', hc, hpc, hacc, hne, hh, hk⟩ := h
  rintro ⟨a, s', hs⟩
  cases a with
  | call op => rw [busy_no_call hc] at hs; cases hs
  | ret => rw [notDone_no_ret hc (fun r e => by rw [hpc] at e; cases e)] at hs; cases hs
  | sys f n =>
    obtain ⟨fr0, sc, tag, w', r, hc0, hsys, hos, _⟩ := step_sys hs
    rw [hc] at hc0; cases hc0
    simp only [sysOf, hpc, Option.some.injEq, Prod.mk.injEq] at hsys
    obtain ⟨rfl, _⟩ := hsys
    obtain ⟨ho, _, _⟩ := ((hi.clients c).frame fr hc).fd fd (by simp [hpc, Pc.fd?])
    obtain ⟨o, hfd, hp, _, hrd, hwr, _⟩ := ho.open
    have : osStep s.w c (.flock fd (lockMode fr.op.flag)) f = none :=
      osStep_flock_none.2 ⟨o, hfd, by rw [hrd, hwr]; exact hacc, by rw [hp]; exact holder_incompatible hne hh hk⟩
    rw [this] at hos; cases hos

/-- a client blocked at `mu.mu.Lock()` has no enabled step at all -/
theorem MuWait.blocked {s : State} {c c'} (h : MuWait s c c') : ¬ Enabled s c := by
  obtain ⟨fr, fd, m, hc, hpc, hmu, _⟩ := h
  rintro ⟨a, s', hs⟩
  cases a with
  | call op => rw [busy_no_call hc] at hs; cases hs
  | ret => rw [notDone_no_ret hc (fun r e => by rw [hpc] at e; cases e)] at hs; cases hs
  | sys f n =>
    obtain ⟨fr0, sc, tag, w', r, hc0, hsys, hos, _⟩ := step_sys hs
    rw [hc] at hc0; cases hc0
    simp only [sysOf, hpc, Option.some.injEq, Prod.mk.injEq] at hsys
    obtain ⟨rfl, _⟩ := hsys
    simp [osStep, hmu] at hos

/-- the system call at each control point, with chunk size 1 -/
theorem sysOf_one_some (fr : Frame) (hp : ∀ r, fr.pc ≠ .done r) : ∃ sc tag, sysOf fr 1 = some (sc, tag) := by
  cases hpc : fr.pc <;> simp only [sysOf, hpc]
  case done r => exact absurd hpc (hp r)
  case tBody fd old new => split <;> exact ⟨_, _, rfl⟩
  all_goals first | exact ⟨_, _, rfl⟩ | (simp; done)

/-- What a client with an operation in progress can do.  If the operation is about to return, the return
is enabled.  Otherwise its next system call is enabled WITH EVERY injected fault (none, fail, short, EINTR,
shared) — open, read, write, pwrite, ftruncate, fstat, close, LOCK_UN, sync.Mutex.Unlock —, except in two
situations, in which no step of the client is enabled at all: it is at flock(2) and a conflicting lock is
held by another open file description, or it is at `mu.mu.Lock()` and another party owns that mutex. -/
theorem busy_cases {s : State} (hi : Inv1 s) (hm : MuInv s) {c : Cid} {fr : Frame} (hc : (s.cl c).cur = some fr) :
    (∃ r s', fr.pc = .done r ∧ step s ⟨c, .ret⟩ = some s') ∨
    ((∀ r, fr.pc ≠ .done r) ∧ ∀ f, ∃ s', step s ⟨c, .sys f 1⟩ = some s') ∨
    (∃ fd', FlockWait s c fd') ∨ (∃ c', MuWait s c c') := by
  have hfr := (hi.clients c).frame fr hc
  by_cases hd : ∃ r, fr.pc = .done r
  · obtain ⟨r, hp⟩ := hd
    exact .inl ⟨r, _, hp, step_ret_mk hc hp⟩
  · have hp : ∀ r, fr.pc ≠ .done r := fun r e => hd ⟨r, e⟩
    obtain ⟨sc, tag, hs⟩ := sysOf_one_some fr hp
    -- it is enough that the system call is enabled with every fault
    have key : (∀ f, ∃ w' r, osStep s.w c sc f = some (w', r)) →
        ((∀ r, fr.pc ≠ .done r) ∧ ∀ f, ∃ s', step s ⟨c, .sys f 1⟩ = some s') := fun h =>
      ⟨hp, fun f => by obtain ⟨w', r, ho⟩ := h f; exact ⟨_, step_sys_mk hc hs ho⟩⟩
    obtain ⟨g1, g2⟩ := sysOf_mu hfr hs
    by_cases hfl : ∃ fd k, sc = .flock fd k
    · obtain ⟨fd, k, rfl⟩ := hfl
      have hctl := sysOf_ctl hfr hs (fd0 := fd) rfl
      have hpc : fr.pc = .lock fd ∧ k = lockMode fr.op.flag := by
        cases hpc : fr.pc <;> simp only [sysOf, hpc] at hs
        case user s0 =>
          obtain ⟨h, io, _, rfl, _⟩ := hfr.user s0 hpc
          simp at hs; cases io <;> simp [UserIO.sys] at hs
        case done r => cases hs
        all_goals (first | (split at hs <;> simp at hs) | simp at hs)
        exact ⟨by rw [hs.1.1], hs.1.2.symm⟩
      obtain ⟨hpc, rfl⟩ := hpc
      obtain ⟨ho, _, _⟩ := hfr.fd fd hctl
      obtain ⟨o, hfd, hpath, _, hrd, hwr, _⟩ := ho.open
      by_cases hblk : ∀ f, osStep s.w c (.flock fd (lockMode fr.op.flag)) f ≠ none
      · refine .inr (.inl (key fun f => ?_))
        cases hx : osStep s.w c (.flock fd (lockMode fr.op.flag)) f with
        | none => exact absurd hx (hblk f)
        | some x => exact ⟨x.1, x.2, rfl⟩
      · have : ∃ f, osStep s.w c (.flock fd (lockMode fr.op.flag)) f = none := by
          apply Classical.byContradiction
          intro hne; exact hblk fun f e => hne ⟨f, e⟩
        obtain ⟨f, hnone⟩ := this
        obtain ⟨o', hfd', hrw, hcomp⟩ := osStep_flock_none.1 hnone
        rw [hfd] at hfd'; cases hfd'
        rw [hpath] at hcomp
        obtain ⟨fd', k', hne, hh, hk⟩ := incompatible_holder hcomp
        exact .inr (.inr (.inl ⟨fd', fr, fd, k', hc, hpc, by rw [← hrd, ← hwr]; exact hrw, hne, hh, hk⟩))
    · by_cases hml : ∃ m, sc = .mlock m
      · obtain ⟨m, rfl⟩ := hml
        obtain ⟨fd, hpc⟩ := g1 m rfl
        cases hmu : s.w.mus m with
        | true =>
          obtain ⟨c', hc'⟩ := hm.owner hmu
          exact .inr (.inr (.inr ⟨c', fr, fd, m, hc, hpc, hmu, hc'⟩))
        | false => exact .inr (.inl (key fun f => ⟨{ s.w with mus := upd s.w.mus m true }, .ok, by simp [osStep, hmu]⟩))
      · by_cases hmun : ∃ m, sc = .munlock m
        · obtain ⟨m, rfl⟩ := hmun
          obtain ⟨fd, hpc⟩ := g2 m rfl
          have hmu : s.w.mus m = true := hm.locked (c := c) (.inr ⟨fr, hc, by simp [hpc, holdsMu]⟩)
          exact .inr (.inl (key fun f => ⟨{ s.w with mus := upd s.w.mus m false }, .ok, by simp [osStep, hmu]⟩))
        · exact .inr (.inl (key fun f => osStep_some_data _ _ _ _ (fun fd k e => hfl ⟨fd, k, e⟩)
            (fun m e => hml ⟨m, e⟩) (fun m e => hmun ⟨m, e⟩)))


/-! ### who holds a lock -/

/-- description `fd` is the descriptor of the running operation of client `c`, at a control point between the
successful flock and the unlock / close -/
def HeldByOp (s : State) (c : Cid) (fd : Fd) : Prop :=
  ∃ fr, (s.cl c).cur = some fr ∧ fr.pc.fd? = some fd ∧ fr.pc.locked = true

/-- description `fd` is a File (or the file of a Mutex) that was handed out to client `c` and that `c` has not
passed to Close / unlock yet -/
def HeldByHandle (s : State) (c : Cid) (fd : Fd) : Prop := ∃ h ∈ (s.cl c).held, h.fd = fd

/-- every lock in the table belongs to a running operation or to a handed-out File: no lock was leaked by a
failed Unlock followed by a failed (or shared-description) close(2) -/
def NoLeak (s : State) : Prop := ∀ fd p k, holdsFd s.w fd p k → ∃ c, HeldByOp s c fd ∨ HeldByHandle s c fd

/-- the call with which the user gives a File / Mutex back -/
def closeOp (h : Handle) : Op := if h.mu.isSome then .unlockM h else .closeH h

theorem closeOp_callable {held : List Handle} {h : Handle} (hm : h ∈ held) : callable held (closeOp h) = true := by
  unfold closeOp
  cases hmu : h.mu <;> simp [callable, hm, hmu]

/-- an idle client can always call Close / unlock on a File / Mutex it holds -/
theorem idle_can_close {s : State} {c : Cid} {h : Handle} (hc : (s.cl c).cur = none) (hm : h ∈ (s.cl c).held) :
    ∃ s', step s ⟨c, .call (closeOp h)⟩ = some s' :=
  ⟨_, step_call_mk hc (closeOp_callable hm)⟩

/-- a client whose running operation holds a lock is not at flock(2) -/
theorem HeldByOp.not_flockWait {s : State} {c fd fd'} (h : HeldByOp s c fd) : ¬ FlockWait s c fd' := by
  obtain ⟨fr, hc, _, hl⟩ := h
  rintro ⟨fr', fd0, _, hc', hpc, _⟩
  rw [hc] at hc'; cases hc'
  rw [hpc] at hl; cases hl

/-- Progress under the hypothesis that no blocked client holds a File: `P c` = client `c` has a useful enabled step
(a step of its running operation, or — idle — the Close / unlock of a File it holds). -/
def CanProgress (s : State) (c : Cid) : Prop :=
  (Busy s c ∧ Enabled s c) ∨
  ((s.cl c).cur = none ∧ ∃ h ∈ (s.cl c).held, ∃ s', step s ⟨c, .call (closeOp h)⟩ = some s')

theorem handle_owner_progress {s : State} (hacyc : ∀ c, Busy s c → ¬ Enabled s c → (s.cl c).held = [])
    {c : Cid} {h : Handle} (hm : h ∈ (s.cl c).held) : CanProgress s c := by
  cases hc : (s.cl c).cur with
  | none => exact .inr ⟨hc, h, hm, idle_can_close hc hm⟩
  | some fr =>
    refine .inl ⟨⟨fr, hc⟩, ?_⟩
    apply Classical.byContradiction
    intro hne
    rw [hacyc c ⟨fr, hc⟩ hne] at hm; cases hm

theorem muHolder_progress {s : State} (hi : Inv1 s) (hm : MuInv s)
    (hacyc : ∀ c, Busy s c → ¬ Enabled s c → (s.cl c).held = []) {c : Cid} {m : Nat} (h : MuHolder s c m) :
    CanProgress s c := by
  rcases h with ⟨h, hmem, _⟩ | ⟨fr, hc, hh⟩
  · exact handle_owner_progress hacyc hmem
  · refine .inl ⟨⟨fr, hc⟩, ?_⟩
    rcases busy_cases hi hm hc with ⟨r, s', _, hs⟩ | ⟨_, hs⟩ | ⟨fd', fr', fd, k', hc', hpc, _⟩ | ⟨c', fr', fd, m', hc', hpc, _⟩
    · exact ⟨_, _, hs⟩
    · obtain ⟨s', hs⟩ := hs .none; exact ⟨_, _, hs⟩
    · rw [hc] at hc'; cases hc'; rw [hpc] at hh; simp [holdsMu] at hh
    · rw [hc] at hc'; cases hc'; rw [hpc] at hh; simp [holdsMu] at hh

/-- Deadlock freedom when waiting is acyclic.  Hypotheses on the state: no lock was leaked (`NoLeak`), and no
client that is blocked (at flock or at `mu.mu.Lock()`) holds a File / Mutex — e.g. every client runs one
package operation at a time and does not call into the package while it holds a File.  Then, if some operation
is in progress, some client can make progress: a client with an operation in progress has an enabled step,
or an idle client can call Close / unlock on a File it holds. -/
theorem deadlock_free_acyclic {s : State} (hi : Inv1 s) (hm : MuInv s) (hleak : NoLeak s)
    (hacyc : ∀ c, Busy s c → ¬ Enabled s c → (s.cl c).held = []) (hbusy : ∃ c, Busy s c) :
    ∃ c, CanProgress s c := by
  obtain ⟨c, fr, hc⟩ := hbusy
  rcases busy_cases hi hm hc with ⟨r, s', _, hs⟩ | ⟨_, hs⟩ | ⟨fd', hw⟩ | ⟨c', fr', fd, m', hc', hpc, _, hh⟩
  · exact ⟨c, .inl ⟨⟨fr, hc⟩, _, _, hs⟩⟩
  · obtain ⟨s', hs⟩ := hs .none; exact ⟨c, .inl ⟨⟨fr, hc⟩, _, _, hs⟩⟩
  · obtain ⟨fr0, fd, k', _, _, _, _, hh, _⟩ := hw
    obtain ⟨c', hop | ⟨h, hmem, _⟩⟩ := hleak fd' _ k' hh
    · obtain ⟨fr', hc', hfd, hl⟩ := hop
      rcases busy_cases hi hm hc' with ⟨r, s', _, hs⟩ | ⟨_, hs⟩ | ⟨fd'', hw'⟩ | ⟨c'', fr'', fd2, m', _, _, _, hh'⟩
      · exact ⟨c', .inl ⟨⟨fr', hc'⟩, _, _, hs⟩⟩
      · obtain ⟨s', hs⟩ := hs .none; exact ⟨c', .inl ⟨⟨fr', hc'⟩, _, _, hs⟩⟩
      · exact absurd hw' (HeldByOp.not_flockWait ⟨fr', hc', hfd, hl⟩)
      · exact ⟨c'', muHolder_progress hi hm hacyc hh'⟩
    · exact ⟨c', handle_owner_progress hacyc hmem⟩
  · exact ⟨c', muHolder_progress hi hm hacyc hh⟩


/-! ### the EINTR retry loop of filelock.lock

The model has NO fault budget: the fault of every system call is chosen by the environment (`Act.sys f n`), so
an execution may inject EINTR at the same flock for ever.  What the model records is the ghost list `Frame.flt`
of the faults injected into the running operation.  The theorems below count: every flock call of the loop
that does not leave the loop was answered with an injected EINTR. -/

theorem step_other_client {s s' : State} {l : Label} (h : step s l = some s') {c : Cid} (hc : c ≠ l.c) :
    s'.cl c = s.cl c := by
  obtain ⟨c0, a⟩ := l
  cases a with
  | call op => obtain ⟨_, _, rfl⟩ := step_call h; exact setClient_cl_other _ _ _ _ hc
  | ret => obtain ⟨_, _, _, _, rfl⟩ := step_ret h; exact setClient_cl_other _ _ _ _ hc
  | sys f n => obtain ⟨_, _, _, _, _, _, _, _, rfl⟩ := step_sys h; exact upd_other _ _ _ _ hc

/-- the operation is past the flock of openFile (or never performs one) -/
def Pc.pastLock : Pc → Bool
  | .open => false
  | .lock _ => false
  | _ => true

theorem afterOpen_pastLock (op : Op) (fd : Fd) : (afterOpen op fd).pastLock = true := by
  cases op <;> simp only [afterOpen, finPc_eq]
  case write p content => split <;> rfl
  all_goals rfl

theorem afterLock_pastLock (op : Op) (fd : Fd) : (afterLock op fd).pastLock = true := by
  unfold afterLock; split
  · rfl
  · exact afterOpen_pastLock op fd

/-- an operation never goes back to its flock -/
theorem advancePc_pastLock (op : Op) (pc : Pc) (n : Nat) (r : Res) (h : pc.pastLock = true) :
    (advancePc op pc n r).pastLock = true := by
  cases pc <;> simp only [Pc.pastLock] at h
  all_goals simp only [advancePc, finPc_eq, rollbackPc, Gen.Lockedfile.truncAfterLock,
    Gen.Lockedfile.tRollback, Gen.Lockedfile.retriesEINTR, if_true]
  all_goals (repeat' split)
  all_goals first
    | rfl
    | exact afterOpen_pastLock _ _
    | cases h

theorem faultErr_eintr {f : Fault} (h : faultErr f = some .eintr) : f = .eintr := by
  cases f <;> simp [faultErr] at h ⊢

/-- flock(2) answers EINTR only when EINTR was injected -/
theorem osStep_flock_eintr {w w' : World} {c fd k f} (h : osStep w c (.flock fd k) f = some (w', .err .eintr)) :
    f = .eintr := by
  simp only [osStep] at h
  split at h
  · simp at h
  · split at h
    · simp at h
    · split at h
      · split at h
        · rename_i e he
          simp only [Option.some.injEq, Prod.mk.injEq, Res.err.injEq] at h
          exact faultErr_eintr (by rw [he, h.2])
        · simp at h
      · cases h

/-- one flock call of the retry loop: it is answered EINTR (then EINTR was injected, the fault is recorded and
the loop calls flock again, nothing else has changed), or the loop is left — lock granted, or openFile
fails with the error and closes the file. -/
theorem eintr_loop_step {s s' : State} {c : Cid} {fr : Frame} {fd : Fd} {f : Fault} {n : Nat}
    (hc : (s.cl c).cur = some fr) (hpc : fr.pc = .lock fd) (hs : step s ⟨c, .sys f n⟩ = some s') :
    ∃ fr', (s'.cl c).cur = some fr' ∧ fr'.op = fr.op ∧
      ((f = .eintr ∧ fr'.pc = .lock fd ∧ fr'.flt = (Tag.lock, Fault.eintr) :: fr.flt ∧ s'.w = s.w) ∨
       fr'.pc.pastLock = true) := by
  obtain ⟨fr0, sc, tag, w', r, hc0, hsys, hos, rfl⟩ := step_sys hs
  rw [hc] at hc0; cases hc0
  simp only [sysOf, hpc, Option.some.injEq, Prod.mk.injEq] at hsys
  obtain ⟨rfl, rfl⟩ := hsys
  refine ⟨nextFrame s.w w' fr (Sys.flock fd (lockMode fr.op.flag)) Tag.lock f n r, by simp, rfl, ?_⟩
  by_cases hr : r = .err .eintr
  · subst hr
    have hf := osStep_flock_eintr hos
    subst hf
    refine .inl ⟨rfl, ?_, ?_, osStep_err hos⟩
    · simp [nextFrame, hpc, advancePc, Gen.Lockedfile.retriesEINTR]
    · simp [nextFrame, Fault.affects]
  · right
    simp only [nextFrame, hpc, advancePc]
    split
    · exact afterLock_pastLock _ _
    · exact absurd rfl hr
    · rfl

/-- once past the flock, always past the flock (as long as the client does not call a new operation) -/
theorem pastLock_run (c : Cid) : ∀ (ls : List Label) {s s' : State}, runLabels s ls = some s' →
    (∀ fr, (s.cl c).cur = some fr → fr.pc.pastLock = true) → (∀ l ∈ ls, l.c = c → ∀ op, l.a ≠ .call op) →
    ∀ fr', (s'.cl c).cur = some fr' → fr'.pc.pastLock = true
  | [], s, s', hrun, h, _ => by simp [runLabels] at hrun; subst hrun; exact h
  | l :: ls, s, s', hrun, h, hno => by
    simp only [runLabels] at hrun
    cases hs : step s l with
    | none => simp [hs] at hrun
    | some s1 =>
      simp only [hs, Option.bind_some] at hrun
      refine pastLock_run c ls hrun ?_ (fun l' hl' => hno l' (List.mem_cons_of_mem _ hl'))
      by_cases hlc : l.c = c
      · obtain ⟨c0, a⟩ := l
        simp only at hlc; subst hlc
        cases a with
        | call op => exact absurd rfl (hno _ (List.mem_cons_self) rfl op)
        | ret =>
          obtain ⟨_, _, _, _, rfl⟩ := step_ret hs
          intro fr hfr; rw [setClient_cl_same] at hfr; cases hfr
        | sys f n =>
          obtain ⟨fr0, sc, tag, w', r, hc0, _, _, rfl⟩ := step_sys hs
          intro fr hfr
          simp only [upd_same, Option.some.injEq] at hfr; subst hfr
          exact advancePc_pastLock _ _ _ _ (h fr0 hc0)
      · rw [step_other_client hs (fun e => hlc e.symm)]; exact h

theorem replicate_append_cons {α : Type} (j : Nat) (a : α) (l : List α) :
    List.replicate j a ++ a :: l = List.replicate (j + 1) a ++ l := by
  induction j with
  | zero => rfl
  | succ j ih => simp only [List.replicate_succ, List.cons_append, ih]

/-- The retry loop, along ANY execution (any interleaving with other clients): if client `c` is at the flock
of openFile and, after the run `ls` (in which `c` calls no new operation), `c` is at a flock again, then it is
the same flock of the same operation, EVERY step `c` took in between was a flock call answered with an
injected EINTR, and the ghost fault list has grown by exactly that many `(lock, EINTR)` entries. -/
theorem eintr_loop_run (c : Cid) (fd : Fd) : ∀ (ls : List Label) {s s' : State} {fr fr' : Frame},
    runLabels s ls = some s' → (s.cl c).cur = some fr → fr.pc = .lock fd →
    (∀ l ∈ ls, l.c = c → ∀ op, l.a ≠ .call op) →
    (s'.cl c).cur = some fr' → fr'.pc.pastLock = false →
    (∀ l ∈ ls, l.c = c → ∃ n, l.a = .sys .eintr n) ∧ fr'.pc = .lock fd ∧ fr'.op = fr.op ∧
      fr'.flt = List.replicate (ls.countP (fun l => l.c == c)) (Tag.lock, Fault.eintr) ++ fr.flt
  | [], s, s', fr, fr', hrun, hc, hpc, _, hc', _ => by
    simp [runLabels] at hrun; subst hrun
    rw [hc] at hc'; cases hc'
    exact ⟨fun _ h => absurd h (by simp), hpc, rfl, by simp⟩
  | l :: ls, s, s', fr, fr', hrun, hc, hpc, hno, hc', hp' => by
    simp only [runLabels] at hrun
    cases hs : step s l with
    | none => simp [hs] at hrun
    | some s1 =>
      simp only [hs, Option.bind_some] at hrun
      have hno' : ∀ l' ∈ ls, l'.c = c → ∀ op, l'.a ≠ .call op := fun l' hl' => hno l' (List.mem_cons_of_mem _ hl')
      by_cases hlc : l.c = c
      · obtain ⟨c0, a⟩ := l
        simp only at hlc; subst hlc
        cases a with
        | call op => exact absurd rfl (hno _ (List.mem_cons_self) rfl op)
        | ret =>
          rw [notDone_no_ret hc (fun r e => by rw [hpc] at e; cases e)] at hs; cases hs
        | sys f n =>
          obtain ⟨fr1, hc1, hop1, hcase⟩ := eintr_loop_step hc hpc hs
          rcases hcase with ⟨rfl, hpc1, hflt1, _⟩ | hpast
          · obtain ⟨a1, a2, a3, a4⟩ := eintr_loop_run c0 fd ls hrun hc1 hpc1 hno' hc' hp'
            refine ⟨?_, a2, a3.trans hop1, ?_⟩
            · intro l' hl' hl'c
              rcases List.mem_cons.1 hl' with rfl | hl'
              · exact ⟨n, rfl⟩
              · exact a1 l' hl' hl'c
            · rw [a4, hflt1, List.countP_cons]
              simp only [beq_self_eq_true, if_true]
              exact replicate_append_cons _ _ _
          · have := pastLock_run c0 ls hrun (fun fr hfr => by rw [hc1] at hfr; cases hfr; exact hpast) hno' fr' hc'
            rw [this] at hp'; cases hp'
      · have hcl := step_other_client hs (c := c) (fun e => hlc e.symm)
        obtain ⟨a1, a2, a3, a4⟩ := eintr_loop_run c fd ls hrun (by rw [hcl]; exact hc) hpc hno' hc' hp'
        refine ⟨?_, a2, a3, ?_⟩
        · intro l' hl' hl'c
          rcases List.mem_cons.1 hl' with rfl | hl'
          · exact absurd hl'c hlc
          · exact a1 l' hl' hl'c
        · rw [a4, List.countP_cons]; simp [hlc]


def Act.isEintr : Act → Bool
  | .sys .eintr _ => true
  | _ => false

/-- **The retry loop cannot run for ever on its own**: if along a run at most `k` EINTR faults are injected into
the steps of client `c`, which is at the flock of openFile, then after at most `k + 1` steps of `c` — that is,
at most `k + 1` flock calls — the loop has been left (the lock was granted, or openFile failed with the
other error).  (A blocked flock is not a step.) -/
theorem eintr_budget {c : Cid} {fd : Fd} {ls : List Label} {s s' : State} {fr : Frame} {k : Nat}
    (hrun : runLabels s ls = some s') (hc : (s.cl c).cur = some fr) (hpc : fr.pc = .lock fd)
    (hno : ∀ l ∈ ls, l.c = c → ∀ op, l.a ≠ .call op)
    (hk : ls.countP (fun l => l.c == c && l.a.isEintr) ≤ k) (hsteps : k + 1 ≤ ls.countP (fun l => l.c == c)) :
    ∀ fr', (s'.cl c).cur = some fr' → fr'.pc.pastLock = true := by
  intro fr' hc'
  cases hp : fr'.pc.pastLock with
  | true => rfl
  | false =>
    obtain ⟨a1, _, _, _⟩ := eintr_loop_run c fd ls hrun hc hpc hno hc' hp
    have : ls.countP (fun l => l.c == c && l.a.isEintr) = ls.countP (fun l => l.c == c) := by
      apply List.countP_congr
      intro l hl
      by_cases hlc : l.c = c
      · obtain ⟨n, hn⟩ := a1 l hl hlc
        simp [hlc, hn, Act.isEintr]
      · simp [hlc]
    omega

/-! ### the holder of a lock releases it within a bounded number of its own steps -/

/-- bytes still to be read through `fd` before end of file -/
def rdLeft (w : World) (fd : Fd) : Nat :=
  match w.fds fd with
  | some o => (w.content o.path).length - o.off
  | none => 0

/-- bound for an operation that has just got its locked file from openFile, with `rd` bytes to read -/
def opLeft (op : Op) (rd : Nat) : Nat :=
  match op with
  | .read _ => rd + 3
  | .write _ content => content.length + 3
  | .transform _ _ => rd + 8
  | .mutexLock _ _ => 1
  | _ => 0

/-- An upper bound for the number of system calls the operation still performs up to and including the one
that releases its lock (0: the lock is not held by the running operation, or OpenFile / Mutex.Lock is about to
return the locked file to its caller).  `rd` = bytes still to be read from the descriptor. -/
def pcLeft (rd : Nat) (op : Op) : Pc → Nat
  | .trunc _ => opLeft op Gen.Lockedfile.truncSize + 4
  | .truncStat _ => 3
  | .readAll _ _ => rd + 3
  | .copy _ rest => rest.length + 3
  | .tRead _ _ => rd + 8
  | .tTail _ _ _ => 7
  | .tTailUndo _ _ => 3
  | .tBody _ _ _ => 6
  | .tShrink _ _ _ => 5
  | .tRb1 _ _ => 4
  | .tRb2 _ _ => 3
  | .mlock _ _ => 1
  | .munlock _ _ => 3
  | .unlock _ _ => 2
  | .close _ _ true => 1
  | _ => 0

/-- the bound as a function of the state: the remaining program of the operation (and, for Read / Transform,
the number of bytes between the read offset and the end of the file) -/
def relLeft (w : World) (fr : Frame) : Nat :=
  match fr.pc.fd? with
  | some fd => pcLeft (rdLeft w fd) fr.op fr.pc
  | none => 0

theorem opLeft_mono (op : Op) {a b : Nat} (h : a ≤ b) : opLeft op a ≤ opLeft op b := by
  cases op <;> simp only [opLeft] <;> omega

theorem afterOpen_left (op : Op) (fd : Fd) (rd : Nat) (h : op.opens = true) :
    (afterOpen op fd).fd? = some fd ∧ (afterOpen op fd).locked = true ∧ pcLeft rd op (afterOpen op fd) ≤ opLeft op rd := by
  cases op <;> (try (simp [Op.opens] at h; done)) <;> simp only [afterOpen, finPc_eq]
  case write p content =>
    split
    · exact ⟨rfl, rfl, by simp only [pcLeft, opLeft]; omega⟩
    · exact ⟨rfl, rfl, by simp only [pcLeft, opLeft]; omega⟩
  all_goals exact ⟨rfl, rfl, by simp only [pcLeft, opLeft]; omega⟩

/-- the control points between the successful flock and closeFile, except the last one of OpenFile / Mutex.Lock -/
theorem advancePc_left (op : Op) (pc : Pc) (n : Nat) (r : Res) (rd rd' : Nat) (fd : Fd) (hd : pc.isData = true)
    (hfd : pc.fd? = some fd) (hn : ∀ fd0 rest, pc = .copy fd0 rest → n ≠ 0)
    (h1 : ∀ b, r = .bytes b → (∃ acc, pc = .readAll fd acc ∨ pc = .tRead fd acc) → rd' < rd)
    (h2 : ∀ fd0, pc = .trunc fd0 → op.opens = true ∧ (r = .ok → rd' ≤ Gen.Lockedfile.truncSize)) :
    (advancePc op pc n r).fd? = some fd ∧ (advancePc op pc n r).locked = true ∧
      pcLeft rd' op (advancePc op pc n r) < pcLeft rd op pc := by
  cases pc <;> (try (simp [Pc.isData] at hd; done)) <;> simp only [Pc.fd?, Option.some.injEq] at hfd <;> subst hfd
  case trunc fd =>
    obtain ⟨g2, g1⟩ := h2 fd rfl
    obtain ⟨a1, a2, a3⟩ := afterOpen_left op fd rd' g2
    simp only [advancePc, Gen.Lockedfile.truncAfterLock, if_true]
    split
    · have := opLeft_mono op (g1 rfl)
      exact ⟨a1, a2, by simp only [pcLeft] at a3 ⊢; omega⟩
    · exact ⟨rfl, rfl, by simp only [pcLeft]; omega⟩
  case readAll fd acc =>
    simp only [advancePc, finPc_eq]
    split
    · rename_i b; have := h1 b rfl ⟨acc, .inl rfl⟩; exact ⟨rfl, rfl, by simp only [pcLeft]; omega⟩
    · exact ⟨rfl, rfl, by simp only [pcLeft]; omega⟩
    · exact ⟨rfl, rfl, by simp only [pcLeft]; omega⟩
  case tRead fd acc =>
    simp only [advancePc, finPc_eq]
    repeat' split
    all_goals first
      | (rename_i b; have := h1 b rfl ⟨acc, .inr rfl⟩; exact ⟨rfl, rfl, by simp only [pcLeft]; omega⟩)
      | exact ⟨rfl, rfl, by simp only [pcLeft]; omega⟩
  case copy fd rest =>
    simp only [advancePc, finPc_eq]
    repeat' split
    · exact ⟨rfl, rfl, by simp only [pcLeft]; omega⟩
    · rename_i hne
      have hn := hn fd rest rfl
      have : (rest.drop n).length ≠ 0 := by
        intro h0; apply hne; simp [List.length_eq_zero_iff.1 h0]
      rw [List.length_drop] at this
      exact ⟨rfl, rfl, by simp only [pcLeft, List.length_drop]; omega⟩
    · exact ⟨rfl, rfl, by simp only [pcLeft]; omega⟩
  all_goals simp only [advancePc, finPc_eq, rollbackPc, Gen.Lockedfile.tRollback, if_true]
  all_goals (repeat' split)
  all_goals exact ⟨rfl, rfl, by simp only [pcLeft]; omega⟩


theorem length_resize (d : Bytes) (n : Nat) : (resize d n).length = n := by
  simp [resize, zeros]; omega

/-- a successful read moves the offset towards the end of the file -/
theorem read_rdLeft {w w' : World} {c fd n f b} (h : osStep w c (.read fd n) f = some (w', .bytes b)) (hn : n ≠ 0) :
    rdLeft w' fd < rdLeft w fd := by
  simp only [osStep] at h
  split at h
  · simp at h
  · rename_i o ho
    split at h
    · simp at h
    · split at h
      · split at h
        · rename_i hlt
          simp only [Option.some.injEq, Prod.mk.injEq, Res.bytes.injEq] at h
          obtain ⟨rfl, rfl⟩ := h
          simp only [rdLeft, ho, upd_same, World.content]
          simp only [World.content] at hlt
          simp only [List.length_take, List.length_drop]
          omega
        · simp at h
      · simp at h

/-- after a successful ftruncate to `n` at most `n` bytes remain to be read -/
theorem trunc_rdLeft {w w' : World} {c fd n f} (h : osStep w c (.ftruncate fd n) f = some (w', .ok)) :
    rdLeft w' fd ≤ n := by
  simp only [osStep] at h
  split at h
  · simp at h
  · rename_i o ho
    split at h
    · simp at h
    · split at h
      · simp only [Option.some.injEq, Prod.mk.injEq, and_true] at h
        subst h
        simp only [rdLeft, ho, World.content, upd_same, contentOf, length_resize]
        omega
      · simp at h

theorem faultErr_cases (f : Fault) : (faultErr f = none ∧ (f = .none ∨ (∃ k, f = .short k) ∨ f = .shared)) ∨
    (f = .fail ∧ faultErr f = some .injected) ∨ (f = .eintr ∧ faultErr f = some .eintr) := by
  cases f <;> simp [faultErr]

/-- One system call of the operation that holds the lock of description `fd` (any fault, any chunk size):
(A) it releases the lock; or (B) the operation still holds it and its bound `relLeft` has become strictly
smaller; or (C) it was closeFile's Unlock, answered with an injected EINTR, and is retried; or (D) it was the
close(2) after a failed Unlock and it failed too or the description is shared: the lock is leaked. -/
theorem holder_step {s s' : State} (hi : Inv1 s) (hm : MuInv s) {c : Cid} {fr : Frame} {fd : Fd} {f : Fault} {n : Nat}
    (hc : (s.cl c).cur = some fr) (hfd : fr.pc.fd? = some fd) (hl : fr.pc.locked = true)
    (hs : step s ⟨c, .sys f n⟩ = some s') :
    (∀ p k, ¬ holdsFd s'.w fd p k) ∨
    (∃ fr', (s'.cl c).cur = some fr' ∧ fr'.op = fr.op ∧ fr'.pc.fd? = some fd ∧ fr'.pc.locked = true ∧
      relLeft s'.w fr' < relLeft s.w fr) ∨
    (f = .eintr ∧ ∃ ret fr', fr.pc = .unlock fd ret ∧ (s'.cl c).cur = some fr' ∧ fr'.pc = .unlock fd ret ∧ s'.w = s.w) ∨
    ((f = .fail ∨ f = .eintr ∨ f = .shared) ∧ ∃ ret, fr.pc = .close fd ret true) := by
  have hi' := step_Inv1 hi hs
  obtain ⟨fr0, sc, tag, w', r, hc0, hsys, hos, rfl⟩ := step_sys hs
  rw [hc] at hc0; cases hc0
  have hfr := (hi.clients c).frame fr hc
  have hcur' : ((State.mk w' (upd s.cl c ⟨(s.cl c).held, some (nextFrame s.w w' fr sc tag f n r)⟩)).cl c).cur =
      some (nextFrame s.w w' fr sc tag f n r) := by simp
  have hfr' := (hi'.clients c).frame _ hcur'
  have hrl : relLeft s.w fr = pcLeft (rdLeft s.w fd) fr.op fr.pc := by simp [relLeft, hfd]
  by_cases hd : fr.pc.isData = true
  · right; left
    have key := advancePc_left fr.op fr.pc n r (rdLeft s.w fd) (rdLeft w' fd) fd hd hfd
      (fun fd0 rest hpc => by
        intro hn; subst hn; simp [sysOf, hpc] at hsys)
      (fun b hb hex => by
        subst hb
        have : sc = .read fd n ∧ n ≠ 0 := by
          obtain ⟨acc, hpc | hpc⟩ := hex <;> simp only [sysOf, hpc] at hsys <;> split at hsys <;> simp at hsys <;>
            exact ⟨hsys.1.symm, by assumption⟩
        obtain ⟨rfl, hn⟩ := this
        exact read_rdLeft hos hn)
      (fun fd0 hpc => by
        refine ⟨hm.opens c fr hc (by rw [hpc]; rfl), fun hr => ?_⟩
        subst hr
        simp only [sysOf, hpc, Option.some.injEq, Prod.mk.injEq] at hsys
        obtain ⟨rfl, _⟩ := hsys
        rw [hpc] at hfd; simp only [Pc.fd?, Option.some.injEq] at hfd; subst hfd
        exact trunc_rdLeft hos)
    refine ⟨_, hcur', rfl, key.1, key.2.1, ?_⟩
    rw [hrl]
    have : relLeft w' (nextFrame s.w w' fr sc tag f n r) =
        pcLeft (rdLeft w' fd) fr.op (advancePc fr.op fr.pc n r) := by
      simp only [relLeft, nextFrame, key.1]
    rw [this]; exact key.2.2
  · cases hpc : fr.pc <;> rw [hpc] at hd hl hfd <;> (try (simp [Pc.isData] at hd; done)) <;>
      (try (simp [Pc.locked] at hl; done)) <;> (try (simp [Pc.fd?] at hfd; done))
    case unlock fd0 ret =>
      simp only [Pc.fd?, Option.some.injEq] at hfd; subst hfd
      simp only [sysOf, hpc, Option.some.injEq, Prod.mk.injEq] at hsys
      obtain ⟨rfl, rfl⟩ := hsys
      rcases osStep_funlock_spec hos with ⟨e, rfl, rfl⟩ | ⟨o, ho, rfl, rfl⟩
      · by_cases he : e = .eintr
        · subst he
          right; right; left
          have hf : f = .eintr := by
            simp only [osStep] at hos
            split at hos
            · simp at hos
            · split at hos
              · rename_i e' he'
                simp only [Option.some.injEq, Prod.mk.injEq, Res.err.injEq, true_and] at hos
                exact faultErr_eintr (by rw [he', hos])
              · simp at hos
          exact ⟨hf, ret, _, rfl, hcur', by simp [nextFrame, hpc, advancePc, Gen.Lockedfile.retriesEINTR], rfl⟩
        · right; left
          have hp' : advancePc fr.op (.unlock fd0 ret) n (.err e) = .close fd0 (closeRet fr.op ret true) true := by
            cases e <;> simp [advancePc] at he ⊢
          refine ⟨_, hcur', rfl, by simp [nextFrame, hpc, hp', Pc.fd?], by simp [nextFrame, hpc, hp', Pc.locked], ?_⟩
          rw [hrl, hpc]
          simp [relLeft, nextFrame, hpc, hp', Pc.fd?, pcLeft]
      · left
        have := hfr'.fd fd0 (by simp [nextFrame, hpc, advancePc, Pc.fd?])
        simpa [nextFrame, hpc, advancePc, Pc.locked] using this.2.2
    case close fd0 ret b =>
      simp only [Pc.fd?, Option.some.injEq] at hfd; subst hfd
      simp only [Pc.locked] at hl; subst hl
      simp only [sysOf, hpc, Option.some.injEq, Prod.mk.injEq] at hsys
      obtain ⟨rfl, rfl⟩ := hsys
      obtain ⟨ho, _, hh⟩ := hfr.fd fd0 (by simp [hpc, Pc.fd?])
      obtain ⟨o, hfds, hpath, _⟩ := ho.open
      rcases faultErr_cases f with ⟨hfe, hff⟩ | ⟨hff, _⟩ | ⟨hff, _⟩
      · by_cases hsh : f = .shared
        · exact .inr (.inr (.inr ⟨.inr (.inr hsh), ret, rfl⟩))
        · left
          simp only [osStep, hfds, hfe, hsh, if_false, Option.some.injEq, Prod.mk.injEq] at hos
          obtain ⟨rfl, _⟩ := hos
          intro p k hk
          obtain ⟨hk1, hk2⟩ := (holdsFd_closeFd ..).1 hk
          exact hk2 ⟨rfl, (hi.world.holds_path hk1 hfds).symm⟩
      · exact .inr (.inr (.inr ⟨.inl hff, ret, rfl⟩))
      · exact .inr (.inr (.inr ⟨.inr (.inl hff), ret, rfl⟩))
    case done ret =>
      simp [sysOf, hpc] at hsys


theorem pcLeft_pos (rd : Nat) (op : Op) (pc : Pc) (hl : pc.locked = true) (hd : ∀ r, pc ≠ .done r) :
    1 ≤ pcLeft rd op pc := by
  cases pc <;> simp only [Pc.locked] at hl <;> simp only [pcLeft] <;> try omega
  case close fd ret b => subst hl; simp
  case done r => exact absurd rfl (hd r)
  all_goals cases hl

theorem reachable_step {files0 : Path → Option Bytes} {s s' : State} {l : Label} (h : Reachable files0 s)
    (hs : step s l = some s') : Reachable files0 s' := Reachable.step l h hs

/-- **The holder can release.**  From a reachable state in which the running operation of client `c` holds the
lock of description `fd`, there is a run of at most `relLeft` fault-free system calls of `c` ALONE after
which the lock is released, or OpenFile / Mutex.Lock is about to hand the locked file to its caller
(who releases it by Close / unlock), or — Mutex.Lock only — the operation waits for the in-process mutex. -/
theorem holder_releases {files0 : Path → Option Bytes} {c : Cid} {fd : Fd} : ∀ (m : Nat) {s : State} {fr : Frame},
    Reachable files0 s → (s.cl c).cur = some fr → fr.pc.fd? = some fd → fr.pc.locked = true →
    relLeft s.w fr ≤ m →
    ∃ ls s', (∀ l ∈ ls, l = ⟨c, .sys .none 1⟩) ∧ ls.length ≤ relLeft s.w fr ∧ runLabels s ls = some s' ∧
      ((∀ p k, ¬ holdsFd s'.w fd p k) ∨
       (∃ fr', (s'.cl c).cur = some fr' ∧ fr'.pc = .done (.handle fd) ∧ fr'.op = fr.op) ∨
       (∃ c', MuWait s' c c')) := by
  intro m
  induction m with
  | zero =>
    intro s fr hr hc hfd hl hm
    by_cases hd : ∃ r, fr.pc = .done r
    · obtain ⟨r, hp⟩ := hd
      have : r = .handle fd := by
        rw [hp] at hfd; cases r <;> simp [Pc.fd?] at hfd; rw [hfd]
      subst this
      exact ⟨[], s, by simp, by simp, rfl, .inr (.inl ⟨fr, hc, hp, rfl⟩)⟩
    · have := pcLeft_pos (rdLeft s.w fd) fr.op fr.pc hl (fun r e => hd ⟨r, e⟩)
      simp only [relLeft, hfd] at hm; omega
  | succ m ih =>
    intro s fr hr hc hfd hl hm
    have hi := reachable_Inv1 hr
    have hmu := reachable_MuInv hr
    rcases busy_cases hi hmu hc with ⟨r, _, hp, _⟩ | ⟨_, hen⟩ | ⟨fd', hw⟩ | hw
    · have : r = .handle fd := by
        rw [hp] at hfd; cases r <;> simp [Pc.fd?] at hfd; rw [hfd]
      subst this
      exact ⟨[], s, by simp, by simp, rfl, .inr (.inl ⟨fr, hc, hp, rfl⟩)⟩
    · obtain ⟨s1, hs1⟩ := hen .none
      rcases holder_step hi hmu hc hfd hl hs1 with hA | ⟨fr1, hc1, hop1, hfd1, hl1, hlt⟩ | ⟨hf, _⟩ | ⟨hf, _⟩
      · have hpos : 1 ≤ relLeft s.w fr := by
          simp only [relLeft, hfd]
          exact pcLeft_pos _ _ _ hl (fun r e => by
            obtain ⟨_, _, _, _, _, hc0, hsys, _⟩ := step_sys hs1
            rw [hc] at hc0; cases hc0; simp [sysOf, e] at hsys)
        exact ⟨[⟨c, .sys .none 1⟩], s1, by simp, by simpa using hpos, by simp [runLabels, hs1], .inl hA⟩
      · obtain ⟨ls, s2, h1, h2, h3, h4⟩ := ih (reachable_step hr hs1) hc1 hfd1 hl1 (by omega)
        refine ⟨⟨c, .sys .none 1⟩ :: ls, s2, ?_, by simp only [List.length_cons]; omega, by simp [runLabels, hs1, h3], ?_⟩
        · intro l hl'
          rcases List.mem_cons.1 hl' with rfl | hl'
          · rfl
          · exact h1 l hl'
        · rcases h4 with h4 | ⟨fr2, a, b, c2⟩ | h4
          · exact .inl h4
          · exact .inr (.inl ⟨fr2, a, b, c2.trans hop1⟩)
          · exact .inr (.inr h4)
      · cases hf
      · rcases hf with hf | hf | hf <;> cases hf
    · exact absurd hw (HeldByOp.not_flockWait ⟨fr, hc, hfd, hl⟩)
    · exact ⟨[], s, by simp, by simp, rfl, .inr (.inr hw)⟩

/-- closeFile's Unlock, un-faulted, is enabled and releases the lock -/
theorem unlock_releases {s : State} (hi : Inv1 s) {c : Cid} {fr : Frame} {fd : Fd} {ret : Ret}
    (hc : (s.cl c).cur = some fr) (hpc : fr.pc = .unlock fd ret) :
    ∃ s', step s ⟨c, .sys .none 1⟩ = some s' ∧ ∀ p k, ¬ holdsFd s'.w fd p k := by
  obtain ⟨ho, _, _⟩ := ((hi.clients c).frame fr hc).fd fd (by simp [hpc, Pc.fd?])
  obtain ⟨o, hfd, _⟩ := ho.open
  have hos : osStep s.w c (.funlock fd) .none = some (dropLock s.w fd o.path, .ok) := by
    simp [osStep, hfd, faultErr]
  refine ⟨_, step_sys_mk (tag := .unlock) hc (by simp [sysOf, hpc]) hos, ?_⟩
  intro p k hk
  obtain ⟨hk1, hk2⟩ := (holdsFd_dropLock ..).1 hk
  exact hk2 ⟨rfl, (hi.world.holds_path hk1 hfd).symm⟩

/-- the `mu.mu.Unlock()` of the unlock function, then on to closeFile -/
theorem munlock_step {s : State} {c : Cid} {fr : Frame} {fd : Fd} {m : Nat}
    (hc : (s.cl c).cur = some fr) (hpc : fr.pc = .munlock fd m) (hmus : s.w.mus m = true) :
    ∃ s' fr', step s ⟨c, .sys .none 1⟩ = some s' ∧ (s'.cl c).cur = some fr' ∧ fr'.pc = .unlock fd .ok := by
  have hos : osStep s.w c (.munlock m) .none = some ({ s.w with mus := upd s.w.mus m false }, .ok) := by
    simp [osStep, hmus]
  refine ⟨_, nextFrame s.w { s.w with mus := upd s.w.mus m false } fr (.munlock m) .munlock .none 1 .ok,
    step_sys_mk (tag := .munlock) hc (n := 1) (by simp [sysOf, hpc]) hos, by simp, ?_⟩
  simp [nextFrame, hpc, advancePc, finPc_eq]

/-- **A handed-out File / Mutex is released by its user's Close / unlock**: an idle client that holds the File
`h` can call Close (for a Mutex: the unlock function), and that call releases the lock with its second
(Mutex: third) step — `mu.mu.Unlock()` first, then closeFile's Unlock. -/
theorem handle_releases {files0 : Path → Option Bytes} {s : State} (hr : Reachable files0 s) {c : Cid} {h : Handle}
    (hc : (s.cl c).cur = none) (hm : h ∈ (s.cl c).held) :
    ∃ ls s', ls.length ≤ 3 ∧ (∀ l ∈ ls, l.c = c) ∧ ls.head? = some ⟨c, .call (closeOp h)⟩ ∧
      runLabels s ls = some s' ∧ ∀ p k, ¬ holdsFd s'.w h.fd p k := by
  have hs1 := step_call_mk hc (closeOp_callable hm)
  have hr1 := reachable_step hr hs1
  have hi1 := reachable_Inv1 hr1
  generalize hs1' : setClient s c ⟨heldAfterCall (s.cl c).held (closeOp h),
      some ⟨closeOp h, startPc (closeOp h), s.w.hist (closeOp h).path, [], [], none⟩⟩ = s1 at hs1 hr1 hi1
  have hc1 : (s1.cl c).cur = some ⟨closeOp h, startPc (closeOp h), s.w.hist (closeOp h).path, [], [], none⟩ := by
    rw [← hs1', setClient_cl_same]
  cases hmu : h.mu with
  | none =>
    have hop : closeOp h = .closeH h := by simp [closeOp, hmu]
    obtain ⟨s2, hs2, hrel⟩ := unlock_releases hi1 hc1 (fd := h.fd) (ret := .ok) (by simp [hop, startPc, finPc_eq])
    exact ⟨[⟨c, .call (closeOp h)⟩, ⟨c, .sys .none 1⟩], s2, by simp, by simp, rfl, by simp [runLabels, hs1, hs2], hrel⟩
  | some m =>
    have hop : closeOp h = .unlockM h := by simp [closeOp, hmu]
    have hpc1 : startPc (closeOp h) = .munlock h.fd m := by simp [hop, startPc, hmu]
    have hmus : s1.w.mus m = true :=
      (reachable_MuInv hr1).locked (c := c) (.inr ⟨_, hc1, by simp [hpc1, holdsMu]⟩)
    obtain ⟨s2, fr2, hs2, hc2, hpc2⟩ := munlock_step hc1 hpc1 hmus
    have hr2 := reachable_step hr1 hs2
    obtain ⟨s3, hs3, hrel⟩ := unlock_releases (reachable_Inv1 hr2) hc2 hpc2
    exact ⟨[⟨c, .call (closeOp h)⟩, ⟨c, .sys .none 1⟩, ⟨c, .sys .none 1⟩], s3, by simp, by simp, rfl,
      by simp [runLabels, hs1, hs2, hs3], hrel⟩


/-! ### quiescent states, and helpers for concrete runs -/

/-- Under the hypotheses of `deadlock_free_acyclic`, a state in which no client can make progress is final:
every operation has returned, every File has been closed, and the lock table is empty. -/
theorem quiescent_final {s : State} (hi : Inv1 s) (hm : MuInv s) (hleak : NoLeak s)
    (hacyc : ∀ c, Busy s c → ¬ Enabled s c → (s.cl c).held = []) (hq : ∀ c, ¬ CanProgress s c) :
    (∀ c, (s.cl c).cur = none ∧ (s.cl c).held = []) ∧ ∀ fd p k, ¬ holdsFd s.w fd p k := by
  have hidle : ∀ c, (s.cl c).cur = none := by
    intro c
    cases hc : (s.cl c).cur with
    | none => rfl
    | some fr =>
      obtain ⟨c', hp⟩ := deadlock_free_acyclic hi hm hleak hacyc ⟨c, fr, hc⟩
      exact absurd hp (hq c')
  have hheld : ∀ c, (s.cl c).held = [] := by
    intro c
    cases hh : (s.cl c).held with
    | nil => rfl
    | cons h t =>
      exact absurd (.inr ⟨hidle c, h, by rw [hh]; exact List.mem_cons_self, idle_can_close (hidle c) (by rw [hh]; exact List.mem_cons_self)⟩) (hq c)
  refine ⟨fun c => ⟨hidle c, hheld c⟩, fun fd p k hk => ?_⟩
  obtain ⟨c, ⟨fr, hc, _⟩ | ⟨h, hm', _⟩⟩ := hleak fd p k hk
  · rw [hidle c] at hc; cases hc
  · rw [hheld c] at hm'; cases hm'

theorem run_other_client (c : Cid) : ∀ (ls : List Label) {s s' : State}, runLabels s ls = some s' →
    (∀ l ∈ ls, l.c ≠ c) → s'.cl c = s.cl c
  | [], s, s', hrun, _ => by simp [runLabels] at hrun; rw [hrun]
  | l :: ls, s, s', hrun, hne => by
    simp only [runLabels] at hrun
    cases hs : step s l with
    | none => simp [hs] at hrun
    | some s1 =>
      simp only [hs, Option.bind_some] at hrun
      rw [run_other_client c ls hrun (fun l' hl' => hne l' (List.mem_cons_of_mem _ hl')),
        step_other_client hs (fun e => hne l List.mem_cons_self e.symm)]

/-- Build `FlockWait` for a concrete state. -/
theorem FlockWait.ofFrame {s : State} {c : Cid} {fd' fd : Fd} {k' : LockKind} (h : (s.cl c).cur.isSome = true)
    (h1 : ((s.cl c).cur.get h).pc = .lock fd)
    (h2 : (accRd ((s.cl c).cur.get h).op.flag || accWr ((s.cl c).cur.get h).op.flag) = true) (h3 : fd' ≠ fd)
    (h4 : holdsFd s.w fd' ((s.cl c).cur.get h).op.path k')
    (h5 : lockMode ((s.cl c).cur.get h).op.flag = .ex ∨ k' = .ex) : FlockWait s c fd' :=
  ⟨_, fd, k', (Option.some_get h).symm, h1, h2, h3, h4, h5⟩

/-- Build `MuWait` for a concrete state. -/
theorem MuWait.ofFrame {s : State} {c c' : Cid} {fd : Fd} {m : Nat} (h : (s.cl c).cur.isSome = true)
    (h1 : ((s.cl c).cur.get h).pc = .mlock fd m) (h2 : s.w.mus m = true) (h3 : MuHolder s c' m) : MuWait s c c' :=
  ⟨_, fd, m, (Option.some_get h).symm, h1, h2, h3⟩

theorem MuWait.not_flockWait {s : State} {c c' : Cid} {fd' : Fd} (h : MuWait s c c') : ¬ FlockWait s c fd' := by
  obtain ⟨fr, fd, m, hc, hpc, _⟩ := h
  rintro ⟨fr', fd0, _, hc', hpc', _⟩
  rw [hc] at hc'; cases hc'
  rw [hpc] at hpc'; cases hpc'

/-- Build `HeldByOp` for a concrete state. -/
theorem HeldByOp.ofFrame {s : State} {c : Cid} {fd : Fd} (h : (s.cl c).cur.isSome = true)
    (h1 : ((s.cl c).cur.get h).pc.fd? = some fd) (h2 : ((s.cl c).cur.get h).pc.locked = true) : HeldByOp s c fd :=
  ⟨_, (Option.some_get h).symm, h1, h2⟩


/-! ### no fault budget: EINTR can be injected for ever -/

/-- client `c` is at the flock of openFile on `fd`, and the request is compatible with the lock table -/
def AtFreeFlock (c : Cid) (fd : Fd) (s : State) : Prop :=
  ∃ fr o, (s.cl c).cur = some fr ∧ fr.pc = .lock fd ∧ s.w.fds fd = some o ∧ (o.rd || o.wr) = true ∧
    compatible s.w fd o.path (lockMode fr.op.flag) = true

theorem AtFreeFlock.ofFrame {c : Cid} {fd : Fd} {s : State} (h : (s.cl c).cur.isSome = true)
    (h' : (s.w.fds fd).isSome = true) (h1 : ((s.cl c).cur.get h).pc = .lock fd)
    (h2 : (((s.w.fds fd).get h').rd || ((s.w.fds fd).get h').wr) = true)
    (h3 : compatible s.w fd ((s.w.fds fd).get h').path (lockMode ((s.cl c).cur.get h).op.flag) = true) :
    AtFreeFlock c fd s :=
  ⟨_, _, (Option.some_get h).symm, h1, (Option.some_get h').symm, h2, h3⟩

/-- an injected EINTR at such a flock is a step, and leads to such a state again -/
theorem eintr_can_repeat {c : Cid} {fd : Fd} {s : State} (h : AtFreeFlock c fd s) :
    ∃ s', step s ⟨c, .sys .eintr 0⟩ = some s' ∧ AtFreeFlock c fd s' := by
  obtain ⟨fr, o, hc, hpc, ho, hrw, hcomp⟩ := h
  have hos : osStep s.w c (.flock fd (lockMode fr.op.flag)) .eintr = some (s.w, .err .eintr) := by
    simp [osStep, ho, hcomp, faultErr, hrw]
  refine ⟨_, step_sys_mk (tag := .lock) hc (n := 0) (by simp [sysOf, hpc]) hos,
    nextFrame s.w s.w fr (.flock fd (lockMode fr.op.flag)) .lock .eintr 0 (.err .eintr), o, by simp, ?_, ho, hrw, ?_⟩
  · simp [nextFrame, hpc, advancePc, Gen.Lockedfile.retriesEINTR]
  · exact hcomp

/-- an execution that never ends, made of flock calls of ONE operation only -/
theorem eintr_forever {c : Cid} {fd : Fd} {s0 : State} (h0 : AtFreeFlock c fd s0) :
    ∃ σ : Nat → State, σ 0 = s0 ∧ ∀ i, step (σ i) ⟨c, .sys .eintr 0⟩ = some (σ (i + 1)) := by
  let next : {s // AtFreeFlock c fd s} → {s // AtFreeFlock c fd s} := fun x =>
    ⟨Classical.choose (eintr_can_repeat x.2), (Classical.choose_spec (eintr_can_repeat x.2)).2⟩
  let seq : Nat → {s // AtFreeFlock c fd s} := fun i => Nat.rec ⟨s0, h0⟩ (fun _ x => next x) i
  exact ⟨fun i => (seq i).1, rfl, fun i => (Classical.choose_spec (eintr_can_repeat (seq i).2)).1⟩

end GIV.Lockedfile
