/-
  Lemmas about the two environment structures of a TestScript (the `ts.env` list handed to os/exec
  and the `ts.envMap` used by Getenv / expansion) and about os/exec's de-duplication.
-/
import GIV.Model.ScriptParse
namespace GIV.Script
open GIV

/-! ### lookup -/

theorem lookup_append_one (env : Env) (a b k : Bytes) :
    lookup (env ++ [(a, b)]) k = if a = k then b else lookup env k := by
  simp [lookup, List.foldl_append]

theorem lookup_nil (k : Bytes) : lookup [] k = [] := rfl

/-! ### strings.Index(kv, "=") -/

theorem idxEq_append (k v : Bytes) (hk : EQ ∉ k) : idxEq (k ++ EQ :: v) = some k.length := by
  induction k with
  | nil => simp [idxEq]
  | cons c k ih =>
    have hc : c ≠ EQ := fun h => hk (by simp [h])
    have hk' : EQ ∉ k := fun h => hk (by simp [h])
    simp [idxEq, hc, ih hk']

theorem splitEq_append (k v : Bytes) (hk : EQ ∉ k) : splitEq (k ++ EQ :: v) = some (k, v) := by
  simp [splitEq, idxEq_append k v hk]

/-- The three facts about the first '=' of a string: what precedes it has none, and the string is
key, '=', value. -/
theorem idxEq_some {kv : Bytes} {i : Nat} (h : idxEq kv = some i) :
    EQ ∉ kv.take i ∧ kv = kv.take i ++ EQ :: kv.drop (i + 1) ∧ (kv.take i).length = i := by
  induction kv generalizing i with
  | nil => simp [idxEq] at h
  | cons c t ih =>
    by_cases hc : c = EQ
    · subst hc
      have : i = 0 := by simpa [idxEq] using h.symm
      subst this
      simp
    · simp only [idxEq, hc, if_false] at h
      cases hi : idxEq t with
      | none => simp [hi] at h
      | some j =>
        have : i = j + 1 := by simpa [hi] using h.symm
        subst this
        obtain ⟨h1, h2, h3⟩ := ih hi
        refine ⟨?_, ?_, ?_⟩
        · simp only [List.take_succ_cons, List.mem_cons, not_or]
          exact ⟨fun h => hc h.symm, h1⟩
        · simp only [List.take_succ_cons, List.drop_succ_cons, List.cons_append]
          rw [← h2]
        · simp [h3]

theorem splitEq_key_noEq {kv k v : Bytes} (h : splitEq kv = some (k, v)) : EQ ∉ k := by
  simp only [splitEq, Option.map_eq_some_iff] at h
  obtain ⟨i, hi, hkv⟩ := h
  have := (idxEq_some hi).1
  have hk : kv.take i = k := by simpa using congrArg Prod.fst hkv
  rwa [hk] at this

/-- copyenv's key of an entry. -/
def keyOf (kv : Bytes) : Option Bytes := (splitEq kv).map (·.1)

/-- For a proper name (non-empty, no '='), os/exec files an entry under it exactly when the child's
runtime does. -/
theorem dedupKey_eq_iff (kv k : Bytes) (hne : k ≠ []) (hk : EQ ∉ k) :
    dedupKey kv = some k ↔ keyOf kv = some k := by
  cases hi : idxEq kv with
  | none => simp [dedupKey, keyOf, splitEq, hi]
  | some i =>
    cases i with
    | zero =>
      -- the entry starts with '=': neither side can be a proper name
      have hkey : keyOf kv = some [] := by simp [keyOf, splitEq, hi]
      have hhead : ∃ t, kv = EQ :: t := by
        have := (idxEq_some hi).2.1
        simp at this
        exact ⟨_, this⟩
      obtain ⟨t, rfl⟩ := hhead
      constructor
      · intro h
        simp only [dedupKey, hi, List.tail_cons] at h
        cases hj : idxEq t with
        | none => simp [hj] at h; exact absurd h hne
        | some j =>
          simp [hj] at h
          exact absurd (h ▸ List.mem_cons_self) hk
      · intro h
        rw [hkey] at h
        exact absurd (Option.some.inj h).symm hne
    | succ j =>
      simp [dedupKey, keyOf, splitEq, hi]

/-! ### the child's Getenv -/

theorem childGetenv_nil (k : Bytes) : childGetenv [] k = [] := by
  simp [childGetenv]

theorem childGetenv_cons_other (kv : Bytes) (l : List Bytes) (k : Bytes) (h : keyOf kv ≠ some k) :
    childGetenv (kv :: l) k = childGetenv l k := by
  unfold childGetenv
  by_cases hk : k.isEmpty = true
  · simp [hk]
  · cases hs : splitEq kv with
    | none => simp [hs]
    | some p =>
      have : p.1 ≠ k := by
        intro hp
        apply h
        simp [keyOf, hs, hp]
      simp [hs, this]

theorem childGetenv_cons_same (kv : Bytes) (l : List Bytes) (k v : Bytes) (hne : k ≠ [])
    (h : splitEq kv = some (k, v)) : childGetenv (kv :: l) k = v := by
  have hk : k.isEmpty = false := by cases k <;> simp_all
  simp [childGetenv, hk, h]

/-! ### the de-duplication loop -/

/-- The value of the first entry of `r` filed under `k` by copyenv (`r` is the list reversed, so
this is the last assignment). -/
def firstWith : List Bytes → Bytes → Option Bytes
  | [], _ => none
  | kv :: more, k =>
    match splitEq kv with
    | some (a, b) => if a = k then some b else firstWith more k
    | none => firstWith more k

def NoNUL (l : List Bytes) : Prop := ∀ kv ∈ l, (kv.contains 0) = false

theorem dedupLoop_spec (k : Bytes) (hne : k ≠ []) (hk : EQ ∉ k) (r : List Bytes) :
    ∀ (saw out : List Bytes), NoNUL r →
      (dedupLoop r saw out false).2 = false ∧
      childGetenv (dedupLoop r saw out false).1 k =
        (if saw.contains k then childGetenv out k
         else match firstWith r k with
           | some v => v
           | none => childGetenv out k) := by
  induction r with
  | nil => intro saw out _; simp [dedupLoop, firstWith]
  | cons kv more ih =>
    intro saw out hn
    have hkv : (kv.contains 0) = false := hn kv (by simp)
    have hn' : NoNUL more := fun x hx => hn x (by simp [hx])
    rw [dedupLoop]
    simp only [hkv, Bool.false_eq_true, if_false]
    cases hd : dedupKey kv with
    | none =>
      -- no '=' at all: invisible to copyenv
      have hko : keyOf kv = none := by
        cases hi : idxEq kv with
        | none => simp [keyOf, splitEq, hi]
        | some i =>
          cases i with
          | zero =>
            simp only [dedupKey, hi] at hd
            cases hj : idxEq kv.tail <;> simp [hj] at hd
          | succ j => simp [dedupKey, hi] at hd
      have hfw : firstWith (kv :: more) k = firstWith more k := by
        have : splitEq kv = none := by simpa [keyOf] using hko
        simp [firstWith, this]
      simp only []
      by_cases he : kv.isEmpty = true
      · simp only [he, if_true]
        rw [hfw]
        exact ih saw out hn'
      · simp only [he, Bool.false_eq_true, if_false]
        obtain ⟨h1, h2⟩ := ih saw (kv :: out) hn'
        refine ⟨h1, ?_⟩
        rw [h2, hfw, childGetenv_cons_other kv out k (by simp [hko])]
    | some k' =>
      simp only []
      by_cases hkk : k' = k
      · subst hkk
        -- the entry is filed under k itself
        have hko : keyOf kv = some k' := (dedupKey_eq_iff kv k' hne hk).1 hd
        obtain ⟨v, hsv⟩ : ∃ v, splitEq kv = some (k', v) := by
          simp only [keyOf, Option.map_eq_some_iff] at hko
          obtain ⟨p, hp, hp1⟩ := hko
          exact ⟨p.2, by rw [hp, ← hp1]⟩
        have hfw : firstWith (kv :: more) k' = some v := by simp [firstWith, hsv]
        by_cases hs : saw.contains k' = true
        · simp only [hs, if_true]
          obtain ⟨h1, h2⟩ := ih saw out hn'
          exact ⟨h1, by rw [h2, if_pos hs]⟩
        · simp only [hs, Bool.false_eq_true, if_false]
          obtain ⟨h1, h2⟩ := ih (k' :: saw) (kv :: out) hn'
          refine ⟨h1, ?_⟩
          rw [h2, hfw]
          simp [childGetenv_cons_same kv out k' v hne hsv]
      · -- filed under another key: invisible for k
        have hko : keyOf kv ≠ some k := by
          intro h
          have := (dedupKey_eq_iff kv k hne hk).2 h
          rw [hd] at this
          exact hkk (Option.some.inj this)
        have hfw : firstWith (kv :: more) k = firstWith more k := by
          cases hs : splitEq kv with
          | none => simp [firstWith, hs]
          | some p =>
            have : p.1 ≠ k := by
              intro hp; apply hko; simp [keyOf, hs, hp]
            obtain ⟨a, b⟩ := p
            simp [firstWith, hs, this]
        by_cases hs : saw.contains k' = true
        · simp only [hs, if_true]
          rw [hfw]
          exact ih saw out hn'
        · simp only [hs, Bool.false_eq_true, if_false]
          obtain ⟨h1, h2⟩ := ih (k' :: saw) (kv :: out) hn'
          refine ⟨h1, ?_⟩
          have hc : (k' :: saw).contains k = saw.contains k := by
            simp [Ne.symm hkk]
          rw [h2, hc, hfw, childGetenv_cons_other kv out k hko]

theorem dedupLoop_err_true (r : List Bytes) : ∀ saw out, (dedupLoop r saw out true).2 = true := by
  induction r with
  | nil => intro saw out; rfl
  | cons kv more ih =>
    intro saw out
    rw [dedupLoop]
    split
    · exact ih saw out
    · split
      · split <;> exact ih _ _
      · split <;> exact ih _ _

/-- A NUL byte anywhere makes os/exec report an error (the child is not started). -/
theorem dedupLoop_nul (r : List Bytes) (h : ∃ kv ∈ r, (kv.contains 0) = true) :
    ∀ saw out err, (dedupLoop r saw out err).2 = true := by
  induction r with
  | nil => obtain ⟨kv, hm, _⟩ := h; simp at hm
  | cons kv more ih =>
    intro saw out err
    rw [dedupLoop]
    by_cases hk : (kv.contains 0) = true
    · simp only [hk, if_true]
      exact dedupLoop_err_true more saw out
    · have hmore : ∃ x ∈ more, (x.contains 0) = true := by
        obtain ⟨x, hm, hx⟩ := h
        rcases List.mem_cons.1 hm with rfl | hm
        · exact absurd hx hk
        · exact ⟨x, hm, hx⟩
      simp only [hk, Bool.false_eq_true, if_false]
      split
      · split <;> exact ih hmore _ _ _
      · split <;> exact ih hmore _ _ _

theorem dedupEnv_nul (l : List Bytes) (h : ∃ kv ∈ l, (kv.contains 0) = true) : dedupEnv l = .error .nul := by
  have h' : ∃ kv ∈ l.reverse, (kv.contains 0) = true := by
    obtain ⟨kv, hm, hk⟩ := h
    exact ⟨kv, by simpa using hm, hk⟩
  simp [dedupEnv, dedupLoop_nul l.reverse h' [] [] false]

/-- The last assignment in the list = the lookup in the map built from it. -/
theorem lookup_eq_firstWith (k : Bytes) (r : List Bytes) :
    lookup (r.reverse.filterMap splitEq) k = (match firstWith r k with | some v => v | none => []) := by
  induction r with
  | nil => rfl
  | cons kv more ih =>
    simp only [List.reverse_cons, List.filterMap_append]
    cases hs : splitEq kv with
    | none => simpa [firstWith, hs] using ih
    | some p =>
      obtain ⟨a, b⟩ := p
      simp only [List.filterMap_cons, hs, List.filterMap_nil]
      rw [lookup_append_one]
      have hf : firstWith (kv :: more) k = if a = k then some b else firstWith more k := by
        simp [firstWith, hs]
      rw [hf]
      by_cases hab : a = k
      · rw [if_pos hab, if_pos hab]
      · rw [if_neg hab, if_neg hab]
        exact ih

/-- os/exec's de-duplicated list, read the way a child process reads it, agrees with the map built
from the list — for every proper name. -/
theorem dedupEnv_lookup (l : List Bytes) (hn : NoNUL l) (k : Bytes) (hne : k ≠ []) (hk : EQ ∉ k) :
    ∃ out, dedupEnv l = .ok out ∧ childGetenv out k = lookup (l.filterMap splitEq) k := by
  have hn' : NoNUL l.reverse := fun x hx => hn x (by simpa using hx)
  obtain ⟨h1, h2⟩ := dedupLoop_spec k hne hk l.reverse [] [] hn'
  refine ⟨(dedupLoop l.reverse [] [] false).1, ?_, ?_⟩
  · simp [dedupEnv, h1]
  · rw [h2]
    have := lookup_eq_firstWith k l.reverse
    rw [List.reverse_reverse] at this
    rw [this]
    simp [childGetenv_nil]

/-! ### the TestScript state -/

/-- States reachable from the end of `setup` by Setenv with '='-free names
(which is all `env` can do, see `cmdEnv_reach`). -/
inductive Reach : TS → Prop
  | setup (vars : List Bytes) : Reach (TS.setup vars)
  | setenv (ts : TS) (k v : Bytes) : Reach ts → EQ ∉ k → Reach (ts.setenv k v)

/-- The map is the list read entry by entry. -/
theorem Reach.envMap_eq {ts : TS} (h : Reach ts) : ts.envMap = ts.env.filterMap splitEq := by
  induction h with
  | setup vars => simp [TS.setup, Gen.Script.setupBuildsMapFromList]
  | setenv ts k v _ hk ih =>
    simp [TS.setenv, Gen.Script.setenvAppendsList, Gen.Script.setenvUpdatesMap, List.filterMap_append, ih,
      splitEq_append k v hk]

theorem cmdEnvArg_reach {ts : TS} (h : Reach ts) (a : Bytes) : Reach (cmdEnvArg ts a) := by
  unfold cmdEnvArg
  simp only [Gen.Script.cmdEnvSplitsAtFirstEq, if_true]
  cases hs : splitEq a with
  | none => exact h
  | some p =>
    obtain ⟨k, v⟩ := p
    exact Reach.setenv ts k v h (splitEq_key_noEq hs)

theorem cmdEnv_reach {ts : TS} (h : Reach ts) (args : List Bytes) : Reach (cmdEnv ts args) := by
  unfold cmdEnv
  induction args generalizing ts with
  | nil => exact h
  | cons a args ih => exact ih (cmdEnvArg_reach h a)

end GIV.Script
