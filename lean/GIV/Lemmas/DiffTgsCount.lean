/-
  tgs, part 1: the counting loops and the two gathering loops.
-/
import GIV.Model.Diff
namespace GIV.Diff
open GIV
set_option linter.unusedSectionVars false
variable {α : Type} [DecidableEq α]

theorem mget_mset (m : Map α) (s t : α) (v : Int) : mget (mset m s v) t = if t = s then some v else mget m t := by
  simp [mget, mset]

theorem countX_spec (l pre : List α) (m : Map α)
    (h : ∀ s, (mget m s).getD 0 = -((min (pre.count s) 2 : Nat) : Int))
    (hneg : ∀ s v, mget m s = some v → v < 0) :
    (∀ s, (mget (countX l m) s).getD 0 = -((min ((pre ++ l).count s) 2 : Nat) : Int)) ∧
    (∀ s v, mget (countX l m) s = some v → v < 0) := by
  induction l generalizing pre m with
  | nil => simpa [countX] using ⟨h, hneg⟩
  | cons a l ih =>
    unfold countX
    have := ih (pre ++ [a]) (if Gen.Diff.cntXCond ((mget m a).getD 0) then mset m a (Gen.Diff.cntXUpd ((mget m a).getD 0)) else m) ?_ ?_
    · simp only [List.append_assoc, List.singleton_append] at this
      exact this
    · intro s
      have ha := h a
      have hs := h s
      simp only [Gen.Diff.cntXCond, Gen.Diff.cntXUpd, List.count_append, List.count_singleton, decide_eq_true_eq]
      by_cases h2 : s = a
      · subst h2
        simp only [beq_self_eq_true, ite_true]
        split
        · simp only [mget_mset, ite_true, Option.getD_some]; omega
        · omega
      · have : (a == s) = false := by simp; exact fun e => h2 e.symm
        simp only [this]
        split
        · simp only [mget_mset, if_neg h2]; rw [hs]; simp
        · rw [hs]; simp
    · intro s v
      have ha := h a
      simp only [Gen.Diff.cntXCond, Gen.Diff.cntXUpd, decide_eq_true_eq]
      split
      · rw [mget_mset]
        split
        · intro e; cases e; omega
        · exact hneg s v
      · exact hneg s v

theorem countY_spec (gx : α → Int) (hgx : ∀ s, -2 ≤ gx s ∧ gx s ≤ 0) (l pre : List α) (m : Map α)
    (h : ∀ s, (mget m s).getD 0 = gx s - 4 * ((min (pre.count s) 2 : Nat) : Int))
    (hneg : ∀ s v, mget m s = some v → v < 0) :
    (∀ s, (mget (countY l m) s).getD 0 = gx s - 4 * ((min ((pre ++ l).count s) 2 : Nat) : Int)) ∧
    (∀ s v, mget (countY l m) s = some v → v < 0) := by
  induction l generalizing pre m with
  | nil => simpa [countY] using ⟨h, hneg⟩
  | cons a l ih =>
    unfold countY
    have := ih (pre ++ [a]) (if Gen.Diff.cntYCond ((mget m a).getD 0) then mset m a (Gen.Diff.cntYUpd ((mget m a).getD 0)) else m) ?_ ?_
    · simp only [List.append_assoc, List.singleton_append] at this
      exact this
    · intro s
      have ha := h a
      have hs := h s
      have hga := hgx a
      simp only [Gen.Diff.cntYCond, Gen.Diff.cntYUpd, List.count_append, List.count_singleton, decide_eq_true_eq]
      by_cases h2 : s = a
      · subst h2
        simp only [beq_self_eq_true, ite_true]
        split
        · simp only [mget_mset, ite_true, Option.getD_some]; omega
        · omega
      · have : (a == s) = false := by simp; exact fun e => h2 e.symm
        simp only [this]
        split
        · simp only [mget_mset, if_neg h2]; rw [hs]; simp
        · rw [hs]; simp
    · intro s v
      have ha := h a
      have hga := hgx a
      simp only [Gen.Diff.cntYCond, Gen.Diff.cntYUpd, decide_eq_true_eq]
      split
      · rw [mget_mset]
        split
        · intro e; cases e; omega
        · exact hneg s v
      · exact hneg s v

/-- `s` occurs exactly once in `x` and exactly once in `y`. -/
def Uniq (x y : List α) (s : α) : Prop := x.count s = 1 ∧ y.count s = 1

instance (x y : List α) (s : α) : Decidable (Uniq x y s) := by unfold Uniq; infer_instance

/-- After the two counting loops: the code `-1+-4` marks exactly the lines unique on both sides,
and every stored value is negative. -/
theorem counted_spec (x y : List α) :
    (∀ s, Gen.Diff.isUniqueCode ((mget (countY y (countX x [])) s).getD 0) = true ↔ Uniq x y s) ∧
    (∀ s v, mget (countY y (countX x [])) s = some v → v < 0) := by
  obtain ⟨hx1, hx2⟩ := countX_spec x [] ([] : Map α) (by simp [mget]) (by simp [mget])
  obtain ⟨hy1, hy2⟩ := countY_spec (fun s => (mget (countX x []) s).getD 0)
    (fun s => by rw [hx1 s]; omega) y [] (countX x []) (by simp) hx2
  refine ⟨fun s => ?_, hy2⟩
  have h1 := hx1 s
  have h2 := hy1 s
  simp only [List.nil_append] at h1 h2
  simp only [Gen.Diff.isUniqueCode, decide_eq_true_eq, Uniq]
  rw [h2, h1]
  omega
theorem idx_unique_of_count {l : List α} {s : α} (hc : l.count s = 1) :
    ∀ {i j : Nat}, l[i]? = some s → l[j]? = some s → i = j := by
  induction l with
  | nil => simp at hc
  | cons a l ih =>
    intro i j hi hj
    have hpos : ∀ k, l[k]? = some s → 0 < l.count s := fun k hk => List.count_pos_iff.mpr (List.mem_of_getElem? hk)
    rw [List.count_cons] at hc
    cases i with
    | zero =>
      cases j with
      | zero => rfl
      | succ j =>
        simp only [List.getElem?_cons_zero, Option.some.injEq] at hi
        simp only [List.getElem?_cons_succ] at hj
        have := hpos j hj
        subst hi
        simp at hc
        omega
    | succ i =>
      cases j with
      | zero =>
        simp only [List.getElem?_cons_zero, Option.some.injEq] at hj
        simp only [List.getElem?_cons_succ] at hi
        have := hpos i hi
        subst hj
        simp at hc
        omega
      | succ j =>
        simp only [List.getElem?_cons_succ] at hi hj
        have := hpos i hi
        have hc' : l.count s = 1 := by
          split at hc <;> omega
        rw [ih hc' hi hj]

/-- Invariant of the loop that gathers `yi` (before processing `y[i]`). -/
structure GY (x y : List α) (m0 : Map α) (i : Nat) (m : Map α) (yi : Array Nat) : Prop where
  q0 : i ≤ y.length
  q1 : ∀ s v, mget m s = some v → 0 ≤ v → ∃ (k j : Nat), v = (k : Int) ∧ yi[k]? = some j ∧ y[j]? = some s ∧ Uniq x y s
  q2 : ∀ (k j : Nat), yi[k]? = some j → j < i
  q2' : ∀ (k k' j j' : Nat), k < k' → yi[k]? = some j → yi[k']? = some j' → j < j'
  q3 : ∀ s, mget m s = mget m0 s ∨ ∃ v, 0 ≤ v ∧ mget m s = some v
  q4 : yi.size = ((y.take i).filter (fun s => decide (Uniq x y s))).length
  q5 : ∀ (j : Nat) s, j < i → y[j]? = some s → Uniq x y s → ∃ v, 0 ≤ v ∧ mget m s = some v

theorem gatherY_spec (x y : List α) (m0 : Map α)
    (hm0 : ∀ s, Gen.Diff.isUniqueCode ((mget m0 s).getD 0) = true ↔ Uniq x y s) :
    ∀ (l : List α) (i : Nat) (m : Map α) (yi : Array Nat), y.drop i = l → GY x y m0 i m yi →
      GY x y m0 y.length (gatherY l i m yi).1 (gatherY l i m yi).2 := by
  intro l
  induction l with
  | nil =>
    intro i m yi hl g
    have hi : y.length ≤ i := by simpa using hl
    simp only [gatherY]
    have : i = y.length := Nat.le_antisymm g.q0 hi
    subst this
    exact g
  | cons s l ih =>
    intro i m yi hl g
    have hyi : y[i]? = some s := by
      have := congrArg (fun l => l[0]?) hl
      simpa using this
    have hl' : y.drop (i + 1) = l := by
      rw [← List.drop_drop, hl]; rfl
    have htake : y.take (i + 1) = y.take i ++ [s] := by
      rw [List.take_add_one, hyi]; rfl
    have hcond : Gen.Diff.isUniqueCode ((mget m s).getD 0) = true ↔ Uniq x y s := by
      rcases g.q3 s with h | ⟨v, hv, h⟩
      · rw [h]; exact hm0 s
      · exfalso
        obtain ⟨k, j, _, hk, hj, hu⟩ := g.q1 s v h hv
        have := g.q2 k j hk
        have := idx_unique_of_count hu.2 hj hyi
        omega
    unfold gatherY
    split
    · rename_i hc
      have hu := hcond.mp hc
      apply ih (i + 1) _ _ hl'
      have hlt : i < y.length := (List.getElem?_eq_some_iff.mp hyi).1
      refine ⟨hlt, ?_, ?_, ?_, ?_, ?_, ?_⟩
      · intro t v hget hv
        rw [mget_mset] at hget
        split at hget
        · rename_i hts
          cases hget
          exact ⟨yi.size, i, rfl, by simp, hts ▸ hyi, hts ▸ hu⟩
        · obtain ⟨k, j, h1, h2, h3, h4⟩ := g.q1 t v hget hv
          exact ⟨k, j, h1, by grind, h3, h4⟩
      · intro k j h
        have := g.q2 k j
        grind
      · intro k k' j j' hkk h1 h2
        have := g.q2' k k' j j' hkk
        have := g.q2 k j
        grind
      · intro t
        rw [mget_mset]
        split
        · exact Or.inr ⟨_, by omega, rfl⟩
        · exact g.q3 t
      · rw [htake, List.filter_append, List.length_append, ← g.q4]
        simp [hu]
      · intro j t hj hyj hut
        rw [mget_mset]
        split
        · exact ⟨_, by omega, rfl⟩
        · rename_i hts
          have : j ≠ i := by
            rintro rfl
            rw [hyi] at hyj; cases hyj; exact hts rfl
          exact g.q5 j t (by omega) hyj hut
    · rename_i hc
      have hu : ¬ Uniq x y s := fun h => hc (hcond.mpr h)
      apply ih (i + 1) _ _ hl'
      have hlt : i < y.length := (List.getElem?_eq_some_iff.mp hyi).1
      refine ⟨hlt, g.q1, fun k j h => by have := g.q2 k j h; omega, g.q2', g.q3, ?_, ?_⟩
      · rw [htake, List.filter_append, List.length_append, ← g.q4]
        simp [hu]
      · intro j t hj hyj hut
        have : j ≠ i := by
          rintro rfl
          rw [hyi] at hyj; cases hyj; exact hu hut
        exact g.q5 j t (by omega) hyj hut

/-- Invariant of the loop that gathers `xi` and `inv` (before processing `x[i]`). -/
structure GX (x y : List α) (m1 : Map α) (i : Nat) (xi inv : Array Nat) : Prop where
  r0 : i ≤ x.length
  r1 : xi.size = inv.size
  r2 : ∀ (t p : Nat), xi[t]? = some p → p < i ∧ ∃ s j, x[p]? = some s ∧ mget m1 s = some j ∧ 0 ≤ j ∧ inv[t]? = some j.toNat
  r3 : ∀ (t t' p p' : Nat), t < t' → xi[t]? = some p → xi[t']? = some p' → p < p'
  r4 : xi.size = ((x.take i).filter (fun s => decide (Uniq x y s))).length

theorem gatherX_spec (x y : List α) (m1 : Map α)
    (hU : ∀ s, s ∈ x → ((∃ j, mget m1 s = some j ∧ 0 ≤ j) ↔ Uniq x y s)) :
    ∀ (l : List α) (i : Nat) (xi inv : Array Nat), x.drop i = l → GX x y m1 i xi inv →
      GX x y m1 x.length (gatherX l i m1 xi inv).1 (gatherX l i m1 xi inv).2 := by
  intro l
  induction l with
  | nil =>
    intro i xi inv hl g
    have hi : x.length ≤ i := by simpa using hl
    simp only [gatherX]
    have : i = x.length := Nat.le_antisymm g.r0 hi
    subst this
    exact g
  | cons s l ih =>
    intro i xi inv hl g
    have hxi : x[i]? = some s := by
      have := congrArg (fun l => l[0]?) hl
      simpa using this
    have hl' : x.drop (i + 1) = l := by
      rw [← List.drop_drop, hl]; rfl
    have htake : x.take (i + 1) = x.take i ++ [s] := by
      rw [List.take_add_one, hxi]; rfl
    have hlt : i < x.length := (List.getElem?_eq_some_iff.mp hxi).1
    have hmem : s ∈ x := List.mem_of_getElem? hxi
    have skip : ¬ Uniq x y s → GX x y m1 (i + 1) xi inv := by
      intro hu
      refine ⟨hlt, g.r1, fun t p h => ?_, g.r3, ?_⟩
      · obtain ⟨h1, h2⟩ := g.r2 t p h
        exact ⟨by omega, h2⟩
      · rw [htake, List.filter_append, List.length_append, ← g.r4]
        simp [hu]
    unfold gatherX
    split
    · rename_i j hj
      split
      · rename_i hj0
        have hu : Uniq x y s := (hU s hmem).mp ⟨j, hj, hj0⟩
        apply ih (i + 1) _ _ hl'
        refine ⟨hlt, by simp [g.r1], ?_, ?_, ?_⟩
        · intro t p h
          by_cases ht : t < xi.size
          · obtain ⟨h1, s', j', h2, h3, h4, h5⟩ := g.r2 t p (by grind)
            exact ⟨by omega, s', j', h2, h3, h4, by have := g.r1; grind⟩
          · have ht' : t = xi.size := by grind
            subst ht'
            have hp : p = i := by grind
            subst hp
            exact ⟨by omega, s, j, hxi, hj, hj0, by rw [g.r1]; simp⟩
        · intro t t' p p' htt h1 h2
          have := g.r3 t t' p p' htt
          have := g.r2 t p
          grind
        · rw [htake, List.filter_append, List.length_append, ← g.r4]
          simp [hu]
      · rename_i hj0
        exact ih (i + 1) _ _ hl' (skip fun hu => by
          obtain ⟨j', h1, h2⟩ := (hU s hmem).mpr hu
          rw [hj] at h1; cases h1; exact hj0 h2)
    · rename_i hnone
      exact ih (i + 1) _ _ hl' (skip fun hu => by
        obtain ⟨j', h1, h2⟩ := (hU s hmem).mpr hu
        rw [hnone] at h1; cases h1)

theorem filter_uniq_length (x y : List α) :
    (x.filter (fun s => decide (Uniq x y s))).length = (y.filter (fun s => decide (Uniq x y s))).length := by
  apply List.Perm.length_eq
  rw [List.perm_ext_iff_of_nodup]
  · intro a
    simp only [List.mem_filter, decide_eq_true_eq]
    constructor
    · rintro ⟨_, hu⟩
      exact ⟨List.count_pos_iff.mp (by rw [hu.2]; omega), hu⟩
    · rintro ⟨_, hu⟩
      exact ⟨List.count_pos_iff.mp (by rw [hu.1]; omega), hu⟩
  · rw [List.nodup_iff_count]
    intro a
    by_cases h : Uniq x y a
    · rw [List.count_filter (by simpa using h), h.1]; omega
    · rw [List.count_eq_zero_of_not_mem (by simp [h])]; omega
  · rw [List.nodup_iff_count]
    intro a
    by_cases h : Uniq x y a
    · rw [List.count_filter (by simpa using h), h.2]; omega
    · rw [List.count_eq_zero_of_not_mem (by simp [h])]; omega

/-- What the first half of `tgs` hands to Szymanski's algorithm. -/
structure Gathered (x y : List α) (xi yi inv : Array Nat) : Prop where
  sizeX : inv.size = xi.size
  sizeY : yi.size = xi.size
  pairs : ∀ (t p : Nat), xi[t]? = some p → ∃ (k j : Nat) (s : α), inv[t]? = some k ∧ yi[k]? = some j ∧
    x[p]? = some s ∧ y[j]? = some s ∧ Uniq x y s
  monoX : ∀ (t t' p p' : Nat), t < t' → xi[t]? = some p → xi[t']? = some p' → p < p'
  monoY : ∀ (k k' j j' : Nat), k < k' → yi[k]? = some j → yi[k']? = some j' → j < j'

theorem gathered (x y : List α) :
    Gathered x y (gatherX x 0 (gatherY y 0 (countY y (countX x [])) #[]).1 #[] #[]).1
      (gatherY y 0 (countY y (countX x [])) #[]).2
      (gatherX x 0 (gatherY y 0 (countY y (countX x [])) #[]).1 #[] #[]).2 := by
  obtain ⟨hc1, hc2⟩ := counted_spec x y
  have gy := gatherY_spec x y _ hc1 y 0 _ #[] rfl
    ⟨Nat.zero_le _, fun s v h hv => by have := hc2 s v h; omega, by simp, by simp, fun s => Or.inl rfl, by simp,
     fun j s hj => by omega⟩
  have hU : ∀ s, s ∈ x → ((∃ j, mget (gatherY y 0 (countY y (countX x [])) #[]).1 s = some j ∧ 0 ≤ j) ↔ Uniq x y s) := by
    intro s _
    constructor
    · rintro ⟨j, h1, h2⟩
      obtain ⟨_, _, _, _, _, hu⟩ := gy.q1 s j h1 h2
      exact hu
    · intro hu
      have : s ∈ y := List.count_pos_iff.mp (by rw [hu.2]; omega)
      obtain ⟨j, hj, hjs⟩ := List.getElem_of_mem this
      obtain ⟨v, h1, h2⟩ := gy.q5 j s hj (by rw [List.getElem?_eq_getElem hj, hjs]) hu
      exact ⟨v, h2, h1⟩
  have gx := gatherX_spec x y _ hU x 0 #[] #[] rfl
    ⟨Nat.zero_le _, rfl, by simp, by simp, by simp⟩
  refine ⟨gx.r1.symm, ?_, ?_, gx.r3, gy.q2'⟩
  · rw [gy.q4, gx.r4, List.take_of_length_le (Nat.le_refl _), List.take_of_length_le (Nat.le_refl _)]
    exact (filter_uniq_length x y).symm
  · intro t p h
    obtain ⟨_, s, j, h1, h2, h3, h4⟩ := gx.r2 t p h
    obtain ⟨k, j', e, h5, h6, h7⟩ := gy.q1 s j h2 h3
    subst e
    exact ⟨k, j', s, by simpa using h4, h5, h1, h6, h7⟩
end GIV.Diff
