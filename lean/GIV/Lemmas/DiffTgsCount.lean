/-
  tgs, part 1: the counting loops and the two gathering loops.
-/
import GIV.Model.Diff
namespace GIV.Diff
open GIV
set_option linter.unusedSectionVars false
variable {α : Type} [DecidableEq α]

theorem mget_mset (m : Map α) (s t : α) (v : Int) : mget (mset m s v) t = if t = s then some v else mget m t := by
  simp [mget, mset]

theorem countX_spec (l pre : List α) (m : Map α)
    (h : ∀ s, (mget m s).getD 0 = -((min (pre.count s) 2 : Nat) : Int))
    (hneg : ∀ s v, mget m s = some v → v < 0) :
    (∀ s, (mget (countX l m) s).getD 0 = -((min ((pre ++ l).count s) 2 : Nat) : Int)) ∧
    (∀ s v, mget (countX l m) s = some v → v < 0) := by
  induction l generalizing pre m with
  | nil => simpa [countX] using ⟨h, hneg⟩
  | cons a l ih =>
    unfold countX
    have := ih (pre ++ [a]) (if Gen.Diff.cntXCond ((mget m a).getD 0) then mset m a (Gen.Diff.cntXUpd ((mget m a).getD 0)) else m) ?_ ?_
    · simp only [List.append_assoc, List.singleton_append] at this
      exact this
    · intro s
      have ha := h a
      have hs := h s
      simp only [Gen.Diff.cntXCond, Gen.Diff.cntXUpd, List.count_append, List.count_singleton, decide_eq_true_eq]
      by_cases h2 : s = a
      · subst h2
        simp only [beq_self_eq_true, ite_true]
        split
        · simp only [mget_mset, ite_true, Option.getD_some]; omega
        · omega
      · have : (a == s) = false := by simp; exact fun e => h2 e.symm
        simp only [this]
        split
        · simp only [mget_mset, if_neg h2]; rw [hs]; simp
        · rw [hs]; simp
    · intro s v
      have ha := h a
      simp only [Gen.Diff.cntXCond, Gen.Diff.cntXUpd, decide_eq_true_eq]
      split
      · rw [mget_mset]
        split
        · intro e; cases e; omega
        · exact hneg s v
      · exact hneg s v

theorem countY_spec (gx : α → Int) (hgx : ∀ s, -2 ≤ gx s ∧ gx s ≤ 0) (l pre : List α) (m : Map α)
    (h : ∀ s, (mget m s).getD 0 = gx s - 4 * ((min (pre.count s) 2 : Nat) : Int))
    (hneg : ∀ s v, mget m s = some v → v < 0) :
    (∀ s, (mget (countY l m) s).getD 0 = gx s - 4 * ((min ((pre ++ l).count s) 2 : Nat) : Int)) ∧
    (∀ s v, mget (countY l m) s = some v → v < 0) := by
  induction l generalizing pre m with
  | nil => simpa [countY] using ⟨h, hneg⟩
  | cons a l ih =>
    unfold countY
    have := ih (pre ++ [a]) (if Gen.Diff.cntYCond ((mget m a).getD 0) then mset m a (Gen.Diff.cntYUpd ((mget m a).getD 0)) else m) ?_ ?_
    · simp only [List.append_assoc, List.singleton_append] at this
      exact this
    · intro s
      have ha := h a
      have hs := h s
      have hga := hgx a
      simp only [Gen.Diff.cntYCond, Gen.Diff.cntYUpd, List.count_append, List.count_singleton, decide_eq_true_eq]
      by_cases h2 : s = a
      · subst h2
        simp only [beq_self_eq_true, ite_true]
        split
        · simp only [mget_mset, ite_true, Option.getD_some]; omega
        · omega
      · have : (a == s) = false := by simp; exact fun e => h2 e.symm
        simp only [this]
        split
        · simp only [mget_mset, if_neg h2]; rw [hs]; simp
        · rw [hs]; simp
    · intro s v
      have ha := h a
      have hga := hgx a
      simp only [Gen.Diff.cntYCond, Gen.Diff.cntYUpd, decide_eq_true_eq]
      split
      · rw [mget_mset]
        split
        · intro e; cases e; omega
        · exact hneg s v
      · exact hneg s v

/-- `s` occurs exactly once in `x` and exactly once in `y`. -/
def Uniq (x y : List α) (s : α) : Prop := x.count s = 1 ∧ y.count s = 1

instance (x y : List α) (s : α) : Decidable (Uniq x y s) := by unfold Uniq; infer_instance

/-- After the two counting loops: the code `-1+-4` marks exactly the lines unique on both sides,
and every stored value is negative. -/
theorem counted_spec (x y : List α) :
    (∀ s, Gen.Diff.isUniqueCode ((mget (countY y (countX x [])) s).getD 0) = true ↔ Uniq x y s) ∧
    (∀ s v, mget (countY y (countX x [])) s = some v → v < 0) := by
  obtain ⟨hx1, hx2⟩ := countX_spec x [] ([] : Map α) (by simp [mget]) (by simp [mget])
  obtain ⟨hy1, hy2⟩ := countY_spec (fun s => (mget (countX x []) s).getD 0)
    (fun s => by rw [hx1 s]; omega) y [] (countX x []) (by simp) hx2
  refine ⟨fun s => ?_, hy2⟩
  have h1 := hx1 s
  have h2 := hy1 s
  simp only [List.nil_append] at h1 h2
  simp only [Gen.Diff.isUniqueCode, decide_eq_true_eq, Uniq]
  rw [h2, h1]
  omega
end GIV.Diff
