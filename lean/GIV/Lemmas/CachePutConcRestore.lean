/-
  GIV.Lemmas.CachePutConcRestore — C11, "re-storing identical content for an id never makes a concurrent
  lookup of that id miss": while the only Puts of `id0` store the content `c0` that is already stored
  completely, every lookup of `id0` succeeds and returns `c0`.

  AtomicSmallWrite is how the model treats system calls: the single write of the ≤175-byte index entry
  and the read of it are one transition each; so a reader sees the old or the new entry, both naming `c0`.
-/
import GIV.Lemmas.CachePutConcThms

set_option linter.unusedSimpArgs false
set_option linter.unusedSectionVars false
set_option linter.unusedVariables false

namespace GIV.CachePut
open GIV

variable {Id Hsh : Type} [DecidableEq Id] [DecidableEq Hsh]
variable {P : Params Id Hsh} {offered : Bytes → Prop} {now : Int}
  {fs fs' : FS Id Hsh} {proc n : Nat} {r : Res} {nx : Next Hsh}

section
variable (P : Params Id Hsh) (id0 : Id) (c0 : Bytes)

/-- the entry every lookup of `id0` must find. -/
def E0 : Entry Hsh := ⟨P.H c0, c0.length⟩

/-- the index file of `id0` holds an entry for `c0` (with some time stamp). -/
def IndexIs (fs : FS Id Hsh) : Prop := ∃ t, fs.content (.index id0) = some (P.enc id0 (P.H c0) c0.length t)

/-- what a lookup of `id0` knows at its program point: it is on the way to success. -/
def LocalS (fs : FS Id Hsh) : PC Hsh → Prop
  | .gOpen => True
  | .gRead fd acc => ∃ o, fs.fds fd = some o ∧ fs.names (.index id0) = some o.ino ∧
      ((acc = [] ∧ o.off = 0) ∨ (o.off = Gen.CachePut.entrySize ∧ ∃ t, acc = P.enc id0 (P.H c0) c0.length t))
  | .gUsedStat _ e => e = E0 P c0
  | .gUsedChtimes _ e => e = E0 P c0
  | .gClose _ r => r = some (E0 P c0)
  | .oStat e => e = E0 P c0
  | .oChtimes e => e = E0 P c0
  | .fStat e => e = E0 P c0
  | .bOpen e => e = E0 P c0
  | .bRead fd acc e => e = E0 P c0 ∧ ∃ o, fs.fds fd = some o ∧ fs.names (.data (P.H c0)) = some o.ino ∧
      o.off ≤ c0.length ∧ acc = c0.take o.off
  | .bClose _ acc e => e = E0 P c0 ∧ acc = c0
  | _ => False

/-- a successful result with the content `c0`. -/
def ResS : Result Hsh → Prop
  | .entry e => e = E0 P c0
  | .file e cont => e = E0 P c0 ∧ cont = some c0
  | .bytes d e => d = c0 ∧ e = E0 P c0
  | _ => False

def PostS (fs' : FS Id Hsh) : Next Hsh → Prop
  | .goto pc' => LocalS P id0 c0 fs' pc'
  | .done res => ResS P c0 res
end

variable {id0 : Id} {c0 : Bytes}

theorem localS_mono {f : Option Nat} (hm : Mono fs fs' f) {pc : PC Hsh}
    (hfd : ∀ g, fdOf pc = some g → some g ≠ f ∧ g < fs.nextFd) (hL : LocalS P id0 c0 fs pc) :
    LocalS P id0 c0 fs' pc := by
  cases pc <;> simp only [LocalS] at hL ⊢ <;> simp only [fdOf] at hfd <;> first | exact hL | skip
  case gRead fd acc =>
    obtain ⟨o, h1, h2, h3⟩ := hL
    exact ⟨o, by rw [hm.fds fd (hfd fd rfl).1 (hfd fd rfl).2]; exact h1, hm.names _ _ h2, h3⟩
  case bRead fd acc e =>
    obtain ⟨he, o, h1, h2, h3⟩ := hL
    exact ⟨he, o, by rw [hm.fds fd (hfd fd rfl).1 (hfd fd rfl).2]; exact h1, hm.names _ _ h2, h3⟩

theorem open_ro_existing {p : Name Id Hsh} {m : Mode} {i : Nat} {nd : Inode Id Hsh} (h1 : fs.names p = some i)
    (h2 : fs.inodes i = some nd) (he : execOk fs proc (.open p m false false) = some (fs', r)) :
    r = .okFd fs.nextFd ∧ fs'.fds fs.nextFd = some ⟨i, 0, proc⟩ ∧ SameFiles fs fs' := by
  simp [execOk, h1, h2, FS.newFd] at he
  obtain ⟨rfl, rfl⟩ := he
  exact ⟨rfl, by simp, rfl, rfl, rfl⟩

theorem read_none_spec {fd k : Nat} (he : execOk fs proc (.read fd k) = some (fs', r)) :
    ∃ o nd, fs.fds fd = some o ∧ fs.inodes o.ino = some nd ∧
      ((r = .eof ∧ fs' = fs ∧ (nd.data.drop o.off).take k = []) ∨
       (∃ bs, r = .okData bs ∧ bs ≠ [] ∧ bs = (nd.data.drop o.off).take k ∧
          fs' = fs.setFd fd (some { o with off := o.off + bs.length }))) := by
  have hs' : exec fs proc (.read fd k) .none = some (fs', r) := by simpa [exec] using he
  have hr : r ≠ .fail := by
    intro e; subst e
    simp only [execOk] at he
    split at he
    · simp at he
    · split at he
      · simp at he
      · split at he <;> simp at he
  exact read_spec hs' hr

/-- **a lookup of `id0` proceeds towards success.** -/
theorem get_rstep (hy : Hyps P offered) (hc0 : offered c0) {op : Op Id} {pc : PC Hsh} (hop : op.isGet = true)
    (hid : op.id = id0) (hst : Struct fs) (hidx : IndexIs P id0 c0 fs) (hcomp : CompleteF P fs c0)
    (hL : LocalS P id0 c0 fs pc)
    (hs : tstep P now fs proc op pc .none n = some (fs', r, nx)) : PostS P id0 c0 fs' nx := by
  obtain ⟨he, rfl⟩ := tstep_eq hs
  have he0 : execOk fs proc (sysOf P now n op pc) = some (fs', r) := by simpa [exec] using he
  obtain ⟨t0, hic⟩ := hidx
  obtain ⟨ii, ind, hin, hii, hidata⟩ := content_inv hst hic
  obtain ⟨di, dnd, hdn, hdi, hddata⟩ := hcomp
  have hlen : ind.data.length = Gen.CachePut.entrySize := by rw [hidata]; exact hy.encLen id0 c0 t0 hc0
  subst hid
  cases pc <;> simp only [LocalS] at hL
  case gOpen =>
    have hnx : next P fs'.content n op .gOpen r = (match r with | .okFd fd => .goto (.gRead fd []) | _ => .done .miss) := by
      cases op <;> simp [Op.isGet] at hop <;> cases r <;> rfl
    have he1 : execOk fs proc (.open (.index op.id) .rdonly false false) = some (fs', r) := by
      cases op <;> simp [Op.isGet] at hop <;> simpa [sysOf, Op.id] using he0
    obtain ⟨rfl, hfd, hsame⟩ := open_ro_existing hin hii he1
    rw [hnx]
    simp only [PostS, LocalS]
    exact ⟨⟨ii, 0, proc⟩, hfd, by rw [hsame.1]; exact hin, Or.inl ⟨trivial, rfl⟩⟩
  case gRead fd acc =>
    obtain ⟨o, h1, h2, h3⟩ := hL
    rw [hin] at h2; cases h2
    have hnx : next P fs'.content n op (.gRead fd acc) r = (match r with
        | .okData bs => if (acc ++ bs).length ≥ Gen.CachePut.getBufLen then .goto (.gClose fd none) else .goto (.gRead fd (acc ++ bs))
        | .eof => match P.parse op.id acc with
          | some e => .goto (.gUsedStat fd e)
          | none => .goto (.gClose fd none)
        | _ => .goto (.gClose fd none)) := by
      cases op <;> simp [Op.isGet] at hop <;> cases r <;> rfl
    have he1 : execOk fs proc (.read fd (Gen.CachePut.getBufLen - acc.length)) = some (fs', r) := by
      cases op <;> simp [Op.isGet] at hop <;> simpa [sysOf] using he0
    obtain ⟨o', nd', g1, g2, hcase⟩ := read_none_spec he1
    rw [h1] at g1; cases g1
    rw [hii] at g2; cases g2
    rw [hnx]
    rcases h3 with ⟨rfl, hoff0⟩ | ⟨hoff, t, rfl⟩
    · -- first read: the whole entry at once
      rcases hcase with ⟨_, _, hnil⟩ | ⟨bs, rfl, hbne, hbs, rfl⟩
      · exfalso
        rw [hoff0] at hnil
        simp [Gen.CachePut.getBufLen] at hnil
        rw [hnil] at hlen; simp [Gen.CachePut.entrySize] at hlen
      · have hbs' : bs = ind.data := by
          rw [hbs, hoff0]; simp [Gen.CachePut.getBufLen]
          apply List.take_of_length_le; omega
        subst hbs'
        have hlt' : ¬ ([] ++ ind.data).length ≥ Gen.CachePut.getBufLen := by
          simp [Gen.CachePut.getBufLen, hlen]
        simp only [hlt', if_false, PostS, LocalS]
        refine ⟨{ o with off := o.off + ind.data.length }, by simp [FS.setFd], hin, Or.inr ⟨?_, t0, by simpa using hidata⟩⟩
        simp [hoff0, hlen]
    · -- second read at the end of the entry: end of file, the entry parses
      rcases hcase with ⟨rfl, rfl, _⟩ | ⟨bs, rfl, hbne, hbs, rfl⟩
      · simp only [hy.parseEnc op.id c0 t hc0, PostS, LocalS, E0]
      · exfalso
        have : bs = [] := by rw [hbs, hoff, List.drop_eq_nil_of_le (by omega)]; simp
        exact hbne this
  case gUsedStat fd e =>
    have hnx : next P fs'.content n op (.gUsedStat fd e) r = (if n = 0 then .goto (.gClose fd (some e)) else .goto (.gUsedChtimes fd e)) := by
      cases op <;> simp [Op.isGet] at hop <;> cases r <;> rfl
    rw [hnx]; subst hL
    split <;> simp [PostS, LocalS]
  case gUsedChtimes fd e =>
    have hnx : next P fs'.content n op (.gUsedChtimes fd e) r = .goto (.gClose fd (some e)) := by
      cases op <;> simp [Op.isGet] at hop <;> cases r <;> rfl
    rw [hnx]; subst hL
    simp [PostS, LocalS]
  case gClose fd ro =>
    have hnx : next P fs'.content n op (.gClose fd ro) r = afterGetClose op ro := by
      cases op <;> simp [Op.isGet] at hop <;> cases r <;> rfl
    rw [hnx]; subst hL
    cases op <;> simp [Op.isGet] at hop <;> simp [afterGetClose, PostS, LocalS, ResS]
  case oStat e =>
    have hnx : next P fs'.content n op (.oStat e) r = (if n = 0 then afterUsed op e else .goto (.oChtimes e)) := by
      cases op <;> simp [Op.isGet] at hop <;> cases r <;> rfl
    rw [hnx]; subst hL
    split
    · cases op <;> simp [Op.isGet] at hop <;> simp [afterUsed, PostS, LocalS]
    · simp [PostS, LocalS]
  case oChtimes e =>
    have hnx : next P fs'.content n op (.oChtimes e) r = afterUsed op e := by
      cases op <;> simp [Op.isGet] at hop <;> cases r <;> rfl
    rw [hnx]; subst hL
    cases op <;> simp [Op.isGet] at hop <;> simp [afterUsed, PostS, LocalS]
  case fStat e =>
    subst hL
    have hnx : next P fs'.content n op (.fStat (E0 P c0)) r = (match r with
        | .okSize L => if Gen.CachePut.getFileReject L c0.length then .done .miss
            else .done (.file (E0 P c0) (fs'.content (.data (P.H c0))))
        | _ => .done .miss) := by
      cases op <;> simp [Op.isGet] at hop <;> cases r <;> rfl
    have he1 : execOk fs proc (.stat (.data (P.H c0))) = some (fs', r) := by
      cases op <;> simp [Op.isGet] at hop <;> simpa [sysOf, E0] using he0
    obtain ⟨rfl, hcase⟩ := stat_spec he1
    rcases hcase with ⟨hnone, _⟩ | ⟨i, nd, k1, k2, rfl⟩
    · rw [hdn] at hnone; cases hnone
    · rw [hdn] at k1; cases k1
      rw [hdi] at k2; cases k2
      rw [hnx]
      simp only [Gen.CachePut.getFileReject, hddata, ne_eq, not_true_eq_false, decide_false, Bool.false_eq_true, if_false,
        PostS, ResS]
      refine ⟨trivial, ?_⟩
      rw [content_of' hdn hdi, hddata]
  case bOpen e =>
    subst hL
    have hnx : next P fs'.content n op (.bOpen (E0 P c0)) r = (match r with
        | .okFd fd => .goto (.bRead fd [] (E0 P c0))
        | _ => bytesResult P [] (E0 P c0)) := by
      cases op <;> simp [Op.isGet] at hop <;> cases r <;> rfl
    have he1 : execOk fs proc (.open (.data (P.H c0)) .rdonly false false) = some (fs', r) := by
      cases op <;> simp [Op.isGet] at hop <;> simpa [sysOf, E0] using he0
    obtain ⟨rfl, hfd, hsame⟩ := open_ro_existing hdn hdi he1
    rw [hnx]
    simp only [PostS, LocalS]
    exact ⟨trivial, ⟨di, 0, proc⟩, hfd, by rw [hsame.1]; exact hdn, Nat.zero_le _, by simp⟩
  case bRead fd acc e =>
    obtain ⟨rfl, o, h1, h2, h3, h4⟩ := hL
    rw [hdn] at h2; cases h2
    have hnx : next P fs'.content n op (.bRead fd acc (E0 P c0)) r = (match r with
        | .okData bs => .goto (.bRead fd (acc ++ bs) (E0 P c0))
        | _ => .goto (.bClose fd acc (E0 P c0))) := by
      cases op <;> simp [Op.isGet] at hop <;> cases r <;> rfl
    have he1 : execOk fs proc (.read fd (chunk n)) = some (fs', r) := by
      cases op <;> simp [Op.isGet] at hop <;> simpa [sysOf] using he0
    obtain ⟨o', nd', g1, g2, hcase⟩ := read_none_spec he1
    rw [h1] at g1; cases g1
    rw [hdi] at g2; cases g2
    rw [hnx]
    rcases hcase with ⟨rfl, rfl, hnil⟩ | ⟨bs, rfl, hbne, hbs, rfl⟩
    · simp only [PostS, LocalS]
      refine ⟨trivial, ?_⟩
      have hd : dnd.data.drop o.off = [] := take_nil_of_pos (chunk_pos n) hnil
      rw [h4]
      rw [hddata] at hd
      exact List.take_of_length_le (List.drop_eq_nil_iff.mp hd)
    · simp only [PostS, LocalS]
      refine ⟨trivial, { o with off := o.off + bs.length }, by simp [FS.setFd], hdn, ?_, ?_⟩
      · show o.off + bs.length ≤ c0.length
        rw [hbs, hddata]; simp; omega
      · show acc ++ bs = c0.take (o.off + bs.length)
        rw [h4, List.take_add, hbs, hddata]
        congr 1
        exact (take_take_length _ _).symm
  case bClose fd acc e =>
    obtain ⟨rfl, rfl⟩ := hL
    have hnx : next P fs'.content n op (.bClose fd acc (E0 P acc)) r = bytesResult P acc (E0 P acc) := by
      cases op <;> simp [Op.isGet] at hop <;> cases r <;> rfl
    rw [hnx]
    simp [bytesResult, Gen.CachePut.getBytesReject, E0, PostS, ResS]
  all_goals exact hL.elim

/-! ## the invariant of re-storing -/

/-- every Put of `id0` stores `c0`. -/
def OnlyC0 (id0 : Id) (c0 : Bytes) : Op Id → Prop
  | .put id s => id = id0 → s.data1 = c0
  | _ => True

structure RInv (P : Params Id Hsh) (id0 : Id) (c0 : Bytes) (w : World Id Hsh) : Prop where
  idx : IndexIs P id0 c0 w.fs
  comp : CompleteF P w.fs c0
  only_todo : ∀ tid tk op, w.tasks tid = some tk → op ∈ tk.todo → OnlyC0 id0 c0 op
  only_cur : ∀ tid tk op pc, w.tasks tid = some tk → tk.cur = some (op, pc) →
    OnlyC0 id0 c0 op ∧ (op.isGet = true → op.id = id0 → LocalS P id0 c0 w.fs pc)
  res : ∀ tid op res, Ev.ret tid op res ∈ w.hist → op.isGet = true → op.id = id0 → ResS P c0 res

theorem localS_start {op : Op Id} (hop : op.isGet = true) : LocalS P id0 c0 fs (startPC op) := by
  cases op <;> simp [Op.isGet] at hop <;> simp [startPC, LocalS]

theorem rinv_step (hy : Hyps P offered) (hc0 : offered c0) {K0 K1 : Id → Bytes → Prop} {w w' : World Id Hsh} {l : Label}
    {obs : Obs Id Hsh} (W : WInv P offered K0 K1 w) (R : RInv P id0 c0 w) (h : step P w l = some (w', obs))
    (hf : l.fault = .none) : RInv P id0 c0 w' := by
  obtain ⟨tk, op, pc, fs1, r, nx, htk, hcur, hts, hfs, hother, cur', todo', htk', hcth⟩ := step_spec h hf
  obtain ⟨hgood, hT, hbound⟩ := W.cur _ _ _ _ htk hcur
  obtain ⟨hinv', hsafe, hpost, hidxc, hghost⟩ := task_step hy hgood W.fs W.ik hT hts
  have he0 : execOk w.fs tk.proc (sysOf P w.now l.n op pc) = some (fs1, r) := by
    have := (tstep_eq hts).1; simpa [exec] using this
  have hm : Mono w.fs fs1 (sysFd (sysOf P w.now l.n op pc)) := exec_mono W.fs.1 he0 hsafe
  have htodo : ∀ op', op' ∈ tk.todo → GoodOp offered op' := fun op' ho => W.todo _ _ _ htk ho
  obtain ⟨honly, hlocal⟩ := R.only_cur _ _ _ _ htk hcur
  have hgoto : ∀ pc'', nx = .goto pc'' → cur' = some (op, pc'') ∧ todo' = tk.todo ∧
      w'.hist = w.hist ++ ghostOf l.tid op pc r := by
    intro pc'' hnx; subst hnx
    simp only at hcth
    exact ⟨congrArg (fun x => x.1) hcth, congrArg (fun x => x.2.1) hcth, congrArg (fun x => x.2.2) hcth⟩
  have hdone : ∀ res, nx = .done res → w'.hist = w.hist ++ ghostOf l.tid op pc r ++ [.ret l.tid op res] ∧
      ((tk.todo = [] ∧ cur' = none ∧ todo' = []) ∨
       ∃ o rest, tk.todo = o :: rest ∧ cur' = some (o, startPC o) ∧ todo' = rest) := by
    intro res hnx; subst hnx
    simp only at hcth
    cases htd : tk.todo with
    | nil =>
      rw [htd] at hcth
      simp only [startOps] at hcth
      exact ⟨congrArg (fun x => x.2.2) hcth, Or.inl ⟨rfl, congrArg (fun x => x.1) hcth, congrArg (fun x => x.2.1) hcth⟩⟩
    | cons o rest =>
      rw [htd, startOps_cons (offered := offered) (htodo o (by rw [htd]; simp))] at hcth
      exact ⟨congrArg (fun x => x.2.2) hcth, Or.inr ⟨o, rest, rfl, congrArg (fun x => x.1) hcth, congrArg (fun x => x.2.1) hcth⟩⟩
  -- the moving task, if it is a lookup of id0, proceeds towards success
  have hown_post : op.isGet = true → op.id = id0 → PostS P id0 c0 fs1 nx :=
    fun hop hid => get_rstep hy hc0 hop hid W.fs.1 R.idx R.comp (hlocal hop hid) hts
  have hown : ∀ g, sysFd (sysOf P w.now l.n op pc) = some g → fdOf pc = some g := fun g hg => sysOf_fd hg
  refine ⟨?_, by rw [hfs]; exact completeF_mono hm hinv' hc0 R.comp, ?_, ?_, ?_⟩
  · -- the index file of id0 still holds an entry for c0
    rw [hfs]
    obtain ⟨t0, hic⟩ := R.idx
    obtain ⟨i, nd, h1, h2, h3⟩ := content_inv W.fs.1 hic
    obtain ⟨nd', k1, k2⟩ := hm.inodes _ _ h2
    have hc' : fs1.content (.index id0) = some nd'.data := content_of' (hm.names _ _ h1) k1
    rcases hidxc id0 nd'.data hc' with g | g | ⟨id, s, fd, rfl, rfl, rfl, g⟩
    · rw [hic] at g; exact ⟨t0, by rw [hc']; exact g.symm⟩
    · exfalso
      have : nd.data.length = Gen.CachePut.entrySize := by rw [h3]; exact hy.encLen id0 c0 t0 hc0
      rw [g] at k2; simp [Gen.CachePut.entrySize] at this k2; rw [k2] at this; simp at this
    · have hd1 : s.data1 = c0 := honly rfl
      refine ⟨w.now, ?_⟩
      rw [hc', g]; simp [putOut, Src.size, hd1]
  · -- only_todo
    intro tid tk2 op' ht2 ho
    by_cases hne : tid = l.tid
    · subst hne; rw [htk'] at ht2; cases ht2
      cases hnx' : nx with
      | goto pc'' => rw [(hgoto _ hnx').2.1] at ho; exact R.only_todo _ _ _ htk ho
      | done res =>
        rcases (hdone _ hnx').2 with ⟨_, _, h1⟩ | ⟨o, rest, htd, _, h1⟩
        · rw [h1] at ho; cases ho
        · rw [h1] at ho; exact R.only_todo _ _ _ htk (by rw [htd]; simp [ho])
    · rw [hother _ hne] at ht2; exact R.only_todo _ _ _ ht2 ho
  · -- only_cur
    intro tid tk2 op' pc' ht2 hc2
    rw [hfs]
    by_cases hne : tid = l.tid
    · subst hne; rw [htk'] at ht2; cases ht2
      cases hnx' : nx with
      | goto pc'' =>
        rw [(hgoto _ hnx').1] at hc2; cases hc2
        refine ⟨honly, fun hop hid => ?_⟩
        have := hown_post hop hid
        rw [hnx'] at this; exact this
      | done res =>
        rcases (hdone _ hnx').2 with ⟨_, h1, _⟩ | ⟨o, rest, htd, h1, _⟩
        · rw [h1] at hc2; cases hc2
        · rw [h1] at hc2; cases hc2
          exact ⟨R.only_todo _ _ _ htk (by rw [htd]; simp), fun hop _ => localS_start hop⟩
    · rw [hother _ hne] at ht2
      obtain ⟨o2, l2⟩ := R.only_cur _ _ _ _ ht2 hc2
      obtain ⟨_, _, b2⟩ := W.cur _ _ _ _ ht2 hc2
      refine ⟨o2, fun hop hid => localS_mono hm (fun g hg => ⟨fun heq => ?_, b2 g hg⟩) (l2 hop hid)⟩
      exact W.distinct l.tid tid tk tk2 op pc op' pc' g (Ne.symm hne) htk ht2 hcur hc2 (hown g heq.symm) hg
  · -- res
    intro tid op' res hr hop hid
    cases hnx' : nx with
    | goto pc'' =>
      rw [(hgoto _ hnx').2.2] at hr
      simp only [List.mem_append] at hr
      rcases hr with hr | hr
      · exact R.res _ _ _ hr hop hid
      · obtain ⟨_, _, _, _, _, _, _, he⟩ := ghostOf_mem hr; cases he
    | done res' =>
      rw [(hdone _ hnx').1] at hr
      simp only [List.mem_append, List.mem_singleton] at hr
      rcases hr with (hr | hr) | hr
      · exact R.res _ _ _ hr hop hid
      · obtain ⟨_, _, _, _, _, _, _, he⟩ := ghostOf_mem hr; cases he
      · cases hr
        have := hown_post hop hid
        rw [hnx'] at this; exact this

theorem rinv_run (hy : Hyps P offered) (hc0 : offered c0) {K0 K1 : Id → Bytes → Prop} {ls : List Label} :
    ∀ {w0 w : World Id Hsh}, WInv P offered K0 K1 w0 → RInv P id0 c0 w0 → FaultFree ls → run P w0 ls = some w →
      RInv P id0 c0 w := by
  induction ls with
  | nil => intro w0 w _ R _ h; simp [run] at h; subst h; exact R
  | cons l ls ih =>
    intro w0 w W R hf h
    simp only [run] at h
    split at h
    · simp at h
    · next w1 obs hs =>
      have hl := hf l (by simp)
      exact ih (winv_step hy W hs hl) (rinv_step hy hc0 W R hs hl) (fun l' hl' => hf l' (by simp [hl'])) h

/-- **restore_invisible**: id0 is stored with the complete content `c0`; the tasks — any number, any
schedule — store `c0` again for id0 as often as they like (and do anything with other ids).  Then every
lookup of id0 succeeds, and returns `c0`: re-storing identical content is invisible to concurrent readers. -/
theorem restore_invisible_run (hy : Hyps P offered) (hc0 : offered c0) {w0 w : World Id Hsh} {ls : List Label}
    (hinv : FSInvP P offered w0.fs) (hi : Initial offered w0)
    (hidx : IndexIs P id0 c0 w0.fs) (hcomp : CompleteF P w0.fs c0)
    (honly : ∀ tid tk, w0.tasks tid = some tk →
      (∀ op, op ∈ tk.todo → OnlyC0 id0 c0 op) ∧ (∀ op pc, tk.cur = some (op, pc) → OnlyC0 id0 c0 op))
    (hf : FaultFree ls) (hr : run P w0 ls = some w)
    {tid : Nat} {op : Op Id} {res : Result Hsh} (hop : op.isGet = true) (hid : op.id = id0)
    (hret : Ev.ret tid op res ∈ w.hist) : ResS P c0 res := by
  have W0 : WInv P offered (fun _ c => offered c) (fun _ _ => False) w0 :=
    winv_init hinv hi (fun id d hd => by
      obtain ⟨i, nd, h1, h2, rfl⟩ := content_inv hinv.1 hd
      rcases hinv.2 _ _ _ (by simp) h1 h2 with h | ⟨c, t, hc, h⟩
      · exact Or.inl h
      · exact Or.inr ⟨c, t, hc, hc, h⟩) (fun _ _ h => h.elim)
  have R0 : RInv P id0 c0 w0 := by
    refine ⟨hidx, hcomp, fun tid tk op h1 h2 => (honly tid tk h1).1 op h2, ?_, ?_⟩
    · intro tid tk op pc h1 h2
      refine ⟨(honly tid tk h1).2 op pc h2, fun hop _ => ?_⟩
      obtain ⟨_, rfl⟩ := (hi.2 tid tk h1).2 op pc h2
      exact localS_start hop
    · intro tid op res hr; rw [hi.1] at hr; cases hr
  exact (rinv_run hy hc0 W0 R0 hf hr).res tid op res hret hop hid

end GIV.CachePut
