/-
  GIV.Lemmas.CachePutConc — fault-free concurrent executions (C11): data files stay PREFIXES of the
  content with their hash while several writers interleave their writes.
-/
import GIV.Lemmas.CachePutLookup

set_option linter.unusedSimpArgs false
set_option linter.unusedSectionVars false
set_option linter.unusedVariables false

namespace GIV.CachePut
open GIV

variable {Id Hsh : Type} [DecidableEq Id] [DecidableEq Hsh]

/-! ## bytes: interleaved writers of one content -/

/-- the heart of C11: a file that is a prefix of `c`, written at an offset inside it with the bytes `c`
has there, is still a prefix of `c` and has not shrunk. -/
theorem writeAt_prefix {d c : Bytes} {off k : Nat} (hp : d <+: c) (ho : off ≤ d.length) :
    writeAt d off ((c.drop off).take k) <+: c ∧ d.length ≤ (writeAt d off ((c.drop off).take k)).length := by
  refine ⟨?_, by rw [writeAt_length _ _ _ ho]; omega⟩
  have hd : d = c.take d.length := List.prefix_iff_eq_take.mp hp
  rw [writeAt_inside _ _ _ ho]
  -- `j` bytes are written; together with the part before `off` they are the first `off + j` bytes of `c`
  have hj : (c.drop off).take k = (c.drop off).take ((c.drop off).take k).length := (take_take_length _ _).symm
  have hpre : d.take off = c.take off := by
    rw [hd, List.take_take, Nat.min_eq_left ho]
  have hfront : d.take off ++ (c.drop off).take k = c.take (off + ((c.drop off).take k).length) := by
    rw [hpre, List.take_add, ← hj]
  rw [hfront]
  by_cases hk : off + ((c.drop off).take k).length ≤ d.length
  · have : c.take (off + ((c.drop off).take k).length) = d.take (off + ((c.drop off).take k).length) := by
      rw [hd, List.take_take, Nat.min_eq_left hk]
    rw [this, List.take_append_drop]
    exact hp
  · have hnil : d.drop (off + ((c.drop off).take k).length) = [] := List.drop_eq_nil_of_le (by omega)
    rw [hnil, List.append_nil]
    exact List.take_prefix _ _

theorem prefix_length_le {d c : Bytes} (h : d <+: c) : d.length ≤ c.length := by
  obtain ⟨t, rfl⟩ := h; simp

theorem prefix_of_length_eq {d c : Bytes} (h : d <+: c) (hl : d.length = c.length) : d = c := by
  obtain ⟨t, rfl⟩ := h
  have : t = [] := by
    cases t with
    | nil => rfl
    | cons a t => simp at hl
  simp [this]

end GIV.CachePut
