/-
  GIV.Lemmas.CachePutConc — fault-free concurrent executions (C11): data files stay PREFIXES of the
  content with their hash while several writers interleave their writes.
-/
import GIV.Lemmas.CachePutExec

set_option linter.unusedSimpArgs false
set_option linter.unusedSectionVars false
set_option linter.unusedVariables false

namespace GIV.CachePut
open GIV

variable {Id Hsh : Type} [DecidableEq Id] [DecidableEq Hsh]

/-! ## bytes: interleaved writers of one content -/

/-- the heart of C11: a file that is a prefix of `c`, written at an offset inside it with the bytes `c`
has there, is still a prefix of `c` and has not shrunk. -/
theorem writeAt_prefix {d c : Bytes} {off k : Nat} (hp : d <+: c) (ho : off ≤ d.length) :
    writeAt d off ((c.drop off).take k) <+: c ∧ d.length ≤ (writeAt d off ((c.drop off).take k)).length := by
  refine ⟨?_, by rw [writeAt_length _ _ _ ho]; omega⟩
  have hd : d = c.take d.length := List.prefix_iff_eq_take.mp hp
  rw [writeAt_inside _ _ _ ho]
  -- `j` bytes are written; together with the part before `off` they are the first `off + j` bytes of `c`
  have hj : (c.drop off).take k = (c.drop off).take ((c.drop off).take k).length := (take_take_length _ _).symm
  have hpre : d.take off = c.take off := by
    rw [hd, List.take_take, Nat.min_eq_left ho]
  have hfront : d.take off ++ (c.drop off).take k = c.take (off + ((c.drop off).take k).length) := by
    rw [hpre, List.take_add, ← hj]
  rw [hfront]
  by_cases hk : off + ((c.drop off).take k).length ≤ d.length
  · have : c.take (off + ((c.drop off).take k).length) = d.take (off + ((c.drop off).take k).length) := by
      rw [hd, List.take_take, Nat.min_eq_left hk]
    rw [this, List.take_append_drop]
    exact hp
  · have hnil : d.drop (off + ((c.drop off).take k).length) = [] := List.drop_eq_nil_of_le (by omega)
    rw [hnil, List.append_nil]
    exact List.take_prefix _ _

theorem prefix_length_le {d c : Bytes} (h : d <+: c) : d.length ≤ c.length := by
  obtain ⟨t, rfl⟩ := h; simp

theorem prefix_of_length_eq {d c : Bytes} (h : d <+: c) (hl : d.length = c.length) : d = c := by
  obtain ⟨t, rfl⟩ := h
  have : t = [] := by
    cases t with
    | nil => rfl
    | cons a t => simp at hl
  simp [this]


/-! ## the prefix form of the invariant (C11): lemmas as in GIV.Lemmas.CachePutFS -/

/-- clause (D⁺): a data file is a PREFIX of the content with its hash (fault-free runs); clause (I) as before. -/
def FileOKp (P : Params Id Hsh) (offered : Bytes → Prop) : Name Id Hsh → Bytes → Prop
  | .data h, d => ∀ c, offered c → P.H c = h → d <+: c
  | .index id, d => d = [] ∨ ∃ c t, offered c ∧ d = P.enc id (P.H c) c.length t

/-- the invariant, possibly exempting ONE name (a file that a running Put is bound to truncate or remove). -/
def FSInvPExc (P : Params Id Hsh) (offered : Bytes → Prop) (fs : FS Id Hsh) (ex : Option (Name Id Hsh)) : Prop :=
  Struct fs ∧ ∀ p i nd, some p ≠ ex → fs.names p = some i → fs.inodes i = some nd → FileOKp P offered p nd.data

/-- `CacheInv`: clauses (D) and (I) for every file. -/
def FSInvP (P : Params Id Hsh) (offered : Bytes → Prop) (fs : FS Id Hsh) : Prop := FSInvPExc P offered fs none

theorem FSInvP.exc {P : Params Id Hsh} {offered : Bytes → Prop} {fs : FS Id Hsh} (h : FSInvP P offered fs)
    (ex : Option (Name Id Hsh)) : FSInvPExc P offered fs ex :=
  ⟨h.1, fun p i nd _ hn hi => h.2 p i nd (by simp) hn hi⟩

/-- the exempted file is fine too: the full invariant. -/
theorem FSInvPExc.full {P : Params Id Hsh} {offered : Bytes → Prop} {fs : FS Id Hsh} {q : Name Id Hsh}
    (h : FSInvPExc P offered fs (some q))
    (hq : ∀ i nd, fs.names q = some i → fs.inodes i = some nd → FileOKp P offered q nd.data) :
    FSInvP P offered fs := by
  refine ⟨h.1, fun p i nd _ hn hi => ?_⟩
  by_cases hp : p = q
  · subst hp; exact hq i nd hn hi
  · exact h.2 p i nd (by simpa using hp) hn hi

theorem SameFiles.invp {P : Params Id Hsh} {offered : Bytes → Prop} {fs fs' : FS Id Hsh} {ex : Option (Name Id Hsh)}
    (h : SameFiles fs fs') (hi : FSInvPExc P offered fs ex) : FSInvPExc P offered fs' ex := by
  obtain ⟨h1, h2, h3⟩ := h
  refine ⟨⟨?_, ?_⟩, ?_⟩
  · intro p i hn; rw [h1] at hn; rw [h2]; exact hi.1.named p i hn
  · intro i nd hn; rw [h2] at hn; rw [h3]; exact hi.1.bound i nd hn
  · intro p i nd hp hn hino; rw [h1] at hn; rw [h2] at hino; exact hi.2 p i nd hp hn hino


theorem fileOKp_nil (P : Params Id Hsh) (offered : Bytes → Prop) (p : Name Id Hsh) : FileOKp P offered p [] := by
  cases p with
  | data h => intro c _ _; exact List.nil_prefix
  | index id => left; rfl


/-- the data of the inode linked at `q` changes; `q` stays exempted. -/
theorem invp_setData_exc {P : Params Id Hsh} {offered : Bytes → Prop} {fs : FS Id Hsh} {q : Name Id Hsh} {i : Nat}
    {nd : Inode Id Hsh} (d' : Bytes) (h : FSInvPExc P offered fs (some q)) (hn : fs.names q = some i)
    (hi : fs.inodes i = some nd) :
    FSInvPExc P offered (fs.setInode i { nd with data := d' }) (some q) := by
  refine ⟨⟨?_, ?_⟩, ?_⟩
  · intro p j hp
    simp only [FS.setInode] at hp ⊢
    by_cases hj : j = i
    · subst hj
      obtain ⟨nd', h1, h2⟩ := h.1.named p j hp
      rw [hi] at h1; cases h1
      exact ⟨{ nd with data := d' }, by simp, h2⟩
    · simpa [hj] using h.1.named p j hp
  · intro j nd' hj
    simp only [FS.setInode] at hj ⊢
    by_cases hji : j = i
    · subst hji; exact h.1.bound j nd hi
    · simp [hji] at hj; exact h.1.bound j nd' hj
  · intro p j nd' hp hpn hj
    simp only [FS.setInode] at hpn hj
    by_cases hji : j = i
    · subst hji
      obtain ⟨nd1, h1, h2⟩ := h.1.named p j hpn
      obtain ⟨nd2, h3, h4⟩ := h.1.named q j hn
      rw [h1] at h3; cases h3
      exact absurd (h2.symm.trans h4) (by simpa using hp)
    · simp [hji] at hj; exact h.2 p j nd' hp hpn hj

/-- the data of the inode linked at `q` changes to something acceptable. -/
theorem invp_setData {P : Params Id Hsh} {offered : Bytes → Prop} {fs : FS Id Hsh} {q : Name Id Hsh} {i : Nat}
    {nd : Inode Id Hsh} (d' : Bytes) (h : FSInvPExc P offered fs (some q)) (hn : fs.names q = some i)
    (hi : fs.inodes i = some nd) (hd : FileOKp P offered q d') :
    FSInvP P offered (fs.setInode i { nd with data := d' }) := by
  refine (invp_setData_exc d' h hn hi).full ?_
  intro j nd' hj hnd
  simp only [FS.setInode] at hj hnd
  rw [hn] at hj; cases hj
  simp at hnd; subst hnd
  exact hd

theorem invp_setFd {P : Params Id Hsh} {offered : Bytes → Prop} {fs : FS Id Hsh} {ex : Option (Name Id Hsh)}
    (fd : Nat) (o : Option OFD) (h : FSInvPExc P offered fs ex) : FSInvPExc P offered (fs.setFd fd o) ex :=
  SameFiles.invp (fs := fs) ⟨rfl, rfl, rfl⟩ h

theorem invp_closeProc {P : Params Id Hsh} {offered : Bytes → Prop} {fs : FS Id Hsh} {ex : Option (Name Id Hsh)}
    (proc : Nat) (h : FSInvPExc P offered fs ex) : FSInvPExc P offered (fs.closeProc proc) ex :=
  SameFiles.invp (fs := fs) ⟨rfl, rfl, rfl⟩ h

/-- `unlink q`: afterwards nothing is exempted. -/
theorem invp_unlink {P : Params Id Hsh} {offered : Bytes → Prop} {fs : FS Id Hsh} {q : Name Id Hsh}
    (h : FSInvPExc P offered fs (some q)) :
    FSInvP P offered { fs with names := fun p => if p = q then none else fs.names p } := by
  refine ⟨⟨?_, ?_⟩, ?_⟩
  · intro p i hp
    simp only at hp ⊢
    by_cases hpq : p = q
    · simp [hpq] at hp
    · simp [hpq] at hp; exact h.1.named p i hp
  · intro i nd hi; exact h.1.bound i nd hi
  · intro p i nd _ hp hi
    simp only at hp hi
    by_cases hpq : p = q
    · simp [hpq] at hp
    · simp [hpq] at hp; exact h.2 p i nd (by simpa using hpq) hp hi

/-- `open(q, O_CREATE)` of a missing name: a new empty file. -/
theorem invp_create {P : Params Id Hsh} {offered : Bytes → Prop} {fs : FS Id Hsh} {ex : Option (Name Id Hsh)}
    (q : Name Id Hsh) (h : FSInvPExc P offered fs ex) (hq : fs.names q = none) :
    FSInvPExc P offered { fs with names := fun p => if p = q then some fs.nextIno else fs.names p, inodes := fun j => if j = fs.nextIno then some ⟨q, []⟩ else fs.inodes j, nextIno := fs.nextIno + 1 } ex := by
  have fresh : ∀ p, fs.names p ≠ some fs.nextIno := by
    intro p hp
    obtain ⟨nd, h1, _⟩ := h.1.named p _ hp
    exact absurd (h.1.bound _ nd h1) (by omega)
  refine ⟨⟨?_, ?_⟩, ?_⟩
  · intro p i hp
    simp only at hp ⊢
    by_cases hpq : p = q
    · simp [hpq] at hp; subst hp; exact ⟨⟨q, []⟩, by simp, hpq.symm⟩
    · simp [hpq] at hp
      have : i ≠ fs.nextIno := fun e => fresh p (e ▸ hp)
      simpa [this] using h.1.named p i hp
  · intro i nd hi
    simp only at hi ⊢
    by_cases hin : i = fs.nextIno
    · omega
    · simp [hin] at hi; have := h.1.bound i nd hi; omega
  · intro p i nd hpe hp hi
    simp only at hp hi
    by_cases hpq : p = q
    · simp [hpq] at hp; subst hp; simp at hi; subst hi; subst hpq; exact fileOKp_nil P offered p
    · simp [hpq] at hp
      have : i ≠ fs.nextIno := fun e => fresh p (e ▸ hp)
      simp [this] at hi
      exact h.2 p i nd hpe hp hi


variable {P : Params Id Hsh} {offered : Bytes → Prop} {now : Int} {id : Id} {s : Src}
  {fs fs' : FS Id Hsh} {proc n : Nat} {fault : Fault} {r : Res} {nx : Next Hsh}

/-- `open(q, O_CREATE [|O_TRUNC])`: a descriptor at offset 0 on the file linked at `q`, which is empty
(created or truncated) or the file that was there. -/
theorem open_create_specp {q : Name Id Hsh} {m : Mode} {trunc : Bool} (hinv : FSInvP P offered fs)
    (hs : execOk fs proc (.open q m true trunc) = some (fs', r)) :
    FSInvP P offered fs' ∧ ∃ i nd', r = .okFd fs.nextFd ∧ fs'.fds fs.nextFd = some ⟨i, 0, proc⟩ ∧
      fs'.names q = some i ∧ fs'.inodes i = some nd' ∧
      (nd'.data = [] ∨ (trunc = false ∧ fs.names q = some i ∧ fs.inodes i = some nd')) := by
  simp only [execOk] at hs
  cases hnm : fs.names q with
  | none =>
    simp [hnm, FS.newFd] at hs
    obtain ⟨rfl, rfl⟩ := hs
    have h1 := invp_create q hinv hnm
    refine ⟨SameFiles.invp ?_ h1, fs.nextIno, ⟨q, []⟩, rfl, by simp, by simp, by simp, Or.inl rfl⟩
    exact ⟨rfl, rfl, rfl⟩
  | some i =>
    obtain ⟨nd, hnd, _⟩ := hinv.1.named _ _ hnm
    cases trunc with
    | false =>
      simp [hnm, hnd, FS.newFd] at hs
      obtain ⟨rfl, rfl⟩ := hs
      refine ⟨SameFiles.invp ?_ hinv, i, nd, rfl, by simp, by simpa using hnm, by simpa using hnd, Or.inr ⟨rfl, rfl, hnd⟩⟩
      exact ⟨rfl, rfl, rfl⟩
    | true =>
      simp [hnm, hnd, FS.newFd] at hs
      obtain ⟨rfl, rfl⟩ := hs
      have h1 := invp_setData [] (hinv.exc _) hnm hnd (fileOKp_nil P offered q)
      refine ⟨SameFiles.invp ?_ h1, i, { nd with data := [] }, rfl, by simp [FS.setInode], ?_, ?_, Or.inl rfl⟩
      · exact ⟨rfl, rfl, rfl⟩
      · simpa [FS.setInode] using hnm
      · simp [FS.setInode]


/-! ## the local state of a fault-free writer with a well-behaved source -/

/-- the source reader delivers the same bytes on both passes and does not fail. -/
def GoodSrc (s : Src) : Prop := s.ok1 = true ∧ s.seek2 = true ∧ s.data2 = s.data1

section
variable (P : Params Id Hsh) (offered : Bytes → Prop) (id : Id) (s : Src) (fs : FS Id Hsh)

/-- copying: `fd` is open on the data file at an offset inside it; `rest` is what remains to be copied. -/
def WStC (fd : Nat) (rest : Bytes) : Prop :=
  ∃ o nd, fs.fds fd = some o ∧ fs.names (.data (putOut P s)) = some o.ino ∧ fs.inodes o.ino = some nd ∧
    o.off ≤ nd.data.length ∧ nd.data.take o.off ++ rest = s.data1.take s.first

/-- what a fault-free `Put(id, s)` knows at each program point (error paths are unreachable). -/
def LocalC : PC Hsh → Prop
  | .pCkOpen L => L ≤ s.size
  | .pCkRead _ _ L => L ≤ s.size
  | .pCkClose _ _ L => L ≤ s.size
  | .pOpen trunc => trunc = false
  | .pWrite fd rest => s.size ≠ 0 ∧ rest ≠ [] ∧ WStC P s fs fd rest
  | .pCommit fd checked => s.size ≠ 0 ∧ checked = true ∧ WStC P s fs fd []
  | .pClose fd => ∃ o, fs.fds fd = some o
  | .pTrunc0 _ => False
  | .pRemoveData _ => False
  | .pDeferClose _ ok => ok = true
  | .iWrite fd => ∃ o, fs.fds fd = some o ∧ o.off = 0 ∧ fs.names (.index id) = some o.ino
  | .iTrunc fd => ∃ o nd, fs.fds fd = some o ∧ fs.names (.index id) = some o.ino ∧ fs.inodes o.ino = some nd ∧
      nd.data.length = Gen.CachePut.entrySize
  | .iClose fd err => err = false ∧ ∃ o, fs.fds fd = some o
  | .iRemove => False
  | .pStat => True
  | .pReuseStat => True
  | .pReuseChtimes => True
  | .pChtimes _ => True
  | .iOpen => True
  | .iChtimes => True
  | _ => False
end


def PostC (P : Params Id Hsh) (id : Id) (s : Src) (fs' : FS Id Hsh) : Next Hsh → Prop
  | .goto pc' => LocalC P id s fs' pc'
  | .done _ => True

theorem fileOKp_data (hy : Hyps P offered) (hoff : offered s.data1) {d : Bytes} (h : d <+: s.data1) :
    FileOKp P offered (.data (putOut P s)) d := by
  intro c hc hh
  have : s.data1 = c := hy.noColl c s.data1 hc (by simpa [putOut] using hh.symm)
  rw [← this]; exact h

theorem good_size (hg : GoodSrc s) : s.data2.length = s.size := by rw [hg.2.2]; rfl

theorem postC_afterCopyN (hg : GoodSrc s) (hsz : s.size ≠ 0) {fd : Nat} (h : WStC P s fs' fd []) :
    PostC P id s fs' (afterCopyN P s fd) := by
  have hf := first_lt hsz
  have hlen := good_size hg
  have hsize : s.data1.length = s.size := rfl
  have hfs : s.first = s.size - 1 := by simp [Src.first, Gen.CachePut.firstLen]
  have hfull : s.data2.take (s.first + 1) = s.data1 := by
    rw [hg.2.2]; apply List.take_of_length_le; omega
  unfold afterCopyN
  simp only [Gen.CachePut.checkBeforeLastByte, Gen.CachePut.underfoot, if_true, hfull, putOut]
  rw [if_neg (by omega), if_neg (by omega)]
  simp only [decide_true, Bool.not_true, Bool.false_eq_true, if_false, PostC, LocalC]
  exact ⟨hsz, trivial, h⟩

theorem postC_writeOrNext (hg : GoodSrc s) (hsz : s.size ≠ 0) {fd : Nat} {rest : Bytes} (h : WStC P s fs' fd rest) :
    PostC P id s fs' (writeOrNext P s fd rest) := by
  unfold writeOrNext
  split
  · next hr => subst hr; exact postC_afterCopyN hg hsz h
  · next hr => exact ⟨hsz, hr, h⟩

/-- a write of the next bytes of the content through a descriptor positioned inside a prefix file. -/
theorem cwrite (hy : Hyps P offered) (hoff : offered s.data1) (hinv : FSInvP P offered fs) {fd : Nat} {rest : Bytes} {k : Nat}
    (hw : WStC P s fs fd rest) (he : execOk fs proc (.write fd (rest.take k)) = some (fs', r)) :
    FSInvP P offered fs' ∧ WStC P s fs' fd (rest.drop k) := by
  obtain ⟨o, nd, h1, h2, h3, h4, h5⟩ := hw
  obtain ⟨o', nd', g1, g2, rfl, rfl⟩ := write_spec he
  rw [h1] at g1; cases g1
  rw [h3] at g2; cases g2
  have hpre : nd.data <+: s.data1 := hinv.2 _ _ _ (by simp) h2 h3 s.data1 hoff rfl
  -- the bytes written are the bytes of the content at the descriptor's offset
  have hrestEq : rest = (s.data1.drop o.off).take (s.first - o.off) := by
    have h6 := congrArg (List.drop o.off) h5
    have hl : (nd.data.take o.off).length = o.off := by simp; omega
    rw [List.drop_append_of_le_length (by omega), List.drop_eq_nil_of_le (by omega), List.nil_append] at h6
    rw [h6, List.drop_take]
  have hbs : rest.take k = (s.data1.drop o.off).take (min k (s.first - o.off)) := by
    rw [hrestEq, List.take_take]
  have hwp := writeAt_prefix (k := min k (s.first - o.off)) hpre h4
  rw [← hbs] at hwp
  refine ⟨invp_setFd _ _ (invp_setData _ (hinv.exc _) h2 h3 (fileOKp_data hy hoff hwp.1)), ?_⟩
  refine ⟨{ o with off := o.off + (rest.take k).length }, { nd with data := writeAt nd.data o.off (rest.take k) },
    by simp [FS.setFd], ?_, ?_, ?_, ?_⟩
  · simpa [FS.setFd, FS.setInode] using h2
  · simp [FS.setFd, FS.setInode]
  · show o.off + (rest.take k).length ≤ (writeAt nd.data o.off (rest.take k)).length
    rw [writeAt_length _ _ _ h4]; omega
  · show List.take (o.off + (rest.take k).length) (writeAt nd.data o.off (rest.take k)) ++ rest.drop k = _
    rw [writeAt_take _ _ _ h4, List.append_assoc, List.take_append_drop, h5]

theorem close_open_ok {fd : Nat} {o : OFD} (h : fs.fds fd = some o) (he : execOk fs proc (.close fd) = some (fs', r)) :
    r = .ok ∧ SameFiles fs fs' := by
  simp [execOk, h] at he
  obtain ⟨rfl, rfl⟩ := he
  exact ⟨rfl, rfl, rfl, rfl⟩

theorem trunc_le_false {L : Nat} (h : L ≤ s.size) : Gen.CachePut.dataOpenTrunc true L s.size = false := by
  simp [Gen.CachePut.dataOpenTrunc]; omega

/-- **One fault-free step of a writer with a well-behaved source** keeps every data file a prefix of
the content with its hash, and leads to a program point where the writer's local facts hold again. -/
theorem put_cstep (hy : Hyps P offered) (hg : GoodSrc s) (hoff : offered s.data1)
    (hinv : FSInvP P offered fs) {pc : PC Hsh} (hL : LocalC P id s fs pc)
    (hs : tstep P now fs proc (.put id s) pc .none n = some (fs', r, nx)) :
    FSInvP P offered fs' ∧ PostC P id s fs' nx := by
  obtain ⟨he, rfl⟩ := tstep_eq hs
  simp only [exec] at he
  cases pc <;> simp only [LocalC] at hL <;> simp only [sysOf] at he
  case pStat =>
    obtain ⟨rfl, hcase⟩ := stat_spec he
    refine ⟨hinv, ?_⟩
    rcases hcase with ⟨_, rfl⟩ | ⟨i, nd, h1, h2, rfl⟩
    · simp [next, PostC, LocalC, Gen.CachePut.dataOpenTrunc]
    · have hle : nd.data.length ≤ s.size := prefix_length_le (hinv.2 _ _ _ (by simp) h1 h2 s.data1 hoff rfl)
      simp only [next, Gen.CachePut.reuseCheck, Bool.true_and, decide_eq_true_eq]
      split
      · exact hle
      · exact trunc_le_false hle
  case pCkOpen L =>
    have hsame := exec_open_ro_same (fault := .none) (by simpa [exec] using he)
    refine ⟨hsame.invp hinv, ?_⟩
    cases r <;> simp only [next, PostC, LocalC] <;> first | exact hL | exact trunc_le_false hL
  case pCkRead fd acc L =>
    have hsame := exec_read_same (fault := .none) (by simpa [exec] using he)
    refine ⟨hsame.invp hinv, ?_⟩
    cases r <;> simp only [next, PostC, LocalC] <;> exact hL
  case pCkClose fd acc L =>
    have hsame := exec_close_same (fault := .none) (by simpa [exec] using he)
    refine ⟨hsame.invp hinv, ?_⟩
    simp only [next, Gen.CachePut.copyReuseRefreshes, if_true]
    split
    · trivial
    · exact trunc_le_false hL
  case pReuseStat =>
    have hsame := exec_stat_same (fault := .none) (by simpa [exec] using he)
    refine ⟨hsame.invp hinv, ?_⟩
    simp only [next, copyOk, Gen.CachePut.indexAfterCopy, if_true]
    split <;> trivial
  case pReuseChtimes =>
    have hsame := exec_chtimes_same (fault := .none) (by simpa [exec] using he)
    exact ⟨hsame.invp hinv, by simp [next, copyOk, Gen.CachePut.indexAfterCopy, PostC, LocalC]⟩
  case pOpen trunc =>
    subst hL
    obtain ⟨hinv', i, nd', rfl, hfd, hnm, hnd, _⟩ := open_create_specp hinv he
    refine ⟨hinv', ?_⟩
    simp only [next, Gen.CachePut.emptyReturn, Gen.CachePut.truncOnSeekErr, decide_eq_true_eq]
    by_cases hsz : s.size = 0
    · simp [hsz, PostC, LocalC]
    · simp only [hsz, if_false, hg.2.1, Bool.not_true, Bool.false_eq_true]
      apply postC_writeOrNext hg hsz
      exact ⟨⟨i, 0, proc⟩, nd', hfd, hnm, hnd, Nat.zero_le _, by simp [Src.copyBytes, Gen.CachePut.copyNBeforeCheck, hg.2.2]⟩
  case pWrite fd rest =>
    obtain ⟨hsz, hne, hw⟩ := hL
    have hr : r = .okN (rest.take (chunk n)).length := by
      obtain ⟨_, _, _, _, _, h⟩ := write_spec he; exact h
    obtain ⟨hinv', hw'⟩ := cwrite hy hoff hinv hw he
    refine ⟨hinv', ?_⟩
    subst hr
    simp only [next]
    exact postC_writeOrNext hg hsz hw'
  case pCommit fd checked =>
    obtain ⟨hsz, rfl, hw⟩ := hL
    obtain ⟨o, nd, h1, h2, h3, h4, h5⟩ := hw
    have hsize : s.data1.length = s.size := rfl
    have hfs : s.first = s.size - 1 := by simp [Src.first, Gen.CachePut.firstLen]
    have hoffv : o.off = s.first := by
      have := congrArg List.length h5
      simp at this; omega
    have hlast : lastByte s = (s.data1.drop o.off).take 1 := by simp only [lastByte, hg.2.2, hoffv]
    obtain ⟨o', nd', g1, g2, rfl, rfl⟩ := write_spec he
    rw [h1] at g1; cases g1
    rw [h3] at g2; cases g2
    have hpre : nd.data <+: s.data1 := hinv.2 _ _ _ (by simp) h2 h3 s.data1 hoff rfl
    have hwp := writeAt_prefix (k := 1) hpre h4
    rw [← hlast] at hwp
    simp only [next, if_true, PostC, LocalC]
    refine ⟨invp_setFd _ _ (invp_setData _ (hinv.exc _) h2 h3 (fileOKp_data hy hoff hwp.1)),
      { o with off := o.off + (lastByte s).length }, ?_⟩
    simp [FS.setFd]
  case pClose fd =>
    obtain ⟨o, h1⟩ := hL
    obtain ⟨rfl, hsame⟩ := close_open_ok h1 he
    exact ⟨hsame.invp hinv, by simp [next, PostC, LocalC]⟩
  case pChtimes fd =>
    have hsame := exec_chtimes_same (fault := .none) (by simpa [exec] using he)
    exact ⟨hsame.invp hinv, by simp [next, PostC, LocalC]⟩
  case pDeferClose fd ok =>
    subst hL
    have hsame := exec_close_same (fault := .none) (by simpa [exec] using he)
    exact ⟨hsame.invp hinv, by simp [next, copyOk, Gen.CachePut.indexAfterCopy, PostC, LocalC]⟩
  case iOpen =>
    simp only [Op.id, Gen.CachePut.indexOpenCreate, Gen.CachePut.indexOpenTrunc] at he
    obtain ⟨hinv', i, nd', rfl, hfd, hnm, hnd, _⟩ := open_create_specp hinv he
    exact ⟨hinv', ⟨i, 0, proc⟩, hfd, rfl, hnm⟩
  case iWrite fd =>
    obtain ⟨o, h1, h2, h3⟩ := hL
    obtain ⟨nd, h4, _⟩ := hinv.1.named _ _ h3
    obtain ⟨o', nd', g1, g2, rfl, rfl⟩ := write_spec he
    rw [h1] at g1; cases g1
    rw [h4] at g2; cases g2
    have e2 : (P.enc id (putOut P s) s.size now).length = Gen.CachePut.entrySize := hy.encLen id s.data1 now hoff
    have hcover : writeAt nd.data o.off (P.enc id (putOut P s) s.size now) = P.enc id (putOut P s) s.size now := by
      rw [h2]
      apply writeAt_zero_cover
      rcases hinv.2 _ _ _ (by simp) h3 h4 with h | ⟨c, t, hc, h⟩
      · simp [h]
      · rw [h, hy.encLen id c t hc, e2]; exact Nat.le_refl _
    simp only [next, Gen.CachePut.indexTruncAfterWrite, if_true, PostC, LocalC, hcover]
    refine ⟨invp_setFd _ _ (invp_setData _ (hinv.exc _) h3 h4 (Or.inr ⟨s.data1, now, hoff, rfl⟩)),
      { o with off := o.off + (P.enc id (putOut P s) s.size now).length },
      { nd with data := P.enc id (putOut P s) s.size now }, by simp [FS.setFd], ?_, ?_, e2⟩
    · simpa [FS.setFd, FS.setInode] using h3
    · simp [FS.setFd, FS.setInode]
  case iTrunc fd =>
    obtain ⟨o, nd, h1, h2, h3, h4⟩ := hL
    obtain ⟨o', nd', g1, g2, rfl, rfl⟩ := ftruncate_spec he
    rw [h1] at g1; cases g1
    rw [h3] at g2; cases g2
    have e2 : (P.enc id (putOut P s) s.size now).length = Gen.CachePut.entrySize := hy.encLen id s.data1 now hoff
    have hsame : truncTo nd.data (P.enc id (putOut P s) s.size now).length = nd.data := by
      rw [e2, ← h4, truncTo_self]
    simp only [next, PostC, LocalC, hsame]
    refine ⟨invp_setData _ (hinv.exc _) h2 h3 (hinv.2 _ _ _ (by simp) h2 h3), trivial, o, ?_⟩
    simpa [FS.setInode] using h1
  case iClose fd err =>
    obtain ⟨rfl, o, h1⟩ := hL
    obtain ⟨rfl, hsame⟩ := close_open_ok h1 he
    exact ⟨hsame.invp hinv, by simp [next, PostC, LocalC]⟩
  case iChtimes =>
    have hsame := exec_chtimes_same (fault := .none) (by simpa [exec] using he)
    exact ⟨hsame.invp hinv, by simp [next, indexOk, Gen.CachePut.indexAfterCopy, PostC]⟩
  all_goals exact hL.elim

/-! ## non-interference: what a fault-free step of a well-behaved task does to the others -/

def fdOf : PC Hsh → Option Nat
  | .pCkRead fd _ _ => some fd | .pCkClose fd _ _ => some fd | .pWrite fd _ => some fd | .pCommit fd _ => some fd
  | .pTrunc0 fd => some fd | .pClose fd => some fd | .pRemoveData fd => some fd | .pChtimes fd => some fd
  | .pDeferClose fd _ => some fd | .iWrite fd => some fd | .iTrunc fd => some fd | .iClose fd _ => some fd
  | .gRead fd _ => some fd | .gUsedStat fd _ => some fd | .gUsedChtimes fd _ => some fd | .gClose fd _ => some fd
  | .bRead fd _ _ => some fd | .bClose fd _ _ => some fd
  | _ => none

def sysFd : Sys Id Hsh → Option Nat
  | .read fd _ => some fd | .write fd _ => some fd | .ftruncate fd _ => some fd | .close fd => some fd
  | _ => none

/-- names stay, files do not shrink, the descriptors of the others are not touched. -/
structure Mono (fs fs' : FS Id Hsh) (f : Option Nat) : Prop where
  names : ∀ p i, fs.names p = some i → fs'.names p = some i
  inodes : ∀ i nd, fs.inodes i = some nd → ∃ nd', fs'.inodes i = some nd' ∧ nd.data.length ≤ nd'.data.length
  fds : ∀ fd, some fd ≠ f → fd < fs.nextFd → fs'.fds fd = fs.fds fd
  nextFd : fs.nextFd ≤ fs'.nextFd

/-- system calls that do not remove, truncate or shrink anything. -/
def SafeSys (fs : FS Id Hsh) : Sys Id Hsh → Prop
  | .unlink _ => False
  | .open _ _ _ trunc => trunc = false
  | .ftruncate fd k => ∀ o nd, fs.fds fd = some o → fs.inodes o.ino = some nd → nd.data.length ≤ k
  | _ => True

theorem SameFiles.mono (h : SameFiles fs fs') (f : Option Nat)
    (hfds : ∀ fd, some fd ≠ f → fd < fs.nextFd → fs'.fds fd = fs.fds fd) (hn : fs.nextFd ≤ fs'.nextFd) : Mono fs fs' f :=
  ⟨fun p i hp => by rw [h.1]; exact hp, fun i nd hi => ⟨nd, by rw [h.2.1]; exact hi, Nat.le_refl _⟩, hfds, hn⟩

theorem writeAt_length_ge (d : Bytes) (off : Nat) (bs : Bytes) : d.length ≤ (writeAt d off bs).length := by
  unfold writeAt
  split
  · exact Nat.le_refl _
  · simp; omega

theorem exec_mono (hst : Struct fs) {sys : Sys Id Hsh} (he : execOk fs proc sys = some (fs', r)) (hsafe : SafeSys fs sys) :
    Mono fs fs' (sysFd sys) := by
  cases sys <;> simp only [SafeSys] at hsafe
  case stat p =>
    obtain ⟨rfl, _⟩ := stat_spec he
    exact (SameFiles.refl _).mono _ (fun _ _ _ => rfl) (Nat.le_refl _)
  case «open» p m create trunc =>
    subst hsafe
    simp only [execOk] at he
    cases hnm : fs.names p with
    | some i =>
      cases hnd : fs.inodes i with
      | none => simp [hnm, hnd] at he
      | some nd =>
        simp [hnm, hnd, FS.newFd] at he
        obtain ⟨rfl, rfl⟩ := he
        refine SameFiles.mono (by exact ⟨rfl, rfl, rfl⟩) _ (fun fd _ hlt => ?_) (Nat.le_succ _)
        have : fd ≠ fs.nextFd := by omega
        simp [this]
    | none =>
      cases create with
      | false => simp [hnm] at he; obtain ⟨rfl, rfl⟩ := he; exact (SameFiles.refl _).mono _ (fun _ _ _ => rfl) (Nat.le_refl _)
      | true =>
        simp [hnm, FS.newFd] at he
        obtain ⟨rfl, rfl⟩ := he
        refine ⟨fun q i hq => ?_, fun i nd hi => ⟨nd, ?_, Nat.le_refl _⟩, fun fd _ hlt => ?_, Nat.le_succ _⟩
        · have : q ≠ p := fun e => by rw [e, hnm] at hq; cases hq
          simpa [this] using hq
        · have : i ≠ fs.nextIno := fun e => by have := hst.bound i nd hi; omega
          simpa [this] using hi
        · have : fd ≠ fs.nextFd := by omega
          simp [this]
  case read fd k =>
    have hsame := exec_read_same (fault := .none) (by simpa [exec] using he)
    simp only [execOk] at he
    refine hsame.mono _ (fun g hg _ => ?_) ?_
    · have hne : g ≠ fd := fun e => hg (by simp [sysFd, e])
      split at he
      · simp at he
      · split at he
        · simp at he
        · split at he
          · simp at he; obtain ⟨rfl, _⟩ := he; rfl
          · simp at he; obtain ⟨rfl, _⟩ := he; simp [FS.setFd, hne]
    · split at he
      · simp at he
      · split at he
        · simp at he
        · split at he <;> (simp at he; obtain ⟨rfl, _⟩ := he; exact Nat.le_refl _)
  case write fd bs =>
    obtain ⟨o, nd, h1, h2, rfl, _⟩ := write_spec he
    refine ⟨fun p i hp => hp, fun i nd' hi => ?_, fun g hg _ => ?_, Nat.le_refl _⟩
    · by_cases hio : i = o.ino
      · subst hio; rw [h2] at hi; cases hi
        exact ⟨{ nd with data := writeAt nd.data o.off bs }, by simp [FS.setFd, FS.setInode], writeAt_length_ge _ _ _⟩
      · exact ⟨nd', by simpa [FS.setFd, FS.setInode, hio] using hi, Nat.le_refl _⟩
    · have hne : g ≠ fd := fun e => hg (by simp [sysFd, e])
      simp [FS.setFd, FS.setInode, hne]
  case ftruncate fd k =>
    obtain ⟨o, nd, h1, h2, rfl, _⟩ := ftruncate_spec he
    have hk := hsafe o nd h1 h2
    refine ⟨fun p i hp => hp, fun i nd' hi => ?_, fun g _ _ => rfl, Nat.le_refl _⟩
    by_cases hio : i = o.ino
    · subst hio; rw [h2] at hi; cases hi
      refine ⟨{ nd with data := truncTo nd.data k }, by simp [FS.setInode], ?_⟩
      simp [truncTo]; omega
    · exact ⟨nd', by simpa [FS.setInode, hio] using hi, Nat.le_refl _⟩
  case close fd =>
    have hsame := exec_close_same (fault := .none) (by simpa [exec] using he)
    simp only [execOk] at he
    refine hsame.mono _ (fun g hg _ => ?_) ?_
    · have hne : g ≠ fd := fun e => hg (by simp [sysFd, e])
      split at he <;> (simp at he; obtain ⟨rfl, _⟩ := he)
      · rfl
      · simp [FS.setFd, hne]
    · split at he <;> (simp at he; obtain ⟨rfl, _⟩ := he; exact Nat.le_refl _)
  case chtimes p =>
    have hsame := exec_chtimes_same (fault := .none) (by simpa [exec] using he)
    simp only [execOk] at he
    refine hsame.mono _ (fun g _ _ => ?_) ?_
    · split at he <;> (simp at he; obtain ⟨rfl, _⟩ := he; rfl)
    · split at he <;> (simp at he; obtain ⟨rfl, _⟩ := he; exact Nat.le_refl _)

/-- the local facts of a writer survive the steps of the others. -/
theorem localC_mono (hy : Hyps P offered) (hoff : offered s.data1) {f : Option Nat} (hm : Mono fs fs' f)
    (hinv : FSInvP P offered fs) (hinv' : FSInvP P offered fs') {pc : PC Hsh}
    (hfd : ∀ g, fdOf pc = some g → some g ≠ f ∧ g < fs.nextFd) (hL : LocalC P id s fs pc) :
    LocalC P id s fs' pc := by
  have hw : ∀ fd rest, some fd ≠ f → fd < fs.nextFd → WStC P s fs fd rest → WStC P s fs' fd rest := by
    intro fd rest h1 h2 ⟨o, nd, g1, g2, g3, g4, g5⟩
    obtain ⟨nd', k1, k2⟩ := hm.inodes _ _ g3
    have hp : nd.data <+: s.data1 := hinv.2 _ _ _ (by simp) g2 g3 s.data1 hoff rfl
    have hp' : nd'.data <+: s.data1 := hinv'.2 _ _ _ (by simp) (hm.names _ _ g2) k1 s.data1 hoff rfl
    refine ⟨o, nd', by rw [hm.fds fd h1 h2]; exact g1, hm.names _ _ g2, k1, by omega, ?_⟩
    rw [← g5]; congr 1
    rw [List.prefix_iff_eq_take.mp hp, List.prefix_iff_eq_take.mp hp']
    simp only [List.take_take, List.length_take]
    congr 1
    have := prefix_length_le hp; have := prefix_length_le hp'
    omega
  cases pc <;> simp only [LocalC] at hL ⊢ <;> simp only [fdOf] at hfd <;> try exact hL
  case pWrite fd rest => exact ⟨hL.1, hL.2.1, hw _ _ (hfd fd rfl).1 (hfd fd rfl).2 hL.2.2⟩
  case pCommit fd ck => exact ⟨hL.1, hL.2.1, hw _ _ (hfd fd rfl).1 (hfd fd rfl).2 hL.2.2⟩
  case pClose fd =>
    obtain ⟨o, h⟩ := hL
    exact ⟨o, by rw [hm.fds fd (hfd fd rfl).1 (hfd fd rfl).2]; exact h⟩
  case iWrite fd =>
    obtain ⟨o, h1, h2, h3⟩ := hL
    exact ⟨o, by rw [hm.fds fd (hfd fd rfl).1 (hfd fd rfl).2]; exact h1, h2, hm.names _ _ h3⟩
  case iTrunc fd =>
    obtain ⟨o, nd, h1, h2, h3, h4⟩ := hL
    obtain ⟨nd', k1, k2⟩ := hm.inodes _ _ h3
    refine ⟨o, nd', by rw [hm.fds fd (hfd fd rfl).1 (hfd fd rfl).2]; exact h1, hm.names _ _ h2, k1, ?_⟩
    rcases hinv'.2 _ _ _ (by simp) (hm.names _ _ h2) k1 with h0 | ⟨c, t, hc, hcd⟩
    · rw [h0] at k2; simp [Gen.CachePut.entrySize] at h4 k2; rw [k2] at h4; simp at h4
    · rw [hcd]; exact hy.encLen id c t hc
  case iClose fd err =>
    obtain ⟨he, o, h⟩ := hL
    exact ⟨he, o, by rw [hm.fds fd (hfd fd rfl).1 (hfd fd rfl).2]; exact h⟩

/-- the system calls of a fault-free writer never remove, truncate or shrink a file. -/
theorem put_safe (hy : Hyps P offered) (hoff : offered s.data1) {pc : PC Hsh} (hL : LocalC P id s fs pc) :
    SafeSys fs (sysOf P now n (.put id s) pc) := by
  cases pc <;> simp only [LocalC] at hL <;> simp only [sysOf, SafeSys, Gen.CachePut.indexOpenTrunc]
  case pOpen trunc => exact hL
  case iTrunc fd =>
    obtain ⟨o, nd, h1, h2, h3, h4⟩ := hL
    intro o' nd' g1 g2
    rw [h1] at g1; cases g1
    rw [h3] at g2; cases g2
    have e2 : (P.enc id (putOut P s) s.size now).length = Gen.CachePut.entrySize := hy.encLen id s.data1 now hoff
    rw [e2, h4]; exact Nat.le_refl _
  all_goals first | exact hL.elim | trivial

end GIV.CachePut
