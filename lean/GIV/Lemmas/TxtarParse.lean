/-
  GIV.Lemmas.TxtarParse — marker lines, well-formed archives, and the parse/format lemmas:
  totality, `parse (format a) = a` for well-formed `a`, and well-formedness of parse's output.
-/
import GIV.Lemmas.TxtarMarker
namespace GIV.Txtar
open GIV

/-! ### marker lines -/

/-- `l` is recognised as a file marker line (with a non-empty name). -/
def MarkerLine (l : Line) : Prop := ∃ n, markerName l = some n ∧ n ≠ []

def isMarkerLine (l : Line) : Bool :=
  match markerName l with
  | some n => !n.isEmpty
  | none => false

theorem markerLine_iff (l : Line) : MarkerLine l ↔ isMarkerLine l = true := by
  unfold MarkerLine isMarkerLine
  cases h : markerName l with
  | none => simp
  | some n => simp

instance : DecidablePred MarkerLine := fun l => decidable_of_iff _ (markerLine_iff l).symm

/-- the byte string contains a file marker line. -/
def HasMarkerLine (d : Bytes) : Prop := ∃ l ∈ splitLines d, MarkerLine l

instance (d : Bytes) : Decidable (HasMarkerLine d) := by unfold HasMarkerLine; infer_instance

theorem not_markerLine_iff [FLen] {l : Line} : ¬ MarkerLine l ↔ markerName l = some [] := by
  obtain ⟨n, hn⟩ := markerName_total l
  unfold MarkerLine
  rw [hn]
  simp

theorem markerLine_nl [FLen] [FCR] [FLit] (b : Bytes) (nl : Bool) : MarkerLine ⟨b, nl⟩ ↔ MarkerLine ⟨b, true⟩ := by
  unfold MarkerLine
  rw [markerName_nl]

/-- comment / file data as `Parse` produces it: empty or newline-terminated, no marker line. -/
def BodyOK (b : Bytes) : Prop := (b = [] ∨ b.getLast? = some NL) ∧ ¬ HasMarkerLine b

instance (b : Bytes) : Decidable (BodyOK b) := by unfold BodyOK; infer_instance

theorem bodyOK_nil : BodyOK [] := by
  refine ⟨Or.inl rfl, ?_⟩
  simp [HasMarkerLine, splitLines_nil]

theorem bodyOK_fixNL {b : Bytes} (h : BodyOK b) : fixNL b = b := fixNL_of_ends h.1

theorem bodyOK_snoc [FLen] [FCR] [FLit] {acc body : Bytes} {nl : Bool} (h : BodyOK acc) (hb : NL ∉ body)
    (hm : ¬ MarkerLine ⟨body, nl⟩) : BodyOK (acc ++ body ++ [NL]) := by
  refine ⟨Or.inr (by simp), ?_⟩
  rintro ⟨l, hl, hml⟩
  rw [List.append_assoc, splitLines_append h.1] at hl
  have : splitLines (body ++ [NL]) = [⟨body, true⟩] := by
    rw [splitLines_line_nl [] hb, splitLines_nil]
  rw [this] at hl
  rcases List.mem_append.mp hl with hl | hl
  · exact h.2 ⟨l, hl, hml⟩
  · simp only [List.mem_singleton] at hl
    subst hl
    exact hm ((markerLine_nl body nl).mpr hml)

/-- invariant for the accumulator of `parseLines`/`parseFiles` in front of the remaining lines. -/
def AccOK (ls : List Line) (acc : Bytes) : Prop :=
  if ls = [] then BodyOK (fixNL acc) else BodyOK acc

theorem accOK_nil_acc (ls : List Line) : AccOK ls [] := by
  unfold AccOK
  split
  · rw [fixNL_nil]; exact bodyOK_nil
  · exact bodyOK_nil

theorem accOK_step [FLen] [FCR] [FLit] {l : Line} {rest : List Line} {acc : Bytes} (hok : LinesOK (l :: rest))
    (h : BodyOK acc) (hm : ¬ MarkerLine l) : AccOK rest (acc ++ l.bytes) := by
  obtain ⟨h1, h2, h3, _⟩ := LinesOK_cons hok
  obtain ⟨body, nl⟩ := l
  have key := bodyOK_snoc h h1 hm
  unfold AccOK
  cases nl with
  | true =>
    simp only [Line.bytes, if_true, ← List.append_assoc]
    split
    · rw [bodyOK_fixNL key]; exact key
    · exact key
  | false =>
    have : rest = [] := by
      by_cases e : rest = []
      · exact e
      · simpa using h2 e
    subst this
    simp only [Line.bytes, Bool.false_eq_true, if_false, if_true]
    have hne : body ≠ [] := h3 rfl
    rw [fixNL_of_not_ends (by simp [hne])]
    · exact key
    · intro e
      rw [List.getLast?_append] at e
      cases hb : body.getLast? with
      | none => exact hne (List.getLast?_eq_none_iff.mp hb)
      | some x =>
        rw [hb] at e
        simp only [Option.some_or, Option.some.injEq] at e
        subst e
        exact h1 (List.mem_of_getLast? hb)

end GIV.Txtar
namespace GIV.Txtar
open GIV

/-! ### totality -/

theorem parseFiles_total [FLen] (ls : List Line) (name acc : Bytes) : ∃ fs, parseFiles ls name acc = some fs := by
  induction ls generalizing name acc with
  | nil => exact ⟨_, rfl⟩
  | cons l rest ih =>
    obtain ⟨n, hn⟩ := markerName_total l
    simp only [parseFiles, hn]
    split
    · split
      · obtain ⟨fs, h⟩ := ih n []
        simp [h]
      · simp
    · exact ih _ _

theorem parseLines_total [FLen] (ls : List Line) (acc : Bytes) : ∃ a, parseLines ls acc = some a := by
  induction ls generalizing acc with
  | nil => exact ⟨_, rfl⟩
  | cons l rest ih =>
    obtain ⟨n, hn⟩ := markerName_total l
    simp only [parseLines, hn]
    split
    · split
      · obtain ⟨fs, h⟩ := parseFiles_total rest n []
        simp [h]
      · simp
    · exact ih _

theorem findFM_total [FLen] (ls : List Line) (acc : Bytes) : ∃ f, findFM ls acc = some f := by
  induction ls generalizing acc with
  | nil => exact ⟨_, rfl⟩
  | cons l rest ih =>
    obtain ⟨n, hn⟩ := markerName_total l
    simp only [findFM, hn]
    split
    · exact ⟨_, rfl⟩
    · exact ih _

/-! ### skipping non-marker lines -/

theorem parseFiles_skip [FLen] {ls : List Line} (h : ∀ l ∈ ls, ¬ MarkerLine l) (rest : List Line)
    (name acc : Bytes) : parseFiles (ls ++ rest) name acc = parseFiles rest name (acc ++ joinLines ls) := by
  induction ls generalizing acc with
  | nil => simp [joinLines]
  | cons l ls ih =>
    have hl := not_markerLine_iff.mp (h l (by simp))
    simp only [List.cons_append, parseFiles, hl, ne_eq, not_true_eq_false, if_false]
    rw [ih (fun l' hl' => h l' (by simp [hl'])), joinLines_cons, List.append_assoc]

theorem parseLines_skip [FLen] {ls : List Line} (h : ∀ l ∈ ls, ¬ MarkerLine l) (rest : List Line)
    (acc : Bytes) : parseLines (ls ++ rest) acc = parseLines rest (acc ++ joinLines ls) := by
  induction ls generalizing acc with
  | nil => simp [joinLines]
  | cons l ls ih =>
    have hl := not_markerLine_iff.mp (h l (by simp))
    simp only [List.cons_append, parseLines, hl, ne_eq, not_true_eq_false, if_false]
    rw [ih (fun l' hl' => h l' (by simp [hl'])), joinLines_cons, List.append_assoc]

/-! ### well-formed archives -/

def FileOK (f : File) : Prop := NameOK f.name ∧ BodyOK f.data

instance (f : File) : Decidable (FileOK f) := by unfold FileOK; infer_instance

def WF (a : Archive) : Prop := BodyOK a.comment ∧ ∀ f ∈ a.files, FileOK f

instance (a : Archive) : Decidable (WF a) := by unfold WF; infer_instance

/-- one file entry of `format`. -/
def fmtFile (f : File) : Bytes := marker ++ f.name ++ markerEnd ++ [NL] ++ fixNL f.data

theorem format_eq (a : Archive) : format a = fixNL a.comment ++ a.files.flatMap fmtFile := rfl

theorem nl_not_mem_markerLine [FLit] {n : Bytes} (h : NL ∉ n) : NL ∉ marker ++ n ++ markerEnd := by
  simp [marker_eq, markerEnd_eq, NL]
  exact h

theorem splitLines_fmtFile [FLit] {f : File} (hf : FileOK f) (rest : Bytes) :
    splitLines (fmtFile f ++ rest) =
      ⟨marker ++ f.name ++ markerEnd, true⟩ :: splitLines (f.data ++ rest) := by
  unfold fmtFile
  rw [bodyOK_fixNL hf.2]
  have : marker ++ f.name ++ markerEnd ++ [NL] ++ f.data ++ rest
      = (marker ++ f.name ++ markerEnd) ++ NL :: (f.data ++ rest) := by simp
  rw [this, splitLines_line_nl _ (nl_not_mem_markerLine hf.1.2.2)]

theorem parseFiles_format [FLen] [FLit] (fs : List File) (hfs : ∀ f ∈ fs, FileOK f) (n data : Bytes)
    (hd : BodyOK data) :
    parseFiles (splitLines (data ++ fs.flatMap fmtFile)) n [] = some (⟨n, data⟩ :: fs) := by
  induction fs generalizing n data with
  | nil =>
    simp only [List.flatMap_nil, List.append_nil]
    have := parseFiles_skip (ls := splitLines data) (fun l hl hm => hd.2 ⟨l, hl, hm⟩) [] n []
    simp only [List.append_nil, List.nil_append, joinLines_splitLines] at this
    rw [this, parseFiles, bodyOK_fixNL hd]
  | cons f fs ih =>
    have hf := hfs f (by simp)
    rw [List.flatMap_cons, splitLines_append hd.1, splitLines_fmtFile hf,
      parseFiles_skip (fun l hl hm => hd.2 ⟨l, hl, hm⟩)]
    simp only [List.nil_append, joinLines_splitLines, parseFiles, markerName_fmt hf.1.2.1]
    rw [if_pos hf.1.1]
    simp only [if_true]
    rw [ih (fun f' hf' => hfs f' (by simp [hf'])) f.name f.data hf.2]
    rfl

theorem parse_format_of_wf [FLen] [FLit] {a : Archive} (h : WF a) : parse (format a) = some a := by
  obtain ⟨c, fs⟩ := a
  obtain ⟨hc, hfs⟩ := h
  simp only at hc hfs
  unfold parse
  rw [format_eq]
  simp only
  rw [bodyOK_fixNL hc, splitLines_append hc.1]
  rw [parseLines_skip (fun l hl hm => hc.2 ⟨l, hl, hm⟩)]
  simp only [List.nil_append, joinLines_splitLines]
  cases fs with
  | nil =>
    simp only [List.flatMap_nil, splitLines_nil, parseLines, bodyOK_fixNL hc]
  | cons f fs =>
    have hf := hfs f (by simp)
    rw [List.flatMap_cons, splitLines_fmtFile hf]
    simp only [parseLines, markerName_fmt hf.1.2.1]
    rw [if_pos hf.1.1]
    simp only [if_true]
    rw [parseFiles_format fs (fun f' hf' => hfs f' (by simp [hf'])) f.name f.data hf.2]
    rfl

end GIV.Txtar
namespace GIV.Txtar
open GIV

/-! ### the output of `parse` is well-formed -/

theorem parseFiles_wf [FLen] [FCR] [FLit] {ls : List Line} {name acc : Bytes} {fs : List File} (hok : LinesOK ls)
    (hn : NameOK name) (hacc : AccOK ls acc) (h : parseFiles ls name acc = some fs) :
    ∀ f ∈ fs, FileOK f := by
  induction ls generalizing name acc fs with
  | nil =>
    simp only [parseFiles, Option.some.injEq] at h
    subst h
    simp only [AccOK, if_true] at hacc
    simpa [FileOK] using ⟨hn, hacc⟩
  | cons l rest ih =>
    have hacc' : BodyOK acc := by simpa [AccOK] using hacc
    obtain ⟨h1, _, _, hrest⟩ := LinesOK_cons hok
    obtain ⟨n, hmn⟩ := markerName_total l
    simp only [parseFiles, hmn] at h
    split at h
    · rename_i hne
      have hn' := markerName_name_ok hmn hne h1
      split at h
      · cases hp : parseFiles rest n [] with
        | none => simp [hp] at h
        | some fs' =>
          simp only [hp, Option.map_some, Option.some.injEq] at h
          subst h
          intro f hf
          rcases List.mem_cons.mp hf with rfl | hf
          · exact ⟨hn, hacc'⟩
          · exact ih hrest hn' (accOK_nil_acc _) hp f hf
      · simp only [Option.map_some, Option.some.injEq] at h
        subst h
        intro f hf
        simp only [List.mem_cons, List.not_mem_nil, or_false] at hf
        rcases hf with rfl | rfl
        · exact ⟨hn, hacc'⟩
        · exact ⟨hn', bodyOK_nil⟩
    · rename_i hne
      have hne : n = [] := by simpa using hne
      subst hne
      exact ih hrest hn (accOK_step hok hacc' (not_markerLine_iff.mpr hmn)) h

theorem parseLines_wf [FLen] [FCR] [FLit] {ls : List Line} {acc : Bytes} {a : Archive} (hok : LinesOK ls)
    (hacc : AccOK ls acc) (h : parseLines ls acc = some a) : WF a := by
  induction ls generalizing acc a with
  | nil =>
    simp only [parseLines, Option.some.injEq] at h
    subst h
    simp only [AccOK, if_true] at hacc
    exact ⟨hacc, by simp⟩
  | cons l rest ih =>
    have hacc' : BodyOK acc := by simpa [AccOK] using hacc
    obtain ⟨h1, _, _, hrest⟩ := LinesOK_cons hok
    obtain ⟨n, hmn⟩ := markerName_total l
    simp only [parseLines, hmn] at h
    split at h
    · rename_i hne
      have hn' := markerName_name_ok hmn hne h1
      split at h
      · cases hp : parseFiles rest n [] with
        | none => simp [hp] at h
        | some fs' =>
          simp only [hp, Option.map_some, Option.some.injEq] at h
          subst h
          exact ⟨hacc', parseFiles_wf hrest hn' (accOK_nil_acc _) hp⟩
      · simp only [Option.map_some, Option.some.injEq] at h
        subst h
        refine ⟨hacc', ?_⟩
        intro f hf
        simp only [List.mem_singleton] at hf
        subst hf
        exact ⟨hn', bodyOK_nil⟩
    · rename_i hne
      have hne : n = [] := by simpa using hne
      subst hne
      exact ih hrest (accOK_step hok hacc' (not_markerLine_iff.mpr hmn)) h

theorem parse_wf [FLen] [FCR] [FLit] {d : Bytes} {a : Archive} (h : parse d = some a) : WF a :=
  parseLines_wf (splitLines_ok d) (accOK_nil_acc _) h

end GIV.Txtar
