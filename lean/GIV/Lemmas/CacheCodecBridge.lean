/-
  GIV.Lemmas.CacheCodecBridge — C11, the torn-read corner for the REAL index-entry codec of
  /repo/cache/cache.go: the codec of `GIV.Model.Cache` (`fmtEntry` = `fmt.Sprintf("v1 %x %x %20d %20d\n", …)`
  through the regenerated format string, `parseEntry` = the body of `get`) IS a codec with fixed field
  positions in the sense of `GIV.CachePut.FixedFields` (`realF`), for

    * sizes `size < 2^63`                                     (`OkSize`; what `strconv.ParseInt(_, 10, 64)` accepts)
    * time stamps `10^18 ≤ t < 9·10^18` nanoseconds            (`OkTime`; 19 decimal digits, the first one 1 … 8:
      2001-09-09T01:46:40Z ≤ t < 2255-03-14T16:00:00Z; `%20d` writes one space and the 19 digits).

  Consequently (`real_mix_parse_same`) any byte-wise mixture of two real entries with equal (id, output, size)
  is accepted by the real `parseEntry` with that (output, size), and a time stamp in the same window.

  Core Lean only.
-/
import GIV.Lemmas.CachePutMix
import GIV.Lemmas.CacheParse

namespace GIV.CacheBridge
open GIV GIV.Cache GIV.CachePut

/-! ### `%20d` of a 19-digit number -/

theorem lead_digit_aux : ∀ n : Nat, n < 9 → 1 ≤ n → (49 : UInt8) ≤ 48 + n.toUInt8 ∧ 48 + n.toUInt8 ≤ 56 := by decide

theorem lead_digit (n : Nat) (h0 : 1 ≤ n) (h1 : n < 9) : (49 : UInt8) ≤ 48 + n.toUInt8 ∧ 48 + n.toUInt8 ≤ 56 :=
  lead_digit_aux n h1 h0

/-- a number with `k+1` digits whose leading digit is 1 … 8: `decimal` writes that leading digit and `k` more. -/
theorem decimal_lead (k : Nat) : ∀ n, 10 ^ k ≤ n → n < 9 * 10 ^ k →
    ∃ c r, decimal n = c :: r ∧ (49 : UInt8) ≤ c ∧ c ≤ 56 ∧ r.length = k := by
  induction k with
  | zero =>
    intro n h0 h1
    simp only [Nat.pow_zero, Nat.mul_one] at h0 h1
    rw [decimal, if_pos (by omega)]
    exact ⟨_, [], rfl, (lead_digit n h0 h1).1, (lead_digit n h0 h1).2, rfl⟩
  | succ k ih =>
    intro n h0 h1
    rw [Nat.pow_succ] at h0 h1
    have hk : 1 ≤ 10 ^ k := Nat.pow_pos (by decide)
    have h10 : ¬ n < 10 := by omega
    obtain ⟨c, r, hcr, hc1, hc2, hr⟩ := ih (n / 10) (by omega) (by omega)
    rw [decimal, if_neg h10, hcr]
    exact ⟨c, r ++ [48 + (n % 10).toUInt8], rfl, hc1, hc2, by simp [hr]⟩

/-- the time stamps whose `%20d` field is one space and 19 digits with a leading digit ≤ 8:
`10^18 ≤ t < 9·10^18` ns, i.e. from 2001-09-09T01:46:40Z up to (excluding) 2255-03-14T16:00:00Z. -/
def OkTime (t : Int) : Prop := 10 ^ 18 ≤ t ∧ t < 9 * 10 ^ 18

/-- the sizes `get` accepts: below `2^63`. -/
def OkSize (size : Nat) : Prop := size < 2 ^ 63

/-- the digits of a time stamp. -/
def timeDigits (t : Int) : Bytes := decimal t.toNat

theorem timeDigits_lead (t : Int) (h : OkTime t) :
    ∃ c r, timeDigits t = c :: r ∧ (49 : UInt8) ≤ c ∧ c ≤ 56 ∧ r.length = 18 :=
  decimal_lead 18 t.toNat (by have := h.1; omega) (by have := h.2; omega)

theorem timeDigits_ok (t : Int) (h : OkTime t) : TimeDigits (timeDigits t) := by
  obtain ⟨c, r, hcr, hc1, hc2, hr⟩ := timeDigits_lead t h
  refine ⟨by rw [hcr]; simp [hr], fun b hb => decimal_digits _ b hb, fun b hb => ?_⟩
  rw [hcr] at hb
  simp only [List.head?_cons, Option.some.injEq] at hb
  subst hb
  refine ⟨?_, hc2⟩
  rw [UInt8.le_iff_toNat_le] at hc1 ⊢
  exact Nat.le_trans (by decide) hc1

/-- `%20d` of such a time stamp: one space, then its 19 digits. -/
theorem pad20_time (t : Int) (h : OkTime t) : padLeft 20 (fmtInt t) = 32 :: timeDigits t := by
  obtain ⟨c, r, hcr, _, _, hr⟩ := timeDigits_lead t h
  rw [fmtInt_nonneg t (by have := h.1; omega)]
  unfold timeDigits at hcr ⊢
  rw [hcr]
  simp [padLeft, hr]

/-! ### `strconv.ParseInt` on 19 arbitrary digits -/

theorem digitVal_of_digit (c : UInt8) (h : IsDigit c) : digitVal? c = some (c.toNat - 48) ∧ c.toNat - 48 < 10 := by
  obtain ⟨h1, h2⟩ := h
  refine ⟨by simp [digitVal?, h1, h2], ?_⟩
  rw [UInt8.le_iff_toNat_le] at h2
  have : (57 : UInt8).toNat = 57 := rfl
  omega

/-- `ParseUint` accepts any string of digits, and the value is squeezed by the accumulator. -/
theorem parseDigits_digits (ds : Bytes) : ∀ acc : Nat, (∀ b, b ∈ ds → IsDigit b) →
    ∃ v, parseDigits 10 ds acc = some v ∧ acc * 10 ^ ds.length ≤ v ∧ v < (acc + 1) * 10 ^ ds.length := by
  induction ds with
  | nil => intro acc _; exact ⟨acc, rfl, by simp, by simp⟩
  | cons c r ih =>
    intro acc hd
    obtain ⟨hv, hlt⟩ := digitVal_of_digit c (hd c (by simp))
    obtain ⟨v, hp, hlo, hhi⟩ := ih (acc * 10 + (c.toNat - 48)) (fun b hb => hd b (by simp [hb]))
    refine ⟨v, by simp [parseDigits, hv, hlt, hp], ?_, ?_⟩
    · refine Nat.le_trans ?_ hlo
      rw [List.length_cons, Nat.pow_succ, Nat.mul_comm (10 ^ r.length) 10, ← Nat.mul_assoc]
      exact Nat.mul_le_mul_right _ (by omega)
    · refine Nat.lt_of_lt_of_le hhi ?_
      rw [List.length_cons, Nat.pow_succ, Nat.mul_comm (10 ^ r.length) 10, ← Nat.mul_assoc]
      exact Nat.mul_le_mul_right _ (by omega)

/-- 19 digits with a leading digit ≤ 8 denote a number below `9·10^18`; if the leading digit is not 0, at least `10^18`. -/
theorem parseDigits_time (ds : Bytes) (h : TimeDigits ds) :
    ∃ v, parseDigits 10 ds 0 = some v ∧ v < 9 * 10 ^ 18 ∧ ((∀ b, ds.head? = some b → 49 ≤ b) → 10 ^ 18 ≤ v) := by
  obtain ⟨hl, hd, hh⟩ := h
  match ds, hl, hd, hh with
  | c :: r, hl, hd, hh =>
    have hr : r.length = 18 := by simpa using hl
    obtain ⟨hv, hlt⟩ := digitVal_of_digit c (hd c (by simp))
    obtain ⟨v, hp, hlo, hhi⟩ := parseDigits_digits r (c.toNat - 48) (fun b hb => hd b (by simp [hb]))
    have hc8 := (hh c rfl).2
    rw [UInt8.le_iff_toNat_le] at hc8
    have h56 : (56 : UInt8).toNat = 56 := rfl
    rw [hr] at hlo hhi
    refine ⟨v, by simp [parseDigits, hv, hlt, hp], ?_, fun h1 => ?_⟩
    · refine Nat.lt_of_lt_of_le hhi (Nat.mul_le_mul_right _ (by omega))
    · have := h1 c rfl
      rw [UInt8.le_iff_toNat_le] at this
      have h49 : (49 : UInt8).toNat = 49 := rfl
      refine Nat.le_trans ?_ hlo
      calc 10 ^ 18 = 1 * 10 ^ 18 := by omega
        _ ≤ (c.toNat - 48) * 10 ^ 18 := Nat.mul_le_mul_right _ (by omega)

/-- the time field `' ' ++ 19 digits` under `strconv.ParseInt(strings.TrimLeft(_, " "), 10, 64)`. -/
theorem parse_timeField (ds : Bytes) (h : TimeDigits ds) :
    ∃ tm : Int, parseInt 10 64 (skipSpaces (32 :: ds)) = some tm ∧ 0 ≤ tm ∧ tm < 9 * 10 ^ 18 ∧
      ((∀ b, ds.head? = some b → 49 ≤ b) → 10 ^ 18 ≤ tm) := by
  obtain ⟨v, hp, hv, hlo⟩ := parseDigits_time ds h
  obtain ⟨hl, hd, hh⟩ := h
  match ds, hl, hd, hh, hp, hlo with
  | c :: r, _, hd, _, hp, hlo =>
    obtain ⟨h1, _⟩ := hd c (by simp)
    have hc32 : c ≠ 32 := by intro h; subst h; exact absurd h1 (by decide)
    have hc43 : c ≠ 43 := by intro h; subst h; exact absurd h1 (by decide)
    have hc45 : c ≠ 45 := by intro h; subst h; exact absurd h1 (by decide)
    refine ⟨(v : Int), ?_, by omega, by omega, fun h => by have := hlo h; omega⟩
    have hsk : skipSpaces (32 :: c :: r) = c :: r := by simp [skipSpaces, hc32]
    rw [hsk]
    simp only [parseInt, hc43, hc45, or_self, if_false, decide_false, hp]
    have : ¬ (v ≥ 2 ^ (64 - 1)) := by simp; omega
    simp [this]

/-! ### the real codec as `Params` / `FixedFields` -/

/-- the real codec of `cache.go` (model `GIV.Model.Cache`) as parameters of the system-call-level model:
`enc` = `fmtEntry`, `parse` = `parseEntry` restricted to the (output, size) it returns.  `H` is any hash function. -/
def realP (H : Bytes → Hash) : Params Hash Hash where
  H := H
  enc := fun id out size t => fmtEntry id out (size : Int) t
  parse := fun id data =>
    match parseEntry id data with
    | .ok e => some ⟨e.out, e.size.toNat⟩
    | .error _ => none

/-- everything before the time field: `"v1 " id " " out " " %20d(size) " "`. -/
def realPre (id out : Hash) (size : Nat) : Bytes :=
  [118, 49, 32] ++ hexEncode id.val ++ [32] ++ hexEncode out.val ++ [32] ++ padLeft 20 (fmtInt (size : Int)) ++ [32]

theorem realPre_shape (id out : Hash) (size : Nat) (ft : Bytes) :
    realPre id out size ++ ft ++ [10] =
      [118, 49, 32] ++ (hexEncode id.val ++ (32 :: (hexEncode out.val ++ (32 :: (padLeft 20 (fmtInt (size : Int)) ++ (32 :: (ft ++ [10]))))))) := by
  simp [realPre, List.append_assoc]

/-- a real entry with an `OkTime` time stamp has the fixed-field shape. -/
theorem fmtEntry_fixed (id out : Hash) (size : Nat) (t : Int) (h : OkTime t) :
    fmtEntry id out (size : Int) t = realPre id out size ++ (32 :: timeDigits t) ++ [10] := by
  rw [realPre_shape, fmtEntry_eq, pad20_time t h]

/-- `parseEntry` (the real `get`) accepts ANY 19 digits with leading digit ≤ 8 in the time field. -/
theorem parseEntry_anyTime (id out : Hash) (size : Nat) (ds : Bytes) (hs : OkSize size) (hd : TimeDigits ds) :
    ∃ tm : Int, parseEntry id (realPre id out size ++ (32 :: ds) ++ [10]) = .ok ⟨out, (size : Int), tm⟩ ∧
      0 ≤ tm ∧ tm < 9 * 10 ^ 18 ∧ ((∀ b, ds.head? = some b → 49 ≤ b) → 10 ^ 18 ≤ tm) := by
  obtain ⟨tm, hp, h0, h1, h2⟩ := parse_timeField ds hd
  have hs' : (size : Int) < 2 ^ 63 := by unfold OkSize at hs; omega
  refine ⟨tm, ?_, h0, h1, h2⟩
  rw [realPre_shape]
  exact parseEntry_of_fields id out _ _ _ _ (size : Int) tm (Hash.hex_length id) (Hash.hex_length out)
    (decodeHash_hexEncode id) (decodeHash_hexEncode out)
    (pad20_length _ (by omega) (by omega)) (by simp [hd.1])
    (parse_pad20 _ (by omega) hs') hp (by omega) h0

/-- **the real codec of cache.go is a codec with fixed field positions.** -/
def realF (H : Bytes → Hash) : FixedFields (realP H) where
  pre := realPre
  post := [10]
  digits := timeDigits
  okTime := OkTime
  okSize := OkSize
  enc_eq := fun id out size t h => fmtEntry_fixed id out size t h
  digits_ok := timeDigits_ok
  parse_any := fun id out size ds hs hd => by
    obtain ⟨tm, hp, _⟩ := parseEntry_anyTime id out size ds hs hd
    simp only [realP, hp, Int.toNat_natCast]

/-! ### the corollary for the real codec -/

/-- the instance of `mix_parse_same`: the (output, size) a torn read of the real entry parses to. -/
theorem real_mix_parse_some (H : Bytes → Hash) (id out : Hash) (size : Nat) (t1 t2 : Int)
    (hs : OkSize size) (h1 : OkTime t1) (h2 : OkTime t2) {m : Bytes}
    (hm : Mixture m (fmtEntry id out (size : Int) t1) (fmtEntry id out (size : Int) t2)) :
    (realP H).parse id m = some ⟨out, size⟩ :=
  mix_parse_same (realF H) id out size t1 t2 hs h1 h2 hm

/-- a mixture of two fixed-field strings differing only in the 19 digits is again such a string. -/
theorem mixture_fields {pre post d1 d2 m : Bytes} (h1 : d1.length = d2.length)
    (hm : Mixture m (pre ++ (32 :: d1) ++ post) (pre ++ (32 :: d2) ++ post)) :
    ∃ ds, m = pre ++ (32 :: ds) ++ post ∧ Mixture ds d1 d2 := by
  rw [List.append_assoc, List.append_assoc] at hm
  obtain ⟨m1, rfl, hm1⟩ := mixture_append_left hm
  obtain ⟨m2, rfl, hm2⟩ := mixture_split (a := 32 :: d1) (b := 32 :: d2) (by simp [h1]) hm1
  obtain ⟨m3, rfl, hm3⟩ := mixture_append_left (p := [32]) (a := d1) (b := d2) (by simpa using hm2)
  exact ⟨m3, by simp [List.append_assoc], hm3⟩

/-- **real_mix_parse_same**: the real `get` (`parseEntry`) applied to ANY byte-wise mixture of two real index
entries `fmt.Sprintf("v1 %x %x %20d %20d\n", id, out, size, t)` with equal (id, out, size), `size < 2^63`, and
time stamps in `[10^18, 9·10^18)` ns succeeds with that output and size; the time stamp it reports is
whatever the mixed digits denote, again in `[10^18, 9·10^18)`. -/
theorem real_mix_parse_same (id out : Hash) (size : Nat) (t1 t2 : Int)
    (hs : OkSize size) (h1 : OkTime t1) (h2 : OkTime t2) {m : Bytes}
    (hm : Mixture m (fmtEntry id out (size : Int) t1) (fmtEntry id out (size : Int) t2)) :
    ∃ tm : Int, parseEntry id m = .ok ⟨out, (size : Int), tm⟩ ∧ OkTime tm := by
  rw [fmtEntry_fixed id out size t1 h1, fmtEntry_fixed id out size t2 h2] at hm
  have d1 := timeDigits_ok t1 h1
  have d2 := timeDigits_ok t2 h2
  obtain ⟨ds, rfl, hds⟩ := mixture_fields (by rw [d1.1, d2.1]) hm
  have hd := timeDigits_mixture d1 d2 hds
  obtain ⟨tm, hp, _, hlt, hge⟩ := parseEntry_anyTime id out size ds hs hd
  refine ⟨tm, hp, hge ?_, hlt⟩
  intro b hb
  obtain ⟨c1, r1, e1, hc1, _⟩ := timeDigits_lead t1 h1
  obtain ⟨c2, r2, e2, hc2, _⟩ := timeDigits_lead t2 h2
  have h0 : ds[0]? = some b := by rw [← List.head?_eq_getElem?]; exact hb
  rcases hds.2.2 0 b h0 with h | h
  · rw [e1] at h; simp at h; subst h; exact hc1
  · rw [e2] at h; simp at h; subst h; exact hc2

/-- the shape of a read torn once: the first `k` bytes of one entry, the rest of the other. -/
theorem mixture_take_drop (k : Nat) : ∀ a b : Bytes, a.length = b.length → Mixture (a.take k ++ b.drop k) a b := by
  induction k with
  | zero => intro a b h; exact ⟨by simp [h], h, fun i x hx => Or.inr (by simpa using hx)⟩
  | succ k ih =>
    intro a b h
    match a, b, h with
    | [], [], _ => exact Mixture.nil
    | x :: a, y :: b, h => exact Mixture.cons_a x y (ih a b (by simpa using h))

/-- the window in calendar terms: `10^18` ns = 1 000 000 000 s after the epoch (2001-09-09T01:46:40Z),
`9·10^18` ns = 9 000 000 000 s = 104166 days + 16 h after the epoch (2255-03-14T16:00:00Z); both below `2^63`. -/
theorem okTime_window : (10 : Int) ^ 18 = 1000000000 * 10 ^ 9 ∧ (9 : Int) * 10 ^ 18 = (104166 * 86400 + 16 * 3600) * 10 ^ 9 ∧
    (9 : Int) * 10 ^ 18 < 2 ^ 63 := by decide

end GIV.CacheBridge
