/-
  GIV.Lemmas.CacheCodec — hex / decimal / ParseInt / padding lemmas (no index-codec facts: only HashSize),
  for GIV.Props.C05 and C13.  Core Lean only.
-/
import GIV.Model.Cache

namespace GIV.Cache
open GIV

/-! ### hex -/

set_option maxRecDepth 100000 in
theorem hexByte_aux : ∀ n : Nat, n < 256 →
    fromHexChar (hexDigit ((UInt8.ofNat n) >>> 4)) = some ((UInt8.ofNat n) >>> 4) ∧
    fromHexChar (hexDigit ((UInt8.ofNat n) &&& 15)) = some ((UInt8.ofNat n) &&& 15) ∧
    ((((UInt8.ofNat n) >>> 4) <<< 4) ||| ((UInt8.ofNat n) &&& 15)) = UInt8.ofNat n := by
  decide

theorem hexByte (b : UInt8) :
    fromHexChar (hexDigit (b >>> 4)) = some (b >>> 4) ∧
    fromHexChar (hexDigit (b &&& 15)) = some (b &&& 15) ∧
    (((b >>> 4) <<< 4) ||| (b &&& 15)) = b := by
  have h := hexByte_aux b.toNat (UInt8.toNat_lt b)
  simpa using h

/-- `hex.Decode` inverts `%x`. -/
theorem hexDecode_hexEncode (b : Bytes) : hexDecode (hexEncode b) = some b := by
  induction b with
  | nil => rfl
  | cons x r ih =>
    obtain ⟨h1, h2, h3⟩ := hexByte x
    simp [hexEncode, hexDecode, h1, h2, h3, ih]

theorem hexEncode_length (b : Bytes) : (hexEncode b).length = 2 * b.length := by
  induction b with
  | nil => rfl
  | cons x r ih => simp [hexEncode, ih]; omega

theorem hexEncode_injective {a b : Bytes} (h : hexEncode a = hexEncode b) : a = b := by
  have := congrArg hexDecode h
  simpa [hexDecode_hexEncode] using this

theorem hexEncode_append (a b : Bytes) : hexEncode (a ++ b) = hexEncode a ++ hexEncode b := by
  induction a with
  | nil => rfl
  | cons x r ih => simp [hexEncode, ih]

/-- the hex digits `%x` produces are never `/`, `-` or a space. -/
theorem hexDigit_ne (n : UInt8) (hn : n < 16) : hexDigit n ≠ 47 ∧ hexDigit n ≠ 45 ∧ hexDigit n ≠ 32 := by
  have : ∀ k : Nat, k < 16 → hexDigit (UInt8.ofNat k) ≠ 47 ∧ hexDigit (UInt8.ofNat k) ≠ 45 ∧ hexDigit (UInt8.ofNat k) ≠ 32 := by decide
  have h := this n.toNat (by simpa [UInt8.lt_iff_toNat_lt] using hn)
  simpa using h

theorem Hash.hex_length (h : Hash) : (hexEncode h.val).length = 64 := by
  rw [hexEncode_length, h.property]; rfl

theorem decodeHash_hexEncode (h : Hash) : decodeHash (hexEncode h.val) = some (some h) := by
  have hl := h.property
  simp only [decodeHash, hexEncode_length, hexDecode_hexEncode, Hash.ofBytes?]
  simp [hl]

/-! ### decimal digits -/

theorem digitVal_digit : ∀ k : Nat, k < 10 → digitVal? (48 + k.toUInt8) = some k := by decide

theorem digit_range : ∀ k : Nat, k < 10 → (48 : UInt8) ≤ 48 + k.toUInt8 ∧ 48 + k.toUInt8 ≤ 57 := by decide

/-- every byte of `decimal n` is an ASCII digit. -/
theorem decimal_digits (n : Nat) : ∀ c ∈ decimal n, (48 : UInt8) ≤ c ∧ c ≤ 57 := by
  induction n using Nat.strongRecOn with
  | _ n ih =>
    intro c hc
    rw [decimal] at hc
    split at hc
    · simp at hc; subst hc; exact digit_range n (by omega)
    · simp only [List.mem_append, List.mem_singleton] at hc
      rcases hc with hc | hc
      · exact ih (n / 10) (by omega) c hc
      · subst hc; exact digit_range (n % 10) (by omega)

theorem decimal_ne_nil (n : Nat) : decimal n ≠ [] := by
  rw [decimal]; split <;> simp

theorem decimal_length_le (k : Nat) : ∀ n, n < 10 ^ (k + 1) → (decimal n).length ≤ k + 1 := by
  induction k with
  | zero => intro n hn; rw [decimal]; simp at hn; simp [hn]
  | succ k ih =>
    intro n hn
    rw [decimal]
    split
    · simp
    · have : n / 10 < 10 ^ (k + 1) := by
        rw [Nat.div_lt_iff_lt_mul (by decide)]; rw [Nat.pow_succ] at hn; exact hn
      have := ih (n / 10) this
      simp; omega

theorem parseDigits_append (base : Nat) (xs ys : Bytes) (acc : Nat) :
    parseDigits base (xs ++ ys) acc = (parseDigits base xs acc).bind (parseDigits base ys) := by
  induction xs generalizing acc with
  | nil => rfl
  | cons c r ih =>
    simp only [List.cons_append, parseDigits]
    split
    · split
      · exact ih _
      · rfl
    · rfl

/-- `ParseUint` of the decimal digits of `n` (base ten) gives `n` back. -/
theorem parseDigits_decimal (n : Nat) : parseDigits 10 (decimal n) 0 = some n := by
  induction n using Nat.strongRecOn with
  | _ n ih =>
    rw [decimal]
    split
    · rename_i h
      simp [parseDigits, digitVal_digit n h, h]
    · rename_i h
      rw [parseDigits_append, ih (n / 10) (by omega)]
      simp only [Option.bind_some, parseDigits, digitVal_digit (n % 10) (by omega)]
      have : n % 10 < 10 := by omega
      simp [this]; omega

theorem decimal_head (n : Nat) : ∃ c r, decimal n = c :: r ∧ (48 : UInt8) ≤ c ∧ c ≤ 57 := by
  have hne := decimal_ne_nil n
  have hd := decimal_digits n
  match h : decimal n with
  | [] => exact absurd h hne
  | c :: r => exact ⟨c, r, rfl, hd c (by simp [h])⟩

/-- `strconv.ParseInt(decimal n, 10, 64) = n` for `n < 2^63`. -/
theorem parseInt_decimal (n : Nat) (hn : n < 2 ^ 63) : parseInt 10 64 (decimal n) = some (n : Int) := by
  obtain ⟨c, r, hcr, h1, h2⟩ := decimal_head n
  have hp := parseDigits_decimal n
  rw [hcr] at hp
  have hc43 : c ≠ 43 := by intro h; subst h; exact absurd h1 (by decide)
  have hc45 : c ≠ 45 := by intro h; subst h; exact absurd h1 (by decide)
  rw [hcr]
  simp only [parseInt, hc43, hc45, or_self, if_false, decide_false, hp]
  have : ¬ (n ≥ 2 ^ (64 - 1)) := by simp; omega
  simp [this]

theorem fmtInt_nonneg (i : Int) (h : 0 ≤ i) : fmtInt i = decimal i.toNat := by
  have : ¬ i < 0 := by omega
  simp only [fmtInt, this, if_false]
  congr 1
  omega

theorem skipSpaces_replicate (k : Nat) (s : Bytes) : skipSpaces (List.replicate k 32 ++ s) = skipSpaces s := by
  induction k with
  | zero => rfl
  | succ k _ => simp [skipSpaces, List.replicate_succ]

theorem skipSpaces_padLeft_decimal (w n : Nat) : skipSpaces (padLeft w (decimal n)) = decimal n := by
  obtain ⟨c, r, hcr, h1, _⟩ := decimal_head n
  rw [padLeft, skipSpaces_replicate, hcr]
  have : c ≠ 32 := by intro h; subst h; exact absurd h1 (by decide)
  simp [skipSpaces, this]

theorem padLeft_length (w : Nat) (s : Bytes) (h : s.length ≤ w) : (padLeft w s).length = w := by
  simp [padLeft]; omega

/-- a field `%20d` of a number in `[0, 10^20)` is exactly 20 bytes wide. -/
theorem pad20_length (i : Int) (h0 : 0 ≤ i) (h1 : i < 10 ^ 20) : (padLeft 20 (fmtInt i)).length = 20 := by
  apply padLeft_length
  rw [fmtInt_nonneg i h0]
  exact decimal_length_le 19 i.toNat (by omega)

theorem parse_pad20 (i : Int) (h0 : 0 ≤ i) (h1 : i < 2 ^ 63) :
    parseInt 10 64 (skipSpaces (padLeft 20 (fmtInt i))) = some i := by
  rw [fmtInt_nonneg i h0, skipSpaces_padLeft_decimal, parseInt_decimal i.toNat (by omega)]
  congr 1; omega

end GIV.Cache
