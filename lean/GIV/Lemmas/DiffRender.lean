/-
  The rendering layer, in closed form (computed from the regenerated formats).
-/
import GIV.Model.Diff

namespace GIV.Diff
open GIV

/-- "diff o n\n--- o\n+++ n\n" -/
def headerBytes (o n : Bytes) : Bytes :=
  [100, 105, 102, 102, 32] ++ o ++ [32] ++ n ++ [10] ++ [45, 45, 45, 32] ++ o ++ [10] ++ [43, 43, 43, 32] ++ n ++ [10]

theorem renderHeader_eq (o n : Bytes) : renderHeader o n = some (headerBytes o n) := by
  simp [renderHeader, Gen.Diff.fmtHeader, fmtWith, sprintf, headerBytes]

/-- "@@ -hx,cx +hy,cy @@\n" -/
def hunkHeaderBytes {α : Type} (h : Hunk α) : Bytes :=
  [64, 64, 32, 45] ++ fmtInt h.hx ++ [44] ++ fmtInt h.cx ++ [32, 43] ++ fmtInt h.hy ++ [44] ++ fmtInt h.cy ++ [32, 64, 64, 10]

def hunkBytes (h : Hunk Bytes) : Bytes := hunkHeaderBytes h ++ renderBody h.body

theorem renderHunk_eq (h : Hunk Bytes) : renderHunk h = some (hunkBytes h) := by
  simp [renderHunk, Gen.Diff.fmtHunk, fmtWith, sprintf, hunkHeaderBytes, hunkBytes]

theorem mapM_renderHunk (hs : List (Hunk Bytes)) : hs.mapM renderHunk = some (hs.map hunkBytes) := by
  induction hs with
  | nil => rfl
  | cons h hs ih => simp [List.mapM_cons, renderHunk_eq, ih]

theorem render_eq (o n : Bytes) (hs : List (Hunk Bytes)) :
    render o n hs = some (headerBytes o n ++ (hs.map hunkBytes).flatten) := by
  simp [render, renderHeader_eq, mapM_renderHunk]

theorem headerBytes_ne_nil (o n : Bytes) : headerBytes o n ≠ [] := by simp [headerBytes]

theorem tagByte_eq : tagByte .ctx = 32 ∧ tagByte .del = 45 ∧ tagByte .ins = 43 := by decide

end GIV.Diff
