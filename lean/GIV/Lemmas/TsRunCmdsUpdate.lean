/-
  GIV.Lemmas.TsRunCmdsUpdate — what the concrete `cmp` / `cmpenv` do to `ts.scriptUpdates`
  (used by GIV.Props.C16 only; depends on the UpdateScripts facts).
-/
import GIV.Model.ScriptCmds
import GIV.Lemmas.TsRunUpdate

namespace GIV.TsRun.Cmds
open GIV GIV.TsRun GIV.TsRun.Update

/-- what `cmp` / `cmpenv` do to `ts.scriptUpdates`: nothing, or one `record` of the actual content under the
name of the archive entry the second path came from — and then the command ended `ok` -/
theorem doCmdCmp_updates (F : CmpFacts) (p : P) (s : St) (neg : Bool) (args : List Bytes) (env : Bool) :
    (doCmdCmp p s neg args env).1.updates = s.updates ∨
    ∃ name1 name2 text1 abs2 raw2 text2 n,
      args = [name1, name2] ∧ readArg s name1 = .ok text1 ∧ resolve s.cd name2 = some abs2 ∧
      s.fs.read abs2 = some raw2 ∧
      doCmp ⟨p.updateScripts, env, neg, text1, text2, s.scriptFiles.lookup abs2⟩ = .recorded n text1 ∧
      doCmdCmp p s neg args env = ({ s with updates := record s.updates n text1 }, .ok) := by
  unfold doCmdCmp
  split
  · rename_i name1 name2
    split
    · left; rfl
    · split
      · left; rfl
      · left; rfl
      · rename_i text1 h1
        split
        · left; rfl
        · rename_i abs2 h2
          split
          · left; rfl
          · rename_i raw2 h3
            split
            · left; rfl
            · rename_i text2 h4
              split
              · left; rfl
              · left; rfl
              · rename_i n c hrec
                right
                have hc : c = text1 := ((doCmp_recorded_iff F _ n c).1 hrec).2.2.2.2.2
                subst hc
                exact ⟨name1, name2, c, abs2, raw2, text2, n, rfl, h1, h2, h3, hrec, rfl⟩
  · left; rfl

end GIV.TsRun.Cmds
