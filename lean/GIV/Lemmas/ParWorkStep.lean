/-
  GIV.Lemmas.ParWorkStep — the transition function of GIV.Model.ParWork as an inductive relation
  (one constructor per program point), the facts of GIV.Gen.ParWork it depends on, and counting lemmas.
-/
import GIV.Model.ParWork
namespace GIV.ParWork
open GIV.Gen.ParWork

/-! ### counting tasks by program counter class -/

/-- number of tasks `i < n` with `p (f i)` -/
def cnt (p : Pc → Bool) (f : Nat → Pc) : Nat → Nat
  | 0 => 0
  | n + 1 => cnt p f n + (if p (f n) then 1 else 0)

theorem cnt_le (p : Pc → Bool) (f : Nat → Pc) (n : Nat) : cnt p f n ≤ n := by
  induction n with
  | zero => simp [cnt]
  | succ n ih => simp only [cnt]; split <;> omega

theorem cnt_upd_ge (p : Pc → Bool) (f : Nat → Pc) (t : Nat) (v : Pc) (n : Nat) (h : n ≤ t) :
    cnt p (upd f t v) n = cnt p f n := by
  induction n with
  | zero => simp [cnt]
  | succ n ih =>
    have : n ≠ t := by omega
    simp [cnt, upd, this, ih (by omega)]

/-- changing the pc of task `t < n` moves one unit between the classes -/
theorem cnt_upd (p : Pc → Bool) (f : Nat → Pc) (t : Nat) (v : Pc) (n : Nat) (h : t < n) :
    cnt p (upd f t v) n + (if p (f t) then 1 else 0) = cnt p f n + (if p v then 1 else 0) := by
  induction n with
  | zero => omega
  | succ n ih =>
    by_cases htn : t = n
    · subst htn
      simp only [cnt, cnt_upd_ge p f t v t (Nat.le_refl t), upd, if_true]
      omega
    · have h1 : t < n := by omega
      have h2 : n ≠ t := fun h => htn h.symm
      have := ih h1
      simp only [cnt, upd, h2, if_false]
      omega

theorem cnt_upd_same (p : Pc → Bool) (f : Nat → Pc) (t : Nat) (v : Pc) (n : Nat) (h : p (f t) = p v) :
    cnt p (upd f t v) n = cnt p f n := by
  by_cases htn : t < n
  · have := cnt_upd p f t v n htn
    rw [h] at this
    omega
  · exact cnt_upd_ge p f t v n (by omega)

theorem cnt_eq_zero (p : Pc → Bool) (f : Nat → Pc) (n : Nat) (h : ∀ i, i < n → p (f i) = false) : cnt p f n = 0 := by
  induction n with
  | zero => rfl
  | succ n ih => simp [cnt, h n (by omega), ih (fun i hi => h i (by omega))]

theorem cnt_full (p : Pc → Bool) (f : Nat → Pc) (n : Nat) (h : cnt p f n = n) : ∀ i, i < n → p (f i) = true := by
  induction n with
  | zero => intro i hi; omega
  | succ n ih =>
    intro i hi
    simp only [cnt] at h
    have hle := cnt_le p f n
    by_cases hp : p (f n) = true
    · simp only [hp, if_true] at h
      by_cases hin : i = n
      · subst hin; exact hp
      · exact ih (by omega) i (by omega)
    · simp only [hp] at h
      simp at h
      omega

theorem cnt_pos (p : Pc → Bool) (f : Nat → Pc) (n : Nat) (i : Nat) (hi : i < n) (hp : p (f i) = true) : 0 < cnt p f n := by
  induction n with
  | zero => omega
  | succ n ih =>
    simp only [cnt]
    by_cases hin : i = n
    · subst hin; simp [hp]
    · have := ih (by omega); omega

/-- a predicate that holds for no task at or beyond `n` is counted completely below `n` -/
theorem cnt_bound (p : Pc → Bool) (f : Nat → Pc) (n N : Nat) (h : ∀ i, n ≤ i → p (f i) = false) : cnt p f N ≤ n := by
  induction N with
  | zero => simp [cnt]
  | succ N ih =>
    simp only [cnt]
    by_cases hN : n ≤ N
    · simp [h N hN]; exact ih
    · have := cnt_le p f N
      split <;> omega

/-! ### the regenerated facts, in the form the proofs use -/

theorem shapeOK_true : shapeOK = true := by decide

theorem loopHead_eq (s : State) (t : Nat) :
    loopHead s t =
      if s.todo = [] then
        (if s.waiting + 1 = s.running then { s with waiting := s.waiting + 1, pc := upd s.pc t .bcast }
         else { s with waiting := s.waiting + 1, pc := upd s.pc t .wait })
      else { s with pc := upd s.pc t .rand } := by
  unfold loopHead
  simp only [loopTest, allDone, incrementBeforeTest, broadcastOnAllDone]
  cases h : s.todo with
  | nil => simp
  | cons a l =>
    have : ¬ ((l.length : Int) + 1 = 0) := by omega
    simp [this]

/-- (whether and when `Add` signals is left open: the theorems hold for any signalling test) -/
theorem addBody_eq (s : State) (t : Nat) (k : Cont) (x : Item) :
    addBody s t k x =
      if x ∈ s.added then s.setPc t (.addUnlock k)
      else if (signalWhenWaiting && signalTest s.waiting) = true then
        { s with added := x :: s.added, todo := s.todo ++ [x], pc := upd s.pc t (.addSignal k) }
      else { s with added := x :: s.added, todo := s.todo ++ [x], pc := upd s.pc t (.addUnlock k) } := by
  unfold addBody
  simp only [addGuard, State.setPc]
  by_cases h : x ∈ s.added <;> by_cases h2 : (signalWhenWaiting && signalTest s.waiting) = true <;> simp [h, h2]

theorem afterSpawn_eq (c : Cfg) (i : Nat) : afterSpawn c i = if i < c.n then .spawn i else .lockTop := by
  unfold afterSpawn spawnCount
  by_cases h : i < c.n
  · have : (i : Int) ≤ (c.n : Int) - 1 := by omega
    simp [h, this]
  · have : ¬ (i : Int) ≤ (c.n : Int) - 1 := by omega
    simp [h, this]

theorem doPanics_eq (c : Cfg) : doPanics c.n = decide (c.n < 1) := by
  unfold doPanics
  by_cases h : c.n < 1
  · have : (c.n : Int) < 1 := by omega
    simp [h, this]
  · have : ¬ (c.n : Int) < 1 := by omega
    simp [h, this]

theorem decrementAfterWait_true : decrementAfterWait = true := rfl

/-! ### the step relation -/

/-- `Add(x)` is the next thing a task at pc `p` does; `k` says where it continues afterwards -/
inductive AddCall (c : Cfg) : Pc → Cont → Item → Prop
  | main {j x} : c.init[j]? = some x → AddCall c (.mainAdd j) (.main j) x
  | inF {y i x} : (c.children y)[i]? = some x → AddCall c (.inF y i) (.inF y i) x

inductive Step (c : Cfg) (s : State) (t : Nat) : Event → State → Prop
  | start : s.pc t = .init → Step c s t .start (s.setPc t (if t = 0 then .mainAdd 0 else .lockTop))
  | addLock {p k x} : s.pc t = p → AddCall c p k x → s.owner = none →
      Step c s t .lock (addBody { s with owner := some t } t k x)
  | doCall {j} : s.pc t = .mainAdd j → c.init[j]? = none →
      Step c s t (.doCall c.n) ({ s with running := c.n }.setPc t (if c.n < 1 then .panicNext else afterSpawn c 1))
  | panic : s.pc t = .panicNext → Step c s t .panic (s.setPc t .exited)
  | go {i} : s.pc t = .spawn i → Step c s t (.go i) ((s.setPc i .init).setPc t (afterSpawn c (i + 1)))
  | lockTop : s.pc t = .lockTop → s.owner = none → Step c s t .lock (loopHead { s with owner := some t } t)
  | wait : s.pc t = .wait → s.owner.isSome →
      Step c s t .wait ({ s with owner := none, waiters := s.waiters ++ [t] }.setPc t .wake)
  | wake : s.pc t = .wake → t ∈ s.woken → s.owner = none →
      Step c s t .wake (loopHead { s with owner := some t, woken := s.woken.erase t, waiting := s.waiting - 1 } t)
  | spurious : s.pc t = .wake → t ∈ s.waiters →
      Step c s t .spurious { s with waiters := s.waiters.erase t, woken := t :: s.woken }
  | bcast : s.pc t = .bcast →
      Step c s t (.broadcast s.waiters.length) ({ s with woken := s.waiters ++ s.woken, waiters := [] }.setPc t .unlockRet)
  | unlockRet : s.pc t = .unlockRet → s.owner.isSome → Step c s t .unlock ({ s with owner := none }.setPc t .returned)
  | doReturn : s.pc t = .returned → t = 0 → Step c s t .doReturn (s.setPc t .retd)
  | exitRunner : s.pc t = .returned → t ≠ 0 → Step c s t .exit (s.setPc t .exited)
  | exitMain : s.pc t = .retd → Step c s t .exit (s.setPc t .exited)
  | rand {k x} : s.pc t = .rand → s.todo[k]? = some x →
      Step c s t (.rand s.todo.length k) ({ s with todo := swapRemove s.todo k }.setPc t (.unlockRun x))
  | unlockRun {x} : s.pc t = .unlockRun x → s.owner.isSome → Step c s t .unlock ({ s with owner := none }.setPc t (.fEnter x))
  | fEnter {x} : s.pc t = .fEnter x → Step c s t (.fEnter x) ({ s with calls := s.calls ++ [x] }.setPc t (.inF x 0))
  | fExit {x k} : s.pc t = .inF x k → (c.children x)[k]? = none → Step c s t (.fExit x) (s.setPc t .lockTop)
  | signalNone {k} : s.pc t = .addSignal k → s.waiters = [] → Step c s t (.signal none) (s.setPc t (.addUnlock k))
  | signalSome {k w rest} : s.pc t = .addSignal k → s.waiters = w :: rest →
      Step c s t (.signal (some w)) ({ s with waiters := rest, woken := w :: s.woken }.setPc t (.addUnlock k))
  | addUnlock {k} : s.pc t = .addUnlock k → s.owner.isSome → Step c s t .unlock ({ s with owner := none }.setPc t (resume k))

theorem lockStep_some {s : State} {t : Nat} {s1 : State} :
    lockStep s t = some s1 ↔ s.owner = none ∧ s1 = { s with owner := some t } := by
  unfold lockStep
  split
  · rename_i h; simp only [Option.some.injEq]; exact ⟨fun h1 => ⟨h, h1.symm⟩, fun h1 => h1.2.symm⟩
  · rename_i h; simp only [reduceCtorEq, false_iff]; exact fun h1 => h h1.1

theorem unlockStep_some {s : State} {s1 : State} :
    unlockStep s = some s1 ↔ s.owner.isSome ∧ s1 = { s with owner := none } := by
  unfold unlockStep
  split
  · rename_i h; simp only [Option.some.injEq]; exact ⟨fun h1 => ⟨h, h1.symm⟩, fun h1 => h1.2.symm⟩
  · rename_i h; simp only [reduceCtorEq, false_iff]; exact fun h1 => h h1.1

/-- every transition of the executable model is one of the constructors above -/
theorem step_sound {c : Cfg} {s s' : State} {t : Nat} {e : Event} (h : step c s t e = some s') : Step c s t e s' := by
  unfold step at h
  simp only [shapeOK_true, Bool.not_true, Bool.false_eq_true, if_false] at h
  split at h
  · simp at h
  · simp at h
  · split at h
    · simp only [Option.some.injEq] at h; subst h; rename_i he; subst he; exact Step.start ‹_›
    · simp at h
  · rename_i j hpc
    split at h
    · rename_i x hx
      split at h
      · rename_i he; subst he
        simp only [Option.map_eq_some_iff] at h
        obtain ⟨s1, h1, h2⟩ := h
        obtain ⟨ho, rfl⟩ := lockStep_some.mp h1
        subst h2
        exact Step.addLock hpc (AddCall.main hx) ho
      · simp at h
    · rename_i hx
      split at h
      · rename_i he; subst he
        simp only [Option.some.injEq, doPanics_eq, decide_eq_true_eq] at h; subst h
        exact Step.doCall hpc hx
      · simp at h
  · split at h
    · rename_i hpc he; subst he; simp only [Option.some.injEq] at h; subst h; exact Step.panic hpc
    · simp at h
  · split at h
    · rename_i i hpc he; subst he; simp only [Option.some.injEq] at h; subst h; exact Step.go hpc
    · simp at h
  · split at h
    · rename_i hpc he; subst he
      simp only [Option.map_eq_some_iff] at h
      obtain ⟨s1, h1, h2⟩ := h
      obtain ⟨ho, rfl⟩ := lockStep_some.mp h1
      subst h2
      exact Step.lockTop hpc ho
    · simp at h
  · split at h
    · rename_i hpc he; subst he
      simp only [Option.map_eq_some_iff] at h
      obtain ⟨s1, h1, h2⟩ := h
      obtain ⟨ho, rfl⟩ := unlockStep_some.mp h1
      subst h2
      exact Step.wait hpc ho
    · simp at h
  · rename_i hpc
    split at h
    · rename_i he; subst he
      split at h
      · rename_i hw
        simp only [Option.map_eq_some_iff] at h
        obtain ⟨s1, h1, h2⟩ := h
        obtain ⟨ho, rfl⟩ := lockStep_some.mp h1
        subst h2
        simp only [decrementAfterWait_true, if_true]
        exact Step.wake hpc hw ho
      · simp at h
    · split at h
      · rename_i he; subst he
        split at h
        · rename_i hw; simp only [Option.some.injEq] at h; subst h; exact Step.spurious hpc hw
        · simp at h
      · simp at h
  · split at h
    · rename_i hpc he; subst he; simp only [Option.some.injEq] at h; subst h; exact Step.bcast hpc
    · simp at h
  · split at h
    · rename_i hpc he; subst he
      simp only [Option.map_eq_some_iff] at h
      obtain ⟨s1, h1, h2⟩ := h
      obtain ⟨ho, rfl⟩ := unlockStep_some.mp h1
      subst h2
      exact Step.unlockRet hpc ho
    · simp at h
  · rename_i hpc
    split at h
    · rename_i ht
      split at h
      · rename_i he; subst he; simp only [Option.some.injEq] at h; subst h; exact Step.doReturn hpc ht
      · simp at h
    · rename_i ht
      split at h
      · rename_i he; subst he; simp only [Option.some.injEq] at h; subst h; exact Step.exitRunner hpc ht
      · simp at h
  · split at h
    · rename_i hpc he; subst he; simp only [Option.some.injEq] at h; subst h; exact Step.exitMain hpc
    · simp at h
  · rename_i hpc
    split at h
    · rename_i len k
      split at h
      · rename_i x hx
        split at h
        · rename_i hl; subst hl; simp only [Option.some.injEq] at h; subst h; exact Step.rand hpc hx
        · simp at h
      · simp at h
    · simp at h
  · split at h
    · rename_i x hpc he; subst he
      simp only [Option.map_eq_some_iff] at h
      obtain ⟨s1, h1, h2⟩ := h
      obtain ⟨ho, rfl⟩ := unlockStep_some.mp h1
      subst h2
      exact Step.unlockRun hpc ho
    · simp at h
  · split at h
    · rename_i x hpc he; subst he; simp only [Option.some.injEq] at h; subst h; exact Step.fEnter hpc
    · simp at h
  · rename_i x k hpc
    split at h
    · rename_i ch hch
      split at h
      · rename_i he; subst he
        simp only [Option.map_eq_some_iff] at h
        obtain ⟨s1, h1, h2⟩ := h
        obtain ⟨ho, rfl⟩ := lockStep_some.mp h1
        subst h2
        exact Step.addLock hpc (AddCall.inF hch) ho
      · simp at h
    · rename_i hch
      split at h
      · rename_i he; subst he; simp only [Option.some.injEq] at h; subst h; exact Step.fExit hpc hch
      · simp at h
  · rename_i k hpc
    split at h
    · rename_i hw
      split at h
      · rename_i he; subst he; simp only [Option.some.injEq] at h; subst h; exact Step.signalNone hpc hw
      · simp at h
    · rename_i w rest hw
      split at h
      · rename_i he; subst he; simp only [Option.some.injEq] at h; subst h; exact Step.signalSome hpc hw
      · simp at h
  · split at h
    · rename_i k hpc he; subst he
      simp only [Option.map_eq_some_iff] at h
      obtain ⟨s1, h1, h2⟩ := h
      obtain ⟨ho, rfl⟩ := unlockStep_some.mp h1
      subst h2
      exact Step.addUnlock hpc ho
    · simp at h

end GIV.ParWork
