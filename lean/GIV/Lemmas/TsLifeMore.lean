/-
  More lemmas for GIV.Model.TsLife (property C04):
    §2  the initial environment depends on the host environment only through PATH, GOCOVERDIR, GORACE;
    §4b the `#N` probing loop takes the FIRST free candidate;
    §5  the reference-counted cleanup: the root goes last, every schedule has at most 2n+2 steps and
        the complete ones exactly 2n+2 (termination under every interleaving);
    §4  the final state of a run (`runFinal`, the state `runScript` projects its outcome from):
        `ts.background` is empty on every exit path.
-/
import GIV.Lemmas.TsLifeEnv
import GIV.Lemmas.TsLifeRef
import GIV.Lemmas.TsLifeRun
import GIV.Lemmas.TsLifeNames

namespace GIV.TsLife
open GIV

/-! ### §2 environment -/

/-- the host variables setup reads: the `.host` sources of the documented variables and the
pass-through variables. -/
def hostReads : List String :=
  (Gen.TsLife.documentedVars.filterMap fun kv => match kv.2 with | .host n => some n | _ => none) ++
    Gen.TsLife.passthroughVars

theorem evalSrc_congr (host host' : EnvList) (wd : String) (src : Gen.TsLife.VarSrc)
    (h : ∀ n, src = .host n → hostGetenv host n = hostGetenv host' n) :
    evalSrc host wd src = evalSrc host' wd src := by
  cases src <;> simp [evalSrc]
  exact h _ rfl

theorem filterMap_congr' {α β : Type} {f g : α → Option β} : ∀ (l : List α), (∀ a ∈ l, f a = g a) →
    l.filterMap f = l.filterMap g
  | [], _ => rfl
  | a :: rest, h => by
    simp only [List.filterMap_cons, h a (List.mem_cons_self ..)]
    rw [filterMap_congr' rest (fun b hb => h b (List.mem_cons_of_mem _ hb))]

/-- two host environments that agree on the variables setup reads give the same script
environment: the same list, entry for entry. -/
theorem initialEnv_congr (host host' : EnvList) (wd : String) (setup : EnvList)
    (h : ∀ k ∈ hostReads, hostGetenv host k = hostGetenv host' k) :
    initialEnv host wd setup = initialEnv host' wd setup := by
  have h1 : documentedPart host wd = documentedPart host' wd := by
    unfold documentedPart
    apply List.map_congr_left
    intro kv hkv
    rw [evalSrc_congr host host' wd kv.2]
    intro n hn
    apply h
    simp only [hostReads, List.mem_append, List.mem_filterMap]
    exact Or.inl ⟨kv, hkv, by rw [hn]⟩
  have h2 : passthroughPart host = passthroughPart host' := by
    unfold passthroughPart
    apply filterMap_congr'
    intro k hk
    rw [h k (by simp only [hostReads, List.mem_append]; exact Or.inr hk)]
  simp only [initialEnv, h1, h2]

/-! ### §4b names -/

theorem pickAux_first {taken : List String} {b : String} : ∀ (f i : Nat) {n : String},
    pickAux taken b f i = some n → ∃ j, i ≤ j ∧ n = cand b j ∧ n ∉ taken ∧ ∀ k, i ≤ k → k < j → cand b k ∈ taken
  | 0, _, _, h => by simp [pickAux] at h
  | f + 1, i, n, h => by
    simp only [pickAux] at h
    split at h
    · rename_i hc
      obtain ⟨j, hj, a, b', c⟩ := pickAux_first f (i + 1) h
      refine ⟨j, by omega, a, b', ?_⟩
      intro k hk hkj
      by_cases hki : k = i
      · subst hki; simpa using hc
      · exact c k (by omega) hkj
    · rename_i hc
      injection h with h; subst h
      exact ⟨i, Nat.le_refl _, rfl, by simpa using hc, fun k hk hkj => by omega⟩

/-- the name given is the first candidate `b, b#1, b#2, …` that is not taken. -/
theorem pickName_first (taken : List String) (b : String) :
    ∃ n j, pickName taken b = some n ∧ n = cand b j ∧ n ∉ taken ∧ ∀ k, k < j → cand b k ∈ taken := by
  have hs := pickName_isSome taken b
  cases h : pickName taken b with
  | none => simp [h] at hs
  | some n =>
    obtain ⟨j, _, a, b', c⟩ := pickAux_first _ 0 h
    exact ⟨n, j, rfl, a, b', fun k hk => c k (Nat.zero_le _) hk⟩

theorem workdirOf_injective (root a b : String) (h : workdirOf root a = workdirOf root b) : a = b := by
  unfold workdirOf at h
  have h1 : root ++ ("/" ++ (Gen.TsLife.workdirPrefix ++ a)) = root ++ ("/" ++ (Gen.TsLife.workdirPrefix ++ b)) := by
    simpa [String.append_assoc] using h
  exact append_left_cancel_str (append_left_cancel_str (append_left_cancel_str h1))

/-! ### §5 cleanup: the root goes last; termination -/

/-- once the root is gone the count is zero and every work directory is gone; a work directory that
still exists belongs to a finisher that has not started, and the root is still there. -/
theorem rc_root_last {n : Nat} {s : RC} (hi : RInv n s) :
    (s.root = false → s.count = 0 ∧ s.wd = List.replicate n false) ∧
    (∀ i : Nat, s.wd[i]? = some true → s.root = true ∧ s.pcs[i]? = some PC.rmAll) := by
  have hroot : s.root = false → s.count = 0 ∧ s.wd = List.replicate n false := by
    intro hr
    have hne : s.rootAttempts ≠ 0 := fun h0 => by have := hi.rootOK.2.2 h0; simp [hr] at this
    have hc : s.count = 0 := by
      have win := hi.win
      by_cases hc : s.count = 0
      · exact hc
      · simp only [hc, if_false] at win; omega
    refine ⟨hc, ?_⟩
    have hU : s.pcs.countP PC.undec = 0 := by have := hi.cnt; omega
    have hw := all_wd_false hi hU
    apply List.ext_getElem
    · simp [hi.lenW]
    · intro j h1 h2
      rw [List.all_eq_true] at hw
      have := hw s.wd[j] (List.getElem_mem h1)
      simpa using this
  refine ⟨hroot, ?_⟩
  intro i hw
  have hlt : i < s.wd.length := by
    rcases Nat.lt_or_ge i s.wd.length with h | h
    · exact h
    · rw [List.getElem?_eq_none h] at hw; cases hw
  have hip : i < s.pcs.length := by rw [hi.lenP, ← hi.lenW]; exact hlt
  have hp : s.pcs[i]? = some s.pcs[i] := List.getElem?_eq_getElem hip
  constructor
  · cases hr : s.root with
    | true => rfl
    | false =>
      have := (hroot hr).2
      rw [this, List.getElem?_replicate] at hw
      split at hw <;> cases hw
  · by_cases hpi : s.pcs[i] = .rmAll
    · rw [hp, hpi]
    · have := hi.wd i _ hp hpi
      rw [hw] at this; cases this

theorem countP_set_eq {l : List PC} {i : Nat} {a : PC} (h : l[i]? = some a) (b q : PC) :
    (l.set i b).countP (· == q) + (if a == q then 1 else 0) = l.countP (· == q) + (if b == q then 1 else 0) := by
  have hlt : i < l.length := by
    rcases Nat.lt_or_ge i l.length with h' | h'
    · exact h'
    · rw [List.getElem?_eq_none h'] at h; cases h
  have hpi : l[i] = a := by
    rw [List.getElem?_eq_getElem hlt] at h; injection h
  rw [List.countP_set hlt, hpi]
  by_cases haq : (a == q) = true
  · have := countP_pos_of_getElem? (p := (· == q)) h haq
    simp only [haq, if_true]
    omega
  · simp only [haq]
    simp

/-- what is left to do: two steps per finisher that has not started, one for one that has removed
its directory, two more for the one that will see (or has seen) zero. -/
def RC.todo (s : RC) : Nat :=
  2 * s.pcs.countP (· == PC.rmAll) + s.pcs.countP (· == PC.dec) + 2 * s.pcs.countP (· == PC.rmRoot) +
    s.pcs.countP (· == PC.cancel) + (if s.count = 0 then 0 else 2)

theorem todo_step [F : FRef] {n : Nat} {s s' : RC} {i : Nat} (hi : RInv n s) (h : s.step i = some s') :
    s'.todo + 1 = s.todo := by
  unfold RC.step at h
  split at h
  · cases h
  · cases h
  · rename_i hp
    injection h with h; subst h
    have a1 := countP_set_eq hp afterRmAll .rmAll
    have a2 := countP_set_eq hp afterRmAll .dec
    have a3 := countP_set_eq hp afterRmAll .rmRoot
    have a4 := countP_set_eq hp afterRmAll .cancel
    simp only [afterRmAll_eq] at a1 a2 a3 a4
    simp only [RC.todo, afterRmAll_eq]
    simp at a1 a2 a3 a4
    split <;> omega
  · rename_i hp
    injection h with h; subst h
    have hpos := countP_pos_of_getElem? (p := PC.undec) hp rfl
    have hc0 : s.count ≠ 0 := by have := hi.cnt; omega
    simp only [F.delta, F.zero, afterDecBranch_eq]
    by_cases hz : s.count + -1 = 0
    · have hzb : (s.count + -1 == 0) = true := by simp [hz]
      have a1 := countP_set_eq hp .rmRoot .rmAll
      have a2 := countP_set_eq hp .rmRoot .dec
      have a3 := countP_set_eq hp .rmRoot .rmRoot
      have a4 := countP_set_eq hp .rmRoot .cancel
      simp at a1 a2 a3 a4
      simp only [RC.todo, hzb, if_true]
      simp only [hz, hc0, if_true, if_false]
      omega
    · have hzb : (s.count + -1 == 0) = false := by simp [hz]
      have a1 := countP_set_eq hp .done .rmAll
      have a2 := countP_set_eq hp .done .dec
      have a3 := countP_set_eq hp .done .rmRoot
      have a4 := countP_set_eq hp .done .cancel
      simp at a1 a2 a3 a4
      simp only [RC.todo, hzb, Bool.false_eq_true, if_false]
      simp only [hz, hc0, if_false]
      omega
  · rename_i hp
    injection h with h; subst h
    have a1 := countP_set_eq hp .cancel .rmAll
    have a2 := countP_set_eq hp .cancel .dec
    have a3 := countP_set_eq hp .cancel .rmRoot
    have a4 := countP_set_eq hp .cancel .cancel
    simp at a1 a2 a3 a4
    simp only [RC.todo]
    split <;> omega
  · rename_i hp
    injection h with h; subst h
    have a1 := countP_set_eq hp afterDecBranch .rmAll
    have a2 := countP_set_eq hp afterDecBranch .dec
    have a3 := countP_set_eq hp afterDecBranch .rmRoot
    have a4 := countP_set_eq hp afterDecBranch .cancel
    simp only [afterDecBranch_eq] at a1 a2 a3 a4
    simp at a1 a2 a3 a4
    simp only [RC.todo, afterDecBranch_eq]
    split <;> omega

theorem todo_run [FRef] {n : Nat} : ∀ (sched : List Nat) {s s' : RC}, RInv n s → s.run sched = some s' →
    sched.length + s'.todo = s.todo
  | [], s, s', _, h => by simp [RC.run] at h; subst h; simp
  | i :: rest, s, s', hi, h => by
    simp only [RC.run] at h
    split at h
    · cases h
    · rename_i s1 h1
      have := todo_run rest (rinv_step hi h1) h
      have := todo_step hi h1
      simp only [List.length_cons]; omega

theorem todo_init [FRef] (n : Nat) (hn : 1 ≤ n) : (RC.init n false).todo = 2 * n + 2 := by
  have : ¬ n = 0 := by omega
  simp [RC.todo, RC.init, firstPC_eq, List.countP_replicate, this]

theorem todo_zero_iff {n : Nat} {s : RC} (hi : RInv n s) : s.todo = 0 ↔ s.complete = true := by
  constructor
  · intro h
    simp only [RC.todo] at h
    have h1 : s.pcs.countP (· == PC.rmAll) = 0 := by omega
    have h2 : s.pcs.countP (· == PC.dec) = 0 := by omega
    have h3 : s.pcs.countP (· == PC.rmRoot) = 0 := by omega
    have h4 : s.pcs.countP (· == PC.cancel) = 0 := by omega
    rw [List.countP_eq_zero] at h1 h2 h3 h4
    simp only [RC.complete, List.all_eq_true]
    intro p hp
    have := h1 p hp; have := h2 p hp; have := h3 p hp; have := h4 p hp
    cases p <;> simp_all
  · intro hc
    obtain ⟨_, _, _, _, _, hc0⟩ := rc_complete hi hc
    have hall : ∀ p ∈ s.pcs, p = .done := by
      simpa [RC.complete, List.all_eq_true] using hc
    have z : ∀ q : PC, q ≠ .done → s.pcs.countP (· == q) = 0 := by
      intro q hq
      rw [List.countP_eq_zero]; intro p hp; rw [hall p hp]
      simpa using fun h => hq h.symm
    simp [RC.todo, hc0, z .rmAll (by simp), z .dec (by simp), z .rmRoot (by simp), z .cancel (by simp)]

/-! ### §4 the final state of a run -/

/-- `runScript`, keeping the final script state (the state its trace / registered / finalFs are
projected from). -/
def runFinal (cfg : Cfg) (files : List Entry) (ops : List Op) : SState :=
  let workdir := workdirOf cfg.root cfg.name
  let s0 : SState := ⟨[], [], fs0, [], 0, .nop, [], [], false⟩
  match unpackFrom cfg.uniqueNames fs0 files with
  | (fs, some _) => (pendingDefers false).foldl runDefer { s0 with fs := fs }
  | (fs, none) =>
    let chain := cfg.setupDefers.foldl (fun c id => Chain.link id .none c) Chain.nop
    let s1 : SState := { s0 with fs := fs, env := initialEnv cfg.host workdir cfg.setupEnv, chain := chain, registered := cfg.setupDefers }
    let (s2, ex, _stopped) := loop cfg ops s1
    let s3 := match ex with
      | .returned => drainAll s2
      | _ => s2
    (pendingDefers true).foldl runDefer s3

theorem runScript_final (cfg : Cfg) (files : List Entry) (ops : List Op) :
    (runScript cfg files ops).trace = (runFinal cfg files ops).trace.reverse ∧
    (runScript cfg files ops).registered = (runFinal cfg files ops).registered ∧
    (runScript cfg files ops).finalFs = (runFinal cfg files ops).fs := by
  unfold runScript runFinal
  simp only
  generalize unpackFrom cfg.uniqueNames fs0 files = u
  obtain ⟨fs, err⟩ := u
  cases err with
  | some e => exact ⟨rfl, rfl, rfl⟩
  | none =>
    simp only
    generalize loop cfg ops _ = r
    obtain ⟨s2, ex, st⟩ := r
    cases ex <;> exact ⟨rfl, rfl, rfl⟩

theorem foldl_runDefer_bgflush (pre : List String) (s : SState) :
    ((pre ++ ["bgflush"]).foldl runDefer s).bg = [] := by
  rw [List.foldl_append]
  simp only [List.foldl_cons, List.foldl_nil, runDefer, bgFlush, emit]
  exact (drainAll_spec _).2.1

/-- on every exit path `ts.background` is empty when the run is over. -/
theorem runFinal_bg_empty [F : FRun] (cfg : Cfg) (files : List Entry) (ops : List Op) :
    (runFinal cfg files ops).bg = [] := by
  have hp0 : pendingDefers false = ["deferred"] ++ ["bgflush"] := by simp [pendingDefers, F.defers]
  have hp1 : pendingDefers true = ["applyUpdates", "deferred"] ++ ["bgflush"] := by simp [pendingDefers, F.defers]
  unfold runFinal
  simp only
  split
  · rw [hp0]; exact foldl_runDefer_bgflush _ _
  · rw [hp1]; exact foldl_runDefer_bgflush _ _

end GIV.TsLife
