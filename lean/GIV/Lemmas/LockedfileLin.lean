/-
  Linearization invariants of the lockedfile transition system (for C07):
  `HeadOK`  — while no exclusive lock is held on a file its contents are the newest entry of its
              commit history;
  `HistOK`  — the ghost snapshots of a running operation: `h0` (history at the call) is a suffix of
              `h1` (history at the flock step), and while the operation holds its lock the history
              of its file stays `h1`;
  `ReadOK`  — io.ReadAll under the shared lock accumulates a prefix of the (unchanging) contents.
-/
import GIV.Lemmas.LockedfileData
namespace GIV.Lockedfile
open GIV

def HeadOK (w : World) : Prop := ∀ p, (w.locks p).ex = none → (w.hist p).head? = some (w.content p)

theorem initWorld_HeadOK (files0 : Path → Option Bytes) : HeadOK (initWorld files0) := by
  intro p _; simp [initWorld, World.content]

/-- The exclusive holder disappears only together with a push on the history. -/
theorem osStep_ex_none {w w' : World} {c sc f r} (h : osStep w c sc f = some (w', r)) {p : Path}
    (hn : (w'.locks p).ex = none) : (w.locks p).ex = none ∨ w'.hist p = w.content p :: w.hist p := by
  have drop : ∀ fd0 q, ((dropLock w fd0 q).locks p).ex = none →
      (w.locks p).ex = none ∨ (dropLock w fd0 q).hist p = w.content p :: w.hist p := by
    intro fd0 q hd
    rw [dropLock_locks] at hd; rw [dropLock_hist]
    by_cases hq : p = q
    · subst hq
      by_cases he : (w.locks p).ex = some fd0
      · right; simp [he]
      · left; simpa [he] using hd
    · left; simpa [hq] using hd
  by_cases hctl : Sys.ctl sc = none
  · rcases Sys.open_or sc with ⟨q, fl, rfl⟩ | hop
    · rcases osStep_open_spec h with ⟨e, _, rfl⟩ | ⟨_, rfl⟩ <;> exact .inl hn
    · left; rw [← (osStep_data_spec h hctl hop).1]; exact hn
  · cases sc with
    | flock fd k =>
      rcases osStep_flock_spec h with ⟨e, _, rfl⟩ | ⟨o, _, hc, _, rfl⟩
      · exact .inl hn
      · cases k
        · by_cases hq : p = o.path
          · subst hq
            simp only [compatible, Bool.or_eq_true, beq_iff_eq] at hc
            rcases hc with hc | hc
            · exact .inl hc
            · right; simp [dropLock_hist, hc]
          · have : ((acquire w fd o.path .sh).locks p) = (dropLock w fd o.path).locks p := by
              simp [acquire, upd_other _ _ _ _ hq]
            rw [this] at hn
            simpa using drop fd o.path hn
        · by_cases hq : p = o.path
          · subst hq; simp [acquire] at hn
          · have : ((acquire w fd o.path .ex).locks p) = (dropLock w fd o.path).locks p := by
              simp [acquire, upd_other _ _ _ _ hq]
            rw [this] at hn
            simpa using drop fd o.path hn
    | funlock fd =>
      rcases osStep_funlock_spec h with ⟨e, _, rfl⟩ | ⟨o, _, _, rfl⟩
      · exact .inl hn
      · exact drop fd o.path hn
    | close fd =>
      rcases osStep_close_spec h with rfl | ⟨o, _, _, rfl⟩
      · exact .inl hn
      · exact drop fd o.path hn
    | _ => simp [Sys.ctl] at hctl

/-- A call that changes contents does not touch the lock table. -/
theorem osStep_content_locks {w w' : World} {c sc f r} (h : osStep w c sc f = some (w', r)) {p : Path}
    (hne : w'.content p ≠ w.content p) : w'.locks = w.locks ∧ w'.hist = w.hist := by
  rcases osStep_content h hne with ⟨fl, rfl, _⟩ | ⟨fd, o, hd, _⟩
  · rcases osStep_open_spec h with ⟨e, _, rfl⟩ | ⟨_, rfl⟩ <;> exact ⟨rfl, rfl⟩
  · have hctl : Sys.ctl sc = none := by cases sc <;> simp [Sys.dataFd] at hd <;> rfl
    have hop : ∀ p fl, sc ≠ .open p fl := by intro p fl e; subst e; simp [Sys.dataFd] at hd
    exact ⟨(osStep_data_spec h hctl hop).1, (osStep_data_spec h hctl hop).2.1⟩

theorem step_HeadOK {s s' : State} {l : Label} (hi : Inv1 s) (hh : HeadOK s.w) (h : step s l = some s') :
    HeadOK s'.w := by
  obtain ⟨c, a⟩ := l
  cases a with
  | call op => obtain ⟨_, _, rfl⟩ := step_call h; exact hh
  | ret => obtain ⟨_, _, _, _, rfl⟩ := step_ret h; exact hh
  | sys f n =>
    have h0 := h
    obtain ⟨fr, sc, tag, w', r, hcur, hs, hos, rfl⟩ := step_sys h
    intro p hn
    by_cases hne : w'.content p = s.w.content p
    · rcases osStep_ex_none hos hn with h1 | h1
      · rcases osStep_hist hos p with e | ⟨_, _, _, e⟩
        · rw [e, hne]; exact hh p h1
        · rw [e, hne]; rfl
      · rw [h1, hne]; rfl
    · obtain ⟨fd, fl, _, hex⟩ := step_mutates hi h0 hne
      obtain ⟨hl, _⟩ := osStep_content_locks hos hne
      simp only [holdsFd] at hex
      simp only at hn
      rw [hl, hex] at hn; cases hn


/-! ### the history snapshots of a running operation -/

def Op.opens : Op → Bool
  | .closeH _ => false
  | .unlockM _ => false
  | .user _ _ => false
  | _ => true

def Pc.preLock : Pc → Bool
  | .open => true
  | .lock _ => true
  | _ => false

def HistOK (w : World) (fr : Frame) : Prop :=
  if fr.pc.preLock then fr.h1 = [] ∧ fr.h0 <:+ w.hist fr.op.path
  else if fr.pc.locked then w.hist fr.op.path = fr.h1 ∧ fr.h0 <:+ fr.h1
  else fr.h1 = [] ∨ fr.h0 <:+ fr.h1

theorem histOK_of_snap {w : World} {fr : Frame} (hp : fr.pc.preLock = false)
    (h : w.hist fr.op.path = fr.h1 ∧ fr.h0 <:+ fr.h1) : HistOK w fr := by
  unfold HistOK; rw [if_neg (by simp [hp])]
  split
  · exact h
  · exact .inr h.2

theorem histOK_post {w : World} {fr : Frame} (hp : fr.pc.preLock = false) (hl : fr.pc.locked = false)
    (h : fr.h1 = [] ∨ fr.h0 <:+ fr.h1) : HistOK w fr := by
  unfold HistOK; rw [if_neg (by simp [hp]), if_neg (by simp [hl])]; exact h

theorem afterOpen_not_preLock (op : Op) (fd : Fd) : (afterOpen op fd).preLock = false := by
  cases op <;> simp only [afterOpen, finPc_eq] <;> first | rfl | (split <;> rfl)

theorem afterLock_not_preLock (op : Op) (fd : Fd) : (afterLock op fd).preLock = false := by
  unfold afterLock; split
  · rfl
  · exact afterOpen_not_preLock op fd

theorem advancePc_data_not_preLock (op : Op) (pc : Pc) (n : Nat) (r : Res) (hd : pc.isData = true) :
    (advancePc op pc n r).preLock = false := by
  cases pc <;> simp [Pc.isData] at hd
  all_goals simp only [advancePc, finPc_eq, rollbackPc, Gen.Lockedfile.truncAfterLock, if_true]
  all_goals (repeat' split)
  all_goals first | rfl | exact afterOpen_not_preLock _ _

theorem nextFrame_h1_eq {w w' : World} {fr : Frame} {sc tag f n r} (h : ∀ fd, fr.pc ≠ .lock fd) :
    (nextFrame w w' fr sc tag f n r).h1 = fr.h1 := by
  cases hpc : fr.pc <;> simp [nextFrame, hpc]
  exact absurd hpc (h _)

/-- The running operation's own step keeps `HistOK`. -/
theorem hist_step {w w' : World} {c held} {fr : Frame} {n sc tag f r}
    (hf : FrameOK w c held fr) (hh : HistOK w fr) (hs : sysOf fr n = some (sc, tag))
    (h : osStep w c sc f = some (w', r)) : HistOK w' (nextFrame w w' fr sc tag f n r) := by
  by_cases hd : fr.pc.isData = true
  · have hctl := sysOf_data hd hs
    have hop : ∀ p fl, sc ≠ .open p fl := by
      intro p fl e; subst e
      cases hpc : fr.pc <;> simp [hpc, Pc.isData] at hd <;> simp only [sysOf, hpc] at hs
      all_goals (first | (split at hs <;> simp at hs) | simp at hs)
    have hhist := (osStep_data_spec h hctl hop).2.1
    have hl := Pc.isData_locked hd
    have hnp : fr.pc.preLock = false := by cases hpc : fr.pc <;> simp [hpc, Pc.isData] at hd <;> rfl
    unfold HistOK at hh; rw [if_neg (by simp [hnp]), if_pos hl] at hh
    apply histOK_of_snap (advancePc_data_not_preLock fr.op fr.pc n r hd)
    rw [nextFrame_h1_eq (by intro fd e; rw [e] at hd; simp [Pc.isData] at hd)]
    show w'.hist fr.op.path = fr.h1 ∧ fr.h0 <:+ fr.h1
    rw [hhist]; exact hh
  · cases hpc : fr.pc <;> simp [hpc, Pc.isData] at hd <;> simp only [sysOf, hpc] at hs
    case «open» =>
      simp at hs; obtain ⟨rfl, _⟩ := hs
      simp only [HistOK, hpc, Pc.preLock, if_true] at hh
      have hw : w'.hist = w.hist := by rcases osStep_open_spec h with ⟨e, _, rfl⟩ | ⟨_, rfl⟩ <;> rfl
      have h1 : (nextFrame w w' fr (.open fr.op.path (openFlags fr.op.flag)) tag f n r).h1 = [] := by
        rw [nextFrame_h1_eq (by intro fd e; rw [hpc] at e; cases e)]; exact hh.1
      rcases osStep_open_spec h with ⟨e, rfl, _⟩ | ⟨rfl, _⟩
      · exact histOK_post (by simp [nextFrame, hpc, advancePc, finPc_eq, Pc.preLock]) (by simp [nextFrame, hpc, advancePc, finPc_eq, Pc.locked]) (.inl h1)
      · have : (nextFrame w w' fr (.open fr.op.path (openFlags fr.op.flag)) tag f n (.fd w.nextFd)).pc.preLock = true := by
          simp [nextFrame, hpc, advancePc, finPc_eq, Gen.Lockedfile.truncAfterLock, Pc.preLock]
        unfold HistOK; rw [if_pos this]
        exact ⟨h1, by rw [hw]; exact hh.2⟩
    case lock fd =>
      simp at hs; obtain ⟨rfl, _⟩ := hs
      simp only [HistOK, hpc, Pc.preLock, if_true] at hh
      rcases osStep_flock_spec h with ⟨e, rfl, rfl⟩ | ⟨o, ho, hc, rfl, rfl⟩
      · have h1 : (nextFrame w' w' fr (.flock fd (lockMode fr.op.flag)) tag f n (.err e)).h1 = [] := by
          simp [nextFrame, hpc]; exact hh.1
        have : (nextFrame w' w' fr (.flock fd (lockMode fr.op.flag)) tag f n (.err e)).pc = .lock fd ∨
            (nextFrame w' w' fr (.flock fd (lockMode fr.op.flag)) tag f n (.err e)).pc = .close fd .err false := by
          simp only [nextFrame, hpc, advancePc, finPc_eq]
          cases e <;> simp [Gen.Lockedfile.retriesEINTR]
        rcases this with hp | hp
        · unfold HistOK; rw [hp]; simp only [Pc.preLock, if_true]; exact ⟨h1, hh.2⟩
        · exact histOK_post (by rw [hp]; rfl) (by rw [hp]; rfl) (.inl h1)
      · apply histOK_of_snap
        · simp only [nextFrame, hpc, advancePc, finPc_eq]; exact afterLock_not_preLock _ _
        · show (acquire w fd o.path (lockMode fr.op.flag)).hist fr.op.path =
              (nextFrame w (acquire w fd o.path (lockMode fr.op.flag)) fr (.flock fd (lockMode fr.op.flag)) tag f n .ok).h1 ∧
            fr.h0 <:+ (nextFrame w (acquire w fd o.path (lockMode fr.op.flag)) fr (.flock fd (lockMode fr.op.flag)) tag f n .ok).h1
          have : (nextFrame w (acquire w fd o.path (lockMode fr.op.flag)) fr (.flock fd (lockMode fr.op.flag)) tag f n .ok).h1 =
              (acquire w fd o.path (lockMode fr.op.flag)).hist fr.op.path := by simp [nextFrame, hpc]
          rw [this]
          exact ⟨rfl, hh.2.trans (osStep_hist_suffix h _)⟩
    case unlock fd ret =>
      simp at hs; obtain ⟨rfl, _⟩ := hs
      simp only [HistOK, hpc, Pc.preLock, Pc.locked, if_true, Bool.false_eq_true, if_false] at hh
      have h1 : (nextFrame w w' fr (.funlock fd) tag f n r).h1 = fr.h1 :=
        nextFrame_h1_eq (by intro fd e; rw [hpc] at e; cases e)
      rcases osStep_funlock_spec h with ⟨e, rfl, rfl⟩ | ⟨o, ho, rfl, rfl⟩
      · apply histOK_of_snap
        · simp only [nextFrame, hpc, advancePc, finPc_eq]; cases e <;> simp [Gen.Lockedfile.retriesEINTR, Pc.preLock]
        · rw [h1]; exact hh
      · exact histOK_post (by simp [nextFrame, hpc, advancePc, finPc_eq, Pc.preLock]) (by simp [nextFrame, hpc, advancePc, finPc_eq, Pc.locked])
          (.inr (by rw [h1]; exact hh.2))
    case close fd ret b =>
      simp at hs; obtain ⟨rfl, _⟩ := hs
      have h1 : (nextFrame w w' fr (.close fd) tag f n r).h1 = fr.h1 :=
        nextFrame_h1_eq (by intro fd e; rw [hpc] at e; cases e)
      have hpost : fr.h1 = [] ∨ fr.h0 <:+ fr.h1 := by
        simp only [HistOK, hpc, Pc.preLock, Pc.locked, Bool.false_eq_true, if_false] at hh
        cases b
        · simpa using hh
        · simp at hh; exact .inr hh.2
      have : ∃ ret', (nextFrame w w' fr (.close fd) tag f n r).pc = .done ret' ∧ ret'.isHandle = false := by
        have hr' : ret.isHandle = false := by have := hf.ret; rw [hpc] at this; exact this
        simp only [nextFrame, hpc, advancePc, finPc_eq]
        split
        · exact ⟨_, rfl, hr'⟩
        · exact ⟨_, rfl, closeRet_isHandle _ _ _ hr'⟩
      obtain ⟨ret', hp, hr''⟩ := this
      refine histOK_post (by rw [hp]; rfl) (by rw [hp]; cases ret' <;> simp [Pc.locked, Ret.isHandle] at hr'' ⊢) ?_
      rw [h1]; exact hpost
    case user s' =>
      simp at hs; obtain ⟨rfl, _⟩ := hs
      simp only [HistOK, hpc, Pc.preLock, Pc.locked, Bool.false_eq_true, if_false] at hh
      exact histOK_post (by simp [nextFrame, hpc, advancePc, finPc_eq, Pc.preLock]) (by simp [nextFrame, hpc, advancePc, finPc_eq, Pc.locked])
        (by rw [nextFrame_h1_eq (by intro fd e; rw [hpc] at e; cases e)]; exact hh)
    case done r' => cases hs


theorem Pc.locked_fd {pc : Pc} (h : pc.locked = true) : ∃ fd, pc.fd? = some fd := by
  cases pc <;> simp [Pc.locked] at h <;> first | exact ⟨_, rfl⟩ | skip
  rename_i r; cases r <;> simp at h; exact ⟨_, rfl⟩

theorem startPc_opens {op : Op} (h : op.opens = true) : startPc op = .open := by
  cases op <;> simp [Op.opens] at h <;> rfl

/-- A step of another client keeps `HistOK` of a frame (it holds its lock, so nobody commits on its file). -/
theorem histOK_other {s s' : State} {c0 c : Cid} {a : Act} (hi : Inv1 s) (h : step s ⟨c0, a⟩ = some s')
    (hc : c ≠ c0) {fr : Frame} (hcur : (s.cl c).cur = some fr) (hh : HistOK s.w fr) : HistOK s'.w fr := by
  unfold HistOK at hh ⊢
  have hfr := (hi.clients c).frame fr hcur
  split
  · rename_i hp; rw [if_pos hp] at hh
    refine ⟨hh.1, hh.2.trans ?_⟩
    cases a with
    | call op => obtain ⟨_, _, rfl⟩ := step_call h; exact List.suffix_refl _
    | ret => obtain ⟨_, _, _, _, rfl⟩ := step_ret h; exact List.suffix_refl _
    | sys f n => obtain ⟨_, _, _, _, _, _, _, hos, rfl⟩ := step_sys h; exact osStep_hist_suffix hos _
  · rename_i hp; rw [if_neg hp] at hh
    split
    · rename_i hl; rw [if_pos hl] at hh
      obtain ⟨fd, hfd⟩ := Pc.locked_fd hl
      obtain ⟨ho, _, hk⟩ := hfr.fd fd hfd
      rw [if_pos hl] at hk
      have := (other_step_stable hi h hc ho).2.2 _ hk
      rw [this.2]; exact hh
    · rename_i hl; rw [if_neg hl] at hh; exact hh

structure Inv2 (s : State) : Prop where
  head : HeadOK s.w
  hist : ∀ c fr, (s.cl c).cur = some fr → fr.op.opens = true → HistOK s.w fr

theorem init_Inv2 (files0 : Path → Option Bytes) : Inv2 (init files0) :=
  ⟨initWorld_HeadOK files0, fun c fr h => by simp [init] at h⟩

theorem step_Inv2 {s s' : State} {l : Label} (hi : Inv1 s) (h2 : Inv2 s) (h : step s l = some s') : Inv2 s' := by
  refine ⟨step_HeadOK hi h2.head h, ?_⟩
  obtain ⟨c0, a⟩ := l
  intro c fr hcur hop
  by_cases hc : c = c0
  · subst hc
    cases a with
    | call op =>
      obtain ⟨_, _, rfl⟩ := step_call h
      rw [setClient_cl_same] at hcur
      simp only [Option.some.injEq] at hcur; subst hcur
      simp only at hop
      unfold HistOK
      rw [if_pos (by simp only [startPc_opens hop]; rfl)]
      exact ⟨rfl, List.suffix_refl _⟩
    | ret =>
      obtain ⟨_, _, _, _, rfl⟩ := step_ret h
      rw [setClient_cl_same] at hcur; cases hcur
    | sys f n =>
      obtain ⟨fr0, sc, tag, w', r, hcur0, hs, hos, rfl⟩ := step_sys h
      simp only [upd_same, Option.some.injEq] at hcur; subst hcur
      exact hist_step ((hi.clients c).frame fr0 hcur0) (h2.hist c fr0 hcur0 hop) hs hos
  · have hsame : (s'.cl c).cur = (s.cl c).cur := by
      cases a with
      | call op => obtain ⟨_, _, rfl⟩ := step_call h; rw [setClient_cl_other _ _ _ _ hc]
      | ret => obtain ⟨_, _, _, _, rfl⟩ := step_ret h; rw [setClient_cl_other _ _ _ _ hc]
      | sys f n => obtain ⟨_, _, _, _, _, _, _, _, rfl⟩ := step_sys h; simp only [upd_other _ _ _ _ hc]
    rw [hsame] at hcur
    exact histOK_other hi h hc hcur (h2.hist c fr hcur hop)

theorem reachable_Inv2 {files0 : Path → Option Bytes} {s : State} (h : Reachable files0 s) : Inv2 s := by
  induction h with
  | init => exact init_Inv2 files0
  | step l hr hs ih => exact step_Inv2 (reachable_Inv1 hr) ih hs


/-! ### Read: io.ReadAll under the shared lock -/

def ReadP (w : World) (p : Path) (h1 : List Bytes) : Pc → Prop
  | .lock fd => ∃ o, w.fds fd = some o ∧ o.off = 0
  | .readAll fd acc => ∃ o, w.fds fd = some o ∧ acc = (w.content p).take acc.length ∧ o.off = acc.length
  | .unlock _ ret => ∀ v, ret = .bytes v → h1.head? = some v
  | .close _ ret _ => ∀ v, ret = .bytes v → h1.head? = some v
  | .done ret => ∀ v, ret = .bytes v → h1.head? = some v
  | .open => True
  | _ => False  -- control points a Read never reaches

def ReadOK (w : World) (fr : Frame) : Prop := ReadP w fr.op.path fr.h1 fr.pc

theorem take_length_take (l : Bytes) (n : Nat) : l.take (l.take n).length = l.take n := by
  rw [List.length_take]
  by_cases h : n ≤ l.length
  · rw [Nat.min_eq_left h]
  · rw [Nat.min_eq_right (by omega), List.take_length, List.take_of_length_le (by omega)]

theorem readOK_step {s : State} {w' : World} {c : Cid} {fr : Frame} {p n sc tag f r} (hi : Inv1 s) (h2 : Inv2 s)
    (hcur : (s.cl c).cur = some fr) (hop : fr.op = .read p) (hr : ReadOK s.w fr)
    (hs : sysOf fr n = some (sc, tag)) (h : osStep s.w c sc f = some (w', r)) :
    ReadOK w' (nextFrame s.w w' fr sc tag f n r) := by
  have hfr := (hi.clients c).frame fr hcur
  have hh := h2.hist c fr hcur (by rw [hop]; rfl)
  have hflag : fr.op.flag = Gen.Lockedfile.flagsOpen := by rw [hop]; rfl
  suffices H : ∀ pc' h1', advancePc fr.op fr.pc n r = pc' → (nextFrame s.w w' fr sc tag f n r).h1 = h1' →
      ReadP w' fr.op.path h1' pc' from H _ _ rfl rfl
  intro pc' h1' hpc' hh1
  unfold ReadOK at hr
  cases hpc : fr.pc <;> simp only [sysOf, hpc] at hs <;> rw [hpc] at hpc' hr
  case «open» =>
    simp at hs; obtain ⟨rfl, _⟩ := hs
    rcases osStep_open_spec h with ⟨e, rfl, rfl⟩ | ⟨rfl, rfl⟩
    · simp only [advancePc, finPc_eq] at hpc'; subst hpc'
      intro v hv; cases hv
    · simp [advancePc, finPc_eq, Gen.Lockedfile.truncAfterLock] at hpc'; subst hpc'
      exact ⟨_, upd_same _ _ _, rfl⟩
  case lock fd =>
    simp at hs; obtain ⟨rfl, _⟩ := hs
    rcases osStep_flock_spec h with ⟨e, rfl, rfl⟩ | ⟨o, ho, hc, rfl, rfl⟩
    · have : pc' = .lock fd ∨ pc' = .close fd .err false := by
        rw [← hpc']; simp only [advancePc, finPc_eq]
        cases e <;> simp [Gen.Lockedfile.retriesEINTR]
      rcases this with hp | hp <;> subst hp
      · exact hr
      · intro v hv; cases hv
    · have : pc' = .readAll fd [] := by
        rw [← hpc']
        simp only [advancePc, finPc_eq, afterLock, hop, Op.flag, afterOpen, finPc_eq]
        have : wantsTrunc Gen.Lockedfile.flagsOpen = false := by decide
        simp [this]
      subst this
      obtain ⟨o', ho', hoff⟩ := hr
      exact ⟨o', by simpa using ho', by simp, by simpa using hoff⟩
  case readAll fd acc =>
    split at hs
    · cases hs
    · simp at hs; obtain ⟨rfl, _⟩ := hs
      obtain ⟨o, ho, hacc, hoff⟩ := hr
      obtain ⟨ow, _, hlk⟩ := hfr.fd fd (by simp [hpc, Pc.fd?])
      simp only [hpc, Pc.locked, if_true] at hlk
      have hop' : o.path = fr.op.path := ow.path ho
      rcases osStep_read_spec h with ⟨e, rfl, rfl⟩ | ⟨o', ho', _, ⟨hlt, rfl, rfl⟩ | ⟨hge, rfl, rfl⟩⟩
      · simp only [advancePc, finPc_eq] at hpc'; subst hpc'
        intro v hv; cases hv
      · rw [ho] at ho'; cases ho'
        simp only [advancePc, finPc_eq] at hpc'; subst hpc'
        refine ⟨_, upd_same _ _ _, ?_, ?_⟩
        · show acc ++ _ = List.take (acc ++ _).length (s.w.content fr.op.path)
          rw [List.length_append, List.take_add, ← hacc, hop', hoff]
          congr 1
          exact (take_length_take _ n).symm
        · simp [hoff, hop']
      · rw [ho] at ho'; cases ho'
        simp only [advancePc, finPc_eq] at hpc'; subst hpc'
        intro v hv; cases hv
        -- the whole file has been read; under the shared lock it is the newest committed value
        have hD : acc = s.w.content fr.op.path := by
          rw [hacc]; apply List.take_of_length_le
          rw [← hoff, ← hop']; exact Nat.le_of_not_lt hge
        have hsh : lockMode fr.op.flag = .sh := by rw [hflag]; decide
        rw [hsh] at hlk
        have hex : (s.w.locks fr.op.path).ex = none := by
          cases hx : (s.w.locks fr.op.path).ex with
          | none => rfl
          | some x => exact absurd hlk (hi.world.exExcl _ x fd hx)
        have := h2.head _ hex
        simp only [HistOK, hpc, Pc.preLock, Pc.locked, if_true, Bool.false_eq_true, if_false] at hh
        rw [← hh1, nextFrame_h1_eq (by intro fd e; rw [hpc] at e; cases e), ← hh.1, this, hD]
  case unlock fd ret =>
    simp at hs; obtain ⟨rfl, _⟩ := hs
    rw [nextFrame_h1_eq (by intro fd e; rw [hpc] at e; cases e)] at hh1; subst hh1
    have hcr : closeRet fr.op ret true = ret := by simp [closeRet, hop, reportsCloseErr]
    have : pc' = .unlock fd ret ∨ ∃ b, pc' = .close fd ret b := by
      rw [← hpc']; simp only [advancePc, finPc_eq, hcr]
      cases r <;> simp
      rename_i e; cases e <;> simp [Gen.Lockedfile.retriesEINTR]
    rcases this with hp | ⟨b, hp⟩ <;> subst hp <;> exact hr
  case close fd ret b =>
    simp at hs; obtain ⟨rfl, _⟩ := hs
    rw [nextFrame_h1_eq (by intro fd e; rw [hpc] at e; cases e)] at hh1; subst hh1
    have hcr : closeRet fr.op ret true = ret := by simp [closeRet, hop, reportsCloseErr]
    have : pc' = .done ret := by
      rw [← hpc']; simp only [advancePc, finPc_eq, hcr]; split <;> rfl
    subst this; exact hr
  case done r' => cases hs
  all_goals exact hr.elim

def Inv3 (s : State) : Prop := ∀ c fr p, (s.cl c).cur = some fr → fr.op = .read p → ReadOK s.w fr

theorem init_Inv3 (files0 : Path → Option Bytes) : Inv3 (init files0) := fun c fr p h => by simp [init] at h

theorem step_Inv3 {s s' : State} {l : Label} (hi : Inv1 s) (h2 : Inv2 s) (h3 : Inv3 s) (h : step s l = some s') :
    Inv3 s' := by
  obtain ⟨c0, a⟩ := l
  intro c fr p hcur hop
  by_cases hc : c = c0
  · subst hc
    cases a with
    | call op =>
      obtain ⟨_, _, rfl⟩ := step_call h
      rw [setClient_cl_same] at hcur
      simp only [Option.some.injEq] at hcur; subst hcur
      simp only at hop; subst hop
      trivial
    | ret =>
      obtain ⟨_, _, _, _, rfl⟩ := step_ret h
      rw [setClient_cl_same] at hcur; cases hcur
    | sys f n =>
      obtain ⟨fr0, sc, tag, w', r, hcur0, hs, hos, rfl⟩ := step_sys h
      simp only [upd_same, Option.some.injEq] at hcur; subst hcur
      exact readOK_step hi h2 hcur0 hop (h3 c fr0 p hcur0 hop) hs hos
  · have hsame : (s'.cl c).cur = (s.cl c).cur := by
      cases a with
      | call op => obtain ⟨_, _, rfl⟩ := step_call h; rw [setClient_cl_other _ _ _ _ hc]
      | ret => obtain ⟨_, _, _, _, rfl⟩ := step_ret h; rw [setClient_cl_other _ _ _ _ hc]
      | sys f n => obtain ⟨_, _, _, _, _, _, _, _, rfl⟩ := step_sys h; simp only [upd_other _ _ _ _ hc]
    rw [hsame] at hcur
    have hr := h3 c fr p hcur hop
    have hfr := (hi.clients c).frame fr hcur
    unfold ReadOK at hr ⊢
    cases hpc : fr.pc <;> rw [hpc] at hr <;> first | exact hr | exact hr.elim | skip
    case lock fd =>
      obtain ⟨ho, _, _⟩ := hfr.fd fd (by simp [hpc, Pc.fd?])
      obtain ⟨o, ho', hoff⟩ := hr
      exact ⟨o, by rw [(other_step_stable hi h hc ho).1]; exact ho', hoff⟩
    case readAll fd acc =>
      obtain ⟨ho, _, hk⟩ := hfr.fd fd (by simp [hpc, Pc.fd?])
      simp only [hpc, Pc.locked, if_true] at hk
      obtain ⟨o, ho', hacc, hoff⟩ := hr
      have := other_step_stable hi h hc ho
      exact ⟨o, by rw [this.1]; exact ho', by rw [(this.2.2 _ hk).1]; exact hacc, hoff⟩

theorem reachable_Inv3 {files0 : Path → Option Bytes} {s : State} (h : Reachable files0 s) : Inv3 s := by
  induction h with
  | init => exact init_Inv3 files0
  | step l hr hs ih => exact step_Inv3 (reachable_Inv1 hr) (reachable_Inv2 hr) ih hs

end GIV.Lockedfile
